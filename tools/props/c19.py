"""C19 — error handling and library context behave as a well-defined state machine.
Generated try/throw/catch/finally programs printed with the real macros of include/relic_err.h."""
import hashlib, os

GENERATED = ["params"]
TRUSTED = [
    "setjmp/longjmp and the C compiler are modelled (a throw transfers to the frame ctx->last points to), not verified",
    "the generated C programs print the AST with the real RLC_TRY/RLC_CATCH/RLC_CATCH_ANY/RLC_FINALLY/RLC_THROW macros; the printer "
    "(tools/props/c19.py) is part of the correspondence harness",
]
ASSUMPTIONS = [
    "thread interleavings are not expressible in the model: per-context independence is modelled as state passed explicitly",
]
RULE = ("random program ASTs (depth <= 6; try inside body, handler and finally; rethrow ERR_CAUGHT; catch-with-variable and catch-any; throws "
        "outside any block; err_get_code observations), each compiled against the freshly built library; non-trivial = distinct program "
        "containing at least one throw and one protected block")

ERRS = {1: "ERR_NO_MEMORY", 2: "ERR_NO_PRECI", 3: "ERR_NO_FILE", 4: "ERR_NO_READ", 5: "ERR_NO_VALID", 0: "ERR_CAUGHT"}


def gen_prog(rng, depth, in_try):
    """returns a list of items; item = ('a', n) | ('t', e) | ('g',) | ('try', body, handler, fin, var)"""
    items = []
    n = 1 + rng.below(4 if depth > 0 else 5)
    for _ in range(n):
        k = rng.below(100)
        if k < 35 or depth <= 0 and k < 60:
            items.append(("a", rng.below(50)))
        elif k < 50:
            # throws are more likely inside protected code; rethrow only makes sense inside handlers but is legal anywhere
            e = rng.choice([1, 2, 3, 4, 5, 5, 0])
            if not in_try and rng.chance(2, 3):
                items.append(("a", rng.below(50)))
            else:
                items.append(("t", e))
        elif k < 58:
            items.append(("g",))
        elif depth > 0:
            body = gen_prog(rng, depth - 1, True)
            handler = gen_prog(rng, depth - 1, in_try) if rng.chance(4, 5) else []
            fin = gen_prog(rng, depth - 2, in_try) if rng.chance(1, 2) else []
            items.append(("try", body, handler, fin, rng.chance(1, 2)))
        else:
            items.append(("a", rng.below(50)))
    return items


def enc(items):
    out = []
    for it in items:
        if it[0] == "a":
            out.append("a%d;" % it[1])
        elif it[0] == "t":
            out.append("t%d;" % it[1])
        elif it[0] == "g":
            out.append("g;")
        else:
            out.append("[%s|%s|%s]%s" % (enc(it[1]), enc(it[2]), enc(it[3]), "v" if it[4] else "n"))
    return "".join(out)


class CPrinter:
    def __init__(self):
        self.funcs = []
        self.nf = 0

    def items(self, items, ind, outline_ok=True):
        s = ""
        for it in items:
            if it[0] == "a":
                s += "%sT(%d);\n" % (ind, it[1])
            elif it[0] == "t":
                s += "%sRLC_THROW(%s);\n" % (ind, ERRS[it[1]])
            elif it[0] == "g":
                s += "%sT(1000 + err_get_code());\n" % ind
            else:
                _, body, handler, fin, var = it
                code = ""
                if var:
                    code += "%s{ err_t e = 99;\n" % ind
                code += "%sRLC_TRY {\n%s%s}" % (ind, self.items(body, ind + "\t"), ind)
                if var:
                    code += " RLC_CATCH(e) {\n%s\tT(2000 + e);\n%s%s}" % (ind, self.items(handler, ind + "\t"), ind)
                else:
                    code += " RLC_CATCH_ANY {\n%s%s}" % (self.items(handler, ind + "\t"), ind)
                if fin or (len(body) % 2 == 0):
                    # an empty FINALLY block and an absent one are the same program
                    code += " RLC_FINALLY {\n%s%s}" % (self.items(fin, ind + "\t"), ind)
                code += "\n"
                if var:
                    code += "%s}\n" % ind
                # outline some protected blocks into their own C function (longjmp across call frames)
                h = int(hashlib.sha256(code.encode()).hexdigest()[:4], 16)
                if outline_ok and h % 3 == 0:
                    self.nf += 1
                    name = "f%d" % self.nf
                    self.funcs.append("static void __attribute__((noinline)) %s(void) {\n%s}\n" % (name, code))
                    s += "%s%s();\n" % (ind, name)
                else:
                    s += code
        return s


def has(items, kind):
    for it in items:
        if it[0] == kind:
            return True
        if it[0] == "try" and (has(it[1], kind) or has(it[2], kind) or has(it[3], kind)):
            return True
    return False


CORPUS = [
    # F7 (a): nested successful try inside FINALLY must not suppress the handler
    [("try", [("t", 5)], [("a", 1)], [("try", [("a", 2)], [], [], False)], False)],
    # F7 (b): nested throw+catch inside FINALLY must not trigger the handler
    [("try", [("a", 3)], [("a", 1)], [("try", [("t", 5)], [("a", 4)], [], False)], False)],
    [("t", 5), ("a", 1), ("g",), ("g",), ("try", [("t", 2)], [("a", 7)], [], True), ("g",)],
    [("try", [("try", [("t", 1)], [("t", 0)], [("a", 9)], True)], [("a", 8)], [("a", 10)], True), ("g",)],
]


def build_programs(ctx, n, maxdepth, nchunks=16):
    progs = list(CORPUS)
    for i in range(n):
        progs.append(gen_prog(ctx.rng, 1 + ctx.rng.below(maxdepth), False))
    files = []
    per = (len(progs) + nchunks - 1) // nchunks
    for k in range(nchunks):
        part = list(enumerate(progs))[k * per:(k + 1) * per]
        pr = CPrinter()
        pr.nf = k * 100000
        bodies = ["static void prog_%d(void) {\n%s}\n" % (i, pr.items(p, "\t")) for i, p in part]
        src = ['#include "oracle.h"', "extern void T(int x);"] + pr.funcs + bodies
        src.append("typedef void (*pf)(void);")
        src.append("const pf PROGS_%d[] = {%s 0};" % (k, "".join("prog_%d, " % i for i, _ in part)))
        files.append("\n".join(src))
    main = ['#include "oracle.h"', "static int TR[4096]; static int NT;", "void T(int x) { if (NT < 4096) TR[NT++] = x; }",
            "typedef void (*pf)(void);"]
    main += ["extern const pf PROGS_%d[];" % k for k in range(nchunks)]
    main.append("static const pf *CH[] = {%s};" % ", ".join("PROGS_%d" % k for k in range(nchunks)))
    main.append("static int emap(int e) { return e == ERR_NO_MEMORY ? 1 : e == ERR_NO_PRECI ? 2 : e == ERR_NO_FILE ? 3 : e == ERR_NO_READ ? 4 : "
                "e == ERR_NO_VALID ? 5 : e == ERR_CAUGHT ? 0 : e; }")
    main.append("""
static void op_prog(int argc, char **argv) {
	if (argc < 2) { fprintf(OUT, "bad-args\\n"); return; }
	int i = parse_int(argv[1]);
	ctx_t *ctx = core_get();
	if (i < 0 || i >= %d) { fprintf(OUT, "bad-index\\n"); return; }
	NT = 0; ctx->last = NULL; ctx->caught = 0; ctx->code = RLC_OK;
	CH[i / %d][i %% %d]();
	if (NT == 0) fprintf(OUT, "-");
	for (int k = 0; k < NT; k++) {
		int x = TR[k];
		if (k) fputc(',', OUT);
		if (x >= 2000) fprintf(OUT, "e%%d", emap(x - 2000)); else if (x >= 1000) fprintf(OUT, "c%%d", x - 1000 == RLC_OK ? 0 : 1);
		else fprintf(OUT, "a%%d", x);
	}
	fprintf(OUT, " code=%%d chain=%%d\\n", ctx->code == RLC_OK ? 0 : 1, ctx->last == NULL ? 0 : 1);
	ctx->last = NULL; ctx->caught = 0; ctx->code = RLC_OK;
}
const op_t ops_prog[] = { {"prog", op_prog}, {NULL, NULL} };
""" % (len(progs), per, per))
    return progs, files, "\n".join(main)


def streams(ctx, scale=1):
    import subprocess, shutil
    import relicbuild as rb
    n = (1500 if ctx.tier == "quick" else 20000) * scale
    progs, files, mainsrc = build_programs(ctx, n, 5)
    b = ctx.build("base")
    h = hashlib.sha256(("".join(files) + mainsrc).encode()).hexdigest()[:12]
    d = os.path.join(b, "progs_" + h)
    shutil.rmtree(d, ignore_errors=True)
    os.makedirs(d)
    V = os.path.dirname(os.path.dirname(os.path.dirname(os.path.abspath(__file__))))
    inc = ["-I", os.path.join(b, "include"), "-I", os.path.join(rb.REPO, "include"), "-I", os.path.join(rb.REPO, "include", "low"),
           "-I", os.path.join(V, "harness"), "-DORACLE_PROGS", "-D" + rb.GUARD, "-w"]
    procs, objs = [], []
    for k, src in enumerate(files + [mainsrc]):
        cf = os.path.join(d, "p%d.c" % k)
        open(cf, "w").write(src)
        obj = os.path.join(d, "p%d.o" % k)
        objs.append(obj)
        # -O1: the generated functions are large and setjmp-heavy; the macros are exercised identically
        procs.append(subprocess.Popen(["gcc", "-O1", "-c", cf, "-o", obj] + inc, stdout=subprocess.PIPE, stderr=subprocess.STDOUT, text=True))
    errs = [p.communicate()[0] for p in procs if p.wait() != 0]
    exe = os.path.join(d, "oracle")
    if not errs:
        r = subprocess.run(["gcc", "-O1"] + inc + [os.path.join(V, "harness", "oracle.c"), os.path.join(V, "harness", "ops_bn.c")] + objs +
                           ["-o", exe, os.path.join(b, "lib", "librelic_s.a")], stdout=subprocess.PIPE, stderr=subprocess.STDOUT, text=True)
        if r.returncode != 0:
            errs = [r.stdout]
    if errs:
        from check import BuildError
        raise BuildError("generated try/catch programs do not compile:\n" + errs[0][-3000:])
    lines = ["cfg"] + ["prog %d %s" % (i, enc(p) or "a0;") for i, p in enumerate(progs)]
    ctx._c19_progs = progs
    ctx._c19_dir = d
    return [{"name": "progs-base", "cfg": "base", "exe": exe, "lines": lines}, reparam_stream(ctx, scale)]


def reparam_stream(ctx, scale=1):
    """'after any sequence of parameter selections the library computes exactly what a freshly initialised library with the last
    selection computes': every ordered pair (and some longer orders) of the selectable curves is activated in one process; after each
    selection a probe set (parameter getters, add/dbl, every multiplication variant, encodings) runs.  The driver judges every line
    against the specification under the *last* selection (and the ep_param line against the table extracted from the source), and
    postprocess() compares every output with the output of a fresh process that made only the last selection."""
    import subprocess
    import props.c02 as c02, props.c03 as c03, props.c07 as c07
    exe = c03._exe(ctx, "base")
    ids = [cid for cid in c03.CURVES["base"]]
    probes, fresh = {}, {}
    nprobe = (25 if ctx.tier == "quick" else 200) * scale
    for cid in list(ids):
        kv = c03.curve_info(exe, cid)
        if "p" not in kv:
            ids.remove(cid)
            continue
        cv = c03.Cv(kv)
        pl = c03.gen_lines(ctx.rng, cv, nprobe)[:nprobe] + c07.enc_lines(ctx.rng, cv, nprobe // 2)
        pl = [l for l in pl if not l.startswith("#")]
        probes[cid] = pl
        inp = ["cfg", "ep_param %d" % cid] + pl
        out = subprocess.run([exe], input="\n".join(inp) + "\n", stdout=subprocess.PIPE, stderr=subprocess.DEVNULL, text=True, timeout=300).stdout.split("\n")
        for l, o in zip(inp[1:], out[1:]):
            fresh[(cid, l)] = o
    orders = [(a, b) for a in ids for b in ids if a != b]
    for _ in range(4 * scale):
        perm = list(ids)
        for i in range(len(perm) - 1, 0, -1):
            j = ctx.rng.below(i + 1)
            perm[i], perm[j] = perm[j], perm[i]
        orders.append(tuple(perm))
    orders += [(a, a) for a in ids[:2]]
    lines = ["cfg"]
    for order in orders:
        for k, cid in enumerate(order):
            lines.append("ep_param %d" % cid)
            last = k == len(order) - 1
            lines += probes[cid] if last else probes[cid][:4]
    # the same curve selected again after the field alone was re-parameterised, and after the library was shut down and initialised again
    # (a selection must never be skipped because "it is already active")
    fids = list(c02.PRIMES["base"])
    for a in ids:
        for f in [fids[ctx.rng.below(len(fids))], fids[ctx.rng.below(len(fids))]]:
            lines += ["ep_param %d" % a] + probes[a][:2] + ["fp_param %d" % f, "ep_param %d" % a] + probes[a][:12]
        lines += ["ep_param %d" % a] + probes[a][:2] + ["core_reinit", "ep_param %d" % a] + probes[a][:12]
    ctx._c19_fresh = fresh
    return {"name": "reparam-base", "cfg": "base", "exe": exe, "lines": lines}


def postprocess(ctx, recs):
    fresh = getattr(ctx, "_c19_fresh", None)
    if not fresh:
        return
    for r in recs:
        if r["stream"] != "reparam-base" or not r.get("context") or r["got"].startswith("CRASH"):
            continue
        cid = int(r["context"].split()[1])
        exp = fresh.get((cid, r["line"]))
        if exp is not None and exp != r["got"] and not r["verdict"].startswith("FAIL"):
            r["verdict"] = "FAIL S model=[] spec=[%s] got=[%s] differs-from-a-fresh-library-with-the-last-selection" % (exp[:300], r["got"][:300])


def search_streams(ctx, mfail):
    return streams(ctx, scale=4)


def dec(txt):
    """inverse of enc"""
    pos = 0

    def items():
        nonlocal pos
        out = []
        while pos < len(txt) and txt[pos] not in "|]":
            c = txt[pos]
            if c in "at":
                j = txt.index(";", pos)
                out.append((c, int(txt[pos + 1:j])))
                pos = j + 1
            elif c == "g":
                out.append(("g",))
                pos += 2
            elif c == "[":
                pos += 1
                b = items(); pos += 1
                h = items(); pos += 1
                f = items(); pos += 1
                var = txt[pos] == "v"
                pos += 1
                out.append(("try", b, h, f, var))
            else:
                raise ValueError("bad program text at %d" % pos)
        return out
    return items()


def replay_streams(ctx, rp):
    if rp.get("op_lines") and not rp["op_lines"][0].startswith("prog"):
        # a re-parameterisation failure depends on the whole order of selections: re-run the stream of orders
        return [reparam_stream(ctx, 1)]
    # a replay carries the program text; rebuild exactly those programs
    global CORPUS
    saved = CORPUS
    CORPUS = [dec(l.split(" ", 2)[2]) for l in rp.get("op_lines", [])]
    try:
        class Z:
            def below(self, n): return 0
            def chance(self, a, b): return False
            def choice(self, l): return l[0]
        real = ctx.rng
        st = streams(ctx, scale=0)
    finally:
        CORPUS = saved
    return st


def nontrivial(r):
    return "t" in r["line"].split(" ", 2)[-1] and "[" in r["line"]


def matches_finding(f, r):
    return False


def extra_evidence(ctx, recs):
    import shutil
    shutil.rmtree(getattr(ctx, "_c19_dir", "/nonexistent"), ignore_errors=True)
    n = len(getattr(ctx, "_c19_progs", []))
    tif = len([r for r in recs if "try-in-finally" in r["verdict"]])
    return {"programs": n, "programs_with_try_in_finally": tif}
