"""C08 — no call reads or writes outside its objects; overflow is reported, not performed."""
import props.c01 as c01, props.c02 as c02, props.c03 as c03, props.c07 as c07, props.c09 as c09, props.c14 as c14, props.c15 as c15
from props.bngen import hx

EXTRA_THEOREM_MODULES = ["RelicVerif.Lemmas.Bounds"]
GENERATED = ["params"]
TRUSTED = [
    "proved part: the length bookkeeping of the modelled functions (Lemmas/Bounds.lean): results fit the capacity / the caller's buffer or the "
    "model returns an error; these are theorems about the models, tied to the code by the C01/C07/C09/C14 correspondence runs",
    "observed part (NOT proved): absence of out-of-bounds / use-after-free / uninitialised-value-dependent behaviour in the C code itself is "
    "decided per presented line by AddressSanitizer + UndefinedBehaviorSanitizer builds of the working tree (base-san, w8-san), by guard "
    "words around every caller buffer in the harness, and by comparing the sanitizer build's output with the optimised build's output; the "
    "presented lines are the structured streams of C01, C02, C03, C07, C09, C14, C15 plus the boundary sweeps of this module",
    "allocation failures are injected by wrapping malloc/calloc/realloc/posix_memalign at link time (harness/ops_af.c) in a build with "
    "-DALLOC=DYNAMIC and the sanitizers; what is observed per call: every injected failure is reported or harmless, no sanitizer report, "
    "and the same call works again afterwards",
    "compiler / sanitizer runtime; stack buffers inside static arrays of the harness are protected by guard bytes, not by ASan red zones",
]
ASSUMPTIONS = [
    "allocation-failure points are enumerated for the library calls listed in AF_FNS (bn, ep, md, rand, cp_rsa/ecdsa/ecdh/ecss/ecies: the "
    "anchored files and what they call); the other modules carry known finding C08-AF1; cp_rsa buffer lengths are exercised by C05/C06",
    "'library remains usable afterwards' is checked by every stream continuing with further lines in the same process after each error",
]
RULE = ("every line of the reused streams plus: recoding buffer lengths 0..needed+2 for every recoding kind and width, operand lengths at "
        "digs-1, digs, digs+1, size-1, size for the bn operations, byte/string buffer lengths around the required size; non-trivial = line "
        "executed without sanitizer report")

SANMAP = {"base": "base-san", "w8": "w8-san"}
MODS = [c01, c07, c09, c02, c03, c14, c15]


class SanCtx:
    """presents the sanitizer configuration under the name of the optimised one"""

    def __init__(self, ctx, ref=False):
        self.ctx, self.ref = ctx, ref
        self.tier, self.seed, self.pid = ctx.tier, ctx.seed, ctx.pid
        self.rng = ctx.rng

    def _m(self, cfg):
        return cfg if self.ref else SANMAP.get(cfg, cfg)

    def build(self, cfg):
        return self.ctx.build(self._m(cfg))

    def oracle(self, cfg, **kw):
        return self.ctx.oracle(self._m(cfg), **kw)


class Rec:
    """records the oracle requests of a module so that the same oracle can be built for the other configuration"""

    def __init__(self, ctx):
        self.ctx = ctx
        self.tier, self.seed, self.pid, self.rng = ctx.tier, ctx.seed, ctx.pid, ctx.rng
        self.req = {}

    def build(self, cfg):
        return self.ctx.build(SANMAP.get(cfg, cfg))

    def oracle(self, cfg, **kw):
        exe = self.ctx.oracle(SANMAP.get(cfg, cfg), **kw)
        self.req[exe] = (cfg, kw)
        return exe


def needed(kind, w, k, l):
    kb = max(k.bit_length(), 1)
    if kind == "win":
        return (kb + w - 1) // w
    if kind == "slw":
        return kb
    if kind == "naf":
        return kb + 1
    if kind == "reg":
        return (l + w - 2) // (w - 1) + 1
    return 2 * (max(kb, max(l.bit_length(), 1)) + 1)


def bn_capacity_lines(rng, w, size, digs):
    """operands and amounts exactly at the edge of the storage: shifts that land the top digit on the last / one past the last digit
    (also for the zero operand, which has one digit but no bits), products and sums whose length is capacity - 1, capacity, capacity + 1"""
    out = []
    top = size * w
    for a in [0, 1, -1, 3, (1 << w) - 1, 1 << w, (1 << (w * (digs - 1))) + 1, (1 << (w * digs)) - 1, (1 << (w * (size - 1))) - 1, (1 << (w * (size - 1))),
              (1 << (w * size)) - 1]:
        ab = max(abs(a).bit_length(), 1)
        for bits in sorted({top - ab - 1, top - ab, top - ab + 1, top - w, top - 1, top, top + 1, top + w, top - (ab + w - 1) // w * w,
                            top - (ab + w - 1) // w * w + 1}):
            if bits >= 0:
                for al in (0, 1):
                    out.append("bn_lsh %d %s %d" % (al, hx(a), bits))
    for la in (1, digs - 1, digs, digs + 1, size // 2, size - 1, size):
        for lb in (1, digs, size - la - 1, size - la, size - la + 1, size):
            if lb >= 1:
                a = (1 << (w * la)) - 1
                b = (1 << (w * lb)) - 1
                for op in ("bn_mul", "bn_mul_basic", "bn_mul_comba", "bn_mul_karat", "bn_add", "bn_sub"):
                    out.append("%s %d %s %s" % (op, rng.below(5), hx(a), hx(-b if op == "bn_sub" else b)))
        a = (1 << (w * la)) - 1
        for op in ("bn_sqr", "bn_sqr_basic", "bn_sqr_comba", "bn_sqr_karat", "bn_dbl"):
            out.append("%s %d %s" % (op, rng.below(2), hx(a)))
    for b in (0, 1, top - w, top - 1, top, top + 1, top + w):
        out.append("bn_set_2b %d" % b)
    return out


def toplevel_lines(rng, w, size):
    """invalid arguments and too-short buffers presented to the conversion functions WITHOUT an enclosing handler (the library's other
    documented calling convention: check err_get_code() afterwards): a throw then only records the error and execution continues, so
    every function must return by itself before it touches the caller's buffer"""
    out = ["mode top"]
    vals = [0, 5, -5, (1 << 64) - 1, rng.bits(200), -rng.bits(100), (1 << (w * (size - 1))) + 1]
    for radix in [0, 1, 65, 66, 100, 255, 256, 1000, 2, 10, 16, 64]:
        for a in vals:
            need = len(c07.to_str(abs(a), radix)) + (1 if a < 0 else 0) + 1 if 2 <= radix <= 64 else 8
            for ln in {0, 1, max(need - 1, 0), need, need + 3}:
                out.append("bn_write_str %d %s %d" % (ln, hx(a), radix))
        out.append("bn_read_str %d 123" % radix)
        out.append("bn_read_str %d -zz" % radix)
    for a in vals:
        nb = max((abs(a).bit_length() + 7) // 8, 1)
        for ln in {0, 1, nb - 1, nb, nb + 2}:
            out.append("bn_write_bin %d %s" % (max(ln, 0), hx(a)))
    for nbytes in [0, 1, size * w // 8, size * w // 8 + 1, size * w // 8 + 9]:
        out.append("bn_read_bin " + (("ff" * nbytes) or "."))
    out.append("mode try")
    return out


def boundary_lines(rng, w, size, digs, count):
    out = bn_capacity_lines(rng, w, size, digs) + toplevel_lines(rng, w, size)
    for _ in range(count):
        kind = rng.choice(["win", "slw", "naf", "reg", "jsf"])
        ww = rng.choice([2, 3, 4, 5, 6, 7, 8]) if kind != "jsf" else 2
        k = rng.choice([0, 1, 2, 3, rng.bits(8), rng.bits(64), rng.bits(256), (1 << 256) - 1, 1 << 255, rng.bits(rng.choice([9, 63, 65, 127, 255]))])
        if kind == "reg":
            k |= 1
            l = rng.choice([8, 64, 128, 255, 256, 257])
            k &= (1 << l) - 1
            k |= 1
            lt = "%x" % l
        elif kind == "jsf":
            l = rng.choice([0, 1, rng.bits(8), rng.bits(256), rng.bits(64)])
            lt = "%x" % l
        else:
            l = 0
            lt = "0"
        nd = needed(kind, ww, k, l)
        ln = max(0, nd + rng.choice([-3, -2, -1, 0, 0, 1, 2, 40]))
        out.append("nt_rec %s %d %x %s %d" % (kind, ww, k, lt, ln))
    return out


def streams(ctx, scale=1):
    res = []
    env = {"ASAN_OPTIONS": "detect_leaks=0:abort_on_error=0:allocator_may_return_null=1", "UBSAN_OPTIONS": "print_stacktrace=1"}
    for m in MODS:
        rec = Rec(ctx)
        for st in m.streams(rec, scale) if m is not c03 else m.streams(rec, scale):
            cfg, kw = rec.req.get(st["exe"], (st["cfg"], None))
            ref = ctx.oracle(cfg, **kw) if kw is not None else None
            res.append({"name": "san-" + st["name"], "cfg": SANMAP.get(st["cfg"], st["cfg"]), "exe": st["exe"], "ref_exe": ref,
                        "lines": st["lines"], "crash_only": True, "tscale": 8, "env": env})
    # boundary sweeps of this property
    for cfg in ("base", "w8"):
        exe = ctx.oracle(SANMAP[cfg], defs=c09.ORACLE_DEFS, sources=c09.ORACLE_SOURCES, tag="_nt")     # the same binary as the C09 streams
        ref = ctx.oracle(cfg, defs=c09.ORACLE_DEFS, sources=c09.ORACLE_SOURCES, tag="_nt")
        hdr, kv = c01._cfg(exe)
        n = (1500 if ctx.tier == "quick" else 40000) * scale
        res.append({"name": "san-boundary-" + cfg, "cfg": SANMAP[cfg], "exe": exe, "ref_exe": ref, "crash_only": True, "tscale": 8, "env": env,
                    "lines": ["cfg"] + boundary_lines(ctx.rng, kv["w"], kv["size"], kv["digs"], n)})
    res.append(select_stream(ctx, scale))
    res.append(af_stream(ctx, scale))
    return res


AF_WRAP = ("-Wl,--wrap=malloc,--wrap=calloc,--wrap=realloc,--wrap=posix_memalign",)
# the library calls whose every allocation-failure point is enumerated (harness/ops_af.c); the last group exercises modules where the
# defect class repaired in the anchored files is still present (known finding C08-AF1)
AF_FNS = ["bn_lsh_big", "bn_mul_big", "bn_sqr_big", "bn_add_big", "bn_div_big", "bn_mul", "bn_mul_karat", "bn_sqr", "bn_add", "bn_lsh", "bn_div_rem", "bn_mod", "bn_mod_barrt", "bn_mod_monty", "bn_mxp_basic",
          "bn_mxp_slide", "bn_mxp_monty", "bn_mxp_dig", "bn_gcd_basic", "bn_gcd_lehme", "bn_gcd_binar", "bn_gcd_ext_basic",
          "bn_gcd_ext_lehme", "bn_gcd_ext_binar", "bn_gcd_ext_mid", "bn_lcm", "bn_mod_inv", "bn_srt", "bn_smb_leg", "bn_smb_jac",
          "bn_is_prime_basic", "bn_is_prime_solov", "bn_is_prime_rabin", "bn_rand_mod", "bn_write_str", "bn_read_str", "bn_write_bin",
          "bn_read_bin", "bn_rec_win", "bn_rec_slw", "bn_rec_naf", "bn_rec_tnaf", "bn_rec_rtnaf", "bn_rec_reg", "bn_rec_jsf", "bn_rec_glv",
          "ep_mul_basic", "ep_mul_slide", "ep_mul_monty", "ep_mul_lwnaf", "ep_mul_lwreg", "ep_mul_gen", "ep_mul_dig", "ep_mul_cof",
          "ep_mul_fix_basic", "ep_mul_fix_combs", "ep_mul_fix_combd", "ep_mul_fix_lwnaf", "ep_mul_sim_basic", "ep_mul_sim_trick",
          "ep_mul_sim_inter", "ep_mul_sim_joint", "ep_mul_sim_gen", "ep_mul_sim_lot", "ep_mul_sim_lot0", "ep_mul_sim_lot1",
          "ep_mul_sim_dig", "ep_norm_sim", "ep_map", "ep_rand", "ep_upk", "ep_write_bin", "ep_read_bin", "ep_on_curve",
          "md_kdf", "md_mgf", "md_hmac", "md_xmd", "md_map", "rand_bytes", "cp_rsa_enc", "cp_rsa_encdec", "cp_rsa_sigver", "cp_ecdsa",
          "cp_ecdh", "cp_ecss", "cp_ecies"]
AF_SLOW = ["bn_gen_prime", "cp_rsa_gen"]
AF_KNOWN = ["ep2_mul_lwnaf", "ep2_mul_sim_trick", "eb_mul_lwnaf"]


def af_stream(ctx, scale=1):
    """'every allocation-failure point when built with dynamic allocation': the library is built with ALLOC=DYNAMIC and the sanitizers,
    malloc/calloc/realloc/posix_memalign are wrapped at link time, and for each listed call every allocation (a stride of them above
    600) is made to fail once; see harness/ops_af.c for what one line reports and lean/Driver/C08.lean for the judgement"""
    exe = ctx.oracle("dyn-san", defs=("ORACLE_NO_BN", "ORACLE_EXTRA1=ops_af"), sources=("oracle.c", "ops_af.c"), tag="_af", extra=AF_WRAP)
    rng = ctx.rng
    lines = ["cfg"]
    reps = (1 if ctx.tier == "quick" else 4) * scale
    # AF_SLOW (key and prime generation: tens of thousands of allocations per call) exceed the per-line time budget under the sanitizers
    # and are left to manual runs of the oracle
    fns = AF_FNS
    for rep in range(reps):
        # the known-finding call sites stop the oracle process (sanitizer report): once per run is enough, and the crash budget of a
        # stream is small
        for fn in fns + (AF_KNOWN if rep == 0 else []):
            x = rng.bits(rng.choice([64, 160, 255, 256, 300]))
            y = rng.bits(rng.choice([8, 64, 128, 256]))
            z = rng.bits(rng.choice([64, 128, 256])) | 1
            if fn.startswith("bn_is_prime"):
                z = rng.choice([(1 << 127) - 1, (1 << 89) - 1, z])
            lines.append("af %s %x %x %x" % (fn, x, y, z))
    return {"name": "allocfail-dyn", "cfg": "dyn-san", "exe": exe, "tscale": 40, "lines": lines,
            "env": {"ASAN_OPTIONS": "detect_leaks=0:abort_on_error=0", "UBSAN_OPTIONS": "print_stacktrace=1"}}


def select_stream(ctx, scale=1):
    """'an unsupported parameter is reported': fp_param_set / ep_param_set with every identifier value around the enumerations (and a few
    far outside); the driver decides from the parameter table extracted from the source which identifiers are selectable in this build,
    expects the others to be reported with nothing installed, and judges the probe lines that follow under the selection that was active
    before (the library remains usable and unchanged)"""
    exe = c03._exe(ctx, SANMAP["base"])
    rng = ctx.rng
    cid = list(c03.CURVES["base"])[0]
    cv = c03.Cv(c03.curve_info(exe, cid))
    ids = list(range(0, 96)) + [127, 128, 255, 256, 1000, 65535, 65536, 2147483647, -1, -2]
    lines = ["cfg", "ep_param %d" % cid]
    for rep in range(scale):
        order = [("fp_sel", i) for i in ids] + [("ep_sel", i) for i in ids]
        for i in range(len(order) - 1, 0, -1):
            j = rng.below(i + 1)
            order[i], order[j] = order[j], order[i]
        for op, i in order:
            lines.append("%s %d" % (op, i))
            # whatever happened, the curve is selected again and must work
            lines.append("ep_param %d" % cid)
            lines += [l for l in c03.gen_lines(rng, cv, 2)[:2] if not l.startswith("#")]
    return {"name": "select-base", "cfg": SANMAP["base"], "exe": exe, "tscale": 8, "lines": lines,
            "env": {"ASAN_OPTIONS": "detect_leaks=0:abort_on_error=0:allocator_may_return_null=1", "UBSAN_OPTIONS": "print_stacktrace=1"}}


def search_streams(ctx, mfail):
    return streams(ctx, scale=3)


def replay_streams(ctx, rp):
    cfg = rp.get("config", "base-san")
    base = {v: k for k, v in SANMAP.items()}.get(cfg, cfg)
    ops = " ".join(rp.get("op_lines", []) + rp.get("context_lines", []))
    defs, srcs, tag = ("ORACLE_NT",), ("oracle.c", "ops_bn.c", "ops_nt.c"), "_nt"
    if "ep_param" in ops or ops.startswith("ep"):
        defs, srcs, tag = ("ORACLE_FP", "ORACLE_EP"), ("oracle.c", "ops_bn.c", "ops_fp.c", "ops_ep.c"), "_ep"
    elif "fp_param" in ops:
        defs, srcs, tag = ("ORACLE_FP",), ("oracle.c", "ops_bn.c", "ops_fp.c"), "_fp"
    elif any(t in ops for t in ("md_", "drbg", "aes_", "bn_rand")):
        defs, srcs, tag = ("ORACLE_MD",), ("oracle.c", "ops_bn.c", "ops_md.c"), "_md"
    exe = ctx.oracle(cfg, defs=defs, sources=srcs, tag=tag)
    ref = ctx.oracle(base, defs=defs, sources=srcs, tag=tag)
    return [{"name": "replay", "cfg": cfg, "exe": exe, "ref_exe": ref, "crash_only": True, "tscale": 8,
             "lines": ["cfg"] + rp.get("context_lines", []) + rp.get("op_lines", [])}]


def nontrivial(r):
    return True


def matches_finding(f, r):
    if f.get("id") == "C08-AF1":
        t = r["line"].split()
        return len(t) > 1 and t[0] == "af" and t[1] in AF_KNOWN
    return False
