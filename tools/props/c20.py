"""C20 — masked selection and regular exponentiation do not branch on secrets."""
import props.c03 as c03
from props.bngen import hx

GENERATED = ["ct"]
TRUSTED = [
    "translator tools/translate_ct.py: the C text of dv_copy_sec, dv_swap_sec, dv_cmp_sec, util_cmp_sec is re-translated on every run into the "
    "branch-free language of Model/CtLang.lean; a construct outside it (if/while/&&/||/call/early return/non-constant ternary arm) is a "
    "translation failure = broken obligation.  The generated programs are executed by the driver on the same data as the real functions",
    "the C compiler keeps the instruction sequence data-independent: `c ? K1 : K2` with constant arms is assumed to compile to setcc/cmov, and "
    "`-bit`, `&`, `^` to straight-line code (object code is not inspected)",
    "operation logs of the library are recorded by linker interposition (-Wl,--wrap) of the group-level functions listed in WRAPS: only calls "
    "that cross object files are seen; calls nested inside a recorded call are not recorded",
    "instrumented models (Model/CtAlg.lean): ladder and plain regular recoding are proved equal in value to the C03 models and their log is "
    "proved to depend on lengths only; the GLV regular recoding, the exponentiation ladders and the Lopez-Dahab ladder have their log given "
    "as a closed form of public parameters (by construction) and are tied by the per-line comparison only",
    "below the group level (inside ep_add, fp_mul, bn_mod …) nothing is claimed: the property speaks of group-level operations",
]
ASSUMPTIONS = [
    "k = 0 and P = O are public (the routines return early); the sign of an exponent is public (negative exponents add an inversion)",
    "ep2_mul_lwreg, ed_mul_monty / ed_mul_lwreg (255-bit configuration) and the g1/g2/gt *_sec wrappers have no log model: they are checked in the "
    "relational form (two scalars of the same public length must produce identical logs)",
]
RULE = ("primitives: both bit values, lengths 0..40, equal / differing-in-one-position / random arrays, boundary digits; algorithms: for every "
        "curve, scalars of the full public length with random, low and high Hamming weight, long zero runs, all-ones, 0, n±1, negative; "
        "non-trivial = a line whose log is not the early-return '-'")

WRAPS = ["ep_add_basic", "ep_add_projc", "ep_add_jacob", "ep_dbl_basic", "ep_dbl_projc", "ep_dbl_jacob", "ep_neg", "ep_sub", "ep_norm",
         "ep_blind", "ep_tab", "ep_psi", "dv_swap_sec", "dv_copy_sec", "bn_rec_reg", "bn_rec_glv", "bn_mul_basic", "bn_mul_comba",
         "bn_mul_karat", "bn_sqr_basic", "bn_sqr_comba", "bn_sqr_karat", "bn_mod_monty_basic", "bn_mod_monty_comba", "bn_mod_barrt",
         "bn_mod_pmers", "bn_mod_monty_conv", "bn_mod_monty_back", "fp_mul_basic", "fp_mul_comba", "fp_mul_integ", "fp_mul_karat",
         "fp_sqr_basic", "fp_sqr_comba", "fp_sqr_integ", "fp_sqr_karat", "fb_mul_basic", "fb_mul_integ", "fb_mul_lodah", "fb_mul_karat",
         "fb_sqr_basic", "fb_sqr_integ", "fb_sqr_quick", "ep2_add_basic", "ep2_add_projc", "ep2_add_jacob", "ep2_dbl_basic",
         "ep2_dbl_projc", "ep2_dbl_jacob", "ep2_neg", "ep2_sub", "ep2_norm", "ep2_blind", "ep2_tab", "ep2_frb",
         "fp12_mul_basic", "fp12_mul_lazyr", "fp12_sqr_basic", "fp12_sqr_lazyr", "fp12_sqr_cyc_basic", "fp12_sqr_cyc_lazyr", "fp12_sqr_pck_basic",
         "fp12_sqr_pck_lazyr", "fp12_frb", "fp12_inv_cyc", "fp12_back_cyc"]
WRAPS_ED = ["ed_add_basic", "ed_add_projc", "ed_add_extnd", "ed_sub_basic", "ed_sub_projc", "ed_sub_extnd", "ed_dbl_basic", "ed_dbl_projc",
            "ed_dbl_extnd", "ed_neg_basic", "ed_neg_projc", "ed_norm", "ed_blind", "ed_tab"]

EB_IDS = [8, 9]     # NIST_B283, NIST_K283 (include/relic_eb.h)


def _exe(ctx, cfg="base"):
    ed = cfg.startswith("p255")
    return ctx.oracle(cfg, defs=("ORACLE_FP", "ORACLE_EP", "ORACLE_EXTRA1=ops_ct") + (("ORACLE_CT_ED",) if ed else ("ORACLE_EXTRA2=ops_ep2",)),
                      sources=("oracle.c", "ops_bn.c", "ops_fp.c", "ops_ep.c", "ops_ct.c") + (() if ed else ("ops_ep2.c",)), tag="_ct",
                      extra=tuple("-Wl,--wrap=" + s for s in WRAPS + (WRAPS_ED if ed else [])))


def pair_same_length(rng, bits):
    """two scalars of exactly `bits` bits with different shapes"""
    top = 1 << (bits - 1)
    shapes = [top | rng.bits(bits - 1), top, top | ((1 << (bits - 1)) - 1), top | 1, top | rng.bits(min(bits - 1, 8)),
              top | (rng.bits(bits - 1) & ~((1 << min(40, bits - 1)) - 1)), top | int("01" * (bits // 2), 2) & ((1 << (bits - 1)) - 1) | top]
    a = rng.choice(shapes)
    b = rng.choice([x for x in shapes if x != a] or [top | 1])
    return a, b


def rel_lines(rng, fns, nbits, count):
    out = []
    for _ in range(count):
        f = rng.choice(fns)
        bits = rng.choice([nbits, nbits, nbits - 1, 200, 129, 128, 65, 64, 63, 33, 8, 2])
        bits = max(2, min(bits, nbits))
        a, b = pair_same_length(rng, bits)
        if rng.chance(1, 6):
            a, b = -a, -b
        out.append("ct_rel %s %x %s %s" % (f, 1 + rng.below(1000), hx(a), hx(b)))
    return out


def digs(rng, w, n, style):
    B = 1 << w
    if style == 0:
        return [rng.bits(w) for _ in range(n)]
    if style == 1:
        return [0] * n
    if style == 2:
        return [B - 1] * n
    return [rng.choice([0, 1, B - 1, B >> 1, rng.bits(w)]) for _ in range(n)]


def fmt(l):
    return ",".join("%x" % v for v in l) if l else "."


def prim_lines(rng, count):
    out = []
    for _ in range(count):
        f = rng.choice(["copy", "swap", "cmp", "ucmp"])
        w = 8 if f == "ucmp" else 64
        n = rng.choice([0, 1, 2, 3, 4, 5, 8, 16, 17, 31, 40])
        extra = rng.choice([0, 0, 1, 3])
        c = digs(rng, w, n + extra, rng.below(4))
        k = rng.below(4)
        if k == 0:
            a = list(c)
        elif k == 1 and n > 0:
            a = list(c)
            i = rng.below(n)
            a[i] ^= 1 << rng.below(w)          # differ in exactly one bit of one position
        elif k == 2 and extra > 0:
            a = list(c)
            a[n + rng.below(extra)] ^= 1       # differ only beyond the compared length
        else:
            a = digs(rng, w, n + extra, rng.below(4))
        out.append("ct_prim %s %d %d %s %s" % (f, rng.below(2), n, fmt(c), fmt(a)))
    return out


def secret_scalar(rng, n):
    """scalars of the public length with the shapes named in the property"""
    bits = n.bit_length()
    k = rng.below(12)
    if k == 0:
        return rng.bits(bits) % n
    if k == 1:          # low Hamming weight
        v = 0
        for _ in range(rng.choice([1, 2, 3])):
            v |= 1 << rng.below(bits - 1)
        return v
    if k == 2:          # high Hamming weight
        v = (1 << (bits - 1)) - 1
        for _ in range(rng.choice([0, 1, 2])):
            v &= ~(1 << rng.below(bits - 1))
        return v % n
    if k == 3:          # long zero runs
        v, pos = 0, 0
        while pos < bits - 1:
            run = 1 + rng.below(60)
            if rng.chance(1, 3):
                v |= ((1 << min(run, 8)) - 1) << pos
            pos += run
        return v % n
    if k == 4:
        return rng.choice([1, 2, 3, n - 1, n - 2, n + 1, 2 * n - 1, n])
    if k == 5:
        return -(rng.bits(bits) % n)
    if k == 6:
        return 0
    if k == 7:
        return rng.bits(bits + rng.choice([1, 40, 200]))
    if k == 8:
        return (1 << rng.below(bits)) % n
    return rng.bits(bits) % n


def alg_lines(rng, cv, count, pairing):
    pool = [cv.mul(cv.g, rng.bits(256) % cv.n) for _ in range(4)]
    out = []
    for _ in range(count):
        k = rng.below(100)
        P = rng.choice(pool + [cv.g]) if not rng.chance(1, 25) else None
        s = secret_scalar(rng, cv.n)
        if k < 35:
            out.append("ct_trace ep_monty %s %s" % (c03.ptok(rng, cv, P), hx(s)))
        elif k < 70:
            out.append("ct_trace ep_lwreg %s %s" % (c03.ptok(rng, cv, P), hx(s)))
        elif k < 80 and pairing:
            out.append("ct_trace ep2_monty %x %s" % (1 + rng.below(1000), hx(s)))
        elif k < 90:
            e = rng.choice([0, 1, 2, rng.bits(256), rng.bits(rng.choice([1, 8, 64, 65, 255])), (1 << 200), (1 << 255) - 1])
            out.append("ct_trace fp_exp %x %x" % (rng.bits(256) % cv.p, e))
        else:
            m = rng.bits(rng.choice([64, 128, 256, 512])) | 1
            m = m if m > 1 else 3
            e = rng.choice([0, 1, rng.bits(m.bit_length()), rng.bits(rng.choice([1, 8, 64, 65, 300])), (1 << 100), (1 << 129) - 1])
            out.append("ct_trace bn_mxp %x %x %x" % (rng.bits(m.bit_length() + 3), e, m))
    return out


def bin_lines(rng, count):
    out = []
    for _ in range(count):
        if rng.chance(1, 2):
            e = rng.choice([0, 1, rng.bits(283), rng.bits(rng.choice([1, 8, 64, 65, 200])), (1 << 282), (1 << 283) - 1])
            out.append("ct_trace fb_exp %x %x" % (rng.bits(283), e))
        else:
            bits = 280     # below both group orders (functional behaviour for k >= n is C16's subject, not this property's)
            s = rng.choice([rng.bits(bits), 1, 2, (1 << bits) - 1, 1 << (bits - 1), rng.bits(64), 1 << rng.below(bits), 0])
            out.append("ct_trace eb_lodah %d %x %x" % (rng.choice(EB_IDS), 1 + rng.below(1000), s))
    return out


def streams(ctx, scale=1):
    per = (40 if ctx.tier == "quick" else 3000) * scale
    res = []
    exe = _exe(ctx, "base")
    lines = ["cfg"] + prim_lines(ctx.rng, (600 if ctx.tier == "quick" else 40000) * scale)
    for cid in c03.CURVES["base"]:
        kv = c03.curve_info(exe, cid)
        if "p" not in kv:
            continue
        cv = c03.Cv(kv)
        lines.append("ep_param %d" % cid)
        lines += alg_lines(ctx.rng, cv, per, kv.get("pairf", "0") != "0")
    lines += bin_lines(ctx.rng, per)
    # relational form for the routines without a log model: pairing-group wrappers on the pairing-friendly curves
    for cid in (23, 24):
        lines.append("ep2_param %d" % cid)      # installs the twist (and with it the pairing generators)
        lines.append("ep_param %d" % cid)
        lines += rel_lines(ctx.rng, ["gt_exp_sec", "ep2_lwreg", "g2_mul_sec", "g1_mul_sec"], 256, per // 2)
        # multiples of the group order next to ordinary scalars of the same length (a reduction followed by a zero test is an early exit)
        nn = c03.Cv(c03.curve_info(exe, cid)).n
        for f in ("g2_mul_sec", "ep2_lwreg", "g1_mul_sec", "gt_exp_sec"):
            for a, b in ((nn, nn - 2), (2 * nn, 2 * nn - 5), (nn - 3, nn), (3 * nn, 3 * nn + 1)):
                if f == "gt_exp_sec" and a > nn:
                    continue        # exponents longer than the order are refused with a reported error (fixed-size recoding; C10-F5)
                lines.append("ct_rel %s %x %s %s" % (f, 1 + ctx.rng.below(1000), hx(a), hx(b)))
        # rare value-dependent paths (one scalar in a thousand): thousands of pseudo-random scalars of one length against the first log
        nscan = 1500 if ctx.tier == "quick" else 20000
        for f in ("g2_mul_sec", "gt_exp_sec", "g1_mul_sec"):
            for bits in (256, 255, 254):
                lines.append("ct_scan %s %x %d %x %d" % (f, 1 + ctx.rng.below(1000), nscan if f != "gt_exp_sec" else nscan // 3,
                                                        ctx.rng.bits(63) | 1, bits))
    res.append({"name": "ct-base", "cfg": "base", "exe": exe, "lines": lines})
    # Edwards ladder and regular recoding (255-bit configuration)
    exe2 = _exe(ctx, "p255")
    res.append({"name": "ct-p255", "cfg": "p255", "exe": exe2, "lines": ["cfg"] + rel_lines(ctx.rng, ["ed_monty", "ed_lwreg"], 253, per)})
    return res


def search_streams(ctx, mfail):
    return streams(ctx, scale=3)


def replay_streams(ctx, rp):
    cfg = rp.get("config", "base")
    return [{"name": "replay", "cfg": cfg, "exe": _exe(ctx, cfg), "lines": ["cfg"] + rp.get("context_lines", []) + rp.get("op_lines", [])}]


def nontrivial(r):
    return not r["got"].startswith("err") and not r["got"].startswith("- ")


def matches_finding(f, r):
    return False
