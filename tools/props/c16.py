"""C16 — binary fields GF(2^m) and binary curves (random and Koblitz)."""
import subprocess
from props.bngen import hx, digit_pattern

TRUSTED = [
    "specification: polynomial arithmetic over GF(2) on natural numbers (Spec/Gf2.lean: xor, shift-and-xor product, schoolbook long "
    "division, inverse/sqrt/trace/half-trace by their defining expressions) and the affine group law of y^2 + xy = x^3 + a x^2 + b "
    "(Spec/BinCurve.lean); the compiled driver evaluates it through the fast evaluators of Model/BinFast.lean (4-bit window product, "
    "folding reduction, shared doubling chains), proved equal to the specification (Props.C16.fast_evaluators_sound, Lemmas/BinFast.lean)",
    "class A (modelled in Lean with the structure of the C code, proved equal to the specification for all inputs, and executed as the model "
    "column): fb_muln_low / fb_muld_low (Lopez-Dahab comb), fb_mul_karat (one level), fb_mul_basic, fb_sqrl_low (table squaring), fb_rdcn_low "
    "(digit-wise trinomial / pentanomial folding), fb_srt_quick (even/odd splitting; the multiplication by sqrt(z) is the field product), "
    "fb_trc_quick, fb_itr_quick (table of an additive map), fb_inv_basic and fb_inv_itoht (exponent chains, over any commutative monoid; "
    "the chain is read from the library and must satisfy ChainValid and end at m - 1), fb_slv (half-trace plus trace normalisation; the "
    "table walk of fb_slvn_low is not mirrored); fb_inv_sim (Model/FbInv.lean invSim: forward products, one call of fb_inv, backward pass; "
    "Props.C16.fb_inv_sim_correct for every list length >= 1 and any fb_inv meeting its contract: error when an element is zero, else every "
    "output is the reduced inverse of its input; the driver plugs in the specification's inverse for the inner fb_inv); eb_add_basic / eb_add_projc (mixed, general) / eb_sub_* / eb_dbl_basic / eb_dbl_projc / "
    "eb_neg_* / eb_norm / eb_hlv / eb_frb (one let per C statement, proved over an abstract field of characteristic two); the loops of "
    "eb_mul_basic, eb_mul_lwnaf, eb_mul_rwnaf, eb_mul_fix_lwnaf (ordinary and Koblitz, tables of eb_tab for w = 4, 5), eb_mul_lodah (group-level "
    "ladder), eb_mul_fix_basic, eb_mul_fix_combs / eb_mul_gen with the recodings bn_rec_naf, bn_rec_tnaf_mod, bn_rec_tnaf (proved over an "
    "abstract group / module; the hypothesis-level facts - order of the point, tau^m P = P - are not derived from the curve)",
    "class B (proved over an abstract group, compared as whole functions but not executed as a separate model column): eb_mul_halve "
    "(cofactor-2 branch), eb_mul_sim_trick / inter (ordinary) / joint",
    "class A-partial (value-level models over naturals-as-GF(2)[z] mirroring the C loops - halving loops, exits, swap, the comparison by "
    "digit count and top digit, the degree-difference shifts and the final conditional addition of f of fb_inv_exgcd - executed as the model "
    "column on every presented line; proved: zero is reported and WHATEVER the model returns is reduced, satisfies a*c = 1 and hence equals the specification's inverse, "
    "Props.C16.fb_inv_binar_partial / fb_inv_almos_partial / fb_inv_exgcd_partial / fb_inv_euclid_value; NOT proved: that the loops end "
    "within the fuel 2(bitLen a + bitLen f) + 2 - a line on which a model runs out of fuel is reported as a model difference; the digit arrays, lengths lu / lv / l1 / l2 and carries of the C code are not mirrored): "
    "fb_inv_binar, fb_inv_almos, fb_inv_exgcd",
    "executed models without a theorem (Model/FbInv.lean invBruch / invCtaia: the fixed 2m / 2m - 1 passes, the tests of coefficient m, the "
    "delta / d bookkeeping, the masked digit loop with its update order, shifts truncated to the digit array; model column on every line, "
    "correctness only through the defining equation a*c = 1 checked on the presented lines): fb_inv_bruch, fb_inv_ctaia",
    "class C (compared with the specification on the presented lines only): fb_inv_lower, "
    "fb_sqrn_low (shift-and-mask spreading), fb_rdc_basic, fb_mul_dig / fb_mul1_low / fb_rdc1_low, fb_exp_basic / slide / monty, fb_read_bin / "
    "fb_write_bin, fb2_mul / fb2_sqr / fb2_inv / fb2_slv / fb2_mul_nor, eb_mul_halve on the cofactor-4 (Koblitz) curve, eb_mul_fix_combd, "
    "the Koblitz eb_mul_sim_inter / eb_mul_sim_gen, eb_mul_dig, the y-recovery at the end of eb_mul_lodah and the randomisation of its projective start values (the Mdouble / Madd formulas are proved in Lemmas/EbLadder.lean, the ladder is executed at group level), "
    "eb_cmp, eb_on_curve, eb_pck / eb_upk, eb_read_bin / eb_write_bin, eb_norm_sim, bn_rec_rtnaf (not called by the curve code, not presented)",
    "irreducibility of f is a hypothesis of the inverse theorems; the driver checks z^(2^m) = z mod f on every run, which implies it for "
    "prime m (283, 233) by Rabin's criterion - that implication is not proved in Lean",
    "the irreducible polynomial, reduction exponents, trace positions, sqrt(z), Itoh-Tsujii chain, curve coefficients, generator, order, "
    "cofactor and Koblitz flag are read from the running library; the driver checks: deg f = m, f = z^m + z^a (+ z^b + z^c) + 1 for the reported "
    "exponents, z^(2^m) = z mod f, srz^2 = z, generator on curve, r*G = O, Hasse interval for h*r, Koblitz flag",
    "the sanitizer stream (base-san) runs the same generators under AddressSanitizer / UBSan (no line aborts it since the repairs C16-13 / C16-15)",
    "the models follow the repaired library (fix commits of C16-1..C16-13, C16-15): eb_dbl_basic returns the identity for x = 0, eb_norm writes z = 1 "
    "for the lambda representation, eb_hlv(O) = O, eb_mul_lodah / the fixed-base tables reduce |k| modulo r, the Koblitz routines modulo h*r",
]
ASSUMPTIONS = [
    "points presented to eb_mul_lodah and eb_mul_halve lie in the subgroup generated by G (both use the group order r to blind / rescale the "
    "scalar); the fixed-base tables (which reduce the scalar modulo r) are presented points outside it (G + T, T the point of order two) with "
    "|k| < r only; every other multiplication is presented such points with every scalar class",
    "fb_slv / eb_hlv are specified on their domain (Tr(a) = 0 / P in 2E); outside only a canonical field element / any answer is required",
    "FB_POLYN = 283 (the pinned configuration): the trinomial branches fb_rdct_low / fb_srtt_low are covered by the theorems (any exponent list) "
    "but not by the correspondence run",
]
RULE = ("field elements 0, 1, z, z^(m-1), all-ones, sparse, single-digit, digit-structured, trace-0, trace-1, uniform; products/squares and "
        "structured double-length inputs for the reductions; every fb_* variant by name and every alias pattern; points O, G, -G, the point of "
        "order two, small and random multiples, points outside the prime-order subgroup, equal/opposite operands, affine / projective (random z) / "
        "lambda representation; scalars 0, +-1, 2, r-1, r, r+1, multiples of r, negative, longer than r and than m, sparse, long zero runs; both "
        "curves of the configured field; every eb_* variant by name; non-trivial = distinct line whose result is not an error / the identity")

USES_GENERATED = False
EXTRA_THEOREM_MODULES = ["RelicVerif.Lemmas.Gf2Poly", "RelicVerif.Lemmas.Gf2Field", "RelicVerif.Lemmas.BinFast", "RelicVerif.Lemmas.Fb",
                         "RelicVerif.Lemmas.FbInvSim", "RelicVerif.Lemmas.FbInvEuclid", "RelicVerif.Lemmas.EbFormulas", "RelicVerif.Lemmas.EbLadder", "RelicVerif.Lemmas.Tnaf", "RelicVerif.Lemmas.EbMul", "RelicVerif.Lemmas.NafTop"]

FIELDS = {"base": [19, 20]}          # NIST_283 (the configured polynomial), SQRT_283 (the square-root friendly one of the same degree)
CURVES = {"base": [8, 9]}            # NIST_B283, NIST_K283

FBB = ["add", "add_dig", "mul", "mul_basic", "mul_integ", "mul_lodah", "mul_karat", "mul_dig", "cmp", "cmp_dig"]
FBU = ["sqr", "sqr_basic", "sqr_quick", "sqr_integ", "inv", "inv_basic", "inv_binar", "inv_exgcd", "inv_almos", "inv_itoht", "inv_bruch",
       "inv_ctaia", "inv_lower", "srt", "srt_basic", "srt_quick", "slv", "slv_basic", "slv_quick", "trc", "trc_basic", "trc_quick",
       "is_zero", "bits"]
RDC = ["rdc", "basic", "quick"]
MULN = ["muln", "muld", "sqrn", "sqrl", "mul1"]
ITR = ["basic", "quick", "itr"]
EXP = ["exp", "basic", "slide", "monty"]
FBQ = ["mul", "sqr", "inv", "slv", "mul_nor", "add"]

EBB = ["add", "add_basic", "add_projc", "sub", "sub_basic", "sub_projc"]
EBU = ["dbl", "dbl_basic", "dbl_projc", "neg", "neg_basic", "neg_projc", "norm", "hlv", "frb", "on_curve", "is_infty", "pck", "upk"]
MUL = ["mul", "basic", "lodah", "lwnaf", "rwnaf", "halve", "gen", "dig", "fix_basic", "fix_combs", "fix_combd", "fix_lwnaf", "fix_"]
SIM = ["sim", "basic", "trick", "inter", "joint", "gen"]


# ---------------------------------------------------------------------------------------------------------------------
# GF(2^m) in python (only to build structured inputs; the judgement is the Lean driver's)
class GF:
    def __init__(self, m, f):
        self.m, self.f = m, f

    def red(self, a):
        m, f = self.m, self.f
        while a.bit_length() > m:
            a ^= f << (a.bit_length() - 1 - m)
        return a

    @staticmethod
    def clmul(a, b):
        r = 0
        while b:
            if b & 1:
                r ^= a
            a <<= 1
            b >>= 1
        return r

    def mul(self, a, b):
        return self.red(self.clmul(a, b))

    def sqr(self, a):
        return self.red(int(bin(a)[2:].replace("0", "00").replace("1", "01"), 2)) if a else 0

    def inv(self, a):
        u, v, g1, g2 = a, self.f, 1, 0
        while u != 1:
            j = u.bit_length() - v.bit_length()
            if j < 0:
                u, v, g1, g2, j = v, u, g2, g1, -j
            u ^= v << j
            g1 ^= g2 << j
        return self.red(g1)

    def sqrt(self, a):
        for _ in range(self.m - 1):
            a = self.sqr(a)
        return a

    def trace(self, a):
        t = a
        for _ in range(self.m - 1):
            a = self.sqr(a)
            t ^= a
        return t

    def half_trace(self, a):
        t = a
        for _ in range((self.m - 1) // 2):
            a = self.sqr(self.sqr(a))
            t ^= a
        return t


class Cv:
    def __init__(self, kv):
        self.m = int(kv["m"])
        self.gf = GF(self.m, int(kv["f"], 16))
        self.a, self.b = int(kv["a"], 16), int(kv["b"], 16)
        self.g = (int(kv["gx"], 16), int(kv["gy"], 16))
        self.r, self.h = int(kv["r"], 16), int(kv["h"], 16)
        self.kbltz = kv.get("kbltz") == "1"
        self.T = (0, self.gf.sqrt(self.b))      # the point of order two
        self.outside = set()

    def neg(self, P):
        return None if P is None else (P[0], P[0] ^ P[1])

    def add(self, P, Q):
        gf = self.gf
        if P is None:
            return Q
        if Q is None:
            return P
        x1, y1 = P
        x2, y2 = Q
        if x1 == x2:
            if y2 == x1 ^ y1:
                return None
            l = x1 ^ gf.mul(y1, gf.inv(x1))
            x3 = gf.sqr(l) ^ l ^ self.a
            return (x3, gf.sqr(x1) ^ gf.mul(l ^ 1, x3))
        l = gf.mul(y1 ^ y2, gf.inv(x1 ^ x2))
        x3 = gf.sqr(l) ^ l ^ x1 ^ x2 ^ self.a
        return (x3, gf.mul(l, x1 ^ x3) ^ x3 ^ y1)

    def mul(self, P, k):
        if k < 0:
            P, k = self.neg(P), -k
        R = None
        while k:
            if k & 1:
                R = self.add(R, P)
            P = self.add(P, P)
            k >>= 1
        return R


# ---------------------------------------------------------------------------------------------------------------------
NFCLASS = 14


def felem(rng, gf, k=None, w=64):
    m = gf.m
    if k is None:
        k = rng.below(NFCLASS + 4)
    if k == 0:
        return 0
    if k == 1:
        return 1
    if k == 2:
        return 1 << (m - 1)
    if k == 3:
        return rng.choice([2, 3, 1 << (m - 2), (1 << (m - 1)) | 1])
    if k == 4:
        return (1 << m) - 1
    if k == 5:                              # sparse
        v = 0
        for _ in range(rng.choice([1, 2, 3])):
            v |= 1 << rng.below(m)
        return v
    if k == 6:                              # fits one digit
        return digit_pattern(rng, w)
    if k == 7:                              # high part only
        return (rng.bits(m) >> (m // 2)) << (m // 2)
    if k == 8:                              # digit-structured
        v = 0
        for i in range((m + w - 1) // w):
            v |= digit_pattern(rng, w) << (i * w)
        return v & ((1 << m) - 1)
    if k == 9:                              # nibble-structured (window tables of the comb multiplication / squaring tables)
        v = 0
        for i in range((m + 3) // 4):
            v |= rng.choice([0, 0xF, 1, 8, rng.below(16)]) << (4 * i)
        return v & ((1 << m) - 1)
    if k in (10, 11):                       # prescribed trace
        v = rng.bits(m)
        if gf.trace(v) != k - 10:
            v ^= 1                          # Tr(1) = 1 for odd m
        return v
    if k == 12:                             # top coefficients set
        return ((1 << m) - 1) ^ rng.bits(m // 2)
    return rng.bits(m)


def dbl_len(rng, gf, w=64):
    """input of a reduction: a double-length vector"""
    m = gf.m
    k = rng.below(10)
    if k < 4:
        return GF.clmul(felem(rng, gf), felem(rng, gf))
    if k == 4:
        a = felem(rng, gf)
        return GF.clmul(a, a)
    if k == 5:
        return rng.choice([0, 1, 1 << m, 1 << (m - 1), 1 << (2 * m - 2), (1 << (2 * m - 1)) - 1, gf.f, gf.f << (m - 2), (1 << m) - 1])
    if k == 6:                              # a single high coefficient: z^i mod f
        return 1 << (m + rng.below(m - 1))
    if k == 7:
        v = 0
        for i in range((2 * m + w - 1) // w):
            v |= digit_pattern(rng, w) << (i * w)
        return v & ((1 << (2 * m - 1)) - 1)
    return rng.bits(2 * m - 1)


def xorfold(a, w=64):
    r = 0
    while a:
        r ^= a & ((1 << w) - 1)
        a >>= w
    return r


def gen_field(rng, gf, count, w=64):
    m = gf.m
    out = []
    nb = (m + 7) // 8
    # regression lines of the repaired defects C16-1..C16-4 and one line per remaining finding
    out += ["fbu inv 0 1", "fbu inv_exgcd 1 1", "fbu inv_lower 0 1", "fb_rdc basic 0", "fbq slv 0 1 0", "fbb cmp_dig 0 %x 0" % ((1 << w) | 1),
            "fb_exp slide 0 2 %x" % (1 << (m + 1))]
    for _ in range(4):
        a = felem(rng, gf)
        d = rng.choice([0, 1, xorfold(a, w), a & ((1 << w) - 1)])
        out.append("fbb cmp_dig 0 %x %x" % (a, d))
    # systematic part: every variant meets every element class
    for op in FBB:
        for cls in range(NFCLASS):
            out.append("fbb %s %d %x %x" % (op, rng.below(5), felem(rng, gf, cls), felem(rng, gf, (cls * 5 + 3) % NFCLASS)))
    for op in FBU:
        for cls in range(NFCLASS):
            out.append("fbu %s %d %x" % (op, rng.below(2), felem(rng, gf, cls)))
    # degree sweep: the Euclidean-type inversions (and the square root / solver tables) branch on degrees and on degree differences that are
    # multiples of the digit size, which uniform elements reach with probability 2^-64: every degree 0..m-1 is presented, as the monomial
    # z^d and as a uniform element of that degree, to every inversion variant in turn (all variants x all degrees in the thorough tier)
    invs = [o for o in FBU if o.startswith("inv")]
    others = ["srt", "srt_basic", "srt_quick", "slv", "slv_basic", "slv_quick", "trc", "sqr", "sqr_quick"]
    others = [o for o in others if o in FBU]
    for d in range(m):
        mono = 1 << d
        uni = mono | rng.bits(d) if d > 0 else 1
        vs = invs if count > 5000 else sorted({"inv", invs[d % len(invs)], invs[(d // len(invs) + 1) % len(invs)]})
        for v in vs:
            out.append("fbu %s %d %x" % (v, rng.below(2), mono if (d + len(v)) % 2 == 0 or count > 5000 else uni))
        if count > 5000:
            for v in invs:
                out.append("fbu %s %d %x" % (v, rng.below(2), uni))
        if others:
            out.append("fbu %s %d %x" % (others[d % len(others)], rng.below(2), uni))
    # the degrees whose difference to m (or to 0) is a whole number of digits, and their neighbours, go to EVERY inversion variant in the quick
    # tier too, as monomial and as uniform element (a step without bit shift is reached only there)
    crit = sorted({d for i in range(1, m // w + 1) for d in (m - w * i - 1, m - w * i, m - w * i + 1, w * i - 1, w * i, w * i + 1) if 0 <= d < m})
    if count <= 5000:
        for d in crit:
            for v in invs:
                out.append("fbu %s %d %x" % (v, rng.below(2), 1 << d))
                out.append("fbu %s %d %x" % (v, rng.below(2), (1 << d) | rng.bits(d) if d > 0 else 1))
    # Euclidean inversions (modelled: binar / almos / exgcd): boundary operands of the halving loops, of the digit-wise comparison and of the
    # degree differences: 1, z, z + 1, f - z^m, all ones, z^(w k) and its neighbours, top-digit patterns, long runs of zero low coefficients
    fl = gf.f ^ (1 << m)
    bnd = [1, 2, 3, fl, fl ^ 1, fl << 1, (1 << m) - 1, (1 << m) - 2, (1 << (m - 1)) | 1, 1 << (m - 1), gf.f >> 1, (gf.f >> 1) ^ 1]
    for k in range(1, (m + w - 1) // w + 1):
        for e in (1 << (w * k), (1 << (w * k)) - 1, (1 << (w * k)) | 1, 1 << (w * k - 1), (1 << (w * k - 1)) | 1, ((1 << w) - 1) << (w * (k - 1))):
            if 0 < e < (1 << m):
                bnd.append(e)
    for a in bnd:
        for v in ("inv_binar", "inv_almos", "inv_exgcd"):
            out.append("fbu %s %d %x" % (v, rng.below(2), a))
    # fb_inv_sim (modelled): every list length the harness takes, both alias patterns, zero first / middle / last / everywhere, ones, equal operands
    for n in range(1, 17):
        els = [felem(rng, gf) or 1 for _ in range(n)]
        out.append("fb_invsim %d %d %s" % (n % 2, n, " ".join("%x" % e for e in els)))
        for zpos in sorted({0, n // 2, n - 1}):
            if n <= 4 or (n + zpos) % 5 == 0:
                z = list(els); z[zpos] = 0
                out.append("fb_invsim %d %d %s" % ((n + zpos) % 2, n, " ".join("%x" % e for e in z)))
    for n in (1, 2, 3, 16):
        for els in ([1] * n, [0] * n, [els[0]] * n, [2, 1 << (m - 1)] * (n // 2) + [3] * (n % 2), [(1 << m) - 1] * n):
            out.append("fb_invsim %d %d %s" % (n % 2, n, " ".join("%x" % e for e in els)))
            out.append("fb_invsim %d %d %s" % (1 - n % 2, n, " ".join("%x" % e for e in els)))
    for _ in range(count):
        k = rng.below(100)
        if k < 22:
            a, b = felem(rng, gf), felem(rng, gf)
            if rng.chance(1, 8):
                b = a
            out.append("fbb %s %d %x %x" % (rng.choice(FBB), rng.below(5), a, b))
        elif k < 50:
            op = rng.choice(FBU)
            a = felem(rng, gf)
            out.append("fbu %s %d %x" % (op, rng.below(2), a))
        elif k < 60:
            v, t = rng.choice(RDC), dbl_len(rng, gf)
            out.append("fb_rdc %s %x" % (v, t))
        elif k < 63:
            out.append("fb_rdc rdc1 %x" % (rng.choice([GF.clmul(felem(rng, gf), digit_pattern(rng, w)), rng.bits(m + w - 1), (1 << (m + w - 1)) - 1])))
        elif k < 72:
            out.append("fb_muln %s %x %x" % (rng.choice(MULN), felem(rng, gf), felem(rng, gf)))
        elif k < 77:
            b = rng.choice([0, 1, 2, 3, 5, 63, 64, 65, m // 2, m - 1, m, m + 1, 2 * m, -1, -2, -3])
            out.append("fb_itr %s %d %x %d" % (rng.choice(ITR), rng.below(2), felem(rng, gf), b))
        elif k < 84:
            a = felem(rng, gf)
            q = (1 << m) - 1
            e = rng.choice([0, 1, -1, 2, 3, q - 1, q, q + 1, -(q - 1), 1 << (m - 1), rng.bits(m), -rng.bits(100), rng.bits(10), rng.bits(m + 1),
                            rng.bits(rng.choice([m + 2, m + 20, 2 * m]))])
            out.append("fb_exp %s %d %x %s" % (rng.choice(EXP), rng.below(2), a, hx(e)))
        elif k < 87:
            v = rng.choice([0, 1, (1 << m) - 1, 1 << (m - 1), rng.bits(m), rng.bits(8 * nb), 1 << m, (1 << (8 * nb)) - 1])
            ln = rng.choice([nb, nb, nb, nb - 1, nb + 1, 0, 1])
            h = ("%0*x" % (2 * ln, v % (1 << (8 * ln)))) if ln else "."
            out.append("fb_rbin %s" % h)
        elif k < 89:
            out.append("fb_wbin %d %x" % (rng.choice([nb, nb, nb - 1, nb + 1, 0]), felem(rng, gf)))
        elif k < 91:
            n = rng.choice([1, 2, 3, 8])
            els = [felem(rng, gf) for _ in range(n)]
            if rng.chance(3, 4):
                els = [e or 1 for e in els]
            out.append("fb_invsim %d %d %s" % (rng.below(2), n, " ".join("%x" % e for e in els)))
        else:
            op = rng.choice(FBQ)
            a0, a1, b0, b1 = (felem(rng, gf) for _ in range(4))
            j = rng.below(8)
            if j == 0:
                a1 = 0
            elif j == 1:
                a0 = 0
            elif j == 2:
                a0, a1 = rng.choice([(0, 0), (1, 0), (0, 1), (1, 1)])
            if op == "slv":
                # solvable iff Tr(a1) = 0; both traces of a0
                a1 = felem(rng, gf, rng.choice([10, 10, 10, 11, 0, 1]))
                a0 = felem(rng, gf, rng.choice([10, 11, 0, 1]))
            if op in ("mul", "add"):
                out.append("fbq %s %d %x %x %x %x" % (op, rng.below(5), a0, a1, b0, b1))
            else:
                out.append("fbq %s %d %x %x" % (op, rng.below(2), a0, a1))
    return out


# ---------------------------------------------------------------------------------------------------------------------
def ptok(rng, cv, P, rep="P"):
    """rep "P": the operation accepts projective operands: present the affine point either normalised or in Lopez-Dahab projective
    coordinates with a random z"""
    if P is None:
        if rep == "P" and rng.chance(1, 4):
            return "inf,%x,%x,P" % (rng.bits(cv.m), rng.bits(cv.m))
        return "inf"
    s = "%x,%x" % P
    if rep == "P" and rng.chance(1, 2):
        z = rng.choice([1, 2, (1 << cv.m) - 1, rng.bits(cv.m) or 1])
        s += ",%x,P" % z
    elif rep == "H":
        s += ",H"
    return s


def rep_of(op):
    return "" if op.endswith("_basic") else "P"


def point(rng, cv, pool, any_order=True):
    k = rng.below(12)
    if k == 0:
        return None
    if k == 1:
        return cv.g
    if k == 2:
        return cv.neg(cv.g)
    if k == 3 and any_order:
        return cv.T
    if k == 4 and any_order:
        Q = cv.add(rng.choice(pool), cv.T)         # outside the subgroup generated by G
        cv.outside.add(Q)
        return Q
    if k == 5:
        return rng.choice(cv.small)
    return rng.choice(pool)


NSCLASS = 14


def scalar(rng, cv, k=None):
    r, m = cv.r, cv.m
    if k is None:
        k = rng.below(NSCLASS + 4)
    if k == 0:
        return 0
    if k == 1:
        return rng.choice([1, -1, 2, -2, 3])
    if k == 2:
        return r + rng.choice([-2, -1, 0, 1, 2])
    if k == 3:
        return rng.choice([2, 3]) * r + rng.choice([-1, 0, 1])
    if k == 4:
        return -(rng.bits(m) % r)
    if k == 5:
        return rng.bits(rng.choice([m, m, m - 1]))                 # up to the field size, beyond r
    if k == 6:
        return r // 2 + rng.choice([-1, 0, 1])
    if k == 7:
        return (1 << rng.below(m)) + rng.choice([-1, 0, 1])
    if k == 8:                                                     # long zero runs
        v = 1 << (r.bit_length() - 2)
        for _ in range(rng.choice([0, 1, 2])):
            v |= 1 << rng.below(r.bit_length() - 2)
        return v
    if k == 9:
        return rng.bits(rng.choice([8, 32, 64, 65, 127, 128, 129]))
    if k == 10:
        return int("01" * (m // 2), 2) % r
    if k == 11:
        return -(r + rng.choice([-1, 0, 1]))
    if k == 12:
        return rng.choice([1, -1]) * rng.bits(rng.choice([m + 1, m + 2, m + 7, m + 8, 2 * m]))   # longer than the field
    if k == 13:
        return (1 << rng.choice([r.bit_length() - 1, r.bit_length(), m - 1, m])) - rng.choice([0, 1])
    return rng.bits(m) % r


def gen_curve(rng, cv, count, w=64, full=True, san=False):
    gf, m = cv.gf, cv.m
    pool = [cv.mul(cv.g, rng.bits(64) | 1) for _ in range(5)] + [cv.mul(cv.g, cv.r - rng.bits(40))]
    cv.small = [cv.mul(cv.g, i) for i in (2, 3, 4, 5, -2, -3)]
    nb = (m + 7) // 8
    out = []
    # systematic part: every multiplication variant meets every scalar class at least once per curve
    for v in (MUL if full else []):
        for cls in range(NSCLASS):
            kk = scalar(rng, cv, cls)
            if v == "dig":
                kk = abs(kk) & ((1 << w) - 1)
            P = rng.choice(pool + [cv.g])
            out.append("ebm %s %d %s %s" % (v, rng.below(2), ptok(rng, cv, P, "" if v.startswith("fix") else "P"), hx(kk)))
        if v != "dig":
            for kk in (-2, -(3 + rng.below(17)), -((1 << 63) + rng.below(1 << 20))):
                for al in (0, 1):
                    out.append("ebm %s %d %s %s" % (v, al, ptok(rng, cv, rng.choice(pool + [cv.g]), "" if v.startswith("fix") else "P"), hx(kk)))
    # tau-adic recodings (bn_rec_tnaf_mod, bn_rec_tnaf) with the parameters of the curve code (u = -1 for a = 0, +1 for a = 1) and others
    for wd in range(2, 9):
        for u in (1, -1):
            kk = abs(scalar(rng, cv, rng.choice([4, 5, 8, 14])))
            out.append("bn_tnaf tnaf %d %d %d %d %x" % (u, m, wd, m + 8, kk))
    out.append("bn_tnaf tnaf 1 %d 4 %d 0" % (m, m + 8))
    out.append("bn_tnaf tnaf -1 %d 4 %d %x" % (m, m + 8, (1 << (m + 7)) - 1))      # finding C16-15: more digits than the buffer
    # regression lines of the repaired defects C16-5..C16-13, C16-15 and one line per remaining finding
    gtok = "%x,%x" % cv.g
    ttok = "%x,%x" % cv.T
    out += ["ebu dbl_basic 0 " + ttok, "ebb add_basic 0 %s %s" % (ttok, ttok), "ebu pck 0 " + ttok, "eb_wbin %d 1 %s" % (nb + 1, ttok),
            "eb_rbin 02" + "00" * nb, "ebu hlv 0 inf", "ebu norm 0 %s,H" % gtok, "eb_nsim 0 2 %s,2,P %s" % (gtok, gtok),
            "ebs joint %s 3 %s 5" % (gtok, gtok), "ebs trick %s 1 %s -1" % (gtok, gtok), "ebm lodah 0 inf 3", "ebm lodah 0 %s,2,P 3" % gtok,
            "ebm halve 0 %s,1,P 3" % gtok, "ebm lodah 0 %s %x" % (gtok, 3 * cv.r + 1), "ebm fix_basic 0 %s %x" % (gtok, 4 * cv.r + 1),
            "ebm fix_combs 0 %s %x" % (gtok, (1 << (m + 5)) + 1), "ebm fix_combd 0 %s %x" % (gtok, (1 << (m + 5)) + 1),
            "ebm lwnaf 0 %s %x" % (gtok, (1 << (m + 9)) + 1)]
    if cv.kbltz:
        out.append("ebm rwnaf 0 %s,2,P 3" % gtok)
        out.append("ebm lwnaf 0 %s %x" % (gtok, (1 << (m + 6)) - 3))        # overflowed the tau-NAF array before the repair
        out.append("ebs inter %s %x %s 3" % (gtok, (1 << (m + 5)) - 3, gtok))
    def trunc(x):
        return x
    for v in (SIM if full else []):
        for cls in range(NSCLASS):
            out.append("ebs %s %s %s %s %s" % (v, ptok(rng, cv, rng.choice(pool)), hx(trunc(scalar(rng, cv, cls))),
                                              ptok(rng, cv, rng.choice(pool)), hx(trunc(scalar(rng, cv, (cls * 5 + 3) % NSCLASS)))))
    # the result object is one of the point operands (both positions, every variant, non-zero scalars of ordinary size)
    for v in SIM:
        for al in (".p", ".q"):
            for _ in range(2 if full else 1):
                k1 = 1 + rng.below(cv.r - 1)
                k2 = 1 + rng.below(cv.r - 1)
                out.append("ebs %s%s %s %s %s %s" % (v, al, ptok(rng, cv, rng.choice(pool)), hx(k1), ptok(rng, cv, rng.choice(pool)), hx(k2)))
    # exceptional points through every add / dbl variant
    for op in EBB:
        for P, Q in ((cv.T, cv.T), (cv.T, None), (None, cv.T), (cv.g, cv.T), (cv.T, cv.g), (cv.g, cv.g), (cv.g, cv.neg(cv.g)), (None, None)):
            out.append("ebb %s %d %s %s" % (op, rng.below(3), ptok(rng, cv, P, rep_of(op)), ptok(rng, cv, Q, rep_of(op))))
    for op in EBU:
        for P in (cv.T, None, cv.g, cv.add(cv.g, cv.T)):
            if op == "upk":
                continue
            rep = "P" if op in ("dbl", "dbl_projc", "neg", "neg_projc", "norm", "frb", "on_curve", "is_infty") else ""
            out.append("ebu %s %d %s" % (op, rng.below(2), ptok(rng, cv, P, rep)))
    for _ in range(count):
        k = rng.below(100)
        if k < 20:
            P, Q = point(rng, cv, pool), point(rng, cv, pool)
            j = rng.below(6)
            if j == 0:
                Q = P
            elif j == 1:
                Q = cv.neg(P)
            op = rng.choice(EBB)
            out.append("ebb %s %d %s %s" % (op, rng.below(5), ptok(rng, cv, P, rep_of(op)), ptok(rng, cv, Q, rep_of(op))))
        elif k < 23:
            P, Q = point(rng, cv, pool), point(rng, cv, pool)
            if rng.chance(1, 2):
                Q = P
            out.append("ebb cmp 0 %s %s" % (ptok(rng, cv, P), ptok(rng, cv, Q)))
        elif k < 45:
            op = rng.choice(EBU)
            P = point(rng, cv, pool)
            if op == "hlv":
                rep = "H" if (P is not None and P[0] != 0 and rng.chance(1, 2)) else ""
            elif op == "norm":
                rep = rng.choice(["P", "P", "H"]) if (P is not None and P[0] != 0) else "P"
            elif op in ("dbl_basic", "neg_basic", "pck", "upk"):
                rep = ""
            else:
                rep = "P"
            if op == "on_curve" and P is not None and rng.chance(1, 3):
                P = (P[0], P[1] ^ rng.choice([1, 1 << (m - 1), rng.bits(m) or 1]))          # off the curve
            if op == "upk":
                x = rng.choice([P[0] if P else 1, felem(rng, gf), rng.bits(m)])
                out.append("ebu upk %d %x,%x" % (rng.below(2), x or 1, rng.below(2)))
            else:
                out.append("ebu %s %d %s" % (op, rng.below(2), ptok(rng, cv, P, rep)))
        elif k < 72:
            v = rng.choice(MUL)
            # multiplications that reduce / blind the scalar with the order r act on the subgroup generated by G
            sub = v in ("halve", "lodah")
            P = point(rng, cv, pool, any_order=not sub)
            kk = scalar(rng, cv)
            if v == "dig":
                kk = abs(kk) & ((1 << w) - 1)
            # the fixed-base tables reduce the scalar modulo r: on a point outside the subgroup generated by G that is [k]P for |k| < r only
            if v.startswith("fix") and P is not None and (P == cv.T or P in cv.outside):
                kk = (abs(kk) % cv.r) * (1 if kk >= 0 else -1)
            affine_only = v.startswith("fix")
            out.append("ebm %s %d %s %s" % (v, rng.below(2), ptok(rng, cv, P, "" if affine_only else "P"), hx(kk)))
        elif k < 90:
            v = rng.choice(SIM) + rng.choice(["", "", ".p", ".q"])
            k1, k2 = scalar(rng, cv), scalar(rng, cv)
            out.append("ebs %s %s %s %s %s" % (v, ptok(rng, cv, point(rng, cv, pool)), hx(k1), ptok(rng, cv, point(rng, cv, pool)), hx(k2)))
        elif k < 93:
            n = rng.choice([1, 2, 3, 8])
            al = rng.below(2)
            out.append("eb_nsim %d %d %s" % (al, n, " ".join(ptok(rng, cv, point(rng, cv, pool)) for _ in range(n))))
        elif k < 94:
            wd = rng.choice([2, 3, 4, 5, 6, 7, 8])
            kk = abs(scalar(rng, cv))
            kind = rng.choice(["tnaf", "tnaf", "mod"])
            cap = rng.choice([m + 8, m + 8, m + 1, 2 * m + 16, kk.bit_length() + 1, kk.bit_length()])
            out.append("bn_tnaf %s %d %d %d %d %s" % (kind, rng.choice([1, -1]), rng.choice([m, m, 17, 163]), wd, cap, hx(rng.choice([kk, -kk]))))
        elif k < 97:
            P = point(rng, cv, pool)
            pack = rng.below(2)
            ln = rng.choice([1, nb + 1, 2 * nb + 1, 2 * nb + 1, nb, 2 * nb, 2 * nb + 5, 0])
            out.append("eb_wbin %d %d %s" % (ln, pack, ptok(rng, cv, P)))
        else:
            P = point(rng, cv, pool)
            j = rng.below(9)
            if P is None or j == 0:
                h = rng.choice(["00", "01", "04", "."])
            elif j in (1, 2):
                h = "04%0*x%0*x" % (2 * nb, P[0], 2 * nb, P[1])
            elif j == 3:
                h = "04%0*x%0*x" % (2 * nb, P[0], 2 * nb, P[1] ^ 1)                       # not on the curve
            elif j == 4:
                h = "%02x%0*x%0*x" % (rng.choice([2, 3, 5, 6]), 2 * nb, P[0], 2 * nb, P[1])   # wrong tag
            elif j in (5, 6):
                z = gf.mul(P[1], gf.inv(P[0])) & 1 if P[0] else 0
                h = "%02x%0*x" % (2 + z, 2 * nb, P[0])
            elif j == 7:
                h = "%02x%0*x" % (rng.choice([2, 3, 4, 0]), 2 * nb, rng.bits(m))             # x without a point / wrong tag
            else:
                h = "04%0*x%0*x" % (2 * nb, P[0] | (1 << (8 * nb - 1)), 2 * nb, P[1])       # coordinate not reduced
            out.append("eb_rbin %s" % h)
    return out


# ---------------------------------------------------------------------------------------------------------------------
CVS = {}
_EXES = {}
_CTX = {}


def _exe(ctx, cfg="base"):
    e = ctx.oracle(cfg, defs=("ORACLE_EXTRA1=ops_fb", "ORACLE_EXTRA2=ops_eb"),
                   sources=("oracle.c", "ops_bn.c", "ops_fb.c", "ops_eb.c"), tag="_eb")
    _EXES[cfg] = e
    return e


def _info(exe, line):
    out = subprocess.run([exe], input=line + "\n", stdout=subprocess.PIPE, stderr=subprocess.DEVNULL, text=True, timeout=60).stdout
    return dict(t.split("=") for t in out.split()[1:] if "=" in t)


def _context(r):
    """what the library reports for the context line of a record: {"gf": GF, "cv": Cv or None}"""
    key = (r.get("cfg", "base"), r.get("context"))
    if key not in _CTX:
        info = {"gf": None, "cv": None}
        exe = _EXES.get(key[0]) or _EXES.get("base")
        if key[1] and exe:
            kv = _info(exe, key[1])
            if "f" in kv:
                info["gf"] = GF(int(kv["m"]), int(kv["f"], 16))
                if key[1].startswith("eb_param"):
                    info["cv"] = Cv(kv)
        _CTX[key] = info
    return _CTX[key]


def postprocess(ctx, recs):
    """the field / curve identifiers of the configuration must be selectable: a rejected selection of one of them is a failure"""
    for r in recs:
        t = r["line"].split()
        if len(t) == 2 and t[0] in ("fb_param", "eb_param") and r["got"].startswith("err") and not r["verdict"].startswith("FAIL"):
            ids = FIELDS if t[0] == "fb_param" else CURVES
            if any(int(t[1]) in v for v in ids.values()):
                r["verdict"] = "FAIL S model=[] spec=[%s selects a parameter set of this configuration] got=[err]" % r["line"]


def streams(ctx, scale=1):
    quick = ctx.tier == "quick"
    perf = (350 if quick else 12000) * scale
    perc = (220 if quick else 3000) * scale
    res = []
    for cfg in FIELDS:
        exe = _exe(ctx, cfg)
        lines = ["cfg"]
        for fid in FIELDS[cfg]:
            kv = _info(exe, "fb_param %d" % fid)
            if "f" not in kv:
                # an identifier of the configuration that can no longer be selected is a failure, not something to skip (postprocess)
                lines.append("fb_param %d" % fid)
                continue
            lines.append("fb_param %d" % fid)
            lines += gen_field(ctx.rng, GF(int(kv["m"]), int(kv["f"], 16)), perf)
        res.append({"name": "fb-" + cfg, "cfg": cfg, "exe": exe, "lines": lines})
        lines = ["cfg"]
        for cid in CURVES[cfg]:
            kv = _info(exe, "eb_param %d" % cid)
            if "f" not in kv:
                lines.append("eb_param %d" % cid)
                continue
            lines.append("eb_param %d" % cid)
            CVS[cid] = Cv(kv)
            lines += gen_curve(ctx.rng, CVS[cid], perc)
        # the curves once more in the opposite order in the same process: what a selection installs (Koblitz / supersingular flags, tables,
        # tau-adic constants) must not survive into the next selection (C19's clause for the binary curves)
        for cid in list(CURVES[cfg])[::-1] + list(CURVES[cfg])[:1]:
            if cid in CVS:
                lines.append("eb_param %d" % cid)
                lines += [l for l in gen_curve(ctx.rng, CVS[cid], perc // 3) if l.split()[0] in ("ebm", "ebs")][:40]
        res.append({"name": "eb-" + cfg, "cfg": cfg, "exe": exe, "lines": lines})
        # the same generators under AddressSanitizer / UBSan: exceptional points and long scalars reach fixed-size recoding buffers
        san = cfg + "-san"
        exs = _exe(ctx, san)
        lines = ["cfg"]
        for cid in CURVES[cfg]:
            if cid not in CVS:
                continue
            lines.append("eb_param %d" % cid)
            lines += gen_field(ctx.rng, CVS[cid].gf, (30 if quick else 500) * scale)[-((30 if quick else 500) * scale) - 10:]
            lines += gen_curve(ctx.rng, CVS[cid], (90 if quick else 1000) * scale, full=not quick, san=True)
        res.append({"name": "eb-" + san, "cfg": san, "exe": exs, "lines": lines})
    return res


def search_streams(ctx, mfail):
    return streams(ctx, scale=3)


def replay_streams(ctx, rp):
    cfg = rp.get("config", "base")
    return [{"name": "replay", "cfg": cfg, "exe": _exe(ctx, cfg), "lines": ["cfg"] + rp.get("context_lines", []) + rp.get("op_lines", [])}]


def nontrivial(r):
    return not r["got"].startswith("err") and r["got"] != "inf" and not r["got"].startswith("CRASH")


# ---------------------------------------------------------------------------------------------------------------------
# known findings (known_findings.json, property C16): predicates on a failing record
def _ptok(tok):
    """(point or None, representation) ; representation in "", "P", "H", "infP" """
    f = tok.split(",")
    if f[0] == "inf":
        return None, ("infP" if len(f) == 4 else "")
    P = (int(f[0], 16), int(f[1], 16))
    if len(f) == 4:
        return P, "P:" + f[2]
    if len(f) == 3:
        return P, "H"
    return P, ""


def _sc(tok):
    v = int(tok.lstrip("-"), 16)
    return -v if tok.startswith("-") else v


def matches_finding(f, r):
    t = r["line"].split()
    pred = f.get("pred")
    got = r["got"]
    op = t[0]
    info = _context(r)
    gf, cv = info["gf"], info["cv"]
    try:
        if pred == "exp_slide_long":
            return op == "fb_exp" and t[1] in ("exp", "slide") and got == "err" and gf is not None and abs(_sc(t[4])).bit_length() > gf.m + 1
        if pred == "tnaf_buffer_overflow":
            # bn_rec_tnaf called directly with a buffer that passes its entry test (cap >= bits(k) + 1) but is shorter than the tau-adic
            # expansion; the curve code no longer reaches it (scalars are reduced modulo the group order first)
            return op == "bn_tnaf" and t[1] == "tnaf" and "WROTE-PAST-CAP" in got
        if cv is None:
            return False
        m = cv.m
        if pred == "scalar_too_long_error":
            # fixed-size recoding arrays of the w-NAF routines on ordinary curves and of eb_mul_sim_trick / eb_mul_sim_joint on both curves
            if got != "err":
                return False
            if op == "ebm" and t[1] in ("mul", "lwnaf", "rwnaf", "fix_lwnaf"):
                return (not cv.kbltz) and abs(_sc(t[4])).bit_length() > m
            if op == "ebs":
                return max(abs(_sc(t[3])).bit_length(), abs(_sc(t[5])).bit_length()) > m
            return False
    except (ValueError, IndexError):
        return False
    return False
