"""C17 — the twisted Edwards curve: group law in every coordinate system, every scalar multiplication, encodings, hashing."""
import subprocess
from props.bngen import hx

TRUSTED = [
    "specification: the affine twisted-Edwards law of Spec/Edwards.lean (complete: a square, d non-square are evaluated by the driver with "
    "Euler's criterion on the constants the running library reports), double-and-add, RFC 9380 hash_to_curve for edwards25519 with "
    "expand_message_xmd over the SHA-256 of Spec/Sha256.lean; executed by the compiled Lean driver",
    "curve constants (p, a, d, G, r, h) are read from the running library (context line ed_param); the driver evaluates generator on curve, "
    "r*G = O, G != O, h = 8 and the orders of the 2-, 4- and 8-torsion points it computes itself; primality of p and r is NOT established "
    "here (ed25519: well-known; not in the C18 tables, which cover the prime-curve parameter files)",
    "class A since the C17 extension: ed_mul_pre_combd + ed_mul_fix_combd (model mulFixCombd: the table and loop models tabCombd / mulCombd "
    "shared with ep_mul_*_combd, constants dd = ceil(bits(r)/RLC_DEPTH), e = ceil(dd/2), scalar reduced modulo r; theorem mul_fix_combd: total, "
    "k*P for every integer k and depth >= 1) and ed_mul_sim_lot (model simLot: binary NAFs of the unreduced scalars at capacity max bits + 1, "
    "points negated for negative scalars, interleaved loop simLotNaf; theorem mul_sim_lot: total, sum k_i*P_i for every list of pairs); the "
    "models run over the affine group law of the specification, the C loops over the translated add/dbl formulas (linked by the formula theorems)",
    "class C (compared with the specification on the presented lines only): ed_blind, ed_on_curve, "
    "ed_size_bin, ed_curve_get_gen, hashing to the curve (ed_map, ed_map_dst: the specification is the plain RFC 9380 construction — "
    "expand_message_xmd, Elligator 2, birational map, cofactor clearing — and the result is also required to satisfy r*P = O; the optimised "
    "straight-line code of ed_map_ell2_5mod8 is not modelled), fp_srt / fp_inv / fp_exp (C02)",
    "also class A since the extension: ed_mul_dig (model mulDig with the naf[RLC_DIG + 1] buffer; theorem mul_dig) and the dispatch of "
    "ed_mul_gen / ed_mul_sim_gen (theorem mul_gen_dispatch: right whenever the routines it calls are); the precomputation tables of "
    "ed_mul_pre_basic / combs / combd / lwnaf are printed entry by entry (op edtab) and compared with the table models (tabPow2, tabCombs, "
    "tabCombd, tabOdd) and with the integer multiple each entry must be",
    "modelled and compared, without a theorem of their own: ed_is_infty (hand-written predicate)",
    "the theorems about scalar multiplication are over the abstract commutative group killed by r, instantiated in the correspondence by the "
    "curve points; that the affine law IS a group law (associativity) is the classical theorem about twisted Edwards curves and is not "
    "re-proved here (Mathlib has no Edwards model); commutativity, neutral element, inverse and closure under the complete law are proved",
]
ASSUMPTIONS = [
    "points presented to the scalar multiplications lie in the prime-order subgroup (or are the neutral element): the routines reduce the "
    "scalar modulo r, which is only right there; operands of add / dbl / neg / "
    "cmp / encodings range over the whole curve including the 8-torsion and sums of torsion and subgroup points",
    "in the extended-coordinate build every input satisfies T*Z = X*Y (the harness constructs T that way), which is the invariant every "
    "public function of that build maintains (checked on every output: flag T-BAD)",
]
RULE = ("points O, (0,-1), both points of order 4, all four of order 8, G, -G, small and random multiples of G, sums of torsion and subgroup "
        "points, equal/opposite pairs, each presented affine / projective / extended with z in {1, 2, p-1, random}; scalars 0, +-1, 2, r-1, r, "
        "r+1, multiples of r, negative, longer than r (254..512 bits), sparse/dense/alternating/long zero runs, comb-structured (single bits "
        "at row / column / half-table boundaries, one half of the columns empty, full row, full column, all ones); ed_mul_sim_lot with 0, 1, "
        "2, 3, 5, 8, 12 points, zero / negative / unreduced / unevenly long scalars, neutral and repeated points; every add/sub/dbl/neg/mul/"
        "mul_fix/mul_sim variant by name in the three coordinate-system builds; every alias pattern; encodings valid and malformed; "
        "non-trivial = distinct (configuration, line) whose result is neither an error nor the neutral element")

GENERATED = ["ed"]
EXTRA_THEOREM_MODULES = ["RelicVerif.Lemmas.EdFormulas", "RelicVerif.Lemmas.EdGroup", "RelicVerif.Lemmas.EdMul", "RelicVerif.Lemmas.EdLot", "RelicVerif.Lemmas.EdConv"]

CONFIGS = ["p255", "p255-extnd", "p255-basic"]
SYS = {"p255": "projc", "p255-extnd": "extnd", "p255-basic": "basic", "p255-extnd-san": "extnd"}

ADD = ["add", "add_basic", "add_projc", "add_extnd", "sub", "sub_basic", "sub_projc", "sub_extnd"]
ONE = ["dbl", "dbl_basic", "dbl_projc", "dbl_extnd", "neg", "neg_basic", "neg_projc", "norm", "copy", "blind", "on_curve", "is_infty"]
MUL = ["mul", "basic", "slide", "monty", "lwnaf", "lwreg", "gen", "dig", "fix_basic", "fix_combs", "fix_combd", "fix_lwnaf", "fix_"]
SIM = ["sim", "basic", "trick", "inter", "joint", "gen"]


class Ed:
    def __init__(self, kv):
        self.p = int(kv["p"], 16); self.a = int(kv["a"], 16); self.d = int(kv["d"], 16)
        self.g = (int(kv["gx"], 16), int(kv["gy"], 16)); self.r = int(kv["r"], 16); self.h = int(kv["h"], 16)
        self.nb = int(kv["nb"]); self.R = 1 << (64 * int(kv["fpdigs"])); self.fpbits = int(kv["fpbits"])
        self.depth = int(kv.get("depth", 4))          # RLC_DEPTH of the build (rows of the comb tables)
        self.O = (0, 1)
        self.tors = None

    def on(self, P):
        x, y = P
        p = self.p
        return (self.a * x * x + y * y - 1 - self.d * x * x * y * y) % p == 0

    def add(self, P, Q):
        p = self.p
        x1, y1 = P; x2, y2 = Q
        t = self.d * x1 * x2 * y1 * y2 % p
        return ((x1 * y2 + y1 * x2) * pow(1 + t, -1, p) % p, (y1 * y2 - self.a * x1 * x2) * pow(1 - t, -1, p) % p)

    def neg(self, P):
        return ((-P[0]) % self.p, P[1])

    def mul(self, P, k):
        if k < 0:
            P = self.neg(P); k = -k
        R = self.O
        while k:
            if k & 1:
                R = self.add(R, P)
            P = self.add(P, P)
            k >>= 1
        return R

    def sqrt(self, v):
        p = self.p
        v %= p
        if v == 0:
            return 0
        if pow(v, (p - 1) // 2, p) != 1:
            return None
        # Tonelli-Shanks
        q, s = p - 1, 0
        while q % 2 == 0:
            q //= 2; s += 1
        z = 2
        while pow(z, (p - 1) // 2, p) == 1:
            z += 1
        m, c, t, r = s, pow(z, q, p), pow(v, q, p), pow(v, (q + 1) // 2, p)
        while t != 1:
            i, t2 = 0, t
            while t2 != 1:
                t2 = t2 * t2 % p; i += 1
            b = pow(c, 1 << (m - i - 1), p)
            m, c, t, r = i, b * b % p, t * b * b % p, r * b % p
        return r

    def lift(self, y):
        """the x with (x, y) on the curve, or None"""
        p = self.p
        den = (self.d * y * y - self.a) % p
        if den == 0:
            return None
        return self.sqrt((y * y - 1) * pow(den, -1, p))

    def sign(self, x):
        return (x * self.R % self.p) & 1

    def torsion(self, rng):
        """[T1 .. T7] with Ti = i*T, T of order 8 (found by clearing the prime-order part of a random curve point)"""
        if self.tors is None:
            while True:
                y = rng.bits(256) % self.p
                x = self.lift(y)
                if x is None:
                    continue
                T = self.mul((x, y), self.r)
                if self.mul(T, 4) != self.O:
                    break
            self.tors = [self.mul(T, i) for i in range(1, 8)]
        return self.tors


def ptok(rng, cv, P, rep="P"):
    """rep: "" = affine only; "P" / "E" = with probability 1/2 presented projective / extended with some z; "PE" either flag"""
    s = "%x,%x" % P
    if rep and rng.chance(1, 2):
        z = rng.choice([1, 2, cv.p - 1, rng.bits(256) % cv.p or 1])
        s += ",%x,%s" % (z, rng.choice(list(rep)))
    return s


def rep_of(op, sysname):
    """the representation an operation accepts"""
    if op.endswith("_basic") or (sysname == "basic" and "_" not in op and op not in ("norm", "cmp", "copy", "blind", "on_curve", "is_infty")):
        return ""
    if op.endswith("_extnd"):
        return "E" if sysname != "extnd" else "PE"
    return "P" if sysname != "extnd" else "PE"


def point(rng, cv, pool):
    """every class of the quantifier"""
    k = rng.below(16)
    T = cv.torsion(rng)
    if k == 0:
        return cv.O
    if k == 1:
        return T[3]                      # order 2: (0, -1)
    if k == 2:
        return rng.choice([T[1], T[5]])  # order 4
    if k == 3:
        return rng.choice([T[0], T[2], T[4], T[6]])   # order 8
    if k == 4:
        return cv.g
    if k == 5:
        return cv.neg(cv.g)
    if k == 6:
        return cv.mul(cv.g, rng.choice([2, 3, 4, 5, cv.r - 1, cv.r - 2]))
    if k in (7, 8, 9):                   # small-order component
        return cv.add(rng.choice(pool), rng.choice(T))
    return rng.choice(pool)


def sub_point(rng, cv, pool):
    """prime-order subgroup (the operands of the scalar multiplications)"""
    k = rng.below(10)
    if k == 0:
        return cv.O
    if k == 1:
        return cv.g
    if k == 2:
        return cv.neg(cv.g)
    if k == 3:
        return cv.mul(cv.g, rng.choice([2, 3, 4, 5, cv.r - 1, cv.r - 2]))
    return rng.choice(pool)


NCLASS = 14


def scalar(rng, n, k=None):
    if k is None:
        k = rng.below(18)
    if k == 0:
        return 0
    if k == 1:
        return rng.choice([1, -1, 2, -2, 3])
    if k == 2:
        return n + rng.choice([-2, -1, 0, 1, 2])
    if k == 3:
        return rng.choice([2, 3, 7]) * n + rng.choice([-1, 0, 1])
    if k == 4:
        return -(rng.bits(256) % n)
    if k == 5:
        return rng.bits(rng.choice([257, 300, 384, 512])) | 1 << 256      # longer than the field
    if k == 6:
        return n // 2 + rng.choice([-1, 0, 1])
    if k == 7:
        return (1 << rng.below(253)) + rng.choice([-1, 0, 1])
    if k == 8:
        return int("01" * 126, 2) % n
    if k == 9:
        return rng.bits(rng.choice([8, 32, 64, 127, 128, 129]))
    if k == 10:   # long zero runs
        return (1 << rng.choice([251, 252])) | rng.bits(rng.choice([1, 3, 8])) | (1 << rng.below(250) if rng.chance(1, 2) else 0)
    if k == 11:   # between the group order and the field size: 253..256 bits
        return (1 << rng.choice([253, 254, 255])) | rng.bits(250)
    if k == 12:
        return -(n + rng.choice([-1, 0, 1]))
    if k == 13:   # exactly at the buffer sizes of the recodings
        return (1 << rng.choice([254, 255, 256])) - rng.choice([0, 1])
    return rng.bits(256) % n


def gen_group(rng, cv, sysname, count):
    pool = [cv.mul(cv.g, rng.bits(256) % cv.r) for _ in range(6)]
    T = cv.torsion(rng)
    out = ["ed_gen"]
    # systematic: every torsion point through every add / dbl variant, with itself, its opposite, and a subgroup point
    for t in [cv.O] + T:
        for op in ADD:
            rp = rep_of(op, sysname)
            for Q in (t, cv.neg(t), rng.choice(T), rng.choice(pool), cv.O):
                out.append("ed2 %s %d %s %s" % (op, rng.below(3), ptok(rng, cv, t, rp), ptok(rng, cv, Q, rp)))
        for op in ONE:
            out.append("ed1 %s %d %s" % (op, rng.below(2), ptok(rng, cv, t, rep_of(op, sysname))))
    # every alias pattern of every binary operation
    for op in ADD:
        for al in range(5):
            rp = rep_of(op, sysname)
            P, Q = point(rng, cv, pool), point(rng, cv, pool)
            out.append("ed2 %s %d %s %s" % (op, al, ptok(rng, cv, P, rp), ptok(rng, cv, Q, rp)))
    for _ in range(count):
        k = rng.below(100)
        if k < 55:
            P, Q = point(rng, cv, pool), point(rng, cv, pool)
            j = rng.below(6)
            if j == 0:
                Q = P
            elif j == 1:
                Q = cv.neg(P)
            op = rng.choice(ADD)
            rp = rep_of(op, sysname)
            out.append("ed2 %s %d %s %s" % (op, rng.below(5), ptok(rng, cv, P, rp), ptok(rng, cv, Q, rp)))
        elif k < 85:
            op = rng.choice(ONE)
            P = point(rng, cv, pool)
            if op == "on_curve" and rng.chance(1, 2):     # off-curve inputs
                P = (P[0], (P[1] + rng.choice([1, 2, cv.p - 1])) % cv.p) if rng.chance(1, 2) else (rng.bits(255) % cv.p, rng.bits(255) % cv.p)
            out.append("ed1 %s %d %s" % (op, rng.below(2), ptok(rng, cv, P, rep_of(op, sysname))))
        else:
            P, Q = point(rng, cv, pool), point(rng, cv, pool)
            j = rng.below(6)
            if j == 0:
                Q = P
            elif j == 1:
                Q = cv.neg(P)                         # same y, opposite x
            elif j == 2:
                Q = cv.add(P, rng.choice(T))
            elif j == 3:
                Q = (P[0], (-P[1]) % cv.p)            # same x, opposite y (= -P + (0,-1))
            rp = "P" if sysname != "extnd" else "PE"
            out.append("ed2 cmp 0 %s %s" % (ptok(rng, cv, P, rp), ptok(rng, cv, Q, rp)))
    return out


def gen_mul(rng, cv, sysname, count, part=None):
    """part = (i, n): the systematic block covers the scalar classes congruent to i modulo n (the configurations share the loop code;
    across the n configurations every variant still meets every class)"""
    pool = [cv.mul(cv.g, rng.bits(256) % cv.r) for _ in range(6)]
    out = []
    rp = "P" if sysname == "projc" else ("PE" if sysname == "extnd" else "")
    mine = (lambda c: True) if part is None else (lambda c: c % part[1] == part[0])
    # systematic part: every multiplication variant meets every scalar class at least once
    for v in MUL:
        for cls in range(NCLASS):
            if not mine(cls + len(v)):
                continue
            kk = scalar(rng, cv.r, cls)
            if v == "dig":
                kk = abs(kk) & ((1 << 64) - 1)
            P = rng.choice(pool + [cv.g])
            out.append("edm %s %d %s %s" % (v, rng.below(2), ptok(rng, cv, P, "" if v.startswith("fix") else rp), hx(kk)))
        if v != "dig" and mine(len(v)):
            for kk in (-2, -(3 + rng.below(17)), -((1 << 63) + rng.below(1 << 20))):
                for al in (0, 1):
                    out.append("edm %s %d %s %s" % (v, al, ptok(rng, cv, rng.choice(pool + [cv.g]), "" if v.startswith("fix") else rp), hx(kk)))
    # simultaneous normalisation: lists with the neutral element in affine and in projective form (0 : Z : Z), points of small order,
    # separate and in-place results
    if mine(3):
        neutral = ["0,1", "0,1,2,P", "0,1,%x,P" % (rng.bits(255) % cv.p or 1), "0,1,%x,P" % (cv.p - 1)]
        for al in (0, 1):
            out.append("ed_nsim %d %s" % (al, ptok(rng, cv, rng.choice(pool), rp)))
            out.append("ed_nsim %d %s" % (al, neutral[1]))
            out.append("ed_nsim %d %s %s %s" % (al, ptok(rng, cv, rng.choice(pool), rp), neutral[2], ptok(rng, cv, rng.choice(pool), rp)))
            out.append("ed_nsim %d %s %s" % (al, neutral[0], neutral[3]))
            out.append("ed_nsim %d %s" % (al, " ".join(ptok(rng, cv, rng.choice(pool + [cv.g]), rp) for _ in range(rng.choice([2, 3, 8])))))
            T = rng.choice(cv.torsion(rng))
            out.append("ed_nsim %d %s %s" % (al, ptok(rng, cv, T, rp), ptok(rng, cv, rng.choice(pool), rp)))
    for v in SIM:
        for cls in range(NCLASS):
            if not mine(cls + len(v)):
                continue
            out.append("eds %s %s %s %s %s" % (v, ptok(rng, cv, rng.choice(pool), rp), hx(scalar(rng, cv.r, cls)),
                                              ptok(rng, cv, rng.choice(pool), rp), hx(scalar(rng, cv.r, (cls * 5 + 3) % NCLASS))))
        # the result object is the first / second point operand (non-zero scalars of ordinary size)
        for al in (".p", ".q"):
            out.append("eds %s%s %s %x %s %x" % (v, al, ptok(rng, cv, rng.choice(pool), rp), 1 + rng.below(cv.r - 1),
                                                ptok(rng, cv, rng.choice(pool), rp), 1 + rng.below(cv.r - 1)))
    # comb-structured scalars for the double-table comb (ed_mul_fix_combd; fix_ / gen use it in the p255-basic build) and the single
    # comb: RLC_DEPTH rows (as the library reports), dd = ceil(bits(r)/depth) columns, e = ceil(dd/2): single bits at the row / column / half boundaries,
    # full and empty halves (second-table columns only, first-table columns only), one full column, one full row, all ones
    depth = cv.depth
    dd = (cv.r.bit_length() + depth - 1) // depth
    e = (dd + 1) // 2
    bit = lambda i, j: 1 << (i + j * dd)
    comb = []
    for i in (0, 1, e - 1, e, e + 1, dd - 1):
        for j in (0, 1, depth - 1):
            if i + j * dd < cv.r.bit_length() - 1:
                comb.append(bit(i, j))
    comb.append(sum(bit(i, j) for i in range(e) for j in range(depth - 1)))                 # only the first table is used
    comb.append(sum(bit(i, j) for i in range(e, dd) for j in range(depth - 1)))            # only the second table is used
    comb.append(sum(bit(e - 1, j) for j in range(depth - 1)) + sum(bit(dd - 1, j) for j in range(depth - 1)))
    comb.append(sum(bit(i, 0) for i in range(dd)))                                          # one full row
    comb.append(sum(bit(i, depth - 2) for i in range(dd)))
    comb.append((1 << (cv.r.bit_length() - 1)) - 1)                                         # all ones below the top bit
    comb.append(1 << (cv.r.bit_length() - 1))                                               # the top bit of the order alone
    comb.append(cv.r - 1)
    comb.append((1 << (depth * dd)) - 1)                                                    # all ones over the comb (reduced mod r)
    comb.append(-comb[rng.below(len(comb))])
    for ci, kk in enumerate(comb):
        for v in ("fix_combd", "fix_combs", "fix_", "gen"):
            if part is not None and v != "fix_combd" and (ci + len(v)) % part[1] != part[0]:
                continue
            out.append("edm %s %d %s %s" % (v, rng.below(2), ptok(rng, cv, rng.choice(pool + [cv.g]), ""), hx(kk)))
    # ed_mul_sim_lot, structured: no point, one point, scalars 0 / +-1 / negative / longer than the order (not reduced) / of very
    # different lengths (the shared NAF length is the longest + 1), the neutral element and repeated / opposite points among the inputs
    big = lambda: rng.bits(rng.choice([257, 300, 384])) | 1 << 256
    P0, P1, P2 = rng.choice(pool), rng.choice(pool), rng.choice(pool)
    lots = [
        [],
        [(P0, 0)], [(P0, 1)], [(P0, -1)], [(cv.O, 5)], [(P0, cv.r)], [(P0, big())], [(P0, -big())],
        [(P0, 1), (P1, rng.bits(256) % cv.r)], [(P0, rng.bits(256) % cv.r), (P1, 0)], [(P0, 0), (P1, 0)],
        [(P0, 3), (P0, -3)], [(P0, rng.bits(200)), (cv.neg(P0), rng.bits(252))], [(P0, cv.r - 1), (P1, -(cv.r - 1))],
        [(P0, -rng.bits(250)), (P1, -rng.bits(64)), (P2, -1)], [(cv.O, rng.bits(252)), (P1, 2), (cv.O, 0)],
        [(P0, big()), (P1, 1), (P2, -(rng.bits(128)))], [(P0, (1 << 252) - 1), (P1, 1 << 252), (P2, int("01" * 126, 2))],
        [(rng.choice(pool), scalar(rng, cv.r, c_)) for c_ in range(8)], [(rng.choice(pool), scalar(rng, cv.r, 6 + c_)) for c_ in range(8)],
        [(rng.choice(pool), rng.choice([1, -1]) * rng.bits(253)) for _ in range(12)],
    ]
    for li, lot in enumerate(lots):
        if not mine(li):
            continue
        toks = []
        for (P, kk) in lot:
            toks += [ptok(rng, cv, P, rp), hx(kk)]
        out.append(("edl %d %s" % (len(lot), " ".join(toks))).strip())
        if len(lot) > 0:
            out.append("edla %d %d %s" % (rng.below(len(lot)), len(lot), " ".join(toks)))
    # the precomputation tables themselves (edtab): a change that is compensated between table construction and loop, or that touches only
    # t[0] / t[2^depth], is invisible in k*P
    if mine(0) or mine(1):
        for v in ("basic", "combs", "combd", "lwnaf"):
            for P in (cv.g, rng.choice(pool)):
                out.append("edtab %s %s" % (v, ptok(rng, cv, P, "")))
        out.append("edtab combd %s" % ptok(rng, cv, cv.O, ""))
    else:
        out.append("edtab combd %s" % ptok(rng, cv, rng.choice(pool), ""))      # every build sees the double table at least once
    for _ in range(count):
        k = rng.below(100)
        if k < 55:
            v = rng.choice(MUL)
            P = sub_point(rng, cv, pool)
            kk = scalar(rng, cv.r)
            if v == "dig":
                kk = abs(kk) & ((1 << 64) - 1)
            out.append("edm %s %d %s %s" % (v, rng.below(2), ptok(rng, cv, P, "" if v.startswith("fix") else rp), hx(kk)))
        elif k < 90:
            v = rng.choice(SIM) + rng.choice(["", "", ".p", ".q"])      # result object = an operand
            P, Q = sub_point(rng, cv, pool), sub_point(rng, cv, pool)
            j = rng.below(8)
            if j == 0:
                Q = P
            elif j == 1:
                Q = cv.neg(P)
            elif j == 2:
                Q = cv.mul(P, rng.choice([2, 3, -3, -2]))
            out.append("eds %s %s %s %s %s" % (v, ptok(rng, cv, P, rp), hx(scalar(rng, cv.r)), ptok(rng, cv, Q, rp), hx(scalar(rng, cv.r))))
        else:
            n_ = rng.choice([0, 1, 2, 3, 5, 8])
            toks = []
            for _ in range(n_):
                toks += [ptok(rng, cv, sub_point(rng, cv, pool), rp), hx(scalar(rng, cv.r))]
            if n_ > 0 and rng.chance(1, 2):      # result written over one of the inputs
                out.append("edla %d %d %s" % (rng.choice([0, n_ - 1, rng.below(n_)]), n_, " ".join(toks)))
            else:
                out.append("edl %d %s" % (n_, " ".join(toks)))
    return out


def enc(cv, P, pack):
    nb = cv.nb
    if P == cv.O:
        return "00"
    if pack:
        return "%02x%0*x" % (2 | cv.sign(P[0]), 2 * nb, P[1])
    return "04%0*x%0*x" % (2 * nb, P[1], 2 * nb, P[0])


def gen_enc(rng, cv, sysname, count):
    """encodings: a valid stream and a malformed stream (all lengths, every tag byte, coordinates p-1, p, p+1, 2^256-1, off-curve points,
    y with no x, the non-canonical sign of x = 0)"""
    pool = [cv.mul(cv.g, rng.bits(256) % cv.r) for _ in range(4)]
    nb = cv.nb
    rp = "P" if sysname != "extnd" else "PE"
    top = (1 << (8 * nb)) - 1
    out = ["ed_read_bin 00", "ed_read_bin 01", "ed_read_bin .", "ed_read_bin 02%0*x" % (2 * nb, 1), "ed_read_bin 03%0*x" % (2 * nb, 1),
           "ed_read_bin 02%0*x" % (2 * nb, cv.p - 1), "ed_read_bin 03%0*x" % (2 * nb, cv.p - 1),
           "ed_read_bin 04%0*x%0*x" % (2 * nb, 1, 2 * nb, 0), "ed_upk 1 0", "ed_upk 1 1", "ed_upk %x 1" % (cv.p - 1), "ed_upk 0 0", "ed_upk 0 1"]
    for _ in range(count):
        k = rng.below(100)
        P = point(rng, cv, pool)
        if k < 20:
            pack = rng.below(2)
            size = 1 if P == cv.O else (nb + 1 if pack else 2 * nb + 1)
            ln = rng.choice([size, size, size, size + 1, size + 17, max(0, size - 1), 0, 1])
            out.append("ed_write_bin %d %d %s" % (ln, pack, ptok(rng, cv, P, rp)))
        elif k < 40:     # honest encodings read back
            out.append("ed_read_bin %s" % enc(cv, P, rng.below(2)))
        elif k < 52:     # every tag byte at each valid length
            tag = rng.below(256) if rng.chance(1, 2) else rng.choice([0, 1, 2, 3, 4, 5, 6, 7])
            x, y = P
            ln = rng.choice([1, nb + 1, 2 * nb + 1])
            body = "" if ln == 1 else ("%0*x" % (2 * nb, y) if ln == nb + 1 else "%0*x%0*x" % (2 * nb, y, 2 * nb, x))
            out.append("ed_read_bin %02x%s" % (tag, body))
        elif k < 68:     # out-of-range / off-curve coordinates
            x, y = P
            j = rng.below(6)
            if j == 0:
                x = rng.choice([cv.p, cv.p + 1, top, x + cv.p if x + cv.p <= top else cv.p])
            elif j == 1:
                y = rng.choice([cv.p, cv.p + 1, top, y + cv.p if y + cv.p <= top else cv.p])
            elif j == 2:
                y = (y + 1) % cv.p
            elif j == 3:
                y = rng.bits(8 * nb) % cv.p
            elif j == 4:
                x = (-x) % cv.p
            if rng.chance(1, 2):
                out.append("ed_read_bin 04%0*x%0*x" % (2 * nb, y, 2 * nb, x))
            else:
                out.append("ed_read_bin %02x%0*x" % (rng.choice([2, 3]), 2 * nb, y))
        elif k < 78:     # wrong lengths
            ln = rng.choice([0, 2, nb, nb + 2, 2 * nb, 2 * nb + 2, 2 * nb + 3, rng.below(2 * nb + 4)])
            b = bytearray(rng.bytes(ln))
            if ln:
                b[0] = rng.choice([0, 2, 3, 4])
            out.append("ed_read_bin %s" % (bytes(b).hex() or "."))
        elif k < 86:
            out.append("ed_pck %s" % ptok(rng, cv, P, ""))
        else:
            y = P[1] if rng.chance(1, 2) else rng.bits(255) % cv.p
            out.append("ed_upk %x %d %d" % (y, rng.below(2), rng.below(2)))
    return out


def gen_map(rng, count):
    out = ["ed_map .", "ed_map_dst . .", "ed_map_dst 616263 " + b"QUUX-V01-CS02-with-edwards25519_XMD:SHA-256_ELL2_RO_".hex()]
    for i in range(count):
        ln = rng.choice([0, 1, 3, 16, 31, 32, 33, 55, 56, 63, 64, 65, 100, 119, 120, 200, rng.below(300)])
        m = rng.bytes(ln).hex() or "."
        if rng.chance(1, 2):
            out.append("ed_map %s" % m)
        else:
            dl = rng.choice([0, 1, 5, 16, 43, 64, 100, 200, 255])
            out.append("ed_map_dst %s %s" % (m, rng.bytes(dl).hex() or "."))
    # determinism: the same input twice
    out += out[-3:]
    return out


def witnesses(cv, cfg):
    """regression lines: the repro line of every repaired defect (known_findings.json `fixed:` C17 entries)"""
    G, G2 = cv.g, cv.mul(cv.g, 2)
    g, g2 = "%x,%x" % G, "%x,%x" % G2
    y = 2
    while cv.lift(y) is not None:
        y += 1
    out = ["edm lwnaf 0 %s %x" % (g, (1 << 255) + 1),            # C17-F1
           "edm slide 0 %s %x" % (g, (1 << 256) + 1),
           "eds inter %s %x %s 3" % (g, (1 << 255) + 1, g2),
           "eds trick %s 5 %s %x" % (g, g2, (1 << 256) + 1),
           "eds joint %s 5 %s %x" % (g, g2, (1 << 255) + 1),
           "edm fix_combs 0 %s %x" % (g, (1 << 255) + 1),        # C17-F2
           "edm fix_combd 0 %s %x" % (g, (1 << 255) + 1),
           "edm fix_basic 0 %s %x" % (g, (1 << 253) + 1),
           "edm fix_lwnaf 0 %s %x" % (g, (1 << 255) + 1),
           "edm lwreg 0 %s %x" % (g, (1 << 383) + 1),            # C17-F2 / C17-F5 (faulted)
           "edm lwreg 0 %s -%x" % (g, (1 << 383) + 2),
           "edm lwreg 0 %s 6" % g,                               # C17-F3 (T coordinate), C17-F4 (array overrun under the sanitizer)
           "ed2 sub_extnd 0 %s %s" % (g, g2),                    # C17-F6
           "ed2 sub_extnd 3 %s %s" % (g, g2),
           "ed1 neg_basic 0 %s" % g,                             # C17-F7
           "ed_upk %x 0" % y]                                    # C17-F8
    return out


CVS = {}


def _exe(ctx, cfg):
    return ctx.oracle(cfg, defs=("ORACLE_EXTRA1=ops_ed",), sources=("oracle.c", "ops_bn.c", "ops_ed.c"), tag="_ed")


def curve_info(exe):
    out = subprocess.run([exe], input="ed_param any\n", stdout=subprocess.PIPE, stderr=subprocess.DEVNULL, text=True, timeout=60).stdout
    return dict(t.split("=") for t in out.split()[1:] if "=" in t)


SAN = "p255-extnd-san"


def streams(ctx, scale=1):
    quick = ctx.tier == "quick"
    ng = (260 if quick else 15000) * scale
    nm = (70 if quick else 4000) * scale
    part = (lambda i: (i, 3)) if quick else (lambda i: None)
    ne = (160 if quick else 6000) * scale
    nh = (14 if quick else 400) * scale
    res = []
    for cfg in CONFIGS + [SAN]:
        exe = _exe(ctx, cfg)
        kv = curve_info(exe)
        lines = ["cfg", "ed_param 0", "ed_param 2", "ed_param any"]
        if "p" in kv:
            cv = CVS[cfg] = Ed(kv)
            if cfg == SAN:
                # the same generators under AddressSanitizer / UBSan, shorter
                lines += (gen_group(ctx.rng, cv, SYS[cfg], ng // 4) + gen_mul(ctx.rng, cv, SYS[cfg], nm // 2, (0, 4) if quick else None)
                          + gen_enc(ctx.rng, cv, SYS[cfg], ne // 3) + gen_map(ctx.rng, 3) + witnesses(cv, cfg))
            else:
                lines += (gen_group(ctx.rng, cv, SYS[cfg], ng) + gen_mul(ctx.rng, cv, SYS[cfg], nm, part(CONFIGS.index(cfg)))
                          + gen_enc(ctx.rng, cv, SYS[cfg], ne))
                lines += gen_map(ctx.rng, nh) + witnesses(cv, cfg)
        res.append({"name": "ed-" + cfg, "cfg": cfg, "exe": exe, "lines": lines})
    return res


def search_streams(ctx, mfail):
    return streams(ctx, scale=3)


def replay_streams(ctx, rp):
    cfg = rp.get("config", "p255")
    return [{"name": "replay", "cfg": cfg, "exe": _exe(ctx, cfg), "lines": ["cfg"] + (rp.get("context_lines") or ["ed_param any"]) + rp.get("op_lines", [])}]


def nontrivial(r):
    return not r["got"].startswith("err") and not r["got"].startswith("0,1")


# ---- known findings --------------------------------------------------------------------------------------------------
# none listed: the eight defects found while building this check (C17-F1..F8, findings/C17-1.md) are repaired in /repo (known_findings.json
# `fixed:` lines); their repro lines stay in every stream (`witnesses`)
def matches_finding(f, r):
    return False
