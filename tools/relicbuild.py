"""Build cache for relic configurations, keyed by (configuration, content fingerprint of /repo)."""
import hashlib, os, shutil, subprocess, sys, time

VERIF = os.path.dirname(os.path.dirname(os.path.abspath(__file__)))
REPO = os.environ.get("RELIC_REPO", "/repo")
CACHE = os.path.join(VERIF, ".cache")
GUARD = "RELIC_VERIF"

COMMON = ["-DTESTS=0", "-DBENCH=0", "-DDOCUM=off", "-DSHLIB=off", "-DSEED=", "-DVERBS=off", "-DCOLOR=off"]
SAN = "-O1 -g -fsanitize=address,undefined -fno-sanitize-recover=all -fno-omit-frame-pointer"

CONFIGS = {
    # the pinned options (FP_PRIME=256, WSIZE=64, easy backend, ALLOC=AUTO, all variants compiled)
    "base": {"cmake": [], "cflags": "-O2"},
    "base-san": {"cmake": [], "cflags": SAN},
    "w8": {"cmake": ["-DARCH=", "-DWSIZE=8", "-DBN_PRECI=256", "-DWITH=BN;DV;MD"], "cflags": "-O2"},
    "w8-san": {"cmake": ["-DARCH=", "-DWSIZE=8", "-DBN_PRECI=256", "-DWITH=BN;DV;MD"], "cflags": SAN},
    "p255": {"cmake": ["-DFP_PRIME=255"], "cflags": "-O2"},
    # the Edwards module chooses its coordinate system at compile time (ED_ADD): the default above is PROJC;LWNAF;COMBS;INTER
    "p255-extnd": {"cmake": ["-DFP_PRIME=255", "-DED_METHD=EXTND;SLIDE;LWNAF;INTER"], "cflags": "-O2"},
    "p255-basic": {"cmake": ["-DFP_PRIME=255", "-DED_METHD=BASIC;MONTY;COMBD;JOINT"], "cflags": "-O2"},
    "p255-extnd-san": {"cmake": ["-DFP_PRIME=255", "-DED_METHD=EXTND;BASIC;BASIC;TRICK"], "cflags": SAN},
    "p381": {"cmake": ["-DFP_PRIME=381", "-DFP_QNRES=on", "-DFPX_METHD=INTEG;INTEG;LAZYR",
                       "-DPP_METHD=LAZYR;OATEP"], "cflags": "-O2"},
    # the other pairing field sizes (C10 thorough: towers above degree 12 with the curve families they belong to)
    "p330": {"cmake": ["-DFP_PRIME=330", "-DFPX_METHD=INTEG;INTEG;LAZYR", "-DPP_METHD=LAZYR;OATEP"], "cflags": "-O2"},    # KSS16: fp16
    "p354": {"cmake": ["-DFP_PRIME=354", "-DFPX_METHD=INTEG;INTEG;LAZYR", "-DPP_METHD=LAZYR;OATEP"], "cflags": "-O2"},    # KSS18: fp18
    "p315": {"cmake": ["-DFP_PRIME=315", "-DFPX_METHD=INTEG;INTEG;LAZYR", "-DPP_METHD=LAZYR;OATEP"], "cflags": "-O2"},    # BLS24: fp24
    "p575": {"cmake": ["-DFP_PRIME=575", "-DBN_PRECI=3072", "-DFP_QNRES=on", "-DFPX_METHD=INTEG;INTEG;LAZYR",
                       "-DPP_METHD=LAZYR;OATEP"], "cflags": "-O2"},                                                            # BLS48: fp48
    "p569": {"cmake": ["-DFP_PRIME=569", "-DBN_PRECI=3072", "-DFPX_METHD=INTEG;INTEG;LAZYR", "-DPP_METHD=LAZYR;OATEP"],
             "cflags": "-O2"},                                                                                                  # SG54: fp54
    # C08: dynamic allocation with the sanitizers (allocation-failure enumeration, harness/ops_af.c)
    "dyn-san": {"cmake": ["-DALLOC=DYNAMIC"], "cflags": SAN},
    "cov": {"cmake": [], "cflags": "-O1 -g -finstrument-functions"},
    "mt": {"cmake": ["-DMULTI=PTHREAD"], "cflags": "-O2"},
    # C06: the RSA padding is a compile-time choice (base = PKCS2/OAEP with CRT); the plain (non-CRT) private-key paths
    "cp-pkcs1": {"cmake": ["-DCP_RSAPD=PKCS1", "-DCP_CRT=off"], "cflags": "-O2"},
    "cp-basic": {"cmake": ["-DCP_RSAPD=BASIC"], "cflags": "-O2"},
    "cp-2048": {"cmake": ["-DBN_PRECI=2048"], "cflags": "-O2"},
    # C13: the direct map-from-randomness entry point ep_map_rnd dispatches on the compile-time EP_MAP only
    "map-basic": {"cmake": ["-DEP_METHD=PROJC;LWNAF;COMBS;INTER;BASIC"], "cflags": "-O2"},
    "map-swift": {"cmake": ["-DEP_METHD=PROJC;LWNAF;COMBS;INTER;SWIFT"], "cflags": "-O2"},
    # C05: the other two RSA paddings (the pinned one is PKCS2 = PSS); the BASIC build also takes the non-CRT private-key path
    "rsa-pkcs1": {"cmake": ["-DCP_RSAPD=PKCS1"], "cflags": "-O2"},
    "rsa-basic": {"cmake": ["-DCP_RSAPD=BASIC", "-DCP_CRT=off"], "cflags": "-O2"},
}


def write_if_changed(path, text):
    """atomic: concurrent checks regenerate the same files; a reader must never see a truncated one"""
    if os.path.exists(path):
        try:
            if open(path).read() == text:
                return False
        except OSError:
            pass
    os.makedirs(os.path.dirname(path), exist_ok=True)
    tmp = "%s.tmp.%d" % (path, os.getpid())
    with open(tmp, "w") as fh:
        fh.write(text)
    os.replace(tmp, path)
    return True


class FileLock:
    """exclusive advisory lock (several checks may run at once on a fresh tree and want the same build / oracle)"""

    def __init__(self, path):
        self.path = path

    def __enter__(self):
        import fcntl
        os.makedirs(os.path.dirname(self.path), exist_ok=True)
        self.fh = open(self.path, "w")
        fcntl.flock(self.fh, fcntl.LOCK_EX)
        return self

    def __exit__(self, *a):
        import fcntl
        fcntl.flock(self.fh, fcntl.LOCK_UN)
        self.fh.close()


def fingerprint(repo=REPO):
    h = hashlib.sha256()
    roots = ["src", "include", "cmake", "CMakeLists.txt"]
    files = []
    for r in roots:
        p = os.path.join(repo, r)
        if os.path.isfile(p):
            files.append(p)
        else:
            for d, dn, fn in os.walk(p):
                dn.sort()
                for f in sorted(fn):
                    files.append(os.path.join(d, f))
    for f in files:
        h.update(os.path.relpath(f, repo).encode())
        h.update(b"\0")
        try:
            with open(f, "rb") as fh:
                h.update(hashlib.sha256(fh.read()).digest())
        except OSError:
            h.update(b"?")
    return h.hexdigest()[:16]


def _prune(cfgdir, keep):
    ents = [os.path.join(cfgdir, e) for e in os.listdir(cfgdir)]
    ents = [e for e in ents if os.path.isdir(e)]
    ents.sort(key=lambda e: os.path.getmtime(e), reverse=True)
    for e in ents[keep:]:
        shutil.rmtree(e, ignore_errors=True)


def build(cfg, fp=None, repo=REPO, log=None):
    """Returns (builddir, None) on success or (None, error-text)."""
    fp = fp or fingerprint(repo)
    c = CONFIGS[cfg]
    cfgdir = os.path.join(CACHE, "build", cfg)
    bdir = os.path.join(cfgdir, fp)
    lib = os.path.join(bdir, "lib", "librelic_s.a")
    if os.path.exists(lib) and os.path.exists(os.path.join(bdir, ".ok")):
        os.utime(bdir, None)
        return bdir, None
    with FileLock(os.path.join(CACHE, "locks", "build-%s.lock" % cfg)):
        return _build_locked(cfg, fp, repo, c, cfgdir, bdir, lib)


def _build_locked(cfg, fp, repo, c, cfgdir, bdir, lib):
    if os.path.exists(lib) and os.path.exists(os.path.join(bdir, ".ok")):      # built by the process that held the lock before us
        os.utime(bdir, None)
        return bdir, None
    shutil.rmtree(bdir, ignore_errors=True)
    os.makedirs(bdir, exist_ok=True)
    env = dict(os.environ)
    env["CFLAGS"] = c["cflags"] + " -D" + GUARD + " -Wno-error -w"
    t0 = time.time()
    cmd = ["cmake", "-G", "Ninja", "-S", repo, "-B", bdir] + COMMON + c["cmake"]
    r = subprocess.run(cmd, env=env, stdout=subprocess.PIPE, stderr=subprocess.STDOUT, text=True)
    if r.returncode != 0:
        return None, "cmake configure failed for %s:\n%s" % (cfg, r.stdout[-3000:])
    r = subprocess.run(["cmake", "--build", bdir, "-j", "16"], env=env, stdout=subprocess.PIPE,
                       stderr=subprocess.STDOUT, text=True)
    if r.returncode != 0 or not os.path.exists(lib):
        return None, "build failed for %s:\n%s" % (cfg, r.stdout[-4000:])
    open(os.path.join(bdir, ".ok"), "w").write("%f\n" % (time.time() - t0))
    _prune(cfgdir, 2)
    return bdir, None


def cc_harness(bdir, cfg, sources, out, extra=None, defs=None):
    """Compile a harness program against the library built in bdir."""
    c = CONFIGS[cfg]
    cmd = ["gcc"] + c["cflags"].split() + ["-w", "-D" + GUARD,
           "-I", os.path.join(bdir, "include"), "-I", os.path.join(REPO, "include"),
           "-I", os.path.join(REPO, "include", "low"), "-I", os.path.join(REPO, "src"),
           "-I", os.path.join(VERIF, "harness")]
    for d in (defs or []):
        cmd.append("-D" + d)
    cmd += sources + ["-o", out, os.path.join(bdir, "lib", "librelic_s.a")] + (extra or [])
    if cfg == "mt":
        cmd.append("-lpthread")
    r = subprocess.run(cmd, stdout=subprocess.PIPE, stderr=subprocess.STDOUT, text=True)
    if r.returncode != 0:
        return r.stdout[-4000:]
    return None


if __name__ == "__main__":
    cfg = sys.argv[1] if len(sys.argv) > 1 else "base"
    t = time.time()
    print(build(cfg), "%.1fs" % (time.time() - t))
