#!/usr/bin/env python3
"""Translator for the straight-line tower formulas of src/fpx (property C10).

Every listed C function whose body is a sequence of calls `fpK_op(dst, src…)` on temporaries and on the coefficient
blocks a[i], b[i], c[i] (K = the level below) is turned into a Lean `let` chain over the operation record `FOps E` of
Model/FormulaBase.lean, in static single assignment form, written to lean/RelicVerif/Gen/Fpx.lean on every run.
Lemmas/FpxGen.lean proves each generated definition equal to the definition of Model/Fpx.lean the theorems are about
(by `rfl`: same data flow), so a change of the C text either still denotes the same formula or breaks a proof.

Accepted fragment (anything else is a translation failure, reported as a broken obligation):
  * scaffolding: declarations of temporaries, *_null / *_new / *_free, RLC_TRY / RLC_CATCH_ANY / RLC_FINALLY,
    RLC_THROW(ERR_CAUGHT), braces;
  * fpK_mul / sqr / add / sub / dbl / neg / inv / copy (dst, src[, src]);  fpK_mul_nor, fpK_mul_art -> the parameter `nor`
    (multiplication by the element adjoined one level up);  fpK_set_dig(t, 1) -> o.one;
  * the coordinate-wise halving  fp_hlv(x[k], x[k]) for every coordinate k of a block -> o.hlv;
  * fp_add_dig(x[0]…[0], x[0]…[0], 1) / fp_sub_dig(…, 1) on the first base coordinate of a block -> o.add x o.one / o.sub;
  * `int f = fpK_is_zero(x);` -> o.isZero;  `f = fpN_cmp_dig(a, 1) == RLC_EQ;` -> the Boolean parameter isOne;
    `f = fpK_is_zero(x) && fpK_is_zero(y) && …;` -> the conjunction of o.isZero;
    fpK_copy_sec(t, x, f) -> `if f then x else t`.
Aliasing of the destination with an operand is not modelled here (the correspondence run exercises it).
"""
import hashlib, os, re, sys

TOOLS = os.path.dirname(os.path.abspath(__file__))
VERIF = os.path.dirname(TOOLS)
REPO = os.environ.get("RELIC_REPO", "/repo")

# function -> (file, level N, level below K, block structure of the operands, operand names, extra)
#   shape "2" = V2 of K-elements, "3" = V3, "23" = V2 (V3 E) addressed as x[i][j] with E the level two below
T = [
    # quadratic levels
    ("fp4_mul_basic", "relic_fp4_mul.c", 4, 2, "2", "ab"), ("fp4_sqr_basic", "relic_fp4_sqr.c", 4, 2, "2", "a"),
    ("fp4_inv", "relic_fpx_inv.c", 4, 2, "2", "a"), ("fp4_mul_art", "relic_fp4_mul.c", 4, 2, "2", "a"),
    ("fp8_mul_basic", "relic_fp8_mul.c", 8, 4, "2", "ab"), ("fp8_sqr_basic", "relic_fp8_sqr.c", 8, 4, "2", "a"),
    ("fp8_inv", "relic_fpx_inv.c", 8, 4, "2", "a"), ("fp8_mul_art", "relic_fp8_mul.c", 8, 4, "2", "a"),
    ("fp8_sqr_cyc", "relic_fp8_sqr.c", 8, 4, "2", "a"),
    ("fp12_mul_basic", "relic_fp12_mul.c", 12, 6, "2", "ab"), ("fp12_sqr_basic", "relic_fp12_sqr.c", 12, 6, "2", "a"),
    ("fp12_inv", "relic_fpx_inv.c", 12, 6, "2", "a"), ("fp12_mul_art", "relic_fp12_mul.c", 12, 6, "2", "a"),
    ("fp16_mul_basic", "relic_fp16_mul.c", 16, 8, "2", "ab"), ("fp16_sqr_basic", "relic_fp16_sqr.c", 16, 8, "2", "a"),
    ("fp16_inv", "relic_fpx_inv.c", 16, 8, "2", "a"), ("fp16_mul_art", "relic_fp16_mul.c", 16, 8, "2", "a"),
    ("fp16_sqr_cyc", "relic_fp16_sqr.c", 16, 8, "2", "a"),
    ("fp18_mul_basic", "relic_fp18_mul.c", 18, 9, "2", "ab"), ("fp18_sqr_basic", "relic_fp18_sqr.c", 18, 9, "2", "a"),
    ("fp18_inv", "relic_fpx_inv.c", 18, 9, "2", "a"), ("fp18_mul_art", "relic_fp18_mul.c", 18, 9, "2", "a"),
    ("fp48_mul_basic", "relic_fp48_mul.c", 48, 24, "2", "ab"), ("fp48_sqr_basic", "relic_fp48_sqr.c", 48, 24, "2", "a"),
    ("fp48_inv", "relic_fpx_inv.c", 48, 24, "2", "a"), ("fp48_mul_art", "relic_fp48_mul.c", 48, 24, "2", "a"),
    # cubic levels
    ("fp6_mul_basic", "relic_fp6_mul.c", 6, 2, "3", "ab"), ("fp6_sqr_basic", "relic_fp6_sqr.c", 6, 2, "3", "a"),
    ("fp6_inv", "relic_fpx_inv.c", 6, 2, "3", "a"), ("fp6_mul_art", "relic_fp6_mul.c", 6, 2, "3", "a"),
    ("fp6_mul_dxs", "relic_fp6_mul.c", 6, 2, "3", "ab"),
    ("fp9_mul_basic", "relic_fp9_mul.c", 9, 3, "3", "ab"), ("fp9_sqr_basic", "relic_fp9_sqr.c", 9, 3, "3", "a"),
    ("fp9_inv", "relic_fpx_inv.c", 9, 3, "3", "a"), ("fp9_mul_art", "relic_fp9_mul.c", 9, 3, "3", "a"),
    ("fp9_mul_dxs", "relic_fp9_mul.c", 9, 3, "3", "ab"),
    ("fp24_mul_basic", "relic_fp24_mul.c", 24, 8, "3", "ab"), ("fp24_inv", "relic_fpx_inv.c", 24, 8, "3", "a"),
    ("fp24_mul_art", "relic_fp24_mul.c", 24, 8, "3", "a"),
    ("fp54_mul_basic", "relic_fp54_mul.c", 54, 18, "3", "ab"), ("fp54_inv", "relic_fpx_inv.c", 54, 18, "3", "a"),
    ("fp54_mul_art", "relic_fp54_mul.c", 54, 18, "3", "a"),
    # fp12 with fp2 operations on the six blocks
    ("fp12_sqr_cyc_basic", "relic_fp12_sqr.c", 12, 2, "23", "a"), ("fp12_sqr_pck_basic", "relic_fp12_sqr.c", 12, 2, "23", "ca"),
    ("fp12_back_cyc", "relic_fpx_cyc.c", 12, 2, "23", "a"),
]

SCAFFOLD = re.compile(r"^(RLC_TRY|RLC_CATCH_ANY|RLC_FINALLY|\}|\{|RLC_THROW\(ERR_CAUGHT\);)")
DECL = re.compile(r"^(fp\d*_t|dv\d*_t|bn_t)\s+[\w\s,]+;$")
CALL = re.compile(r"^(\w+)\((.*)\);$")


class TranslationError(Exception):
    pass


def function_text(path, name):
    txt = open(path).read()
    txt = re.sub(r"/\*.*?\*/", "", txt, flags=re.S)
    m = re.search(r"^(?:void|int)\s+%s\(([^)]*)\)\s*\{" % re.escape(name), txt, flags=re.M)
    if not m:
        raise TranslationError("%s: definition not found in %s" % (name, os.path.basename(path)))
    i, d = m.end(), 1
    while d:
        d += {"{": 1, "}": -1}.get(txt[i], 0)
        i += 1
    return txt[m.start():i], m.group(1), txt[m.end():i - 1]


def statements(body):
    out = []
    # a statement may continue on the following lines: join until it ends in ';', '{' or '}'
    joined, acc = [], ""
    for raw in body.split("\n"):
        l = raw.strip()
        if not l:
            continue
        if l.startswith("#"):
            joined.append(l)
            continue
        acc = (acc + " " + l).strip()
        if acc.endswith((";", "{", "}")) or re.match(r"^(RLC_TRY|RLC_CATCH_ANY|RLC_FINALLY)$", acc):
            joined.append(acc)
            acc = ""
    if acc:
        joined.append(acc)
    for raw in joined:
        l = raw.strip()
        if not l:
            continue
        if l.startswith("#"):
            raise TranslationError("preprocessor conditional inside the body: %s" % l)
        l = re.sub(r"\s+", " ", l)
        # `} RLC_CATCH_ANY {` etc.
        l = l.strip("{} ").strip() if re.match(r"^\}?\s*(RLC_TRY|RLC_CATCH_ANY|RLC_FINALLY)\s*\{?$", l) else l
        if not l or SCAFFOLD.match(l) or l in ("RLC_TRY", "RLC_CATCH_ANY", "RLC_FINALLY"):
            continue
        if DECL.match(l) or re.search(r"_(null|new|free)\(", l):
            continue
        out.append(l)
    return out


class Emit:
    def __init__(self, name, n, k, shape, ops):
        self.name, self.n, self.k, self.shape, self.ops = name, n, k, shape, ops
        self.cur = {}        # C lvalue -> current Lean name
        self.cnt = {}
        self.lines = []
        self.nops = 0
        self.uses_isone = False
        self.written = set()

    def comp(self, base, idx):
        if self.shape in ("2", "3"):
            if len(idx) != 1:
                raise TranslationError("%s: unexpected index depth on %s%s" % (self.name, base, idx))
            return "%s.c%d" % (base, idx[0])
        if len(idx) != 2:
            raise TranslationError("%s: unexpected index depth on %s%s" % (self.name, base, idx))
        return "%s.c%d.c%d" % (base, idx[0], idx[1])

    def read(self, tok):
        tok = tok.strip()
        m = re.match(r"^(\w+)((?:\[\d\])*)$", tok)
        if not m:
            raise TranslationError("%s: operand %r" % (self.name, tok))
        key = tok
        if key in self.cur:
            return self.cur[key]
        base, idx = m.group(1), [int(x) for x in re.findall(r"\[(\d)\]", m.group(2))]
        if base in self.ops and idx:
            if base == "c" and "c" not in self.ops:
                raise TranslationError("%s: destination block %s read before it is written" % (self.name, tok))
            return self.comp(base, idx)
        if base == "c" and idx:
            raise TranslationError("%s: destination block %s read before it is written" % (self.name, tok))
        raise TranslationError("%s: %s read before assignment" % (self.name, tok))

    def write(self, tok, expr):
        tok = tok.strip()
        m = re.match(r"^(\w+)((?:\[\d\])*)$", tok)
        if not m:
            raise TranslationError("%s: destination %r" % (self.name, tok))
        stem = re.sub(r"[\[\]]", "", tok)
        self.cnt[stem] = self.cnt.get(stem, 0) + 1
        nm = "%s_%d" % (stem, self.cnt[stem])
        self.lines.append("  let %s := %s" % (nm, expr))
        self.cur[tok] = nm
        if m.group(1) == "c":
            self.written.add(tok)

    def stmt(self, l, rest):
        """translate one statement; `rest` = following statements (for the halving group); returns number consumed"""
        k = self.k
        m = re.match(r"^int f = fp%d_is_zero\((.*)\);$" % k, l)
        if m:
            self.lines.append("  let f_0 := o.isZero %s" % self.read(m.group(1)))
            self.cur["f"] = "f_0"
            return 1
        if re.match(r"^f = \(?fp%d_cmp_dig\(a, 1\) == RLC_EQ\)?;$" % self.n, l):
            self.cur["f"] = "isOne"
            self.uses_isone = True
            return 1
        m = re.match(r"^f = ((?:fp%d_is_zero\([^()]*\)(?: && )?)+);$" % k, l)
        if m:
            # conjunction of zero tests (the repaired identity test of the decompression)
            parts = re.findall(r"fp%d_is_zero\(([^()]*)\)" % k, m.group(1))
            self.cnt["f"] = self.cnt.get("f", 0) + 1
            nm = "f_%d" % self.cnt["f"]
            self.lines.append("  let %s := %s" % (nm, " && ".join("o.isZero %s" % self.read(x) for x in parts)))
            self.cur["f"] = nm
            return 1
        m = CALL.match(l)
        if not m:
            raise TranslationError("%s: statement outside the accepted fragment: %s" % (self.name, l))
        fn, args = m.group(1), [a.strip() for a in m.group(2).split(",")]
        pre = "fp%d_" % k
        if fn == "fp_hlv":
            # coordinate-wise halving of a whole block: fp_hlv(x[0], x[0]); … fp_hlv(x[k-1], x[k-1]);
            blk = re.sub(r"\[\d\]$", "", args[0])
            group = ["fp_hlv(%s[%d], %s[%d]);" % (blk, i, blk, i) for i in range(k)]
            if [l] + rest[:k - 1] != group:
                raise TranslationError("%s: fp_hlv not applied to every coordinate of %s" % (self.name, blk))
            self.write(blk, "o.hlv %s" % self.read(blk))
            self.nops += 1
            return k
        if fn in ("fp_add_dig", "fp_sub_dig"):
            blk = args[0]
            depth = {2: 1, 3: 1, 4: 2, 8: 3, 9: 2}[k]
            if not (args[0] == args[1] and args[2] == "1" and blk.endswith("[0]" * depth)):
                raise TranslationError("%s: %s" % (self.name, l))
            blk = blk[:len(blk) - 3 * depth]
            self.write(blk, "o.%s %s o.one" % ("add" if fn == "fp_add_dig" else "sub", self.read(blk)))
            self.nops += 1
            return 1
        if not fn.startswith(pre):
            raise TranslationError("%s: call to %s (expected operations of fp%d)" % (self.name, fn, k))
        op = fn[len(pre):]
        self.nops += 1
        if op in ("mul", "add", "sub") and len(args) == 3:
            self.write(args[0], "o.%s %s %s" % (op, self.read(args[1]), self.read(args[2])))
        elif op in ("sqr", "dbl", "neg", "inv") and len(args) == 2:
            self.write(args[0], "o.%s %s" % (op, self.read(args[1])))
        elif op in ("mul_nor", "mul_art") and len(args) == 2:
            self.write(args[0], "nor %s" % self.read(args[1]))
        elif op == "copy" and len(args) == 2:
            self.write(args[0], self.read(args[1]))
        elif op == "set_dig" and len(args) == 2 and args[1] == "1":
            self.write(args[0], "o.one")
        elif op == "copy_sec" and len(args) == 3 and args[2] == "f":
            self.write(args[0], "if %s then %s else %s" % (self.cur["f"], self.read(args[1]), self.read(args[0])))
        else:
            raise TranslationError("%s: statement outside the accepted fragment: %s" % (self.name, l))
        return 1

    def result(self):
        def blk(tok):
            if tok in self.cur:
                return self.cur[tok]
            if "c" in self.ops:      # destination passed in: unwritten blocks keep their content
                idx = [int(x) for x in re.findall(r"\[(\d)\]", tok)]
                return self.comp("c", idx)
            raise TranslationError("%s: block %s of the result is never written" % (self.name, tok))
        if self.shape == "2":
            return "⟨%s, %s⟩" % (blk("c[0]"), blk("c[1]"))
        if self.shape == "3":
            return "⟨%s, %s, %s⟩" % (blk("c[0]"), blk("c[1]"), blk("c[2]"))
        return "⟨⟨%s, %s, %s⟩, ⟨%s, %s, %s⟩⟩" % tuple(blk("c[%d][%d]" % (i, j)) for i in (0, 1) for j in (0, 1, 2))


def translate(name, fname, n, k, shape, ops):
    path = os.path.join(REPO, "src", "fpx", fname)
    whole, params, body = function_text(path, name)
    st = statements(body)
    e = Emit(name, n, k, shape, ops)
    i = 0
    while i < len(st):
        i += e.stmt(st[i], st[i + 1:])
    res = e.result()
    ty = {"2": "V2 E", "3": "V3 E", "23": "V2 (V3 E)"}[shape]
    sig = "def %s {E : Type} (o : FOps E) (nor : E → E)%s %s : %s :=" % (
        name, " (isOne : Bool)" if e.uses_isone else "", " ".join("(%s : %s)" % (p, ty) for p in ops), ty)
    sha = hashlib.sha256(whole.encode()).hexdigest()[:16]
    doc = "/-- %s, from src/fpx/%s (sha256 %s, %d operations of fp%d) -/" % (name, fname, sha, e.nops, k)
    return "\n".join([doc, sig] + e.lines + ["  " + res]), {"name": name, "source": "src/fpx/" + fname, "sha256": sha, "operations": e.nops, "ok": True}


HEADER = """/-
GENERATED by tools/translate_fpx.py from the current /repo working tree — do not edit, not committed.
Straight-line tower formulas of src/fpx as `let` chains over the operation record of the level below (`nor` = the
multiplication by the element adjoined one level up: fpK_mul_nor / fpK_mul_art).
-/
import RelicVerif.Model.Fpx

namespace Relic.Gen.Fpx
open Relic.Model.Formula Relic.Model.Fpx

"""


def generate(out_path=None):
    out_path = out_path or os.path.join(VERIF, "lean", "RelicVerif", "Gen", "Fpx.lean")
    defs, obligations, failures = [], [], []
    for name, fname, n, k, shape, ops in T:
        try:
            d, ob = translate(name, fname, n, k, shape, ops)
            defs.append(d)
            obligations.append(ob)
        except (TranslationError, OSError, KeyError) as e:
            failures.append("translate_fpx: %s" % e)
            obligations.append({"name": name, "ok": False, "error": str(e)})
            # keep the Lean file well-formed: the equality lemma of this function will fail to elaborate
    os.makedirs(os.path.dirname(out_path), exist_ok=True)
    new = HEADER + "\n\n".join(defs) + "\n\nend Relic.Gen.Fpx\n"
    if not os.path.exists(out_path) or open(out_path).read() != new:
        __import__("relicbuild").write_if_changed(out_path, new)
    return {"obligations": obligations, "failures": failures}


if __name__ == "__main__":
    r = generate()
    for o in r["obligations"]:
        print(o)
    print("FAILURES:", r["failures"])
