#!/usr/bin/env python3
"""Regenerates MANIFEST.json from the table below (kept here so the manifest is always schema-valid)."""
import json, os, sys

VERIF = os.path.dirname(os.path.dirname(os.path.abspath(__file__)))

# property -> (technique, level text, level note, design ref)
CLAIMED = {
    "C01": ("Lean 4 proofs (carry chains, Comba, Karatsuba, Knuth D with add-back, sign fix-ups = exact Int arithmetic in normal form, "
            "any digit base) + correspondence run at w=64 and w=8",
            "Proved in Lean for the model, for every operand value, sign, length and every digit base 2^w: add/sub (+single-digit), "
            "mul (schoolbook, Comba, one-level Karatsuba), squaring (Comba, Karatsuba), floor division with remainder through Knuth D "
            "(quotient estimate, correction loop, add-back, normalisation), shifts, doubling, compare, bit access return the exact integer "
            "in normal form or a precision error only when the operand lengths leave no room. Two clauses are PARTIAL and carried as known "
            "findings with machine-checked counterexamples: bn_rsh/bn_hlv and bn_div_dig truncate for negative inexact operands. "
            "Tie: ~8000 structured operation lines per run (all alias patterns, all sign pairs, Knuth-D corner families, lengths up to the "
            "capacity) on the 64-bit and 8-bit-digit builds, implementation vs model vs Int.",
            "Trusted: Lean kernel (propext, Classical.choice, Quot.sound); hand-written model tied by correspondence only; __uint128_t digit "
            "products and arch_lzcnt modelled; aliasing and input-unchanged clauses observed on the implementation only; bn_sqr_basic "
            "(bn_sqra_low) compared but not modelled separately.",
            "DESIGN.md §5 C01"),
    "C02": ("Lean 4 proofs (digit level: canonical modular add/sub/neg/dbl/hlv; product-scanning Montgomery reduction exact and canonical for "
            "every T < pR; Montgomery mul/sqr.  Algorithm level: every exponentiation loop = a^e, Kaliski / binary / Euclid / Fermat / "
            "simultaneous inversion = the canonical inverse with zero reported, Euler symbol = Legendre symbol, fp_srt returns a root exactly "
            "when one exists) + correspondence on six 256-bit primes against Z/pZ with the models executed on every line",
            "Proved in Lean for the digit-level model, for every odd modulus with n digits in any base 2^w and u*p = -1 mod B: fp_addm/subm/"
            "negm/dblm/hlvm return the canonical residue (< p); fp_rdcn_low returns c < p with c*R = T mod p for every 2n-digit T < pR, "
            "including the carry-out and final-subtraction branches; fp_mulm/fp_sqrm compose them; equality of canonical elements is equality "
            "of residues.  Proved in Lean for the value-level models of Model/FpAlg (same loops, windows, tables, branches, Montgomery-domain "
            "conversions and error conditions as the C functions; Props/C02B, 16 theorems): fp_exp_basic / fp_exp_dig / fp_exp_monty / "
            "fp_exp_slide = a^e mod p for every exponent (no primality needed; fp_exp_slide refuses exponents longer than RLC_FP_BITS+1 bits, "
            "never answers wrongly), negative exponents = inverse of a^|e|, error for a = 0; for every odd prime p < R: fp_inv_monty (Kaliski "
            "phase 1 terminates within 2m iterations with k <= 2m, reduction of x1 below p, phase 2 in the Montgomery domain), fp_inv_binar, "
            "fp_inv_exgcd, fp_inv_basic, fp_inv_lower return x in [0,p) with a*x = 1 for a != 0 and report a = 0; fp_inv_sim for every list "
            "length >= 1; fp_smb_basic / fp_smbm_low = legendreSym (Mathlib); fp_srt (p = 3 mod 4 and constant-time Tonelli-Shanks for every "
            "2-adicity): flag = 1 iff the operand is a square, and then c*c = a, c < p; fp_is_sqr; fp_crt on its three one-exponentiation branches (p = 2 mod 3, 4 mod 9, 7 mod 9).  Class C (compared with the Z/pZ "
            "specification on every run, not modelled): fp_inv_divst, fp_inv_jmpds, fp_smb_binar, fp_smb_divst, fp_smb_jmpds (hence the symbol "
            "inside fp_is_sqr / the Tonelli-Shanks flag is modelled by Euler's criterion), the general branch of fp_crt and fp_is_cub, the *_dig small-constant forms.  "
            "Tie: ~8800 operation lines per run on NIST/BSI/SECG/SM2/BN/SM9 256-bit primes: structured Montgomery digits, all variants by name, "
            "aliasing, raw digit-level calls, decoder bounds, structured exponents / inversion operands / list lengths selecting every branch "
            "of every model (branch histogram in the evidence); six mutations of the modelled C functions in a scratch worktree were all "
            "reported (findings/C02-ext-notes.md).",
            "Trusted: Lean kernel; hand-written models tied by correspondence (the algorithm models compose the field operations by value, "
            "the digit-level theorems are not re-used inside them); the field context (p, u, R^2, qnr, RLC_FP_BITS, RLC_WIDTH, 2-adicity, "
            "root of unity) is read from the running library and checked against its defining equations = the hypotheses of the theorems; "
            "primality of the moduli is C18's; FP_RDC = MONTY, FP_EXP = SLIDE, FP_INV = MONTY only; Tonelli-Shanks iterations beyond f = 2 are "
            "not exercised by any prime of the verified configurations; known finding F16 (fp_exp_slide refuses exponents longer than the "
            "field size).",
            "DESIGN.md §5 C02"),
    "C03": ("Lean 4 proofs (every multiplication loop = k•P over an abstract commutative group, combined with the recoding theorems) + translator "
            "(add/dbl formula templates regenerated into Lean on every run and executed by the driver) + correspondence on six curves",
            "Proved in Lean (class A: model mirrors the C loop, theorem model = k•P resp. Σ kᵢ•Pᵢ for every integer scalar in any additive "
            "commutative group killed by n, model executed by the driver on every line over Jacobian arithmetic and compared with the library): "
            "ep_mul_basic / dig / slide / monty / lwnaf (plain: w-NAF; endomorphism curves: ep_mul_glv_imp with the integer model of bn_rec_glv) / "
            "lwreg (plain), ep_mul_fix_basic / fix_lwnaf, the single-table comb ep_mul_pre_combs + ep_mul_fix_combs (plain and the endomorphism "
            "variant ep_mul_combs_endom; also ep_mul_gen and ep_mul_fix), the double-table comb ep_mul_pre_combd + ep_mul_fix_combd, "
            "ep_mul_sim_basic / trick / inter (plain and ep_mul_sim_endom) / joint / gen, ep_mul_sim_lot (plain; endomorphism: interleaved NAFs "
            "up to ten points, bucket form above), ep_mul_sim_dig. GLV: k0 + k1·λ ≡ k (mod n) for the pair bn_rec_glv returns whenever the two "
            "stored lattice rows annihilate (1, λ) (checked on G for every selected curve), and every GLV loop = k0•P + k1•ψ(P) for an additive ψ; "
            "hence k•P given ψ(P) = λ•P. Tie T: the affine / projective / Jacobian add and dbl templates and their public wrappers are translated "
            "from the C text into Lean on every run, executed by the driver and proved equal to the chord-and-tangent law (29 theorems). "
            "Tie D: ~2800 lines per run on NIST/BSI/SM2 P-256, secp256k1, BN-P256, SM9-P256: every add/dbl/mul/mul_fix/mul_sim variant by name, "
            "every scalar class (incl. comb-structured and λ-structured scalars) for every variant, normalised / projective operands, all alias "
            "patterns; the precomputation tables of every fixed-base method entry by entry (eptab), and the fixed-base loops on caller-supplied "
            "tables of arbitrary points (epfixt: model = the loop, specification = the closed form Σ 2^i·T[column i]). "
            "Executed by the driver but NOT proved: ep_mul_reg_glv (ep_mul_lwreg on endomorphism curves; model Model/EpMul.mulRegGlv). "
            "Hypothesis kept explicit: ep_mul_combs_endom ignores the sign of a sub-scalar longer than l·d bits (unreachable on the 256-bit "
            "curves). Class C: ep_mul_cof, ep_psi (pinned by defining equations), ep_norm / ep_cmp, point encodings (C07).",
            "Trusted: Lean kernel; translator tools/translate.py (accepted fragment listed there; anything else is a translation failure); "
            "abstract-group models tied to the C loops by whole-function correspondence plus table / arbitrary-table lines; the driver's "
            "Jacobian evaluator (proved to represent the affine law in Lemmas/CurveFast); curve parameters, GLV lattice data, window width and "
            "comb depth read from the running library; known findings F22 (identity as fixed base), F24 (sim table containing the identity).",
            "DESIGN.md §5 C03"),
    "C06": ("Lean 4 proofs (RSA exponent cancellation for every residue incl. non-units, Garner/CRT = plain exponentiation, PKCS#1 v1.5 / OAEP / "
            "basic padding codecs: round trip and 'accepts only the documented layout', integer-level padding scans of the model = byte-level "
            "decoders, Paillier binomial / decryption / additive homomorphism incl. wrap / CRT decryption with L_p, L_q, Benaloh search, Rabin "
            "roots and redundancy block, Lagrange reconstruction from any qualifying set for the executable model of mpc_sss_key, Beaver, "
            "ECDH / MQV key equality, Pedersen) + correspondence of every cp_*/mpc_* entry point against executable textbook specifications "
            "with the key material the library prints, three RSA padding builds, six curves",
            "Proved in Lean (29 property theorems over 8 lemma files, all unbounded): for every key n = p*q with e*d = 1 mod lcm(p-1, q-1), RSADP(RSAEP(m)) = m for every "
            "m < n (gcd(m, n) != 1 included) and the model of bn_mxp_crt equals c^d mod n; EME-PKCS1-v1_5, EME-OAEP (any hash with fixed output "
            "length) and the basic layout satisfy unpad(pad(m)) = m for every admissible m and accept only strings of the documented layout; "
            "the integer-level models of pad_basic / pad_pkcs1 / pad_pkcs2 (RSA_DEC) equal the byte-level decoders of RFC 8017 for every k-octet "
            "block (same decision, same message octets); Paillier: (1+n)^m = 1+mn mod n^2, decryption of every well-formed ciphertext, "
            "Dec(c1*c2) = m1+m2 mod n incl. wrap, and both the CRT (L_p, L_q, Garner) and the plain model of cp_phpe_dec return the plaintext; "
            "Benaloh round trip and homomorphism; Rabin roots/redundancy; the executable model of mpc_sss_key and the specification's "
            "interpolation return f(0) on the shares of any polynomial of degree below the number of shares over Z_q (any order, any "
            "qualifying subset), fewer shares leave every secret possible; Beaver reconstruction; ECDH/MQV symmetry, Pedersen homomorphism in "
            "an abstract group. Eleven defects found by the check were repaired in /repo (fix commits listed in known_findings.json: OAEP top "
            "digit, PKCS#1 short PS, size_t wrap for short keys, Rabin hang on c = 0 and output on rejection, Benaloh m = t, generalised "
            "Paillier s >= 3, ECIES short ciphertext fault, cp_rsa_gen with e not invertible, bn_lag of the empty set, delegated-pairing "
            "verifiers). PARTIAL: one known finding stays (C06-9: ECDH/ECMQV derive the key from the shortest-form x-coordinate, which differs "
            "from the fixed-length conversion of SEC 1 in 1/256 of agreements). Tie: ~3400 lines per quick run: every plaintext length "
            "0..max+2 per key and padding, every octet of a ciphertext / tag mutated, crafted encoded messages for each rejection branch, "
            "capacities around the required size, homomorphic pairs around the wrap, all share subsets for small (k, n), leading-zero shared "
            "secrets.",
            "Trusted: Lean kernel; Spec/Cp.lean as the reading of RFC 8017 / the scheme papers; Model/Cp.lean tied to the C functions by the model "
            "column only (exact ciphertext of cp_rsa_enc through the DRBG model of C15); whole-function equality with the C code, Benaloh / "
            "Damgard-Jurik / subgroup Paillier / ECIES / ECDH / ECMQV / Pedersen / triples / PSI and all rejection decisions are class C "
            "(compared on the presented lines); pairing-based schemes (IBE, BGN, SOK, pairing PSI, delegated pairing, pairing triples) are "
            "checked only through their own invariants on the implementation's outputs - 'the value defined by the protocol' is then as strong "
            "as C04; primality of key factors by a strong-probable-prime test; AES/HMAC/KDF/SHA-256 are the C14 definitions.",
            "tools/props/c06.py (TRUSTED), lean/RelicVerif/Props/C06.lean"),
    "C13": ("Lean 4 proofs over an arbitrary field (SSWU / SvdW / SwiftEC / Elligator 2 outputs satisfy the curve equation for every input incl. "
            "the exceptional ones; the C code of the maps = the RFC 9380 text for every input; Horner / isogeny, cofactor, try-and-increment "
            "termination) + correspondence on 9 prime curves in 5 builds, 3 curves over Fp2, 2 binary curves, Ed25519",
            "Proved in Lean, for every field element of an arbitrary field with an is_square/sqrt oracle contract that every finite field satisfies: "
            "map_to_curve_simple_swu, map_to_curve_svdw (with the constants defined from Z, or any constants satisfying the defining equations), "
            "SwiftEC (a = 0) and Elligator 2 return a point of the curve - including u with Z^2u^4+Zu^2 = 0 resp. (1-u^2g(Z))(1+u^2g(Z)) = 0 - which "
            "contains 'one of the three SvdW / SwiftEC candidates is a square' (one identity serves both); the models of TMPL_MAP_SSWU (denominator "
            "patch, shortcut u^3t^6 g(x1)), TMPL_MAP_SVDW (inv0 emulation), EP_MAP_APPLY_MAP, TMPL_MAP_HORNER / TMPL_MAP_ISOGENY_MAP and of the a = 0 "
            "branch of ep_map_swift_impl equal the documented construction for every input; the sgn0 correction preserves the curve equation; the "
            "Montgomery->Edwards map lands on the Edwards curve; h*P lies in the r-torsion of a group of exponent h*r; try-and-increment "
            "terminates within p steps; the half-trace solves the quadratic of eb_map. The hypotheses on the map constants (Z non-square, "
            "g(B/(ZA)) square, c1..c4 equations, sqrt(-3), sqrt(-(J+2)) ...) are evaluated by the driver on the constants READ from the running "
            "library on every context line - which is how finding C13-1 shows. Tie: ~1700 lines per run: ep_map / ep_map_basic / ep_map_sswum / "
            "ep_map_swift for messages of 0..300 bytes and ep_map_rnd in the three builds EP_MAP = SSWUM / BASIC / SWIFT with uniform strings "
            "reducing to 0, +-1, p-1, the exceptional elements of each map, u0 = +-u1, representatives >= p, short / long strings, on NIST / BSI / "
            "SM2 P-256, secp256k1, BN-P256, SM9-P256, Curve25519 (Weierstrass, h = 8), Tweedledum, BLS12-381 G1 (11-isogeny, h_eff = 1 - x); "
            "eb_map on NIST B-283 / K-283; ed_map, ed_map_dst (DST lengths 0..300), Elligator 2 from a field element on Ed25519; each output "
            "ep2_map / ep2_map_sswum / ep2_map_basic on the Fp2 twists of BN-P256, SM9-P256 (SvdW, Fuentes et al. cofactor clearing) and BLS12-381 "
            "(SSWU, 3-isogeny, Budroni-Pintore); each output compared with the specification's point exactly, checked on-curve, n*P = O, and "
            "evaluated twice for determinism. PARTIAL: ep2_map_swift and the maps over Fp3 / Fp4 / Fp8 are not covered; eb_map / ed_map / ep2_map "
            "are compared with the specification only (no model of their C code; the template theorems hold over any field).",
            "Trusted: Lean kernel; hand-written specification and model tied by correspondence; map constants read from the running library and "
            "checked against their defining properties; group law, field oracles, md_xmd are the subjects of C03 / C02 / C14 (compared here, not "
            "re-proved); subgroup membership is per line (theorem only modulo #E = h*r, C18). Known findings C13-1 (ep_curve_set_map accepts a Z "
            "violating RFC 9380 condition 4: exceptional inputs leave the curve on SM2_P256 and Curve25519) and C13-2 (ep_map_swift_impl overwrites "
            "the identity it sets for exceptional parameters with a stack-dependent value).",
            "DESIGN.md §5 C13"),
    "C05": ("Lean 4 proofs (completeness of ECDSA / EC-Schnorr / SoK / vBNN-IBS over an abstract group of prime order, (r, n-s) malleability, "
            "RSA round trip for every residue + CRT recombination, EMSA-PSS verify = re-encode, RSASSA-PSS end to end, pairing equation = "
            "G1 equation for every non-degenerate bilinear map, Jacobian evaluator = affine definition) + correspondence of every real "
            "verifier / signer / key generator with independent Lean implementations of the standards on honest and systematically "
            "altered triples (six curves, two pairing curves, three RSA paddings)",
            "Proved in Lean, for all keys, nonces, messages: what the ECDSA / EC-Schnorr / proof-of-knowledge / vBNN-IBS signers derive is "
            "accepted by the specification verifiers (the definitions the driver executes, over any record of group operations realising a "
            "commutative group of prime order); (r, s) accepted implies (r, n-s) accepted; (m^d)^e = (m^e)^d = m mod pq for EVERY m when "
            "ed = 1 mod lcm(p-1, q-1) (or phi), on the executable powMod; Garner's CRT recombination = m^d mod pq; EMSA-PSS-VERIFY (RFC 8017 "
            "9.1.2, sLen = 0) accepts exactly the encoding of 9.1.1, and the RSASSA-PSS signature of every message verifies for every "
            "modulus length (incl. OS2IP/I2OSP and the emBits bound); for every bilinear map non-degenerate at g2 the BLS / BB / ZSS / CL-A / "
            "CL-C / PS pairing equations are equivalent to the G1 equations the specification decides. Class C: the verdicts of the C "
            "verifiers — compared on ~13000 lines per run: every scheme on every selectable curve, keys from key generation, all message "
            "length classes, both modes, every alteration class of the quantifier, malformed keys and components. PARTIAL: MPSS/MPSB, "
            "CMLHS, MKLHS are not covered. Thirteen defects found by the check (C05-1 … C05-13) are repaired in /repo (fixed: lines): "
            "identity public keys accepted (ECDSA, EC-Schnorr, BB, ZSS, PS), RSA sig+N / wrong-length / PSS top bit / 8k+1-bit moduli / "
            "pre-hashed length, ETRS forgery without a key, missing scalar range checks, vBNN and BASIC-padding stack overflows, PoK/SoK "
            "verifiers returning RLC_ERR = 1 on internal errors.",
            "Trusted: Lean kernel; specification = this check's transcription of FIPS 186-4 / SEC 1 / RFC 8017 and of the schemes' equations; "
            "pairing non-degeneracy / bilinearity (C04) and hash-to-curve (C13) are dependencies, not checked here; G2 facts through an "
            "unproved affine Fp2 helper on the twist parameters of the running library; nonces from the library DRBG (signatures checked, "
            "not predicted); no model of the C control flow.",
            "tools/ADDING_A_PROPERTY.md; findings/C05-*.md"),
    "C07": ("Lean 4 proofs (integer binary/text conversions round-trip, are canonical, decode only valid values and re-encode to the "
            "input) + correspondence of integer, field and point decoders/encoders incl. a malformed stream",
            "Proved in Lean for the model: bn_write_bin/bn_read_bin/bn_size_bin and bn_write_str/bn_read_str/bn_size_str (every radix 2..64): "
            "decode∘encode = id, the encoding has exactly the requested length and denotes |a| (left-padded), an error exactly when the buffer "
            "is shorter than the minimal size, decoding any byte string yields a normal-form integer whose re-encoding in the same length "
            "reproduces the input, text output is positional notation with '-' for negatives and size_str = length + 1. Field and point "
            "decoders (fp_read_bin, ep_read_bin incl. compressed form, ep_write_bin, ep_size_bin) are compared with a Lean specification of "
            "the decision logic (lengths, tags, coordinates < p, curve equation, sign-bit convention) on valid and malformed streams for six "
            "curves, with theorems in Model/EpConv.lean + Lemmas/EpConv.lean (decode accepts only curve points, re-encoding reproduces the input "
            "off the 2-torsion, decode∘encode = id, injectivity). Twist points over Fp2 (ep2_write_bin / ep2_read_bin / ep2_pck / ep2_upk): "
            "Model/Ep2Conv.lean with theorems (decode => on curve; uncompressed decode∘encode = id; the compression bit separates y from -y; "
            "machine-checked counterexample for the sign rule of the pinned ep2_pck, a genuine defect repaired in /repo) and a stream of "
            "valid and damaged encodings on both pairing curves incl. twist points with y in Fp; the compressed ep2 round trip is decided per "
            "presented line, not proved. Every point decode is run into three different destination contents and must not depend on them. "
            "eb/ed encodings are covered in C16/C17, compression of cyclotomic fpN elements in C10; other fpN/gt encodings are not covered.",
            "Trusted: Lean kernel; hand-written models tied by correspondence; util_conv_char's alphabet is part of the model; malformed "
            "numerals are read up to the first bad character (model-vs-implementation only); the compressed-point sign bit is the low bit "
            "of the stored Montgomery form on non-pairing curves (the library's own convention, not SEC1).",
            "DESIGN.md §5 C07"),
    "C09": ("Lean 4 proofs (value-level models that mirror each C loop of the gcd / inverse / exponentiation / reduction / symbol / primality / root / "
            "polynomial functions = their mathematical definitions for all inputs; every scalar recoding exact) + correspondence: the models are executed "
            "on every presented line at w=64 and w=8 and must reproduce the library's output exactly (extended-gcd cofactors included)",
            "Class A (model mirrors the C function, theorem model = specification for ALL inputs, model executed against the library on every line): "
            "bn_rec_win / slw / naf / reg / jsf (value, digit set, length, sparsity); bn_gcd_basic (= bn_gcd), bn_gcd_binar, bn_gcd_dig = Int.gcd for all integers; "
            "bn_gcd_ext_basic (= bn_gcd_ext), bn_gcd_ext_dig, bn_gcd_ext_binar: c = gcd >= 0 and a*d + b*e = c for all integers incl. zero / negative operands, every loop "
            "proved to terminate within the model's fuel (binary variant: parity argument and termination of its cofactor-reduction loop); bn_lcm; bn_mod_inv (error iff "
            "gcd != 1, otherwise THE inverse in [0, m)) and bn_mod_inv_sim (Montgomery's trick); bn_mxp_basic / slide (window table + bn_rec_slw scanning) / monty (ladder) / "
            "dig: a^|b| mod m canonical, m = 1, b = 0, negative exponents through the inverse, even / non-positive modulus -> the error the code reports; bn_mxp_sim, bn_mxp_sim_few (every n) and bn_mxp_sim_lot; "
            "bn_mxp_crt (both branches; RSA corollary = a^d mod pq); bn_smb_leg = legendreSym for odd primes; bn_smb_jac = Mathlib's jacobiSym for every one-digit odd "
            "modulus and for the single-digit loop on unbounded naturals; bn_is_prime_rabin / basic / bn_is_prime / solov: every prime is accepted (completeness; a rejection "
            "by trial division exhibits a divisor); bn_srt = Nat.sqrt; bn_mod_barrt = a mod m in [0, m) for every integer a with at most 2 corrections; bn_mod_pre_monty / monty_basic / comba / conv / back "
            "as REDC (canonical, r*R = a mod m); bn_mod_pmers for every integer a and every m > 0; bn_evl (Horner) and bn_lag (coefficients of prod (X - a_i) mod b). PARTIAL theorems ('whenever the "
            "model returns'; the model checks overflow / sign / fuel on every line instead of assuming them): bn_gcd_lehme / bn_gcd_ext_lehme (unimodular simulated matrix, "
            "tracked cofactor + exact division), bn_smb_jac for multi-digit moduli (inner-step lemmas proved: no wrap, exact divisibility by 2^s, low-bit agreement, sign "
            "repair; the per-iteration Jacobi invariant and termination are open: compared with the textbook symbol per line). Class C (specification only): bn_mod_basic "
            "(C01's division), bn_is_prime_solov on composites, rejection of composites by the fixed-base tests (corpus: Carmichael numbers, strong pseudoprimes, prime squares, "
            "close-prime products), prime generation; bn_gcd_ext_mid is modelled and tied with a weaker theorem (its vectors lie in the GLV lattice; shortness per curve is C18's). One genuine defect found by the models is repaired in /repo (060ee71, C09-ext-mod-1: Barrett / pseudo-Mersenne reduction non-canonical for negative operands; "
            "its classes are presented in every run), one is listed as a known finding with an exact-value matcher: C09-ext-mxp-1 (bn_mxp_sim ignores the sign of the "
            "exponents). Tie: ~12000 structured lines per run (quick), ~212000 (thorough): every variant by name, boundary operands, every model branch tagged.",
            "Trusted: Lean kernel; hand-written value-level models tied by correspondence (the digit layer below bn_add / bn_mul / bn_div / shifts is C01's); Montgomery "
            "form inside the exponentiation models is taken by value; primality ground truth = deterministic Miller-Rabin below 2^80, supplied factors, C18-certified / "
            "well-known primes above; 'rejects every composite' is corpus-only; bn_is_prime_basic is a trial-division filter (composites may pass by design); even moduli "
            "are refused by the Montgomery-based bn_mxp; known-finding matchers are exact-value predicates.",
            "DESIGN.md §5 C09; findings/C09-ext-notes.md"),
    "C14": ("Lean 4 proofs (streaming SHA-224/256/384/512 and BLAKE2s = FIPS 180-4 / RFC 7693 for every chunking; md_hmac/nist_kdf/md_xmd = "
            "RFC 2104 / MGF1-KDF2 / RFC 9380; FIPS 197 InvCipher o Cipher = id; table-driven rijndaelKeySetupEnc/Dec + rijndaelEncrypt/Decrypt = "
            "FIPS 197 Cipher / InvCipher; PKCS#7 + CBC round trip and rejection, concrete, over the table code) + tables/constants extracted from the "
            "C text and kernel-checked + correspondence against standard-derived Lean specs",
            "Proved in Lean for the models (which mirror the C control flow and are executed on every line): the Reset/Input/Result code of "
            "sha224-256.c and sha384-512.c (one parametric model) and blake2s-ref.c init/init_key/update/final equal the one-shot FIPS 180-4 / "
            "RFC 7693 definitions for every message length the standards admit and every chunking (the counter test of sha384-512.c "
            "fires exactly at a wrap of the 128-bit counter, fixed by 91cb094, C14-ext-1); HMAC for all key lengths, the counter KDF/MGF for all output lengths, expand_message_xmd over all four "
            "SHA streams incl. its abort conditions equal their standards; FIPS 197 InvCipher inverts Cipher for every key size, key and block "
            "(S-box bijection over 256 entries, ShiftRows, MixColumns via GF(2^8) linearity, any round-key list); the word-level mirror of "
            "rijndaelKeySetupEnc + rijndaelEncrypt over the tables extracted from the C text equals FIPS 197 KeyExpansion + Cipher for every "
            "key and block, rijndaelKeySetupDec + rijndaelDecrypt equal the par. 5.3.5 key schedule + equivalent inverse cipher (= InvCipher) "
            "for every key and block; PKCS#7 unpad o pad = id, padEncrypt/padDecrypt = CBC o PKCS#7 of the spec for every length incl. 0, decryption "
            "returns data only for well-formed padding, dec o enc = id with no hypothesis on the block cipher. Kernel-checked on every run "
            "against the C text: all entries of Te0..Te4, Td0..Td4, rcon; K/H0/IV/sigma of the hash files. Tie: outputs of the library's "
            "one-shot AND incremental APIs (arbitrary chunk splits, Result/final in between, preset counters) are compared with model and "
            "spec on all lengths around every padding boundary, all key sizes, corrupted ciphertexts and short buffers.",
            "Trusted: Lean kernel; hand-written models tied by correspondence; the round functions (SHA*ProcessMessageBlock, blake2s_compress) "
            "are the specification's functions compared per line (constants tied by proof); translators tools/translate_aes.py, "
            "tools/translate_md.py parse C initialisers.",
            "DESIGN.md §5 C14"),
    "C15": ("Lean 4 refinement proof (byte-level DRBG model ⊑ SP 800-90A spec, induction over histories) + correspondence run",
            "Proved in Lean for the model: for every hash with 32-byte output, every non-empty seed and every history of generate/reseed "
            "calls shorter than 2^31-258 operations, the model's byte stream equals the SP 800-90A Hash_DRBG stream; over-limit requests and "
            "empty seeds are refused with the state unchanged. The model is tied to src/rand/relic_rand_hashd.c by running both on the same "
            "histories (boundary request sizes, reseeds, 40k-call histories) and diffing byte-for-byte. Class A (model proved for all inputs and "
            "executed on every line over the DRBG model): bn_rand (digit filling, top-digit mask: value below 2^bits for every request, byte "
            "source and state; refusal exactly beyond the capacity; the state advances as ONE draw of ceil(bits/w)*(w/8) bytes — shown on the "
            "bn_rand_st lines by the next 16 bytes of the generator), bn_rand_mod (rejection loop: result in [1, bound)), fp_rand (mask to "
            "RLC_FP_BITS, subtraction loop: result = masked draw mod p < p, one draw; every prime the base and p255 builds can select) and "
            "fb_rand (degree below RLC_FB_BITS, one draw). Class C: ep_rand / eb_rand / ed_rand (bn_rand_mod followed by a fixed-base "
            "multiplication; the two halves are covered separately here and by C03), rand_init's entropy source (not deterministic).",
            "Trusted: Lean kernel (axioms propext, Classical.choice, Quot.sound); hand-written model tied by correspondence only; SHA-256 as "
            "executable FIPS 180-4 spec (validated against md_map_sh256 in the same run); ctx->counter is an int (history bound).",
            "DESIGN.md §5 C15"),
    "C19": ("Lean 4 simulation proof (macro machine of relic_err.h ⊑ structured try/catch/finally semantics, structural induction over "
            "programs) + generated C programs compiled with the real macros",
            "Proved in Lean for the model: for every program (any nesting depth and order of try / throw / rethrow / catch-with-variable / "
            "catch-any / finally / throws outside any block / err_get_code observations) the macro machine yields the same action trace, "
            "sticky code and handler chain as the structured semantics; the pre-repair macro is proved right only on programs without a "
            "protected block inside FINALLY, with two machine-checked counterexamples. Tie: ~1500 random program ASTs per run are printed "
            "with the real macros, compiled against the freshly built library and compared with the model. PARTIAL: per-context / per-thread "
            "independence and re-parameterisation are not yet covered by this check.",
            "Trusted: Lean kernel; hand-written machine model tied by correspondence; setjmp/longjmp and the compiler are modelled "
            "(a throw transfers control to the frame ctx->last points to); the AST-to-C printer in tools/props/c19.py.",
            "DESIGN.md §5 C19"),
    "C17": ("Translator (src/ed add/dbl/neg/sub/norm code regenerated into Lean on every run, once per pointer-alias pattern and per build) + Lean 4 "
            "proofs (generated formulas = affine twisted-Edwards law over any field incl. completeness; every multiplication loop = k•P over an "
            "abstract commutative group with the C buffer bounds; encodings round-trip) + correspondence in the three 255-bit coordinate-system "
            "builds and a sanitizer build",
            "Proved in Lean, for all inputs: (1) every aliased call (r = p, r = q, p = q, r = p = q) of every translated function computes what the "
            "unaliased call computes (rfl, any carrier); (2) over any field of characteristic != 2, on a complete curve (a square, d non-square) and "
            "for operands that are curve points — neutral element, points of order 2, 4, 8, equal and opposite operands included, the law has no "
            "exceptional case (completeness theorem proved, so no denominator hypothesis remains) — ed_add/dbl/sub in affine, projective "
            "(BBJLP 2008) and extended (HWCD 2008) coordinates return a representation of the affine sum and the extended ones re-establish "
            "T*Z = X*Y; ed_neg, ed_norm denote -P, P; ed_cmp's cross-multiplication decides equality of the affine points; the affine law is closed "
            "on the curve, commutative, with neutral element (0,1) and inverse (-x,y); (3) ed_mul_basic/monty/lwnaf/slide/lwreg, "
            "ed_mul_fix_basic/lwnaf/combs/combd (with the table constructions ed_mul_pre_*), ed_mul_sim_basic/trick/inter/joint and the "
            "generator-table branch of ed_mul_sim_gen never reject and "
            "return k•P (k•P + m•Q) for every integer scalar in any additive commutative group killed by r; ed_mul_sim_lot never rejects and "
            "returns the sum of k_i•P_i for every list of (point, scalar) pairs, scalars of any sign and length, in any additive commutative "
            "group (mul_fix_combd, mul_sim_lot: corollaries of the C03 abstract-group theorems about the shared models of Model/EpMul.lean); (4) ed_read_bin accepts only curve points in canonical form "
            "of the three advertised shapes, decode∘encode = id on curve points (compressed and not), encode∘decode = id except on the two "
            "redundant forms of the format, ed_upk∘ed_pck = id. The multiplication theorems are at full strength — total, k•P for EVERY integer k on "
            "points killed by r, r < 2^RLC_FP_BITS — since the routines reduce the scalar modulo r (the /repo fixes of the eight defects this check "
            "found, C17-F1..F8, are recorded as fixed). PARTIAL: associativity of the law is the classical theorem and is not re-proved; hashing to "
            "the curve (ed_map, ed_map_dst) is class C: compared on every run with an executable RFC 9380 specification "
            "(expand_message_xmd/SHA-256, Elligator 2, birational map, cofactor clearing) incl. r*P = O. "
            "Tie: ~3900 lines per run: every add/sub/dbl/neg/norm/cmp/mul/mul_fix/mul_sim variant by name in the PROJC, EXTND and BASIC builds, "
            "all torsion points and their sums with subgroup points, random Z, all alias patterns, all scalar classes, valid and malformed "
            "encodings; the model column is the generated formula code resp. the loop models with the C buffer sizes.",
            "Trusted: Lean kernel; translator tools/translate_ed.py (accepted fragment listed there); hand-written models of ed_is_infty, ed_cmp, "
            "the multiplication loops and the encodings tied by correspondence; curve constants read from the running library (generator on "
            "curve, a square / d non-square by Euler, r*G = O, 8-torsion orders evaluated by the driver; primality of p and r not established "
            "here); fp_srt / fp_inv enter the encoding theorems through their contracts (C02 class C); ed_blind, "
            "ed_on_curve, ed_size_bin, ed_curve_get_gen are compared only; ed_mul_dig (mul_dig) and the dispatch of ed_mul_gen / ed_mul_sim_gen (mul_gen_dispatch) have "
            "theorems; the precomputation tables are compared entry by entry (op edtab). No known finding is listed (C17-F1..F8 repaired in /repo).",
            "findings/C17-design.md; findings/C17-1.md"),
    "C10": ("Translator (45 straight-line tower functions of src/fpx regenerated into Lean on every run and proved equal to the model "
            "definitions) + Lean 4 proofs (generic polynomial-quotient layer = R[X]/(X^k - c) via evaluation at any root, incl. Mathlib's AdjoinRoot; every "
            "multiplication / squaring / inversion formula of src/fpx = product of the quotient ring over an abstract commutative ring with the "
            "non-residue as parameter; sparse, Granger-Scott, Karabina forms under their algebraic preconditions; the stacked fp12 model as "
            "executed = ring operations after evaluation) + correspondence of every public fpN_* function by name against the generic "
            "quotient-ring specification on BN-P256, SM9-P256 (both twist types), the plain 256-bit primes (fp2/fp3) and BLS12-381 (thorough)",
            "Proved in Lean, for all elements and any commutative ring (non-residues as parameters): the specification's layer (schoolbook "
            "product, folding modulo X^k - c) is the product of R[X]/(X^k - c) with exactly k coefficients, and the p-power map expands over "
            "coefficients; fp2 mul/sqr (basic and integrated shapes with the qnr loops), fp2_inv, fp2_mul_art, every branch of fp2_mul_nor; "
            "fp3 mul/sqr/inv/mul_art with the cnr loops; Karatsuba mul, complex / Chung-Hasan sqr, inv and mul_art of every quadratic level "
            "(fp4/8/12/16/18/48) and cubic level (fp6/9/24/54) return the coefficients of the product / square / inverse; fp6/fp9_mul_dxs and "
            "fp12_mul_dxs (D- and M-type) equal the full product for sparse operands; fp12_sqr_cyc, fp12_sqr_pck, fp8/16_sqr_cyc and "
            "fpN_inv_cyc equal the generic operation on the cyclotomic subgroup (six Granger-Scott relations, proved equivalent to "
            "a*a^(p^4) = a^(p^2)); fp12_back_cyc decompresses every element of the cyclotomic subgroup (regular case, g2 = 0, identity) and "
            "decompression is unique; the fp12 "
            "model exactly as the driver stacks it over Z/pZ on Nat is carried to ring operations by evaluation at roots of the defining "
            "polynomials; square-and-multiply = power. Nine defects found by this check were repaired in /repo (fixed: lines of "
            "known_findings.json; the formula of fp12_back_cyc before the repair is kept as fp12BackCycOld with its counter-theorem). Class C (compared with the specification "
            "only): digit-level lazy reduction, Frobenius through the constant tables, NAF / sparse / simultaneous cyclotomic "
            "exponentiations (the signed-digit loop and Montgomery's simultaneous inversion are proved as loops), square roots, pck/upk, "
            "serialisation, the compressed forms above degree 12. Tie: ~6300 lines per quick run (every function variant by name, all alias patterns, zero / one / subfield / sparse / maximal / cyclotomic / order-r "
            "/ g2 = 0 operands, all Frobenius powers, exponent classes); thorough: ~136000 lines incl. FP_PRIME=381 and the curve families of embedding degree 16/18/24/48/54 (FP_PRIME = 330, 354, 315, "
            "575, 569) with their full towers.",
            "Trusted: Lean kernel; tools/translate_fpx.py (accepted fragment listed there; anything else is a translation failure); the fp2 / "
            "fp3 functions, fp12_mul_dxs and the loops are hand-transcribed and tied by whole-function correspondence only; a "
            "value-preserving rewrite of a translated C function breaks its `rfl` tie and is reported as a broken obligation; tower constants "
            "(qnr, cnr, xi, twist type, order) read from the running library and their defining properties checked by the driver; the "
            "specification's Frobenius uses X^p per level (computed from the definition) plus the proved homomorphism property, cross-checked "
            "against a^p on sampled lines; towers above degree 12 are exercised only for their prime-independent ring arithmetic on the "
            "256-bit primes (their Frobenius constants belong to the other field sizes, covered in the thorough tier); known findings "
            "C10-F5 (exponents longer than the field size refused with a reported error).",
            "DESIGN.md §5 (C10, to be added by the integrator); lean/RelicVerif/Props/C10.lean header"),
    "C16": ("Lean 4 proofs (GF(2)[z] on natural numbers mapped injectively into Mathlib's (ZMod 2)[X]; the comb, Karatsuba, table-squaring, "
            "fast-reduction, shift-and-add, square-root, trace, half-trace, iterated-squaring and inversion-chain algorithms = polynomial "
            "arithmetic modulo f for all inputs; Lopez-Dahab and affine point formulas = the affine group law over any field of characteristic "
            "two; every multiplication loop = k•P over an abstract group / a Z[tau]-module; tau-adic recoding theorems) + correspondence on "
            "both 283-bit polynomials and NIST B-283 / K-283, including an AddressSanitizer stream",
            "Proved in Lean, for all inputs: xor / shift-and-xor product / long division on natural numbers are sum / product / remainder of "
            "polynomials over GF(2) (unique remainder, commutative-ring laws, additivity of squaring); fb_muln_low (Lopez-Dahab 4-bit comb), "
            "one-level Karatsuba, fb_sqrl_low (spreading table), fb_rdcn_low (digit-wise folding modulo a trinomial / pentanomial, any digit "
            "size) and fb_mul_basic equal that arithmetic; under the Frobenius check z^(2^m) = z mod f, evaluated by the driver on the "
            "polynomial of the running library, the specification's sqrt / trace / half-trace satisfy r^2 = a, Tr(a^2) = Tr(a), "
            "H^2 + H = a + Tr(a), the even/odd-splitting square root and the coefficient-selecting trace agree with them, and for irreducible f "
            "a*inv(a) = 1 with unique inverses; fb_inv_basic / fb_inv_itoht compute a^(2^m-2) in any commutative monoid; the iterated-squaring "
            "table evaluates the additive map. Curves: the statement-by-statement models of eb_add_basic / eb_add_projc (mixed and general) / "
            "eb_dbl_* / eb_neg_* / eb_norm / eb_frb compute the chord-and-tangent law of y^2 + xy = x^3 + a x^2 + b with the exceptional cases "
            "dispatched as the group law demands (P = Q -> doubling, P = -Q and doubling the point of order two -> identity); eb_hlv inverts "
            "doubling in both branches of its trace test; bn_rec_tnaf_mod + bn_rec_tnaf give digits denoting k modulo tau^m - 1 in any commutative "
            "ring with tau^2 = mu tau - 2, and the loops of eb_mul_basic / lwnaf / rwnaf (ordinary and Koblitz, with the tables of eb_tab) / "
            "lodah ladder / halve (cofactor-2 branch) / fix_basic / fix_combs / fix_lwnaf / sim_trick / sim_inter / sim_joint return k•P "
            "(k•P + m•Q) — for EVERY integer k where the code reduces the scalar (lodah, fix_basic, fix_combs modulo r; the Koblitz lwnaf / rwnaf / "
            "fix_lwnaf modulo h*r). The driver evaluates the specification through fast evaluators proved equal to it. Fourteen defects found by "
            "this check were repaired in /repo (fix commits of C16-1..C16-13, C16-15: fb_inv(1), fb_rdc_basic(0), fb2_slv, fb_cmp_dig, the point of "
            "order two in the affine routines and in compression, eb_hlv(O), eb_norm / eb_norm_sim, eb_mul_lodah(O), projective operands, scalars "
            "longer than r, the tau-NAF stack overflow); the models follow the repaired code. Known findings left: C16-14 (w-NAF routines on ordinary "
            "curves, sim_trick / sim_joint refuse scalars longer than m bits - reported error), C16-15 (bn_rec_tnaf called directly overruns a short "
            "buffer; a bound cannot pass the pinned test_bn), C16-16 (fb_exp_slide refuses exponents longer than m + 1 bits). "
            "Tie: ~3400 lines per run (every fb_* / fb2_* / eb_* variant by name, every element / point / scalar class of the quantifier, alias "
            "patterns, affine / projective / lambda representations), model column = the Lean model of the C algorithm, spec column = the "
            "GF(2)[z] / affine-law specification.",
            "Trusted: Lean kernel; hand-written models tied by the correspondence run; irreducibility of f is a hypothesis of the inverse "
            "theorems (the driver's check z^(2^m) = z implies it for prime m, not proved in Lean); field polynomial, curve coefficients, "
            "generator, order, cofactor read from the running library and sanity-checked by the driver (deg f, reduction exponents, srz^2 = z, "
            "generator on curve, r*G = O, Hasse interval, Koblitz flag); fb_inv_sim is class A (Montgomery's trick as coded, every list length, zero reported: fb_inv_sim_correct); fb_inv_binar / almos / "
            "exgcd are value-level models of the C loops executed on every line with PARTIAL correctness proved (zero reported; whatever the "
            "model returns is reduced, satisfies a*c = 1 and equals the specification's inverse; termination within the fuel is not proved: "
            "fb_inv_binar_partial / fb_inv_almos_partial / fb_inv_exgcd_partial / fb_inv_euclid_value); fb_inv_bruch / fb_inv_ctaia are executed "
            "models without a theorem; class C (compared on the presented lines only): fb_inv_lower, fb_sqrn_low, fb_rdc_basic, fb_mul_dig, fb_slv_quick's table walk, fb_exp_*, fb2_*, eb_mul_halve on "
            "the cofactor-4 curve, eb_mul_fix_combd, the Koblitz eb_mul_sim_*, eb_mul_dig, the x-only ladder formulas of eb_mul_lodah, "
            "eb_pck / eb_upk / eb_read_bin / eb_write_bin; points presented to lodah / halve lie in the subgroup generated by G.",
            "tools/props/c16.py, findings/C16-*.md"),
    "C18": ("Translator (selectable field and curve tables extracted from relic_fp_param.c / relic_ep_param.c on every run) + Lean 4 kernel "
            "evaluation of the consistency predicates on the extracted literals + Pratt certificates checked in Lean (soundness proved with "
            "Mathlib's Lucas test) + correspondence of the table with the values the running library reports",
            "Proved in Lean for every field and curve the baseline configuration can select (4 fields, 6 curves: NIST/Brainpool/SM2 P-256, "
            "secp256k1, BN-P256, SM9-P256): the sparse / family-polynomial form evaluates to the modulus; the modulus and the group order are "
            "prime (Pratt certificate accepted by a checker proved sound); the generator has canonical coordinates and satisfies the curve "
            "equation; r*G = O (Jacobian evaluation in the kernel, compared with the affine evaluation on every run); the curve is "
            "non-singular; h*r lies in the Hasse interval and is the only multiple of r in it; for the BN sets p = p(x), r = r(x), cofactor 1 "
            "and embedding degree 12. Tie: every identifier 0..119 is offered to ep_param_set; each accepted one must be in the extracted "
            "table and report the same p, a, b, G, r, h and flags, plus an advertised level consistent with the order size; the embedding "
            "degree is checked two ways (multiplicative order of p modulo r against the declared family), the twist table of "
            "ep2_curve_set_twist is extracted too (coefficients, generator on the twist, h*r one of the six twist orders over Fp2), and the "
            "GLV constants are checked per selection by the driver (k*G = k0*G + k1*psi(G) with short k0, k1; derived beta). The same "
            "theorems hold for the tables extracted with the relic_conf.h of the 255-bit and 381-bit configurations (extra_* theorems: "
            "2^255-19 with Curve25519 in Weierstrass form, the Tweedledum pair, BLS12-381 with p = (x-1)^2 (x^4-x^2+1)/3 + x, r = x^4-x^2+1, "
            "cofactor (x-1)^2/3, embedding degree 12 and its twist), with their own identifier sweeps against libraries built in those "
            "configurations; the twisted Edwards table of ed_param_set (Ed25519) is extracted and certified the same way (edwards_* theorems) and "
            "compared with the ed_param lines of the C17 streams; and for every integer x the BN and BLS12 family polynomials satisfy r(x) | Phi_12(p(x)) (resp. 81 Phi_12). "
            "PARTIAL: binary curves are checked per line in C16, Frobenius constants through C10/C11, the parameter sets of the further "
            "pairing field sizes (thorough sweeps of C10) are not certified.",
            "Trusted: Lean kernel (decide +kernel on literals); tools/translate_params.py (regex extraction after gcc -E; unknown "
            "constructs are translation failures); untrusted certificate search (sympy) — only the checked certificate counts; Hasse's "
            "theorem is a hypothesis of the reading 'h*r is the curve order'.",
            "DESIGN.md §6 (C18)"),
    "C20": ("Translator (C text of the masked copy/swap/compare primitives -> a branch-free language, regenerated on every run) + Lean 4 "
            "non-interference theorem for that language + instrumented ladder / regular-recoding models proved value-equal to the C03 models "
            "with logs depending on lengths only + operation logs recorded from the real library by linker interposition",
            "Proved in Lean: (1) every program of the branch-free language (no conditional statement; loop bounds and array indices are "
            "public expressions) has a trace of loop counts and array indices that depends only on its public inputs; dv_copy_sec, "
            "dv_swap_sec, dv_cmp_sec, util_cmp_sec are re-translated from the C text on every run and lie in the language (an added branch, "
            "early exit, call or data-dependent index is a translation failure); (2) the instrumented Montgomery ladder and regular-recoding "
            "loops compute exactly the values of the C03 models (which are proved to return k*P) and emit an operation log that is a closed "
            "form of the public lengths. Tie: the generated programs are executed on the same data as the real primitives (both bit values, "
            "lengths 0..40); the logs of group-level calls made by ep_mul_monty, ep_mul_lwreg (plain and GLV), ep2_mul_monty, eb_mul_lodah, "
            "bn_mxp_monty, fp_exp_monty, fb_exp_monty are recorded from the library for scalars of every shape named in the property on every "
            "curve and compared with the model log and with the value k*P. PARTIAL: GLV / exponentiation / Lopez-Dahab logs are closed forms "
            "tied by comparison only; ep2_mul_lwreg, g1/g2_mul_sec, gt_exp_sec and the Edwards ladder / regular recoding (255-bit "
            "configuration) have no log model and are decided in the relational form (two scalars of the same public length must produce "
            "identical logs); nothing is claimed below the group level or about the compiler's code generation.",
            "Trusted: Lean kernel; tools/translate_ct.py; the C compiler (ternary of constants -> setcc/cmov); linker interposition sees only "
            "calls that cross object files; k = 0, P = O and the sign of an exponent are treated as public.",
            "DESIGN.md §6 (C20)"),
    "C08": ("Lean 4 proofs of the length bookkeeping (fits-or-error) of the modelled functions + every correspondence stream of C01/C02/C03/"
            "C07/C09/C14/C15 and dedicated buffer-boundary sweeps executed against AddressSanitizer+UBSan builds of the working tree, with "
            "guard words and cross-build output comparison",
            "Proved in Lean (45 theorems incl. Lemmas/Bounds.lean): for every operand, a successful bn add/sub/mul/sqr/shift/dbl/mul_dig "
            "result has at most max(capacity,1) digits, every recoding (win/slw/naf/reg/jsf) produces at most the caller's buffer length or "
            "reports an error, byte/string encodings write exactly/at most the requested length, decoding refuses inputs beyond the capacity, "
            "the KDF fills exactly the requested bytes. These are theorems about the models, tied to the code by the C01/C07/C09/C14 "
            "correspondence. OBSERVED, not proved: absence of out-of-bounds access, undefined shifts, use of freed/uninitialised storage in "
            "the C code, decided per presented line (~31000 lines per quick run on the 64-bit and 8-bit-digit builds) by ASan+UBSan builds "
            "rebuilt from the working tree, guard words around every caller buffer and comparison of the sanitizer build's output with the "
            "optimised build's. 'An unsupported parameter is reported': selection by identifier is modelled against the parameter table the "
            "translator extracts on every run (Model/ParamSel.lean, 3 theorems) and fp_param_set/ep_param_set are called with every "
            "identifier value. Allocation failure: in an ALLOC=DYNAMIC sanitizer build with link-time wrapped allocators every allocation "
            "of ~85 library calls (bn, ep, md, rand, cp_rsa/ecdsa/ecdh/ecss/ecies) is made to fail once: each failure must be reported or "
            "harmless, no sanitizer report, and the call must work again afterwards (observed, not proved); the same defect class in the "
            "other modules is known finding C08-AF1. Protocol-level buffers (cp_rsa) belong to the C05/C06 streams.",
            "Trusted: Lean kernel; sanitizer runtime and compiler; harness guard words for buffers that live inside static arrays; the "
            "quantifier 'every argument combination' is covered by structured streams (all operand lengths up to capacity+1, buffer lengths "
            "needed-3..needed+2), not by a theorem about the C code.",
            "DESIGN.md §S.2 (C08)"),
    "C11": ("Translator (the add/dbl templates instantiated for (ep2, fp2) regenerated on every run and checked by rfl to be the same terms as "
            "the (ep, fp) instantiation, so the formula theorems over an arbitrary field apply) + abstract-group multiplication theorems of C03 "
            "+ correspondence on both pairing-friendly curves of the configuration against the affine law over Fp2 built from the generic tower spec",
            "Proved in Lean (44 theorems audited over Props/C11 and the lemma modules Lemmas/Ep2Formulas, Lemmas/Ep2Mul): the generated ep2 add/dbl code (affine, "
            "homogeneous projective, Jacobian, mixed) is term-identical to the ep code, whose formulas are proved to be the chord-and-tangent law "
            "over any field of characteristic != 2 (exceptional cases stated). CLASS A (a Lean model mirroring the C loop, proved = k*Q resp. "
            "k*P + m*Q resp. sum k_i*P_i for every integer scalar in any commutative group killed by r, and executed by the driver on every "
            "e2m / e2s / e2l / e2d line, model column = the model's prediction incl. predicted errors): ep2_mul_basic / big / dig, ep2_mul_slide "
            "(|k| not reduced modulo r, capacity RLC_FP_BITS+1), ep2_mul_monty, ep2_mul_gen / fix / fix_combs (single comb incl. table "
            "construction), fix_combd (two tables), fix_basic, fix_lwnaf, ep2_mul_sim_trick, sim_joint, sim_dig, and the Frobenius (GLS) paths: "
            "bn_rec_frb BN branch in integer form (rec_frb_bn_congr: sub-scalars recombine to k mod r for any rounding when the lattice "
            "columns annihilate (1, l, l^2, l^3)), ep2_mul_gls_imp = ep2_mul_lwnaf = ep2_mul (ep2_mul_gls_correct: four tables, psi-images "
            "negated on sign change, four interleaved width-w NAFs), ep2_mul_sim_endom = sim_inter / sim / sim_gen / the two ep2_mul calls of "
            "sim_basic (ep2_mul_sim_endom_correct: eight binary NAFs), ep2_mul_sim_lot for n <= 10 (executed; theorem = "
            "C03.mul_sim_lot_plain_correct over the 4n points + gls_sum_zsmul). Hypothesis of the GLS theorems: psi(Q) = [p mod r]Q, checked by "
            "the driver on the generator together with the four lattice columns (endo_is_scalar_on_cyclic carries it to every multiple). "
            "An additive endomorphism is determined on the cyclic group by its value on the generator; h*P and its multiples lie in the r-torsion "
            "when h*r kills the twist. Tie: ~890 lines per quick run on the two BN curves of the configuration (thorough: also BLS12-381): "
            "generated ep2 formulas executed over the tower arithmetic vs implementation vs affine law; every ep2_mul_* / fix / sim / lot variant "
            "by name x every scalar class, Frobenius-structured scalars for one-, two- and many-point routines, identity base for every table "
            "form, sliding window at its buffer capacity; ep2_frb(Q,i) = [p^i]Q on subgroup points; cofactor map on twist points outside the "
            "subgroup; twist parameters reported by the library checked (qnr non-residue, G on twist, r*G = O, Hasse, psi(G) = [p mod r]G, "
            "lattice columns); op e2frb presents the bn_rec_frb decomposition itself (model recFrbBN; a different valid decomposition is "
            "invisible in k*Q). Modelled and executed but NOT proved: the bucket branch of ep2_mul_sim_lot (n > 10, simLotBucket4). CLASS C "
            "(compared with the specification per line only): ep2_mul_lwreg (ep2_mul_reg_gls: bn_rec_sac recoding not modelled), "
            "bn_rec_frb for non-BN families (digits in base |x|: modelled and "
            "executed in the thorough tier, not proved), ep2_mul_cof, additivity of ep2_frb. ep3/ep4/ep8 (other field sizes) not covered.",
            "Trusted: Lean kernel; tools/translate.py; Spec/Tower.lean + Spec/CurveX.lean as the definition of Fp2 and of the group law; the "
            "harness chooses the twist type (D/M) under which psi(G) = [p]G because the library exposes no per-curve selector; known findings "
            "F31 (ep2_mul_slide refuses scalars longer than the field), F32 (identity inside a simultaneous table).",
            "DESIGN.md §S.2 (C11)"),
    "C12": ("Lean 4 theorems that the specification predicate is the property's predicate (a^r = 1 implies membership in the cyclotomic "
            "subgroup of a cyclic group; exponentiation depends on k mod r and is repeated operation) + correspondence of g1/g2/gt validity and "
            "exponentiation against the definitions evaluated in Lean (Spec/Curve, Spec/CurveX over Fp2, generic tower spec for Fp12)",
            "CLASS A (Model/PcValid.lean, Lemmas/PcValid.lean, Driver/C12V.lean; 14 further theorems): the decision logic of g1_is_valid, "
            "g2_is_valid and gt_is_valid as coded for embedding degree 12 (identity/zero exits, cofactor-1 shortcut, EP_B12 relations psi^2(P) = "
            "[-z^2]P / psi(Q) = [z]Q / a^p = a^z with the cyclotomic test, B12_383 shortcut, EP_BN relation with three Frobenius images, default order "
            "check, fp12_test_cyc) is executed on every pcv line with the library's reported beta / ep2_frb constants / sparse parameter and compared "
            "(model column). Proved for all inputs over an abstract commutative group with an endomorphism: cofactor-1 test = 'non-zero and killed by "
            "r'; B12 G1 test accepts exactly the non-zero elements killed by r (hyp.: psi^2+psi+1 = 0, r = z^4-z^2+1, psi = lam on the r-torsion, r | "
            "lam^2+z^2); B12 G2 test likewise (hyp.: psi^2 - t psi + p = 0, gcd(z^2-tz+p, #E') | r, psi = lam on the r-torsion, r | lam - z); BN G2: "
            "reduction to the relation and completeness (members accepted); B12 GT test (cyclotomic test and a^p = a^z) accepts exactly the non-unit "
            "elements killed by r (hyp.: r = z^4-z^2+1, Frobenius = lam on the r-torsion, r | lam - z) — soundness of the BN G2 relation and the BN GT relation "
            "are NOT proved (specification column only). g1_mul / g2_mul (one-digit path vs reduction mod n), _gen, _any, _sec (G1), _dig, _fix, "
            "_sim, _sim_gen: the routine the macro expands to is executed through the C03 / C11 models with the scalar the pc layer hands on "
            "(mulRoute / genRoute; theorems: the handed-on scalar acts like k on elements killed by n). Still class C: g2_mul_sec (ep2_mul_lwreg has "
            "no model), every gt_exp variant (gt_exp_gls_naf / gt_exp_reg_gls / gt_exp_dig / gt_exp_sim are not modelled). "
            "Proved in Lean (4 theorems): in a finite cyclic group an element killed by r lies in every subgroup whose order is a multiple of r; "
            "a^k depends on k mod r for a^r = 1 (multiplicative and additive forms) and satisfies the recursion of repeated operation. Tie: ~280 "
            "lines per quick run on BN-P256 and SM9-P256: g1_is_valid / g2_is_valid / gt_is_valid on subgroup elements, twist points outside the "
            "subgroup (cofactor > 1), off-curve coordinates, identity, zero, field elements outside the cyclotomic subgroup, cyclotomic elements of "
            "order not dividing r — judged by definition with the specification's own arithmetic; g1/g2 mul, mul_sec, mul_any, mul_gen, mul_dig, "
            "mul_fix, mul_sim, mul_sim_gen and gt_exp, exp_sec, exp_dig, exp_gen, exp_sim vs k*P / a^k for every scalar class.",
            "Trusted: Lean kernel; the tower spec as the definition of Fp12; constants read from the running library and checked; gt_exp* are "
            "judged on target-group elements only; BLS12-381 runs in the p381 configuration; other embedding degrees not covered (PARTIAL); known finding F33.",
            "DESIGN.md §S.2 (C12)"),
    "C04": ("Lean 4 theorems about the final exponentiation AS CODED (chains regenerated from the C text on every run) and about the Miller-loop "
            "structure as coded, executed by the driver on every presented line; theorems for the algebra around the pairing; per-line decision "
            "of bilinearity, non-degeneracy, order and identity behaviour of the library's pairing values with all group arithmetic done by the "
            "Lean specification",
            "PARTIAL by nature: bilinearity of the Miller-loop pairings is NOT proved (divisor theory is not available in Mathlib); it is decided "
            "on every presented line: the library prints e(P,Q) and e(aP,bQ) for the variants pc_map, Tate, Weil, optimal ate on BN-P256, "
            "SM9-P256 and BLS12-381, the driver verifies with its own arithmetic that the operands are the stated multiples, e(aP,bQ) = e(P,Q)^(ab) in Fp12, "
            "e(P,Q)^r = 1, e(P,Q) != 1 for non-identity operands, identity in a slot gives 1, and multi-pairings (length 0..5, identities at "
            "arbitrary positions, equal/opposite operands) equal the product of the individual pairings. CLASS A: the final exponentiation — "
            "pp_exp_bn / pp_exp_sm9 / pp_exp_b12 / pp_exp_k12 / fp12_conv_cyc are translated from the C text on every run (tools/translate_pp.py), "
            "proved = f^(c (p^12-1)/r) with c = 2x(6x^2+3x+1) / 1 / 3 for every integer x, gcd(c, r) = 1 for every x, easy part in the cyclotomic "
            "subgroup of any field with p^12 elements; fp12_exp_cyc_sps hand model proved = exponentiation by the denoted integer; all executed by "
            "the driver on arbitrary field elements and compared with the plain power. CLASS A, Miller loops: pp_mil_k12 / pp_mil_lit_k12 / "
            "pp_fin_k12_oatep / pp_map_(sim_)oatep,tatep,weilp_k12 hand models proved to compute the canonical Miller recurrence for the integer "
            "the digits denote (running point [s]Q, multi-loop = product of single loops) over an abstract Miller algebra, executed over E(Fp12) "
            "with affine lines and compared with the library's pairing values after the final exponentiation. CLASS A, line functions: "
            "pp_dbl/add_k12_projc_basic/_lazyr, pp_dbl/add_lit_k12 (general-b branch) translated from the C text on every run "
            "(tools/translate_ppline.py), proved: sparse element = (factor in the field of the twist) x affine tangent/chord coefficients, point "
            "update = curve law; executed by the driver (exact equality with the library incl. slot placement). CLASS C: the b = 2 branch of the "
            "doubling, EP_ADD = BASIC line functions, compressed squarings (abstracted). Proved in Lean: 6 theorems of Props/C04.lean "
            "(x^((q-1)/r) has order dividing r in a finite field; final exponentiation multiplicative, multi-pairing = product; bilinearity / "
            "identity slots / non-degeneracy extend from the generators) + 27 of Props/C04B.lean + 11 generated obligations.",
            "Trusted: Lean kernel; tower spec as the definition of Fp12; tools/translate_pp.py, tools/translate_ppline.py; lazy reduction and "
            "compressed squarings abstracted to field operations on values; BLS12-381 runs in the p381 configuration; the k = 8, 16, 18, 24 "
            "families are not covered.",
            "DESIGN.md §S.2 (C04)"),
}

PENDING_REASON = {
}

DEFAULT_PENDING = "check under construction in this round: not yet claimed (no theorem + live tie committed yet); see DESIGN.md §9"


def main():
    props = [json.loads(l)["id"] for l in open(os.path.join(VERIF, "properties.jsonl"))]
    checks = []
    for pid in props:
        if pid not in CLAIMED:
            continue
        tech, text, note, ref = CLAIMED[pid]
        checks.append({
            "property_id": pid,
            "quick_cmd": "python3 tools/check.py %s --tier quick" % pid,
            "thorough_cmd": "python3 tools/check.py %s --tier thorough" % pid,
            "evidence_file": "evidence/%s.json" % pid,
            "replay_cmd_template": "python3 tools/check.py %s --replay {path}" % pid,
            "engine": "lean4+correspondence",
            "level_claimed": {"category": "proof", "text": text, "design_ref": ref},
            "level_note": note,
            "technique": tech,
        })
    na = [{"property_id": p, "reason": PENDING_REASON.get(p, DEFAULT_PENDING)} for p in props if p not in CLAIMED]
    m = {
        "version": 1,
        "setup_cmd": "python3 tools/setup.py",
        "notes": "Machine-checked proof in Lean 4 of hand-written/generated models, tied to /repo by a translator (generated "
                 "Lean regenerated from the C sources on every run) and by a correspondence run (C oracle vs compiled Lean driver). "
                 "See DESIGN.md.",
        "hooks": {
            "guard": "RELIC_VERIF",
            "enable": "checks build /repo with CFLAGS=-DRELIC_VERIF (tools/relicbuild.py); no source hooks are needed so far: "
                      "instrumentation is harness-side (the oracle #includes library sources where it needs statics)",
            "baseline_off_cmd": "cmake -G Ninja -S /repo -B /var/tmp/relic-baseline -DDOCUM=off >/dev/null && cmake --build /var/tmp/relic-baseline -j16 >/dev/null && ctest --test-dir /var/tmp/relic-baseline -j8 --timeout 900",
            "source_commits": [],
            "add_only": True,
        },
        "engines": [
            {"name": "lean4+correspondence", "path": "tools/check.py",
             "serves_properties": sorted(CLAIMED.keys()),
             "kind_free_text": "Lean 4 theorems about an executable model (lean/RelicVerif) + line-protocol differential run of the "
                               "model (lean/Driver, compiled) against the real library (harness/oracle.c) built from /repo's working tree"},
        ],
        "checks": checks,
        "not_applicable": na,
    }
    with open(os.path.join(VERIF, "MANIFEST.json"), "w") as fh:
        json.dump(m, fh, indent=1)
        fh.write("\n")
    try:
        import jsonschema
        jsonschema.validate(m, json.load(open("/root/.vp/MANIFEST.schema.json")))
        print("MANIFEST.json valid: %d claimed, %d not claimed" % (len(checks), len(na)))
    except ImportError:
        print("jsonschema not available; wrote MANIFEST.json")


if __name__ == "__main__":
    main()
