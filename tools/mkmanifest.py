#!/usr/bin/env python3
"""Regenerates MANIFEST.json from the table below (kept here so the manifest is always schema-valid)."""
import json, os, sys

VERIF = os.path.dirname(os.path.dirname(os.path.abspath(__file__)))

# property -> (technique, level text, level note, design ref)
CLAIMED = {
    "C01": ("Lean 4 proofs (carry chains, Comba, Karatsuba, Knuth D with add-back, sign fix-ups = exact Int arithmetic in normal form, "
            "any digit base) + correspondence run at w=64 and w=8",
            "Proved in Lean for the model, for every operand value, sign, length and every digit base 2^w: add/sub (+single-digit), "
            "mul (schoolbook, Comba, one-level Karatsuba), squaring (Comba, Karatsuba), floor division with remainder through Knuth D "
            "(quotient estimate, correction loop, add-back, normalisation), shifts, doubling, compare, bit access return the exact integer "
            "in normal form or a precision error only when the operand lengths leave no room. Two clauses are PARTIAL and carried as known "
            "findings with machine-checked counterexamples: bn_rsh/bn_hlv and bn_div_dig truncate for negative inexact operands. "
            "Tie: ~8000 structured operation lines per run (all alias patterns, all sign pairs, Knuth-D corner families, lengths up to the "
            "capacity) on the 64-bit and 8-bit-digit builds, implementation vs model vs Int.",
            "Trusted: Lean kernel (propext, Classical.choice, Quot.sound); hand-written model tied by correspondence only; __uint128_t digit "
            "products and arch_lzcnt modelled; aliasing and input-unchanged clauses observed on the implementation only; bn_sqr_basic "
            "(bn_sqra_low) compared but not modelled separately.",
            "DESIGN.md §5 C01"),
    "C02": ("Lean 4 proofs (canonical modular add/sub/neg/dbl/hlv; product-scanning Montgomery reduction exact and canonical for every "
            "T < pR; Montgomery mul/sqr) + correspondence on six 256-bit primes against Z/pZ",
            "Proved in Lean for the digit-level model, for every odd modulus with n digits in any base 2^w and u*p = -1 mod B: fp_addm/subm/"
            "negm/dblm/hlvm return the canonical residue (< p); fp_rdcn_low returns c < p with c*R = T mod p for every 2n-digit T < pR, "
            "including the carry-out and final-subtraction branches; fp_mulm/fp_sqrm compose them; equality of canonical elements is equality "
            "of residues. Inversion, symbol, exponentiation and root algorithms (all variants) are class C: compared with the Z/pZ "
            "specification (a*c = 1, r*r = a, Euler) on every run, not proved. Tie: ~4200 operation lines per run on NIST/BSI/SECG/SM2/BN/SM9 "
            "256-bit primes: structured Montgomery digits, all variants by name, aliasing, raw digit-level calls, decoder bounds.",
            "Trusted: Lean kernel; hand-written model tied by correspondence; the field context (p, u, R^2, qnr) is read from the running library "
            "and checked against its defining equations; FP_RDC = MONTY only; known finding F16 (fp_exp_slide refuses exponents longer than the "
            "field size).",
            "DESIGN.md §5 C02"),
    "C03": ("Lean 4 proofs (every multiplication loop = k•P over an abstract commutative group, combined with the recoding theorems) + translator "
            "(add/dbl formula templates regenerated into Lean on every run and executed by the driver) + correspondence on six curves",
            "Proved in Lean: the loops mirroring ep_mul_basic / slide / monty / lwnaf / lwreg, ep_mul_fix_basic, ep_mul_sim_trick / inter / joint "
            "return k•P (resp. k•P + m•Q) for every integer k in any additive commutative group killed by n, using the proved recoding "
            "theorems of C09. Tie T: the affine / projective / Jacobian add and dbl templates and their public wrappers are translated from "
            "the C text into Lean on every run; the driver executes the generated definitions on the presented representation and they are "
            "compared with the implementation and with the affine group law. Tie D: ~2300 lines per run on NIST/BSI/SM2 P-256, secp256k1, "
            "BN-P256, SM9-P256: every add/dbl/mul/mul_fix/mul_sim variant by name, every scalar class for every variant, normalised / projective "
            "operands with random z, all alias patterns. The theorems 'generated formula = chord-and-tangent law' are in progress (not yet "
            "part of the obligations); comb methods and ep_mul_sim_lot are class C.",
            "Trusted: Lean kernel; translator tools/translate.py (accepted fragment listed there; anything else is a translation failure); "
            "abstract-group models tied to the C loops by whole-function correspondence; curve parameters read from the running library; known "
            "findings F22 (identity as fixed base), F24 (sim table containing the identity).",
            "DESIGN.md §5 C03"),
    "C05": ("Lean 4 proofs (completeness of ECDSA / EC-Schnorr / SoK / vBNN-IBS over an abstract group of prime order, (r, n-s) malleability, "
            "RSA round trip for every residue + CRT recombination, EMSA-PSS verify = re-encode, RSASSA-PSS end to end, pairing equation = "
            "G1 equation for every non-degenerate bilinear map, Jacobian evaluator = affine definition) + correspondence of every real "
            "verifier / signer / key generator with independent Lean implementations of the standards on honest and systematically "
            "altered triples (six curves, two pairing curves, three RSA paddings)",
            "Proved in Lean, for all keys, nonces, messages: what the ECDSA / EC-Schnorr / proof-of-knowledge / vBNN-IBS signers derive is "
            "accepted by the specification verifiers (the definitions the driver executes, over any record of group operations realising a "
            "commutative group of prime order); (r, s) accepted implies (r, n-s) accepted; (m^d)^e = (m^e)^d = m mod pq for EVERY m when "
            "ed = 1 mod lcm(p-1, q-1) (or phi), on the executable powMod; Garner's CRT recombination = m^d mod pq; EMSA-PSS-VERIFY (RFC 8017 "
            "9.1.2, sLen = 0) accepts exactly the encoding of 9.1.1, and the RSASSA-PSS signature of every message verifies for every "
            "modulus length (incl. OS2IP/I2OSP and the emBits bound); for every bilinear map non-degenerate at g2 the BLS / BB / ZSS / CL-A / "
            "CL-C / PS pairing equations are equivalent to the G1 equations the specification decides. Class C: the verdicts of the C "
            "verifiers — compared on ~13000 lines per run: every scheme on every selectable curve, keys from key generation, all message "
            "length classes, both modes, every alteration class of the quantifier, malformed keys and components. PARTIAL: MPSS/MPSB, "
            "CMLHS, MKLHS are not covered; thirteen findings (C05-1 … C05-13) are carried as known findings with repro lines and patches: "
            "identity public keys accepted (ECDSA, EC-Schnorr, BB, ZSS, PS), RSA sig+N / wrong-length / PSS top bit / 8k+1-bit moduli / "
            "pre-hashed length, ETRS forgery without a key, missing scalar range checks, vBNN and BASIC-padding stack overflows, PoK/SoK "
            "verifiers returning RLC_ERR = 1 on internal errors.",
            "Trusted: Lean kernel; specification = this check's transcription of FIPS 186-4 / SEC 1 / RFC 8017 and of the schemes' equations; "
            "pairing non-degeneracy / bilinearity (C04) and hash-to-curve (C13) are dependencies, not checked here; G2 facts through an "
            "unproved affine Fp2 helper on the twist parameters of the running library; nonces from the library DRBG (signatures checked, "
            "not predicted); no model of the C control flow.",
            "tools/ADDING_A_PROPERTY.md; findings/C05-*.md"),
    "C07": ("Lean 4 proofs (integer binary/text conversions round-trip, are canonical, decode only valid values and re-encode to the "
            "input) + correspondence of integer, field and point decoders/encoders incl. a malformed stream",
            "Proved in Lean for the model: bn_write_bin/bn_read_bin/bn_size_bin and bn_write_str/bn_read_str/bn_size_str (every radix 2..64): "
            "decode∘encode = id, the encoding has exactly the requested length and denotes |a| (left-padded), an error exactly when the buffer "
            "is shorter than the minimal size, decoding any byte string yields a normal-form integer whose re-encoding in the same length "
            "reproduces the input, text output is positional notation with '-' for negatives and size_str = length + 1. Field and point "
            "decoders (fp_read_bin, ep_read_bin incl. compressed form, ep_write_bin, ep_size_bin) are compared with a Lean specification of "
            "the decision logic (lengths, tags, coordinates < p, curve equation, sign-bit convention) on valid and malformed streams for six "
            "curves; their theorems (Model/EpConv.lean) are in progress. fpN/ep2/eb/ed/gt encodings are not covered yet.",
            "Trusted: Lean kernel; hand-written models tied by correspondence; util_conv_char's alphabet is part of the model; malformed "
            "numerals are read up to the first bad character (model-vs-implementation only); the compressed-point sign bit is the low bit "
            "of the stored Montgomery form on non-pairing curves (the library's own convention, not SEC1).",
            "DESIGN.md §5 C07"),
    "C09": ("Lean 4 proofs (every scalar recoding represents exactly its input with the promised digit set, length and sparsity; fuel "
            "sufficiency) + correspondence of all number-theoretic functions against their mathematical definitions at w=64 and w=8",
            "Proved in Lean for the model: bn_rec_win / slw / naf (any width) / reg / jsf return digit strings whose value is exactly the "
            "input, with digits in the promised set, the promised length bounds and the w-NAF non-adjacency; the loops' fuel never runs out. "
            "Reductions (basic, Barrett, Montgomery, pseudo-Mersenne), exponentiations, inverse, gcd / extended gcd variants (gcd and Bezout "
            "identity checked on every output), lcm, Legendre/Jacobi, integer square root, polynomial evaluation/roots, primality tests and "
            "prime generation are class C: compared with the mathematical definition evaluated in Lean on ~5800 structured lines per run "
            "(negative and oversized operands, Lehmer-fallback pairs, Carmichael / strong-pseudoprime corpus), not proved.",
            "Trusted: Lean kernel; recoding models tied by correspondence; primality ground truth = deterministic Miller-Rabin below 2^80, "
            "supplied factors or C18-certified parameter primes above; 'rejects every composite' is corpus-only; bn_is_prime_basic is a "
            "trial-division filter (composites may pass by design); even moduli are refused by the Montgomery-based bn_mxp.",
            "DESIGN.md §5 C09"),
    "C14": ("Lean 4 proofs (streaming SHA-256 = FIPS 180-4 for every chunking; md_hmac/nist_kdf/md_xmd = RFC 2104 / MGF1-KDF2 / RFC 9380; "
            "PKCS#7 + CBC round trip and rejection logic) + correspondence against standard-derived Lean specs",
            "Proved in Lean for the model: the streaming SHA-256 implementation equals the one-shot FIPS 180-4 definition for every message "
            "length and every chunking; HMAC for all key lengths, the counter KDF/MGF for all output lengths, expand_message_xmd incl. its abort "
            "conditions equal their standards (hash abstract); PKCS#7 unpad∘pad = id, padEncrypt/padDecrypt = CBC∘PKCS#7 of the spec for every "
            "length incl. 0, decryption returns data only for well-formed padding, dec∘enc = id given the block-cipher inverse. Tie: SHA-224/256/"
            "384/512, BLAKE2s, HMAC, KDF, MGF, XMD and AES-CBC outputs of the library are compared with executable Lean definitions written "
            "from the standards on all lengths around every padding boundary, all key sizes, corrupted ciphertexts and short buffers.",
            "Trusted: Lean kernel; hand-written models tied by correspondence; compression functions, the table-driven AES rounds and BLAKE2s "
            "are compared with the spec but not proved (the block-cipher inverse is a hypothesis of the CBC theorem); SHA-224/384/512 streaming "
            "is compared one-shot only.",
            "DESIGN.md §5 C14"),
    "C15": ("Lean 4 refinement proof (byte-level DRBG model ⊑ SP 800-90A spec, induction over histories) + correspondence run",
            "Proved in Lean for the model: for every hash with 32-byte output, every non-empty seed and every history of generate/reseed "
            "calls shorter than 2^31-258 operations, the model's byte stream equals the SP 800-90A Hash_DRBG stream; over-limit requests and "
            "empty seeds are refused with the state unchanged. The model is tied to src/rand/relic_rand_hashd.c by running both on the same "
            "histories (boundary request sizes, reseeds, 40k-call histories) and diffing byte-for-byte.",
            "Trusted: Lean kernel (axioms propext, Classical.choice, Quot.sound); hand-written model tied by correspondence only; SHA-256 as "
            "executable FIPS 180-4 spec (validated against md_map_sh256 in the same run); ctx->counter is an int (history bound).",
            "DESIGN.md §5 C15"),
    "C19": ("Lean 4 simulation proof (macro machine of relic_err.h ⊑ structured try/catch/finally semantics, structural induction over "
            "programs) + generated C programs compiled with the real macros",
            "Proved in Lean for the model: for every program (any nesting depth and order of try / throw / rethrow / catch-with-variable / "
            "catch-any / finally / throws outside any block / err_get_code observations) the macro machine yields the same action trace, "
            "sticky code and handler chain as the structured semantics; the pre-repair macro is proved right only on programs without a "
            "protected block inside FINALLY, with two machine-checked counterexamples. Tie: ~1500 random program ASTs per run are printed "
            "with the real macros, compiled against the freshly built library and compared with the model. PARTIAL: per-context / per-thread "
            "independence and re-parameterisation are not yet covered by this check.",
            "Trusted: Lean kernel; hand-written machine model tied by correspondence; setjmp/longjmp and the compiler are modelled "
            "(a throw transfers control to the frame ctx->last points to); the AST-to-C printer in tools/props/c19.py.",
            "DESIGN.md §5 C19"),
    "C18": ("Translator (selectable field and curve tables extracted from relic_fp_param.c / relic_ep_param.c on every run) + Lean 4 kernel "
            "evaluation of the consistency predicates on the extracted literals + Pratt certificates checked in Lean (soundness proved with "
            "Mathlib's Lucas test) + correspondence of the table with the values the running library reports",
            "Proved in Lean for every field and curve the baseline configuration can select (4 fields, 6 curves: NIST/Brainpool/SM2 P-256, "
            "secp256k1, BN-P256, SM9-P256): the sparse / family-polynomial form evaluates to the modulus; the modulus and the group order are "
            "prime (Pratt certificate accepted by a checker proved sound); the generator has canonical coordinates and satisfies the curve "
            "equation; r*G = O (Jacobian evaluation in the kernel, compared with the affine evaluation on every run); the curve is "
            "non-singular; h*r lies in the Hasse interval and is the only multiple of r in it; for the BN sets p = p(x), r = r(x), cofactor 1 "
            "and embedding degree 12. Tie: every identifier 0..119 is offered to ep_param_set; each accepted one must be in the extracted "
            "table and report the same p, a, b, G, r, h and flags, plus an advertised level consistent with the order size. PARTIAL: the "
            "255/381-bit configurations, binary fields/curves, endomorphism/GLV constants, twist generators and Frobenius constants are not "
            "in the extracted table yet.",
            "Trusted: Lean kernel (decide +kernel on literals); tools/translate_params.py (regex extraction after gcc -E; unknown "
            "constructs are translation failures); untrusted certificate search (sympy) — only the checked certificate counts; Hasse's "
            "theorem is a hypothesis of the reading 'h*r is the curve order'.",
            "DESIGN.md §6 (C18)"),
}

PENDING_REASON = {
}

DEFAULT_PENDING = "check under construction in this round: not yet claimed (no theorem + live tie committed yet); see DESIGN.md §9"


def main():
    props = [json.loads(l)["id"] for l in open(os.path.join(VERIF, "properties.jsonl"))]
    checks = []
    for pid in props:
        if pid not in CLAIMED:
            continue
        tech, text, note, ref = CLAIMED[pid]
        checks.append({
            "property_id": pid,
            "quick_cmd": "python3 tools/check.py %s --tier quick" % pid,
            "thorough_cmd": "python3 tools/check.py %s --tier thorough" % pid,
            "evidence_file": "evidence/%s.json" % pid,
            "replay_cmd_template": "python3 tools/check.py %s --replay {path}" % pid,
            "engine": "lean4+correspondence",
            "level_claimed": {"category": "proof", "text": text, "design_ref": ref},
            "level_note": note,
            "technique": tech,
        })
    na = [{"property_id": p, "reason": PENDING_REASON.get(p, DEFAULT_PENDING)} for p in props if p not in CLAIMED]
    m = {
        "version": 1,
        "setup_cmd": "python3 tools/setup.py",
        "notes": "Machine-checked proof in Lean 4 of hand-written/generated models, tied to /repo by a translator (generated "
                 "Lean regenerated from the C sources on every run) and by a correspondence run (C oracle vs compiled Lean driver). "
                 "See DESIGN.md.",
        "hooks": {
            "guard": "RELIC_VERIF",
            "enable": "checks build /repo with CFLAGS=-DRELIC_VERIF (tools/relicbuild.py); no source hooks are needed so far: "
                      "instrumentation is harness-side (the oracle #includes library sources where it needs statics)",
            "baseline_off_cmd": "cmake -G Ninja -S /repo -B /var/tmp/relic-baseline -DDOCUM=off >/dev/null && cmake --build /var/tmp/relic-baseline -j16 >/dev/null && ctest --test-dir /var/tmp/relic-baseline -j8 --timeout 900",
            "source_commits": [],
            "add_only": True,
        },
        "engines": [
            {"name": "lean4+correspondence", "path": "tools/check.py",
             "serves_properties": sorted(CLAIMED.keys()),
             "kind_free_text": "Lean 4 theorems about an executable model (lean/RelicVerif) + line-protocol differential run of the "
                               "model (lean/Driver, compiled) against the real library (harness/oracle.c) built from /repo's working tree"},
        ],
        "checks": checks,
        "not_applicable": na,
    }
    with open(os.path.join(VERIF, "MANIFEST.json"), "w") as fh:
        json.dump(m, fh, indent=1)
        fh.write("\n")
    try:
        import jsonschema
        jsonschema.validate(m, json.load(open("/root/.vp/MANIFEST.schema.json")))
        print("MANIFEST.json valid: %d claimed, %d not claimed" % (len(checks), len(na)))
    except ImportError:
        print("jsonschema not available; wrote MANIFEST.json")


if __name__ == "__main__":
    main()
