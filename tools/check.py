#!/usr/bin/env python3
"""Single entry point:  python3 tools/check.py Cxx [--tier quick|thorough] [--replay FILE]

One run = rebuild relic from /repo's working tree, regenerate the generated part of the Lean model,
lake build the theorems of the property, audit axioms, run the correspondence (C oracle vs Lean driver),
decide, write evidence/Cxx.json.  Exit 0 = held on everything explored; exit 1 + VIOLATION line otherwise.
"""
import argparse, hashlib, importlib, json, os, random, re, subprocess, sys, time

TOOLS = os.path.dirname(os.path.abspath(__file__))
VERIF = os.path.dirname(TOOLS)
sys.path.insert(0, TOOLS)
import relicbuild as rb  # noqa: E402

LEAN = os.path.join(VERIF, "lean")
CACHE = os.path.join(VERIF, ".cache")
ALLOWED_AXIOMS = {"propext", "Classical.choice", "Quot.sound"}
FORBIDDEN = re.compile(r"\b(sorry|admit|native_decide|bv_decide|implemented_by)\b|^\s*axiom\s|\bunsafe\s|maxHeartbeats\s+0\b", re.M)


def log(*a):
    print(*a, file=sys.stderr, flush=True)


# ------------------------------------------------------------------------------------------------
# PRNG: SplitMix64, one state for every random choice of a run
class Rng:
    def __init__(self, seed):
        self.s = seed & 0xFFFFFFFFFFFFFFFF

    def u64(self):
        self.s = (self.s + 0x9E3779B97F4A7C15) & 0xFFFFFFFFFFFFFFFF
        z = self.s
        z = ((z ^ (z >> 30)) * 0xBF58476D1CE4E5B9) & 0xFFFFFFFFFFFFFFFF
        z = ((z ^ (z >> 27)) * 0x94D049BB133111EB) & 0xFFFFFFFFFFFFFFFF
        return z ^ (z >> 31)

    def below(self, n):
        return self.u64() % n if n > 0 else 0

    def choice(self, l):
        return l[self.below(len(l))]

    def bits(self, k):
        v = 0
        for _ in range((k + 63) // 64):
            v = (v << 64) | self.u64()
        return v & ((1 << k) - 1) if k > 0 else 0

    def chance(self, num, den):
        return self.below(den) < num

    def bytes(self, n):
        return bytes(self.below(256) for _ in range(n))


# ------------------------------------------------------------------------------------------------
def strip_comments(txt):
    txt = re.sub(r"/-.*?-/", "", txt, flags=re.S)
    txt = re.sub(r"--.*", "", txt)
    return txt


def lean_closure(mod, seen=None):
    """modules of this project imported (transitively) by `mod`"""
    seen = seen if seen is not None else set()
    if mod in seen:
        return seen
    path = os.path.join(LEAN, *mod.split(".")) + ".lean"
    if not os.path.exists(path):
        return seen
    seen.add(mod)
    for m in re.findall(r"^import\s+(\S+)", open(path).read(), flags=re.M):
        if m.startswith("RelicVerif") or m.startswith("Driver"):
            lean_closure(m, seen)
    return seen


def audit_sources(mods):
    hits = []
    for m in sorted(mods):
        path = os.path.join(LEAN, *m.split(".")) + ".lean"
        txt = strip_comments(open(path).read())
        for mt in FORBIDDEN.finditer(txt):
            hits.append("%s: %s" % (m, mt.group(0).strip()))
    return hits


def theorems_in(mod):
    path = os.path.join(LEAN, *mod.split(".")) + ".lean"
    txt = strip_comments(open(path).read())
    ns = []
    out = []
    for line in txt.splitlines():
        m = re.match(r"\s*namespace\s+(\S+)", line)
        if m:
            ns.append(m.group(1))
            continue
        m = re.match(r"\s*end\s+(\S+)", line)
        if m and ns and ns[-1] == m.group(1):
            ns.pop()
            continue
        m = re.match(r"\s*(?:@\[[^\]]*\]\s*)?(?:private\s+|protected\s+)?theorem\s+(\S+)", line)
        if m:
            out.append(".".join(ns + [m.group(1)]))
    return out


def run(cmd, cwd=None, inp=None, timeout=None, env=None):
    r = subprocess.run(cmd, cwd=cwd, input=inp, stdout=subprocess.PIPE, stderr=subprocess.STDOUT, text=True,
                       timeout=timeout, env=env)
    return r.returncode, r.stdout


def lake_build(targets):
    t0 = time.time()
    rc, out = run(["lake", "build"] + targets, cwd=LEAN)
    return rc, out, time.time() - t0


def print_axioms(mod, names):
    if not names:
        return {}, ""
    os.makedirs(os.path.join(CACHE, "tmp"), exist_ok=True)
    f = os.path.join(CACHE, "tmp", "Axioms_%s.lean" % mod.replace(".", "_"))
    with open(f, "w") as fh:
        fh.write("import %s\n" % mod)
        for n in names:
            fh.write("#print axioms %s\n" % n)
    rc, out = run(["lake", "env", "lean", f], cwd=LEAN)
    res = {}
    for m in re.finditer(r"'([^']+)' depends on axioms: \[([^\]]*)\]", out):
        res[m.group(1)] = [a.strip() for a in m.group(2).replace("\n", " ").split(",") if a.strip()]
    for m in re.finditer(r"'([^']+)' does not depend on any axioms", out):
        res[m.group(1)] = []
    return res, out


# ------------------------------------------------------------------------------------------------
def run_oracle(exe, lines, timeout=180, env=None, tscale=1):
    """Feeds the lines to the oracle; a crash is attributed to the line being processed and the oracle is
    restarted after it. Returns list of outputs (same length as lines)."""
    outs = []
    pos = 0
    crashes = 0
    header = lines[0] if lines and lines[0].startswith("cfg") else None
    while pos < len(lines):
        chunk = lines[pos:]
        pre = []
        if pos > 0 and header:
            pre = [header]
        if pos > 0:
            # re-establish the parameter context (curve / field selection) the remaining lines were generated for
            for k in range(pos - 1, -1, -1):
                if lines[k].split(" ")[0].endswith("_param"):
                    pre.append(lines[k])
                    break
        # keep sticky mode lines
        # wall-clock budget of a chunk: scaled by the machine load (a busy machine must not turn slowness into a "hang")
        try:
            lf = max(1.0, os.getloadavg()[0] / (os.cpu_count() or 1))
        except OSError:
            lf = 1.0
        try:
            p = subprocess.run([exe], input="\n".join(pre + chunk) + "\n", stdout=subprocess.PIPE, stderr=subprocess.PIPE,
                               text=True, timeout=lf * tscale * min(timeout, 30 + len(chunk) // 50), env=env)
        except subprocess.TimeoutExpired as te:
            class P:   # a hang is attributed to the line being processed, like a crash
                pass
            p = P()
            so = te.stdout or ""
            p.stdout = so.decode(errors="replace") if isinstance(so, bytes) else so
            p.stderr = "TIMEOUT after %ds" % timeout
            p.returncode = -99
            if p.stdout.endswith("\n") is False and "\n" in p.stdout:
                p.stdout = p.stdout[:p.stdout.rindex("\n") + 1]
        got = p.stdout.split("\n")
        if got and got[-1] == "":
            got.pop()
        got = got[len(pre):]
        if len(got) >= len(chunk):
            outs.extend(got[:len(chunk)])
            pos = len(lines)
        elif p.returncode == -99 and len(got) < len(chunk):
            # the budget ran out: before a hang is attributed to the line being processed, that line is run alone with a generous
            # budget; if it completes the chunk was merely slow and execution continues behind it
            ok = got[:-1] if (p.stdout and not p.stdout.endswith("\n")) else got
            outs.extend(ok)
            pos += len(ok)
            cur = lines[pos]
            try:
                q = subprocess.run([exe], input="\n".join(pre + [cur]) + "\n", stdout=subprocess.PIPE, stderr=subprocess.PIPE,
                                   text=True, timeout=lf * tscale * 120, env=env)
                qo = q.stdout.split("\n")
                if qo and qo[-1] == "":
                    qo.pop()
                qo = qo[len(pre):]
            except subprocess.TimeoutExpired:
                q, qo = None, []
            if q is not None and q.returncode == 0 and len(qo) == 1:
                outs.append(qo[0])
                pos += 1
                if pos > 0 and not header:
                    pass
            else:
                outs.append("CRASH rc=-99 TIMEOUT(hang)")
                pos += 1
                crashes += 1
                if crashes > 8:
                    outs.extend(["CRASH too-many"] * (len(lines) - pos))
                    break
        else:
            # partial last line belongs to the crashing op
            ok = got[:-1] if (p.stdout and not p.stdout.endswith("\n")) else got
            outs.extend(ok)
            pos += len(ok)
            tail = (p.stderr or "")[-12000:]
            sig = "CRASH rc=%d %s" % (p.returncode, summarize_san(tail))
            outs.append(sig)
            pos += 1
            crashes += 1
            if crashes > 8:
                outs.extend(["CRASH too-many"] * (len(lines) - pos))
                break
    return outs


def summarize_san(txt):
    if txt.startswith("TIMEOUT"):
        return "TIMEOUT(hang)"
    m = re.search(r"((?:ERROR|SUMMARY): AddressSanitizer: [a-z\-]+|runtime error: [^\n]+)", txt)
    loc = re.search(r"#\d+ 0x[0-9a-f]+ in (\w+) ([^\s]+)", txt)
    s = m.group(1) if m else "no-sanitizer-report"
    if loc:
        s += " in %s %s" % (loc.group(1), os.path.basename(loc.group(2)))
    return s.replace(" ", "_")


def run_driver(pairs):
    exe = os.path.join(LEAN, ".lake", "build", "bin", "driver")
    p = subprocess.run([exe], input="\n".join(pairs) + "\n", stdout=subprocess.PIPE, stderr=subprocess.PIPE, text=True)
    out = p.stdout.split("\n")
    if out and out[-1] == "":
        out.pop()
    if len(out) != len(pairs):
        raise RuntimeError("driver produced %d lines for %d inputs: %s" % (len(out), len(pairs), p.stderr[-2000:]))
    return out


# ------------------------------------------------------------------------------------------------
class Ctx:
    """what a property module gets"""

    def __init__(self, pid, tier, seed):
        self.pid, self.tier, self.seed = pid, tier, seed
        self.rng = Rng(seed)
        self.fp = rb.fingerprint()
        self.builds = {}
        self.notes = []

    def build(self, cfg):
        if cfg not in self.builds:
            t = time.time()
            b, err = rb.build(cfg, self.fp)
            if b is None:
                raise BuildError(err)
            log("[build] %s -> %s (%.1fs)" % (cfg, b, time.time() - t))
            self.builds[cfg] = b
        return self.builds[cfg]

    def oracle(self, cfg, defs=(), sources=("oracle.c", "ops_bn.c"), tag="", extra=()):
        b = self.build(cfg)
        out = os.path.join(b, "oracle" + tag)
        srcs = [os.path.join(VERIF, "harness", s) for s in sources]
        stamp = out + ".stamp"
        h = hashlib.sha256()
        for s in srcs + [os.path.join(VERIF, "harness", f) for f in sorted(os.listdir(os.path.join(VERIF, "harness")))
                         if f.endswith((".h", ".inc"))]:
            h.update(open(s, "rb").read())
        h.update(repr(defs).encode())
        h.update(repr(extra).encode())
        hv = h.hexdigest()
        if os.path.exists(out) and os.path.exists(stamp) and open(stamp).read() == hv:
            return out
        with rb.FileLock(out + ".lock"):
            if os.path.exists(out) and os.path.exists(stamp) and open(stamp).read() == hv:
                return out
            tmp = "%s.tmp.%d" % (out, os.getpid())
            err = rb.cc_harness(b, cfg, srcs, tmp, defs=list(defs), extra=list(extra))
            if err:
                raise BuildError("oracle compile failed (%s):\n%s" % (cfg, err))
            os.replace(tmp, out)
            open(stamp, "w").write(hv)
        return out


class BuildError(Exception):
    pass


def load_known():
    p = os.path.join(VERIF, "known_findings.json")
    if os.path.exists(p):
        return json.load(open(p))
    return {"findings": [], "fixed": []}


def write_evidence(pid, ev):
    os.makedirs(os.path.join(VERIF, "evidence"), exist_ok=True)
    with open(os.path.join(VERIF, "evidence", pid + ".json"), "w") as fh:
        json.dump(ev, fh, indent=1, sort_keys=False)
        fh.write("\n")


def write_replay(pid, obj):
    d = os.path.join(VERIF, "evidence", "replay")
    os.makedirs(d, exist_ok=True)
    h = hashlib.sha256(json.dumps(obj, sort_keys=True).encode()).hexdigest()[:12]
    p = os.path.join(d, "%s-%s.json" % (pid, h))
    with open(p, "w") as fh:
        json.dump(obj, fh, indent=1)
        fh.write("\n")
    return p


# ------------------------------------------------------------------------------------------------
def correspondence(ctx, mod, streams, budget_scale=1):
    """streams: list of dicts {cfg, exe, lines, env}. Returns per-line records."""
    recs = []
    for st in streams:
        lines = st["lines"]
        t0 = time.time()
        outs = run_oracle(st["exe"], lines, env=st.get("env"), tscale=st.get("tscale", 1))
        t1 = time.time()
        if st.get("crash_only"):
            # memory-safety streams (C08): the functional verdicts of these lines belong to other properties; here a line
            # fails when the sanitizer build crashes / reports, a guard word changed, or the output differs from the
            # optimised build of the same tree (behaviour depending on undefined or uninitialised data)
            ref = run_oracle(st["ref_exe"], lines, env=st.get("env")) if st.get("ref_exe") else None
            ver = []
            for i, (l, o) in enumerate(zip(lines, outs)):
                if l.startswith("cfg"):
                    ver.append("cfg")
                elif o.startswith("CRASH"):
                    ver.append("FAIL S crash")
                elif "WROTE-" in o:
                    ver.append("FAIL S model=[] spec=[no write outside the caller's buffer] got=[%s]" % o[:300])
                elif ref is not None and ref[i] != o and not ref[i].startswith("CRASH"):
                    ver.append("FAIL S model=[] spec=[%s] got=[%s] differs-between-builds" % (ref[i][:300], o[:300]))
                else:
                    ver.append("ok san," + l.split(" ")[0])
        else:
            pairs = ["%s => %s" % (l, o) for l, o in zip(lines, outs)]
            ver = run_driver(pairs)
        t2 = time.time()
        log("[corr] %s: %d lines, oracle %.1fs, driver %.1fs" % (st["name"], len(lines), t1 - t0, t2 - t1))
        ctxl = None
        for l, o, v in zip(lines, outs, ver):
            if l.split(" ")[0].endswith("_param"):
                ctxl = l
            recs.append({"stream": st["name"], "cfg": st["cfg"], "line": l, "got": o, "verdict": v, "context": ctxl})
    return recs


def classify(recs):
    ok, mfail, sfail, unmod, crash = [], [], [], [], []
    for r in recs:
        v = r["verdict"]
        if r["got"].startswith("CRASH"):
            crash.append(r)
        elif v.startswith("ok") or v in ("cfg", "skip"):
            ok.append(r)
        elif v.startswith("UNMODELLED"):
            unmod.append(r)
        elif v.startswith("FAIL"):
            flags = v.split(" ")[1] if len(v.split(" ")) > 1 else ""
            if "S" in flags:
                sfail.append(r)
            else:
                mfail.append(r)
        else:
            unmod.append(r)
    return ok, mfail, sfail, unmod, crash


def main():
    ap = argparse.ArgumentParser()
    ap.add_argument("pid")
    ap.add_argument("--tier", default=os.environ.get("VERIF_TIER", "quick"))
    ap.add_argument("--replay")
    a = ap.parse_args()
    pid = a.pid.upper()
    tier = a.tier if a.tier in ("quick", "thorough") else "quick"
    seed = int(os.environ.get("VERIF_SEED", "1") or "1")
    t_start = time.time()
    mod = importlib.import_module("props." + pid.lower())
    ctx = Ctx(pid, tier, seed)
    known = load_known()
    kf = [f for f in known.get("findings", []) if f["property"] == pid]
    violations = []   # list of (replay-object, no_failing_input: bool)
    known_hits = {}
    ev_cov = {}
    props_mod = "RelicVerif.Props." + pid

    # ---- 1. build relic + oracle -----------------------------------------------------------
    try:
        streams_spec = mod.streams(ctx) if not a.replay else mod.replay_streams(ctx, json.load(open(a.replay)))
    except BuildError as e:
        # a tree that does not build cannot show the property
        rp = write_replay(pid, {"property": pid, "kind": "build-failure", "detail": str(e)[-3000:],
                                "theorem_or_stream": "build of /repo working tree"})
        ev = {"property_id": pid, "tier": tier, "seed": seed, "level": "proof",
              "coverage": {"obligations": 1, "discharged": 0, "checker_cmd": "cmake --build", "trusted_base": [],
                           "evaluations": 0, "distinct_nontrivial": 0, "rule": "build failed", "samples": [str(e)[-400:]]},
              "wall_s": time.time() - t_start, "violations": 1}
        write_evidence(pid, ev)
        print("VIOLATION property=%s replay=%s no-failing-input-found" % (pid, rp))
        return 1

    # ---- 2. generated part of the model + lake build -----------------------------------------
    # the generated Lean files are a function of the tree: regenerate them on every run (the driver imports them)
    import translate
    gen_all = translate.generate_all(ctx.build("base"))
    gen_groups = list(getattr(mod, "GENERATED", ["ep"] if getattr(mod, "USES_GENERATED", False) else []))
    gen_info = {}
    if gen_groups:
        gen_info = {"obligations": [], "failures": []}
        for g in gen_groups:
            gen_info["obligations"] += gen_all["groups"].get(g, {}).get("obligations", [])
            gen_info["failures"] += gen_all["groups"].get(g, {}).get("failures", ["generated group %s missing" % g])
    gen_failures = gen_info.get("failures", []) if gen_info else []
    targets = [props_mod, "driver"]
    rc, out, dt = lake_build(targets)
    log("[lean] lake build %s rc=%d (%.1fs)" % (" ".join(targets), rc, dt))
    thms = theorems_in(props_mod)
    for extra in getattr(mod, "EXTRA_THEOREM_MODULES", []):
        thms += theorems_in(extra)
    broken = []
    if rc != 0:
        log(out[-3000:])
        errs = re.findall(r"error: (\S+?\.lean):(\d+):\d+: ([^\n]*)", out)
        broken = ["%s:%s %s" % e for e in errs] or ["lake build failed"]
    # ---- 3. audit ----------------------------------------------------------------------------
    closure = lean_closure(props_mod) | lean_closure("Driver.Main")
    hits = audit_sources(closure)
    axioms = {}
    ax_bad = []
    if rc == 0:
        axioms, axout = print_axioms(props_mod, thms)
        for t in thms:
            if t not in axioms:
                ax_bad.append("%s: not reported by #print axioms" % t)
            else:
                extra = [x for x in axioms[t] if x not in ALLOWED_AXIOMS]
                if extra:
                    ax_bad.append("%s: uses %s" % (t, extra))
    leanchecker = None
    if tier == "thorough" and rc == 0:
        lrc, lout = run(["lake", "env", "leanchecker", props_mod], cwd=LEAN)
        leanchecker = (lrc == 0)
        if lrc != 0:
            broken.append("leanchecker: " + lout[-500:])
    obligations = len(thms) + len(gen_info.get("obligations", [])) if gen_info else len(thms)
    discharged = 0 if rc != 0 else len([t for t in thms if t in axioms and not [x for x in axioms[t] if x not in ALLOWED_AXIOMS]])
    if gen_info:
        discharged += len([o for o in gen_info.get("obligations", []) if o.get("ok")]) if rc == 0 else 0
    proof_problems = broken + hits + ax_bad + gen_failures

    # ---- 4. correspondence -------------------------------------------------------------------
    recs = []
    if rc == 0 or os.path.exists(os.path.join(LEAN, ".lake", "build", "bin", "driver")):
        try:
            recs = correspondence(ctx, mod, streams_spec)
        except Exception as e:  # driver failure is a broken tie, not a pass
            proof_problems.append("correspondence run failed: %r" % (e,))
    if hasattr(mod, "postprocess"):
        mod.postprocess(ctx, recs)
    ok, mfail, sfail, unmod, crash = classify(recs)

    # ---- 4b. every configured parameter set is still exercised --------------------------------
    # The generators probe the library for what can be selected; a parameter set whose selection starts to fail would silently drop out
    # of the streams. tools/expected_contexts.json (committed; recorded on the clean tree with VERIF_RECORD_CONTEXTS=1) lists, per property
    # and tier, the context lines (`ep_param 12`, `fb_param 20`, …) under which at least one line must be judged ok.
    def _stable(c):
        # only contexts that do not depend on the seed: small integers and short words after the op name (no key-generation seeds)
        return all((t.isdigit() and len(t) < 5) or (t.isalpha() and len(t) < 5) for t in c.split()[1:])
    # an operation line judged ok under the context (the context line alone does not count: a rejected selection is "ok rejected")
    ctx_seen = sorted({"%s|%s" % (r["stream"], r["context"]) for r in ok
                       if r.get("context") and r["line"] != r["context"] and _stable(r["context"])})
    ecp = os.path.join(VERIF, "tools", "expected_contexts.json")
    try:
        expected_ctx = json.load(open(ecp))
    except (OSError, ValueError):
        expected_ctx = {}
    if os.environ.get("VERIF_RECORD_CONTEXTS") == "1":
        import relicbuild as _rb
        with _rb.FileLock(os.path.join(_rb.CACHE, "locks", "expected-contexts.lock")):      # several recording runs may go on at once
            try:
                expected_ctx = json.load(open(ecp))
            except (OSError, ValueError):
                expected_ctx = {}
            expected_ctx.setdefault(pid, {})[tier] = ctx_seen
            with open(ecp + ".tmp", "w") as fh:
                json.dump(expected_ctx, fh, indent=1, sort_keys=True)
            os.replace(ecp + ".tmp", ecp)
    else:
        missing_ctx = [c for c in expected_ctx.get(pid, {}).get(tier, []) if c not in ctx_seen]
        if missing_ctx and recs:
            proof_problems.append("parameter sets no longer exercised (selection fails or the stream dropped them): %s" % ", ".join(missing_ctx[:12]))

    # ---- 5. decide ---------------------------------------------------------------------------
    def known_match(r):
        for f in kf:
            if mod.matches_finding(f, r):
                return f
        return None

    new_s = []
    for r in sfail + crash:
        f = known_match(r)
        if f:
            known_hits.setdefault(f["id"], []).append(r)
        else:
            new_s.append(r)
    if new_s:
        new_s.sort(key=lambda r: len(r["line"]))
        r = new_s[0]
        rp = write_replay(pid, {"property": pid, "kind": "implementation-violates-spec", "config": r["cfg"],
                                "context_lines": [r["context"]] if r.get("context") else [],
                                "op_lines": [r["line"]], "seed": seed, "actual": r["got"], "driver": r["verdict"],
                                "others": [x["line"] for x in new_s[1:20]], "count": len(new_s)})
        violations.append((rp, False))
    if (mfail or unmod) and not new_s:
        # correspondence broken but no spec failure seen: search harder for a failing input
        found = None
        if hasattr(mod, "search_streams"):
            try:
                recs2 = correspondence(ctx, mod, mod.search_streams(ctx, mfail))
                _, _, s2, _, c2 = classify(recs2)
                s2 = [r for r in s2 + c2 if not known_match(r)]
                if s2:
                    s2.sort(key=lambda r: len(r["line"]))
                    found = s2[0]
            except Exception as e:
                log("search failed: %r" % (e,))
        bad = (mfail or unmod)
        bad.sort(key=lambda r: len(r["line"]))
        if found:
            rp = write_replay(pid, {"property": pid, "kind": "implementation-violates-spec", "config": found["cfg"],
                                    "op_lines": [found["line"]], "seed": seed, "actual": found["got"],
                                    "driver": found["verdict"], "found_by": "violation search after correspondence break",
                                    "correspondence_break": bad[0]["line"]})
            violations.append((rp, False))
        else:
            rp = write_replay(pid, {"property": pid, "kind": "correspondence-broken", "config": bad[0]["cfg"],
                                    "proof_problems": proof_problems[:10],
                                    "theorem_or_stream": "correspondence stream %s (model vs implementation)" % bad[0]["stream"],
                                    "op_lines": [bad[0]["line"]], "actual": bad[0]["got"], "driver": bad[0]["verdict"],
                                    "count": len(bad), "seed": seed})
            violations.append((rp, True))
    if proof_problems and not violations:
        # a theorem / generated obligation no longer checks: search the implementation for a concrete failing input
        found = None
        if hasattr(mod, "search_streams") and os.path.exists(os.path.join(LEAN, ".lake", "build", "bin", "driver")):
            try:
                recs2 = correspondence(ctx, mod, mod.search_streams(ctx, []))
                _, m2, s2, _, c2 = classify(recs2)
                s2 = [r for r in s2 + c2 if not known_match(r)]
                if s2:
                    s2.sort(key=lambda r: len(r["line"]))
                    found = s2[0]
            except Exception as e:
                log("search failed: %r" % (e,))
        if found:
            rp = write_replay(pid, {"property": pid, "kind": "implementation-violates-spec", "config": found["cfg"],
                                    "context_lines": [found["context"]] if found.get("context") else [],
                                    "op_lines": [found["line"]], "seed": seed, "actual": found["got"],
                                    "driver": found["verdict"], "found_by": "violation search after a proof obligation broke",
                                    "theorem_or_stream": proof_problems[:20]})
            violations.append((rp, False))
        else:
            rp = write_replay(pid, {"property": pid, "kind": "proof-obligation-broken",
                                    "theorem_or_stream": proof_problems[:20], "seed": seed})
            violations.append((rp, True))
    # counter-theorem bookkeeping: a known finding that no longer reproduces must be retired (reported, not fatal)
    stale = [f["id"] for f in kf if f["id"] not in known_hits and f.get("expect_hit", True)]

    # ---- 6. evidence -------------------------------------------------------------------------
    distinct = set()
    hist = {}
    ops = {}
    for r in ok:
        if r["verdict"] in ("cfg", "skip"):
            continue
        if mod.nontrivial(r):
            distinct.add((r["cfg"], r["line"]))
        for t in r["verdict"][3:].split(","):
            if t:
                hist[t] = hist.get(t, 0) + 1
        op = r["line"].split(" ")[0]
        ops[op] = ops.get(op, 0) + 1
    samples = []
    step = max(1, len(recs) // 6)
    for r in recs[1::step][:6]:
        samples.append({"cfg": r["cfg"], "line": r["line"][:300], "implementation": r["got"][:200], "driver": r["verdict"][:200]})
    if not samples:
        samples = [{"note": "no correspondence lines executed"}]
    tb = [
        "Lean 4.33.0 kernel; axioms allowed: propext, Classical.choice, Quot.sound (per-theorem list under coverage.theorems)",
        "hand-written Lean model of the C functions (lean/RelicVerif/Model), tied to the code by the correspondence run only",
        "correspondence harness: harness/*.c oracle + tools/check.py generators, canonicalisation and diff",
        "C compiler, libc, relic's cmake build of the working tree",
    ] + list(getattr(mod, "TRUSTED", []))
    ev = {
        "property_id": pid, "tier": tier, "seed": seed, "level": "proof",
        "coverage": {
            "obligations": max(obligations, 1), "discharged": discharged,
            "checker_cmd": "cd lean && lake build %s driver && lake env lean <#print axioms file>%s" % (
                props_mod, " && lake env leanchecker " + props_mod if tier == "thorough" else ""),
            "trusted_base": tb,
            "theorems": [{"name": t, "axioms": axioms.get(t)} for t in thms],
            "generated": gen_info.get("obligations", []) if gen_info else [],
            "forbidden_token_hits": hits, "leanchecker_ok": leanchecker,
            "evaluations": len([r for r in recs if r["verdict"] not in ("cfg", "skip")]),
            "distinct_nontrivial": len(distinct),
            "rule": getattr(mod, "RULE", "distinct (configuration, operation line) pairs whose result is not an error/skip"),
            "samples": samples,
            "op_histogram": ops, "branch_histogram": hist,
            "model_disagreements": len(mfail), "spec_failures": len(sfail), "unmodelled": len(unmod),
            "crashes": len(crash),
            "known_findings_hit": {k: len(v) for k, v in known_hits.items()},
            "known_findings_not_reproduced": stale,
            "proof_problems": proof_problems[:50],
            "exhaustive": False,
        },
        "assumptions": list(getattr(mod, "ASSUMPTIONS", [])),
        "wall_s": round(time.time() - t_start, 2),
        "violations": len(violations),
    }
    if hasattr(mod, "extra_evidence"):
        ev["coverage"].update(mod.extra_evidence(ctx, recs))
    write_evidence(pid, ev)

    for fid, rs in known_hits.items():
        f = [x for x in kf if x["id"] == fid][0]
        rs.sort(key=lambda r: len(r["line"]))
        print("KNOWN-FINDING: property=%s %s %s (e.g. `%s` -> %s; %d hits)" % (pid, fid, f["what"], rs[0]["line"][:120],
                                                                              rs[0]["got"][:80], len(rs)))
    for rp, nofail in violations:
        print("VIOLATION property=%s replay=%s%s" % (pid, rp, " no-failing-input-found" if nofail else ""))
    log("[%s] %s: %d theorems, %d/%d obligations, %d lines (%d ok, %d model-diff, %d spec-fail, %d unmodelled, %d crash), %.1fs" % (
        pid, tier, len(thms), discharged, obligations, len(recs), len(ok), len(mfail), len(sfail), len(unmod), len(crash),
        time.time() - t_start))
    return 1 if violations else 0


if __name__ == "__main__":
    sys.exit(main())
