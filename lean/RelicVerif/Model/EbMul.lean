/-
Scalar-multiplication loops of src/eb/relic_eb_mul.c, relic_eb_mul_fix.c that have no counterpart in Model/MulAlg.lean:
the τ-adic (Koblitz) loops with their tables, the right-to-left w-NAF, the halving loop and the single-table comb.
Same conventions as Model/MulAlg.lean: an arbitrary carrier with explicit group operations (plus the Frobenius map /
the halving map as parameters), digit strings least significant first. Executable, no Mathlib.
-/
import RelicVerif.Model.MulAlg

namespace Relic.Model.EbMul
open Relic.Model.MulAlg

variable {G : Type}

/-! ### Koblitz curves: tables of eb_tab and the τ-adic loops -/

/-- eb_tab, Koblitz branch, w = 4: [P, τ²P - P, μτP - P, μτP + P] = [α₁P, α₃P, α₅P, α₇P] -/
def tabKbltz4 (o : Ops G) (frb : G → G) (u : Int) (p : G) : List G :=
  let t0 := frb p
  let t1 := frb t0
  let t0 := if u = -1 then o.neg t0 else t0
  let t2 := o.sub t0 p
  let t3 := o.add t0 p
  let t1 := o.sub t1 p
  [p, t1, t2, t3]

/-- eb_tab, Koblitz branch, w = 5 -/
def tabKbltz5 (o : Ops G) (frb : G → G) (u : Int) (p : G) : List G :=
  let t0 := frb p
  let t1 := frb t0
  let t0 := if u = -1 then o.neg t0 else t0
  let t2 := o.sub t0 p
  let t3 := o.add t0 p
  let t1 := o.sub t1 p
  let t4 := o.add t1 t0
  let t5 := o.add t2 t0
  let t6 := o.add t3 t0
  let t7 := o.neg t5
  let t7 := o.sub t7 t0
  [p, t1, t2, t3, t4, t5, t6, t7]

/-- eb_mul_ltnaf_imp / eb_mul_fix_kbltz: from the top digit down: r = τ(r), then r ± t[|d|/2] -/
def mulTnaf (o : Ops G) (frb : G → G) (tab : List G) (dflt : G) (digits : List Int) : G :=
  digits.reverse.foldl (fun r d =>
    let r := frb r
    if d > 0 then o.add r (tab.getD (d.toNat / 2) dflt)
    else if d < 0 then o.sub r (tab.getD ((-d).toNat / 2) dflt)
    else r) o.zero

/-- bucket accumulation of the right-to-left loops: t[|d|/2] ± q -/
def bucketAdd (o : Ops G) (bk : List G) (d : Int) (q : G) : List G :=
  if d > 0 then bk.set (d.toNat / 2) (o.add (bk.getD (d.toNat / 2) o.zero) q)
  else if d < 0 then bk.set ((-d).toNat / 2) (o.sub (bk.getD ((-d).toNat / 2) o.zero) q)
  else bk

/-- buckets of a right-to-left loop: the i-th digit meets step^i(p) -/
def buckets (o : Ops G) (step : G → G) (n : Nat) (p : G) (digits : List Int) : List G :=
  (digits.foldl (fun (st : List G × G) d => (bucketAdd o st.1 d st.2, step st.2)) (List.replicate n o.zero, p)).1

/-- eb_mul_rtnaf_imp, RLC_WIDTH = 4: buckets with τ as step, then t3 ← -μτ³t3 - t3, t1 ← τ²t1 - t1, t2 ← τ²t2 + t2, sum -/
def mulTnafRtl4 (o : Ops G) (frb : G → G) (u : Int) (p : G) (digits : List Int) : G :=
  let bk := buckets o frb 4 p digits
  let b0 := bk.getD 0 o.zero
  let b1 := bk.getD 1 o.zero
  let b2 := bk.getD 2 o.zero
  let b3 := bk.getD 3 o.zero
  let t0 := frb (frb (frb b3))
  let t0 := if u = 1 then o.neg t0 else t0
  let t3 := o.sub t0 b3
  let t0 := frb (frb b1)
  let t1 := o.sub t0 b1
  let t0 := frb (frb b2)
  let t2 := o.add t0 b2
  o.add (o.add (o.add b0 t1) t2) t3

/-! ### ordinary curves -/

/-- eb_mul_rnaf_imp, RLC_WIDTH = 4: buckets with doubling as step, then 3·t1 = 2t1 + t1, 5·t2 = 4t2 + t2, 7·t3 = 8t3 - t3 -/
def mulRnaf4 (o : Ops G) (p : G) (digits : List Int) : G :=
  let bk := buckets o o.dbl 4 p digits
  let b0 := bk.getD 0 o.zero
  let b1 := bk.getD 1 o.zero
  let b2 := bk.getD 2 o.zero
  let b3 := bk.getD 3 o.zero
  let t1 := o.add (o.dbl b1) b1
  let t2 := o.add (dblN o 2 b2) b2
  let t3 := o.sub (dblN o 3 b3) b3
  o.add (o.add (o.add b0 t1) t2) t3

/-- Σ (2j+1)·t[j] as eb_mul_halve computes it: suffix sums t[j] += t[j+1] from the top, r = t[1] + … + t[n-1], r = 2r + t[0] -/
def combineOdd (o : Ops G) (bk : List G) : G :=
  let suf := bk.foldr (fun b (acc : List G) => (o.add b (acc.headD o.zero)) :: acc) []
  match suf with
  | [] => o.zero
  | s0 :: rest => o.add (o.dbl (rest.foldl o.add o.zero)) s0

/-- eb_mul_halve, cofactor-2 branch: `naf` is the width-w NAF of k·2^(l-1) mod n (l = bits of n); a digit at position l
    contributes 2P, the digit at position i < l meets P halved l-1-i times -/
def mulHalve (o : Ops G) (hlv : G → G) (w l : Nat) (p : G) (naf : List Int) : G :=
  let n := 2 ^ (w - 2)
  let bk0 := List.replicate n o.zero
  let bk0 := if naf.getD l 0 = 1 then bk0.set 0 (o.dbl p) else bk0
  let st := (List.range l).reverse.foldl (fun (st : List G × G) i =>
    (bucketAdd o st.1 (naf.getD i 0) st.2, hlv st.2)) (bk0, p)
  combineOdd o st.1

/-! ### fixed-base comb (eb_mul_pre_combs / eb_mul_fix_combs) -/

/-- table: t[Σ_j b_j 2^j] = Σ_j b_j·2^(j·l)·P for j < d, built as t[2^j] = 2^l·t[2^(j-1)], t[2^j + i] = t[i] + t[2^j] -/
def tabCombs (o : Ops G) (p : G) (l : Nat) : Nat → List G
  | 0 => [o.zero]
  | 1 => [o.zero, p]
  | d + 2 =>
    let t := tabCombs o p l (d + 1)
    let base := dblN o l (t.getD (2 ^ d) o.zero)
    t ++ (base :: (t.tail.map fun ti => o.add ti base))

/-- the comb column i of k: Σ_j bit(k, i + j·l)·2^j -/
def combCol (k l d i : Nat) : Nat := (List.range d).foldl (fun w j => w + ((k >>> (i + j * l)) % 2) * 2 ^ j) 0

/-- eb_mul_fix_combs: r = t[col l-1]; for i = l-2 … 0: r = 2r, r += t[col i] (skipped when the column is 0) -/
def mulCombs (o : Ops G) (tab : List G) (k l d : Nat) : G :=
  (List.range l).reverse.foldl (fun r i =>
    let r := o.dbl r
    let c := combCol k l d i
    if c > 0 then o.add r (tab.getD c o.zero) else r) o.zero

end Relic.Model.EbMul
