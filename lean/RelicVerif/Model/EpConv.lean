/-
Model of the point encodings of src/ep/relic_ep_util.c (ep_size_bin, ep_read_bin, ep_write_bin) and
src/ep/relic_ep_pck.c (ep_pck / ep_upk sign convention) on affine points over Z/pZ. The field square root is a
parameter `srt` (class-C algorithm of C02) with the contract "returns a root exactly when one exists".
-/
import RelicVerif.Spec.Curve

namespace Relic.Model.EpConv
open Relic.Spec.Curve

structure Ctx where
  c : Curve
  nb : Nat                 -- RLC_FP_BYTES
  pairf : Bool             -- ep_curve_is_pairf()
  R : Nat                  -- Montgomery radix (the sign bit of non-pairing curves is the low bit of y·R mod p)
  srt : Nat → Option Nat   -- fp_srt

abbrev Bytes := List UInt8

def beBytes (n k : Nat) : Bytes := (List.range k).reverse.map fun i => UInt8.ofNat ((n / 256 ^ i) % 256)
def beVal (b : Bytes) : Nat := b.foldl (fun acc x => acc * 256 + x.toNat) 0

/-- the compression bit of y -/
def signBit (x : Ctx) (y : Nat) : Nat :=
  if x.pairf then (if y > x.c.p / 2 then 1 else 0) else (y * x.R % x.c.p) % 2

/-- ep_size_bin -/
def sizeBin (x : Ctx) (p : Point) (pack : Bool) : Nat :=
  match p with
  | none => 1
  | some _ => if pack then x.nb + 1 else 2 * x.nb + 1

/-- ep_write_bin: none = ERR_NO_BUFFER; the buffer is zero-filled first -/
def writeBin (x : Ctx) (len : Nat) (p : Point) (pack : Bool) : Option Bytes :=
  match p with
  | none => if len < 1 then none else some (List.replicate len 0)
  | some (px, py) =>
    if pack then
      if len < x.nb + 1 then none
      else some ([UInt8.ofNat (2 + signBit x py)] ++ beBytes px x.nb ++ List.replicate (len - (x.nb + 1)) 0)
    else
      if len < 2 * x.nb + 1 then none
      else some ([4] ++ beBytes px x.nb ++ beBytes py x.nb ++ List.replicate (len - (2 * x.nb + 1)) 0)

/-- fp_read_bin on exactly nb bytes: none unless the value is below p -/
def fpRead (x : Ctx) (b : Bytes) : Option Nat :=
  if b.length ≠ x.nb then none else if beVal b < x.c.p then some (beVal b) else none

/-- ep_upk: recover y from x and the sign bit -/
def upk (x : Ctx) (px bit : Nat) : Option Nat :=
  let rhs := (px * px % x.c.p * px + x.c.a * px + x.c.b) % x.c.p
  match x.srt rhs with
  | none => none
  | some r => if signBit x r ≠ bit then some ((x.c.p - r) % x.c.p) else some r

/-- ep_read_bin: none = error (ERR_NO_BUFFER / ERR_NO_VALID) -/
def readBin (x : Ctx) (bin : Bytes) : Option Point :=
  if bin.length = 1 then (if bin.head? = some 0 then some none else none)
  else if bin.length = x.nb + 1 then
    match fpRead x (bin.drop 1) with
    | none => none
    | some px =>
      let tag := (bin.headD 0).toNat
      if tag ≠ 2 ∧ tag ≠ 3 then none
      else match upk x px (tag - 2) with
        | none => none
        | some py => if onCurve x.c (some (px, py)) then some (some (px, py)) else none
  else if bin.length = 2 * x.nb + 1 then
    if bin.head? ≠ some 4 then none
    else match fpRead x ((bin.drop 1).take x.nb), fpRead x (bin.drop (1 + x.nb)) with
      | some px, some py => if onCurve x.c (some (px, py)) then some (some (px, py)) else none
      | _, _ => none
  else none

end Relic.Model.EpConv
