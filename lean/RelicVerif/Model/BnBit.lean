/-
bn_set_bit (src/bn/relic_bn_util.c) on the digit representation: the digit array is extended with zero digits up to the digit that holds
the bit (never with what the storage happened to contain), a bit beyond the capacity is refused, clearing a bit above the most
significant digit changes nothing.
-/
import RelicVerif.Model.Bn

namespace Relic.Model

def bnSetBit (cfg : Cfg) (a : Bn) (bit : Nat) (v : Bool) : Option Bn := do
  let d := bit / cfg.w
  if v then
    grow cfg (d + 1)
    let dp := a.dp ++ List.replicate (d + 1 - a.dp.length) 0
    let x := dp.getD d 0
    let x' := if (x / 2 ^ (bit % cfg.w)) % 2 = 1 then x else x + 2 ^ (bit % cfg.w)
    return { a with dp := dp.set d x' }
  else if d < a.dp.length then
    let x := a.dp.getD d 0
    let x' := if (x / 2 ^ (bit % cfg.w)) % 2 = 1 then x - 2 ^ (bit % cfg.w) else x
    return bnTrim { a with dp := a.dp.set d x' }
  else return a

end Relic.Model
