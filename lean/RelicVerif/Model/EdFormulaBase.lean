/-
Vocabulary of the generated Edwards formula code (RelicVerif/Gen/EdFormulas.lean): the four-coordinate point
representation of `ed_st` with RELIC's coordinate flag, the curve constants, and the hand-written model of the
predicate ed_is_infty (src/ed/relic_ed_util.c). Field operations: `FOps` of Model/FormulaBase.lean.
-/
import RelicVerif.Model.FormulaBase

namespace Relic.Model.Formula

inductive ECoord where
  | basic | projc | extnd
deriving Repr, DecidableEq, Inhabited

/-- `ed_st`: x, y, z, t and the coordinate flag -/
structure EPt (F : Type) where
  x : F
  y : F
  z : F
  t : F
  coord : ECoord

/-- core_get()->ed_a, core_get()->ed_d -/
structure EdC (F : Type) where
  a : F
  d : F

/-- an `ed_t` local before anything is written to it (ALLOC = AUTO: stack memory), modelled as all-zero -/
def EPt.junk {F : Type} (o : FOps F) : EPt F := ⟨o.zero, o.zero, o.zero, o.zero, .basic⟩

/-- ed_is_infty: BASIC: x = 0 ∧ y = 1; otherwise x = 0 ∧ y = z -/
def EPt.isInfty {F : Type} (o : FOps F) (p : EPt F) : Bool :=
  o.isZero p.x && (if p.coord = .basic then o.isZero (o.sub p.y o.one) else o.isZero (o.sub p.y p.z))

end Relic.Model.Formula
