/-
Vocabulary of the generated Edwards formula code (RelicVerif/Gen/EdFormulas.lean): the four-coordinate point
representation of `ed_st` with RELIC's coordinate flag, the curve constants, and the hand-written model of the
predicate ed_is_infty (src/ed/relic_ed_util.c). Field operations: `FOps` of Model/FormulaBase.lean.
-/
import RelicVerif.Model.FormulaBase

namespace Relic.Model.Formula

inductive ECoord where
  | basic | projc | extnd
deriving Repr, DecidableEq, Inhabited

/-- `ed_st`: x, y, z, t and the coordinate flag -/
structure EPt (F : Type) where
  x : F
  y : F
  z : F
  t : F
  coord : ECoord

/-- core_get()->ed_a, core_get()->ed_d -/
structure EdC (F : Type) where
  a : F
  d : F

/-- an `ed_t` local before anything is written to it (ALLOC = AUTO: stack memory), modelled as all-zero -/
def EPt.junk {F : Type} (o : FOps F) : EPt F := ⟨o.zero, o.zero, o.zero, o.zero, .basic⟩

/-- ed_is_infty: BASIC: x = 0 ∧ y = 1; otherwise x = 0 ∧ y = z -/
def EPt.isInfty {F : Type} (o : FOps F) (p : EPt F) : Bool :=
  o.isZero p.x && (if p.coord = .basic then o.isZero (o.sub p.y o.one) else o.isZero (o.sub p.y p.z))

/-- ed_cmp (src/ed/relic_ed_cmp.c), true = RLC_EQ. Both operands not normalised: cross-multiplication
    x1·z2 = x2·z1, y1·z2 = y2·z1 (and t1·z2 = t2·z1 in the build with extended coordinates, `ext`); otherwise both are
    brought to affine form with the build's ed_norm (`norm p` = ed_norm(r, p) with r a copy of p) and compared. -/
def edCmp {F : Type} (o : FOps F) (ext : Bool) (norm : EPt F → EPt F) (p q : EPt F) : Bool :=
  let eq := fun (a b : F) => o.isZero (o.sub a b)
  if p.coord ≠ .basic ∧ q.coord ≠ .basic then
    (if ext then eq (o.mul p.t q.z) (o.mul q.t p.z) else true) &&
      (eq (o.mul p.x q.z) (o.mul q.x p.z) && eq (o.mul p.y q.z) (o.mul q.y p.z))
  else
    let r := if p.coord ≠ .basic then norm p else p
    let s := if q.coord ≠ .basic then norm q else q
    eq r.x s.x && eq r.y s.y

end Relic.Model.Formula
