/-
Model of the scalar recodings of src/bn/relic_bn_rec.c on natural numbers (the C code works on |k|):
bn_rec_win, bn_rec_slw, bn_rec_naf, bn_rec_reg, bn_rec_jsf. Digits are `Int`, least significant first
(slw: most significant first, as the C writes it).
-/
namespace Relic.Model.Rec

def bitLen (n : Nat) : Nat := if n = 0 then 0 else Nat.log2 n + 1

/-- bits from..to inclusive of k (get_bits) -/
def getBits (k from_ to : Nat) : Nat := (k >>> from_) % 2 ^ (to + 1 - from_)

/-- bn_rec_win: fixed windows of width w, least significant first; none = ERR_NO_BUFFER -/
def recWin (cap : Nat) (k w : Nat) : Option (List Int) :=
  let l := bitLen k
  if cap < max ((l + w - 1) / w) 1 then none     -- the zero scalar still needs one entry (the single window 0)
  else
    -- for (i = 0; i < l - w; i += w) emit bits [i, i+w-1]; then the top window [i, l-1]
    let cnt := if l ≤ w then 0 else (l - w + w - 1) / w
    let body := (List.range cnt).map fun j => (getBits k (j * w) (j * w + w - 1) : Int)
    some (body ++ [(getBits k (cnt * w) (l - 1) : Int)])

/-- bn_rec_slw: sliding windows, most significant first: 0 for a zero bit, else the odd window value -/
def recSlwLoop (k w : Nat) : Nat → Int → List Int → List Int
  | 0, _, acc => acc
  | fuel + 1, i, acc =>
    if i < 0 then acc
    else
      let iN := i.toNat
      if (k >>> iN) % 2 = 0 then recSlwLoop k w fuel (i - 1) (acc ++ [0])
      else
        let s0 := if iN + 1 ≥ w then iN + 1 - w else 0
        -- while (!bn_get_bit(k, s)) s++
        let s := ((List.range (iN - s0 + 1)).find? fun d => (k >>> (s0 + d)) % 2 = 1).map (· + s0) |>.getD iN
        recSlwLoop k w fuel ((s : Int) - 1) (acc ++ [(getBits k s iN : Int)])

def recSlw (cap : Nat) (k w : Nat) : Option (List Int) :=
  let l := bitLen k
  if cap < l then none else some (recSlwLoop k w (l + 1) ((l : Int) - 1) [])

/-- bn_rec_naf: width-w NAF of |k|, least significant first -/
def recNafLoop (w : Nat) : Nat → Nat → List Int → List Int
  | 0, _, acc => acc
  | fuel + 1, t, acc =>
    if t = 0 then acc
    else if t % 2 = 1 then
      let m := t % 2 ^ w
      let u : Int := if w = 2 then 2 - (m : Int) else (if m > 2 ^ w / 2 then (m : Int) - 2 ^ w else m)
      let t' := ((t : Int) - u).toNat
      recNafLoop w fuel (t' / 2) (acc ++ [u])
    else recNafLoop w fuel (t / 2) (acc ++ [0])

def recNaf (cap : Nat) (k w : Nat) : Option (List Int) :=
  if cap < bitLen k + 1 then none else some (recNafLoop w (bitLen k + 2) k [])

/-- bn_rec_reg: regular (all digits odd) recoding of an odd k < 2^n, l = ⌈n/(w-1)⌉ digits plus the final carry -/
def recRegLoop (w : Nat) : Nat → Nat → List Int → List Int × Nat
  | 0, t, acc => (acc, t)
  | l + 1, t, acc =>
    let u : Int := if w = 2 then ((t % 4 : Nat) : Int) - 2 else ((t % 2 ^ w : Nat) : Int) - 2 ^ (w - 1)
    let t' := ((t : Int) - u).toNat
    recRegLoop w l (t' >>> (w - 1)) (acc ++ [u])

def recReg (cap : Nat) (k n w : Nat) : Option (List Int) :=
  let l := (n + (w - 1) - 1) / (w - 1)
  if cap ≤ l then none
  else
    let (ds, t) := recRegLoop w l k []
    some (ds ++ [(t : Int)])

/-- bn_rec_jsf: joint sparse form of (|k|, |l|) -/
def recJsfLoop : Nat → Nat → Nat → Int → Int → List Int → List Int → List Int × List Int
  | 0, _, _, _, _, a0, a1 => (a0, a1)
  | fuel + 1, n0, n1, d0, d1, a0, a1 =>
    if n0 = 0 ∧ d0 = 0 ∧ n1 = 0 ∧ d1 = 0 then (a0, a1)
    else
      let l0 := (((n0 % 2 ^ 64 : Nat) : Int) + d0).toNat % 8
      let l1 := (((n1 % 2 ^ 64 : Nat) : Int) + d1).toNat % 8
      let u0 : Int := if l0 % 2 = 0 then 0 else
        let u : Int := 2 - ((l0 % 4 : Nat) : Int)
        if (l0 = 3 ∨ l0 = 5) ∧ l1 % 4 = 2 then -u else u
      let u1 : Int := if l1 % 2 = 0 then 0 else
        let u : Int := 2 - ((l1 % 4 : Nat) : Int)
        if (l1 = 3 ∨ l1 = 5) ∧ l0 % 4 = 2 then -u else u
      let d0' := if d0 + d0 = 1 + u0 then 1 - d0 else d0
      let d1' := if d1 + d1 = 1 + u1 then 1 - d1 else d1
      recJsfLoop fuel (n0 / 2) (n1 / 2) d0' d1' (a0 ++ [u0]) (a1 ++ [u1])

def recJsf (cap : Nat) (k l : Nat) : Option (List Int × List Int) :=
  if cap < 2 * (max (bitLen k) (bitLen l) + 1) then none
  else some (recJsfLoop (max (bitLen k) (bitLen l) + 3) k l 0 0 [] [])

/-- value of a digit string in radix 2^s, least significant first -/
def eval (s : Nat) (ds : List Int) : Int := ds.foldr (fun d acc => d + 2 ^ s * acc) 0

end Relic.Model.Rec
