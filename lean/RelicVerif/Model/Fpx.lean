/-
Model of the extension-field arithmetic of src/fpx (property C10): the formulas of the C functions, statement by
statement, over an explicit operation record of the level below (`FOps`, Model/FormulaBase.lean). The driver runs
them over Z/pZ on Nat (`natOps p`) stacked level by level; Lemmas/Fpx.lean instantiates the record with a
commutative ring / field and proves that every formula is the product / square / inverse of the quotient ring.

What is mirrored (hand-transcribed from the C text; the correspondence run compares every line):
* fp2: fp2_mul_basic (Karatsuba, multiplication by the non-residue by the repeated subtraction / addition loops over
  fp_prime_get_qnr()), fp2_muln_low (the INTEG variant: same, without the loop for positive qnr), fp2_sqr_basic /
  fp2_sqrn_low, fp2_inv, fp2_mul_art, fp2_mul_nor_basic / fp2_norm_low (switch over p mod 8 and fp2_field_get_qnr());
* fp3: fp3_mul_basic / fp3_muln_low, fp3_sqr_basic / fp3_sqrn_low (Chung–Hasan SQR3), fp3_inv, fp3_mul_art, fp3_mul_nor;
* every quadratic level over its sub-level (fp4, fp8, fp12, fp16, fp18, fp48 — the C bodies are the same up to the
  name of the multiplication by the adjoined root): `quadMul` (Karatsuba), `quadSqr` (complex squaring), `quadInv`,
  `quadArt`;
* every cubic level (fp6, fp9, fp24, fp54): `cubMul` (Karatsuba), `cubSqr` (Chung–Hasan SQR3 with the halving),
  `cubInv`, `cubArt`, `cubMulDxs` (fp6_mul_dxs / fp9_mul_dxs: third coefficient of b absent);
* fp12: fp12_mul_dxs_basic for both twist types (EP_ADD = PROJC/JACOB shape), fp12_sqr_cyc_basic (Granger–Scott),
  fp12_sqr_pck_basic (Karabina), fp12_back_cyc, fp12_conv_cyc, fp12_test_cyc, fp12_inv_cyc; fp8_sqr_cyc (= fp16_sqr_cyc
  one level up).
The lazy-reduction / unreduced variants (*_lazyr, *_unr, *_integ, fpN_*_low with dv accumulators) compute the same
polynomial expressions on double-precision accumulators and reduce once at the end; at the level of values they are
the same formula, and are modelled by the same definitions (their digit-level carry handling is compared with the
specification on the presented lines only).

No Mathlib.
-/
import RelicVerif.Model.FormulaBase

namespace Relic.Model.Fpx
open Relic.Model.Formula

structure V2 (E : Type) where
  c0 : E
  c1 : E
deriving Repr, BEq, Inhabited

structure V3 (E : Type) where
  c0 : E
  c1 : E
  c2 : E
deriving Repr, BEq, Inhabited

variable {E : Type}

/-- n-fold repetition of a loop body -/
def iter (f : E → E) : Nat → E → E
  | 0, x => x
  | n + 1, x => iter f n (f x)

/-- `for (int i = -1; i > q; i--)`: number of iterations -/
def negLoop (q : Int) : Nat := (-1 - q).toNat
/-- `for (int i = 1; i < q; i++)` -/
def posLoop (q : Int) : Nat := (q - 1).toNat
/-- `for (int i = 0; i >= c; i--)` -/
def negLoop0 (c : Int) : Nat := (1 - c).toNat
/-- `for (int i = 0; i <= q; i++)` -/
def posLoop0 (q : Int) : Nat := (q + 1).toNat
/-- `for (int i = 1; i <= c; i++)` -/
def posLoopLe (c : Int) : Nat := c.toNat
/-- `for (int i = -1; i >= c; i--)` -/
def negLoopGe (c : Int) : Nat := (-c).toNat

/-! ### fp2 over the prime field; q = fp_prime_get_qnr() -/

/-- fp2_mul_basic -/
def fp2Mul (o : FOps E) (q : Int) (a b : V2 E) : V2 E :=
  let t2 := o.add a.c0 a.c1
  let t1 := o.add b.c0 b.c1
  let t3 := o.mul t2 t1
  let t0 := o.mul a.c0 b.c0
  let t4 := o.mul a.c1 b.c1
  let t2 := o.add t0 t4
  let t1 := o.sub t0 t4
  let t1 := iter (fun x => o.sub x t4) (negLoop q) t1
  let t1 := iter (fun x => o.add x t4) (posLoop q) t1
  let t4 := o.sub t3 t2
  ⟨t1, t4⟩

/-- fp2_muln_low + fp2_rdcn_low (fp2_mul_integ): no loop for positive q -/
def fp2MulInteg (o : FOps E) (q : Int) (a b : V2 E) : V2 E :=
  let t0 := o.add a.c0 a.c1
  let t1 := o.add b.c0 b.c1
  let c0 := o.mul a.c0 b.c0
  let c1 := o.mul a.c1 b.c1
  let t2 := o.mul t0 t1
  let t0 := o.add c0 c1
  let c0 := o.sub c0 c1
  let c0 := iter (fun x => o.sub x c1) (negLoop q) c0
  let c1 := o.sub t2 t0
  ⟨c0, c1⟩

/-- fp2_sqr_basic -/
def fp2Sqr (o : FOps E) (q : Int) (a : V2 E) : V2 E :=
  let t0 := o.add a.c0 a.c1
  let t1 := o.sub a.c0 a.c1
  let t1 := iter (fun x => o.sub x a.c1) (negLoop q) t1
  let t1 := iter (fun x => o.add x a.c1) (posLoop q) t1
  if q = -1 then
    let t2 := o.dbl a.c0
    let c1 := o.mul t2 a.c1
    let c0 := o.mul t0 t1
    ⟨c0, c1⟩
  else
    let c1 := o.mul a.c0 a.c1
    let c0 := o.mul t0 t1
    let c0 := iter (fun x => o.add x c1) (negLoop q) c0
    let c0 := iter (fun x => o.add x c1) (posLoop q) c0
    let c1 := o.dbl c1
    ⟨c0, c1⟩

/-- fp2_sqrn_low + fp2_rdcn_low (fp2_sqr_integ), !FP_QNRES; for positive q the second correction subtracts -/
def fp2SqrInteg (o : FOps E) (q : Int) (a : V2 E) : V2 E :=
  let t0 := o.add a.c0 a.c1
  let t1 := o.sub a.c0 a.c1
  let t1 := iter (fun x => o.sub x a.c1) (negLoop q) t1
  let t1 := iter (fun x => o.add x a.c1) (posLoop q) t1
  if q = -1 then
    let t2 := o.dbl a.c0
    let c1 := o.mul t2 a.c1
    let c0 := o.mul t0 t1
    ⟨c0, c1⟩
  else
    let c1 := o.mul a.c0 a.c1
    let c0 := o.mul t0 t1
    let c0 := iter (fun x => o.add x c1) (negLoop q) c0
    let c0 := iter (fun x => o.sub x c1) (posLoop q) c0
    let c1 := o.add c1 c1
    ⟨c0, c1⟩

/-- fp_mul_dig(t, t, d) for a small positive d -/
def mulSmall (o : FOps E) (d : Nat) (x : E) : E := o.mul x (o.ofNat d)

/-- fp2_inv -/
def fp2Inv (o : FOps E) (q : Int) (a : V2 E) : V2 E :=
  let t0 := o.sqr a.c0
  let t1 := o.sqr a.c1
  let t0 :=
    if q ≠ -1 then
      if q = -2 then o.add t0 (o.dbl t1)
      else if q < 0 then o.add t0 (mulSmall o (-q).toNat t1)
      else o.sub t0 (mulSmall o q.toNat t1)
    else o.add t0 t1
  let t1 := o.inv t0
  let c0 := o.mul a.c0 t1
  let c1 := o.mul a.c1 t1
  ⟨c0, o.neg c1⟩

/-- fp2_mul_art: multiplication by the adjoined root i -/
def fp2MulArt (o : FOps E) (q : Int) (a : V2 E) : V2 E :=
  let t := a.c0
  let c0 := o.neg a.c1
  let c0 := iter (fun x => o.sub x a.c1) (negLoop q) c0
  let c0 := iter (fun x => o.add x a.c1) (posLoop0 q) c0
  ⟨c0, t⟩

def v2Add (o : FOps E) (a b : V2 E) : V2 E := ⟨o.add a.c0 b.c0, o.add a.c1 b.c1⟩
def v2Sub (o : FOps E) (a b : V2 E) : V2 E := ⟨o.sub a.c0 b.c0, o.sub a.c1 b.c1⟩
def v2Neg (o : FOps E) (a : V2 E) : V2 E := ⟨o.neg a.c0, o.neg a.c1⟩
def v2Dbl (o : FOps E) (a : V2 E) : V2 E := ⟨o.dbl a.c0, o.dbl a.c1⟩
def v2Hlv (o : FOps E) (a : V2 E) : V2 E := ⟨o.hlv a.c0, o.hlv a.c1⟩
def v3Add (o : FOps E) (a b : V3 E) : V3 E := ⟨o.add a.c0 b.c0, o.add a.c1 b.c1, o.add a.c2 b.c2⟩
def v3Sub (o : FOps E) (a b : V3 E) : V3 E := ⟨o.sub a.c0 b.c0, o.sub a.c1 b.c1, o.sub a.c2 b.c2⟩
def v3Neg (o : FOps E) (a : V3 E) : V3 E := ⟨o.neg a.c0, o.neg a.c1, o.neg a.c2⟩
def v3Dbl (o : FOps E) (a : V3 E) : V3 E := ⟨o.dbl a.c0, o.dbl a.c1, o.dbl a.c2⟩
def v3Hlv (o : FOps E) (a : V3 E) : V3 E := ⟨o.hlv a.c0, o.hlv a.c1, o.hlv a.c2⟩

/-- fp2_mul_nor_basic / fp2_norm_low: multiplication by the element ξ adjoined roots of which build fp4 / fp6 / fp12.
    `mod8` = p mod 8, `qnr2` = fp2_field_get_qnr(); FP_QNRES builds behave as mod8 = 3, qnr2 = 1.
    `none`: the default branch of the switch (ERR_NO_VALID) -/
def fp2MulNor (o : FOps E) (q : Int) (mod8 : Nat) (qnr2 : Nat) (a : V2 E) : Option (V2 E) :=
  let shifts := Nat.log2 qnr2            -- `while (qnr > 1) { dbl; qnr >>= 1; }`
  let general : V2 E :=
    let t := fp2MulArt o q a
    let c := iter (v2Dbl o) shifts a
    v2Add o c t
  match mod8 with
  | 1 | 5 => some (fp2MulArt o q a)
  | 3 =>
    if qnr2 = 1 then
      let t0 := o.neg a.c1
      let c1 := o.add a.c0 a.c1
      let c0 := o.add t0 a.c0
      some ⟨c0, c1⟩
    else some general
  | 7 => some general
  | _ => none

/-- the operation record of fp2, as the next levels use it -/
def fp2Ops (o : FOps E) (q : Int) : FOps (V2 E) where
  zero := ⟨o.zero, o.zero⟩
  one := ⟨o.one, o.zero⟩
  add := v2Add o
  sub := v2Sub o
  mul := fp2Mul o q
  neg := v2Neg o
  sqr := fp2Sqr o q
  dbl := v2Dbl o
  hlv := v2Hlv o
  inv := fp2Inv o q
  ofNat n := ⟨o.ofNat n, o.zero⟩
  isZero a := o.isZero a.c0 && o.isZero a.c1

/-! ### fp3 over the prime field; c = fp_prime_get_cnr() -/

/-- x ↦ c·x as the C loops compute it, starting from one copy of x:
    `for (i = 1; i < c; i++) acc += x;  for (i = 0; i >= c; i--) acc -= x;` -/
def mulCnr (o : FOps E) (c : Int) (x : E) (acc : E) : E :=
  iter (fun y => o.sub y x) (negLoop0 c) (iter (fun y => o.add y x) (posLoop c) acc)

/-- fp3_mul_basic / fp3_muln_low -/
def fp3Mul (o : FOps E) (c : Int) (a b : V3 E) : V3 E :=
  let t0 := o.mul a.c0 b.c0
  let t1 := o.mul a.c1 b.c1
  let t2 := o.mul a.c2 b.c2
  let t3 := o.add a.c1 a.c2
  let t4 := o.add b.c1 b.c2
  let t := o.mul t3 t4
  let t6 := o.add t1 t2
  let t4 := o.sub t t6
  let t3 := o.add t0 t4
  let t3 := mulCnr o c t4 t3
  let t4' := o.add a.c0 a.c1
  let t5 := o.add b.c0 b.c1
  let t := o.mul t4' t5
  let t4' := o.add t0 t1
  let t4' := o.sub t t4'
  let t4' := o.add t4' t2
  let t4' := mulCnr o c t2 t4'
  let t5 := o.add a.c0 a.c2
  let t6 := o.add b.c0 b.c2
  let t := o.mul t5 t6
  let t6 := o.add t0 t2
  let t5 := o.sub t t6
  let t5 := o.add t5 t1
  ⟨t3, t4', t5⟩

/-- fp3_sqr_basic / fp3_sqrn_low (Chung–Hasan SQR3) -/
def fp3Sqr (o : FOps E) (c : Int) (a : V3 E) : V3 E :=
  let t0 := o.sqr a.c0
  let t2 := o.dbl a.c1
  let t1 := o.mul t2 a.c2
  let t3 := o.add a.c0 a.c2
  let t4 := o.add t3 a.c1
  let t2 := o.sub t3 a.c1
  let t3 := o.sqr t4
  let t4 := o.sqr t2
  let t2 := o.sqr a.c2
  let t4 := o.add t4 t3
  let t4 := o.hlv t4
  let t3 := o.sub t3 t4
  let t3 := o.sub t3 t1
  let c2 := o.sub (o.sub t4 t0) t2
  -- fp3_sqrn_low: c0 = t0 + t1, then the two loops; fp3_sqr_basic: `for (i = 1; i <= cnr; …)` from t0 — same value
  let c0 := mulCnr o c t1 (o.add t0 t1)
  let c1 := mulCnr o c t2 (o.add t3 t2)
  ⟨c0, c1, c2⟩

/-- fp3_inv -/
def fp3Inv (o : FOps E) (c : Int) (a : V3 E) : V3 E :=
  let t0 := o.sqr a.c0
  let v0 := o.mul a.c1 a.c2
  let v2 := mulCnr o c v0 v0
  let v0 := o.sub t0 v2
  let t0 := o.sqr a.c2
  let v2 := mulCnr o c t0 t0
  let v1 := o.mul a.c0 a.c1
  let v1 := o.sub v2 v1
  let t0 := o.sqr a.c1
  let v2 := o.mul a.c0 a.c2
  let v2 := o.sub t0 v2
  let t0 := o.mul a.c1 v2
  let c1 := mulCnr o c t0 t0
  let c0 := o.mul a.c0 v0
  let t0 := o.mul a.c2 v1
  let c2 := mulCnr o c t0 t0
  let t0 := o.add c0 c1
  let t0 := o.add t0 c2
  let t0 := o.inv t0
  ⟨o.mul v0 t0, o.mul v1 t0, o.mul v2 t0⟩

/-- fp3_mul_art -/
def fp3MulArt (o : FOps E) (c : Int) (a : V3 E) : V3 E :=
  let t := a.c0
  let c0 := mulCnr o c a.c2 a.c2
  ⟨c0, t, a.c1⟩

/-- the doubling chain of fp3_mul_nor:  u = a; while (cnr > 1) { u = 2u; if (cnr & 1) u += a; cnr >>= 1; }
    (note: the low bit tested is that of the *current* cnr, before the shift) -/
def nor3Chain (o : FOps E) (a : V3 E) : Nat → Nat → V3 E → V3 E
  | 0, _, u => u
  | fuel + 1, cnr, u =>
    if cnr > 1 then
      let u := v3Dbl o u
      let u := if cnr % 2 = 1 then v3Add o u a else u
      nor3Chain o a fuel (cnr / 2) u
    else u

/-- fp3_mul_nor; `cnr3` = fp3_field_get_cnr(), `mod18` = p mod 18 -/
def fp3MulNor (o : FOps E) (c : Int) (mod18 : Nat) (cnr3 : Int) (a : V3 E) : V3 E :=
  let t := fp3MulArt o c a
  if (mod18 = 1 ∨ mod18 = 7) ∧ cnr3 ≠ 0 then
    let u := nor3Chain o a 64 cnr3.natAbs a
    if cnr3 > 0 then v3Add o t u else v3Sub o t u
  else t

def fp3Ops (o : FOps E) (c : Int) : FOps (V3 E) where
  zero := ⟨o.zero, o.zero, o.zero⟩
  one := ⟨o.one, o.zero, o.zero⟩
  add := v3Add o
  sub := v3Sub o
  mul := fp3Mul o c
  neg := v3Neg o
  sqr := fp3Sqr o c
  dbl := v3Dbl o
  hlv := v3Hlv o
  inv := fp3Inv o c
  ofNat n := ⟨o.ofNat n, o.zero, o.zero⟩
  isZero a := o.isZero a.c0 && o.isZero a.c1 && o.isZero a.c2

/-! ### a quadratic level over its sub-level; `nor` multiplies by the element whose square root is adjoined
(fp2_mul_nor for fp4, fpK_mul_art for fp8 / fp12 / fp16 / fp18 / fp48) -/

/-- fp4_mul_basic, fp8_mul_basic, fp12_mul_basic, fp16_…, fp18_…, fp48_… (Karatsuba) -/
def quadMul (o : FOps E) (nor : E → E) (a b : V2 E) : V2 E :=
  let t0 := o.mul a.c0 b.c0
  let t1 := o.mul a.c1 b.c1
  let t2 := o.add b.c0 b.c1
  let c1 := o.add a.c0 a.c1
  let c1 := o.mul c1 t2
  let c1 := o.sub c1 t0
  let c1 := o.sub c1 t1
  let t2 := nor t1
  let c0 := o.add t0 t2
  ⟨c0, c1⟩

/-- fp4_sqr_basic, … (complex squaring) -/
def quadSqr (o : FOps E) (nor : E → E) (a : V2 E) : V2 E :=
  let t0 := o.add a.c0 a.c1
  let t1 := nor a.c1
  let t1 := o.add a.c0 t1
  let t0 := o.mul t0 t1
  let c1 := o.mul a.c0 a.c1
  let c0 := o.sub t0 c1
  let t1 := nor c1
  let c0 := o.sub c0 t1
  let c1 := o.dbl c1
  ⟨c0, c1⟩

/-- fp4_sqr_unr (the squaring used inside the compressed / cyclotomic squarings): a0² + ν a1², (a0+a1)² − a0² − a1² -/
def quadSqrUnr (o : FOps E) (nor : E → E) (a : V2 E) : V2 E :=
  let u0 := o.sqr a.c0
  let u1 := o.sqr a.c1
  let t := o.add a.c0 a.c1
  let c0 := o.add (nor u1) u0
  let u1 := o.add u1 u0
  let c1 := o.sub (o.sqr t) u1
  ⟨c0, c1⟩

/-- fp4_inv, fp8_inv, fp12_inv, … -/
def quadInv (o : FOps E) (nor : E → E) (a : V2 E) : V2 E :=
  let t0 := o.sqr a.c0
  let t1 := o.sqr a.c1
  let t1 := nor t1
  let t0 := o.sub t0 t1
  let t0 := o.inv t0
  let c0 := o.mul a.c0 t0
  let c1 := o.neg a.c1
  let c1 := o.mul c1 t0
  ⟨c0, c1⟩

/-- fp4_mul_art, fp8_mul_art, fp12_mul_art, …: multiplication by the adjoined root -/
def quadArt (nor : E → E) (a : V2 E) : V2 E := ⟨nor a.c1, a.c0⟩

/-- fpN_inv_cyc of a quadratic top level: the conjugate -/
def quadConj (o : FOps E) (a : V2 E) : V2 E := ⟨a.c0, o.neg a.c1⟩

def quadOps (o : FOps E) (nor : E → E) : FOps (V2 E) where
  zero := ⟨o.zero, o.zero⟩
  one := ⟨o.one, o.zero⟩
  add := v2Add o
  sub := v2Sub o
  mul := quadMul o nor
  neg := v2Neg o
  sqr := quadSqr o nor
  dbl := v2Dbl o
  hlv := v2Hlv o
  inv := quadInv o nor
  ofNat n := ⟨o.ofNat n, o.zero⟩
  isZero a := o.isZero a.c0 && o.isZero a.c1

/-! ### a cubic level over its sub-level (fp6 and fp9 with fpK_mul_nor, fp24 and fp54 with fpK_mul_art) -/

/-- fp6_mul_basic, fp9_mul_basic, fp24_mul_basic, fp54_mul_basic (Karatsuba) -/
def cubMul (o : FOps E) (nor : E → E) (a b : V3 E) : V3 E :=
  let v0 := o.mul a.c0 b.c0
  let v1 := o.mul a.c1 b.c1
  let v2 := o.mul a.c2 b.c2
  let t0 := o.add a.c1 a.c2
  let t1 := o.add b.c1 b.c2
  let t2 := o.mul t0 t1
  let t2 := o.sub t2 v1
  let t2 := o.sub t2 v2
  let t0 := nor t2
  let t2 := o.add t0 v0
  let t0 := o.add a.c0 a.c1
  let t1 := o.add b.c0 b.c1
  let c1 := o.mul t0 t1
  let c1 := o.sub c1 v0
  let c1 := o.sub c1 v1
  let t0 := nor v2
  let c1 := o.add c1 t0
  let t0 := o.add a.c0 a.c2
  let t1 := o.add b.c0 b.c2
  let c2 := o.mul t0 t1
  let c2 := o.sub c2 v0
  let c2 := o.add c2 v1
  let c2 := o.sub c2 v2
  ⟨t2, c1, c2⟩

/-- fp6_sqr_basic, fp9_sqr_basic, fp24_sqr_basic, fp54_sqr_basic (Chung–Hasan SQR3; `o.hlv` halves every base-field
    coordinate) -/
def cubSqr (o : FOps E) (nor : E → E) (a : V3 E) : V3 E :=
  let t0 := o.sqr a.c0
  let t1 := o.mul a.c1 a.c2
  let t1 := o.dbl t1
  let t2 := o.sqr a.c2
  let c2 := o.add a.c0 a.c2
  let t3 := o.add c2 a.c1
  let t3 := o.sqr t3
  let c2 := o.sub c2 a.c1
  let c2 := o.sqr c2
  let c2 := o.add c2 t3
  let c2 := o.hlv c2
  let t3 := o.sub t3 c2
  let t3 := o.sub t3 t1
  let c2 := o.sub c2 t0
  let c2 := o.sub c2 t2
  let t4 := nor t1
  let c0 := o.add t0 t4
  let t4 := nor t2
  let c1 := o.add t3 t4
  ⟨c0, c1, c2⟩

/-- fp6_inv, fp9_inv, fp24_inv, fp54_inv -/
def cubInv (o : FOps E) (nor : E → E) (a : V3 E) : V3 E :=
  let t0 := o.sqr a.c0
  let v0 := o.mul a.c1 a.c2
  let v2 := nor v0
  let v0 := o.sub t0 v2
  let t0 := o.sqr a.c2
  let v2 := nor t0
  let v1 := o.mul a.c0 a.c1
  let v1 := o.sub v2 v1
  let t0 := o.sqr a.c1
  let v2 := o.mul a.c0 a.c2
  let v2 := o.sub t0 v2
  let t0 := o.mul a.c1 v2
  let c1 := nor t0
  let c0 := o.mul a.c0 v0
  let t0 := o.mul a.c2 v1
  let c2 := nor t0
  let t0 := o.add c0 c1
  let t0 := o.add t0 c2
  let t0 := o.inv t0
  ⟨o.mul v0 t0, o.mul v1 t0, o.mul v2 t0⟩

/-- fp6_mul_art, fp9_mul_art, … -/
def cubArt (nor : E → E) (a : V3 E) : V3 E := ⟨nor a.c2, a.c0, a.c1⟩

/-- fp6_mul_dxs, fp9_mul_dxs: b.c2 is not read (taken as zero) -/
def cubMulDxs (o : FOps E) (nor : E → E) (a b : V3 E) : V3 E :=
  let v0 := o.mul a.c0 b.c0
  let v1 := o.mul a.c1 b.c1
  let t0 := o.add a.c1 a.c2
  let t0 := o.mul t0 b.c1
  let t0 := o.sub t0 v1
  let t2 := nor t0
  let t2 := o.add t2 v0
  let t0 := o.add a.c0 a.c1
  let t1 := o.add b.c0 b.c1
  let c1 := o.mul t0 t1
  let c1 := o.sub c1 v0
  let c1 := o.sub c1 v1
  let t0 := o.add a.c0 a.c2
  let c2 := o.mul t0 b.c0
  let c2 := o.sub c2 v0
  let c2 := o.add c2 v1
  ⟨t2, c1, c2⟩

def cubOps (o : FOps E) (nor : E → E) : FOps (V3 E) where
  zero := ⟨o.zero, o.zero, o.zero⟩
  one := ⟨o.one, o.zero, o.zero⟩
  add := v3Add o
  sub := v3Sub o
  mul := cubMul o nor
  neg := v3Neg o
  sqr := cubSqr o nor
  dbl := v3Dbl o
  hlv := v3Hlv o
  inv := cubInv o nor
  ofNat n := ⟨o.ofNat n, o.zero, o.zero⟩
  isZero a := o.isZero a.c0 && o.isZero a.c1 && o.isZero a.c2

/-! ### fp12 = fp6[w]/(w² − v), fp6 = fp2[v]/(v³ − ξ): the specialised forms. `o` are the fp2 operations, `nor` = fp2_mul_nor -/

abbrev Fp12 (E : Type) := V2 (V3 E)

inductive Twist where
  | dtype | mtype
deriving Repr, DecidableEq, Inhabited

/-- fp12_mul_dxs_basic, EP_ADD = PROJC / JACOB. The sparse operand b has
    D-type: b[0] = (b00, 0, 0), b[1] = (b10, b11, 0);  M-type: b[0] = (b00, b01, 0), b[1] = (0, b11, 0);
    the other coefficients of b are not read -/
def fp12MulDxs (o : FOps E) (nor : E → E) (tw : Twist) (a b : Fp12 E) : Fp12 E :=
  let o6 := cubOps o nor
  let (t0, t1, t2) : V3 E × V3 E × V3 E :=
    match tw with
    | .dtype =>
      let t0 : V3 E := ⟨o.mul a.c0.c0 b.c0.c0, o.mul a.c0.c1 b.c0.c0, o.mul a.c0.c2 b.c0.c0⟩
      -- t2[2] is never written: the C code multiplies with fp6_mul_dxs, which does not read it
      let t2 : V3 E := ⟨o.add b.c0.c0 b.c1.c0, b.c1.c1, o.zero⟩
      let t1 := cubMulDxs o nor a.c1 b.c1
      (t0, t1, t2)
    | .mtype =>
      let t0 := cubMulDxs o nor a.c0 b.c0
      let t20 := o.mul a.c1.c2 b.c1.c1
      let t1 : V3 E := ⟨nor t20, o.mul a.c1.c0 b.c1.c1, o.mul a.c1.c1 b.c1.c1⟩
      let t2 : V3 E := ⟨b.c0.c0, o.add b.c0.c1 b.c1.c1, o.zero⟩
      (t0, t1, t2)
  let c1 := o6.add a.c0 a.c1
  let c1 := cubMulDxs o nor c1 t2
  let c1 := o6.sub c1 t0
  let c1 := o6.sub c1 t1
  let t1 := cubArt nor t1
  let c0 := o6.add t0 t1
  ⟨c0, c1⟩

/-- fp12_sqr_cyc_basic (Granger–Scott) -/
def fp12SqrCyc (o : FOps E) (nor : E → E) (a : Fp12 E) : Fp12 E :=
  let t2 := o.sqr a.c0.c0
  let t3 := o.sqr a.c1.c1
  let t1 := o.add a.c0.c0 a.c1.c1
  let t0 := nor t3
  let t0 := o.add t0 t2
  let t1 := o.sqr t1
  let t1 := o.sub t1 t2
  let t1 := o.sub t1 t3
  let c00 := o.sub t0 a.c0.c0
  let c00 := o.add c00 c00
  let c00 := o.add t0 c00
  let c11 := o.add t1 a.c1.c1
  let c11 := o.add c11 c11
  let c11 := o.add t1 c11
  let t0 := o.sqr a.c0.c1
  let t1 := o.sqr a.c1.c2
  let t5 := o.add a.c0.c1 a.c1.c2
  let t2 := o.sqr t5
  let t3 := o.add t0 t1
  let t5 := o.sub t2 t3
  let t6 := o.add a.c1.c0 a.c0.c2
  let t3 := o.sqr t6
  let t2 := o.sqr a.c1.c0
  let t6 := nor t5
  let t5 := o.add t6 a.c1.c0
  let t5 := o.dbl t5
  let c10 := o.add t5 t6
  let t4 := nor t1
  let t5 := o.add t0 t4
  let t6 := o.sub t5 a.c0.c2
  let t1 := o.sqr a.c0.c2
  let t6 := o.dbl t6
  let c02 := o.add t6 t5
  let t4 := nor t1
  let t5 := o.add t2 t4
  let t6 := o.sub t5 a.c0.c1
  let t6 := o.dbl t6
  let c01 := o.add t6 t5
  let t0 := o.add t2 t1
  let t5 := o.sub t3 t0
  let t6 := o.add t5 a.c1.c2
  let t6 := o.dbl t6
  let c12 := o.add t5 t6
  ⟨⟨c00, c01, c02⟩, ⟨c10, c11, c12⟩⟩

/-- fp12_sqr_pck_basic (Karabina): only c[0][1], c[0][2], c[1][0], c[1][2] are written; the other two coefficients of
    the destination keep their previous content (`c` = destination before the call) -/
def fp12SqrPck (o : FOps E) (nor : E → E) (c a : Fp12 E) : Fp12 E :=
  let t0 := o.sqr a.c0.c1
  let t1 := o.sqr a.c1.c2
  let t5 := o.add a.c0.c1 a.c1.c2
  let t2 := o.sqr t5
  let t3 := o.add t0 t1
  let t5 := o.sub t2 t3
  let t6 := o.add a.c1.c0 a.c0.c2
  let t3 := o.sqr t6
  let t2 := o.sqr a.c1.c0
  let t6 := nor t5
  let t5 := o.add t6 a.c1.c0
  let t5 := o.dbl t5
  let c10 := o.add t5 t6
  let t4 := nor t1
  let t5 := o.add t0 t4
  let t6 := o.sub t5 a.c0.c2
  let t1 := o.sqr a.c0.c2
  let t6 := o.dbl t6
  let c02 := o.add t6 t5
  let t4 := nor t1
  let t5 := o.add t2 t4
  let t6 := o.sub t5 a.c0.c1
  let t6 := o.dbl t6
  let c01 := o.add t6 t5
  let t0 := o.add t2 t1
  let t5 := o.sub t3 t0
  let t6 := o.add t5 a.c1.c2
  let t6 := o.dbl t6
  let c12 := o.add t5 t6
  ⟨⟨c.c0.c0, c01, c02⟩, ⟨c10, c.c1.c1, c12⟩⟩

/-- fp12_back_cyc AS IT WAS BEFORE THE REPAIR of findings C10-F3 / C10-F8 (kept for the record: Lemmas/Fpx.lean states what
    this formula computes in the exceptional branch); `isOne` = (fp12_cmp_dig(a, 1) == RLC_EQ) evaluated on the whole input.
    Not the code of /repo any more. -/
def fp12BackCycOld (o : FOps E) (nor : E → E) (isOne : Bool) (a : Fp12 E) : Fp12 E :=
  let f := o.isZero a.c1.c0
  let t2 := if f then a.c1.c2 else a.c0.c1
  let t0 := o.mul a.c0.c1 t2
  let t2 := o.dbl t0
  let t0 := if f then t2 else t0
  let t1 := o.sub t0 a.c0.c2
  let t1 := o.dbl t1
  let t1 := o.add t1 t0
  let t2 := o.sqr a.c1.c2
  let t0 := nor t2
  let t0 := o.add t0 t1
  let t1 := o.dbl a.c1.c0
  let t1 := o.dbl t1
  let t1 := if f then a.c0.c2 else t1
  let t1 := if isOne then o.one else t1
  let t1 := o.inv t1
  let c11 := o.mul t0 t1
  let t1 := o.mul a.c0.c2 a.c0.c1
  let t2 := o.sqr c11
  let t2 := o.sub t2 t1
  let t2 := o.dbl t2
  let t2 := o.sub t2 t1
  let t1 := o.mul a.c1.c0 a.c1.c2
  let t2 := o.add t2 t1
  let c00 := nor t2
  let c00 := o.add c00 o.one      -- fp_add_dig(c[0][0][0], c[0][0][0], 1)
  ⟨⟨c00, a.c0.c1, a.c0.c2⟩, ⟨a.c1.c0, c11, a.c1.c2⟩⟩

/-- fp12_back_cyc (decompression): in the exceptional branch g2 = 0 the numerator stays 2·g4·g5, and the identity is recognised
    by its compressed form (all four retained coefficients zero). Regenerated from the C text (Gen/Fpx.lean, `rfl`). -/
def fp12BackCyc (o : FOps E) (nor : E → E) (a : Fp12 E) : Fp12 E :=
  let f := o.isZero a.c1.c0
  let t2 := if f then a.c1.c2 else a.c0.c1
  let t0 := o.mul a.c0.c1 t2
  let t2 := o.dbl t0
  let t0 := if f then t2 else t0
  let t1 := o.sub t0 a.c0.c2
  let t1 := o.dbl t1
  let t1 := o.add t1 t0
  let t2 := o.sqr a.c1.c2
  let t2 := nor t2
  let t2 := o.add t2 t1
  let t0 := if f then t0 else t2
  let t1 := o.dbl a.c1.c0
  let t1 := o.dbl t1
  let t1 := if f then a.c0.c2 else t1
  let isId := o.isZero a.c1.c0 && o.isZero a.c0.c2 && o.isZero a.c0.c1 && o.isZero a.c1.c2
  let t1 := if isId then o.one else t1
  let t1 := o.inv t1
  let c11 := o.mul t0 t1
  let t1 := o.mul a.c0.c2 a.c0.c1
  let t2 := o.sqr c11
  let t2 := o.sub t2 t1
  let t2 := o.dbl t2
  let t2 := o.sub t2 t1
  let t1 := o.mul a.c1.c0 a.c1.c2
  let t2 := o.add t2 t1
  let c00 := nor t2
  let c00 := o.add c00 o.one
  ⟨⟨c00, a.c0.c1, a.c0.c2⟩, ⟨a.c1.c0, c11, a.c1.c2⟩⟩

/-- fp8_sqr_cyc / fp16_sqr_cyc: squaring of a unitary element of a quadratic level (o = operations of the sub-level,
    nor = multiplication by the adjoined square) -/
def quadSqrCyc (o : FOps E) (nor : E → E) (a : V2 E) : V2 E :=
  let t0 := o.sqr a.c1
  let t1 := o.add a.c0 a.c1
  let t2 := o.sqr t1
  let t2 := o.sub t2 t0
  let c0 := nor t0
  let c1 := o.sub t2 c0
  let c0 := o.dbl c0
  let c0 := o.add c0 o.one
  let c1 := o.sub c1 o.one
  ⟨c0, c1⟩

/-! ### loops shared by all levels -/

/-- fpN_exp (the plain branch): left-to-right square-and-multiply over the bits below the top one;
    `bits` most significant first, the top bit (1) removed -/
def expBin (o : FOps E) (a : E) (bits : List Bool) : E :=
  bits.foldl (fun t b => let t := o.sqr t; if b then o.mul t a else t) a

/-- fpN_inv_sim (Montgomery's trick): c[i] = a[0]·…·a[i]; u = 1/c[n-1]; for i = n-1 … 1: c[i] = c[i-1]·u, u = u·a[i];
    c[0] = u -/
def invSimPrefix (o : FOps E) : E → List E → List E
  | _, [] => []
  | acc, x :: xs => let acc := o.mul acc x; acc :: invSimPrefix o acc xs

/-- prefixes (last first) and inputs (last first); returns the inverses, first element first -/
def invSimBack (o : FOps E) : List E → List E → E → List E
  | _ :: q :: ps, x :: xs, u => invSimBack o (q :: ps) xs (o.mul u x) ++ [o.mul q u]
  | [_], _, u => [u]
  | _, _, _ => []

def invSim (o : FOps E) (as : List E) : List E :=
  match as with
  | [] => []
  | x :: xs =>
    let pref := x :: invSimPrefix o x xs
    let u := o.inv (pref.getLastD x)
    invSimBack o pref.reverse as.reverse u

end Relic.Model.Fpx
