/-
Model of src/md/sha224-256.c (the RFC 6234 streaming implementation) as used by md_map_sh256:
SHA256Reset / SHA256Input (byte-at-a-time buffering, Message_Block_Index, 64-bit bit-length counter) /
SHA256Result (PadMessage with its two cases). The block function is the spec's `compress`
(same bit operations; its tie to the C code is the correspondence run).
-/
import RelicVerif.Spec.Sha256

namespace Relic.Model.Sha256
open Relic.Spec.Sha256

structure Ctx where
  h : List UInt32          -- Intermediate_Hash
  lenBits : Nat            -- Length_High:Length_Low
  block : List UInt8       -- Message_Block[0 .. Message_Block_Index)
  computed : Bool
  corrupted : Bool

def reset : Ctx := { h := H0, lenBits := 0, block := [], computed := false, corrupted := false }

/-- SHA224_256ProcessMessageBlock -/
def processBlock (c : Ctx) : Ctx := { c with h := compress c.h c.block, block := [] }

/-- one iteration of the `while (length--)` loop of SHA256Input -/
def inputByte (c : Ctx) (b : UInt8) : Ctx :=
  if c.corrupted then c else
  let c := { c with block := c.block ++ [b] }
  -- SHA224_256AddLength(context, 8)
  let len' := c.lenBits + 8
  if len' ≥ 2 ^ 64 then { c with lenBits := len' % 2 ^ 64, corrupted := true }
  else
    let c := { c with lenBits := len' }
    if c.block.length = 64 then processBlock c else c

/-- SHA256Input -/
def input (c : Ctx) (msg : List UInt8) : Ctx :=
  if msg.isEmpty then c
  else if c.computed then { c with corrupted := true }
  else if c.corrupted then c
  else msg.foldl inputByte c

/-- SHA224_256PadMessage + Finalize -/
def padMessage (c : Ctx) : Ctx :=
  let c :=
    if c.block.length ≥ 56 then
      let blk := c.block ++ [0x80]
      let blk := blk ++ List.replicate (64 - blk.length) 0
      processBlock { c with block := blk }
    else { c with block := c.block ++ [0x80] }
  let blk := c.block ++ List.replicate (56 - c.block.length) 0
  let blk := blk ++ beBytes c.lenBits 8
  let c := processBlock { c with block := blk }
  { c with lenBits := 0, computed := true }

/-- SHA256Result: none = error (corrupted context) -/
def result (c : Ctx) : Option (List UInt8) :=
  if c.corrupted then none
  else
    let c := if c.computed then c else padMessage c
    some (digestBytes c.h)

/-- md_map_sh256 -/
def mdMap (msg : List UInt8) : Option (List UInt8) := result (input reset msg)

/-- the streaming API driven with an arbitrary chunking -/
def mdMapChunks (chunks : List (List UInt8)) : Option (List UInt8) := result (chunks.foldl input reset)

end Relic.Model.Sha256
