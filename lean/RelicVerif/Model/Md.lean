/-
Models of src/md/relic_md_hmac.c (md_hmac), src/md/relic_md_kdf.c (nist_kdf, md_kdf, md_mgf) and
src/md/relic_md_xmd.c (md_xmd_*: the streaming Reset/Input/Result calls with their chunking).
-/
import RelicVerif.Spec.Mac
import RelicVerif.Model.Sha256
import RelicVerif.Model.ShaStream

namespace Relic.Model.Md
open Relic.Spec.Mac (Bytes Hash be32)

/-- md_hmac: key > block ⇒ hashed; then copied and zero-padded to the block; ipad/opad buffers -/
def mdHmac (H : Hash) (inp key : Bytes) : Bytes :=
  let key1 := if key.length > H.blockLen then H.h key else key
  let key2 := if key1.length ≤ H.blockLen then key1 ++ List.replicate (H.blockLen - key1.length) 0 else key1
  let opad := (List.range H.blockLen).map fun i => (0x5C : UInt8) ^^^ key2.getD i 0
  let ipad := (List.range H.blockLen).map fun i => (0x36 : UInt8) ^^^ key2.getD i 0
  let inner := H.h (ipad ++ inp)
  H.h (opad ++ inner)

/-- nist_kdf: loop i = value .. d + value - 1 with the full-block / last-partial-block split -/
def nistKdfLoop (H : Hash) (inp : Bytes) (keyLen : Nat) : Nat → Nat → Bytes → Bytes
  | 0, _, acc => acc
  | n + 1, i, acc =>
    let h := H.h (inp ++ be32 (i % 2 ^ 32))
    if acc.length + H.outLen ≤ keyLen then nistKdfLoop H inp keyLen n (i + 1) (acc ++ h)
    else
      -- memcpy(key + out_len, hash, key_len - out_len); out_len is not advanced
      let acc' := acc.take acc.length ++ h.take (keyLen - acc.length)
      nistKdfLoop H inp keyLen n (i + 1) acc'

def nistKdf (H : Hash) (keyLen : Nat) (inp : Bytes) (value : Nat) : Bytes :=
  let d := (keyLen + H.outLen - 1) / H.outLen
  nistKdfLoop H inp keyLen d value []

def mdMgf (H : Hash) (keyLen : Nat) (inp : Bytes) : Bytes := nistKdf H keyLen inp 0
def mdKdf (H : Hash) (keyLen : Nat) (inp : Bytes) : Bytes := nistKdf H keyLen inp 1

/-- a streaming hash API: the chunks are fed one Input call each -/
structure Stream where
  run : List Bytes → Option Bytes    -- Reset; Input c₁; …; Input cₙ; Result
  outLen : Nat
  blockLen : Nat

/-- md_xmd_*: none = ERR_NO_VALID -/
def mdXmd (S : Stream) (bufLen : Nat) (inp dst : Bytes) : Option Bytes := do
  let ell := (bufLen + S.outLen - 1) / S.outLen
  if ell > 255 ∨ dst.length > 255 then none
  let zPad := List.replicate S.blockLen (0 : UInt8)
  let lib0 : Bytes := [UInt8.ofNat (bufLen / 256), UInt8.ofNat (bufLen % 256), 0, UInt8.ofNat dst.length]
  let dstLenStr : Bytes := [UInt8.ofNat dst.length]
  let b0 ← S.run [zPad, inp, lib0.take 3, dst, dstLenStr]
  -- b_i starts as zeros; for i = 1..ell: b_i[j] = b_0[j] ^ b_i[j]; b_i[HHashSize] = i
  let rec loop (n i : Nat) (bi : Bytes) (buf : Bytes) : Option Bytes :=
    match n with
    | 0 => some buf
    | n + 1 => do
      let x := (List.range S.outLen).map fun j => b0.getD j 0 ^^^ bi.getD j 0
      let bi' ← S.run [x ++ [UInt8.ofNat i], dst, dstLenStr]
      -- copy_len = HHashSize + min(0, buf_len - i*HHashSize)
      let copyLen := if bufLen < i * S.outLen then S.outLen - (i * S.outLen - bufLen) else S.outLen
      loop n (i + 1) bi' (buf ++ bi'.take copyLen)
  loop ell 1 (List.replicate S.outLen 0) []

def sha256Stream : Stream := { run := Sha256.mdMapChunks, outLen := 32, blockLen := 64 }
/-- md_xmd_sh224 / sh384 / sh512 call SHA*Reset / Input / Result of sha224-256.c resp. sha384-512.c -/
def sha224Stream : Stream := { run := ShaStream.run ShaStream.sha224P, outLen := 28, blockLen := 64 }
def sha384Stream : Stream := { run := ShaStream.run ShaStream.sha384P, outLen := 48, blockLen := 128 }
def sha512Stream : Stream := { run := ShaStream.run ShaStream.sha512P, outLen := 64, blockLen := 128 }

end Relic.Model.Md
