/-
bn_smb_jac (src/bn/relic_bn_smb.c): Pornin's binary Jacobi algorithm in Vambol's optimized form.  Value-level model that mirrors the
C function: t0 = a mod b, t1 = b, t = 0 (only bit 1 of t is read at the end); every outer iteration either
  * (both operands fit one digit) runs the exact single-digit binary loop `single`, or
  * builds one-digit approximations n, d from the top digit(s) and the exact low half digit, runs s = w/2 - 2 steps of the same loop on
    the approximations while recording the 2x2 matrix (ai bi; ci di) of the steps (`inner`), applies the matrix to the true values,
    shifts by s (bn_rsh = magnitude shift = truncation toward zero) and repairs the signs (t ^= low digit of |t1| when t0 was negative).
The digit layer (bn_mod_basic, bn_mul_dig, bn_add, bn_rsh, bn_neg) is proved exact in C01, so it appears here as Int arithmetic.
No Mathlib.
-/
namespace Relic.Model.NtSmb

/-- number of trailing zero bits (0 for 0) -/
def tz (n : Nat) : Nat :=
  if h : n = 0 then 0 else if n % 2 = 0 then tz (n / 2) + 1 else 0
decreasing_by omega

theorem tz_pos {n : Nat} (h0 : n ≠ 0) (he : n % 2 = 0) : 1 ≤ tz n := by
  unfold tz
  simp [h0, he]

theorem shiftRight_tz_lt {n : Nat} (h0 : n ≠ 0) (he : n % 2 = 0) : n >>> tz n < n := by
  have h1 := tz_pos h0 he
  rw [Nat.shiftRight_eq_div_pow]
  exact Nat.div_lt_self (Nat.pos_of_ne_zero h0) (Nat.one_lt_two_pow (by omega))

/-- arch_tzcnt / arch_lzcnt on a w-bit digit (both return w for 0 in the two configurations built) -/
def tzcnt (w n : Nat) : Nat := if n = 0 then w else tz n
def lzcnt (w x : Nat) : Nat := if x = 0 then w else w - 1 - Nat.log2 x

/-- The single-digit loop of the `i == 1` path, on unbounded naturals (in C: n, d, t are digits; no operation can wrap since
    n - d is only formed for n ≥ d).  Returns the final (d, t).
    ```
    while (n != 0) {
      if (n & 1) { if (n < d) { SWAP(n, d); t ^= (n & d); }  n = (n - d) >> 1;  t ^= d ^ (d >> 1); }
      else { z = tzcnt(n); t ^= (d ^ (d >> 1)) & (z << 1); n >>= z; }
    }
    ``` -/
def single (n d t : Nat) : Nat × Nat :=
  if h0 : n = 0 then (d, t)
  else if h1 : n % 2 = 1 then
    if hlt : n < d then
      -- swap: the new (n, d) is (d, n)
      single ((d - n) >>> 1) n ((t ^^^ (d &&& n)) ^^^ (n ^^^ (n >>> 1)))
    else
      single ((n - d) >>> 1) d (t ^^^ (d ^^^ (d >>> 1)))
  else
    single (n >>> tz n) d (t ^^^ ((d ^^^ (d >>> 1)) &&& (tz n <<< 1)))
termination_by n + d
decreasing_by
  · simp only [Nat.shiftRight_eq_div_pow]; omega
  · simp only [Nat.shiftRight_eq_div_pow]; omega
  · have := shiftRight_tz_lt h0 (by omega); omega

/-- `r = (d == 1 ? 1 - (t & 2) : 0)` -/
def finish (d t : Nat) : Int := if d = 1 then 1 - ((t &&& 2 : Nat) : Int) else 0

/-- the whole `i == 1` path -/
def jacSingle (n d t : Nat) : Int := finish (single n d t).1 (single n d t).2

/-- did the single-digit loop take the swap branch (coverage label only) -/
def singleSwaps (n d : Nat) : Bool :=
  if h0 : n = 0 then false
  else if h1 : n % 2 = 1 then
    if hlt : n < d then true
    else singleSwaps ((n - d) >>> 1) d
  else singleSwaps (n >>> tz n) d
termination_by n + d
decreasing_by
  · simp only [Nat.shiftRight_eq_div_pow]; omega
  · have := shiftRight_tz_lt h0 (by omega); omega

/-- reinterpretation of a machine word as dis_t (two's complement) -/
def wrapS (w : Nat) (x : Int) : Int :=
  let y := x % (2 : Int) ^ w
  if y ≥ (2 : Int) ^ (w - 1) then y - (2 : Int) ^ w else y

structure Inner where
  n : Nat
  d : Nat
  t : Nat
  ai : Int
  bi : Int
  ci : Int
  di : Int
  swapped : Bool
  deriving Repr

/-- the s approximation steps; `i` = steps left (the C variable i), fuel ≥ i (each iteration uses up at least one step) -/
def inner (w : Nat) : Nat → Nat → Inner → Inner
  | 0, _, st => st
  | fuel + 1, i, st =>
    if i = 0 then st else
    if st.n % 2 = 1 then
      let st := if st.n < st.d then
          { st with ai := st.ci, ci := st.ai, bi := st.di, di := st.bi, n := st.d, d := st.n, t := st.t ^^^ (st.d &&& st.n), swapped := true }
        else st
      inner w fuel (i - 1) { st with
        n := (st.n - st.d) >>> 1
        ai := wrapS w (st.ai - st.ci)
        bi := wrapS w (st.bi - st.di)
        ci := wrapS w (st.ci + st.ci)
        di := wrapS w (st.di + st.di)
        t := st.t ^^^ (st.d ^^^ (st.d >>> 1)) }
    else
      let z := min i (tzcnt w st.n)
      inner w fuel (i - z) { st with
        t := st.t ^^^ ((st.d ^^^ (st.d >>> 1)) &&& (z <<< 1))
        ci := wrapS w (st.ci * (2 : Int) ^ z)
        di := wrapS w (st.di * (2 : Int) ^ z)
        n := st.n >>> z }

/-- number of digits of a normalized bn (zero has one digit) -/
def used (w x : Nat) : Nat := if x = 0 then 1 else Nat.log2 x / w + 1

def dig (w x k : Nat) : Nat := (x >>> (w * k)) % 2 ^ w

def lmask (w : Nat) : Nat := 2 ^ (w / 2) - 1
def hmask (w : Nat) : Nat := lmask w <<< (w / 2)

structure Trace where
  iters : Nat := 0
  singlePath : Bool := false
  swapped : Bool := false
  zBig : Bool := false
  neg0 : Bool := false
  neg1 : Bool := false
  deriving Repr

/-- the approximation words of one outer iteration (i = max(used t0, used t1) ≥ 2) -/
def approx (w t0 t1 i : Nat) : Nat × Nat × Nat :=
  let top0 := dig w t0 (i - 1)
  let top1 := dig w t1 (i - 1)
  let z := min (lzcnt w top0) (lzcnt w top1)
  let n := (top0 <<< z) % 2 ^ w
  let d := (top1 <<< z) % 2 ^ w
  -- `if (z > (RLC_DIG >> 1))` as coded (the next digit is shifted right by z)
  let n := if z > w / 2 then n ||| (dig w t0 (i - 2) >>> z) else n
  let d := if z > w / 2 then d ||| (dig w t1 (i - 2) >>> z) else d
  let n := (n &&& hmask w) ||| (dig w t0 0 &&& lmask w)
  let d := (d &&& hmask w) ||| (dig w t1 0 &&& lmask w)
  (n, d, z)

/-- outer loop; `none` = fuel exhausted -/
def outer (w : Nat) : Nat → Nat → Nat → Nat → Trace → Option (Int × Trace)
  | 0, _, _, _, _ => none
  | fuel + 1, t0, t1, t, tr =>
    let i := max (used w t0) (used w t1)
    if i = 1 then
      some (jacSingle (dig w t0 0) (dig w t1 0) t,
        { tr with singlePath := true, swapped := tr.swapped || singleSwaps (dig w t0 0) (dig w t1 0) })
    else
      let s := w / 2 - 2
      let (n, d, z) := approx w t0 t1 i
      let st := inner w s s { n := n, d := d, t := t, ai := 1, bi := 0, ci := 0, di := 1, swapped := false }
      let u0 : Int := Int.tdiv (st.ai * t0 + st.bi * t1) ((2 : Int) ^ s)
      let u1 : Int := Int.tdiv (st.ci * t0 + st.di * t1) ((2 : Int) ^ s)
      let tr := { tr with iters := tr.iters + 1, swapped := tr.swapped || st.swapped, zBig := tr.zBig || decide (z > w / 2),
                          neg0 := tr.neg0 || decide (u0 < 0), neg1 := tr.neg1 || decide (u1 < 0) }
      if u0 = 0 then
        some (if u1 = 1 then 1 - ((st.t &&& 2 : Nat) : Int) else 0, tr)
      else
        let t := if u0 < 0 then st.t ^^^ (u1.natAbs % 2 ^ w) else st.t
        outer w fuel u0.natAbs u1.natAbs t tr

def bitLen (n : Nat) : Nat := if n = 0 then 0 else Nat.log2 n + 1

/-- the error test of bn_smb_jac: `bn_is_even(b) || bn_sign(b) == RLC_NEG` -/
def jacErr (b : Int) : Bool := b % 2 = 0 || b < 0

/-- bn_smb_jac for an odd positive b: value and trace (`none` = the generous outer fuel ran out; never observed) -/
def jacT (w : Nat) (a b : Int) : Option (Int × Trace) :=
  let t0 := (a % b).toNat          -- bn_mod_basic: non-negative remainder for a positive modulus
  let t1 := b.toNat
  outer w (2 * (bitLen t0 + bitLen t1) + 64) t0 t1 0 {}

def jac (w : Nat) (a b : Int) : Option Int := (jacT w a b).map (·.1)

end Relic.Model.NtSmb
