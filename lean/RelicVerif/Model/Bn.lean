/-
Hand-written executable model of the public bn_* layer:
  src/bn/relic_bn_add.c, relic_bn_mul.c, relic_bn_sqr.c, relic_bn_div.c, relic_bn_shift.c,
  relic_bn_cmp.c, relic_bn_util.c, relic_bn_mem.c
A `Bn` is the pair (sign, used digits); `used = dp.length`. Storage beyond `used` is not modelled
(the contract does not define it). `bn_grow` is the capacity check of ALLOC=AUTO: more than `cap`
digits is the precision error, modelled as `none`.
-/
import RelicVerif.Model.BnLow

namespace Relic.Model

structure Cfg where
  w : Nat      -- RLC_DIG
  cap : Nat    -- RLC_BN_SIZE
deriving Repr

def Cfg.B (c : Cfg) : Nat := 2 ^ c.w

structure Bn where
  neg : Bool
  dp : List Nat
deriving Repr, BEq, DecidableEq

def Bn.used (a : Bn) : Nat := a.dp.length

/-- drop most-significant zero digits -/
def stripZeros (l : List Nat) : List Nat := (l.reverse.dropWhile (· == 0)).reverse

/-- bn_trim -/
def bnTrim (a : Bn) : Bn :=
  let d := stripZeros a.dp
  if d.isEmpty then { neg := false, dp := [0] } else { neg := a.neg, dp := d }

def Bn.zero : Bn := { neg := false, dp := [0] }

def bnIsZero (a : Bn) : Bool := a.dp.length = 0 || (a.dp.length = 1 && a.dp.getD 0 0 = 0)

/-- mathematical value -/
def Bn.toInt (B : Nat) (a : Bn) : Int :=
  if a.neg then - (val B a.dp : Int) else (val B a.dp : Int)

/-- normal form: 1 ≤ used, digits < B, top digit non-zero unless the value is the single digit 0,
    zero is non-negative -/
def Bn.WF (B : Nat) (a : Bn) : Prop :=
  a.dp ≠ [] ∧ (∀ d ∈ a.dp, d < B) ∧ (a.dp.length = 1 ∨ a.dp.getLast? ≠ some 0) ∧
  (a.dp = [0] → a.neg = false)

instance (B : Nat) (a : Bn) : Decidable (a.WF B) := by unfold Bn.WF; exact inferInstance

def grow (cfg : Cfg) (digits : Nat) : Option Unit := if digits > cfg.cap then none else some ()

/-- bn_cmp_abs : -1 / 0 / 1 -/
def bnCmpAbs (a b : Bn) : Int :=
  if bnIsZero a && bnIsZero b then 0
  else if a.used > b.used then 1
  else if a.used < b.used then -1
  else dvCmp a.dp b.dp

def bnCmp (a b : Bn) : Int :=
  if bnIsZero a && bnIsZero b then 0
  else if !a.neg && b.neg then 1
  else if a.neg && !b.neg then -1
  else if a.neg then bnCmpAbs b a
  else bnCmpAbs a b

def bnCmpDig (a : Bn) (d : Nat) : Int :=
  if a.neg then -1
  else if a.used > 1 then 1
  else if a.dp.getD 0 0 > d then 1
  else if a.dp.getD 0 0 < d then -1
  else 0

/-- bn_add_imp (|a| has at least as many digits as |b|); sign is fixed by the caller -/
def bnAddImp (cfg : Cfg) (neg : Bool) (a b : Bn) : Option Bn := do
  let max := a.used
  let min := b.used
  if min = 0 then return bnTrim { neg := a.neg, dp := a.dp }
  grow cfg max
  let (c, carry) :=
    if a.used = b.used then addnLow cfg.B a.dp b.dp 0
    else
      let (lo, c1) := addnLow cfg.B (a.dp.take min) b.dp 0
      let (hi, c2) := add1Low cfg.B (a.dp.drop min) c1
      (lo ++ hi, c2)
  if carry ≠ 0 then
    grow cfg (max + 1)
    return bnTrim { neg := neg, dp := c ++ [carry] }
  else
    return bnTrim { neg := neg, dp := c }

/-- bn_sub_imp -/
def bnSubImp (cfg : Cfg) (neg : Bool) (a b : Bn) : Option Bn := do
  let max := a.used
  let min := b.used
  if min = 0 then return bnTrim { neg := a.neg, dp := a.dp }
  grow cfg max
  let c :=
    if a.used = b.used then (subnLow cfg.B a.dp b.dp 0).1
    else
      let (lo, c1) := subnLow cfg.B (a.dp.take min) b.dp 0
      let (hi, _) := sub1Low cfg.B (a.dp.drop min) c1
      lo ++ hi
  return bnTrim { neg := neg, dp := c }

/-- bn_add -/
def bnAdd (cfg : Cfg) (a b : Bn) : Option Bn :=
  if a.neg = b.neg then
    if bnCmpAbs a b = -1 then bnAddImp cfg a.neg b a else bnAddImp cfg a.neg a b
  else
    if bnCmpAbs a b = -1 then bnSubImp cfg b.neg b a else bnSubImp cfg a.neg a b

/-- bn_sub -/
def bnSub (cfg : Cfg) (a b : Bn) : Option Bn :=
  if a.neg ≠ b.neg then
    if bnCmpAbs a b = -1 then bnAddImp cfg a.neg b a else bnAddImp cfg a.neg a b
  else
    if bnCmpAbs a b ≠ -1 then bnSubImp cfg a.neg a b else bnSubImp cfg (!a.neg) b a

/-- bn_add_dig / bn_sub_dig share one body up to the sign test -/
def bnAddSubDig (cfg : Cfg) (a : Bn) (b : Nat) (sameSign : Bool) (resNeg : Bool) : Option Bn := do
  grow cfg a.used
  if sameSign then
    let (c, carry) := add1Low cfg.B a.dp b
    if carry ≠ 0 then
      grow cfg (a.used + 1)
      return bnTrim { neg := resNeg, dp := c ++ [carry] }
    else return bnTrim { neg := resNeg, dp := c }
  else
    if a.used > 1 ∨ a.dp.getD 0 0 ≥ b then
      let (c, _) := sub1Low cfg.B a.dp b
      return bnTrim { neg := !resNeg, dp := c }
    else
      let d := if a.used = 1 then (b + cfg.B - a.dp.getD 0 0) % cfg.B else b
      return bnTrim { neg := resNeg, dp := [d] }

def bnAddDig (cfg : Cfg) (a : Bn) (b : Nat) : Option Bn := bnAddSubDig cfg a b (!a.neg) false
def bnSubDig (cfg : Cfg) (a : Bn) (b : Nat) : Option Bn := bnAddSubDig cfg a b a.neg true

/-- bn_mul_dig -/
def bnMulDig (cfg : Cfg) (a : Bn) (b : Nat) : Option Bn := do
  grow cfg (a.used + 1)
  let (c, carry) := mul1Low cfg.B a.dp b 0
  return bnTrim { neg := a.neg, dp := c ++ [carry] }

/-- bn_mul_basic: row-wise bn_mula_low accumulation into a zeroed temporary -/
def bnMulBasic (cfg : Cfg) (a b : Bn) : Option Bn := do
  grow cfg (a.used + b.used)
  let t0 : List Nat := List.replicate (a.used + b.used) 0
  let step := fun (t : List Nat) (i : Nat) =>
    let (seg, carry) := mulaLow cfg.B ((t.drop i).take b.used) b.dp (a.dp.getD i 0) 0
    (splice t i seg).set (i + b.used) carry
  let t := (List.range a.used).foldl step t0
  return bnTrim { neg := a.neg != b.neg, dp := t }

/-- bn_mul_comba -/
def bnMulComba (cfg : Cfg) (a b : Bn) : Option Bn := do
  grow cfg (a.used + b.used)
  let t :=
    if a.used = b.used then mulnLow cfg.B a.dp b.dp a.used
    else if a.used > b.used then muldLow cfg.B a.dp a.used b.dp b.used
    else muldLow cfg.B b.dp b.used a.dp a.used
  return bnTrim { neg := a.neg != b.neg, dp := t }

/-- bn_dbl (note: no bn_trim in C; input is normalised so the result is) -/
def bnDbl (cfg : Cfg) (a : Bn) : Option Bn := do
  grow cfg (a.used + 1)
  let (c, carry) := lsh1Low cfg.w a.dp 0
  if carry ≠ 0 then return { neg := a.neg, dp := c ++ [carry] }
  else return { neg := a.neg, dp := c }

/-- bn_hlv: magnitude shift -/
def bnHlv (_cfg : Cfg) (a : Bn) : Option Bn :=
  let a' := bnTrim a
  some (bnTrim { neg := a'.neg, dp := (rsh1Low _cfg.w a'.dp).1 })

/-- bn_lsh -/
def bnLsh (cfg : Cfg) (a : Bn) (bits0 : Nat) : Option Bn := do
  let digits := bits0 / cfg.w
  let bits := bits0 % cfg.w
  grow cfg (a.used + digits + (if bits > 0 then 1 else 0))
  let c := List.replicate digits 0 ++ a.dp
  if bits > 0 then
    let (hi, carry) := lshbLow cfg.w bits a.dp 0
    let c := List.replicate digits 0 ++ hi
    if carry ≠ 0 then return bnTrim { neg := a.neg, dp := c ++ [carry] }
    else return bnTrim { neg := a.neg, dp := c }
  else return bnTrim { neg := a.neg, dp := c }

/-- bn_rsh: magnitude shift -/
def bnRsh (cfg : Cfg) (a : Bn) (bits0 : Nat) : Option Bn := do
  let digits := bits0 / cfg.w
  let bits := bits0 % cfg.w
  grow cfg a.used
  let c := if digits > 0 then (if a.used > digits then a.dp.drop digits else []) else a.dp
  let c := if c.length > 0 ∧ bits > 0 then (rshbLow cfg.w bits c).1 else c
  return bnTrim { neg := a.neg, dp := c }

def bnNeg (a : Bn) : Bn :=
  let c := bnTrim a
  if !bnIsZero c then { c with neg := !a.neg } else c

def bnAbs (a : Bn) : Bn := { bnTrim a with neg := false }

/-- bn_mul_karat with BN_KARAT = 0 ⇒ one level over the Comba multiplication -/
def bnMulKarat (cfg : Cfg) (a b : Bn) : Option Bn := do
  let h := (min a.used b.used) / 2
  let a0 := bnTrim { neg := false, dp := a.dp.take h }
  let a1 := bnTrim { neg := false, dp := a.dp.drop h }
  let b0 := bnTrim { neg := false, dp := b.dp.take h }
  let b1 := bnTrim { neg := false, dp := b.dp.drop h }
  let a0b0 ← bnMulComba cfg a0 b0
  let a1b1 ← bnMulComba cfg a1 b1
  let a1' ← bnAdd cfg a1 a0
  let b1' ← bnAdd cfg b1 b0
  let t ← bnMulComba cfg a1' b1'
  let t ← bnSub cfg t a0b0
  let t ← bnSub cfg t a1b1
  let t ← bnLsh cfg t (h * cfg.w)
  let a1b1 ← bnLsh cfg a1b1 (2 * h * cfg.w)
  let t ← bnAdd cfg t a0b0
  let t ← bnAdd cfg t a1b1
  return bnTrim { neg := a.neg != b.neg, dp := t.dp }

/-- bn_sqr_comba -/
def bnSqrComba (cfg : Cfg) (a : Bn) : Option Bn := do
  grow cfg (2 * a.used)
  return bnTrim { neg := false, dp := sqrnLow cfg.B a.dp a.used }

/-- bn_sqr_basic: row-wise bn_sqra_low accumulation into a zeroed temporary of 2*used digits -/
def bnSqrBasic (cfg : Cfg) (a : Bn) : Option Bn := do
  grow cfg (2 * a.used)
  let n := a.used
  let t0 : List Nat := List.replicate (2 * n + 1) 0
  let step := fun (t : List Nat) (i : Nat) =>
    let (seg, carry) := sqraLow cfg.B ((t.drop (2 * i)).take (n - i + 1)) (a.dp.drop i) (n - i)
    let t := splice t (2 * i) seg
    -- t->dp[a->used + i + 1] = carry  (not for the last row, whose return value is dropped)
    if i + 1 < n then t.set (n + i + 1) carry else t
  let t := (List.range n).foldl step t0
  return bnTrim { neg := false, dp := t.take (2 * n) }

/-- bn_sqr_karat with BN_KARAT = 0 -/
def bnSqrKarat (cfg : Cfg) (a : Bn) : Option Bn := do
  let h := a.used / 2
  let a0 := bnTrim { neg := false, dp := a.dp.take h }
  let a1 := bnTrim { neg := false, dp := a.dp.drop h }
  let a0a0 ← bnSqrComba cfg a0
  let a1a1 ← bnSqrComba cfg a1
  let t ← bnAdd cfg a1 a0
  let t ← bnSqrComba cfg t
  let s ← bnAdd cfg a0a0 a1a1
  let t ← bnSub cfg t s
  let t ← bnLsh cfg t (h * cfg.w)
  let a1a1 ← bnLsh cfg a1a1 (2 * h * cfg.w)
  let t ← bnAdd cfg t a0a0
  let t ← bnAdd cfg t a1a1
  return bnTrim { neg := false, dp := t.dp }

/-- bn_div_imp: returns (quotient, remainder) as the C computes them, plus the Knuth-D branch trace -/
def bnDivImp (cfg : Cfg) (a b : Bn) : Option (Bn × Bn × DivTrace) := do
  if bnCmpAbs a b = -1 then
    if bnIsZero a || a.neg = b.neg then
      return (Bn.zero, bnTrim a, {})
    else
      let d ← bnAdd cfg a b
      return ({ neg := true, dp := [1] }, d, {})
  grow cfg (a.used + 1)
  let (qd, rd, tr) := divnLow cfg.w a.dp b.dp
  let q := bnTrim { neg := a.neg != b.neg, dp := qd.take (a.used - b.used + 1) }
  let r := bnTrim { neg := b.neg, dp := rd.take b.used }
  -- floor fix-up, done in the temporaries q and r
  if !bnIsZero r && a.neg != b.neg then
    let c ← bnSubDig cfg q 1
    let d ← bnSub cfg b r
    return (c, d, tr)
  else
    return (q, r, tr)

def bnDivRem (cfg : Cfg) (a b : Bn) : Option (Bn × Bn × DivTrace) :=
  if bnIsZero b then none else bnDivImp cfg a b

/-- bn_div_dig / bn_div_rem_dig -/
def bnDivRemDig (cfg : Cfg) (a : Bn) (b : Nat) : Option (Bn × Nat) :=
  if b = 0 then none
  else if b = 1 ∨ bnIsZero a then some (bnTrim a, 0)
  else
    let (q, r) := div1Low cfg.B a.dp b
    let c := bnTrim { neg := a.neg, dp := q }
    some (c, if a.neg ∧ r ≠ 0 then (b + cfg.B - r) % cfg.B else r)

/-- bn_bits -/
def bnBitsW (w : Nat) (a : Bn) : Nat :=
  if bnIsZero a then 0 else (a.used - 1) * w + bitsDig (a.dp.getLast?.getD 0)

/-- bn_get_bit -/
def bnGetBit (w : Nat) (a : Bn) (bit : Nat) : Nat :=
  if bit > bnBitsW w a then 0
  else
    let d := bit / w
    let b := bit % w
    if d ≥ a.used then 0 else (a.dp.getD d 0 >>> b) &&& 1

/-- bn_ham -/
def bnHam (w : Nat) (a : Bn) : Nat :=
  (List.range (bnBitsW w a)).foldl (fun c i => c + bnGetBit w a i) 0

def bnIsEven (a : Bn) : Bool := bnIsZero a || (a.dp.getD 0 0) % 2 = 0

/-- bn_set_2b -/
def bnSet2b (cfg : Cfg) (b : Nat) : Option Bn := do
  if b ≥ cfg.cap * cfg.w then none
  else
    let d := b / cfg.w
    grow cfg (d + 1)
    return { neg := false, dp := List.replicate d 0 ++ [2 ^ (b % cfg.w)] }

end Relic.Model
