/-
Fast evaluators of the GF(2^m) / binary-curve specification, used by the compiled driver. Each is proved equal to
the plain definition of Spec/Gf2.lean / Spec/BinCurve.lean in Lemmas/BinFast.lean (theorems `clmulW_eq`, `pmodS_eq`, …):
the driver's specification column is the specification's value, computed faster.
 * product: 4-bit window method (a table of the 16 multiples u(z)·a(z), one shift by 4 and one xor per nibble of b);
 * reduction: fold the part above z^m with the low part of f (z^m ≡ f + z^m), repeated until the degree is below m;
 * scalar multiplication: the doubling chain P, 2P, 4P, … is computed once per base point and shared.
No Mathlib.
-/
import RelicVerif.Spec.Gf2
import RelicVerif.Spec.BinCurve

namespace Relic.Model.BinFast
open Relic.Spec.Gf2 Relic.Spec.BinCurve

/-- the multiples u(z)·a(z) for u < 16 -/
def tab16 (a : Nat) : Array Nat :=
  let a2 := a <<< 1
  let a4 := a <<< 2
  let a8 := a <<< 3
  #[0, a, a2, a2 ^^^ a, a4, a4 ^^^ a, a4 ^^^ a2, a4 ^^^ a2 ^^^ a,
    a8, a8 ^^^ a, a8 ^^^ a2, a8 ^^^ a2 ^^^ a, a8 ^^^ a4, a8 ^^^ a4 ^^^ a, a8 ^^^ a4 ^^^ a2, a8 ^^^ a4 ^^^ a2 ^^^ a]

/-- 32-bit limbs of b, least significant first -/
def limbs32 (b : Nat) : List Nat :=
  (List.range ((bitLen b + 31) / 32)).map fun j => (b >>> (32 * j)) % 2 ^ 32

/-- window product: limbs from the top, nibbles of a limb from the top -/
def clmulW (a b : Nat) : Nat :=
  let t := tab16 a
  (limbs32 b).foldr (fun limb acc =>
    (List.range 8).foldr (fun k acc => (acc <<< 4) ^^^ t.getD ((limb >>> (4 * k)) % 16) 0) acc) 0

/-- positions of the set bits of n below `bound` -/
def setBits (n bound : Nat) : List Nat := (List.range bound).filter fun i => n.testBit i

/-- one folding step modulo f = z^m + Σ_{e ∈ exps} z^e: the part above z^m is multiplied by Σ z^e and added to the low part -/
def foldStep (m : Nat) (exps : List Nat) (a : Nat) : Nat :=
  let hi := a >>> m
  exps.foldl (fun acc e => acc ^^^ (hi <<< e)) (a ^^^ (hi <<< m))

/-- reduction by repeated folding; every step lowers the degree because max exps < m -/
def pmodS (m : Nat) (exps : List Nat) (a : Nat) : Nat :=
  let rec go (fuel : Nat) (a : Nat) : Nat :=
    match fuel with
    | 0 => a
    | fuel + 1 => if bitLen a ≤ m then a else go fuel (foldStep m exps a)
  go (bitLen a) a

/-- the field with its precomputed exponent list -/
structure FF where
  F : Field
  exps : List Nat

def FF.ofField (F : Field) : FF := { F := F, exps := setBits F.f F.m }

namespace FF

def mul (K : FF) (a b : Nat) : Nat := pmodS K.F.m K.exps (clmulW a b)
def sqr (K : FF) (a : Nat) : Nat := K.mul a a

def sqrN (K : FF) : Nat → Nat → Nat
  | 0, a => a
  | n + 1, a => sqrN K n (K.sqr a)

def invFermat (K : FF) (a : Nat) : Nat :=
  ((List.range (K.F.m - 1)).foldl (fun (st : Nat × Nat) _ => (K.sqr st.1, K.mul st.2 (K.sqr st.1)))
    (pmodS K.F.m K.exps a, pmodS K.F.m K.exps 1)).2

/-- same candidate-and-check construction as `Field.inv` -/
def inv (K : FF) (a : Nat) : Nat :=
  let c := K.F.invEuclid a
  if K.mul a c = 1 then c else K.invFermat a

def pow (K : FF) (a e : Nat) : Nat :=
  let rec go (fuel : Nat) (base e acc : Nat) : Nat :=
    match fuel with
    | 0 => acc
    | fuel + 1 => if e = 0 then acc else go fuel (K.sqr base) (e / 2) (if e % 2 = 1 then K.mul acc base else acc)
  go (bitLen e) (pmodS K.F.m K.exps a) e (pmodS K.F.m K.exps 1)

def sqrt (K : FF) (a : Nat) : Nat := K.sqrN (K.F.m - 1) a

def trace (K : FF) (a : Nat) : Nat :=
  ((List.range (K.F.m - 1)).foldl (fun (st : Nat × Nat) _ => (K.sqr st.1, st.2 ^^^ K.sqr st.1))
    (pmodS K.F.m K.exps a, pmodS K.F.m K.exps a)).2

def halfTrace (K : FF) (a : Nat) : Nat :=
  ((List.range ((K.F.m - 1) / 2)).foldl (fun (st : Nat × Nat) _ =>
    let t := K.sqr (K.sqr st.1)
    (t, st.2 ^^^ t)) (pmodS K.F.m K.exps a, pmodS K.F.m K.exps a)).2

def itr (K : FF) (a : Nat) (b : Int) : Nat :=
  if b ≥ 0 then K.sqrN b.toNat a else K.sqrN ((K.F.m - 1) * (-b).toNat) a

def exp (K : FF) (a : Nat) (k : Int) : Nat :=
  if k ≥ 0 then K.pow a k.toNat else K.inv (K.pow a k.natAbs)

/-! quadratic extension -/
def mul2 (K : FF) (a b : Ext.El) : Ext.El :=
  (K.mul a.1 b.1 ^^^ K.mul a.2 b.2, K.mul a.1 b.2 ^^^ K.mul a.2 b.1 ^^^ K.mul a.2 b.2)
def sqr2 (K : FF) (a : Ext.El) : Ext.El := K.mul2 a a
def trace2 (K : FF) (a : Ext.El) : Ext.El :=
  ((List.range (2 * K.F.m - 1)).foldl (fun (st : Ext.El × Ext.El) _ => (K.sqr2 st.1, Ext.add K.F st.2 (K.sqr2 st.1))) (a, a)).2

end FF

/-! curve arithmetic over the fast field -/

structure FC where
  K : FF
  a : Nat
  b : Nat

def FC.ofCurve (c : Curve) : FC := { K := FF.ofField c.F, a := c.a, b := c.b }

def add (c : FC) : Point → Point → Point
  | none, q => q
  | p, none => p
  | some (x1, y1), some (x2, y2) =>
    let K := c.K
    if x1 = x2 then
      if y2 = (x1 ^^^ y1) then none
      else
        let l := x1 ^^^ K.mul y1 (K.inv x1)
        let x3 := K.sqr l ^^^ l ^^^ c.a
        some (x3, K.sqr x1 ^^^ K.mul (l ^^^ 1) x3)
    else
      let l := K.mul (y1 ^^^ y2) (K.inv (x1 ^^^ x2))
      let x3 := K.sqr l ^^^ l ^^^ x1 ^^^ x2 ^^^ c.a
      some (x3, K.mul l (x1 ^^^ x3) ^^^ x3 ^^^ y1)

def dbl (c : FC) (p : Point) : Point := add c p p

/-- P, 2P, 4P, …, 2^(n-1) P -/
def dblChain (c : FC) : Nat → Point → List Point
  | 0, _ => []
  | n + 1, p => p :: dblChain c n (dbl c p)

/-- double-and-add reading the doublings from a chain (which must have at least bitLen k entries) -/
def mulNatChain (c : FC) (chain : List Point) (k : Nat) : Point :=
  let rec go (chain : List Point) (k : Nat) (acc : Point) : Point :=
    match chain with
    | [] => acc
    | base :: rest => if k = 0 then acc else go rest (k / 2) (if k % 2 = 1 then add c acc base else acc)
  go chain k none

def mulNat (c : FC) (p : Point) (k : Nat) : Point := mulNatChain c (dblChain c (bitLen k) p) k

def neg : Point → Point
  | none => none
  | some (x, y) => some (x, x ^^^ y)

def mul (c : FC) (p : Point) (k : Int) : Point :=
  if k < 0 then neg (mulNat c p k.natAbs) else mulNat c p k.toNat

/-- [k]P with a precomputed chain of P when it is long enough -/
def mulWith (c : FC) (chain : Option (List Point)) (p : Point) (k : Int) : Point :=
  match chain with
  | some ch =>
    if bitLen k.natAbs ≤ ch.length then
      (if k < 0 then neg (mulNatChain c ch k.natAbs) else mulNatChain c ch k.toNat)
    else mul c p k
  | none => mul c p k

def onCurve (c : FC) : Point → Bool
  | none => true
  | some (x, y) =>
    c.K.F.isElem x && c.K.F.isElem y &&
      (c.K.sqr y ^^^ c.K.mul x y) == (c.K.mul (c.K.sqr x) x ^^^ c.K.mul c.a (c.K.sqr x) ^^^ c.b)

def frb (c : FC) : Point → Point
  | none => none
  | some (x, y) => some (c.K.sqr x, c.K.sqr y)

end Relic.Model.BinFast
