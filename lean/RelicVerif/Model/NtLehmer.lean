/-
Value-level model of bn_gcd_lehme / bn_gcd_ext_lehme (src/bn/relic_bn_gcd.c): Lehmer's gcd with a single-digit simulation
of Euclid's algorithm on the leading W bits (two passes per outer iteration: the second on a 2W-bit approximation),
the simulated 2×2 cofactor matrix (_a _b; _c _d) applied to the multi-precision pair, Euclid fallback when _b = 0,
final single-digit step through bn_gcd_ext_dig.  W = RLC_DIG (64 or 8).  No Mathlib.

The C code keeps the matrix in `dis_t` (signed digit) variables and computes `t = _a - q * _c` in `dig_t`; the model computes
in Int and reports `none` when a matrix entry leaves the dis_t range (then two's-complement wrap-around would differ):
whenever the model returns, every intermediate value of the C code is the exact integer.  `none` is also returned when a fuel
runs out (termination of Lehmer's outer loop is observed, not proved).
-/
import RelicVerif.Model.NtGcd

namespace Relic.Model.NtLehmer
open Relic.Model.NtGcd

def bitLen (n : Nat) : Nat := if n = 0 then 0 else Nat.log2 n + 1

/-- bn_bits: of the magnitude -/
def bitsI (v : Int) : Nat := bitLen v.natAbs

/-- bn_rsh on a signed value: the magnitude is shifted -/
def rshI (v : Int) (k : Nat) : Int := if v < 0 then -((v.natAbs >>> k : Nat) : Int) else ((v.natAbs >>> k : Nat) : Int)

/-- `v->dp[0]`: lowest digit of the magnitude -/
def dp0 (W : Nat) (v : Int) : Nat := v.natAbs % 2 ^ W

/-- value fits a `dis_t` -/
def fitsDis (W : Nat) (v : Int) : Bool := decide (-(2 : Int) ^ (W - 1) ≤ v) && decide (v < (2 : Int) ^ (W - 1))

structure Mat where
  a : Int
  b : Int
  c : Int
  d : Int
deriving Repr, DecidableEq

def Mat.id : Mat := ⟨1, 0, 0, 1⟩

/-- the `while (1)` loop of the simulation: state (_y, t, q) and the matrix; break when the next remainder is below 2^(W/2) -/
def simLoop (W : Nat) : Nat → Nat → Nat → Nat → Mat → Option Mat
  | 0, _, _, _, _ => none
  | f + 1, y, t, q, m =>
    let q' := y / t
    let t' := y % t
    if t' < 2 ^ (W / 2) then some m
    else
      -- _x = _y; _y = t; (a, c) ← (c, a − q·c); (b, d) ← (d, b − q·d); t = _t; q = _q
      let c' := m.a - (q : Int) * m.c
      let d' := m.b - (q : Int) * m.d
      if fitsDis W c' && fitsDis W d' then simLoop W f t t' q' ⟨m.c, m.d, c', d'⟩ else none

/-- `t = 0; if (_y != 0) { q = _x / _y; t = _x % _y; } if (t >= 2^(W/2)) { while (1) … }` -/
def simPass (W : Nat) (xd yd : Nat) (m : Mat) : Option Mat :=
  if yd = 0 then some m
  else
    let q := xd / yd
    let t := xd % yd
    if t ≥ 2 ^ (W / 2) then simLoop W (yd + 1) yd t q m else some m

/-- leading `n` bits of x and the same shift of y: `if (bn_bits(x) > n) { u = x >> (bits − n); v = y >> (bits − n) } else copy` -/
def topBits (n : Nat) (x y : Int) : Int × Int :=
  if bitsI x > n then (rshI x (bitsI x - n), rshI y (bitsI x - n)) else (x, y)

/-- result of one outer iteration: the new pair, whether it was the Euclid fallback (then q = the quotient), the matrix applied -/
structure StepRes where
  x : Int
  y : Int
  euclid : Bool
  q : Int
  m : Mat

/-- one outer iteration of bn_gcd_lehme on (x, y); `none` = overflow of a simulated cofactor / fuel -/
def lehmeStep (W : Nat) (x y : Int) : Option StepRes :=
  let uv := topBits W x y
  match simPass W (dp0 W uv.1) (dp0 W uv.2) Mat.id with
  | none => none
  | some m1 =>
    if m1.b = 0 then
      -- Euclid fallback: bn_div_rem(q, r, x, y) (bn_gcd_lehme uses bn_mod: the same r); x ← y, y ← r
      some ⟨y, Int.fmod x y, true, Int.fdiv x y, Mat.id⟩
    else
      let uv2 := topBits (2 * W) x y
      let u := uv2.1 * m1.a + uv2.2 * m1.b
      let v := uv2.1 * m1.c + uv2.2 * m1.d
      let tt := topBits W u v
      match simPass W (dp0 W tt.1) (dp0 W tt.2) m1 with
      | none => none
      | some m2 =>
        -- Lehmer's conditions keep the new pair non-negative; the C code reads y->dp[0] of the magnitude afterwards, so a
        -- negative value would be mis-read: the model reports it (never observed) instead of following the C code there
        if x * m2.a + y * m2.b < 0 ∨ x * m2.c + y * m2.d < 0 then none
        else some ⟨x * m2.a + y * m2.b, x * m2.c + y * m2.d, false, 0, m2⟩

/-- `while (y->used > 1)`: more than one digit -/
def multiDigit (W : Nat) (y : Int) : Bool := decide (y.natAbs ≥ 2 ^ W)

def lehmeLoop (W : Nat) : Nat → Int → Int → Option (Int × Int)
  | 0, _, _ => none
  | f + 1, x, y =>
    if multiDigit W y then
      match lehmeStep W x y with
      | none => none
      | some r => lehmeLoop W f r.x r.y
    else some (x, y)

def lehmeFuel (a b : Int) : Nat := 2 * (bitsI a + bitsI b) + 8

/-- bn_gcd_lehme -/
def gcdLehme (W : Nat) (a b : Int) : Option Int :=
  if a = 0 then some (b.natAbs : Int)
  else if b = 0 then some (a.natAbs : Int)
  else
    let x : Int := if a.natAbs > b.natAbs then a.natAbs else b.natAbs
    let y : Int := if a.natAbs > b.natAbs then b.natAbs else a.natAbs
    match lehmeLoop W (lehmeFuel a b) x y with
    | none => none
    | some (x', y') => some (gcdExtDig x' (dp0 W y')).1

/-- the loop of bn_gcd_ext_lehme_imp additionally carries (t4, d): x ≡ t4·Y₀, y ≡ d·Y₀ (mod X₀) -/
def lehmeExtLoop (W : Nat) : Nat → Int → Int → Int → Int → Option (Int × Int × Int × Int)
  | 0, _, _, _, _ => none
  | f + 1, x, y, t4, d =>
    if multiDigit W y then
      match lehmeStep W x y with
      | none => none
      | some r =>
        if r.euclid then
          -- t1 = q·d; t1 = t4 − t1; t4 = d; d = t1
          lehmeExtLoop W f r.x r.y d (t4 - r.q * d)
        else lehmeExtLoop W f r.x r.y (t4 * r.m.a + d * r.m.b) (t4 * r.m.c + d * r.m.d)
    else some (x, y, t4, d)

/-- bn_gcd_ext_lehme_imp on non-negative operands (the wrapper passes |a|, |b|) -/
def gcdExtLehmeImp (W : Nat) (a b : Int) : Option (Int × Int × Int) :=
  if a = 0 then some ((b.natAbs : Int), 0, 1)
  else if b = 0 then some ((a.natAbs : Int), 1, 0)
  else
    let swap : Bool := decide (a.natAbs < b.natAbs)        -- bn_cmp_abs(a, b) != RLC_LT → no swap
    let x : Int := if swap then b.natAbs else a.natAbs
    let y : Int := if swap then a.natAbs else b.natAbs
    match lehmeExtLoop W (lehmeFuel a b) x y 0 1 with
    | none => none
    | some (x', y', t4, d) =>
      let r := gcdExtDig x' (dp0 W y')                      -- c = u·x' + v·y'
      let c := r.1
      let s := t4 * r.2.1 + d * r.2.2
      if ¬ swap then
        -- t4 = t4·u + d·v; x = c − b·t4; d = x / a; e = t4
        some (c, Int.fdiv (c - b * s) a, s)
      else
        -- d = t4·u + d·v; x = c − a·d; t4 = x / b; e = t4
        some (c, s, Int.fdiv (c - a * s) b)

/-- bn_gcd_ext_lehme: runs on |a|, |b|, then bn_gcd_ext_sign -/
def gcdExtLehme (W : Nat) (a b : Int) : Option (Int × Int × Int) :=
  (gcdExtLehmeImp W (a.natAbs : Int) (b.natAbs : Int)).map (extSign a b)

end Relic.Model.NtLehmer
