/-
One model for the four RFC 6234 streaming implementations of the library:
  src/md/sha224-256.c  (SHA224/SHA256 Reset / Input / Result, 64-byte Message_Block, Length_High:Length_Low = 64 bits)
  src/md/sha384-512.c  (SHA384/SHA512 Reset / Input / Result, 128-byte Message_Block, 128-bit length counter; the library
                        compiles the USE_32BIT_ONLY variant — sha_private.h tests `WSIZE <= 32` before relic_conf.h is
                        included, so the macro is always defined — i.e. Length[4] of uint32_t, Length[0] most significant)
The two files are the same code up to the block size, the size of the length counter, the word type and
the initial hash value; `Params` carries exactly these. Mirrored: the byte-at-a-time `while (length--
&& !Corrupted)` loop of SHA*Input with Message_Block_Index and the AddLength overflow test, the early
exits (length = 0, Computed, Corrupted), SHA*_PadMessage with its two cases (Message_Block_Index ≥
block − lenBytes needs an extra block), Finalize (length cleared, Computed set) and ResultN (the first
HashSize bytes of the big-endian words). The block function is the spec's `compress` (same bit operations;
its tie to the C code is the correspondence run).
-/
import RelicVerif.Spec.MerkleDamgard

namespace Relic.Model.ShaStream
open Relic.Spec
open Relic.Spec.Sha256 (beBytes)

structure Params (W : Type) where
  blockSize : Nat                                 -- SHA256_Message_Block_Size / SHA512_Message_Block_Size
  lenBytes : Nat                                  -- 8 (2 × uint32_t) / 16 (2 × uint64_t)
  compress : List W → List UInt8 → List W         -- SHA*_ProcessMessageBlock
  h0 : List W                                     -- SHA*_H0
  digest : List W → List UInt8                    -- all words, big-endian
  hashSize : Nat                                  -- SHA*HashSize
  corruptAfterAdd : Nat → Bool                    -- SHA*_AddLength: the test made on the updated counter that sets Corrupted

structure Ctx (W : Type) where
  h : List W               -- Intermediate_Hash
  lenBits : Nat            -- Length_High:Length_Low
  block : List UInt8       -- Message_Block[0 .. Message_Block_Index)
  computed : Bool
  corrupted : Bool

variable {W : Type}

/-- SHA*Reset -/
def reset (P : Params W) : Ctx W :=
  { h := P.h0, lenBits := 0, block := [], computed := false, corrupted := false }

/-- SHA*_ProcessMessageBlock (Message_Block_Index = 0 afterwards) -/
def processBlock (P : Params W) (c : Ctx W) : Ctx W := { c with h := P.compress c.h c.block, block := [] }

/-- one iteration of the `while (length-- && !context->Corrupted)` loop of SHA*Input -/
def inputByte (P : Params W) (c : Ctx W) (b : UInt8) : Ctx W :=
  if c.corrupted then c else
  let c := { c with block := c.block ++ [b] }
  -- SHA*_AddLength(context, 8): the counter wraps modulo 2^(8·lenBytes); Corrupted = the macro's test on the new value
  let len' := (c.lenBits + 8) % 2 ^ (8 * P.lenBytes)
  if P.corruptAfterAdd len' then { c with lenBits := len', corrupted := true }
  else
    let c := { c with lenBits := len' }
    if c.block.length = P.blockSize then processBlock P c else c

/-- SHA*Input -/
def input (P : Params W) (c : Ctx W) (msg : List UInt8) : Ctx W :=
  if msg.isEmpty then c
  else if c.computed then { c with corrupted := true }
  else if c.corrupted then c
  else msg.foldl (inputByte P) c

/-- SHA*_PadMessage(0x80) + Finalize -/
def padMessage (P : Params W) (c : Ctx W) : Ctx W :=
  let c :=
    if c.block.length ≥ P.blockSize - P.lenBytes then
      let blk := c.block ++ [0x80]
      let blk := blk ++ List.replicate (P.blockSize - blk.length) 0
      processBlock P { c with block := blk }
    else { c with block := c.block ++ [0x80] }
  let blk := c.block ++ List.replicate (P.blockSize - P.lenBytes - c.block.length) 0
  let blk := blk ++ beBytes c.lenBits P.lenBytes
  let c := processBlock P { c with block := blk }
  { c with lenBits := 0, computed := true }

/-- SHA*_ResultN: none = error (corrupted context) -/
def result (P : Params W) (c : Ctx W) : Option (List UInt8) :=
  if c.corrupted then none
  else
    let c := if c.computed then c else padMessage P c
    some ((P.digest c.h).take P.hashSize)

/-- the context after a SHA*Result call (Finalize runs once; a corrupted context is left alone) -/
def finish (P : Params W) (c : Ctx W) : Ctx W :=
  if c.corrupted then c else if c.computed then c else padMessage P c

/-- Reset; Input chunk₁; …; Input chunkₙ; Result -/
def run (P : Params W) (chunks : List (List UInt8)) : Option (List UInt8) :=
  result P (chunks.foldl (input P) (reset P))

/-- SHA224_256AddLength: `((Length_Low += 8) < addTemp) && (++Length_High == 0)` — a carry out of the 64-bit counter; since the
    counter moves in steps of 8 from 0 this is: the new value is below 8 -/
def corrupt64 (l : Nat) : Bool := l < 8

/-- SHA384_512AddLength, USE_32BIT_ONLY variant as compiled (Length[4] of uint32_t, Length[0] most significant), in the RFC 6234
    form the library has since 91cb094: `Length[3] < (length) && Length[2] == 0 && Length[1] == 0 && Length[0] == 0` with
    length = 8 — the updated 128-bit counter is smaller than what was added, i.e. it wrapped -/
def corrupt128w (l : Nat) : Bool :=
  decide (l % 2 ^ 32 < 8) && (l / 2 ^ 32) % 2 ^ 32 == 0 && (l / 2 ^ 64) % 2 ^ 32 == 0 && (l / 2 ^ 96) % 2 ^ 32 == 0

def sha224P : Params UInt32 :=
  { blockSize := 64, lenBytes := 8, compress := Sha256.compress, h0 := Sha256.H0_224, digest := Sha256.digestBytes, hashSize := 28,
    corruptAfterAdd := corrupt64 }
def sha256P : Params UInt32 :=
  { blockSize := 64, lenBytes := 8, compress := Sha256.compress, h0 := Sha256.H0, digest := Sha256.digestBytes, hashSize := 32,
    corruptAfterAdd := corrupt64 }
def sha384P : Params UInt64 :=
  { blockSize := 128, lenBytes := 16, compress := Sha512.compress, h0 := Sha512.H0_384, digest := Sha512.digestBytes, hashSize := 48,
    corruptAfterAdd := corrupt128w }
def sha512P : Params UInt64 :=
  { blockSize := 128, lenBytes := 16, compress := Sha512.compress, h0 := Sha512.H0_512, digest := Sha512.digestBytes, hashSize := 64,
    corruptAfterAdd := corrupt128w }

end Relic.Model.ShaStream
