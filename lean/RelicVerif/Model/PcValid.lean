/-
Decision logic of g1_is_valid / g2_is_valid / gt_is_valid (src/pc/relic_pc_util.c) for the configurations the check builds
(embedding degree 12: families EP_BN and EP_B12, plus the `default:` branch), branch for branch.

The group operations are taken from an operation record, instantiated
 * by the driver with the specification arithmetic of the curve / twist / Fp12 and the library's reported constants of
   ep_psi (beta) and ep2_frb, so the coded test is EXECUTED on every presented `pcv` line and compared with the library;
 * by the theorems (Lemmas/PcValid.lean) with an abstract commutative group carrying an endomorphism.

`mul` is g1_mul_any / g2_mul_any (= ep_mul_basic / ep2_mul_basic by include/relic_pc.h: value-level here, the routines
themselves are class A in C03 / C11); `expSps` is fp12_exp_cyc_sps (Model/PpExp.expCycSps in the driver).

No Mathlib.
-/
namespace Relic.Model.PcValid

inductive Fam where
  | bn | b12 | other
  deriving DecidableEq, Repr

/-- additive groups G1, G2 -/
structure GOps (G : Type) where
  isInf : G → Bool
  onCurve : G → Bool
  add : G → G → G
  dbl : G → G
  neg : G → G
  /-- g*_mul_any(R, P, k) -/
  mul : G → Int → G
  /-- ep_psi for G1, g2_frb(·, ·, 1) for G2 -/
  psi : G → G
  /-- g*_cmp(…) == RLC_EQ -/
  eq : G → G → Bool

variable {G : Type}

def psiN (o : GOps G) (a : G) : Nat → G
  | 0 => a
  | i + 1 => o.psi (psiN o a i)

/-- the `default:` branch: [n − 1]P == −P -/
def orderCheck (o : GOps G) (n : Nat) (a : G) : Bool :=
  let u := o.mul a ((n : Int) - 1)
  let u := o.neg u
  o.onCurve a && o.eq u a

/-- g1_is_valid.  `cofOne`: bn_cmp_dig(cofactor, 1) == RLC_EQ; `endom`: EP_ENDOM compiled in; `z` = fp_prime_get_par. -/
def g1IsValid (o : GOps G) (cofOne endom : Bool) (fam : Fam) (z : Int) (n : Nat) (a : G) : Bool :=
  if o.isInf a then false else
  if cofOne then o.onCurve a else
  match endom, fam with
  | true, .b12 =>
    -- ψ²(P) == [−z²]P
    let u := o.mul a z
    let u := o.mul u z
    let u := o.neg u
    let v := o.psi a
    let v := o.psi v
    o.onCurve a && o.eq v u
  | _, _ => orderCheck o n a

/-- g2_is_valid (FP_PRIME < 1536).  `b383`: core_get()->ep_id == B12_383. -/
def g2IsValid (o : GOps G) (endom b383 : Bool) (fam : Fam) (z : Int) (n : Nat) (a : G) : Bool :=
  if o.isInf a then false else
  match endom, fam with
  | true, .b12 =>
    let uv :=
      if b383 then
        (o.add (psiN o a 4) a, psiN o a 2)
      else
        (o.mul a z, psiN o a 1)
    o.onCurve a && o.eq uv.1 uv.2
  | true, .bn =>
    -- [z+1]P + [z]ψ(P) + [z]ψ²(P) == [2z]ψ³(P)
    let u := o.mul a z
    let v := psiN o u 1
    let u := o.add u a
    let u := o.add u v
    let v := psiN o v 1
    let u := o.add u v
    let v := psiN o v 1
    let v := o.dbl v
    o.onCurve a && o.eq u v
  | _, _ => orderCheck o n a

/-- the target group (multiplicative) -/
structure TOps (T : Type) where
  isOne : T → Bool
  isZero : T → Bool
  mul : T → T → T
  sqr : T → T
  /-- gt_inv -/
  inv : T → T
  /-- gt_frb(·, ·, i) -/
  frb : T → Nat → T
  /-- fp12_exp_cyc_sps(·, a, b, l, sign of the parameter) with the library's stored sparse form -/
  expSps : T → T
  /-- gt_exp -/
  exp : T → Int → T
  eq : T → T → Bool

variable {T : Type}

/-- fp12_test_cyc: a ≠ 0 and a^(p⁴)·a == a^(p²) -/
def testCyc (o : TOps T) (a : T) : Bool :=
  let t0 := o.frb a 4
  let t0 := o.mul t0 a
  let t1 := o.frb a 2
  !o.isZero a && o.eq t0 t1

/-- gt_is_valid (embedding degree 12) -/
def gtIsValid (o : TOps T) (b383 : Bool) (fam : Fam) (n : Nat) (a : T) : Bool :=
  if o.isOne a || o.isZero a then false else
  match fam with
  | .b12 =>
    let r :=
      if b383 then true
      else if testCyc o a then
        -- a^p == a^z
        let u := o.frb a 1
        let v := o.expSps a
        o.eq u v
      else false
    r && testCyc o a
  | .bn =>
    if !testCyc o a then false else
    let u := o.expSps a
    let v := o.frb u 1
    let u := o.mul u a
    let u := o.mul u v
    let v := o.frb v 1
    let u := o.mul u v
    let v := o.frb v 1
    let v := o.sqr v
    o.eq u v
  | .other =>
    let u := o.exp a ((n : Int) - 1)
    let u := o.inv u
    o.eq u a

/-! ### g1_mul / g2_mul / g*_mul_gen (src/pc/relic_pc_exp.c): which routine receives which scalar -/

/-- g1_mul / g2_mul: `bn_bits(b) <= RLC_DIG` → g*_mul_dig(|b| as one digit) followed by a negation for a negative b
    (first component true; this is also literally the one-digit path of ep_mul_basic / ep2_mul_basic, whose model the driver
    runs); otherwise ep_mul / ep2_mul on `b mod n` (bn_mod: the non-negative residue). -/
def mulRoute (w n : Nat) (k : Int) : Bool × Int :=
  if k.natAbs < 2 ^ w then (true, k) else (false, k % (n : Int))

/-- g1_mul_gen / g2_mul_gen: ep_mul_gen / ep2_mul_gen on `b mod n` -/
def genRoute (n : Nat) (k : Int) : Int := k % (n : Int)

end Relic.Model.PcValid
