/-
Carrier-independent vocabulary of the generated formula code (RelicVerif/Gen/*.lean): explicit field
operations, point representation with RELIC's coordinate flag, curve constants with the `opt_a` class.
The driver instantiates `FOps` with arithmetic modulo p; the theorems instantiate it with a Mathlib field.
-/
namespace Relic.Model.Formula

structure FOps (F : Type) where
  zero : F
  one : F
  add : F → F → F
  sub : F → F → F
  mul : F → F → F
  neg : F → F
  sqr : F → F
  dbl : F → F
  hlv : F → F
  inv : F → F
  ofNat : Nat → F
  isZero : F → Bool

inductive Coord where
  | basic | projc | jacob
deriving Repr, DecidableEq, Inhabited

/-- ep_curve_opt_a(): the class of the coefficient a (RLC_ZERO, RLC_ONE, RLC_TWO, RLC_TINY, RLC_MIN3, RLC_HUGE) -/
inductive OptA where
  | zero | one | two | tiny | min3 | huge
deriving Repr, DecidableEq, Inhabited

structure Pt (F : Type) where
  x : F
  y : F
  z : F
  coord : Coord

structure CurveC (F : Type) where
  a : F
  b : F
  optA : OptA

/-- arithmetic modulo p on Nat (used by the driver) -/
def invEuclid (m x : Nat) : Nat :=
  let rec go (fuel : Nat) (r0 r1 : Nat) (s0 s1 : Int) : Int :=
    match fuel with
    | 0 => s0
    | f + 1 => if r1 = 0 then s0 else go f r1 (r0 % r1) s1 (s0 - (r0 / r1 : Nat) * s1)
  ((go (2 * Nat.log2 m + 4) (x % m) m 1 0) % (m : Int)).toNat

def natOps (p : Nat) : FOps Nat where
  zero := 0
  one := 1 % p
  add a b := (a + b) % p
  sub a b := (a + p - b % p) % p
  mul a b := (a * b) % p
  neg a := (p - a % p) % p
  sqr a := (a * a) % p
  dbl a := (a + a) % p
  hlv a := (a * ((p + 1) / 2)) % p
  inv a := invEuclid p a
  ofNat n := n % p
  isZero a := a % p == 0

end Relic.Model.Formula
