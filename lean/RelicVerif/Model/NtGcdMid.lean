/-
Value-level model of bn_gcd_ext_mid (src/bn/relic_bn_gcd.c): Euclid's algorithm on (u, v) = (larger, smaller magnitude) with the
cofactor x of the smaller operand, stopped "halfway": the remainders around √u give the short lattice vectors (c, d), (e, f)
used for the GLV decomposition.  The outputs the C code does not write on a path keep the caller's values; the model takes them
as parameters (the harness passes freshly initialised = zero integers).  bn_srt is the model of Model/NtMod.lean.  No Mathlib.
-/
import RelicVerif.Model.NtMod

namespace Relic.Model.NtGcdMid

structure St where
  u : Int
  v : Int
  x : Int
  t : Int
  c : Int
  d : Int
  e : Int
  f : Int
  w : Int
  y : Int
  wait : Bool

/-- `while (!bn_is_zero(v)) { … }` -/
def midLoop (p : Int) : Nat → St → St
  | 0, s => s
  | fuel + 1, s =>
    if s.v = 0 then s
    else
      let q := s.u / s.v
      let r := s.u % s.v
      let u' := s.v
      let xn := s.t - q * s.x          -- s = t − q·x; t = x; x = s
      let t' := s.x
      -- if (wait) { e = r; f = −x; wait = 0 }
      let e1 := if s.wait then r else s.e
      let f1 := if s.wait then -xn else s.f
      -- if (u ≥ p) { c = r; d = −x; w = u; y = −t; wait = 1 }
      if u' ≥ p then midLoop p fuel ⟨u', r, xn, t', r, -xn, e1, f1, u', -t', true⟩
      else midLoop p fuel ⟨u', r, xn, t', s.c, s.d, e1, f1, s.w, s.y, false⟩

/-- bn_gcd_ext_mid(c, d, e, f, a, b) with the caller's prior values (c0, d0, e0, f0) of the outputs; `none` = bn_srt's error (unreachable) -/
def gcdExtMid (c0 d0 e0 f0 : Int) (a b : Int) : Option (Int × Int × Int × Int) :=
  if a = 0 then some ((b.natAbs : Int), 0, 0, f0)
  else if b = 0 then some ((a.natAbs : Int), 1, 1, f0)
  else
    let u : Int := if a.natAbs > b.natAbs then a.natAbs else b.natAbs
    let v : Int := if a.natAbs > b.natAbs then b.natAbs else a.natAbs
    match NtMod.bnSrt u with
    | none => none
    | some p =>
      let s := midLoop (p : Int) (v.toNat + 1) ⟨u, v, 1, 0, c0, d0, e0, f0, 0, 0, false⟩
      -- norms of (w, y) and (e, f): output (e, f) as the vector of smaller norm
      if s.y * s.y + s.w * s.w < s.e * s.e + s.f * s.f then some (s.c, s.d, s.w, s.y)
      else some (s.c, s.d, s.e, s.f)

end Relic.Model.NtGcdMid
