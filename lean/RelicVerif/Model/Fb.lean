/-
Models of the binary-field algorithms of src/fb/*.c and src/low/easy/relic_fb_*_low.c, on natural-number polynomials
with the digit structure of the C code made explicit (w = digit size in bits, n = number of digits):
 * fb_muln_low / fb_muld_low: López-Dahab comb with a table of the 16 multiples u(z)·b(z) (`mulLodah`);
 * fb_mul_karat_imp (one level): three half-size products (`mulKarat`);
 * fb_mul_basic: shift-and-add with a reduction after every shift (`mulBasic`);
 * fb_sqrl_low: squaring by the nibble-spreading table (`sqrTable`);
 * fb_rdcn_low (fb_rdct_low / fb_rdcp_low): digit-wise folding modulo z^m + z^a (+ z^b + z^c) + 1 (`rdcQuick`);
 * fb_srtn_low: square root by even/odd splitting and sqrt(z) (`srtSplit`);
 * fb_trcn_low: trace from the (at most three) coefficients with Tr(z^i) = 1 (`trcBits`);
 * fb_itrn_low: iterated squaring by a table of the images of u·z^(4i) (`itrTable`);
 * fb_inv_basic and fb_inv_itoht: the exponentiation chains, over an arbitrary monoid (`invBasicChain`, `invItohtChain`).
The theorems are in Lemmas/Fb.lean. Executable, no Mathlib.
-/
import RelicVerif.Spec.Gf2
import RelicVerif.Model.BinFast

namespace Relic.Model.Fb
open Relic.Spec.Gf2

/-- digit j of a (w bits) -/
def digitOf (w a j : Nat) : Nat := (a >>> (w * j)) % 2 ^ w

/-! ### López-Dahab comb (fb_muln_low, fb_muld_low) -/

/-- one pass over the digits of a for nibble position k: c ^= T[nibble k of digit j] · z^(w j) -/
def combRow (w n : Nat) (t : Array Nat) (a k c : Nat) : Nat :=
  (List.range n).foldl (fun c j => c ^^^ (t.getD ((digitOf w a j >>> (4 * k)) % 16) 0 <<< (w * j))) c

/-- for k = w/4 - 1 down to 1: row k, then c <<= 4; finally row 0 -/
def mulLodah (w n a b : Nat) : Nat :=
  let t := BinFast.tab16 b
  let c := (List.range (w / 4 - 1)).foldl (fun c i => combRow w n t a (w / 4 - 1 - i) c <<< 4) 0
  combRow w n t a 0 c

/-! ### Karatsuba, one level (fb_mul_karat_imp with level ≤ 1): h = ⌊n/2⌋ low digits -/
def mulKarat (mul : Nat → Nat → Nat) (w n a b : Nat) : Nat :=
  let h := n / 2
  let a0 := a % 2 ^ (w * h)
  let a1 := a >>> (w * h)
  let b0 := b % 2 ^ (w * h)
  let b1 := b >>> (w * h)
  let a0b0 := mul a0 b0
  let a1b1 := mul a1 b1
  let c := a0b0 ^^^ (a1b1 <<< (2 * w * h))
  -- c += (a0b0 + a1b1) << h digits, then c += (a0 + a1)(b0 + b1) << h digits
  let c := c ^^^ (a0b0 <<< (w * h)) ^^^ (a1b1 <<< (w * h))
  c ^^^ (mul (a0 ^^^ a1) (b0 ^^^ b1) <<< (w * h))

/-! ### shift-and-add with interleaved reduction (fb_mul_basic) -/
def mulBasic (F : Field) (rdc : Nat → Nat) (a b : Nat) : Nat :=
  let t0 := if a % 2 = 1 then b else 0
  let st := (List.range (F.m - 1)).foldl (fun (st : Nat × Nat) i =>
    let s := rdc (st.1 <<< 1)
    (s, if a.testBit (i + 1) then st.2 ^^^ s else st.2)) (b, t0)
  if bitLen st.2 > F.m then st.2 ^^^ F.f else st.2

/-! ### squaring by bit spreading (fb_sqrl_low): table[u] spreads the four bits of u over eight -/
def spread4 (u : Nat) : Nat :=
  (u % 2) + 4 * ((u / 2) % 2) + 16 * ((u / 4) % 2) + 64 * ((u / 8) % 2)

/-- nn = number of nibbles of the operand -/
def sqrTable (nn a : Nat) : Nat :=
  (List.range nn).foldl (fun c i => c ^^^ (spread4 ((a >>> (4 * i)) % 16) <<< (8 * i))) 0

/-! ### fast reduction (fb_rdcn_low): f = z^m + Σ_{e ∈ exps} z^e, exps = [a, 0] or [a, b, c, 0] -/
def foldDigit (exps : List Nat) (d pos : Nat) (t : Nat) : Nat :=
  exps.foldl (fun t e => t ^^^ (d <<< (pos + e))) t

def rdcQuick (w n m : Nat) (exps : List Nat) (t : Nat) : Nat :=
  let sh := m / w + 1
  -- digits 2n-1 … sh: remove the digit, add digit·z^(w i - m)·(Σ z^e)
  let t := (List.range (2 * n - sh)).foldl (fun t idx =>
    let i := 2 * n - 1 - idx
    let d := digitOf w t i
    foldDigit exps d (w * i - m) (t ^^^ (d <<< (w * i)))) t
  -- the coefficients z^m … of digit sh - 1
  let d := digitOf w t (sh - 1) >>> (m % w)
  foldDigit exps d 0 (t ^^^ (d <<< m))

/-! ### square root by even/odd splitting (fb_srtn_low): sqrt(a) = Σ a_{2i} z^i + sqrt(z)·Σ a_{2i+1} z^i -/
def compress (a off m : Nat) : Nat :=
  (List.range ((m + 1) / 2)).foldl (fun c i => if a.testBit (2 * i + off) then c ^^^ (1 <<< i) else c) 0

def srtSplit (mul : Nat → Nat → Nat) (srz m a : Nat) : Nat :=
  compress a 0 m ^^^ mul srz (compress a 1 m)

/-! ### trace from selected coefficients (fb_trcn_low) -/
def trcBits (a : Nat) (ts : List Nat) : Nat :=
  ts.foldl (fun r i => r ^^^ (if a.testBit i then 1 else 0)) 0

/-! ### table-driven linear maps (fb_itrn_low: tab i u = image of u·z^(4i)) -/
def itrTable (tab : Nat → Nat → Nat) (nn a : Nat) : Nat :=
  (List.range nn).foldl (fun c i => c ^^^ tab i ((a >>> (4 * i)) % 16)) 0

/-! ### inversion by exponentiation chains, over a carrier with multiplication and squaring -/

structure MOps (M : Type) where
  one : M
  mul : M → M → M

def MOps.sqr {M : Type} (o : MOps M) (a : M) : M := o.mul a a
def MOps.sqrN {M : Type} (o : MOps M) : Nat → M → M
  | 0, a => a
  | n + 1, a => MOps.sqrN o n (o.sqr a)

/-- fb_inv_basic for odd m: u = a², v = 1, x = (m-1)/2; while x ≠ 0: u = u·u^(2^x); x even: x = x/2; x odd: v = v·u, u = u², x = (x-1)/2 -/
def invBasicChain {M : Type} (o : MOps M) (m : Nat) (a : M) : M :=
  let rec go (fuel x : Nat) (u v : M) : M :=
    match fuel with
    | 0 => v
    | fuel + 1 =>
      if x = 0 then v
      else
        let t := o.sqrN x u
        let u := o.mul u t
        if x % 2 = 0 then go fuel (x / 2) u v
        else go fuel ((x - 1) / 2) (o.sqr u) (o.mul v u)
  go (m + 1) ((m - 1) / 2) (o.sqr a) o.one

/-- the exponent fb_inv_basic raises a to (the same loop on exponents) -/
def invBasicExp (m : Nat) : Nat :=
  let rec go (fuel x eu ev : Nat) : Nat :=
    match fuel with
    | 0 => ev
    | fuel + 1 =>
      if x = 0 then ev
      else
        let eu := eu + eu * 2 ^ x
        if x % 2 = 0 then go fuel (x / 2) eu ev
        else go fuel ((x - 1) / 2) (2 * eu) (ev + eu)
  go (m + 1) ((m - 1) / 2) 2 0

/-- fb_inv_itoht: chain entry i-1 (for i ≥ 2) is (x << 8) + y: table[i] = table[x]^(2^(u_y)) · table[y], u_i = u_x + u_y (or 2·u_{i-1}
    when x = y); table[0] = a (u_0 = 1), table[1] = a²·a (u_1 = 2); result table[len]² -/
def invItohtChain {M : Type} (o : MOps M) (chain : List Nat) (a : M) : M × Nat :=
  let t1 := o.mul (o.sqr a) a
  let st := chain.tail.foldl (fun (st : List M × List Nat) ch =>
    let x := ch / 256
    let y := ch % 256
    let ui := if x = y then 2 * st.2.getLastD 0 else st.2.getD x 0 + st.2.getD y 0
    let ti := o.mul (o.sqrN (st.2.getD y 0) (st.1.getD x a)) (st.1.getD y a)
    (st.1 ++ [ti], st.2 ++ [ui])) ([a, t1], [1, 2])
  (o.sqr (st.1.getLastD a), st.2.getLastD 0)

end Relic.Model.Fb
