/-
Model of the point encodings of src/ed/relic_ed_util.c (ed_size_bin, ed_read_bin, ed_write_bin) and
src/ed/relic_ed_pck.c (ed_pck / ed_upk) on affine points over Z/pZ.

RELIC's own convention (not RFC 8032): one tag byte (0 alone = neutral element, 2|s = compressed with sign bit s, 4 =
uncompressed), then y big-endian on RLC_FP_BYTES bytes, then (uncompressed only) x. The sign bit s of x is the low bit of
the *stored* representation of x, i.e. of x·R mod p in the Montgomery builds (fp_norm + fp_get_bit on the raw digits).
The field square root and inversion are parameters `srt`, `inv` (class-C algorithms of C02) with the contracts "returns a root
exactly when one exists" and "a·inv a ≡ 1 for a ≢ 0".
-/
import RelicVerif.Spec.Edwards
import RelicVerif.Model.EpConv

namespace Relic.Model.EdConv
open Relic.Spec.Edwards
open Relic.Model.EpConv (beBytes beVal)

structure Ctx where
  c : Curve
  nb : Nat                 -- RLC_FP_BYTES
  R : Nat                  -- Montgomery radix
  srt : Nat → Option Nat   -- fp_srt
  inv : Nat → Nat          -- fp_inv

abbrev Bytes := List UInt8

/-- the compression bit of x: fp_get_bit(fp_norm(x), 0) on the stored (Montgomery) form -/
def signBit (x : Ctx) (v : Nat) : Nat := (v * x.R % x.c.p) % 2

def isNeutral (x : Ctx) (P : Point) : Bool := P.1 == 0 && P.2 == 1 % x.c.p

/-- ed_pck: (sign bit of x, y) -/
def pck (x : Ctx) (P : Point) : Nat × Nat := (signBit x P.1, P.2)

/-- ed_size_bin -/
def sizeBin (x : Ctx) (P : Point) (pack : Bool) : Nat :=
  if isNeutral x P then 1 else if pack then x.nb + 1 else 2 * x.nb + 1

/-- ed_write_bin: none = ERR_NO_BUFFER; the buffer is zero-filled first -/
def writeBin (x : Ctx) (len : Nat) (P : Point) (pack : Bool) : Option Bytes :=
  if isNeutral x P then (if len < 1 then none else some (List.replicate len 0))
  else if pack then
    if len < x.nb + 1 then none
    else some ([UInt8.ofNat (2 + signBit x P.1)] ++ beBytes P.2 x.nb ++ List.replicate (len - (x.nb + 1)) 0)
  else
    if len < 2 * x.nb + 1 then none
    else some ([4] ++ beBytes P.2 x.nb ++ beBytes P.1 x.nb ++ List.replicate (len - (2 * x.nb + 1)) 0)

/-- fp_read_bin on exactly nb bytes: none unless the value is below p -/
def fpRead (x : Ctx) (b : Bytes) : Option Nat :=
  if b.length ≠ x.nb then none else if beVal b < x.c.p then some (beVal b) else none

/-- the quantity whose square root ed_upk takes: (y² − 1)/(d·y² − a) -/
def upkRhs (x : Ctx) (py : Nat) : Nat :=
  let c := x.c
  fsub c (py * py) 1 * x.inv (fsub c (c.d * (py * py % c.p)) c.a) % c.p

/-- ed_upk: recover x from y and the sign bit; none = no x exists (the C function does not notice: it returns 1 and
    leaves whatever fp_srt left; ed_read_bin catches that with ed_on_curve) or the denominator d·y² − a vanishes
    (fp_inv throws) -/
def upk (x : Ctx) (py bit : Nat) : Option Point :=
  let c := x.c
  if fsub c (c.d * (py * py % c.p)) c.a = 0 then none else
  match x.srt (upkRhs x py) with
  | none => none
  | some r => if signBit x r ≠ bit then some ((c.p - r) % c.p, py) else some (r, py)

/-- ed_read_bin: none = error (ERR_NO_BUFFER / ERR_NO_VALID) -/
def readBin (x : Ctx) (bin : Bytes) : Option Point :=
  if bin.length = 1 then (if bin.head? = some 0 then some (neutral x.c) else none)
  else if bin.length = x.nb + 1 then
    match fpRead x (bin.drop 1) with
    | none => none
    | some py =>
      let tag := (bin.headD 0).toNat
      if tag ≠ 2 ∧ tag ≠ 3 then none
      else match upk x py (tag - 2) with
        | none => none
        | some P => if onCurve x.c P then some P else none
  else if bin.length = 2 * x.nb + 1 then
    if bin.head? ≠ some 4 then none
    else match fpRead x ((bin.drop 1).take x.nb), fpRead x (bin.drop (1 + x.nb)) with
      | some py, some px => if onCurve x.c (px, py) then some (px, py) else none
      | _, _ => none
  else none

end Relic.Model.EdConv
