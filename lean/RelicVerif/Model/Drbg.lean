/-
Model of src/rand/relic_rand_hashd.c (RAND = HASHD, SHA-256: RLC_RAND_SIZE = 111 = 1 + 55 + 55) and of
bn_rand / bn_rand_mod (src/bn/relic_bn_util.c). The context holds ctx->rand as a byte list
(prefix byte, V, C), ctx->counter and ctx->seeded. The hash is a parameter.
-/
import RelicVerif.Spec.HashDrbg

namespace Relic.Model.Drbg
open Relic.Spec.HashDrbg (Bytes i2os os2i)

structure Cfg where
  hash : Bytes → Bytes
  mdLen : Nat := 32
  len : Nat := 55            -- (RLC_RAND_SIZE - 1) / 2

structure Ctx where
  rand : Bytes               -- 1 + 2*len bytes
  counter : Nat
  seeded : Bool

/-- rand_hash: Hash_df with the counter byte buf[0]++ and util_conv_big(8 * out_len) -/
def randHash (c : Cfg) (outLen : Nat) (inp : Bytes) : Bytes :=
  let len := (outLen + c.mdLen - 1) / c.mdLen
  let j := i2os ((8 * outLen) % 2 ^ 32) 4
  -- each iteration copies RLC_MIN(RLC_MD_LEN, remaining) bytes
  let rec go (i : Nat) (n : Nat) (remaining : Nat) (acc : Bytes) : Bytes :=
    match n with
    | 0 => acc
    | n + 1 =>
      let h := c.hash ([UInt8.ofNat ((1 + i) % 256)] ++ j ++ inp)
      go (i + 1) n (remaining - c.mdLen) (acc ++ h.take (min c.mdLen remaining))
  go 0 len outLen []

/-- rand_inc: big-endian add of an int "digit"; `unsigned int` accumulator (after the F4 repair) -/
def randIncRev : List UInt8 → Nat → List UInt8 × Nat
  | [], carry => ([], carry)
  | d :: ds, carry =>
    let s := (d.toNat + carry) % 2 ^ 32
    let (rs, cout) := randIncRev ds (s / 256)
    (UInt8.ofNat (s % 256) :: rs, cout)

def randInc (data : Bytes) (digit : Nat) : Bytes × Nat :=
  let (r, c) := randIncRev data.reverse digit
  (r.reverse, c)

/-- rand_add: big-endian byte-wise addition, int16_t accumulator (max 255 + 255 + 1: no wrap) -/
def randAddRev : List UInt8 → List UInt8 → Nat → List UInt8 × Nat
  | s :: ss, h :: hs, carry =>
    let t := s.toNat + h.toNat + carry
    let (rs, cout) := randAddRev ss hs (t / 256)
    (UInt8.ofNat (t % 256) :: rs, cout)
  | _, _, carry => ([], carry)

def randAdd (state hash : Bytes) : Bytes × Nat :=
  let (r, c) := randAddRev state.reverse hash.reverse 0
  (r.reverse, c)

/-- rand_gen: Hashgen on a copy of V, incremented with rand_inc(data, len, 1) -/
def randGen (c : Cfg) (v : Bytes) (outLen : Nat) : Bytes :=
  let m := (outLen + c.mdLen - 1) / c.mdLen
  let rec go (n : Nat) (data : Bytes) (remaining : Nat) (acc : Bytes) : Bytes :=
    match n with
    | 0 => acc
    | n + 1 =>
      let h := c.hash data
      go n (randInc data 1).1 (remaining - c.mdLen) (acc ++ h.take (min c.mdLen remaining))
  go m v outLen []

/-- rand_bytes; none = ERR_NO_VALID (request above 2^16 bytes), state untouched -/
def randBytes (c : Cfg) (x : Ctx) (size : Nat) : Option (Bytes × Ctx) :=
  if size > 2 ^ 16 then none
  else
    let len := c.len
    let v := (x.rand.drop 1).take len
    let cc := (x.rand.drop (1 + len)).take len
    let out := randGen c v size
    -- ctx->rand[0] = 0x3; md_map(hash, ctx->rand, 1 + len)
    let hash := c.hash ([0x03] ++ v)
    -- rand_add(ctx->rand + 1, ctx->rand + 1 + len, len)
    let v1 := (randAdd v cc).1
    -- carry = rand_add(ctx->rand + 1 + (len - RLC_MD_LEN), hash, RLC_MD_LEN)
    let (lo, carry) := randAdd (v1.drop (len - c.mdLen)) hash
    -- rand_inc(ctx->rand, len - RLC_MD_LEN + 1, carry): through the prefix byte
    let (hi, _) := randInc ([0x03] ++ v1.take (len - c.mdLen)) carry
    -- rand_inc(ctx->rand, len + 1, ctx->counter)
    let (all, _) := randInc (hi ++ lo) x.counter
    some (out, { rand := all ++ cc, counter := x.counter + 1, seeded := x.seeded })

/-- rand_seed; none = ERR_NO_VALID (empty seed) -/
def randSeed (c : Cfg) (x : Ctx) (buf : Bytes) : Option Ctx :=
  if buf.isEmpty then none
  else
    let len := c.len
    let v :=
      if !x.seeded then randHash c len buf
      else randHash c len ([0x01] ++ (x.rand.drop 1).take len ++ buf)
    let cc := randHash c len ([0x00] ++ v)
    some { rand := [0x00] ++ v ++ cc, counter := 1, seeded := true }

def init : Ctx := { rand := List.replicate 111 0, counter := 0, seeded := false }

open Relic.Spec.HashDrbg (Op Out)

def step (c : Cfg) (x : Ctx) : Op → Ctx × Out
  | .seed d =>
    match randSeed c x d with
    | none => (x, .err)
    | some x' => (x', .ok [])
  | .gen n =>
    match randBytes c x n with
    | none => (x, .err)
    | some (out, x') => (x', .ok out)

def run (c : Cfg) : Ctx → List Op → List Out
  | _, [] => []
  | x, op :: ops => let (x', o) := step c x op; o :: run c x' ops

end Relic.Model.Drbg
