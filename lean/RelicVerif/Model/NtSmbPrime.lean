/-
bn_is_prime_rabin (src/bn/relic_bn_prime.c): decision logic of the Miller-Rabin test with the first `tests` entries of the table
`primes[]` as bases.  The call bn_mxp(y, t, r, a) is modelled as the mathematical power (square-and-multiply `powMod`, proved equal to
t^r mod a in Lemmas/NtSmbPrime.lean).  No Mathlib.
-/
namespace Relic.Model.NtSmbPrime

/-- the first 48 entries of `primes[]` (the whole table for WSIZE = 8; at most 27 are ever used as bases) -/
def primesTab : List Nat :=
  [0x02, 0x03, 0x05, 0x07, 0x0B, 0x0D, 0x11, 0x13, 0x17, 0x1D, 0x1F, 0x25, 0x29, 0x2B, 0x2F, 0x35,
   0x3B, 0x3D, 0x43, 0x47, 0x49, 0x4F, 0x53, 0x59, 0x61, 0x65, 0x67, 0x6B, 0x6D, 0x71, 0x7F, 0x83,
   0x89, 0x8B, 0x95, 0x97, 0x9D, 0xA3, 0xA7, 0xAD, 0xB3, 0xB5, 0xBF, 0xC1, 0xC5, 0xC7, 0xD3, 0xDF]

def bitLen (n : Nat) : Nat := if n = 0 then 0 else Nat.log2 n + 1

/-- Table 4.4 of the Handbook as coded -/
def tests (b : Nat) : Nat :=
  if b ≥ 1300 then 2 else if b ≥ 850 then 3 else if b ≥ 650 then 4 else if b ≥ 550 then 5 else if b ≥ 450 then 6
  else if b ≥ 400 then 7 else if b ≥ 350 then 8 else if b ≥ 300 then 9 else if b ≥ 250 then 12 else if b ≥ 200 then 15
  else if b ≥ 150 then 18 else 27

def powMod (b e n : Nat) : Nat :=
  if h : e = 0 then 1 % n
  else
    let x := powMod b (e / 2) n
    let x2 := x * x % n
    if e % 2 = 1 then x2 * b % n else x2
termination_by e
decreasing_by omega

/-- `while (!bn_is_zero(r) && bn_is_even(r)) { s++; r >>= 1; }` : returns (s, r); fuel ≥ bit length -/
def split : Nat → Nat → Nat → Nat × Nat
  | 0, s, r => (s, r)
  | f + 1, s, r => if r ≠ 0 ∧ r % 2 = 0 then split f (s + 1) (r / 2) else (s, r)

/-- `j = 1; while (j <= s - 1 && y != n1) { y = y^2 mod a; if (y == 1) break; ++j; }` with k = s - 1 rounds left -/
def sqLoop (n n1 : Nat) : Nat → Nat → Nat
  | 0, y => y
  | k + 1, y =>
    if y = n1 then y else
    let y' := y * y % n
    if y' = 1 then y' else sqLoop n n1 k y'

/-- one base: false = "composite" -/
def basePasses (n n1 r s t : Nat) : Bool :=
  let y := powMod t r n
  if y ≠ 1 ∧ y ≠ n1 then decide (sqLoop n n1 (s - 1) y = n1) else true

/-- the `for` loop over the bases, with the early acceptance `if (bn_cmp(t, n1) != RLC_LT) { result = 1; break; }` -/
def basesLoop (n n1 r s : Nat) : List Nat → Bool
  | [] => true
  | t :: ts => if t ≥ n1 then true else if basePasses n n1 r s t then basesLoop n n1 r s ts else false

/-- bn_is_prime_rabin -/
def rabin (a : Int) : Bool :=
  if a < 2 then false
  else if a = 2 then true
  else if a % 2 = 0 then false
  else
    let n := a.toNat
    let n1 := n - 1
    let (s, r) := split (bitLen n1 + 1) 0 n1
    basesLoop n n1 r s (primesTab.take (tests (bitLen n)))

/-- how many bases were really exponentiated (coverage label) -/
def basesUsed (n : Nat) : Nat := ((primesTab.take (tests (bitLen n))).takeWhile (fun t => t < n - 1)).length

end Relic.Model.NtSmbPrime
