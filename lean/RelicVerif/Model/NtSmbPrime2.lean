/-
bn_is_prime_basic, bn_is_prime_solov, bn_is_prime (src/bn/relic_bn_prime.c): decision logic.
* basic: `if (a == 1) return 0;` then trial division by ALL entries of primes[] (BASIC_TESTS = table size: 512 for WSIZE > 8, 48 for WSIZE = 8):
  `bn_mod_dig(&t, a, p); if (t == 0 && bn_cmp_dig(a, p) != RLC_EQ) { result = 0; break; }`.
* solov: 100 rounds; the base t0 of each round comes from the random generator (drawn until 2 ≤ t0 mod a): here the list of bases is a PARAMETER.
  Per round: t1 = t0^((a-1)/2) mod a; reject unless t1 ∈ {1, a-1}; j = bn_smb_jac(t0, a) (a parameter `J` as well: the model of bn_smb_jac is
  plugged in by the caller); reject unless t1 ≡ j (mod a).
* bn_is_prime: `basic` then `rabin`.
No Mathlib.
-/
import RelicVerif.Model.NtSmbPrime
import RelicVerif.Model.NtSmbPrimeTab

namespace Relic.Model.NtSmbPrime

/-- the trial-division loop over the table: `a` = |a|, `pos` = (a is non-negative) (bn_cmp_dig of a negative number is never RLC_EQ) -/
def basicLoop (a : Nat) (pos : Bool) : List Nat → Bool
  | [] => true
  | p :: ps => if a % p = 0 ∧ ¬ (pos = true ∧ a = p) then false else basicLoop a pos ps

/-- bn_is_prime_basic on a build with digit width w -/
def basic (w : Nat) (a : Int) : Bool :=
  if a = 1 then false else basicLoop a.natAbs (decide (0 ≤ a)) (primesAll.take (basicTests w))

/-- one round of bn_is_prime_solov for the base t (2 ≤ t < n), `J t n` = what bn_smb_jac(t, n) returns (-1, 0, 1) -/
def solovRound (J : Int → Int → Int) (n t : Nat) : Bool :=
  let t1 := powMod t ((n - 1) >>> 1) n
  if t1 ≠ 1 ∧ t1 ≠ n - 1 then false
  else
    -- t2 = |j| with the sign of j, then both reduced mod n (non-negative remainders)
    let t2 : Int := J t n
    decide (((t1 : Int) % (n : Int)) = t2 % (n : Int))

/-- the rounds of bn_is_prime_solov over a given list of bases (the C code draws 100 of them) -/
def solov (J : Int → Int → Int) (n : Nat) : List Nat → Bool
  | [] => true
  | t :: ts => if solovRound J n t then solov J n ts else false

/-- bn_is_prime: `if (!bn_is_prime_basic(a)) return 0; if (!bn_is_prime_rabin(a)) return 0; return 1;` -/
def isPrime (w : Nat) (a : Int) : Bool :=
  if !basic w a then false else if !rabin a then false else true

end Relic.Model.NtSmbPrime
