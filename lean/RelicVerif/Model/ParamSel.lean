/-
Selection of a built-in parameter set by identifier (fp_param_set, ep_param_set): the observable state is the
identifier the getter reports and the installed modulus (resp. the installed curve); an identifier that has no
entry in the table compiled into the build is *unsupported* and must be reported without changing what is installed.
-/
import RelicVerif.Model.ParamBase

namespace Relic.Model.Param

/-- what fp_param_get() and fp_prime_get() report -/
structure FieldSel where
  id : Nat
  prime : Nat
deriving Repr, DecidableEq

/-- fp_param_set: `true` = accepted, `false` = reported through the error mechanism -/
def selectField (fs : List FieldParam) (st : FieldSel) (id : Nat) : FieldSel × Bool :=
  match fs.find? (·.id == id) with
  | some f => ({ id := id, prime := f.prime }, true)
  | none => (st, false)

/-- what the curve getters report: modulus, generator, order -/
structure CurveSel where
  prime : Nat
  gx : Nat
  gy : Nat
  r : Nat
deriving Repr, DecidableEq

/-- ep_param_set: an accepted identifier installs its field and its curve; an unsupported one is reported and installs nothing -/
def selectCurve (fs : List FieldParam) (cs : List CurveParam) (st : CurveSel) (id : Nat) : CurveSel × Bool :=
  match cs.find? (·.id == id) with
  | some c =>
    match lookupField fs c.field with
    | some f => ({ prime := f.prime, gx := c.gx, gy := c.gy, r := c.r }, true)
    | none => (st, false)
  | none => (st, false)

/-- one step of the context's selection state: an accepted identifier installs its set, a rejected one changes nothing -/
def selStep (fs : List FieldParam) (cs : List CurveParam) (st : CurveSel) (id : Nat) : CurveSel := (selectCurve fs cs st id).1


end Relic.Model.Param
