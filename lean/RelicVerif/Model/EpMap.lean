/-
Model of the C code of src/tmpl/relic_ep_map_tmpl.h and src/ep/relic_ep_map.c (statement by statement, over the same
operation record as the specification, so that both can be run by the driver and compared by the theorems):

  TMPL_MAP_SSWU      `sswuC`    – the exceptional-case patch (−u substituted for the vanishing denominator, "+1" skipped),
                                   g(x2) obtained as u³t⁶·g(x1) instead of from the curve equation
  TMPL_MAP_SVDW      `svdwC`    – inv0 by substitution of g(u), the three candidates, constants taken from the context
  EP_MAP_APPLY_MAP   `applySign` – sign of y made equal to the sign of t (fp_is_even on both)
  TMPL_MAP_HORNER    `horner`   – c = coeffs[deg]; for i = deg … 1: c = c·a + coeffs[i−1]
  TMPL_MAP_ISOGENY_MAP `isoC`   – the four evaluations and the (EP_ADD = PROJC) projective result (Nx·Dy : Ny·Dx·y : Dx·Dy)
  ep_map_swift_impl  `swiftC`   – the a = 0 branch (h0 … h8, n1, n2, d1)
  fp_srt             `fpSrt`    – which of the two roots the library returns
No Mathlib.
-/
import RelicVerif.Spec.HashToCurve

namespace Relic.Model.EpMap
open Relic.Spec.H2C

section generic
variable {F : Type} (O : MapOps F)

/-- the constants `ep_curve_set_map` leaves in the context (ctx->ep_map_u, ctx->ep_map_c[0..4]) -/
structure MapCtx (F : Type) where
  u : F
  c0 : F
  c1 : F
  c2 : F
  c3 : F
  c4 : F

/-- TMPL_MAP_SSWU: c0 = −b/a, c2 = a, c3 = b (of the curve, or of the isogenous curve), u = Z -/
def sswuPre (K : MapCtx F) (t : F) : F × F :=
  let t0 := O.mul (O.mul t t) K.u                -- u·t²
  let t1 := O.mul t0 t0                          -- u²·t⁴
  let t2 := O.add t1 t0
  let e1 := O.isZero t2
  let t3 := O.neg K.u
  let t2 := if e1 then t3 else t2                -- exception: −u instead of u²t⁴ + ut²
  let t2 := O.inv0 t2
  let t3 := O.add t2 O.one
  let t2 := if e1 then t2 else t3                -- add 1 unless exceptional
  let x := O.mul t2 K.c0
  let y := O.add (O.mul (O.add (O.mul x x) K.c2) x) K.c3    -- g(x1) = (x² + a)·x + b
  let t2 := O.mul t0 x                           -- x2 = u·t²·x1
  let t1 := O.mul t0 t1                          -- u³·t⁶
  let t3 := O.mul t1 y                           -- "g(x2)" = u³t⁶·g(x1)
  let e := O.isSq y
  let x := if e then x else t2
  let y := if e then y else t3
  (x, y)

/-- … followed by fp_srt (the caller throws ERR_NO_VALID when the value is not a square) -/
def sswuC (K : MapCtx F) (t : F) : F × F := ((sswuPre O K t).1, O.sqrt (sswuPre O K t).2)

/-- the curve's right-hand side as ep_rhs computes it: (x² + a)·x + b -/
def rhsC (a b x : F) : F := O.add (O.mul (O.add (O.mul x x) a) x) b

/-- TMPL_MAP_SVDW: c0 = g(u), c1 = −u/2, c2 = sqrt(−g(u)(3u² + 4a)), c3 = −4g(u)/(3u² + 4a) -/
def svdwPre (a b : F) (K : MapCtx F) (t : F) : F × F :=
  let t1 := O.mul (O.mul t t) K.c0
  let t2 := O.add t1 O.one
  let t1 := O.neg (O.sub t1 O.one)
  let t3 := O.mul t1 t2
  let e0 := O.isZero t3
  let t3 := if e0 then K.c0 else t3
  let t3 := O.inv0 t3
  let t3 := if e0 then O.zero else t3
  let t4 := O.mul (O.mul (O.mul t t1) t3) K.c2
  let x := O.sub K.c1 t4
  let y := rhsC O a b x
  let e0 := O.isSq y
  let t4 := O.add K.c1 t4
  let x := if e0 then x else t4
  let y := if e0 then y else rhsC O a b x
  let e1 := O.isSq y
  let s := O.mul (O.mul t2 t2) t3
  let s := O.add (O.mul (O.mul s s) K.c3) K.u
  let x := if e1 then x else s
  let y := if e1 then y else rhsC O a b x
  (x, y)

def svdwC (a b : F) (K : MapCtx F) (t : F) : F × F := ((svdwPre O a b K t).1, O.sqrt (svdwPre O a b K t).2)

/-- EP_MAP_APPLY_MAP: neg = is_even(t); map; neg = neg != is_even(y); y = neg ? −y : y -/
def applySign (t : F) (xy : F × F) : F × F :=
  let neg := (!O.sgn0 t) != (!O.sgn0 xy.2)
  (xy.1, if neg then O.neg xy.2 else xy.2)

/-- TMPL_MAP_HORNER on coeffs[0..deg] (ascending): start from the leading coefficient -/
def horner (cs : List F) (a : F) : F :=
  match cs.reverse with
  | [] => O.zero
  | lead :: rest => rest.foldl (fun c ci => O.add (O.mul c a) ci) lead

/-- TMPL_MAP_ISOGENY_MAP with TMPL_MAP_ISOMAP_NORM for EP_ADD = PROJC: (X : Y : Z) = (Nx·Dy : y·Ny·Dx : Dx·Dy) -/
def isoC (I : Iso F) (xy : F × F) : F × F × F :=
  let t0 := horner O I.xn xy.1
  let t1 := horner O I.yn xy.1
  let t2 := horner O I.yd xy.1
  let t3 := horner O I.xd xy.1
  (O.mul t0 t2, O.mul (O.mul xy.2 t1) t3, O.mul t2 t3)

/-- ep_map_swift_impl, branch b ≠ 0 ∧ a = 0: the three candidates, or none when the common denominator w vanishes -/
def swiftC (b tau t1 t2 : F) : Option (F × F × F) :=
  let h0 := O.mul (O.mul t1 t1) t1
  let h1 := O.mul t2 t2
  let h2 := O.sub (O.add h0 b) h1
  let h3 := O.add (O.add h1 h1) h2
  let x3 := O.mul t1 tau
  let v := O.mul h2 x3
  let x3 := O.mul x3 t2
  let x3 := O.add x3 x3
  let x1 := O.mul (O.sub v (O.mul t1 h3)) x3
  let y := O.add h3 h3
  let y := O.mul y y
  let w := O.mul h3 x3
  let w := O.add w w
  if O.isZero w then none else
  let w := O.inv0 w
  let px := O.mul x1 w
  let x2 := O.neg (O.add t1 px)
  let x3 := O.mul y w
  let x3 := O.add (O.mul x3 x3) t1
  some (px, x2, x3)

/-- the selection and sign of ep_map_swift_impl after the candidates: x3 over x2 over x1; y negated iff is_even(y) xor s -/
def swiftSelPre (a b : F) (c : F × F × F) : F × F :=
  let y := rhsC O a b c.1
  let v := rhsC O a b c.2.1
  let w := rhsC O a b c.2.2
  let c2 := O.isSq v
  let c3 := O.isSq w
  let y := if c2 then v else y
  let x := if c2 then c.2.1 else c.1
  let y := if c3 then w else y
  let x := if c3 then c.2.2 else x
  (x, y)

def swiftSelC (a b : F) (c : F × F × F) (s : Bool) : F × F :=
  let xy := swiftSelPre O a b c
  let y := O.sqrt xy.2
  (xy.1, if (!O.sgn0 y) != s then O.neg y else y)

end generic

/-- fp_srt on a square: a^((p+1)/4) when p ≡ 3 (mod 4); otherwise Tonelli–Shanks followed by the choice of the even root -/
def fpSrt (p a : Nat) : Nat :=
  let r := sqrtMod p a
  if p % 4 = 3 then r else if r % 2 = 1 then (p - r) % p else r

/-- the operation record with the library's root choice -/
def cOps (p : Nat) : MapOps Nat := { natMapOps p with sqrt := fpSrt p }

end Relic.Model.EpMap
