/-
Scratch test (NOT imported by anything): the word-level model of Model/Rijndael.lean against the FIPS-197 text of
Spec/Aes.lean on the appendix C vectors and on pseudo-random keys / blocks.
-/
import RelicVerif.Spec.Aes
import RelicVerif.Model.Rijndael

namespace Relic.Model.RijndaelTest
open Relic.Spec.Aes Relic.Model

def seqBytes (n : Nat) : List UInt8 := (List.range n).map UInt8.ofNat
def ptC : List UInt8 := (List.range 16).map fun i => UInt8.ofNat (i * 0x11)
def hex (s : String) : List UInt8 :=
  let cs := s.toList
  let v (c : Char) : Nat := if c.isDigit then c.toNat - 48 else c.toNat - 87
  (List.range (cs.length / 2)).map fun i => UInt8.ofNat (16 * v (cs.getD (2 * i) '0') + v (cs.getD (2 * i + 1) '0'))

/-- FIPS-197 appendix C.1 / C.2 / C.3 -/
def kat : List (Nat × List UInt8) :=
  [(16, hex "69c4e0d86a7b0430d8cdb78070b4c55a"),
   (24, hex "dda97ca4864cdfe06eaf70a0ec0d7191"),
   (32, hex "8ea2b7ca516745bfeafc49904b496089")]

def katOk : Bool := kat.all fun (n, ct) =>
  let key := seqBytes n
  Rijndael.aesE key ptC == ct && Rijndael.aesD key ct == ptC &&
  cipher (keyExpansion key) ptC == ct && invCipher (keyExpansion key) ct == ptC

def lcg (s : Nat) : Nat := (s * 6364136223846793005 + 1442695040888963407) % 2^64
def lcgBytes : Nat → Nat → List UInt8 × Nat
  | 0, s => ([], s)
  | n + 1, s => let s' := lcg s; let (l, s'') := lcgBytes n s'; (UInt8.ofNat (s' >>> 33) :: l, s'')

/-- `cnt` rounds: key sizes 16, 24, 32 in turn; returns the number of disagreements -/
def randMismatches (cnt : Nat) : Nat := Id.run do
  let mut s := 20240929
  let mut bad := 0
  for j in [0:cnt] do
    let klen := 16 + 8 * (j % 3)
    let (key, s1) := lcgBytes klen s
    let (blk, s2) := lcgBytes 16 s1
    s := s2
    let rk := keyExpansion key
    let e := Rijndael.aesE key blk
    let d := Rijndael.aesD key blk
    if e != cipher rk blk || d != invCipher rk blk || Rijndael.aesD key e != blk || e.length != 16 then bad := bad + 1
  return bad

/-- the expanded key of the model is the expanded key of the spec (big-endian words) -/
def rkAgree (key : List UInt8) : Bool :=
  match Rijndael.keySetupEnc key with
  | none => false
  | some (rk, nr) =>
    let flat := ((rk.toList.take (4 * (nr + 1))).map Rijndael.putu32).flatten
    flat == (keyExpansion key).flatten && nr + 1 == (keyExpansion key).length

#eval katOk                                 -- true
#eval randMismatches 60                     -- 0
#eval [16, 24, 32].all fun n => rkAgree (seqBytes n)   -- true
#eval [0, 1, 15, 17, 20, 31, 33, 48].map fun n => (Rijndael.aesE (seqBytes n) ptC, Rijndael.aesD (seqBytes n) ptC)  -- all ([], [])
#eval Rijndael.aesE (seqBytes 16) ptC
end Relic.Model.RijndaelTest
