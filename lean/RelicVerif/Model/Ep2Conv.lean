/-
Model of the point encodings of the twist over Fp2 = Fp[u]/(u² − β): src/epx/relic_ep2_util.c (ep2_size_bin, ep2_read_bin,
ep2_write_bin) and src/epx/relic_ep2_pck.c (ep2_pck / ep2_upk sign convention), on affine points over the tower field of
Spec/Tower.lean.  The square root in Fp2 is a parameter `srt` with the contract "returns a root exactly when one exists".
Coordinates are coefficient vectors [c0, c1]; each coefficient is written as `nb` big-endian bytes, c0 first.
-/
import RelicVerif.Spec.CurveX

namespace Relic.Model.Ep2Conv
open Relic.Spec.Tower Relic.Spec.CurveX

structure Ctx where
  c : CurveX
  nb : Nat                               -- RLC_FP_BYTES
  srt : List Nat → Option (List Nat)     -- fp2_srt

abbrev Bytes := List Nat                 -- values below 256

def beBytes (n k : Nat) : Bytes := (List.range k).reverse.map fun i => (n / 256 ^ i) % 256
def beVal (b : Bytes) : Nat := b.foldl (fun acc x => acc * 256 + x) 0

/-- the sign of an element of Fp2 that ep2_upk compares the tag bit with (the rule of the IETF pairing-friendly-curves draft quoted in
    the source): the sign of c1 unless c1 = 0, then the sign of c0; "sign" = larger than (p − 1)/2 -/
def signUpk (p : Nat) (y : List Nat) : Nat :=
  let y0 := y.getD 0 0
  let y1 := y.getD 1 0
  if y1 = 0 then (if y0 > (p - 1) / 2 then 1 else 0) else (if y1 > (p - 1) / 2 then 1 else 0)

/-- the bit ep2_pck writes, as selected by `fallback`: the source at the pinned commit looked at c1 only (`fallback = false`); the
    repaired source uses the rule of ep2_upk -/
def signPck (fallback : Bool) (p : Nat) (y : List Nat) : Nat :=
  if fallback then signUpk p y else (if y.getD 1 0 > (p - 1) / 2 then 1 else 0)

def elBytes (x : Ctx) (e : List Nat) : Bytes := beBytes (e.getD 0 0) x.nb ++ beBytes (e.getD 1 0) x.nb

/-- ep2_write_bin: none = ERR_NO_BUFFER; the buffer is zero-filled first -/
def writeBin (x : Ctx) (fallback : Bool) (len : Nat) (p : PointX) (pack : Bool) : Option Bytes :=
  match p with
  | none => if len < 1 then none else some (List.replicate len 0)
  | some (px, py) =>
    if pack then
      if len < 2 * x.nb + 1 then none
      else some ([2 + signPck fallback x.c.d.p py] ++ elBytes x px ++ List.replicate (len - (2 * x.nb + 1)) 0)
    else
      if len < 4 * x.nb + 1 then none
      else some ([4] ++ elBytes x px ++ elBytes x py ++ List.replicate (len - (4 * x.nb + 1)) 0)

/-- fp2_read_bin on exactly 2·nb bytes: none unless both coefficients are below p -/
def elRead (x : Ctx) (b : Bytes) : Option (List Nat) :=
  if b.length ≠ 2 * x.nb then none else
  let c0 := beVal (b.take x.nb)
  let c1 := beVal (b.drop x.nb)
  if c0 < x.c.d.p ∧ c1 < x.c.d.p then some [c0, c1] else none

/-- ep2_upk: recover y from x and the sign bit -/
def upk (x : Ctx) (px : List Nat) (bit : Nat) : Option (List Nat) :=
  match x.srt (x.c.d.canon (rhs x.c px)) with
  | none => none
  | some r => if signUpk x.c.d.p r ≠ bit then some (x.c.d.canon (x.c.d.neg r)) else some r

/-- ep2_read_bin: none = error -/
def readBin (x : Ctx) (bin : Bytes) : Option PointX :=
  if bin.length = 1 then (if bin.head? = some 0 then some none else none)
  else if bin.length = 2 * x.nb + 1 then
    match elRead x (bin.drop 1) with
    | none => none
    | some px =>
      let tag := bin.headD 0
      if tag ≠ 2 ∧ tag ≠ 3 then none
      else match upk x px (tag - 2) with
        | none => none
        | some py => if onCurve x.c (some (px, py)) then some (some (px, py)) else none
  else if bin.length = 4 * x.nb + 1 then
    if bin.head? ≠ some 4 then none
    else match elRead x ((bin.drop 1).take (2 * x.nb)), elRead x (bin.drop (1 + 2 * x.nb)) with
      | some px, some py => if onCurve x.c (some (px, py)) then some (some (px, py)) else none
      | _, _ => none
  else none

end Relic.Model.Ep2Conv
