/-
Value-level models of bn_evl (Horner evaluation modulo b) and bn_lag (coefficients of Π (X − a_i) modulo b) of
src/bn/relic_bn_lag.c.  bn_mod with three arguments is the floor remainder (Int.fmod).  No Mathlib.
-/
namespace Relic.Model.NtPoly

/-- bn_evl: `c = 0; for j = n-1 … 0: c = c·x mod b; c = (c + a[j]) mod b` (coefficients least significant first) -/
def evl (as : List Int) (x b : Int) : Int :=
  as.foldr (fun a c => Int.fmod (Int.fmod (c * x) b + a) b) 0

/-- one round i ≥ 1 of bn_lag with root a: t[0] = 0, t[j+1] = c[j]; c[j] = (t[j] − (c[j]·a mod b)) mod b; c[i+1] = t[i+1].
`prev` is t[j] (the previous old coefficient). -/
def lagStepAux (b a : Int) : Int → List Int → List Int
  | prev, [] => [prev]
  | prev, c :: cs => Int.fmod (prev - Int.fmod (c * a) b) b :: lagStepAux b a c cs

def lagStep (b a : Int) (cs : List Int) : List Int := lagStepAux b a 0 cs

/-- bn_lag: n = 0 → [1]; round 0: c[0] = (b − a[0]) mod b, c[1] = 1; then one lagStep per further root -/
def lag (as : List Int) (b : Int) : List Int :=
  match as with
  | [] => [1]
  | a0 :: rest => rest.foldl (fun cs a => lagStep b a cs) [Int.fmod (b - a0) b, 1]

/-- value of the coefficient list at X -/
def evalP (cs : List Int) (X : Int) : Int := cs.foldr (fun c acc => c + X * acc) 0

end Relic.Model.NtPoly
