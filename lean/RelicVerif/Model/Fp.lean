/-
Model of the prime-field layer, digit level (src/low/easy/relic_fp_add_low.c, relic_fp_mul_low.c,
relic_fp_sqr_low.c, relic_fp_rdc_low.c) and the Montgomery representation of src/fp/relic_fp_prime.c.
A field context is the prime as n little-endian digits in base B = 2^w and the Montgomery constant
u = -p^{-1} mod B. Elements are digit lists of length n (raw = Montgomery form).
-/
import RelicVerif.Model.BnLow

namespace Relic.Model

structure FpCtx where
  w : Nat
  n : Nat               -- RLC_FP_DIGS
  p : List Nat          -- the prime, n digits
  u : Nat               -- *fp_prime_get_rdc()
deriving Repr

def FpCtx.B (c : FpCtx) : Nat := 2 ^ c.w
def FpCtx.pv (c : FpCtx) : Nat := val c.B c.p
def FpCtx.R (c : FpCtx) : Nat := c.B ^ c.n

/-- fp_addm_low: add, then subtract p if there was a carry or the sum is ≥ p -/
def fpAddm (c : FpCtx) (a b : List Nat) : List Nat :=
  let (s, carry) := addnLow c.B a b 0
  if carry ≠ 0 ∨ dvCmp s c.p ≠ -1 then (subnLow c.B s c.p 0).1 else s

/-- fp_subm_low: subtract, add p back on borrow -/
def fpSubm (c : FpCtx) (a b : List Nat) : List Nat :=
  let (d, borrow) := subnLow c.B a b 0
  if borrow ≠ 0 then (addnLow c.B d c.p 0).1 else d

/-- fp_negm_low -/
def fpNegm (c : FpCtx) (a : List Nat) : List Nat :=
  if a.all (· == 0) then List.replicate c.n 0 else (subnLow c.B c.p a 0).1

/-- fp_dblm_low -/
def fpDblm (c : FpCtx) (a : List Nat) : List Nat :=
  let (s, carry) := addnLow c.B a a 0
  if carry ≠ 0 ∨ dvCmp s c.p ≠ -1 then (subnLow c.B s c.p 0).1 else s

/-- fp_hlvm_low: if odd add p, shift right, re-insert the carry as the top bit -/
def fpHlvm (c : FpCtx) (a : List Nat) : List Nat :=
  let (t, carry) := if a.getD 0 0 % 2 = 1 then addnLow c.B a c.p 0 else (a, 0)
  let r := (rsh1Low c.w t).1
  if carry ≠ 0 then r.set (c.n - 1) (r.getD (c.n - 1) 0 ^^^ 2 ^ (c.w - 1)) else r

/-- RLC_COMBA_ADD on the triple register -/
def combaAdd (B : Nat) (r : Nat × Nat × Nat) (a : Nat) : Nat × Nat × Nat :=
  let (r2, r1, r0) := r
  let t := r1
  let r0 := (r0 + a) % B
  let r1 := (r1 + (if r0 < a then 1 else 0)) % B
  let r2 := (r2 + (if r1 < t then 1 else 0)) % B
  (r2, r1, r0)

/-- fp_rdcn_low: product-scanning Montgomery reduction of a 2n-digit value `a`;
    returns the n result digits -/
def fpRdcn (c : FpCtx) (a : List Nat) : List Nat :=
  let B := c.B
  let n := c.n
  let m := c.p
  -- first loop: i = 0 .. n-1, computes the quotient digits q_i into c[i]
  let st1 := (List.range n).foldl (fun (st : List Nat × (Nat × Nat × Nat)) i =>
    let (q, r) := st
    let r := (List.range i).foldl (fun r j => combaStepMul B r (q.getD j 0) (m.getD (i - j) 0)) r
    let r := combaAdd B r (a.getD i 0)
    let qi := (r.2.2 * c.u) % B
    let r := combaStepMul B r qi (m.getD 0 0)
    (q ++ [qi], (0, r.1, r.2.1))) ([], (0, 0, 0))
  let q := st1.1
  -- second loop: i = n .. 2n-2, output digit c[i-n]
  let st2 := (List.range (n - 1)).foldl (fun (st : List Nat × (Nat × Nat × Nat)) k =>
    let (out, r) := st
    let i := k + n
    let r := (List.range (n - (i - n + 1))).foldl (fun r jj =>
      let j := jj + (i - n + 1)
      combaStepMul B r (q.getD j 0) (m.getD (i - j) 0)) r
    let r := combaAdd B r (a.getD i 0)
    (out ++ [r.2.2], (0, r.1, r.2.1))) ([], st1.2)
  let r := combaAdd B st2.2 (a.getD (2 * n - 1) 0)
  let res := st2.1 ++ [r.2.2]
  if r.2.1 ≠ 0 ∨ dvCmp res m ≠ -1 then (subnLow B res m 0).1 else res

/-- fp_mulm_low = fp_muln_low then fp_rdc -/
def fpMulm (c : FpCtx) (a b : List Nat) : List Nat := fpRdcn c (mulnLow c.B a b c.n)

/-- fp_sqrm_low -/
def fpSqrm (c : FpCtx) (a : List Nat) : List Nat := fpRdcn c (sqrnLow c.B a c.n)

end Relic.Model
