/-
fp_crt (src/fp/relic_fp_crt.c), the three branches that compute the cube root by one exponentiation
(p ≡ 2 mod 3: a^((2p−1)/3); p ≡ 4 mod 9: a^((2p+1)/9); p ≡ 7 mod 9: a^((p+2)/9)); the flag is t0³ == a and t0 is left in c.
The general branch (p ≡ 1 mod 9, cubic Tonelli–Shanks with fp_is_cub) is not modelled (class C).  No Mathlib.
-/
import RelicVerif.Model.FpAlg

namespace Relic.Model.FpAlg

/-- the exponent chosen from fp_prime_get_mod18(); `none` = the general branch -/
def crtExp (c : Ctx) : Option Nat :=
  let m := c.p % 18
  if m % 3 = 2 then some ((2 * c.p - 1) / 3)
  else if m % 9 = 4 then some ((2 * c.p + 1) / 9)
  else if m % 9 = 7 then some ((c.p + 2) / 9)
  else none

/-- outer `none`: general branch (not modelled); inner `none`: reported error; else (return value, what is left in c) -/
def crtEasy (c : Ctx) (a : Nat) : Option (Option (Bool × Nat)) :=
  if a = 0 then some (some (true, 0))
  else match crtExp c with
    | none => none
    | some e => some (match fpExpNat c a e with
        | none => none
        | some t0 => some (fmul c.p (fsqr c.p t0) t0 == a, t0))

end Relic.Model.FpAlg
