/-
Model of the integer conversions of src/bn/relic_bn_util.c:
bn_size_bin / bn_read_bin / bn_write_bin, bn_size_str / bn_read_str / bn_write_str (radix 2..64).
-/
import RelicVerif.Model.Bn

namespace Relic.Model

/-- util_conv_char -/
def convChar (i : Nat) : Char :=
  if i < 10 then Char.ofNat (48 + i)
  else if i < 36 then Char.ofNat (65 + (i - 10))
  else if i < 62 then Char.ofNat (97 + (i - 36))
  else if i = 62 then '+' else '/'

/-- the digit value of a character: the first index i < 64 with util_conv_char(i) = c -/
def charVal (c : Char) : Option Nat := (List.range 64).find? fun i => convChar i = c

/-- number of bytes of a digit: the `while (d != 0) { d >>= 8; digits++ }` loop -/
def bytesOfDig : Nat → Nat → Nat
  | 0, _ => 0
  | fuel + 1, d => if d = 0 then 0 else 1 + bytesOfDig fuel (d / 256)

/-- bn_size_bin -/
def bnSizeBin (w : Nat) (a : Bn) : Nat :=
  (a.used - 1) * (w / 8) + bytesOfDig (w / 8 + 1) (a.dp.getLast?.getD 0)

/-- bn_write_bin: big-endian, left-padded with zeros to `len`; none = ERR_NO_BUFFER -/
def bnWriteBin (w : Nat) (len : Nat) (a : Bn) : Option (List UInt8) :=
  let size := bnSizeBin w a
  if len < size then none
  else
    -- little-endian bytes: full digits, then the significant bytes of the top digit, then zero fill
    let full := (a.dp.take (a.used - 1)).flatMap fun d => (List.range (w / 8)).map fun j => UInt8.ofNat ((d / 256 ^ j) % 256)
    let top := a.dp.getLast?.getD 0
    let topBytes := (List.range (bytesOfDig (w / 8 + 1) top)).map fun j => UInt8.ofNat ((top / 256 ^ j) % 256)
    let le := full ++ topBytes
    some ((le ++ List.replicate (len - le.length) 0).reverse)

/-- bn_read_bin; none = precision error -/
def bnReadBin (cfg : Cfg) (bin : List UInt8) : Option Bn :=
  let d := cfg.w / 8
  let len := bin.length
  let digs := if len % d = 0 then len / d else len / d + 1
  if digs > cfg.cap then none
  else
    let le := bin.reverse
    let dp := (List.range digs).map fun i =>
      (List.range d).foldl (fun acc j => acc + (le.getD (i * d + j) 0).toNat * 256 ^ j) 0
    some (bnTrim { neg := false, dp := if digs = 0 then [0] else dp })

/-- the digit loop of bn_write_str / bn_size_str: least significant first -/
def strDigits (radix : Nat) : Nat → Nat → List Nat
  | 0, _ => []
  | fuel + 1, n => if n = 0 then [] else (n % radix) :: strDigits radix fuel (n / radix)

/-- bn_size_str (includes the terminating NUL); none = ERR_NO_VALID -/
def bnSizeStr (cfg : Cfg) (a : Bn) (radix : Nat) : Option Nat :=
  if radix < 2 ∨ radix > 64 then none
  else if bnIsZero a then some 2
  else if radix = 2 then some (bnBitsW cfg.w a + (if a.neg then 1 else 0) + 1)
  else
    let n := val cfg.B a.dp
    some ((if a.neg then 1 else 0) + (strDigits radix (n + 1) n).length + 1)

inductive StrErr where
  | noBuffer
  | noValid
deriving Repr, DecidableEq

/-- bn_write_str -/
def bnWriteStr (cfg : Cfg) (len : Nat) (a : Bn) (radix : Nat) : Except StrErr String :=
  match bnSizeStr cfg a radix with
  | none => .error .noValid
  | some l =>
    if len < l then .error .noBuffer
    else if bnIsZero a then .ok "0"
    else
      let n := val cfg.B a.dp
      let ds := (strDigits radix (n + 1) n).reverse.map convChar
      .ok (String.ofList ((if a.neg then ['-'] else []) ++ ds))

/-- bn_read_str: stops at the first character that is not a digit of the radix -/
def bnReadStr (cfg : Cfg) (s : String) (radix : Nat) : Option Bn :=
  if radix < 2 ∨ radix > 64 then none
  else
    let cs := s.toList
    let neg := cs.head? = some '-'
    let body := if neg then cs.drop 1 else cs
    -- bn_grow(a, RLC_CEIL(len * util_bits_dig(radix), RLC_DIG))
    let need := (cs.length * bitsDig radix + cfg.w - 1) / cfg.w
    if need > cfg.cap then none
    else
      let rec go (cs : List Char) (acc : Option Bn) : Option Bn :=
        match cs with
        | [] => acc
        | c :: rest =>
          let c' := if radix < 36 then c.toUpper else c
          match charVal c' with
          | some i =>
            if i < radix then
              match acc with
              | none => none
              | some a =>
                match bnMulDig cfg a radix with
                | none => none
                | some m => go rest (bnAddDig cfg m i)
            else acc
          | none => acc
      match go body (some Bn.zero) with
      | none => none
      | some a => some (bnTrim { neg := neg, dp := a.dp })

end Relic.Model
