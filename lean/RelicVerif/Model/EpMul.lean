/-
Scalar-multiplication routines of src/ep/relic_ep_mul_fix.c, relic_ep_mul_sim.c, relic_ep_mul.c that have no counterpart in
Model/MulAlg.lean: the single-table comb (plain and endomorphism variant), the double-table comb, the GLV (endomorphism)
variable-base loops, the many-point routines ep_mul_sim_lot (interleaved binary NAFs; bucket form above ten points on
endomorphism curves), ep_mul_sim_dig, and the integer form of the GLV decomposition bn_rec_glv.
Same conventions as Model/MulAlg.lean: an arbitrary carrier with explicit group operations (plus the endomorphism ψ as a
parameter), digit strings least significant first.  Executable, no Mathlib.
The comb table (ep_mul_pre_combs) and the column extraction are the ones of Model/EbMul.lean (`tabCombs`, `combCol`): the
binary-curve code builds and reads its table in the same way.
-/
import RelicVerif.Model.MulAlg
import RelicVerif.Model.EbMul
import RelicVerif.Model.Rec

namespace Relic.Model.EpMul
open Relic.Model.MulAlg Relic.Model.EbMul Relic.Model.Rec

variable {G : Type}

/-! ### single-table comb -/

/-- ep_mul_combs_plain: m is the scalar already reduced modulo the order, l = ⌈bits(n)/d⌉ columns, d = RLC_DEPTH rows:
    r = t[column l-1]; for i = l-2 … 0: r = 2r, then r += t[column i] unless the column is zero -/
def mulCombsPlain (o : Ops G) (tab : List G) (m l d : Nat) : G :=
  (List.range (l - 1)).reverse.foldl (fun r i =>
    let r := o.dbl r
    let w := combCol m l d i
    if w > 0 then o.add r (tab.getD w o.zero) else r) (tab.getD (combCol m l d (l - 1)) o.zero)

/-- ep_mul_combs_endom: the table is built with l = ⌈bits(n)/(2d)⌉; k0, k1 are the magnitudes of the GLV sub-scalars,
    neg0/neg1 their signs.  A sub-scalar with more than d·l bits starts the accumulator at t[2^(d-1)] (resp. ψ of it) —
    the code does not look at the sign there.  Then for i = l-1 … 0: r = 2r, r ±= t[column i of k0], r ±= ψ(t[column i of k1]). -/
def mulCombsEndom (o : Ops G) (psi : G → G) (tab : List G) (l d : Nat) (k0 : Nat) (neg0 : Bool) (k1 : Nat) (neg1 : Bool) : G :=
  let top := tab.getD (2 ^ (d - 1)) o.zero
  let r := if bitLen k0 > d * l then top else o.zero
  let r := if bitLen k1 > d * l then o.add r (psi top) else r
  (List.range l).reverse.foldl (fun r i =>
    let r := o.dbl r
    let w0 := combCol k0 l d i
    let w1 := combCol k1 l d i
    let r := if w0 > 0 then (if neg0 then o.sub r (tab.getD w0 o.zero) else o.add r (tab.getD w0 o.zero)) else r
    if w1 > 0 then (if neg1 then o.sub r (psi (tab.getD w1 o.zero)) else o.add r (psi (tab.getD w1 o.zero))) else r) r

/-! ### double-table comb -/

/-- ep_mul_pre_combd: the first 2^d entries are the single comb table with column distance dd = ⌈bits(n)/d⌉; entry 2^d is the
    identity and entry 2^d + j is t[j] doubled e times (one doubling, then e-1 more), e = ⌈dd/2⌉ -/
def tabCombd (o : Ops G) (p : G) (dd e d : Nat) : List G :=
  let t := tabCombs o p dd d
  t ++ (o.zero :: (t.tail.map fun ti => dblN o (e - 1) (o.dbl ti)))

/-- ep_mul_fix_combd: for i = e-1 … 0: r = 2r; w0 = column i, w1 = column i+e (only while i + e < dd); r += t[w0]; r += t[2^d + w1] -/
def mulCombd (o : Ops G) (tab : List G) (m dd e d : Nat) : G :=
  (List.range e).reverse.foldl (fun r i =>
    let r := o.dbl r
    let w0 := combCol m dd d i
    let w1 := if i + e < dd then combCol m dd d (i + e) else 0
    o.add (o.add r (tab.getD w0 o.zero)) (tab.getD (2 ^ d + w1) o.zero)) o.zero

/-! ### GLV -/

/-- bn_rec_glv on integers: k reduced modulo n, v1 = (v10, v11, v12), v2 = (v20, v21, v22) the stored lattice data.
    b_i = round(k·|v_i0| / 2^(bits+1)) (the bit below the cut is added back), then
    (k0, k1) = (k, 0) - sign(v10)·b1·(v11, v12) - sign(v20)·b2·(v21, v22). -/
def recGlv (k n : Nat) (v1 v2 : Int × Int × Int) : Int × Int :=
  let bits := bitLen n
  let rnd := fun (x : Nat) => (x >>> (bits + 1)) + ((x >>> bits) % 2)
  let c1 : Int := (if v1.1 < 0 then -1 else 1) * ((rnd (k * v1.1.natAbs) : Nat) : Int)
  let c2 : Int := (if v2.1 < 0 then -1 else 1) * ((rnd (k * v2.1.natAbs) : Nat) : Int)
  ((k : Int) - c1 * v1.2.1 - c2 * v2.2.1, - c1 * v1.2.2 - c2 * v2.2.2)

/-- one signed table step shared by the GLV loops: r ± t[|d|/2] by the sign of the digit, the table entry first mapped by `f` -/
def stepTab (o : Ops G) (f : G → G) (tab : List G) (r : G) (d : Int) : G :=
  if d > 0 then o.add r (f (tab.getD (d.toNat / 2) o.zero))
  else if d < 0 then o.sub r (f (tab.getD ((-d).toNat / 2) o.zero))
  else r

/-- ep_mul_glv_imp: table of odd multiples of ±P (sign of k0), width-w NAFs of |k0|, |k1| interleaved; the ψ-image of the
    table entry is negated when the signs of k0 and k1 differ -/
def mulGlv (o : Ops G) (psi : G → G) (p : G) (tabLen : Nat) (neg0 neg1 : Bool) (naf0 naf1 : List Int) : G :=
  let tab := tabOdd o (if neg0 then o.neg p else p) tabLen
  let l := max naf0.length naf1.length
  (List.range l).reverse.foldl (fun r i =>
    let r := o.dbl r
    let r := stepTab o id tab r (naf0.getD i 0)
    stepTab o (fun x => if neg0 != neg1 then o.neg (psi x) else psi x) tab r (naf1.getD i 0)) o.zero

/-- ep_mul_reg_glv: both sub-scalars made odd (|k_i| | 1), regular recodings of the same length, table of odd multiples of
    ±P (sign of k0); per digit pair: r = 2^(w-1) r, r += ±t[|d0|/2], r += ±ψ(t[|d1|/2]) (sign of the digit xor (s0 ≠ s1));
    finally q = ±P (the table base) is subtracted if |k0| was even, and ψ(q) (s0 = s1) resp. −ψ(q) (s0 ≠ s1) is subtracted
    if |k1| was even -/
def mulRegGlv (o : Ops G) (psi : G → G) (p : G) (tabLen w : Nat) (neg0 neg1 even0 even1 : Bool) (reg0 reg1 : List Int) : G :=
  let q := if neg0 then o.neg p else p
  let tab := tabOdd o q tabLen
  let r := (List.range reg1.length).reverse.foldl (fun r i =>
    let r := dblN o (w - 1) r
    let d0 := reg0.getD i 0
    let d1 := reg1.getD i 0
    let u := tab.getD (d0.natAbs / 2) o.zero
    let r := o.add r (if d0 < 0 then o.neg u else u)
    let v := psi (tab.getD (d1.natAbs / 2) o.zero)
    o.add r (if (d1 < 0) != (neg0 != neg1) then o.neg v else v)) o.zero
  -- t[0] holds q = ±P (ep_tab stores its base point there)
  let r := if even0 then o.sub r q else r
  let w' := psi q
  let q' := if neg0 == neg1 then w' else o.neg w'
  if even1 then o.sub r q' else r

/-- ep_mul_sim_endom (ep_mul_sim_inter on endomorphism curves): four interleaved NAFs; tables of odd multiples of P and Q;
    the digit strings of the first (second) scalar are negated when k (m) is negative — after the reduction modulo the order
    in the caller they never are — and the signs of the sub-scalars select add/sub -/
def simEndom (o : Ops G) (psi : G → G) (tabP tabQ : List G) (sk0 sk1 sl0 sl1 : Bool) (n0 n1 n2 n3 : List Int) : G :=
  let l := max (max n0.length n1.length) (max n2.length n3.length)
  let sg := fun (s : Bool) (f : G → G) (x : G) => if s then o.neg (f x) else f x
  (List.range l).reverse.foldl (fun r i =>
    let r := o.dbl r
    let r := stepTab o (sg sk0 id) tabP r (n0.getD i 0)
    let r := stepTab o (sg sk1 psi) tabP r (n1.getD i 0)
    let r := stepTab o (sg sl0 id) tabQ r (n2.getD i 0)
    stepTab o (sg sl1 psi) tabQ r (n3.getD i 0)) o.zero

/-! ### many points -/

/-- the interleaved loop of ep_mul_sim_lot_plain and of ep_mul_sim_lot_endom for n ≤ 10 (there over the 2n points
    P_i, ψ(P_i)): every point with its binary NAF, l iterations: r = 2r, then for each point r ± P_j by the sign of its digit.
    The points are already negated for negative scalars. -/
def simLotNaf (o : Ops G) (ps : List G) (nafs : List (List Int)) (l : Nat) : G :=
  (List.range l).reverse.foldl (fun r i =>
    (ps.zip nafs).foldl (fun r (pn : G × List Int) =>
      let d := pn.2.getD i 0
      if d > 0 then o.add r pn.1 else if d < 0 then o.sub r pn.1 else r) (o.dbl r)) o.zero

/-- the summation of one bucket row in ep_mul_sim_lot_endom: for j = c-1 … 0: u += B[j]; if j = 0 then v = 2v; v += u.
    Result Σ (2j+1)·B[j].  `combineHigh` is the state (u, v) after the iterations j = c-1 … 1 on [B[1], …, B[c-1]]. -/
def combineHigh (o : Ops G) : List G → G × G
  | [] => (o.zero, o.zero)
  | b :: rest =>
    let uv := combineHigh o rest
    let u := o.add uv.1 b
    (u, o.add uv.2 u)

def combineRow (o : Ops G) : List G → G
  | [] => o.zero
  | b0 :: rest =>
    let uv := combineHigh o rest
    let u := o.add uv.1 b0
    o.add (o.dbl uv.2) u

/-- ep_mul_sim_lot_endom for n > 10: width-w NAFs (w = max(2, bits(n) - 2), c = 2^(w-2) buckets per row) of the two
    sub-scalars of every point; per position i from the top: every non-zero digit puts ±P_j into bucket |d|/2 of row 0
    (first sub-scalar) or row 1 (second); t = ψ(ψ(O) + Σ row 1) + Σ row 0; s = 2s + t. -/
def simLotBucket (o : Ops G) (psi : G → G) (ps : List G) (nafs : List (List Int × List Int)) (c l : Nat) : G :=
  (List.range l).reverse.foldl (fun s i =>
    let rows := (ps.zip nafs).foldl (fun (b : List G × List G) (pn : G × (List Int × List Int)) =>
      (bucketAdd o b.1 (pn.2.1.getD i 0) pn.1, bucketAdd o b.2 (pn.2.2.getD i 0) pn.1))
      (List.replicate c o.zero, List.replicate c o.zero)
    let t := o.add (psi o.zero) (combineRow o rows.2)
    let t := o.add (psi t) (combineRow o rows.1)
    o.add (o.dbl s) t) o.zero

/-- ep_mul_sim_dig: single-digit scalars, plain binary interleaving: for i = max-1 … 0: t = 2t; t += P_j for every j with bit i set -/
def simDig (o : Ops G) (ps : List G) (ks : List Nat) (mx : Nat) : G :=
  (List.range mx).reverse.foldl (fun r i =>
    (ps.zip ks).foldl (fun r (pk : G × Nat) => if (pk.2 >>> i) % 2 = 1 then o.add r pk.1 else r) (o.dbl r)) o.zero

end Relic.Model.EpMul
