/-
Model of the encodings of elements of Fp2 = Fp[u]/(u² − β): src/fpx/relic_fpx_util.c (fp2_size_bin, fp2_read_bin, fp2_write_bin) and
src/fpx/relic_fpx_pck.c (fp2_pck / fp2_upk: a unitary element a0 + a1·u, a0² − β·a1² = 1, is stored as a0 and the parity of the stored
form of a1).  The square root in Fp (`srt`) and the parity of the stored form (`bit`, the low bit of the Montgomery representation) are
parameters with contracts stated in the lemma file.
-/
import RelicVerif.Model.Ep2Conv

namespace Relic.Model.Fp2Conv
open Relic.Model.Ep2Conv (Bytes beBytes beVal)

structure Ctx where
  p : Nat
  qnr : Nat                -- β reduced modulo p
  qinv : Nat               -- β⁻¹ modulo p
  nb : Nat                 -- RLC_FP_BYTES
  srt : Nat → Option Nat   -- fp_srt
  bit : Nat → Nat          -- fp_get_bit(·, 0) of the stored form

/-- fp2_test_cyc: a0² − β·a1² = 1 -/
def unitary (x : Ctx) (a0 a1 : Nat) : Bool := (a0 * a0 + (x.p - x.qnr) * (a1 * a1 % x.p)) % x.p == 1 % x.p

/-- fp2_size_bin -/
def sizeBin (x : Ctx) (a0 a1 : Nat) (pack : Bool) : Nat := if pack && unitary x a0 a1 then x.nb + 1 else 2 * x.nb

/-- fp2_write_bin at the advertised length: none = ERR_NO_BUFFER -/
def writeBin (x : Ctx) (len a0 a1 : Nat) (pack : Bool) : Option Bytes :=
  if pack && unitary x a0 a1 then
    if len < x.nb + 1 then none else some (beBytes a0 x.nb ++ [x.bit a1])
  else
    if len < 2 * x.nb then none else some (beBytes a0 x.nb ++ beBytes a1 x.nb)

/-- fp2_upk on (a0, parity): the second coefficient with a1² = (a0² − 1)/β and the given parity -/
def upk (x : Ctx) (a0 par : Nat) : Option Nat :=
  match x.srt ((a0 * a0 + x.p - 1) % x.p * x.qinv % x.p) with
  | none => none
  | some r =>
    let r' := if x.bit r ≠ par then (x.p - r) % x.p else r
    if x.bit r' = par then some r' else none

/-- fp2_read_bin: none = error -/
def readBin (x : Ctx) (bin : Bytes) : Option (Nat × Nat) :=
  if bin.length = x.nb + 1 then
    let par := bin.getD x.nb 0
    let a0 := beVal (bin.take x.nb)
    if par > 1 then none
    else if a0 < x.p then (upk x a0 par).map fun a1 => (a0, a1) else none
  else if bin.length = 2 * x.nb then
    let a0 := beVal (bin.take x.nb)
    let a1 := beVal (bin.drop x.nb)
    if a0 < x.p ∧ a1 < x.p then some (a0, a1) else none
  else none

end Relic.Model.Fp2Conv
