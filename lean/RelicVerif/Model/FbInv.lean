/-
Models of src/fb/relic_fb_inv.c at the value level: a polynomial over GF(2) is a natural number (bit i = coefficient of z^i).
  * fb_inv_sim   : Montgomery's simultaneous inversion (forward products, one inversion, backward pass)
  * fb_inv_binar : binary extended Euclid (two halving loops, exits u = 1 / v = 1, comparison by digit count and top digit)
  * fb_inv_almos : the "almost inverse" variant as coded (one halving loop, swap, add)
  * fb_inv_exgcd : Euclid with degree differences (swap when j < 0, u += v·z^j, g1 += g2·z^j, final reduction of a degree-m cofactor)
No Mathlib: executed by the driver on every presented line.
-/
import RelicVerif.Spec.Gf2

namespace Relic.Model.FbInv
open Relic.Spec.Gf2

/-! ## fb_inv_sim -/

/-- c[0] = a[0], c[i] = c[i−1]·a[i] -/
def simProds (mul : Nat → Nat → Nat) : Nat → List Nat → List Nat
  | _, [] => []
  | acc, a :: as => mul acc a :: simProds mul (mul acc a) as

/-- backward pass: `for (i = n−1; i > 0; i--) { c[i] = u·c[i−1]; u = u·t[i] }  c[0] = u`.
    Arguments: c[i−1], c[i−2], … ; a[i], a[i−1], … ; u ; the outputs already produced (indices > i) -/
def simBack (mul : Nat → Nat → Nat) : List Nat → List Nat → Nat → List Nat → List Nat
  | cprev :: cs, ai :: as, u, acc => simBack mul cs as (mul u ai) (mul u cprev :: acc)
  | _, _, u, acc => u :: acc

/-- `inv` is fb_inv (none = the error it raises, which fb_inv_sim re-raises) -/
def invSim (mul : Nat → Nat → Nat) (inv : Nat → Option Nat) (as : List Nat) : Option (List Nat) :=
  match as with
  | [] => none
  | a0 :: rest =>
    let cs := a0 :: simProds mul a0 rest
    match inv (cs.getLastD 0) with
    | none => none
    | some u => some (simBack mul cs.reverse.tail as.reverse u [])

/-! ## the halving loop shared by fb_inv_binar and fb_inv_almos -/

/-- `g = (z | g ? g : g + f)/z` -/
def halveG (f g : Nat) : Nat := (if g % 2 = 1 then g ^^^ f else g) / 2

/-- `while (z | u) { u = u/z; g = (z | g ? g : g + f)/z }`; `none`: u = 0 (the C loop does not end) or fuel exhausted -/
def halve (f : Nat) : Nat → Nat → Nat → Option (Nat × Nat)
  | 0, _, _ => none
  | k + 1, u, g =>
    if u = 0 then none
    else if u % 2 = 0 then halve f k (u / 2) (halveG f g)
    else some (u, g)

/-- number of w-bit digits up to the leading non-zero one (`while (u[lu − 1] == 0) lu--`) -/
def digLen (w a : Nat) : Nat := (bitLen a + w - 1) / w
def topDig (w a : Nat) : Nat := a >>> (w * (digLen w a - 1))

/-- `lu > lv || (lu == lv && u[lu − 1] > v[lv − 1])` -/
def digGt (w u v : Nat) : Bool :=
  digLen w u > digLen w v || (digLen w u == digLen w v && topDig w u > topDig w v)

/-! ## fb_inv_binar -/

def binLoop (w f : Nat) : Nat → Nat → Nat → Nat → Nat → Option Nat
  | 0, _, _, _, _ => none
  | k + 1, u, v, g1, g2 =>
    match halve f (bitLen u + 1) u g1 with
    | none => none
    | some (u, g1) =>
      if u = 1 then some g1
      else match halve f (bitLen v + 1) v g2 with
        | none => none
        | some (v, g2) =>
          if v = 1 then some g2
          else if digGt w u v then binLoop w f k (u ^^^ v) v (g1 ^^^ g2) g2
          else binLoop w f k u (v ^^^ u) g1 (g2 ^^^ g1)

def invBinar (w : Nat) (F : Field) (a : Nat) : Option Nat :=
  if a = 0 then none else binLoop w F.f (2 * (bitLen a + bitLen F.f) + 2) a F.f 1 0

/-! ## fb_inv_almos -/

def almLoop (w f : Nat) : Nat → Nat → Nat → Nat → Nat → Option Nat
  | 0, _, _, _, _ => none
  | k + 1, u, v, b, d =>
    match halve f (bitLen u + 1) u b with
    | none => none
    | some (u, b) =>
      if u = 1 then some b
      else if digGt w v u then almLoop w f k (v ^^^ u) u (d ^^^ b) b     -- swap(u, v), swap(b, d), then add
      else almLoop w f k (u ^^^ v) v (b ^^^ d) d

def invAlmos (w : Nat) (F : Field) (a : Nat) : Option Nat :=
  if a = 0 then none else almLoop w F.f (2 * (bitLen a + bitLen F.f) + 2) a F.f 1 0

/-! ## fb_inv_exgcd -/

/-- `u = u + v·z^j; g1 = g1 + g2·z^j`, then the exit test and the new degree difference -/
def exgStep (rec : Nat → Nat → Nat → Nat → Int → Option Nat) (u v g1 g2 j : Nat) : Option Nat :=
  let u' := u ^^^ (v <<< j)
  let g' := g1 ^^^ (g2 <<< j)
  if u' = 1 then some g'
  else if u' = 0 then none
  else rec u' v g' g2 ((bitLen u' : Int) - (bitLen v : Int))

/-- one pass of `while (1)`: j = deg u − deg v on entry; `if (j < 0) { swap(u, v); swap(g1, g2); j = −j }`.
    `none`: u became 0 (the C code would index below the array) or fuel exhausted -/
def exgLoop : Nat → Nat → Nat → Nat → Nat → Int → Option Nat
  | 0, _, _, _, _, _ => none
  | k + 1, u, v, g1, g2, j =>
    if j < 0 then exgStep (exgLoop k) v u g2 g1 (-j).toNat
    else exgStep (exgLoop k) u v g1 g2 j.toNat

def invExgcd (F : Field) (a : Nat) : Option Nat :=
  if a = 0 then none
  else match exgLoop (2 * (bitLen a + bitLen F.f) + 2) a F.f 1 0 ((bitLen a : Int) - ((F.m : Int) + 1)) with
    | none => none
    | some g => some (if g.testBit F.m then g ^^^ F.f else g)

/-! ## fb_inv_bruch (Brunner–Curiger–Hofstetter): exactly 2m passes, no data-dependent exit; operands live in n digits of w bits -/

structure BruchSt where
  r : Nat
  s : Nat
  u : Nat
  v : Nat
  delta : Nat

/-- one pass of `for (i = 1; i <= 2m; i++)`; `fb_lsh` keeps w·n bits -/
def bruchStep (wn m : Nat) (st : BruchSt) : BruchSt :=
  let lsh := fun (x : Nat) => (x <<< 1) % 2 ^ wn
  if !st.r.testBit m then { st with r := lsh st.r, u := lsh st.u, delta := st.delta + 1 }
  else
    let (s, v) := if st.s.testBit m then (st.s ^^^ st.r, st.v ^^^ st.u) else (st.s, st.v)
    let s := lsh s
    if st.delta = 0 then { r := s, s := st.r, u := lsh v, v := st.u, delta := 1 }
    else { r := st.r, s := s, u := st.u >>> 1, v := v, delta := st.delta - 1 }

def invBruch (w n : Nat) (F : Field) (a : Nat) : Option Nat :=
  if a = 0 then none
  else some ((List.range (2 * F.m)).foldl (fun st _ => bruchStep (w * n) F.m st) { r := a, s := F.f % 2 ^ (w * n), u := 1, v := 0, delta := 0 }).u

/-! ## fb_inv_ctaia (constant-time almost inverse): exactly 2m − 1 passes -/

structure CtaiaSt where
  r : Nat
  s : Nat
  u : Nat
  v : Nat
  d : Int

/-- one pass of `for (k = 1; k < 2m; k++)`: the masked digit loop (s and v take the UPDATED r and u), the conditional negation of d,
    r /= z, u = (z | u ? u : u + f)/z, d-- -/
def ctaiaStep (wn : Nat) (f : Nat) (st : CtaiaSt) : CtaiaSt :=
  let r0 := st.r % 2 = 1
  let neg := st.d < 0
  let r := if r0 then st.r ^^^ st.s else st.r
  let u := if r0 then st.u ^^^ st.v else st.u
  let s := if neg then st.s ^^^ r else st.s
  let v := if neg then st.v ^^^ u else st.v
  let d := if r0 ∧ neg then -st.d else st.d
  let u := (if u % 2 = 1 then (u ^^^ f) % 2 ^ wn else u) >>> 1
  { r := r >>> 1, s := s, u := u, v := v, d := d - 1 }

def invCtaia (w n : Nat) (F : Field) (a : Nat) : Option Nat :=
  if a = 0 then none
  else
    let f := F.f % 2 ^ (w * n)
    some ((List.range (2 * F.m - 1)).foldl (fun st _ => ctaiaStep (w * n) f st) { r := a, s := f, u := 1, v := 0, d := -1 }).v

end Relic.Model.FbInv
