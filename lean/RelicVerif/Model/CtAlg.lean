/-
C20, second half: the ladder and regular-recoding algorithms as *instrumented* models.  The models below mirror
the C loops statement by statement (conditional swaps and masked table scans included) over the abstract group
operations of Model/MulAlg.lean and append one token per group-level call to a log:

  A add   D dbl   N neg   U sub   Z norm   B blind   T table   P psi (endomorphism)
  s dv_swap_sec   c fp_copy_sec / dv_copy_sec (masked copy)   r regular recoding   g GLV decomposition
  M multiply   Q square   R reduce   (integer / field exponentiation)

Lemmas/CtAlg.lean proves (i) the value computed by the instrumented model is the value of the un-instrumented
algorithm model of C03 (`mulLadder`, `mulReg`, which are proved to return k•P), and (ii) the log is a function of
the public lengths only.  The harness records the same tokens from the real library (linker-level interposition
of the group-level functions, harness/ops_ct.c) and the driver compares them per line.
-/
import RelicVerif.Model.MulAlg

namespace Relic.Model.CtAlg
open Relic.Model.MulAlg

variable {G : Type}

abbrev Log := List Char

/-- conditional swap of two values: what `dv_swap_sec` on every coordinate does -/
def cswap (b : Bool) (x y : G) : G × G := if b then (y, x) else (x, y)
/-- masked copy: `fp_copy_sec(dst, src, b)` on every coordinate -/
def ccopy (b : Bool) (dst src : G) : G := if b then src else dst

/-- ep_mul_monty after the scalar has been normalised to l (bit `bits` set; the masked selection between l + n and
    l + 2n is the leading 's'): `coords` = number of coordinates
    swapped per conditional swap (3 for x, y, z).  `bs` = the bits below the top one, most significant first. -/
def ladderI (o : Ops G) (coords : Nat) (p : G) (bs : List Bool) : G × Log :=
  let sw := List.replicate coords 's'
  let init : (G × G) × Log := ((p, o.dbl p), ['s', 'Z', 'D', 'B', 'B'])
  let fin := bs.foldl (fun (st : (G × G) × Log) b =>
    let (t0, t1) := cswap (!b) st.1.1 st.1.2
    let t0 := o.add t0 t1
    let t1 := o.dbl t1
    let (t0, t1) := cswap (!b) t0 t1
    ((t0, t1), st.2 ++ sw ++ ['A', 'D'] ++ sw)) init
  (fin.1.1, fin.2 ++ ['Z'])

/-- the log of the ladder as a function of public data only -/
def ladderLog (coords nbits : Nat) : Log :=
  ['s', 'Z', 'D', 'B', 'B'] ++ (List.replicate nbits (List.replicate coords 's' ++ ['A', 'D'] ++ List.replicate coords 's')).flatten ++ ['Z']

/-- masked scan of the whole table for entry `idx` (every entry is touched; `cpe` masked copies per entry) -/
def scanI (tab : List G) (dflt : G) (idx : Nat) (cpe : Nat) : G × Log :=
  ((List.range tab.length).foldl (fun u j => ccopy (j == idx) u (tab.getD j dflt)) dflt,
   (List.replicate tab.length (List.replicate cpe 'c')).flatten)

/-- ep_mul_reg_imp: table, recoding, then per digit (w-1) doublings, a masked table scan, a masked negation and
    one addition; finally the masked correction for an even scalar, normalisation and the masked sign -/
def regI (o : Ops G) (tab : List G) (dflt : G) (w cpe : Nat) (reg : List Int) (even : Bool) (p : G) : G × Log :=
  let fin := reg.reverse.foldl (fun (st : G × Log) (d : Int) =>
    let r := dblN o (w - 1) st.1
    let (u, lg) := scanI tab dflt (d.natAbs / 2) cpe
    let v := o.neg u
    let u := ccopy (decide (d < 0)) u v
    (o.add r u, st.2 ++ List.replicate (w - 1) 'D' ++ lg ++ ['N', 'c', 'A'])) (o.zero, ['T', 'r'])
  let u := o.sub fin.1 p
  let r := ccopy even fin.1 u
  (r, fin.2 ++ ['U', 'c', 'c', 'c', 'Z', 'N', 'c'])

def regLog (w cpe tabLen ndigits : Nat) : Log :=
  ['T', 'r'] ++ (List.replicate ndigits (List.replicate (w - 1) 'D' ++ (List.replicate tabLen (List.replicate cpe 'c')).flatten ++ ['N', 'c', 'A'])).flatten
    ++ ['U', 'c', 'c', 'c', 'Z', 'N', 'c']

/-- ep_mul_reg_glv: as above with two sub-scalars sharing the doublings; per digit: scan (2·cpe copies per
    entry), N c A for the first, P N c A for the second; then two masked corrections -/
def regGlvLog (w cpe tabLen ndigits : Nat) : Log :=
  ['g', 'Z', 'N', 'c', 'T', 'r', 'r'] ++
  (List.replicate ndigits (List.replicate (w - 1) 'D' ++ (List.replicate tabLen (List.replicate (2 * cpe) 'c')).flatten ++
     ['N', 'c', 'A', 'P', 'N', 'c', 'A'])).flatten ++
  ['U', 'c', 'c', 'c', 'P', 'N', 'c', 'U', 'c', 'c', 'c', 'Z']

/-- bn_mxp_monty / fp_exp_monty / fb_exp_monty: per exponent bit  swap, multiply(+reduce), square(+reduce), swap -/
def expLadderI (mul : G → G → G) (one a : G) (bs : List Bool) (perBit : Log) : G × Log :=
  let fin := bs.foldl (fun (st : (G × G) × Log) b =>
    let (t0, t1) := cswap (!b) st.1.1 st.1.2
    let t0 := mul t0 t1
    let t1 := mul t1 t1
    let (t0, t1) := cswap (!b) t0 t1
    ((t0, t1), st.2 ++ perBit)) ((one, a), [])
  (fin.1.1, fin.2)

def expLadderLog (nbits : Nat) (perBit : Log) : Log := (List.replicate nbits perBit).flatten

end Relic.Model.CtAlg
