/-
Value-level models of src/bn/relic_bn_srt.c (bn_srt) and src/bn/relic_bn_mod.c (bn_mod_pre_barrt, bn_mod_barrt, bn_mod_pre_monty,
bn_mod_monty_basic / _comba, bn_mod_monty_conv / _back, bn_mod_pre_pmers, bn_mod_pmers).  The digit layer below (bn_add, bn_sub, bn_mul,
bn_sqr, bn_hlv, bn_rsh, bn_lsh, bn_mod_2b, bn_div / bn_mod_basic) is proved exact in C01: the models call Int / Nat arithmetic for those
and mirror the loops, branches, early exits and error conditions of the C functions.  No Mathlib import (the driver links this file).
-/
namespace Relic.Model.NtMod

/-- bn_bits: bit length of the magnitude (0 for 0) -/
def bitLen (n : Nat) : Nat := if n = 0 then 0 else Nat.log2 n + 1

/-- `used` of a normalised bn with magnitude n and digit width w: number of base-2^w digits, 1 for 0 -/
def used (w n : Nat) : Nat := if n = 0 then 1 else Nat.log2 n / w + 1

/-! ## bn_srt — integer square root by binary search

```
bits = bn_bits(a); bits += bits % 2;
l = 0; h = 2^(bits/2); if (bits >= 2) l = 2^(bits/2 - 1);
do { m = (h + l) / 2; t = m²; cmp = cmp(t, a); t = h - l;
     if (cmp == GT) h = m; else if (cmp == LT) l = m;
} while (t > 1 && cmp != EQ);
c = m;
```
-/

/-- one run of the do-while loop with `fuel` rounds allowed; `none` = fuel exhausted (proved unreachable from `bnSrt`) -/
def srtLoop (a : Nat) : Nat → Nat → Nat → Option Nat
  | 0, _, _ => none
  | fuel + 1, h, l =>
    let m := (h + l) / 2
    let t := m * m
    let d := h - l                         -- the C code computes h - l BEFORE updating h / l
    if t > a then (if d > 1 then srtLoop a fuel m l else some m)
    else if t < a then (if d > 1 then srtLoop a fuel h m else some m)
    else some m

/-- initial bounds of bn_srt: (bits rounded up to even, h, l) -/
def srtInit (a : Nat) : Nat × Nat × Nat :=
  let bits := bitLen a
  let bits := bits + bits % 2
  (bits, 2 ^ (bits / 2), if bits ≥ 2 then 2 ^ (bits / 2 - 1) else 0)

/-- number of rounds supplied: h - l = 2^(bits/2 - 1) halves in each round -/
def srtFuel (a : Nat) : Nat := (srtInit a).1 / 2 + 1

/-- bn_srt: `none` = ERR_NO_VALID (negative argument) -/
def bnSrt (a : Int) : Option Nat :=
  if a < 0 then none else
  let (_, h, l) := srtInit a.toNat
  srtLoop a.toNat (srtFuel a.toNat) h l

/-- number of rounds the loop runs (for the driver's tags) -/
def srtRounds (a : Nat) : Nat → Nat → Nat → Nat
  | 0, _, _ => 0
  | fuel + 1, h, l =>
    let m := (h + l) / 2
    let t := m * m
    let d := h - l
    if t > a then (if d > 1 then srtRounds a fuel m l + 1 else 1)
    else if t < a then (if d > 1 then srtRounds a fuel h m + 1 else 1)
    else 1

/-! ## the correction loop `while (t >= m) t -= m` shared by Barrett and pseudo-Mersenne reduction -/

/-- at most `fuel` subtractions; returns the value and the number of subtractions made -/
def subLoop (m : Int) : Nat → Int → Nat → Int × Nat
  | 0, t, n => (t, n)
  | fuel + 1, t, n => if t ≥ m then subLoop m fuel (t - m) (n + 1) else (t, n)

/-- the loop with the fuel that is proved sufficient: ⌊t/m⌋ + 1 -/
def subAll (m t : Int) : Int × Nat := subLoop m ((t / m).toNat + 1) t 0

/-! ## bn_mod_pre_barrt / bn_mod_barrt

```
pre:   if (m == 0 || m < 0) THROW;  u = 2^(2·used(m)·w) / m
barrt: if (m == 0 || m < 0) THROW;
       if (|a| < m) { c = a; if (c < 0) c += m; return; }     -- (fix 060ee71: the residue, not the signed copy)
       if (used(a) > 2·used(m)) { c = a mod m (bn_mod_basic); return; }
       neg = a < 0; c = |a|;
       q = c >> (k-1)w;   t = q·u  (bn_muld_low with lower limit mu: the code's `mu` is always 0 — see below — so the full product);
       q = t >> (k+1)w;   t = (q·m) mod B^(k+1)  (bn_muld_low with upper limit k+1, t->used = k+1);
       q = t mod B^(k+1); t = c mod B^(k+1); t = t - q;
       if (t < 0) t += B^(k+1);
       while (t >= m) t -= m;
       c = t; if (neg && c != 0) c = m - c;                    -- (fix 060ee71: m | a gives 0, not m)
```
`mu = u->used - q->used`; in the branch taken (q->used ≤ u->used) the code sets `mu = (mu > u->used - q->used ? … : 0)`, which is 0. -/

/-- which path of bn_mod_barrt a call takes -/
inductive BarrtPath where
  | early                              -- |a| < m: copy (+ m for a negative a)
  | long                               -- used(a) > 2·used(m): bn_mod_basic
  | main (wrap : Bool) (corr : Nat)    -- Barrett proper: r1 - r2 was negative; number of subtractions of m
  deriving Repr, DecidableEq

/-- bn_mod_pre_barrt: `none` = ERR_NO_VALID -/
def preBarrt (w : Nat) (m : Int) : Option Int :=
  if m ≤ 0 then none else some ((2 : Int) ^ (2 * used w m.toNat * w) / m)

/-- Barrett proper on c = |a| (m ≤ c, used(c) ≤ 2k): value, wrap flag, number of corrections -/
def barrtCore (w k : Nat) (c m u : Int) : Int × Bool × Nat :=
  let B : Int := (2 : Int) ^ w
  let q1 := c / B ^ (k - 1)
  let t := q1 * u
  let q3 := t / B ^ (k + 1)
  let r2 := (q3 * m) % B ^ (k + 1)
  let r1 := c % B ^ (k + 1)
  let t := r1 - r2
  let wrap := decide (t < 0)
  let t := if t < 0 then t + B ^ (k + 1) else t
  let (t, n) := subAll m t
  (t, wrap, n)

/-- bn_mod_barrt: `none` = ERR_NO_VALID -/
def modBarrt (w : Nat) (a m u : Int) : Option (Int × BarrtPath) :=
  if m ≤ 0 then none else
  let k := used w m.toNat
  if a.natAbs < m.natAbs then some (if a < 0 then a + m else a, .early)
  else if used w a.natAbs > 2 * k then some (a % m, .long)
  else
    let (t, wrap, n) := barrtCore w k (a.natAbs : Int) m u
    some (if a < 0 ∧ t ≠ 0 then m - t else t, .main wrap n)

/-- the harness line `nt_mod barrt a m`: bn_mod_pre_barrt then bn_mod_barrt -/
def modBarrtFull (w : Nat) (a m : Int) : Option (Int × BarrtPath) :=
  match preBarrt w m with
  | none => none
  | some u => modBarrt w a m u

/-! ## bn_mod_pre_monty, bn_mod_monty_basic / _comba, bn_mod_monty_conv / _back

```
pre:  b = m[0]; if (m even || m <= 0) THROW;
      x = (((b + 2) & 4) << 1) + b;      -- x·b ≡ 1 mod 2^4
      x *= 2 - b·x;                      -- mod 2^8
      #if WSIZE > 8 / > 16 / > 32: x *= 2 - b·x   (mod 2^16, 2^32, 2^64)
      u = -x  (one digit)
```
all in dig_t arithmetic (mod B = 2^w). -/

/-- number of Newton steps compiled for digit width w -/
def montySteps (w : Nat) : Nat := 1 + (if w > 8 then 1 else 0) + (if w > 16 then 1 else 0) + (if w > 32 then 1 else 0)

/-- one Newton step in dig_t arithmetic -/
def newtonStep (B b x : Int) : Int := (x * (2 - b * x)) % B

def newtonIter (B b : Int) : Nat → Int → Int
  | 0, x => x
  | n + 1, x => newtonIter B b n (newtonStep B b x)

/-- the start value ((b+2) & 4) << 1) + b, value level: bit 2 of b + 2 moved to bit 3 -/
def newtonStart (B b : Int) : Int := ((((b + 2) % B) / 4 % 2) * 8 + b) % B

/-- bn_mod_pre_monty: `none` = ERR_NO_VALID (even or non-positive modulus) -/
def preMonty (w : Nat) (m : Int) : Option Int :=
  if m % 2 = 0 ∨ m ≤ 0 then none else
  let B : Int := (2 : Int) ^ w
  let b := m % B
  let x := newtonIter B b (montySteps w) (newtonStart B b)
  some ((-x) % B)

/-- the k rounds of REDC on the value t: round i adds r_i·m·B^i with r_i = (digit i of t)·u mod B -/
def redcRounds (B m u : Int) : Nat → Nat → Int → Int
  | 0, _, t => t
  | n + 1, i, t =>
    let r := ((t / B ^ i) % B * u) % B
    redcRounds B m u n (i + 1) (t + r * m * B ^ i)

/-- REDC as coded in bn_mod_monty_basic / bn_modn_low + the caller, on a value a ≥ 0: only the low 2k digits of a are read;
    after the k rounds the high half T; `if (carry) T = (T - m) mod B^k` (bn_subn_low on k digits); `if (T ≥ m) T -= m`.
    returns (value, carry branch taken, final subtraction taken) -/
def redc (w : Nat) (a m u : Int) : Int × Bool × Bool :=
  let B : Int := (2 : Int) ^ w
  let k := used w m.toNat
  let t := redcRounds B m u k 0 (a % B ^ (2 * k))
  let T := t / B ^ k
  let carry := decide (T ≥ B ^ k)
  let T := if T ≥ B ^ k then (T - m) % B ^ k else T
  let fin := decide (T ≥ m)
  let T := if T ≥ m then T - m else T
  (T, carry, fin)

/-- bn_mod_monty_comba (= bn_mod_monty in this build): the digits of a are read without its sign -/
def modMontyComba (w : Nat) (a m u : Int) : Option (Int × Bool × Bool) :=
  if m % 2 = 0 ∨ m ≤ 0 then none else some (redc w (a.natAbs : Int) m u)

/-- bn_mod_monty_basic: bn_copy(t, a) keeps the sign of a; the final `bn_cmp_abs(t, m) != LT → bn_sub(t, t, m)` then acts on a negative t -/
def modMontyBasic (w : Nat) (a m u : Int) : Option (Int × Bool × Bool) :=
  if m % 2 = 0 ∨ m ≤ 0 then none else
  if a ≥ 0 then some (redc w a m u) else
  let B : Int := (2 : Int) ^ w
  let k := used w m.toNat
  let t := redcRounds B m u k 0 ((a.natAbs : Int) % B ^ (2 * k))
  let T := t / B ^ k
  let carry := decide (T ≥ B ^ k)
  let T := if T ≥ B ^ k then (T - m) % B ^ k else T
  some (if T ≥ m then -T - m else -T, carry, decide (T ≥ m))

/-- bn_mod_monty_conv: c = a mod m (bn_mod_basic); c <<= k·w; c = c mod m -/
def montyConv (w : Nat) (a m : Int) : Option Int :=
  if m % 2 = 0 ∨ m ≤ 0 then none else
  some (((a % m) * (2 : Int) ^ (used w m.toNat * w)) % m)

/-- bn_mod_monty_back: bn_mod_pre_monty, bn_mod_monty (comba) -/
def montyBack (w : Nat) (a m : Int) : Option (Int × Bool × Bool) :=
  match preMonty w m with
  | none => none
  | some u => modMontyComba w a m u

/-! ## bn_mod_pre_pmers / bn_mod_pmers (HEHC algorithm 10.25 as coded)

```
pre:   if (m <= 0) THROW;  u = 2^bits(m) - m
pmers: bits = bits(m); if (m <= 0) THROW;
       c = a; if (c < 0) { neg = 1; c = m - c; }
       q = c >> bits; c = c mod 2^bits;
       while (bits > 0 && q != 0) { t = q·u (bn_mul_dig if u has one digit); q = t >> bits; t = t mod 2^bits; c += t; }
       while (bits > 0 && |c| >= m) c -= m;
       if (neg && c != 0) c = m - c;                        -- (fix 060ee71: m | a gives 0, not m)
```
(bits > 0 always holds for m > 0.) -/

def prePmers (m : Int) : Option Int :=
  if m ≤ 0 then none else some ((2 : Int) ^ bitLen m.toNat - m)

/-- the folding loop: (c, q) → (c + (q·u mod 2^bits), q·u >> bits) until q = 0; returns c and the number of rounds;
    `none` = fuel exhausted (proved unreachable from `modPmers` when 0 < u ≤ 2^(bits-1)) -/
def pmersFold (bits : Nat) (u : Int) : Nat → Int → Int → Nat → Option (Int × Nat)
  | 0, _, _, _ => none
  | fuel + 1, c, q, n =>
    if q = 0 then some (c, n) else
    let t := q * u
    pmersFold bits u fuel (c + t % (2 : Int) ^ bits) (t / (2 : Int) ^ bits) (n + 1)

/-- bn_mod_pmers: `none` = ERR_NO_VALID; returns (value, folding rounds, subtractions) -/
def modPmers (a m u : Int) : Option (Int × Nat × Nat) :=
  if m ≤ 0 then none else
  let bits := bitLen m.toNat
  let c := if a < 0 then m - a else a
  let q := c / (2 : Int) ^ bits
  let c := c % (2 : Int) ^ bits
  match pmersFold bits u (bitLen q.toNat + 1) c q 0 with
  | none => none
  | some (c, rounds) =>
    let (c, n) := subAll m c
    some (if a < 0 ∧ c ≠ 0 then m - c else c, rounds, n)

def modPmersFull (a m : Int) : Option (Int × Nat × Nat) :=
  match prePmers m with
  | none => none
  | some u => modPmers a m u

end Relic.Model.NtMod
