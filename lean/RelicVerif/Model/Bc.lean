/-
Model of src/bc/relic_bc_aes.c (bc_aes_cbc_enc / bc_aes_cbc_dec) and of padEncrypt / padDecrypt /
makeKey2 of src/bc/rijndael-api-fst.c (MODE_CBC branches). The block functions rijndaelEncrypt /
rijndaelDecrypt (table implementation in rijndael-alg-fst.c) are parameters `E`, `D`; the driver
instantiates them with the FIPS 197 cipher of Spec/Aes.lean (tie: correspondence).
-/
import RelicVerif.Spec.Aes

namespace Relic.Model.Bc
open Relic.Spec.Aes (Bytes addRoundKey)

/-- padEncrypt, MODE_CBC (an empty input is padded to one block like any other) -/
def padEncrypt (E : Bytes → Bytes) (iv : Bytes) (input : Bytes) : Option Bytes :=
    let numBlocks := input.length / 16
    let rec loop (n : Nat) (iv : Bytes) (inp : Bytes) (out : Bytes) : Bytes × Bytes × Bytes :=
      match n with
      | 0 => (iv, inp, out)
      | n + 1 =>
        let block := addRoundKey (inp.take 16) iv
        let c := E block
        loop n c (inp.drop 16) (out ++ c)
    let (iv, rest, out) := loop numBlocks iv input []
    let padLen := 16 - (input.length - 16 * numBlocks)
    let block := (List.range 16).map fun i =>
      if i < 16 - padLen then rest.getD i 0 ^^^ iv.getD i 0 else UInt8.ofNat padLen ^^^ iv.getD i 0
    some (out ++ E block)

/-- padDecrypt, MODE_CBC; none = BAD_DATA, or an empty ciphertext (bc_aes_cbc_dec rejects in_len = 0) -/
def padDecrypt (D : Bytes → Bytes) (iv : Bytes) (input : Bytes) : Option Bytes :=
  if input.length = 0 then none
  else if input.length % 16 ≠ 0 then none
  else
    let numBlocks := input.length / 16
    let rec loop (n : Nat) (iv : Bytes) (inp : Bytes) (out : Bytes) : Bytes × Bytes × Bytes :=
      match n with
      | 0 => (iv, inp, out)
      | n + 1 =>
        let block := addRoundKey (D (inp.take 16)) iv
        loop n (inp.take 16) (inp.drop 16) (out ++ block)
    let (iv, rest, out) := loop (numBlocks - 1) iv input []
    let block := addRoundKey (D (rest.take 16)) iv
    let padLen := (block.getD 15 0).toNat
    if padLen = 0 ∨ padLen > 16 then none
    else if ((List.range 16).all fun i => i < 16 - padLen || block.getD i 0 == UInt8.ofNat padLen) then
      some (out ++ block.take (16 - padLen))
    else none

/-- bc_aes_cbc_enc: none = RLC_ERR -/
def bcAesCbcEnc (mkE : Bytes → Bytes → Bytes) (outCap : Nat) (inp key iv : Bytes) : Option Bytes :=
  let padLen := 16 - inp.length % 16
  if outCap < inp.length + padLen then none
  else if key.length ≠ 16 ∧ key.length ≠ 24 ∧ key.length ≠ 32 then none
  else padEncrypt (mkE key) iv inp

/-- bc_aes_cbc_dec -/
def bcAesCbcDec (mkD : Bytes → Bytes → Bytes) (outCap : Nat) (inp key iv : Bytes) : Option Bytes :=
  if outCap < inp.length then none
  else if key.length ≠ 16 ∧ key.length ≠ 24 ∧ key.length ≠ 32 then none
  else padDecrypt (mkD key) iv inp

/-- the block functions plugged into padEncrypt / padDecrypt: FIPS 197 Cipher / InvCipher under the FIPS 197 key
    expansion (makeKey2 + rijndaelEncrypt / rijndaelDecrypt of the library compute the same function through tables;
    `Model/Rijndael.lean` mirrors that table code and the driver compares all three) -/
def aesE (key : Bytes) : Bytes → Bytes := Relic.Spec.Aes.cipher (Relic.Spec.Aes.keyExpansion key)
def aesD (key : Bytes) : Bytes → Bytes := Relic.Spec.Aes.invCipher (Relic.Spec.Aes.keyExpansion key)

end Relic.Model.Bc
