/-
Models of the Miller loops and of the pairing maps of src/pp/relic_pp_map_k12.c (property C04), over abstract operations:
`F` the value type (Fp12), `T` the type of the running point, `P` the type of the point the lines are evaluated at.

  pp_mil_k12      (signed NAF digits of |a|, first iteration peeled, sparse products)    -> `milK12`
  pp_mil_lit_k12  (plain bits of a, the incoming value is squared)                        -> `milLit`
  pp_fin_k12_oatep (the two Frobenius lines of the optimal ate pairing on BN curves)      -> `finOatep`
  pp_map_(sim_)oatep_k12 / tatep / weilp                                                  -> `mapOatep`, `mapTatep`, `mapWeilp`

Loop structure, digit handling, sign handling and the order of the calls are mirrored; the line functions
(pp_dbl_k12 / pp_add_k12 / …_lit) are PARAMETERS (`MilOps.dbl`, `MilOps.add`): the driver instantiates them with the affine
chord-and-tangent lines of the curve over Fp12, the theorems with an abstract "Miller algebra".
The precomputed forms of the evaluation point (3x_P, −y_P; −Q for the lit loop) are inside the line functions.

No Mathlib.
-/
import RelicVerif.Model.Rec

namespace Relic.Model.PpMiller

structure MilOps (F T P : Type) where
  /-- fp12_mul and fp12_mul_dxs (the sparse product is a product) -/
  mul : F → F → F
  sqr : F → F
  /-- pp_dbl_k12(l, t, t, p) / pp_dbl_lit_k12: (line value, 2t) -/
  dbl : T → P → F × T
  /-- pp_add_k12(l, t, q, p) / pp_add_lit_k12: (line value, t + q) -/
  add : T → T → P → F × T
  neg : T → T

variable {F T P : Type}

/-- one running pair: (q, p, t) = (the base point, the evaluation point, the running point) -/
abbrev Pair (T P : Type) := T × P × T

/-- body of the loops for one pair and one digit d: double, multiply in the line, and for a non-zero digit add ±q -/
def pairStep (o : MilOps F T P) (d : Int) (q : T) (p : P) (r : F) (t : T) : F × T :=
  let lt := o.dbl t p
  let r := o.mul r lt.1
  if d > 0 then
    let la := o.add lt.2 q p
    (o.mul r la.1, la.2)
  else if d < 0 then
    let la := o.add lt.2 (o.neg q) p
    (o.mul r la.1, la.2)
  else (r, lt.2)

/-- `for (j = 0; j < m; j++) { … }` of one loop iteration -/
def pairsStep (o : MilOps F T P) (d : Int) : List (Pair T P) → F → F × List (Pair T P)
  | [], r => (r, [])
  | (q, p, t) :: rest, r =>
    let s := pairStep o d q p r t
    let s' := pairsStep o d rest s.1
    (s'.1, (q, p, s.2) :: s'.2)

/-- one iteration of the main loops: square, then every pair -/
def digitStep (o : MilOps F T P) (d : Int) (st : F × List (Pair T P)) : F × List (Pair T P) :=
  pairsStep o d st.2 (o.sqr st.1)

/-- the doubling pass of the peeled first iteration for the pairs after the first -/
def dblAll (o : MilOps F T P) : List (Pair T P) → F → F × List (Pair T P)
  | [], r => (r, [])
  | (q, p, t) :: rest, r =>
    let lt := o.dbl t p
    let s' := dblAll o rest (o.mul r lt.1)
    (s'.1, (q, p, lt.2) :: s'.2)

/-- the addition pass of the peeled first iteration (`neg`: with −q) -/
def addAll (o : MilOps F T P) (neg : Bool) : List (Pair T P) → F → F × List (Pair T P)
  | [], r => (r, [])
  | (q, p, t) :: rest, r =>
    let la := o.add t (if neg then o.neg q else q) p
    let s' := addAll o neg rest (o.mul r la.1)
    (s'.1, (q, p, la.2) :: s'.2)

/-- pp_mil_k12(r, t, q, p, m, a) with `naf` = the digits bn_rec_naf(s, &len, a, 2) produced (least significant first).
    m == 0: returns without writing (`none`).  The top digit s[len−1] is not looked at; s[len−2] drives the peeled first
    iteration whose first doubling OVERWRITES r; a recoding of length 1 would read s[−1] (`none`: outside the contract). -/
def milK12 (o : MilOps F T P) (pairs : List (T × P)) (naf : List Int) : Option (F × List (Pair T P)) :=
  match pairs with
  | [] => none
  | (q0, p0) :: rest =>
    match naf.reverse with
    | _top :: d1 :: ds =>
      let l0 := o.dbl q0 p0
      let s1 := dblAll o (rest.map fun (q, p) => (q, p, q)) l0.1
      let st : F × List (Pair T P) := (s1.1, (q0, p0, l0.2) :: s1.2)
      let st := if d1 > 0 then addAll o false st.2 st.1 else if d1 < 0 then addAll o true st.2 st.1 else st
      some (ds.foldl (fun st d => digitStep o d st) st)
    | _ => none

/-- pp_mil_lit_k12(r, t, p, q, m, a): plain bits of a below the top bit, most significant first; the incoming r is used -/
def milLit (o : MilOps F T P) (pairs : List (T × P)) (r : F) (a : Nat) : F × List (Pair T P) :=
  let n := Relic.Model.Rec.bitLen a
  let bits : List Int := (List.range (n - 1)).reverse.map fun i => if a.testBit i then 1 else 0
  bits.foldl (fun st d => digitStep o d st) (r, pairs.map fun (q, p) => (q, p, q))

/-- what the pairing maps need besides the loops -/
structure MapOps (F T : Type) where
  one : F
  invCyc : F → F
  inv : F → F
  /-- pp_exp_k12 (`none`: no case of the dispatcher writes the result) -/
  finalExp : F → Option F
  /-- ep2_frb(·, ·, i) -/
  frb : T → Nat → T

/-- pp_fin_k12_oatep for one pair: the lines through t, π(q) and through the sum, −π²(q) -/
def finOatep (o : MilOps F T P) (m : MapOps F T) (r : F) (t q : T) (p : P) : F :=
  let q1 := m.frb q 1
  let q2 := o.neg (m.frb q 2)
  let l1 := o.add t q1 p
  let r := o.mul r l1.1
  let l2 := o.add l1.2 q2 p
  o.mul r l2.1

/-- pp_map_oatep_k12 / pp_map_sim_oatep_k12 on the pairs that survive the identity filter (`pairs`: (q, p), both finite,
    normalised); `x` the curve parameter, `naf6x2` / `nafx` the recodings of |6x+2| and |x| -/
def mapOatep (o : MilOps F T P) (m : MapOps F T) (fam : String) (x : Int) (naf : List Int) (pairs : List (T × P)) : Option F :=
  if pairs.isEmpty then some m.one else
  if fam == "EP_BN" then do
    let a := 6 * x + 2
    let st ← milK12 o pairs naf
    let neg := a < 0
    let r := if neg then m.invCyc st.1 else st.1
    let r := st.2.foldl (fun r (q, p, t) => finOatep o m r (if neg then o.neg t else t) q p) r
    m.finalExp r
  else if fam == "EP_B12" then do
    let st ← milK12 o pairs naf
    let r := if x < 0 then m.invCyc st.1 else st.1
    m.finalExp r
  else some m.one     -- no case of the switch: r stays 1

/-- pp_map_tatep_k12 / sim: Miller loop over the bits of the group order n with the roles exchanged, final exponentiation -/
def mapTatep (o : MilOps F T P) (m : MapOps F T) (n : Nat) (pairs : List (T × P)) : Option F :=
  if pairs.isEmpty then some m.one else
  m.finalExp (milLit o pairs m.one n).1

/-- pp_map_weilp_k12 / sim: (f_{n−1,P}(Q) / f_{n−1,Q}(P))^(p^6 − 1); `pairsPQ` for the lit loop, `pairsQP` for the other;
    `naf` the recoding of n − 1 -/
def mapWeilp (o1 o2 : MilOps F T P) (m : MapOps F T) (n : Nat) (naf : List Int) (pairsPQ pairsQP : List (T × P)) : Option F :=
  if pairsPQ.isEmpty then some (o1.mul m.one m.one) else do
    let r0 := (milLit o1 pairsPQ m.one (n - 1)).1
    let st ← milK12 o2 pairsQP naf
    let r1 := m.inv st.1
    let r0 := o1.mul r0 r1
    let r1 := m.inv r0
    let r0 := m.invCyc r0
    some (o1.mul r0 r1)

end Relic.Model.PpMiller
