/-
Word-level model of the table-driven AES of src/bc/rijndael-alg-fst.c (the text compiled without FULL_UNROLL), over the
tables extracted from the C text on every run (Gen/AesTables.lean, tools/translate_aes.py).

Every C function is mirrored statement by statement on `UInt32`:
  * `rk` is an array of 4·(MAXNR+1) = 60 words together with an offset that plays the role of the moving pointer
    (`rk += 4 / 6 / 8`);
  * `for (;;) { … if (++i == N) return …; … }` is a structurally recursive function on a fuel that is never exhausted
    for the sizes of the library (the exit test is the one of the C text);
  * GETU32 / PUTU32 are the big-endian load / store macros of the non-MSVC branch.
No Mathlib (linked into the compiled driver).
-/
import RelicVerif.Gen.AesTables

namespace Relic.Model.Rijndael
open Relic.Gen.AesTables

/-- `GETU32(p + o)` -/
@[inline] def getu32 (p : List UInt8) (o : Nat) : UInt32 :=
  ((p.getD o 0).toUInt32 <<< 24) ^^^ ((p.getD (o + 1) 0).toUInt32 <<< 16) ^^^
  ((p.getD (o + 2) 0).toUInt32 <<< 8) ^^^ (p.getD (o + 3) 0).toUInt32

/-- `PUTU32(ct, st)` -/
@[inline] def putu32 (st : UInt32) : List UInt8 :=
  [(st >>> (24 : UInt32)).toUInt8, (st >>> (16 : UInt32)).toUInt8, (st >>> (8 : UInt32)).toUInt8, st.toUInt8]

/-- `T[i]` for a table of 256 words and an index that the C text keeps below 256 -/
@[inline] def tab (t : Array UInt32) (i : UInt32) : UInt32 := t.getD i.toNat 0

/-- the four index expressions of the C text: `(w >> 24)`, `(w >> 16) & 0xff`, `(w >> 8) & 0xff`, `w & 0xff` -/
@[inline] def b3 (w : UInt32) : UInt32 := w >>> (24 : UInt32)
@[inline] def b2 (w : UInt32) : UInt32 := (w >>> (16 : UInt32)) &&& 0xff
@[inline] def b1 (w : UInt32) : UInt32 := (w >>> (8 : UInt32)) &&& 0xff
@[inline] def b0 (w : UInt32) : UInt32 := w &&& 0xff

/-- `rk[k]` relative to the moving pointer -/
@[inline] def rd (rk : Array UInt32) (off k : Nat) : UInt32 := rk.getD (off + k) 0
@[inline] def wr (rk : Array UInt32) (off k : Nat) (v : UInt32) : Array UInt32 := rk.setIfInBounds (off + k) v

/-- 4·(MAXNR + 1) words -/
def rkWords : Nat := 60

/-- SubWord(RotWord(temp)) as written in the three key schedules -/
@[inline] def subRot (temp : UInt32) : UInt32 :=
  (tab Te4 (b2 temp) &&& 0xff000000) ^^^
  (tab Te4 (b1 temp) &&& 0x00ff0000) ^^^
  (tab Te4 (b0 temp) &&& 0x0000ff00) ^^^
  (tab Te4 (b3 temp) &&& 0x000000ff)

/-- SubWord(temp) of the 256-bit schedule -/
@[inline] def subWord (temp : UInt32) : UInt32 :=
  (tab Te4 (b3 temp) &&& 0xff000000) ^^^
  (tab Te4 (b2 temp) &&& 0x00ff0000) ^^^
  (tab Te4 (b1 temp) &&& 0x0000ff00) ^^^
  (tab Te4 (b0 temp) &&& 0x000000ff)

/-- `if (keyBits == 128) { for (;;) { … if (++i == 10) return 10; rk += 4; } }` -/
def loop128 : Nat → Array UInt32 → Nat → Nat → Array UInt32
  | 0, rk, _, _ => rk
  | fuel + 1, rk, off, i =>
    let temp := rd rk off 3
    let rk := wr rk off 4 (rd rk off 0 ^^^ subRot temp ^^^ rcon.getD i 0)
    let rk := wr rk off 5 (rd rk off 1 ^^^ rd rk off 4)
    let rk := wr rk off 6 (rd rk off 2 ^^^ rd rk off 5)
    let rk := wr rk off 7 (rd rk off 3 ^^^ rd rk off 6)
    let i := i + 1
    if i == 10 then rk else loop128 fuel rk (off + 4) i

/-- `if (keyBits == 192) { for (;;) { … if (++i == 8) return 12; … rk += 6; } }` -/
def loop192 : Nat → Array UInt32 → Nat → Nat → Array UInt32
  | 0, rk, _, _ => rk
  | fuel + 1, rk, off, i =>
    let temp := rd rk off 5
    let rk := wr rk off 6 (rd rk off 0 ^^^ subRot temp ^^^ rcon.getD i 0)
    let rk := wr rk off 7 (rd rk off 1 ^^^ rd rk off 6)
    let rk := wr rk off 8 (rd rk off 2 ^^^ rd rk off 7)
    let rk := wr rk off 9 (rd rk off 3 ^^^ rd rk off 8)
    let i := i + 1
    if i == 8 then rk else
    let rk := wr rk off 10 (rd rk off 4 ^^^ rd rk off 9)
    let rk := wr rk off 11 (rd rk off 5 ^^^ rd rk off 10)
    loop192 fuel rk (off + 6) i

/-- `if (keyBits == 256) { for (;;) { … if (++i == 7) return 14; … rk += 8; } }` -/
def loop256 : Nat → Array UInt32 → Nat → Nat → Array UInt32
  | 0, rk, _, _ => rk
  | fuel + 1, rk, off, i =>
    let temp := rd rk off 7
    let rk := wr rk off 8 (rd rk off 0 ^^^ subRot temp ^^^ rcon.getD i 0)
    let rk := wr rk off 9 (rd rk off 1 ^^^ rd rk off 8)
    let rk := wr rk off 10 (rd rk off 2 ^^^ rd rk off 9)
    let rk := wr rk off 11 (rd rk off 3 ^^^ rd rk off 10)
    let i := i + 1
    if i == 7 then rk else
    let temp := rd rk off 11
    let rk := wr rk off 12 (rd rk off 4 ^^^ subWord temp)
    let rk := wr rk off 13 (rd rk off 5 ^^^ rd rk off 12)
    let rk := wr rk off 14 (rd rk off 6 ^^^ rd rk off 13)
    let rk := wr rk off 15 (rd rk off 7 ^^^ rd rk off 14)
    loop256 fuel rk (off + 8) i

/-- `rijndaelKeySetupEnc(rk, cipherKey, keyBits)` with keyBits = 8·|key|: the expanded key (60 words, the first
4·(Nr+1) are meaningful) and Nr; `none` where the C function returns 0 (and where it would read past the key). -/
def keySetupEnc (key : List UInt8) : Option (Array UInt32 × Nat) :=
  let keyBits := 8 * key.length
  if keyBits != 128 && keyBits != 192 && keyBits != 256 then none else
  let rk : Array UInt32 := Array.replicate rkWords 0
  let rk := wr rk 0 0 (getu32 key 0)
  let rk := wr rk 0 1 (getu32 key 4)
  let rk := wr rk 0 2 (getu32 key 8)
  let rk := wr rk 0 3 (getu32 key 12)
  if keyBits == 128 then some (loop128 10 rk 0 0, 10) else
  let rk := wr rk 0 4 (getu32 key 16)
  let rk := wr rk 0 5 (getu32 key 20)
  if keyBits == 192 then some (loop192 8 rk 0 0, 12) else
  let rk := wr rk 0 6 (getu32 key 24)
  let rk := wr rk 0 7 (getu32 key 28)
  if keyBits == 256 then some (loop256 7 rk 0 0, 14) else
  none

/-- `for (i = 0, j = 4*Nr; i < j; i += 4, j -= 4) { swap rk[i+k], rk[j+k], k = 0..3 }` -/
def swapLoop : Nat → Array UInt32 → Nat → Nat → Array UInt32
  | 0, rk, _, _ => rk
  | fuel + 1, rk, i, j =>
    if i < j then
      let swap (rk : Array UInt32) (k : Nat) : Array UInt32 :=
        let temp := rk.getD (i + k) 0
        let rk := rk.setIfInBounds (i + k) (rk.getD (j + k) 0)
        rk.setIfInBounds (j + k) temp
      let rk := swap rk 0
      let rk := swap rk 1
      let rk := swap rk 2
      let rk := swap rk 3
      swapLoop fuel rk (i + 4) (j - 4)
    else rk

/-- `Td0[Te4[(w >> 24)] & 0xff] ^ Td1[Te4[(w >> 16) & 0xff] & 0xff] ^ Td2[Te4[(w >> 8) & 0xff] & 0xff] ^ Td3[Te4[w & 0xff] & 0xff]` -/
@[inline] def invMixWord (w : UInt32) : UInt32 :=
  tab Td0 (tab Te4 (b3 w) &&& 0xff) ^^^
  tab Td1 (tab Te4 (b2 w) &&& 0xff) ^^^
  tab Td2 (tab Te4 (b1 w) &&& 0xff) ^^^
  tab Td3 (tab Te4 (b0 w) &&& 0xff)

/-- `for (i = 1; i < Nr; i++) { rk += 4; rk[k] = invMixWord(rk[k]), k = 0..3 }`; `cnt` = Nr − i -/
def invMixLoop : Nat → Array UInt32 → Nat → Array UInt32
  | 0, rk, _ => rk
  | cnt + 1, rk, off =>
    let off := off + 4
    let rk := wr rk off 0 (invMixWord (rd rk off 0))
    let rk := wr rk off 1 (invMixWord (rd rk off 1))
    let rk := wr rk off 2 (invMixWord (rd rk off 2))
    let rk := wr rk off 3 (invMixWord (rd rk off 3))
    invMixLoop cnt rk off

/-- `rijndaelKeySetupDec` -/
def keySetupDec (key : List UInt8) : Option (Array UInt32 × Nat) :=
  match keySetupEnc key with
  | none => none
  | some (rk, nr) =>
    let rk := swapLoop (nr + 1) rk 0 (4 * nr)
    let rk := invMixLoop (nr - 1) rk 0
    some (rk, nr)

abbrev W4 := UInt32 × UInt32 × UInt32 × UInt32

/-- one table round of rijndaelEncrypt: `x0 = Te0[a0 >> 24] ^ Te1[(a1 >> 16) & 0xff] ^ Te2[(a2 >> 8) & 0xff] ^ Te3[a3 & 0xff] ^ rk[o]; …`
(the same text with (s, t, rk[4..7]) and with (t, s, rk[0..3])) -/
@[inline] def encHalf (rk : Array UInt32) (o : Nat) (a : W4) : W4 :=
  let (a0, a1, a2, a3) := a
  (tab Te0 (b3 a0) ^^^ tab Te1 (b2 a1) ^^^ tab Te2 (b1 a2) ^^^ tab Te3 (b0 a3) ^^^ rk.getD o 0,
   tab Te0 (b3 a1) ^^^ tab Te1 (b2 a2) ^^^ tab Te2 (b1 a3) ^^^ tab Te3 (b0 a0) ^^^ rk.getD (o + 1) 0,
   tab Te0 (b3 a2) ^^^ tab Te1 (b2 a3) ^^^ tab Te2 (b1 a0) ^^^ tab Te3 (b0 a1) ^^^ rk.getD (o + 2) 0,
   tab Te0 (b3 a3) ^^^ tab Te1 (b2 a0) ^^^ tab Te2 (b1 a1) ^^^ tab Te3 (b0 a2) ^^^ rk.getD (o + 3) 0)

/-- `r = Nr >> 1; for (;;) { t = round(s, rk[4..7]); rk += 8; if (--r == 0) break; s = round(t, rk[0..3]); }`:
returns the pointer offset and t.  The first argument is r before the decrement. -/
def encLoop (rk : Array UInt32) : Nat → Nat → W4 → Nat × W4
  | 0, off, s => (off, s)   -- r = 0 on entry: not reached (Nr ≥ 10)
  | r + 1, off, s =>
    let t := encHalf rk (off + 4) s
    let off := off + 8
    if r == 0 then (off, t) else
    encLoop rk r off (encHalf rk off t)

/-- `rijndaelEncrypt(rk, Nr, pt, ct)` -/
def encrypt (rk : Array UInt32) (nr : Nat) (pt : List UInt8) : List UInt8 :=
  let s : W4 := (getu32 pt 0 ^^^ rk.getD 0 0, getu32 pt 4 ^^^ rk.getD 1 0, getu32 pt 8 ^^^ rk.getD 2 0,
                 getu32 pt 12 ^^^ rk.getD 3 0)
  let (off, t0, t1, t2, t3) := encLoop rk (nr >>> 1) 0 s
  let s0 := (tab Te4 (b3 t0) &&& 0xff000000) ^^^ (tab Te4 (b2 t1) &&& 0x00ff0000) ^^^
            (tab Te4 (b1 t2) &&& 0x0000ff00) ^^^ (tab Te4 (b0 t3) &&& 0x000000ff) ^^^ rd rk off 0
  let s1 := (tab Te4 (b3 t1) &&& 0xff000000) ^^^ (tab Te4 (b2 t2) &&& 0x00ff0000) ^^^
            (tab Te4 (b1 t3) &&& 0x0000ff00) ^^^ (tab Te4 (b0 t0) &&& 0x000000ff) ^^^ rd rk off 1
  let s2 := (tab Te4 (b3 t2) &&& 0xff000000) ^^^ (tab Te4 (b2 t3) &&& 0x00ff0000) ^^^
            (tab Te4 (b1 t0) &&& 0x0000ff00) ^^^ (tab Te4 (b0 t1) &&& 0x000000ff) ^^^ rd rk off 2
  let s3 := (tab Te4 (b3 t3) &&& 0xff000000) ^^^ (tab Te4 (b2 t0) &&& 0x00ff0000) ^^^
            (tab Te4 (b1 t1) &&& 0x0000ff00) ^^^ (tab Te4 (b0 t2) &&& 0x000000ff) ^^^ rd rk off 3
  putu32 s0 ++ putu32 s1 ++ putu32 s2 ++ putu32 s3

/-- one table round of rijndaelDecrypt: `x0 = Td0[a0 >> 24] ^ Td1[(a3 >> 16) & 0xff] ^ Td2[(a2 >> 8) & 0xff] ^ Td3[a1 & 0xff] ^ rk[o]; …` -/
@[inline] def decHalf (rk : Array UInt32) (o : Nat) (a : W4) : W4 :=
  let (a0, a1, a2, a3) := a
  (tab Td0 (b3 a0) ^^^ tab Td1 (b2 a3) ^^^ tab Td2 (b1 a2) ^^^ tab Td3 (b0 a1) ^^^ rk.getD o 0,
   tab Td0 (b3 a1) ^^^ tab Td1 (b2 a0) ^^^ tab Td2 (b1 a3) ^^^ tab Td3 (b0 a2) ^^^ rk.getD (o + 1) 0,
   tab Td0 (b3 a2) ^^^ tab Td1 (b2 a1) ^^^ tab Td2 (b1 a0) ^^^ tab Td3 (b0 a3) ^^^ rk.getD (o + 2) 0,
   tab Td0 (b3 a3) ^^^ tab Td1 (b2 a2) ^^^ tab Td2 (b1 a1) ^^^ tab Td3 (b0 a0) ^^^ rk.getD (o + 3) 0)

def decLoop (rk : Array UInt32) : Nat → Nat → W4 → Nat × W4
  | 0, off, s => (off, s)
  | r + 1, off, s =>
    let t := decHalf rk (off + 4) s
    let off := off + 8
    if r == 0 then (off, t) else
    decLoop rk r off (decHalf rk off t)

/-- `rijndaelDecrypt(rk, Nr, ct, pt)` -/
def decrypt (rk : Array UInt32) (nr : Nat) (ct : List UInt8) : List UInt8 :=
  let s : W4 := (getu32 ct 0 ^^^ rk.getD 0 0, getu32 ct 4 ^^^ rk.getD 1 0, getu32 ct 8 ^^^ rk.getD 2 0,
                 getu32 ct 12 ^^^ rk.getD 3 0)
  let (off, t0, t1, t2, t3) := decLoop rk (nr >>> 1) 0 s
  let s0 := (tab Td4 (b3 t0) &&& 0xff000000) ^^^ (tab Td4 (b2 t3) &&& 0x00ff0000) ^^^
            (tab Td4 (b1 t2) &&& 0x0000ff00) ^^^ (tab Td4 (b0 t1) &&& 0x000000ff) ^^^ rd rk off 0
  let s1 := (tab Td4 (b3 t1) &&& 0xff000000) ^^^ (tab Td4 (b2 t0) &&& 0x00ff0000) ^^^
            (tab Td4 (b1 t3) &&& 0x0000ff00) ^^^ (tab Td4 (b0 t2) &&& 0x000000ff) ^^^ rd rk off 1
  let s2 := (tab Td4 (b3 t2) &&& 0xff000000) ^^^ (tab Td4 (b2 t1) &&& 0x00ff0000) ^^^
            (tab Td4 (b1 t0) &&& 0x0000ff00) ^^^ (tab Td4 (b0 t3) &&& 0x000000ff) ^^^ rd rk off 2
  let s3 := (tab Td4 (b3 t3) &&& 0xff000000) ^^^ (tab Td4 (b2 t2) &&& 0x00ff0000) ^^^
            (tab Td4 (b1 t1) &&& 0x0000ff00) ^^^ (tab Td4 (b0 t0) &&& 0x000000ff) ^^^ rd rk off 3
  putu32 s0 ++ putu32 s1 ++ putu32 s2 ++ putu32 s3

/-- key setup (encryption schedule) + one block; `[]` for a key that is not 16 / 24 / 32 bytes -/
def aesE (key blk : List UInt8) : List UInt8 :=
  match keySetupEnc key with
  | some (rk, nr) => encrypt rk nr blk
  | none => []

/-- key setup (decryption schedule) + one block; `[]` for a key that is not 16 / 24 / 32 bytes -/
def aesD (key blk : List UInt8) : List UInt8 :=
  match keySetupDec key with
  | some (rk, nr) => decrypt rk nr blk
  | none => []

end Relic.Model.Rijndael
