/-
Scalar-multiplication algorithms of src/ep/relic_ep_mul.c, relic_ep_mul_fix.c, relic_ep_mul_sim.c (and their
ep2/ed/eb copies) over an arbitrary carrier with explicit operations. The loops mirror the C: same recoding
consumed in the same order, same table indexing. Executable (the driver instantiates them with the affine
curve arithmetic and the recodings of Model/Rec.lean); the theorems in Lemmas/MulAlg.lean instantiate the
operations with an abstract additive commutative group.
-/
namespace Relic.Model.MulAlg

structure Ops (G : Type) where
  zero : G
  add : G → G → G
  neg : G → G

variable {G : Type}

def Ops.sub (o : Ops G) (a b : G) : G := o.add a (o.neg b)
def Ops.dbl (o : Ops G) (a : G) : G := o.add a a

/-- n successive doublings -/
def dblN (o : Ops G) : Nat → G → G
  | 0, x => x
  | n + 1, x => dblN o n (o.dbl x)

/-- ep_tab: t[i] = (2i+1)·P for i < 2^(w-2) (built as t[i] = t[i-1] + 2P) -/
def tabOdd (o : Ops G) (p : G) : Nat → List G
  | 0 => []
  | n + 1 => (tabOdd o p n) ++ [match (tabOdd o p n).getLast? with
      | some last => o.add last (o.dbl p)
      | none => p]

/-- left-to-right signed-digit loop with a table of odd multiples (ep_mul_naf_imp, ep_mul_fix_plain, and
    ep_mul_basic with the table [P]): from the top digit down, r = 2r, then r ± t[|d|/2].
    `digits` is least significant first, as bn_rec_naf writes it. -/
def mulSigned (o : Ops G) (tab : List G) (dflt : G) (digits : List Int) : G :=
  digits.reverse.foldl (fun r d =>
    let r := o.dbl r
    if d > 0 then o.add r (tab.getD (d.toNat / 2) dflt)
    else if d < 0 then o.sub r (tab.getD ((-d).toNat / 2) dflt)
    else r) o.zero

/-- number of bits of a window digit (util_bits_dig) -/
def bitLenNat (n : Nat) : Nat := if n = 0 then 0 else Nat.log2 n + 1

/-- sliding-window loop (ep_mul_slide): windows most significant first; a zero doubles once, a window
    digit d doubles bitLen d times and adds t[d >> 1] -/
def mulSlide (o : Ops G) (tab : List G) (dflt : G) (win : List Int) : G :=
  win.foldl (fun r d =>
    if d = 0 then o.dbl r
    else o.add (dblN o (bitLenNat d.toNat) r) (tab.getD (d.toNat / 2) dflt)) o.zero

/-- Montgomery ladder (ep_mul_monty): (t0, t1) = (P, 2P), then for the bits below the top one of l, from
    the top: bit 1 ↦ (t0 + t1, 2 t1); bit 0 ↦ (2 t0, t0 + t1). `bits` are those lower bits, most significant first. -/
def mulLadder (o : Ops G) (p : G) (bits : List Bool) : G :=
  (bits.foldl (fun (t : G × G) b =>
    if b then (o.add t.1 t.2, o.dbl t.2) else (o.dbl t.1, o.add t.1 t.2)) (p, o.dbl p)).1

/-- regular recoding loop (ep_mul_reg_imp): from the top digit: r = 2^(w-1) r, then r += sign(d)·t[|d|/2];
    finally subtract P if the (reduced) scalar was even (the recoding was made of scalar | 1) -/
def mulReg (o : Ops G) (tab : List G) (dflt : G) (w : Nat) (reg : List Int) (even : Bool) (p : G) : G :=
  let r := reg.reverse.foldl (fun r d =>
    let r := dblN o (w - 1) r
    let u := tab.getD (d.natAbs / 2) dflt
    o.add r (if d < 0 then o.neg u else u)) o.zero
  if even then o.sub r p else r

/-- fixed-base binary method (ep_mul_pre_basic / ep_mul_fix_basic): t[i] = 2^i·P, r = Σ_{bit i set} t[i] -/
def tabPow2 (o : Ops G) (p : G) : Nat → List G
  | 0 => []
  | n + 1 => p :: tabPow2 o (o.dbl p) n

def mulFixBasic (o : Ops G) (tab : List G) (dflt : G) (k : Nat) : G :=
  (List.range tab.length).foldl (fun r i => if (k >>> i) % 2 = 1 then o.add r (tab.getD i dflt) else r) o.zero

/-- Shamir's trick with fixed windows (ep_mul_sim_trick): t[(i << w) + j] = i·P + j·Q; from the top window
    down: r = 2^w r + t[(w0[i] << w) + w1[i]] -/
def simTrick (o : Ops G) (tab : List G) (dflt : G) (w : Nat) (w0 w1 : List Int) : G :=
  let n := max w0.length w1.length
  (List.range n).reverse.foldl (fun r i =>
    let r := dblN o w r
    o.add r (tab.getD (((w0.getD i 0).toNat <<< w) + (w1.getD i 0).toNat) dflt)) o.zero

/-- table of Shamir's trick: entries i·P + j·Q for i, j < 2^w, built as t0[i] + t1[j] with tk[i] = tk[i-1] + tk[1] -/
def mulSmall (o : Ops G) (p : G) : Nat → G
  | 0 => o.zero
  | 1 => p
  | n + 2 => o.add (mulSmall o p (n + 1)) p

def tabTrick (o : Ops G) (p q : G) (w : Nat) : List G :=
  (List.range (2 ^ w)).flatMap fun i => (List.range (2 ^ w)).map fun j => o.add (mulSmall o p i) (mulSmall o q j)

/-- interleaving of two w-NAFs (ep_mul_sim_inter, plain curves): one doubling per position, each scalar adds
    or subtracts from its own table -/
def simInter (o : Ops G) (tab0 tab1 : List G) (dflt : G) (naf0 naf1 : List Int) : G :=
  let n := max naf0.length naf1.length
  (List.range n).reverse.foldl (fun r i =>
    let r := o.dbl r
    let step := fun (r : G) (tab : List G) (d : Int) =>
      if d > 0 then o.add r (tab.getD (d.toNat / 2) dflt)
      else if d < 0 then o.sub r (tab.getD ((-d).toNat / 2) dflt) else r
    step (step r tab0 (naf0.getD i 0)) tab1 (naf1.getD i 0)) o.zero

/-- joint sparse form (ep_mul_sim_joint): t = [O, Q, P, P + Q, P - Q]; index by (u0, u1) ∈ {-1,0,1}² -/
def simJoint (o : Ops G) (p q : G) (j0 j1 : List Int) : G :=
  let n := max j0.length j1.length
  (List.range n).reverse.foldl (fun r i =>
    let r := o.dbl r
    let u0 := j0.getD i 0
    let u1 := j1.getD i 0
    let r := if u0 > 0 then o.add r p else if u0 < 0 then o.sub r p else r
    if u1 > 0 then o.add r q else if u1 < 0 then o.sub r q else r) o.zero

end Relic.Model.MulAlg
