/-
Frobenius (GLS) paths of src/epx/relic_ep2_mul.c / relic_ep2_mul_sim.c: the four-dimensional decomposition bn_rec_frb
(src/bn/relic_bn_rec.c) on integers, and the loop of ep2_mul_gls_imp (four interleaved width-w NAFs over four tables, table i
being the image of table i-1 under the twisted Frobenius ψ, negated when the signs of consecutive sub-scalars differ).
ep2_mul_sim_endom and the n ≤ 10 branch of ep2_mul_sim_lot are `simLotNaf` of Model/EpMul.lean over the 8 (resp. 4n) points
±ψ^j(P).  Same conventions as Model/MulAlg.lean.  Executable, no Mathlib.
-/
import RelicVerif.Model.EpMul

namespace Relic.Model.Ep2Mul
open Relic.Model.MulAlg Relic.Model.EpMul Relic.Model.Rec
open Relic.Model.EbMul (bucketAdd)

variable {G : Type}

/-- the final step of bn_rec_frb (BN branch): a residue a ∈ [0, n) becomes a when n − a is longer than a, else a − n -/
def centre (n a : Nat) : Int := if bitLen (n - a) > bitLen a then (a : Int) else (a : Int) - (n : Int)

/-- bn_div (floor division for a positive divisor) followed by `if negative then + 1` -/
def frbQuot (v : Int) (k n : Nat) : Int :=
  let q := (v * (k : Int)) / (n : Int)
  if q < 0 then q + 1 else q

/-- the coefficient rows of bn_rec_frb (BN branch) for the family parameter x: row j lists the factors of b_0 … b_3 in k_j -/
def frbRows (x : Int) : List (List Int) :=
  [[x + 1, 2 * x + 1, 2 * x, x - 1],
   [x, -x, 2 * x + 1, 4 * x + 2],
   [x, -(x + 1), 2 * x + 1, -(2 * x - 1)],
   [-2 * x, -x, 2 * x + 1, x - 1]]

/-- the multipliers v_0 … v_3 of bn_rec_frb (BN branch) -/
def frbMults (x : Int) : List Int :=
  [2 * x * x + 3 * x + 1, 12 * x * x * x + 8 * x * x + x, 6 * x * x * x + 4 * x * x + x, -(2 * x * x + x)]

/-- bn_rec_frb with cof = 1 (BN curves), k already reduced modulo n: b_i = v_i·k div n (+1 when negative),
    k_j ≡ [j = 0]·k − Σ_i rows[j][i]·b_i (mod n), taken in [0, n) and then centred (the rows are `frbRows x`, written out) -/
def recFrbBN (k n : Nat) (x : Int) : List Int :=
  let b0 := frbQuot (2 * x * x + 3 * x + 1) k n
  let b1 := frbQuot (12 * x * x * x + 8 * x * x + x) k n
  let b2 := frbQuot (6 * x * x * x + 4 * x * x + x) k n
  let b3 := frbQuot (-(2 * x * x + x)) k n
  let c := fun (a : Int) => centre n (a % (n : Int)).toNat
  [c ((k : Int) - ((x + 1) * b0 + (2 * x + 1) * b1 + 2 * x * b2 + (x - 1) * b3)),
   c (-(x * b0 + -x * b1 + (2 * x + 1) * b2 + (4 * x + 2) * b3)),
   c (-(x * b0 + -(x + 1) * b1 + (2 * x + 1) * b2 + -(2 * x - 1) * b3)),
   c (-(-2 * x * b0 + -x * b1 + (2 * x + 1) * b2 + (x - 1) * b3))]

/-- bn_rec_frb with cof = 0 (other families): the digits of k in base |x|; odd positions negated when x < 0 -/
def recFrbBase (k : Nat) (x : Int) : List Int :=
  let u := x.natAbs
  (List.range 4).map fun i =>
    let d : Int := ((k / u ^ i % u : Nat) : Int)
    if x < 0 && i % 2 == 1 then -d else d

/-- the table of ψ-images of ep2_mul_gls_imp: negated when the signs of the two consecutive sub-scalars differ -/
def frbTab (o : Ops G) (psi : G → G) (a b : Bool) (t : List G) : List G :=
  t.map fun x => if a != b then o.neg (psi x) else psi x

/-- ep2_mul_gls_imp: t0 = odd multiples of ±P (sign of k0), t_i = ±ψ(t_{i-1}); from the top digit: r = 2r, then for the four
    strings in order r ± t_i[|d|/2] -/
def mulGls (o : Ops G) (psi : G → G) (p : G) (tabLen : Nat) (s0 s1 s2 s3 : Bool) (n0 n1 n2 n3 : List Int) : G :=
  let t0 := tabOdd o (if s0 then o.neg p else p) tabLen
  let t1 := frbTab o psi s0 s1 t0
  let t2 := frbTab o psi s1 s2 t1
  let t3 := frbTab o psi s2 s3 t2
  let l := max (max n0.length n1.length) (max n2.length n3.length)
  (List.range l).reverse.foldl (fun r i =>
    let r := o.dbl r
    let r := stepTab o id t0 r (n0.getD i 0)
    let r := stepTab o id t1 r (n1.getD i 0)
    let r := stepTab o id t2 r (n2.getD i 0)
    stepTab o id t3 r (n3.getD i 0)) o.zero

/-- ep2_mul_sim_lot for n > 10: signed width-w NAFs (w = max(2, bits(n) − 2), c = 2^(w−2) buckets per row) of the four sub-scalars of
    every point; per position i from the top: every non-zero digit of sub-scalar m puts ±P_j into bucket |d|/2 of row m; the rows are
    summed (`combineRow`: Σ (2j+1)·B[j]) and combined from row 3 down: t = ψ(t) + Σ row m; then s = 2s + t.
    Executed by the driver; no theorem yet (the two-row form is `C03.mul_sim_lot_bucket_correct`). -/
def simLotBucket4 (o : Ops G) (psi : G → G) (ps : List G) (nafs : List (List (List Int))) (c l : Nat) : G :=
  (List.range l).reverse.foldl (fun s i =>
    let rows : List (List G) := (ps.zip nafs).foldl (fun (b : List (List G)) (pn : G × List (List Int)) =>
        b.zipIdx.map fun (rm : List G × Nat) => bucketAdd o rm.1 ((pn.2.getD rm.2 []).getD i 0) pn.1)
      (List.replicate 4 (List.replicate c o.zero))
    let t := rows.reverse.foldl (fun t row => o.add (psi t) (combineRow o row)) o.zero
    o.add (o.dbl s) t) o.zero

end Relic.Model.Ep2Mul
