/-
A small branch-free imperative language for the constant-time primitives of C20 (dv_copy_sec, dv_swap_sec,
dv_cmp_sec, util_cmp_sec).  The translator tools/translate_ct.py turns the C text of those functions into
values of `Prog` on every run (lean/RelicVerif/Gen/Ct.lean); a C construct outside this language (an `if`, a
`while`, `&&`, `||`, a ternary whose arms are not constants, an early return, a call) is a translation failure.

Semantics: machine words are `Nat` reduced modulo the declared width of the variable that receives them; the
evaluator records a *trace* of everything that can influence the instruction / address sequence: every loop
entry with its iteration count, and every array access with its index.  There is no conditional statement.
`sel c a b` is the value-level selection `c ? a : b` with constant arms (compiled to setcc / cmov; that the C
compiler does so is part of the trusted base).
-/
namespace Relic.Model.CtLang

/-- expressions -/
inductive E where
  | num (n : Nat)
  | var (x : String)
  | idx (arr : String) (i : E)
  | neg (w : Nat) (e : E)            -- two's complement negation at width w bits
  | bnot (w : Nat) (e : E)
  | xor (a b : E)
  | and (a b : E)
  | or (a b : E)
  | add (a b : E)
  | sub (a b : E)                    -- truncated subtraction is never needed on public values; used for indices only
  | eq (a b : E)                     -- 1 if equal else 0
  | ne (a b : E)
  | lnot (e : E)                     -- !e
  | sel (c : E) (a b : Nat)          -- c ≠ 0 ? a : b, constant arms
deriving Repr, DecidableEq

/-- statements; `for_ i n body` runs body for i = 0 … n-1 -/
inductive S where
  | assign (x : String) (w : Nat) (e : E)            -- x = e, reduced mod 2^w (w = 0: no reduction)
  | store (arr : String) (i : E) (w : Nat) (e : E)   -- arr[i] = e
  | for_ (i : String) (n : E) (body : List S)
  | ret (e : E)
deriving Repr

structure Prog where
  name : String
  /-- parameters that are public (lengths); everything else (data arrays, the selection bit) is secret -/
  pub : List String
  body : List S
deriving Repr

inductive Ev where
  | loop (n : Nat)
  | rd (arr : String) (i : Nat)
  | wr (arr : String) (i : Nat)
deriving Repr, DecidableEq, BEq

structure St where
  vars : List (String × Nat) := []
  arrs : List (String × List Nat) := []
  trace : List Ev := []
  result : Option Nat := none
deriving Repr

def St.get (s : St) (x : String) : Nat := (s.vars.lookup x).getD 0
def St.set (s : St) (x : String) (v : Nat) : St := { s with vars := (x, v) :: s.vars.filter (·.1 ≠ x) }
def St.arr (s : St) (a : String) : List Nat := (s.arrs.lookup a).getD []
def St.setArr (s : St) (a : String) (l : List Nat) : St := { s with arrs := (a, l) :: s.arrs.filter (·.1 ≠ a) }
def St.log (s : St) (e : Ev) : St := { s with trace := s.trace ++ [e] }

def red (w v : Nat) : Nat := if w = 0 then v else v % 2 ^ w

/-- value of an expression together with the array reads it performs (in evaluation order) -/
def evalE (s : St) : E → Nat × List Ev
  | .num n => (n, [])
  | .var x => (s.get x, [])
  | .idx a i =>
    let (iv, t) := evalE s i
    ((s.arr a).getD iv 0, t ++ [Ev.rd a iv])
  | .neg w e => let (v, t) := evalE s e; ((2 ^ w - v % 2 ^ w) % 2 ^ w, t)
  | .bnot w e => let (v, t) := evalE s e; (2 ^ w - 1 - v % 2 ^ w, t)
  | .xor a b => let (x, t) := evalE s a; let (y, u) := evalE s b; (x ^^^ y, t ++ u)
  | .and a b => let (x, t) := evalE s a; let (y, u) := evalE s b; (x &&& y, t ++ u)
  | .or a b => let (x, t) := evalE s a; let (y, u) := evalE s b; (x ||| y, t ++ u)
  | .add a b => let (x, t) := evalE s a; let (y, u) := evalE s b; (x + y, t ++ u)
  | .sub a b => let (x, t) := evalE s a; let (y, u) := evalE s b; (x - y, t ++ u)
  | .eq a b => let (x, t) := evalE s a; let (y, u) := evalE s b; ((if x = y then 1 else 0), t ++ u)
  | .ne a b => let (x, t) := evalE s a; let (y, u) := evalE s b; ((if x = y then 0 else 1), t ++ u)
  | .lnot e => let (v, t) := evalE s e; ((if v = 0 then 1 else 0), t)
  | .sel c a b => let (v, t) := evalE s c; ((if v = 0 then b else a), t)

mutual
  def evalS (s : St) : S → St
    | .assign x w e =>
      let (v, t) := evalE s e
      ({ s with trace := s.trace ++ t }).set x (red w v)
    | .store a i w e =>
      let (iv, ti) := evalE s i
      let (v, t) := evalE s e
      let s := { s with trace := s.trace ++ ti ++ t ++ [Ev.wr a iv] }
      s.setArr a ((s.arr a).set iv (red w v))
    | .for_ i n body =>
      let (nv, t) := evalE s n
      let s := { s with trace := s.trace ++ t ++ [Ev.loop nv] }
      evalFor i body nv 0 s
    | .ret e =>
      let (v, t) := evalE s e
      { s with trace := s.trace ++ t, result := some v }
  def evalL (s : St) : List S → St
    | [] => s
    | st :: rest => evalL (evalS s st) rest
  /-- iterations k, k+1, …, k+fuel-1 -/
  def evalFor (i : String) (body : List S) : Nat → Nat → St → St
    | 0, _, s => s
    | fuel + 1, k, s => evalFor i body fuel (k + 1) (evalL (s.set i k) body)
end

def run (p : Prog) (s : St) : St := evalL s p.body

/-! ### the syntactic discipline: what may influence a loop bound or an index -/

/-- the expression mentions only public variables / loop counters and reads no array -/
def pubE (pub : List String) : E → Bool
  | .num _ => true
  | .var x => pub.contains x
  | .idx _ _ => false
  | .neg _ e | .bnot _ e | .lnot e => pubE pub e
  | .xor a b | .and a b | .or a b | .add a b | .sub a b | .eq a b | .ne a b => pubE pub a && pubE pub b
  | .sel c _ _ => pubE pub c

/-- every index inside the expression is public -/
def idxPubE (pub : List String) : E → Bool
  | .num _ | .var _ => true
  | .idx _ i => pubE pub i
  | .neg _ e | .bnot _ e | .lnot e => idxPubE pub e
  | .xor a b | .and a b | .or a b | .add a b | .sub a b | .eq a b | .ne a b => idxPubE pub a && idxPubE pub b
  | .sel c _ _ => idxPubE pub c

mutual
  /-- statement discipline under the public set `pub`: loop bounds and indices are public expressions; a public
      variable is never assigned (loop counters are bound by `for_` only) -/
  def ctS (pub : List String) : S → Bool
    | .assign x _ e => !pub.contains x && idxPubE pub e
    | .store _ i _ e => pubE pub i && idxPubE pub e
    | .for_ i n body => pubE pub n && ctL (i :: pub) body
    | .ret e => idxPubE pub e
  def ctL (pub : List String) : List S → Bool
    | [] => true
    | s :: rest => ctS pub s && ctL pub rest
end

def isCT (p : Prog) : Bool := ctL p.pub p.body

/-- two states agree on the public variables -/
def pubEq (pub : List String) (s t : St) : Prop := ∀ x ∈ pub, s.get x = t.get x

end Relic.Model.CtLang
