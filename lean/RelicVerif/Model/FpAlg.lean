/-
Value-level models of the prime-field *algorithms* built on top of the digit-level layer (Model/Fp.lean):
src/fp/relic_fp_exp.c, relic_fp_inv.c, relic_fp_srt.c, relic_fp_smb.c (and src/low/easy/relic_fp_inv_low.c,
relic_fp_smb_low.c).  A field element is its canonical integer in [0,p); `fmul`, `fsqr`, `fneg` are the Z/pZ
operations (fp_mul, fp_sqr, fp_neg — proved at digit level in Lemmas/Fp.lean).  Each definition mirrors the loop
structure, branches, tables and early exits of the C function; where the C code works on the raw (Montgomery)
digits (fp_inv_monty) the Montgomery factor R = 2^m and the Montgomery product are explicit.
`none` = the C function reports an error (or, for the binary inversion on non-coprime inputs, does not return).
No Mathlib: executed by the driver.
-/
import RelicVerif.Model.Rec

namespace Relic.Model.FpAlg
open Relic.Model.Rec

/-- what the algorithms need from the field context -/
structure Ctx where
  p : Nat            -- the modulus
  m : Nat            -- RLC_FP_DIGS * RLC_DIG  (R = 2^m)
  fb : Nat           -- RLC_FP_BITS
  rinv : Nat         -- R⁻¹ mod p
  width : Nat := 4   -- RLC_WIDTH
  f : Nat := 1       -- fp_prime_get_2ad(): p − 1 = 2^f · q, q odd
  z : Nat := 0       -- fp_prime_get_srt(): a primitive 2^f-th root of unity (standard representation)
deriving Repr

def Ctx.R (c : Ctx) : Nat := 2 ^ c.m

def fmul (p x y : Nat) : Nat := x * y % p
def fsqr (p x : Nat) : Nat := x * x % p
def fneg (p x : Nat) : Nat := (p - x) % p

/-- Montgomery product of two raw values: x·y·R⁻¹ mod p (fp_mul on the stored digits) -/
def mont (c : Ctx) (x y : Nat) : Nat := x * y % c.p * c.rinv % c.p

/-- n successive squarings -/
def sqrN (p : Nat) : Nat → Nat → Nat
  | 0, r => r
  | n + 1, r => sqrN p n (fsqr p r)

/-! ## fp_exp_basic / fp_exp_dig: left-to-right square and multiply from the second bit -/

/-- `for (i = l − 2; i ≥ 0; i--) { r = r²; if (bit i) r = r·a }`; the first argument is the number of bits left -/
def expBasicLoop (p a e : Nat) : Nat → Nat → Nat
  | 0, r => r
  | i + 1, r =>
    let r := fsqr p r
    expBasicLoop p a e i (if (e >>> i) % 2 = 1 then fmul p r a else r)

/-- the loop of fp_exp_basic on |b| > 0 (r = a, then the bits below the top one) -/
def expBasicAbs (p a e : Nat) : Nat := expBasicLoop p a e (bitLen e - 1) a

/-- fp_exp_dig -/
def expDig (p a b : Nat) : Nat := if b = 0 then 1 % p else expBasicAbs p a b

/-! ## fp_exp_monty: Montgomery ladder over all bits, conditional swaps as coded -/

def swapIf (b : Bool) (t : Nat × Nat) : Nat × Nat := if b then (t.2, t.1) else t

/-- one iteration: swap on (j ^ 1), t0 = t0·t1, t1 = t1², swap back -/
def ladderStep (p : Nat) (j : Bool) (t : Nat × Nat) : Nat × Nat :=
  let t := swapIf (!j) t
  let t := (fmul p t.1 t.2, fsqr p t.2)
  swapIf (!j) t

def ladderLoop (p e : Nat) : Nat → Nat × Nat → Nat × Nat
  | 0, t => t
  | i + 1, t => ladderLoop p e i (ladderStep p ((e >>> i) % 2 = 1) t)

def expMontyAbs (p a e : Nat) : Nat := (ladderLoop p e (bitLen e) (1 % p, a)).1

/-! ## fp_exp_slide: table of odd powers, sliding windows from bn_rec_slw -/

/-- t[0] = x, t[i] = t[i−1]·r : n entries -/
def tabFrom (p r : Nat) : Nat → Nat → List Nat
  | 0, _ => []
  | n + 1, x => x :: tabFrom p r n (fmul p x r)

/-- the table of fp_exp_slide: t[i] = a^(2i+1), 2^(w−1) entries, built with r = a² -/
def slideTab (p a w : Nat) : List Nat := tabFrom p (fsqr p a) (2 ^ (w - 1)) a

/-- window loop: a zero squares once; a window d squares bitLen d times and multiplies by t[d >> 1] -/
def slideLoop (p : Nat) (tab : List Nat) (win : List Int) : Nat :=
  win.foldl (fun r d => if d = 0 then fsqr p r
    else fmul p (sqrN p (bitLen d.toNat) r) (tab.getD (d.toNat / 2) 0)) (1 % p)

/-- the body of fp_exp_slide on |b| > 0; `none` = bn_rec_slw refuses (more than RLC_FP_BITS + 1 bits) -/
def expSlideAbs (c : Ctx) (a e : Nat) : Option Nat :=
  (recSlw (c.fb + 1) e c.width).map (slideLoop c.p (slideTab c.p a c.width))

/-- fp_exp with a non-negative exponent (FP_EXP = SLIDE in the verified configuration) -/
def fpExpNat (c : Ctx) (a e : Nat) : Option Nat := if e = 0 then some (1 % c.p) else expSlideAbs c a e

/-! ## fp_inv_monty: Kaliski's almost inverse (phase 1) and the correction by powers of two (phase 2) -/

/-- phase 1 on the raw values: `while (v ≠ 0)`; returns (x1, k).  fuel 2m+1 always suffices (Lemmas/FpAlgInv). -/
def kalLoop : Nat → Nat → Nat → Nat → Nat → Nat → Option (Nat × Nat)
  | 0, _, _, _, _, _ => none
  | f + 1, u, v, x1, x2, k =>
    if v = 0 then some (x1, k)
    else if v % 2 = 0 then kalLoop f u (v / 2) (2 * x1) x2 (k + 1)
    else if u % 2 = 0 then kalLoop f (u / 2) v x1 (2 * x2) (k + 1)
    else if v ≥ u then kalLoop f u ((v - u) / 2) (2 * x1) (x2 + x1) (k + 1)
    else kalLoop f ((u - v) / 2) v (x1 + x2) (2 * x2) (k + 1)

/-- `while (x1->used > RLC_FP_DIGS) x1 -= p` -/
def subWhileGe (p R : Nat) : Nat → Nat → Nat
  | 0, x => x
  | f + 1, x => if x ≥ R then subWhileGe p R f (x - p) else x

/-- reduction of x1 after phase 1: the long-operand loop, then one conditional subtraction (`dv_cmp == RLC_GT`) -/
def kalReduce (c : Ctx) (x1 : Nat) : Nat :=
  let x := subWhileGe c.p c.R x1 x1
  if x > c.p then x - c.p else x

/-- phase 2 on raw values: up to two Montgomery products by conv = R² mod p, one by 2^(2m−k) -/
def kalPhase2 (c : Ctx) (x1 k : Nat) : Nat :=
  let conv := c.R * c.R % c.p
  let (x1, k) := if k ≤ c.m then (mont c x1 conv, k + c.m) else (x1, k)
  let x1 := mont c x1 conv
  mont c x1 (2 ^ (2 * c.m - k))

/-- fp_inv_monty; the operand and the result are standard values, the Montgomery forms are explicit -/
def invMonty (c : Ctx) (a : Nat) : Option Nat :=
  if a = 0 then none
  else
    let araw := a * c.R % c.p            -- the stored digits of a
    match kalLoop (2 * c.m + 1) araw c.p 1 0 0 with
    | none => none
    | some (x1, k) =>
      let craw := kalPhase2 c (kalReduce c x1) k
      some (craw * c.rinv % c.p)        -- value of the stored result

/-- fp_inv (FP_INV = MONTY in the verified configuration) -/
def fpInv (c : Ctx) (a : Nat) : Option Nat := invMonty c a

/-- the sign handling shared by the exponentiations: a negative exponent inverts the result with fp_inv -/
def withSign (c : Ctx) (neg : Bool) (r : Option Nat) : Option Nat :=
  match r with
  | none => none
  | some r => if neg then fpInv c r else some r

def fpExpBasic (c : Ctx) (a : Nat) (e : Int) : Option Nat :=
  if e = 0 then some (1 % c.p) else withSign c (e < 0) (some (expBasicAbs c.p a e.natAbs))

def fpExpMonty (c : Ctx) (a : Nat) (e : Int) : Option Nat :=
  if e = 0 then some (1 % c.p) else withSign c (e < 0) (some (expMontyAbs c.p a e.natAbs))

def fpExpSlide (c : Ctx) (a : Nat) (e : Int) : Option Nat :=
  if e = 0 then some (1 % c.p) else withSign c (e < 0) (expSlideAbs c a e.natAbs)

/-! ## fp_inv_basic / fp_inv_lower: Fermat, a^(p−2) through fp_exp -/

def invBasic (c : Ctx) (a : Nat) : Option Nat := if a = 0 then none else fpExpNat c a (c.p - 2)
def invLower (c : Ctx) (a : Nat) : Option Nat := if a = 0 then none else fpExpNat c a (c.p - 2)

/-! ## fp_inv_binar: binary extended Euclid with signed cofactors -/

/-- `while (u even) { u /= 2; g = (g odd ? g + p : g) / 2 }`; `none`: u = 0 (the C loop does not end) -/
def halve (p : Nat) : Nat → Nat → Int → Option (Nat × Int)
  | 0, _, _ => none
  | f + 1, u, g =>
    if u = 0 then none
    else if u % 2 = 0 then halve p f (u / 2) (if g % 2 ≠ 0 then (g + p) / 2 else g / 2)
    else some (u, g)

/-- main loop; returns (exit through u = 1, the cofactor returned).  fuel u + v + 1 suffices. -/
def binLoop (p : Nat) : Nat → Nat → Nat → Int → Int → Option (Bool × Int)
  | 0, _, _, _, _ => none
  | f + 1, u, v, g1, g2 =>
    match halve p (u + 1) u g1 with
    | none => none
    | some (u, g1) =>
      if u = 1 then some (true, g1)
      else match halve p (v + 1) v g2 with
        | none => none
        | some (v, g2) =>
          if v = 1 then some (false, g2)
          else if u > v then binLoop p f (u - v) v (g1 - g2) g2
          else binLoop p f u (v - u) g1 (g2 - g1)

def invBinar (c : Ctx) (a : Nat) : Option Nat :=
  if a = 0 then none
  else match binLoop c.p (a + c.p + 1) a c.p 1 0 with
    | none => none
    | some (_, g) => some (g % (c.p : Int)).toNat     -- add p while negative, subtract while ≥ p, fp_prime_conv

/-! ## fp_inv_exgcd: Euclid with quotients -/

/-- `while (u ≠ 1) { q = v / u; r = v mod u; v = u; u = r; r = g2 − q·g1; g2 = g1; g1 = r }`;
    `none`: division by zero reported by bn_div_rem -/
def exgcdLoop : Nat → Nat → Nat → Int → Int → Option Int
  | 0, _, _, _, _ => none
  | f + 1, u, v, g1, g2 =>
    if u = 1 then some g1
    else if u = 0 then none
    else exgcdLoop f (v % u) u (g2 - (v / u : Nat) * g1) g1

def invExgcd (c : Ctx) (a : Nat) : Option Nat :=
  if a = 0 then none
  else match exgcdLoop (a + 1) a c.p 1 0 with
    | none => none
    | some g =>
      let g := if g < 0 then g + c.p else g
      some (g % (c.p : Int)).toNat                     -- fp_prime_conv reduces modulo p

/-! ## fp_inv_sim: Montgomery's simultaneous inversion -/

/-- c[0] = a[0], c[i] = c[i−1]·a[i] -/
def simProds (p : Nat) : Nat → List Nat → List Nat
  | _, [] => []
  | acc, a :: as => fmul p acc a :: simProds p (fmul p acc a) as

/-- backward pass: `for (i = n−1; i > 0; i--) { c[i] = u·c[i−1]; u = u·t[i] }  c[0] = u`.
    Arguments: c[i−1], c[i−2], … ; a[i], a[i−1], … ; u ; the outputs already produced (indices > i) -/
def simBack (p : Nat) : List Nat → List Nat → Nat → List Nat → List Nat
  | cprev :: cs, ai :: as, u, acc => simBack p cs as (fmul p u ai) (fmul p u cprev :: acc)
  | _, _, u, acc => u :: acc

def invSim (c : Ctx) (as : List Nat) : Option (List Nat) :=
  match as with
  | [] => none
  | a0 :: rest =>
    let cs := a0 :: simProds c.p a0 rest
    match fpInv c (cs.getLastD 0) with
    | none => none
    | some u => some (simBack c.p cs.reverse.tail as.reverse u [])

/-! ## fp_smb_basic / fp_smbm_low: Euler's criterion through fp_exp -/

def smbBasic (c : Ctx) (a : Nat) : Option Int :=
  match fpExpNat c a ((c.p - 1) / 2) with
  | none => none
  | some t =>
    let r : Int := if t = 1 then 1 else 0
    let t := fneg c.p t
    some (if r = 0 then (if t = 1 then -1 else 0) else r)

/-- fp_is_sqr: zero counts as a square, else fp_smb = 1.  (fp_smb is FP_SMB = JMPDS in the verified configuration, which is
    not modelled; the model uses Euler's criterion as coded in fp_smb_basic.) -/
def isSqr (c : Ctx) (a : Nat) : Option Bool :=
  if a = 0 then some true else (smbBasic c a).map (· == 1)

/-! ## fp_srt -/

/-- the constant-time Tonelli–Shanks loop `for (j = f; j > 1; j--)`; first argument j − 1 -/
def tsLoop (p : Nat) : Nat → Nat → Nat → Nat → Nat
  | 0, c, _, _ => c
  | k + 1, c, t1, t3 =>
    let t2 := sqrN p k t1                -- j − 2 squarings
    let t0 := fmul p c t3
    let c := if t2 ≠ 1 % p then t0 else c
    let t3 := fsqr p t3
    let t0 := fmul p t1 t3
    let t1 := if t2 ≠ 1 % p then t0 else t1
    tsLoop p k c t1 t3

/-- fp_srt: (return value, what is left in c) -/
def srt (c : Ctx) (a : Nat) : Option (Bool × Nat) :=
  let p := c.p
  if a = 0 then some (true, 0)
  else if p % 4 = 3 then
    match fpExpNat c a ((p + 1) >>> 2) with
    | none => none
    | some t0 => some (fsqr p t0 == a, t0)
  else
    match isSqr c a, fpExpNat c a ((p >>> c.f) >>> 1) with
    | some r, some t0 =>
      let t1 := fmul p (fsqr p t0) a
      let c0 := fmul p t0 a
      let r0 := tsLoop p (c.f - 1) c0 t1 c.z
      some (r, if r0 % 2 = 1 then fneg p r0 else r0)
    | _, _ => none

end Relic.Model.FpAlg
