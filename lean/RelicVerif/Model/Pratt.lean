/-
Pratt certificates as a flat list of lines, each proving one number prime from numbers proved earlier:
line (n, a, [(q₁,e₁),…]) is accepted when every qᵢ is already known prime, Π qᵢ^eᵢ = n − 1,
a^(n−1) ≡ 1 (mod n) and a^((n−1)/qᵢ) ≢ 1 (mod n) for every i (Lucas). Executable; soundness in Lemmas/Pratt.lean.
-/
import RelicVerif.Spec.Curve

namespace Relic.Model.Pratt
open Relic.Spec.Curve (powMod)

structure Line where
  n : Nat
  a : Nat
  fs : List (Nat × Nat)
deriving Repr

/-- primes below 100: the leaves -/
def smallPrimes : List Nat := [2, 3, 5, 7, 11, 13, 17, 19, 23, 29, 31, 37, 41, 43, 47, 53, 59, 61, 67, 71, 73, 79, 83, 89, 97]

def lineOk (known : List Nat) (l : Line) : Bool :=
  l.n > 2 &&
  l.fs.all (fun qe => known.contains qe.1 && qe.2 > 0) &&
  (l.fs.foldl (fun acc qe => acc * qe.1 ^ qe.2) 1 == l.n - 1) &&
  powMod l.a (l.n - 1) l.n == 1 &&
  l.fs.all (fun qe => powMod l.a ((l.n - 1) / qe.1) l.n != 1)

/-- processes the lines in order; none = some line is not accepted -/
def checkLines : List Nat → List Line → Option (List Nat)
  | known, [] => some known
  | known, l :: ls => if lineOk known l then checkLines (l.n :: known) ls else none

/-- the numbers certified prime by a certificate -/
def certified (ls : List Line) : List Nat := (checkLines smallPrimes ls).getD []

end Relic.Model.Pratt
