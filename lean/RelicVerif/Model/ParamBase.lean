/-
Vocabulary of the generated parameter tables (RelicVerif/Gen/Params.lean) and the executable consistency
predicates of property C18.
-/
import RelicVerif.Spec.Curve

namespace Relic.Model.Param
open Relic.Spec.Curve

inductive FieldKind where
  | literal (p : Nat)                  -- sparse form or hex string, evaluated by the translator
  | family (fam : String) (x : Int)    -- pairing-friendly family (EP_BN, …) with curve parameter x
deriving Repr

structure FieldParam where
  name : String
  id : Nat
  kind : FieldKind
  sps : List Int                       -- the sparse form f[] as written in the source (empty if none)
deriving Repr

/-- twist over Fp2 = Fp[u]/(u² − qnr) that carries the second pairing group (src/epx/relic_ep2_curve.c); `qnr` is the
    non-residue the library derives for the prime and `f2` a certificate: 3·f2² = 4p² − t2² with t2 the trace over Fp2 -/
structure TwistParam where
  a0 : Nat
  a1 : Nat
  b0 : Nat
  b1 : Nat
  x0 : Nat
  x1 : Nat
  y0 : Nat
  y1 : Nat
  r : Nat
  h : Nat
  qnr : Int
  f2 : Nat
deriving Repr

structure CurveParam where
  name : String
  id : Nat
  field : String
  a : Int
  b : Nat
  gx : Nat
  gy : Nat
  r : Nat
  h : Nat
  plain : Bool
  endom : Bool
  pairf : String                       -- "" or the family (EP_BN, …)
  level : Nat := 0                     -- what ep_param_level() returns for this identifier (0 = not listed)
  twist : Option TwistParam := none    -- the table entry of ep2_curve_set_twist, if the curve has one
deriving Repr

/-- Barreto–Naehrig family -/
def bnP (x : Int) : Int := 36 * x ^ 4 + 36 * x ^ 3 + 24 * x ^ 2 + 6 * x + 1
def bnR (x : Int) : Int := 36 * x ^ 4 + 36 * x ^ 3 + 18 * x ^ 2 + 6 * x + 1

/-- Barreto–Lynn–Scott family with embedding degree 12: p = (x − 1)²·(x⁴ − x² + 1)/3 + x, r = x⁴ − x² + 1 -/
def b12R (x : Int) : Int := x ^ 4 - x ^ 2 + 1
def b12P (x : Int) : Int := (x - 1) ^ 2 * b12R x / 3 + x

/-- the field characteristic of a pairing-friendly family at curve parameter x (0 for a family this model does not know) -/
def familyP (fam : String) (x : Int) : Int :=
  if fam == "EP_BN" then bnP x else if fam == "EP_B12" then b12P x else 0

/-- the prime a field parameter denotes -/
def FieldParam.prime (f : FieldParam) : Nat :=
  match f.kind with
  | .literal p => p
  | .family fam x => (familyP fam x).toNat

/-- value of a sparse form: 2^f[n-1] ± 2^|f[i]| … + f[0] -/
def spsVal (sps : List Int) : Int :=
  match sps.reverse with
  | [] => 0
  | top :: rest =>
    let mid := rest.reverse.drop 1
    (2 : Int) ^ top.toNat + mid.foldl (fun acc v => if v > 0 then acc + 2 ^ v.toNat else acc - 2 ^ (-v).toNat) 0 + sps.headD 0

def lookupField (fs : List FieldParam) (n : String) : Option FieldParam := fs.find? (·.name == n)

def curveOf (p : Nat) (c : CurveParam) : Curve := { p := p, a := (c.a % (p : Int)).toNat, b := c.b % p }

/-! affine arithmetic with the Fermat inverse: natural-number operations only, so that the kernel evaluates it
    with its accelerated `Nat` arithmetic -/
def kInv (p x : Nat) : Nat := powMod x (p - 2) p
def kSub (p x y : Nat) : Nat := (x + p - y % p) % p

def kAdd (cv : Curve) : Point → Point → Point
  | none, q => q
  | p, none => p
  | some (x1, y1), some (x2, y2) =>
    let p := cv.p
    if x1 = x2 then
      if (y1 + y2) % p = 0 then none
      else
        let l := (3 * x1 % p * x1 + cv.a) % p * kInv p (2 * y1 % p) % p
        let x3 := kSub p (kSub p (l * l % p) x1) x2
        some (x3, kSub p (l * kSub p x1 x3 % p) y1)
    else
      let l := kSub p y2 y1 * kInv p (kSub p x2 x1) % p
      let x3 := kSub p (kSub p (l * l % p) x1) x2
      some (x3, kSub p (l * kSub p x1 x3 % p) y1)

def kMul (cv : Curve) (g : Point) (k : Nat) : Point :=
  let rec go (fuel : Nat) (k : Nat) (base acc : Point) : Point :=
    match fuel with
    | 0 => acc
    | f + 1 => if k = 0 then acc else go f (k / 2) (kAdd cv base base) (if k % 2 = 1 then kAdd cv acc base else acc)
  go (Nat.log2 k + 2) k g none

/-! Jacobian-coordinate scalar multiplication (dbl-2007-bl / madd-2007-bl of the Explicit-Formulas Database, written
    here independently of the library), natural-number operations only: one field inversion is avoided per group
    operation, which makes kernel evaluation of `r • G = O` take about a second per curve instead of ~17 s.
    The affine evaluation (`kMul`, and `Spec.Curve.mul` in the compiled driver) is the reference; the two are
    compared by the driver on every run (C18 correspondence stream). -/
structure JPt where
  x : Nat
  y : Nat
  z : Nat

def jDbl (cv : Curve) (P : JPt) : JPt :=
  let p := cv.p
  if P.z % p = 0 ∨ P.y % p = 0 then ⟨1, 1, 0⟩ else
  let xx := P.x * P.x % p
  let yy := P.y * P.y % p
  let yyyy := yy * yy % p
  let zz := P.z * P.z % p
  let s := 2 * kSub p (kSub p ((P.x + yy) * (P.x + yy) % p) xx) yyyy % p
  let m := (3 * xx + cv.a * (zz * zz % p)) % p
  let t := kSub p (m * m % p) (2 * s % p)
  let y3 := kSub p (m * kSub p s t % p) (8 * yyyy % p)
  let z3 := kSub p (kSub p ((P.y + P.z) * (P.y + P.z) % p) yy) zz
  ⟨t, y3, z3⟩

/-- mixed addition P + (x2, y2) with the affine point finite -/
def jAddMixed (cv : Curve) (P : JPt) (x2 y2 : Nat) : JPt :=
  let p := cv.p
  if P.z % p = 0 then ⟨x2 % p, y2 % p, 1⟩ else
  let z1z1 := P.z * P.z % p
  let u2 := x2 * z1z1 % p
  let s2 := y2 * P.z % p * z1z1 % p
  let h := kSub p u2 P.x
  let rr := kSub p s2 P.y
  if h = 0 then (if rr = 0 then jDbl cv P else ⟨1, 1, 0⟩) else
  let hh := h * h % p
  let i := 4 * hh % p
  let j := h * i % p
  let r2 := 2 * rr % p
  let v := P.x * i % p
  let x3 := kSub p (kSub p (r2 * r2 % p) j) (2 * v % p)
  let y3 := kSub p (r2 * kSub p v x3 % p) (2 * (P.y * j % p) % p)
  let z3 := kSub p (kSub p ((P.z + h) * (P.z + h) % p) z1z1) hh
  ⟨x3, y3, z3⟩

/-- left-to-right double-and-add of the affine point (gx, gy); returns the Z coordinate's vanishing -/
def jMulIsInfty (cv : Curve) (gx gy k : Nat) : Bool :=
  let bits := (List.range (Nat.log2 k + 1)).reverse
  let r := bits.foldl (fun (acc : JPt) i =>
    let d := jDbl cv acc
    if (k >>> i) % 2 = 1 then jAddMixed cv d gx gy else d) ⟨1, 1, 0⟩
  r.z % cv.p == 0

/-- r ∣ p^k − 1 and r ∤ p^j − 1 for 0 < j < k -/
def embedDeg (p r k : Nat) : Bool :=
  powMod p k r == 1 % r && (List.range k).all fun j => j == 0 || powMod p j r != 1 % r

/-- decidable consistency of one curve parameter set over its field prime p -/
def curveOk (p : Nat) (c : CurveParam) : Bool :=
  let cv := curveOf p c
  let g : Point := some (c.gx, c.gy)
  c.gx < p && c.gy < p && onCurve cv g &&                         -- generator on the curve, canonical coordinates
  jMulIsInfty cv c.gx c.gy c.r &&                                     -- the stated order annihilates the generator
  (c.r > 1) &&
  -- order × cofactor lies in the Hasse interval: (h r − p − 1)² ≤ 4p
  (let hr := c.h * c.r; let t := if hr ≥ p + 1 then hr - (p + 1) else p + 1 - hr; t * t ≤ 4 * p) &&
  -- 4√p < r: the multiple of r in the Hasse interval is unique, so h·r is the only order consistent with r ∣ #E
  (c.r * c.r > 16 * p) &&
  -- discriminant non-zero: 4a³ + 27b² ≠ 0
  ((4 * cv.a * cv.a % p * cv.a + 27 * cv.b * cv.b) % p != 0)

/-- decidable consistency of a field parameter: sparse form evaluates to the prime; the family polynomial gives it -/
def fieldOk (f : FieldParam) : Bool :=
  (f.sps.isEmpty || spsVal f.sps == (f.prime : Int)) &&
  (match f.kind with
   | .literal p => p % 2 == 1 && p > 3
   | .family fam x => (fam == "EP_BN" || (fam == "EP_B12" && (x - 1) ^ 2 * b12R x % 3 == 0)) && familyP fam x > 3)

/-- pairing-friendly curve of a known family: the declared family is the field's, the order is the family's r(x), the cofactor is the
    family's (1 for BN, (x − 1)²/3 for BLS12), the embedding degree is 12 -/
def bnOk (f : FieldParam) (c : CurveParam) : Bool :=
  match f.kind with
  | .family fam x =>
    c.pairf == fam &&
    (if fam == "EP_BN" then (bnR x).toNat == c.r && c.h == 1
     else if fam == "EP_B12" then (b12R x).toNat == c.r && (c.h : Int) * 3 == (x - 1) ^ 2
     else false) && embedDeg f.prime c.r 12
  | .literal _ => false

/-- smallest k ≤ bound with p^k ≡ 1 (mod r), if any: the embedding degree when it is small -/
def embedSmall (p r bound : Nat) : Option Nat :=
  (List.range (bound + 1)).find? fun k => k > 0 && powMod p k r == 1 % r

/-- embedding degree of each pairing-friendly family the library knows -/
def familyDegree (fam : String) : Nat :=
  if fam == "EP_BN" || fam == "EP_B12" then 12
  else if fam == "EP_B24" then 24 else if fam == "EP_B48" then 48 else if fam == "EP_K16" || fam == "EP_N16" || fam == "EP_FM16" then 16
  else if fam == "EP_K18" || fam == "EP_SG18" || fam == "EP_FM18" then 18 else if fam == "EP_OT8" || fam == "EP_GMT8" then 8
  else if fam == "EP_SG54" then 54 else if fam == "EP_SS1" then 1 else if fam == "EP_SS2" then 2 else 0

/-- the advertised family / embedding degree matches the parameters, in both directions: a curve whose order has a small
    embedding degree IS pairing-friendly and must be declared so (with the right degree); any other must not be -/
def embedConsistent (p : Nat) (c : CurveParam) : Bool :=
  match embedSmall p c.r 60 with
  | none => c.pairf == ""
  | some k => c.pairf != "" && familyDegree c.pairf == k

def bitLen (n : Nat) : Nat := if n = 0 then 0 else Nat.log2 n + 1

/-- the advertised security level matches the parameters: generic-group bound 2·level ≤ bits(r) + 4 (the conventional level of a field size:
    Curve25519 with its 253-bit order and cofactor 8 is advertised, as everywhere, at 128 bits); for curves without a
    small embedding degree it is the generic-group level (within the rounding the library uses); parameter sets of the same
    family with the same field and order sizes advertise the same level -/
def levelConsistent (all : List (Nat × CurveParam)) (p : Nat) (c : CurveParam) : Bool :=
  c.level > 0 && 2 * c.level ≤ bitLen c.r + 4 &&
  (c.pairf != "" || bitLen c.r ≤ 2 * c.level + 16) &&
  all.all fun (p', c') =>
    !(c'.pairf == c.pairf && bitLen p' == bitLen p && bitLen c'.r == bitLen c.r) || c'.level == c.level

/-- Fp2 = Fp[u]/(u² − q) on pairs -/
def f2mul (p q : Nat) (a b : Nat × Nat) : Nat × Nat :=
  ((a.1 * b.1 + q * (a.2 * b.2 % p)) % p, (a.1 * b.2 + a.2 * b.1) % p)
def f2add (p : Nat) (a b : Nat × Nat) : Nat × Nat := ((a.1 + b.1) % p, (a.2 + b.2) % p)

/-- the twist table entry is consistent with the base curve: the extension is a field, the generator satisfies the twist
    equation with canonical coordinates, the order is the order of the base group, and h·r is one of the six orders a twist
    of E over Fp2 can have (t = trace of E over Fp, t2 = t² − 2p, 3 f2² = 4p² − t2²; orders p² + 1 − t′ with
    t′ ∈ {±t2, ±(t2 + 3 f2)/2, ±(t2 − 3 f2)/2}) -/
def twistOk (p : Nat) (c : CurveParam) (t : TwistParam) : Bool :=
  let q := (t.qnr % (p : Int)).toNat
  let x := (t.x0, t.x1)
  let y := (t.y0, t.y1)
  let lhs := f2mul p q y y
  let rhs := f2add p (f2add p (f2mul p q (f2mul p q x x) x) (f2mul p q (t.a0, t.a1) x)) (t.b0 % p, t.b1 % p)
  let tr : Int := (p : Int) + 1 - (c.h * c.r : Nat)
  let t2 : Int := tr * tr - 2 * p
  let f2 : Int := t.f2
  let N : Int := (t.h * t.r : Nat)
  let tp : Int := (p : Int) * p + 1 - N
  powMod q ((p - 1) / 2) p == p - 1 &&
  t.x0 < p && t.x1 < p && t.y0 < p && t.y1 < p && lhs == rhs &&
  t.r == c.r &&
  3 * f2 * f2 == 4 * (p : Int) * p - t2 * t2 &&
  (tp == t2 || tp == -t2 || 2 * tp == t2 + 3 * f2 || 2 * tp == -(t2 + 3 * f2) || 2 * tp == t2 - 3 * f2 || 2 * tp == -(t2 - 3 * f2))

/-! ### twisted Edwards parameter sets (src/ed/relic_ed_param.c) -/

structure EdParam where
  name : String
  id : Nat
  field : String
  a : Nat
  d : Nat
  gx : Nat
  gy : Nat
  r : Nat
  h : Nat
deriving Repr

/-- projective point (X : Y : Z) of a·x² + y² = 1 + d·x²·y² -/
structure EPt where
  x : Nat
  y : Nat
  z : Nat

/-- unified projective addition (Bernstein–Birkner–Joye–Lange–Peters 2008), no inversion; complete for a a square and d a non-square -/
def eAdd (p a d : Nat) (P Q : EPt) : EPt :=
  let A := P.z * Q.z % p
  let B := A * A % p
  let C := P.x * Q.x % p
  let D := P.y * Q.y % p
  let E := d * C % p * D % p
  let F := kSub p B E
  let G := (B + E) % p
  let X3 := A * F % p * kSub p (kSub p ((P.x + P.y) % p * ((Q.x + Q.y) % p) % p) C) D % p
  let Y3 := A * G % p * kSub p D (a * C % p) % p
  ⟨X3, Y3, F * G % p⟩

/-- [k](gx, gy) is the neutral element (0 : 1 : 1), by double-and-add from the top bit -/
def eMulIsNeutral (p a d gx gy k : Nat) : Bool :=
  let g : EPt := ⟨gx, gy, 1⟩
  let bits := Nat.log2 k + 1
  let r := (List.range bits).foldl (fun (acc : EPt) i =>
    let dd := eAdd p a d acc acc
    if (k >>> (bits - 1 - i)) % 2 = 1 then eAdd p a d dd g else dd) ⟨0, 1, 1⟩
  r.x % p == 0 && r.y % p == r.z % p && r.z % p != 0

/-- decidable consistency of a twisted Edwards parameter set over its field prime p: canonical constants, the addition law is complete
    (a a non-zero square, d a non-square, Euler's criterion), the generator is on the curve and is not the neutral element, the stated order
    annihilates it, h·r lies in the Hasse interval and is the only multiple of r there, the cofactor is a multiple of 4 (every twisted
    Edwards curve with square a has a point of order 4) -/
def edOk (p : Nat) (c : EdParam) : Bool :=
  c.a < p && c.d < p && c.gx < p && c.gy < p && c.a != c.d && c.d != 0 &&
  powMod c.a ((p - 1) / 2) p == 1 && powMod c.d ((p - 1) / 2) p == p - 1 &&
  (c.a * (c.gx * c.gx % p) + c.gy * c.gy) % p == (1 + c.d * (c.gx * c.gx % p) % p * (c.gy * c.gy % p)) % p &&
  !(c.gx == 0 && c.gy == 1) &&
  eMulIsNeutral p c.a c.d c.gx c.gy c.r && c.r > 1 &&
  (let hr := c.h * c.r; let t := if hr ≥ p + 1 then hr - (p + 1) else p + 1 - hr; t * t ≤ 4 * p) &&
  (c.r * c.r > 16 * p) && c.h % 4 == 0

end Relic.Model.Param
