/-
Hand-written executable models of the digit-vector functions of
  src/low/easy/relic_bn_add_low.c, relic_bn_mul_low.c, relic_bn_sqr_low.c, relic_bn_shift_low.c,
  relic_bn_div_low.c
Digit vectors are little-endian `List Nat`; `B = 2^w` is the digit base. Every C operation on `dig_t`
is followed by the `% B` the hardware performs. A function that writes through `c` returns the new
digits (and the returned carry). No Mathlib imports: this file is linked into the driver.
-/
namespace Relic.Model

/-- value of a little-endian digit list in base `B` -/
def val (B : Nat) : List Nat → Nat
  | [] => 0
  | d :: ds => d + B * val B ds

def b2n (b : Bool) : Nat := if b then 1 else 0

/-- relic_bn_add_low.c:bn_addn_low (carry-in is 0 in C; kept as a parameter for the induction) -/
def addnLow (B : Nat) : List Nat → List Nat → Nat → List Nat × Nat
  | a :: as, b :: bs, carry =>
    let r0 := (a + b) % B
    let c0 := if r0 < a then 1 else 0
    let r1 := (r0 + carry) % B
    let c1 := if r1 < r0 then 1 else 0
    let carry' := c0 ||| c1
    let (cs, cout) := addnLow B as bs carry'
    (r1 :: cs, cout)
  | _, _, carry => ([], carry)

/-- bn_add1_low: first loop runs while carry ≠ 0, the second copies -/
def add1Low (B : Nat) : List Nat → Nat → List Nat × Nat
  | [], carry => ([], carry)
  | a :: as, carry =>
    if carry = 0 then (a :: as, 0)
    else
      let r0 := (a + carry) % B
      let c' := if r0 < carry then 1 else 0
      let (cs, cout) := add1Low B as c'
      (r0 :: cs, cout)

/-- bn_subn_low -/
def subnLow (B : Nat) : List Nat → List Nat → Nat → List Nat × Nat
  | a :: as, b :: bs, carry =>
    let diff := (a + B - b) % B
    let r0 := (diff + B - carry) % B
    let carry' := if a < b ∨ (carry ≠ 0 ∧ diff = 0) then 1 else 0
    let (cs, cout) := subnLow B as bs carry'
    (r0 :: cs, cout)
  | _, _, carry => ([], carry)

/-- bn_sub1_low -/
def sub1Low (B : Nat) : List Nat → Nat → List Nat × Nat
  | [], carry => ([], carry)
  | a :: as, carry =>
    if carry = 0 then (a :: as, 0)
    else
      let r0 := (a + B - carry % B) % B
      let c' := if r0 > a then 1 else 0
      let (cs, cout) := sub1Low B as c'
      (r0 :: cs, cout)

/-- bn_mul1_low -/
def mul1Low (B : Nat) : List Nat → Nat → Nat → List Nat × Nat
  | [], _, carry => ([], carry)
  | a :: as, digit, carry =>
    let r1 := (a * digit) / B
    let r0 := (a * digit) % B
    let c := (r0 + carry) % B
    let carry' := (r1 + (if c < carry then 1 else 0)) % B
    let (cs, cout) := mul1Low B as digit carry'
    (c :: cs, cout)

/-- bn_mula_low: c[i] += a[i]*digit with carry; returns the updated c and the final carry -/
def mulaLow (B : Nat) : List Nat → List Nat → Nat → Nat → List Nat × Nat
  | c :: cs, a :: as, digit, carry =>
    let r1 := (a * digit) / B
    let r0 := (a * digit) % B
    let _c := (r0 + carry) % B
    let carry1 := (r1 + (if _c < carry then 1 else 0)) % B
    let c' := (c + _c) % B
    let carry2 := (carry1 + (if c' < _c then 1 else 0)) % B
    let (rs, cout) := mulaLow B cs as digit carry2
    (c' :: rs, cout)
  | _, _, _, carry => ([], carry)

/-- RLC_COMBA_STEP_MUL on the triple register (r2, r1, r0) -/
def combaStepMul (B : Nat) (r : Nat × Nat × Nat) (x y : Nat) : Nat × Nat × Nat :=
  let (r2, r1, r0) := r
  let p1 := (x * y) / B
  let p0 := (x * y) % B
  let t := r1
  let r0 := (r0 + p0) % B
  let r1 := (r1 + (if r0 < p0 then 1 else 0)) % B
  let r2 := (r2 + (if r1 < t then 1 else 0)) % B
  let r1 := (r1 + p1) % B
  let r2 := (r2 + (if r1 < p1 then 1 else 0)) % B
  (r2, r1, r0)

/-- RLC_COMBA_STEP_SQR -/
def combaStepSqr (B : Nat) (r : Nat × Nat × Nat) (x y : Nat) : Nat × Nat × Nat :=
  let (r2, r1, r0) := r
  let p1 := (x * y) / B
  let p0 := (x * y) % B
  let s0 := (p0 + p0) % B
  let s1 := (p1 + p1 + (if s0 < p0 then 1 else 0)) % B
  let t := r1
  let r0 := (r0 + s0) % B
  let r1 := (r1 + (if r0 < s0 then 1 else 0)) % B
  let r2 := (r2 + (if r1 < t then 1 else 0)) % B
  let r1 := (r1 + s1) % B
  let r2 := (r2 + (if r1 < s1 then 1 else 0)) % B
  let r2 := (r2 + (if s1 < p1 then 1 else 0)) % B
  (r2, r1, r0)

/-- one Comba column: the inner `for j` loop over the index pairs, then emit r0 and shift the register -/
def combaColumn (B : Nat) (a b : List Nat) (pairs : List (Nat × Nat)) (r : Nat × Nat × Nat) :
    Nat × (Nat × Nat × Nat) :=
  let r' := pairs.foldl (fun acc ij => combaStepMul B acc (a.getD ij.1 0) (b.getD ij.2 0)) r
  (r'.2.2, (0, r'.1, r'.2.1))

/-- bn_muln_low: product scanning, 2*size output digits -/
def mulnLow (B : Nat) (a b : List Nat) (size : Nat) : List Nat :=
  let cols1 := (List.range size).map fun i => (List.range (i + 1)).map fun j => (j, i - j)
  let cols2 := (List.range size).map fun i =>
    (List.range (size - (i + 1))).map fun j => (i + 1 + j, size - 1 - j)
  let step := fun (st : List Nat × (Nat × Nat × Nat)) (pairs : List (Nat × Nat)) =>
    let (d, r') := combaColumn B a b pairs st.2
    (d :: st.1, r')
  ((cols1 ++ cols2).foldl step ([], (0, 0, 0))).1.reverse

/-- bn_muld_low with l = 0 and h = sa + sb (the only way bn_mul_comba calls it); requires sa ≥ sb -/
def muldLow (B : Nat) (a : List Nat) (sa : Nat) (b : List Nat) (sb : Nat) : List Nat :=
  let cols1 := (List.range sb).map fun i => (List.range (i + 1)).map fun j => (j, i - j)
  -- for (i = sb; i < sa; i++): ta = i - sb + 1, pairs (ta + j, sb - 1 - j), j < sb
  let cols2 := (List.range (sa - sb)).map fun k =>
    (List.range sb).map fun j => (k + 1 + j, sb - 1 - j)
  -- for (i = sa; i < h; i++): ta continues, j < sa - ta
  let cols3 := (List.range sb).map fun k =>
    let ta := (sa - sb) + k + 1
    (List.range (sa - ta)).map fun j => (ta + j, sb - 1 - j)
  let step := fun (st : List Nat × (Nat × Nat × Nat)) (pairs : List (Nat × Nat)) =>
    let (d, r') := combaColumn B a b pairs st.2
    (d :: st.1, r')
  ((cols1 ++ cols2 ++ cols3).foldl step ([], (0, 0, 0))).1.reverse

/-- one squaring column: symmetric pairs are doubled, the middle term (if any) is a plain product -/
def sqrColumn (B : Nat) (a : List Nat) (pairs : List (Nat × Nat)) (mid : Option Nat)
    (r : Nat × Nat × Nat) : Nat × (Nat × Nat × Nat) :=
  let r1 := pairs.foldl (fun acc ij => combaStepSqr B acc (a.getD ij.1 0) (a.getD ij.2 0)) r
  let r2 := match mid with
    | some m => combaStepMul B r1 (a.getD m 0) (a.getD m 0)
    | none => r1
  (r2.2.2, (0, r2.1, r2.2.1))

/-- bn_sqrn_low -/
def sqrnLow (B : Nat) (a : List Nat) (size : Nat) : List Nat :=
  let cols1 := (List.range size).map fun i =>
    ((List.range ((i + 1) / 2)).map fun j => (j, i - j),
     if i % 2 = 0 then some ((i + 1) / 2) else none)
  let cols2 := (List.range size).map fun i =>
    let cnt := (size - 1 - i) / 2
    ((List.range cnt).map fun j => (i + 1 + j, size - 1 - j),
     if (size - i) % 2 = 0 then some (i + 1 + cnt) else none)
  let step := fun (st : List Nat × (Nat × Nat × Nat)) (col : List (Nat × Nat) × Option Nat) =>
    let (d, r') := sqrColumn B a col.1 col.2 st.2
    (d :: st.1, r')
  ((cols1 ++ cols2).foldl step ([], (0, 0, 0))).1.reverse

/-- bn_sqra_low (the dbl_t variant): c[0..size] += a[0] * (a[0], 2a[1], …, 2a[size-1]) with a delayed carry;
    returns the updated c (size + 1 digits) and the carry out -/
def sqraLow (B : Nat) (c a : List Nat) (size : Nat) : List Nat × Nat :=
  let B2 := B * B
  let a0 := a.getD 0 0
  let r := (c.getD 0 0 + a0 * a0) % B2
  let c' := c.set 0 (r % B)
  let st := (List.range (size - 1)).foldl (fun (st : List Nat × Nat × Nat) k =>
    let (cs, c0, c1) := st
    let i := k + 1
    let r := (a0 * a.getD i 0) % B2
    let r0 := (r + r) % B2
    let r1 := (r0 + cs.getD i 0 + c0) % B2
    let c0' := (r1 / B + c1) % B
    let c1' := if r0 < r ∨ r1 < r0 ∨ c0' < c1 then 1 else 0
    (cs.set i (r1 % B), c0', c1')) (c', r / B, 0)
  let (cs, c0, c1) := st
  let top := (cs.getD size 0 + c0) % B
  (cs.set size top, c1 + (if top < c0 then 1 else 0))

/-- bn_lsh1_low -/
def lsh1Low (w : Nat) : List Nat → Nat → List Nat × Nat
  | [], carry => ([], carry)
  | a :: as, carry =>
    let r := a >>> (w - 1)
    let c := ((a <<< 1) % 2 ^ w) ||| carry
    let (cs, cout) := lsh1Low w as r
    (c :: cs, cout)

/-- RLC_MASK(bits) for 0 ≤ bits ≤ w -/
def mask (w bits : Nat) : Nat := if bits ≥ w then 2 ^ w - 1 else 2 ^ (bits % w) - 1

/-- bn_lshb_low, 0 < bits < w (for bits = 0 the C shifts by w: undefined; callers guard) -/
def lshbLow (w bits : Nat) : List Nat → Nat → List Nat × Nat
  | [], carry => ([], carry)
  | a :: as, carry =>
    let shift := w - bits
    let r := (a >>> shift) &&& mask w bits
    let c := ((a <<< bits) % 2 ^ w) ||| carry
    let (cs, cout) := lshbLow w bits as r
    (c :: cs, cout)

/-- bn_rsh1_low: processes from the top digit down; input given most-significant first -/
def rsh1LowRev (w : Nat) : List Nat → Nat → List Nat × Nat
  | [], carry => ([], carry)
  | a :: as, carry =>
    let r := a &&& 1
    let c := (a >>> 1) ||| ((carry <<< (w - 1)) % 2 ^ w)
    let (cs, cout) := rsh1LowRev w as r
    (c :: cs, cout)

def rsh1Low (w : Nat) (a : List Nat) : List Nat × Nat :=
  let (cs, c) := rsh1LowRev w a.reverse 0
  (cs.reverse, c)

/-- bn_rshb_low -/
def rshbLowRev (w bits : Nat) : List Nat → Nat → List Nat × Nat
  | [], carry => ([], carry)
  | a :: as, carry =>
    let shift := (w - bits) % w
    let r := a &&& mask w bits
    let c := (a >>> bits) ||| ((carry <<< shift) % 2 ^ w)
    let (cs, cout) := rshbLowRev w bits as r
    (c :: cs, cout)

def rshbLow (w bits : Nat) (a : List Nat) : List Nat × Nat :=
  let (cs, c) := rshbLowRev w bits a.reverse 0
  (cs.reverse, c)

/-- bn_div1_low: schoolbook division by one digit, from the top; input most-significant first.
    RLC_DIV_DIG(q, r, w, a, b): (w*B + a) / b, % b -/
def div1LowRev (B : Nat) (b : Nat) : List Nat → Nat → List Nat × Nat
  | [], wd => ([], wd)
  | a :: as, wd =>
    let n := wd * B + a
    let q := (n / b) % B
    let r := n % b
    let (qs, rout) := div1LowRev B b as r
    (q :: qs, rout)

def div1Low (B : Nat) (a : List Nat) (b : Nat) : List Nat × Nat :=
  let (qs, r) := div1LowRev B b a.reverse 0
  (qs.reverse, r)

/-- dv_cmp: compare from the most significant digit; result as RELIC's RLC_LT/EQ/GT = -1/0/1 -/
def dvCmpRev : List Nat → List Nat → Int
  | a :: as, b :: bs => if a > b then 1 else if a < b then -1 else dvCmpRev as bs
  | _, _ => 0

def dvCmp (a b : List Nat) : Int := dvCmpRev a.reverse b.reverse

/-- number of bits of a digit (util_bits_dig = w - lzcnt) -/
def bitsDig (d : Nat) : Nat := if d = 0 then 0 else Nat.log2 d + 1

/-- replace the segment [k, k + seg.length) of `a` by `seg` -/
def splice (a : List Nat) (k : Nat) (seg : List Nat) : List Nat :=
  a.take k ++ seg ++ a.drop (k + seg.length)

def setAt (a : List Nat) (k : Nat) (v : Nat) : List Nat := a.set k v

/-- the quotient-estimate correction loop of bn_divn_low:
    do { q--; t1 = (b[t-1], b[t]) * q; } while (t1 > (a[i-2], a[i-1], a[i])), entered after q++ -/
def qhatLoop (B : Nat) (bt1 bt a2 a1 a0 : Nat) : Nat → Nat → Nat
  | 0, q => q
  | fuel + 1, q =>
    let q' := (q + B - 1) % B
    let (t1, c) := mul1Low B [bt1, bt] q' 0
    let t1 := t1 ++ [c]
    if dvCmp t1 [a2, a1, a0] = 1 then qhatLoop B bt1 bt a2 a1 a0 fuel q' else q'

/-- the initial `while (dv_cmp(a, b, sa) != RLC_LT) { c[n - t]++; a -= b; }` loop -/
def divTopLoop (B : Nat) (bs : List Nat) : Nat → List Nat → Nat → List Nat × Nat
  | 0, a, cnt => (a, cnt)
  | fuel + 1, a, cnt =>
    if dvCmp a bs ≠ -1 then divTopLoop B bs fuel (subnLow B a bs 0).1 ((cnt + 1) % B)
    else (a, cnt)

structure DivTrace where
  addback : Nat := 0
  qhatFix : Nat := 0
  topLoop : Nat := 0
  qmax : Nat := 0
deriving Repr

/-- relic_bn_div_low.c:bn_divn_low. `a` has sa digits, `b` has sb digits with b[sb-1] ≠ 0, sa ≥ sb.
    Returns quotient digits (sa - sb + 2 of them, the C array `c` over the indices it may write),
    the remainder (sb digits, denormalised) and a branch trace for the correspondence histogram. -/
def divnLow (w : Nat) (a0 b0 : List Nat) : List Nat × List Nat × DivTrace :=
  let B := 2 ^ w
  let sa0 := a0.length
  let sb0 := b0.length
  let nb := bitsDig (b0.getD (sb0 - 1) 0) % w
  let norm := if nb < w - 1 then (w - 1) - nb else 0
  -- normalisation shifts (lshb is only called with norm > 0 in C; for norm = 0 nothing happens)
  let (a, b) :=
    if nb < w - 1 then
      let (as, ca) := lshbLow w norm a0 0
      let a := if ca ≠ 0 then as ++ [ca] else as
      let (bs, cb) := lshbLow w norm b0 0
      let b := if cb ≠ 0 then bs ++ [cb] else bs
      (a, b)
    else (a0, b0)
  let sa := a.length
  let sb := b.length
  let n := sa - 1
  let t := sb - 1
  let q0 : List Nat := List.replicate (sa0 - sb0 + 3) 0
  -- dv_lshd(b, b, sb + (n - t), n - t): b * B^(n-t), sa digits
  let bsh := List.replicate (n - t) 0 ++ b
  let (a, cnt) := divTopLoop B bsh B a 0
  let q0 := setAt q0 (n - t) cnt
  let bt := b.getD t 0
  let bt1 := if t = 0 then 0 else b.getD (t - 1) 0
  let step := fun (st : List Nat × List Nat × DivTrace) (i : Nat) =>
    let (a, q, tr) := st
    let k := i - t - 1
    let ai := a.getD i 0
    let ai1 := a.getD (i - 1) 0
    let ai2 := if i < 2 then 0 else a.getD (i - 2) 0
    let qe := if ai = bt then B - 1 else ((ai * B + ai1) / bt) % B
    let qh := qhatLoop B bt1 bt ai2 ai1 ai B ((qe + 1) % B)
    let (d, cm) := mul1Low B b qh 0
    let d := if cm ≠ 0 then d ++ [cm] else d
    let sd := d.length
    let (seg, c1) := subnLow B ((a.drop k).take sd) d 0
    let a := splice a k seg
    let sd' := sd + k
    let (a, c2) :=
      if sa > sd' then
        let (seg2, c2) := sub1Low B (a.drop sd') c1
        (splice a sd' seg2, c2)
      else (a, c1)
    let tr := { tr with qhatFix := tr.qhatFix + (if qh = qe then 0 else 1),
                        qmax := tr.qmax + (if ai = bt then 1 else 0) }
    if c2 ≠ 0 then
      let sd2 := sb + k
      let (seg3, c3) := addnLow B ((a.drop k).take sb) b 0
      let a := splice a k seg3
      let (seg4, _) := add1Low B (a.drop sd2) c3
      let a := splice a sd2 seg4
      (a, setAt q k ((qh + B - 1) % B), { tr with addback := tr.addback + 1 })
    else (a, setAt q k qh, tr)
  let idxs := (List.range (n - t)).reverse.map (fun j => j + t + 1)
  let (a, q, tr) := idxs.foldl step (a, q0, { topLoop := cnt })
  -- bn_rshb_low(d, a, sb, norm) with the *updated* sb; the caller keeps the low sb0 digits
  let r := if norm = 0 then a.take sb else (rshbLow w norm (a.take sb)).1
  (q, r, tr)

end Relic.Model
