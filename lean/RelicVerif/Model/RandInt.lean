/-
Integer sampling on top of the byte generator (src/bn/relic_bn_util.c, src/fp/relic_fp_util.c): bn_rand fills `digits` digits from the
stream (host byte order) and masks the top digit; bn_rand_mod draws bits(b) + 40 bits, reduces modulo b and draws again while the residue
is zero; fp_rand fills RLC_FP_DIGS digits, masks the top digit to RLC_FP_BITS and subtracts the prime while the value is not below it.
The byte source is a parameter (the DRBG model of Model/Drbg.lean in the driver).
-/
namespace Relic.Model.RandInt

/-- value of little-endian digits -/
def valDigits (w : Nat) : List Nat → Nat
  | [] => 0
  | d :: ds => d + 2 ^ w * valDigits w ds

/-- digit `i` of a byte buffer read as an array of `bpd`-byte digits (little-endian bytes inside a digit: the cast
    `(uint8_t *)a->dp` on the little-endian host) -/
def digitOf (bytes : List UInt8) (bpd i : Nat) : Nat :=
  (List.range bpd).foldl (fun acc j => acc + (bytes.getD (i * bpd + j) 0).toNat * 256 ^ j) 0

/-- the first `n` digits of the buffer -/
def digitsOf (bytes : List UInt8) (w n : Nat) : List Nat := (List.range n).map (digitOf bytes (w / 8))

/-- `if (bits > 0) dp[used - 1] &= ((dig_t)1 << bits) - 1` -/
def maskTop (dp : List Nat) (bits : Nat) : List Nat :=
  if bits > 0 ∧ dp.length > 0 then dp.set (dp.length - 1) (dp.getD (dp.length - 1) 0 % 2 ^ bits) else dp

/-- digits needed for a value of `bits` bits (RLC_RIP and the `+= (bits > 0)`) -/
def digitsFor (w bits : Nat) : Nat := bits / w + (if bits % w > 0 then 1 else 0)

/-- bn_rand: `digits·(w/8)` bytes → digits, top digit masked to `bits % w` bits; none = the
    request does not fit the capacity (bn_grow) or the generator refused -/
def bnRand {σ : Type} (draw : σ → Nat → Option (List UInt8 × σ)) (w cap : Nat) (s : σ) (bits0 : Nat) : Option (List Nat × σ) :=
  let digits := digitsFor w bits0
  if digits > cap then none else
  match draw s (digits * (w / 8)) with
  | none => none
  | some (bytes, s') => some (maskTop (digitsOf bytes w digits) (bits0 % w), s')

def bitLen (n : Nat) : Nat := if n = 0 then 0 else Nat.log2 n + 1

/-- bn_rand_mod for a bound b: the rejection loop (fuel = number of draws allowed; the C loop is unbounded) -/
def bnRandMod {σ : Type} (draw : σ → Nat → Option (List UInt8 × σ)) (w cap b : Nat) : Nat → σ → Option Nat
  | 0, _ => none
  | fuel + 1, s =>
    -- the reduction (bn_mod → bn_div) needs one digit more than the drawn value: refused with a precision error otherwise
    if digitsFor w (bitLen b + 40) + 1 > cap then none else
    match bnRand draw w cap s (bitLen b + 40) with
    | none => none
    | some (dp, s') =>
      let r := valDigits w dp % b
      if r = 0 then bnRandMod draw w cap b fuel s' else some r

/-- `while (dv_cmp(a, p) != RLC_LT) fp_subm_low(a, a, p)` (no borrow occurs because a ≥ p, so the low-level routine returns a − p) -/
def subWhile (p : Nat) : Nat → Nat → Nat
  | 0, a => a
  | fuel + 1, a => if a < p then a else subWhile p fuel (a - p)

/-- fp_rand: RLC_FP_DIGS·(w/8) bytes → digits, top digit masked to `fpBits % w` bits, then the subtraction loop (the fuel `a + 1` is
    never exhausted for p > 0: Lemmas/RandInt.subWhile_eq_mod); the result is the raw digit vector (not a Montgomery conversion) -/
def fpRand {σ : Type} (draw : σ → Nat → Option (List UInt8 × σ)) (w fpDigs fpBits p : Nat) (s : σ) : Option (Nat × σ) :=
  match draw s (fpDigs * (w / 8)) with
  | none => none
  | some (bytes, s') =>
    let a := valDigits w (maskTop (digitsOf bytes w fpDigs) (fpBits % w))
    some (subWhile p (a + 1) a, s')

/-- fb_rand: RLC_FB_DIGS·(w/8) bytes → digits, top digit masked to `fbBits % w` bits (no reduction: every bit pattern below the degree
    is a field element) -/
def fbRand {σ : Type} (draw : σ → Nat → Option (List UInt8 × σ)) (w fbDigs fbBits : Nat) (s : σ) : Option (List Nat × σ) :=
  match draw s (fbDigs * (w / 8)) with
  | none => none
  | some (bytes, s') => some (maskTop (digitsOf bytes w fbDigs) (fbBits % w), s')

end Relic.Model.RandInt
