/-
Integer sampling on top of the byte generator (src/bn/relic_bn_util.c): bn_rand fills `digits` digits from the stream (host byte order)
and masks the top digit; bn_rand_mod draws bits(b) + 40 bits, reduces modulo b and draws again while the residue is zero.
The byte source is a parameter (the DRBG model of Model/Drbg.lean in the driver).
-/
namespace Relic.Model.RandInt

/-- value of little-endian digits -/
def valDigits (w : Nat) : List Nat → Nat
  | [] => 0
  | d :: ds => d + 2 ^ w * valDigits w ds

/-- bn_rand: `digits·(w/8)` bytes → digits (little-endian bytes inside a digit), top digit masked to `bits % w` bits; none = the
    request does not fit the capacity or the generator refused -/
def bnRand {σ : Type} (draw : σ → Nat → Option (List Nat × σ)) (w cap : Nat) (s : σ) (bits0 : Nat) : Option (List Nat × σ) :=
  let digits := bits0 / w + (if bits0 % w > 0 then 1 else 0)
  let bits := bits0 % w
  if digits > cap then none else
  match draw s (digits * (w / 8)) with
  | none => none
  | some (bytes, s') =>
    let dp := (List.range digits).map fun i =>
      (List.range (w / 8)).foldl (fun acc j => acc + bytes.getD (i * (w / 8) + j) 0 * 256 ^ j) 0
    let dp := if bits > 0 ∧ digits > 0 then dp.set (digits - 1) (dp.getD (digits - 1) 0 % 2 ^ bits) else dp
    some (dp, s')

def bitLen (n : Nat) : Nat := if n = 0 then 0 else Nat.log2 n + 1

/-- digits needed for a value of `bits` bits -/
def digitsFor (w bits : Nat) : Nat := bits / w + (if bits % w > 0 then 1 else 0)

/-- bn_rand_mod for a bound b: the rejection loop (fuel = number of draws allowed; the C loop is unbounded) -/
def bnRandMod {σ : Type} (draw : σ → Nat → Option (List Nat × σ)) (w cap b : Nat) : Nat → σ → Option Nat
  | 0, _ => none
  | fuel + 1, s =>
    -- the reduction (bn_mod → bn_div) needs one digit more than the drawn value: refused with a precision error otherwise
    if digitsFor w (bitLen b + 40) + 1 > cap then none else
    match bnRand draw w cap s (bitLen b + 40) with
    | none => none
    | some (dp, s') =>
      let r := valDigits w dp % b
      if r = 0 then bnRandMod draw w cap b fuel s' else some r

end Relic.Model.RandInt
