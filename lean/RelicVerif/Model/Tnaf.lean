/-
Model of the τ-adic recodings of src/bn/relic_bn_rec.c on integers: bn_rec_tnaf_get (the tables t_w, β_u, γ_u of the
representatives α_u = β_u + γ_u τ), bn_rec_tnaf_mod (reduction of k modulo τ^m - 1 by m divisions by τ) and bn_rec_tnaf
(width-w τ-NAF, least significant digit first). τ² = μτ - 2 with μ = u ∈ {1, -1}. An element r0 + r1 τ of Z[τ] is the pair (r0, r1).
Executable, no Mathlib.
-/
namespace Relic.Model.Tnaf

abbrev ZT := Int × Int

/-- cumulative table assignments, as the C writes them -/
def setAll (l : List Int) (idx : List Nat) (v : Int) : List Int := idx.foldl (fun l i => l.set i v) l

/-- bn_rec_tnaf_get: t_w -/
def tw (u : Int) (w : Nat) : Int :=
  if u = -1 then
    (if w ≤ 3 then 2 else if w = 4 then 10 else if w ≤ 6 then 26 else 90)
  else
    (if w = 2 then 2 else if w ≤ 5 then 6 else if w ≤ 7 then 38 else 166)

/-- bn_rec_tnaf_get: β -/
def beta (_u : Int) (w : Nat) : List Int :=
  let b := List.replicate 64 (0 : Int)
  let b := b.set 0 1
  let b := if w ≥ 3 then b.set 1 1 else b
  let b := if w ≥ 4 then ((b.set 1 (-3)).set 2 (-1)).set 3 1 else b
  let b := if w ≥ 5 then setAll (((b.set 4 (-3)).set 5 (-1))) [6, 7] 1 else b
  let b := if w ≥ 6 then
      let b := setAll b [1, 8, 14] 3
      let b := setAll b [2, 9, 15] 5
      let b := b.set 3 (-5)
      let b := setAll b [4, 10, 11] (-3)
      let b := setAll b [5, 12] (-1)
      setAll b [6, 7, 13] 1
    else b
  let b := if w ≥ 7 then
      let b := setAll b [3, 22, 29] 7
      let b := setAll b [4, 16, 23] (-5)
      let b := setAll b [5, 10, 17, 24] (-3)
      let b := setAll b [6, 11, 18, 25, 30] (-1)
      let b := setAll b [7, 12, 14, 19, 26, 31] 1
      let b := setAll b [8, 13, 20, 27] 3
      let b := setAll b [9, 21, 28] 5
      b.set 15 (-7)
    else b
  if w = 8 then
      let b := setAll b [10, 17, 48, 55, 62] 7
      let b := setAll b [11, 18, 49, 56, 63] 9
      let b := setAll b [12, 22, 29] (-3)
      let b := setAll b [36, 43, 50] (-3)
      let b := setAll b [13, 23, 30, 37] (-1)
      let b := setAll b [44, 51, 58] (-1)
      let b := setAll b [14, 24, 31, 38] 1
      let b := setAll b [45, 52, 59] 1
      let b := setAll b [15, 32, 39, 46, 53, 60] 3
      let b := setAll b [16, 40, 47, 54, 61] 5
      let b := setAll b [19, 57] 11
      let b := setAll b [20, 27, 34, 41] (-7)
      let b := setAll b [21, 28, 35, 42] (-5)
      let b := b.set 25 (-11)
      setAll b [26, 33] (-9)
  else b

/-- bn_rec_tnaf_get: γ -/
def gama (u : Int) (w : Nat) : List Int :=
  let g := List.replicate 64 (0 : Int)
  let g := if w ≥ 3 then g.set 1 (-u) else g
  let g := if w ≥ 4 then setAll g [1, 2, 3] u else g
  let g := if w ≥ 5 then (setAll g [4, 5, 6] (2 * u)).set 7 (-3 * u) else g
  let g := if w ≥ 6 then
      let g := setAll g [1, 2] 0
      let g := setAll g [3, 4, 5, 6] (2 * u)
      let g := setAll g [7, 8, 9] (-3 * u)
      let g := g.set 10 (4 * u)
      let g := setAll g [11, 12, 13] (-u)
      setAll g [14, 15] (-u)
    else g
  let g := if w ≥ 7 then
      let g := g.set 3 0
      let g := setAll g [4, 5, 6] (-3 * u)
      let g := setAll g [11, 12, 13] (4 * u)
      let g := g.set 14 (-6 * u)
      let g := setAll g [15, 16, 17, 18] u
      let g := setAll g [19, 20, 21, 22] u
      let g := setAll g [23, 24, 25, 26] (-2 * u)
      let g := setAll g [27, 28, 29] (-2 * u)
      setAll g [30, 31] (5 * u)
    else g
  if w = 8 then
      let g := setAll g [10, 11] (-3 * u)
      let g := setAll g [12, 13, 14, 15] (-6 * u)
      let g := setAll g [16, 17, 18, 19] (-6 * u)
      let g := setAll g [20, 21, 22] (8 * u)
      let g := setAll g [23, 24] (8 * u)
      let g := setAll g [25, 26, 27, 28] (5 * u)
      let g := setAll g [29, 30, 31, 32] (5 * u)
      let g := setAll g [33, 34, 35, 36] (2 * u)
      let g := setAll g [37, 38, 39, 40] (2 * u)
      let g := setAll g [41, 42, 43, 44] (-1 * u)
      let g := setAll g [45, 46, 47, 48] (-1 * u)
      let g := g.set 49 (-1 * u)
      let g := setAll g [50, 51, 52, 53] (-4 * u)
      let g := setAll g [54, 55, 56, 57] (-4 * u)
      let g := setAll g [58, 59, 60] (-7 * u)
      setAll g [61, 62, 63] (-7 * u)
  else g

/-- the element of Z[τ] a digit stands for: 0, ±1 for w = 2, ±α_{|d|} = ±(β + γτ)[|d| >> 1] for w ≥ 3 -/
def alpha (u : Int) (w : Nat) (d : Int) : ZT :=
  if d = 0 then (0, 0)
  else if w = 2 then (d, 0)
  else
    let i := d.natAbs / 2
    let b := (beta u w).getD i 0
    let g := (gama u w).getD i 0
    if d < 0 then (-b, -g) else (b, g)

/-- one division by τ (exact when r0 is even): bn_hlv halves the magnitude; r0' = r1 + μ·r0/2, r1' = -r0/2 -/
def divTau (u : Int) (r : ZT) : ZT :=
  let t := r.1.tdiv 2
  (r.2 + u * t, -t)

/-- bn_rec_tnaf_mod: k mod (τ^m - 1) -/
def tnafMod (k : Nat) (u : Int) (m : Nat) : ZT :=
  let st := (List.range m).foldl (fun (s : ZT × ZT × ZT) _ =>
    let r := s.1
    let a := s.2.1
    let b := s.2.2
    let odd := r.1 % 2 ≠ 0
    let r0 := if odd then r.1 - 1 else r.1
    let b := if odd then (b.1 + a.1, b.2 + a.2) else b
    let r := divTau u (r0, r.2)
    let a : ZT := (-(2 * a.2), a.1 + u * a.2)
    (r, a, b)) (((k : Int), 0), (1, 0), (0, 0))
  (st.1.1 + st.2.2.1, st.1.2 + st.2.2.2)

/-- the digit bn_rec_tnaf emits for an odd r0 -/
def digit (u : Int) (w : Nat) (r : ZT) : Int :=
  if w = 2 then 2 - ((r.1 - 2 * r.2) % 4)
  else
    let v := (r.1 + tw u w * r.2) % 2 ^ w
    if v ≥ 2 ^ w / 2 then v - 2 ^ w else v

/-- the main loop of bn_rec_tnaf from (r0, r1); none = the loop did not finish within the fuel -/
def recTnafLoop (u : Int) (w : Nat) : Nat → ZT → List Int → Option (List Int)
  | 0, r, acc => if r = (0, 0) then some acc else none
  | fuel + 1, r, acc =>
    if r = (0, 0) then some acc
    else if r.1 % 2 = 0 then recTnafLoop u w fuel (divTau u r) (acc ++ [0])
    else
      let d := digit u w r
      let a := alpha u w d
      recTnafLoop u w fuel (divTau u (r.1 - a.1, r.2 - a.2)) (acc ++ [d])

/-- bn_rec_tnaf(k, u, m, w) with a buffer of `cap` entries: none = ERR_NO_BUFFER (cap < bits(k) + 1); the digits are
    returned even when there are more than `cap` of them (the C code does not check while writing) -/
def recTnaf (cap : Nat) (k : Nat) (u : Int) (m w : Nat) : Option (List Int) :=
  let bits := if k = 0 then 0 else Nat.log2 k + 1
  if cap < bits + 1 then none
  else recTnafLoop u w (2 * bits + 2 * m + 64) (tnafMod k u m) []

/-! ### Z[τ] on pairs (used by the driver to judge a recoding: Σ α(d_i) τ^i ≡ k modulo τ^m - 1) -/

def mulT (u : Int) (a b : ZT) : ZT := (a.1 * b.1 - 2 * a.2 * b.2, a.1 * b.2 + a.2 * b.1 + u * a.2 * b.2)
def addT (a b : ZT) : ZT := (a.1 + b.1, a.2 + b.2)
def subT (a b : ZT) : ZT := (a.1 - b.1, a.2 - b.2)

/-- τ^n -/
def powTau (u : Int) : Nat → ZT
  | 0 => (1, 0)
  | n + 1 => mulT u (0, 1) (powTau u n)

/-- the value of a digit string: Σ α(d_i) τ^i (Horner from the top) -/
def evalDigits (u : Int) (w : Nat) (ds : List Int) : ZT :=
  ds.foldr (fun d acc => addT (alpha u w d) (mulT u (0, 1) acc)) (0, 0)

/-- conjugate and norm: (a + bτ)(a + b·τ̄) = a² + μab + 2b² -/
def conjT (u : Int) (a : ZT) : ZT := (a.1 + u * a.2, -a.2)
def normT (u : Int) (a : ZT) : Int := a.1 * a.1 + u * a.1 * a.2 + 2 * a.2 * a.2

/-- y divides x in Z[τ] (y ≠ 0): x·ȳ is a multiple of N(y) -/
def dividesT (u : Int) (y x : ZT) : Bool :=
  let z := mulT u x (conjT u y)
  let n := normT u y
  n ≠ 0 && z.1 % n == 0 && z.2 % n == 0

/-- x ≡ y modulo τ^m - 1 -/
def congTauM (u : Int) (m : Nat) (x y : ZT) : Bool := dividesT u (subT (powTau u m) (1, 0)) (subT x y)

end Relic.Model.Tnaf
