/-
Value-level model of the modular exponentiations of src/bn/relic_bn_mxp.c (bn_mxp_basic, bn_mxp_slide, bn_mxp_monty,
bn_mxp_dig, bn_mxp_crt) and of bn_smb_leg (src/bn/relic_bn_smb.c), in the build configuration BN_MOD = MONTY, BN_MXP = SLIDE,
BN_GCD = BASIC.  Integers are `Int`; the digit layer below (bn_mul, bn_sqr, bn_mod_basic, shifts) is proved exact in C01, the
Montgomery reduction is modelled by its value (x ↦ x·R⁻¹ mod m, R = 2^(w·used(m))).  `none` = the function reports an error.
-/
import RelicVerif.Model.Rec

namespace Relic.Model.NtMxp
open Relic.Model

/-- m->used: number of w-bit digits of a positive integer -/
def used (w n : Nat) : Nat := (Rec.bitLen n + w - 1) / w

/-- x/2 modulo an odd m, on canonical residues (one bit of a Montgomery reduction) -/
def half (m x : Int) : Int := if x % 2 = 0 then x / 2 else (x + m) / 2

def halfIter (m : Int) : Nat → Int → Int
  | 0, x => x
  | k + 1, x => halfIter m k (half m x)

/-- Montgomery context of an odd modulus m > 1: R = 2^(w·used m), ri = R⁻¹ mod m (computed by k halvings of 1) -/
structure Mont where
  m : Int
  R : Int
  ri : Int

def Mont.ofMod (w : Nat) (m : Int) : Mont :=
  let k := w * used w m.natAbs
  { m := m, R := 2 ^ k, ri := halfIter m k 1 }

/-- bn_mod_monty_conv: bn_mod (basic), shift left by used(m) digits, bn_mod (basic) -/
def Mont.conv (M : Mont) (a : Int) : Int := ((a % M.m) * M.R) % M.m
/-- bn_mod_monty (comba): x·R⁻¹ mod m, canonical (final conditional subtraction) -/
def Mont.redc (M : Mont) (x : Int) : Int := (x * M.ri) % M.m
/-- bn_mul; bn_mod(c, c, m, u) -/
def Mont.mul (M : Mont) (x y : Int) : Int := M.redc (x * y)
/-- bn_sqr; bn_mod(c, c, m, u) -/
def Mont.sqr (M : Mont) (x : Int) : Int := M.redc (x * x)
/-- bn_mod_monty_back -/
def Mont.back (M : Mont) (x : Int) : Int := M.redc x

/-! ### bn_mod_inv (through bn_gcd_ext_basic) -/

/-- the loop of bn_gcd_ext_basic_imp with e = NULL: (u, v, d, x_1) ↦ (v, u mod v, x_1, d − q·x_1) until v = 0 -/
def egcdLoop (u v : Nat) (d x : Int) : Nat × Int :=
  if h : v = 0 then (u, d) else egcdLoop v (u % v) x (d - ((u / v : Nat) : Int) * x)
termination_by v
decreasing_by exact Nat.mod_lt _ (Nat.pos_of_ne_zero h)

/-- (c, d) of bn_gcd_ext_basic(c, d, NULL, a, b), including the sign adjustment of bn_gcd_ext_sign -/
def gcdExtD (a b : Int) : Int × Int :=
  if a = 0 then ((b.natAbs : Int), 0)
  else if b = 0 then ((a.natAbs : Int), if a < 0 then -1 else 1)
  else
    let r := egcdLoop a.natAbs b.natAbs 1 0
    ((r.1 : Int), if a < 0 then -r.2 else r.2)

/-- bn_mod_inv(c, a, b): cofactor of a, plus b when negative; ERR_NO_VALID unless the gcd is 1 -/
def modInv (a b : Int) : Option Int :=
  let r := gcdExtD a b
  let c := if r.2 < 0 then r.2 + b else r.2
  if r.1 = 1 then some c else none

/-! ### the common frame of bn_mxp_basic / slide / monty / dig -/

/-- early exits, then bn_mod_pre (= bn_mod_pre_monty: ERR_NO_VALID for an even or non-positive modulus, first call in the
    RLC_TRY block, caught and re-thrown as ERR_CAUGHT) -/
def guard (b m : Int) (core : Unit → Option Int) : Option Int :=
  if m = 1 then some 0
  else if b = 0 then some 1
  else if m % 2 = 0 ∨ m ≤ 0 then none
  else core ()

/-- negative exponent: the result is inverted by bn_mod_inv -/
def finish (b m r : Int) : Option Int := if b < 0 then modInv r m else some r

def bit (b i : Nat) : Bool := (b >>> i) % 2 = 1

/-! ### bn_mxp_basic / bn_mxp_dig : left-to-right square and multiply from bit l−2 -/

def sqmLoop (M : Mont) (t : Int) (b : Nat) : Nat → Int → Int
  | 0, c => c
  | i + 1, c =>
    let c := M.sqr c
    sqmLoop M t b i (if bit b i then M.mul c t else c)

def basicCore (w : Nat) (a : Int) (b : Nat) (m : Int) : Int :=
  let M := Mont.ofMod w m
  let t := M.conv a
  M.back (sqmLoop M t b (Rec.bitLen b - 1) t)

def mxpBasic (w : Nat) (a b m : Int) : Option Int :=
  guard b m fun _ => finish b m (basicCore w a b.natAbs m)

/-- bn_mxp_dig: the exponent is an unsigned digit -/
def mxpDig (w : Nat) (a : Int) (b : Nat) (m : Int) : Option Int :=
  guard (b : Int) m fun _ => some (basicCore w a b m)

/-! ### bn_mxp_slide -/

def winWidth (l : Nat) : Nat :=
  if l ≤ 21 then 2 else if l ≤ 32 then 3 else if l ≤ 128 then 4 else if l ≤ 256 then 5 else if l ≤ 512 then 6 else 7

/-- tab[0] = t0, tab[i] = tab[i−1]·t2 -/
def mkTab (M : Mont) (t2 : Int) : Nat → Int → List Int
  | 0, _ => []
  | n + 1, t0 => t0 :: mkTab M t2 n (M.mul t0 t2)

def sqrN (M : Mont) : Nat → Int → Int
  | 0, t => t
  | j + 1, t => sqrN M j (M.sqr t)

/-- one entry of the recoding: a zero squares once; a window squares bitlen(window) times and multiplies by tab[window >> 1] -/
def scanStep (M : Mont) (tab : List Int) (t d : Int) : Int :=
  if d = 0 then M.sqr t else M.mul (sqrN M (Rec.bitLen d.toNat) t) (tab.getD (d.toNat / 2) 0)

def scan (M : Mont) (tab : List Int) (ds : List Int) (t : Int) : Int := ds.foldl (scanStep M tab) t

def slideCore (w : Nat) (a : Int) (b : Nat) (m : Int) : Option Int :=
  let M := Mont.ofMod w m
  let l := Rec.bitLen b
  let wd := winWidth l
  let t0 := M.conv a
  let tab := mkTab M (M.sqr t0) (2 ^ (wd - 1)) t0
  -- bn_rec_slw(win, &l, b, w) with capacity l = bn_bits(b): the ERR_NO_BUFFER branch is unreachable (Lemmas: slideCore_isSome)
  (Rec.recSlw l b wd).map fun ds => M.back (scan M tab ds (M.conv 1))

def mxpSlide (w : Nat) (a b m : Int) : Option Int :=
  guard b m fun _ => (slideCore w a b.natAbs m).bind (finish b m)

/-! ### bn_mxp_monty : Montgomery ladder from bit l−1; the conditional swaps select by the bit -/

def ladder (M : Mont) (b : Nat) : Nat → Int × Int → Int × Int
  | 0, s => s
  | i + 1, s =>
    ladder M b i (if bit b i then (M.mul s.1 s.2, M.sqr s.2) else (M.sqr s.1, M.mul s.1 s.2))

def montyCore (w : Nat) (a : Int) (b : Nat) (m : Int) : Int :=
  let M := Mont.ofMod w m
  M.back (ladder M b (Rec.bitLen b) (M.conv 1, M.conv a)).1

def mxpMonty (w : Nat) (a b m : Int) : Option Int :=
  guard b m fun _ => finish b m (montyCore w a b.natAbs m)

/-! ### bn_mxp_crt -/

/-- while (bn_sign(d) == RLC_NEG) d += p -/
def addLoop (p : Int) : Nat → Int → Int
  | 0, d => d
  | f + 1, d => if d < 0 then addLoop p f (d + p) else d

/-- the recombination after the two half exponentiations t (mod p), u (mod q) -/
def crtTail (p q qi t u : Int) : Int :=
  let d := t - u
  let d := addLoop p d.natAbs d
  let d := (d * qi) % p
  d * q + u

/-- bn_mxp_crt(d, a, b, c, crt, sqr) for crt = {p, q, dp, dq, qi}; bn_mxp = bn_mxp_slide -/
def mxpCrt (w : Nat) (a b c p q dp dq qi : Int) (sqr : Bool) : Option Int :=
  if !sqr then
    (mxpSlide w a b p).bind fun t => (mxpSlide w a c q).bind fun u => some (crtTail p q qi t u)
  else
    -- m_p = L(a^b mod p²)·dp mod p, m_q likewise (L(x) = (x−1)/p)
    (mxpSlide w a b (p * p)).bind fun t => (mxpSlide w a c (q * q)).bind fun u =>
      let t := (((t - 1) / p) * dp) % p
      let u := (((u - 1) / q) * dq) % q
      some (crtTail p q qi t u)

/-- the harness op: qi = q⁻¹ mod p by bn_mod_inv, then bn_mxp_crt with b = dp, c = dq -/
def mxpCrtOp (w : Nat) (a dp dq p q : Int) (sqr : Bool) : Option Int :=
  (modInv q p).bind fun qi => mxpCrt w a dp dq p q dp dq qi sqr

/-! ### bn_smb_leg : Euler's criterion through bn_mxp -/

def smbLeg (w : Nat) (a b : Int) : Option Int :=
  if b < 0 then none
  else if a = b then some 0
  else
    -- t = (b − 1) >> 1 (shift of the magnitude)
    let t := Int.tdiv (b - 1) 2
    (mxpSlide w a t b).map fun r =>
      let res : Int := if r = 1 then 1 else 0
      if b - r = 1 then -1 else res

/-! ### bn_mxp_sim = bn_mxp_sim_few with n = 2 (src/bn/relic_bn_mxp_sim.c) -/

/-- the table of bn_mxp_sim_few for n = 2: t[0] = 1, t[1] = a (only if b ≠ 0), t[2] = d, t[3] = t[2]·t[1] (only if e ≠ 0);
    entries that are never built keep the value of a fresh bn (0) -/
def simTab (M : Mont) (a d : Int) (b e : Nat) : Int × Int × Int × Int :=
  let t0 := M.conv 1
  let t1 := if b ≠ 0 then M.conv a else 0
  let t2 := if e ≠ 0 then M.conv d else 0
  let t3 := if e ≠ 0 then M.mul t2 t1 else 0
  (t0, t1, t2, t3)

/-- one squaring per bit, one multiplication by t[parities] when parities ≠ 0 (parities = bit of b | bit of e << 1) -/
def simLoop (M : Mont) (t1 t2 t3 : Int) (b e : Nat) : Nat → Int → Int
  | 0, c => c
  | i + 1, c =>
    let c := M.sqr c
    simLoop M t1 t2 t3 b e i
      (if bit b i then (if bit e i then M.mul c t3 else M.mul c t1) else (if bit e i then M.mul c t2 else c))

/-- bn_mxp_sim(c, a, b, d, e, m): m = 1 → 0; then bn_mod_pre_monty (error for even / non-positive m) — there is NO exit for zero
    exponents and NO inversion: bn_bits / bn_get_bit read the magnitudes, so the signs of b and e are ignored -/
def mxpSim (w : Nat) (a b d e m : Int) : Option Int :=
  if m = 1 then some 0
  else if m % 2 = 0 ∨ m ≤ 0 then none
  else
    let M := Mont.ofMod w m
    let bN := b.natAbs
    let eN := e.natAbs
    let t := simTab M a d bN eN
    some (M.back (simLoop M t.2.1 t.2.2.1 t.2.2.2 bN eN (max (Rec.bitLen bN) (Rec.bitLen eN)) t.1))

/-! ### bn_mxp_sim_few for general n -/

/-- one round of the table construction: t[star] = a (Montgomery form), t[star + j] = t[star]·t[j] for 0 < j < star — only when the
    exponent is non-zero; otherwise the 2^i entries keep the value of a fresh bn (0) -/
def fewBlock (M : Mont) (tab : List Int) (a : Int) (b : Nat) : List Int :=
  if b ≠ 0 then
    let ts := M.conv a
    ts :: (tab.drop 1).map (fun x => M.mul ts x)
  else List.replicate tab.length 0

def fewTab (M : Mont) : List Int → List (Int × Nat) → List Int
  | tab, [] => tab
  | tab, p :: ps => fewTab M (tab ++ fewBlock M tab p.1 p.2) ps

/-- parities = Σ bit(b_j, i) << j -/
def parity : List Nat → Nat → Nat
  | [], _ => 0
  | b :: bs, i => (if bit b i then 1 else 0) + 2 * parity bs i

def fewLoop (M : Mont) (tab : List Int) (bs : List Nat) : Nat → Int → Int
  | 0, c => c
  | i + 1, c =>
    let c := M.sqr c
    let p := parity bs i
    fewLoop M tab bs i (if p ≠ 0 then M.mul c (tab.getD p 0) else c)

def maxBits : List Nat → Nat
  | [] => 0
  | b :: bs => max (Rec.bitLen b) (maxBits bs)

/-- bn_mxp_sim_few(c, a, b, m, n) with c = c0 before the call; ps = [(a_0, b_0), …] -/
def mxpSimFew (w : Nat) (c0 : Int) (ps : List (Int × Int)) (m : Int) : Option Int :=
  if m = 1 then some 0
  else if ps.length = 0 then some c0
  else if ps.length > 8 then none
  else if m % 2 = 0 ∨ m ≤ 0 then none
  else
    let M := Mont.ofMod w m
    let qs := ps.map fun p => (p.1, p.2.natAbs)
    let tab := fewTab M [M.conv 1] qs
    let bs := qs.map (·.2)
    some (M.back (fewLoop M tab bs (maxBits bs) (tab.getD 0 0)))

/-! ### bn_mxp_sim_lot (XP_WIDTH = max(8, RLC_WIDTH) = 8 in the configurations built) -/

/-- bn_mod with three arguments (bn_mod_basic: floored remainder; a zero modulus is refused) -/
def modB (x m : Int) : Option Int := if m = 0 then none else some (Int.fmod x m)

/-- the blocking loop: while at least 8 pairs remain, 8 of them go through bn_mxp_sim_few and are multiplied into c -/
def lotBlocks (w : Nat) (m : Int) : Nat → List (Int × Int) → Int → Option (Int × List (Int × Int))
  | 0, ps, c => some (c, ps)
  | f + 1, ps, c =>
    if 8 ≤ ps.length then
      (mxpSimFew w 0 (ps.take 8) m).bind fun t => (modB (c * t) m).bind fun c' => lotBlocks w m f (ps.drop 8) c'
    else some (c, ps)

/-- bn_mxp_sim_lot(c, a, b, m, n): m = 1 → 0; c = 1; blocks of 8; then the remaining pairs: none → nothing, exactly one → bn_mxp (which
    has the b = 0 exit and inverts for a negative exponent), more → bn_mxp_sim_few; every product reduced by bn_mod_basic -/
def mxpSimLot (w : Nat) (ps : List (Int × Int)) (m : Int) : Option Int :=
  if m = 1 then some 0
  else
    (lotBlocks w m ps.length ps 1).bind fun r =>
      match r.2 with
      | [] => some r.1
      | [p] => (mxpSlide w p.1 p.2 m).bind fun t => modB (r.1 * t) m
      | rest => (mxpSimFew w 0 rest m).bind fun t => modB (r.1 * t) m

end Relic.Model.NtMxp
