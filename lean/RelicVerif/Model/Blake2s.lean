/-
Model of src/md/blake2s-ref.c: blake2s_init / blake2s_init_key (parameter block, key block through
blake2s_update), blake2s_update (buflen / `fill` logic: the buffer is compressed only when MORE data
arrives, then whole blocks directly from the input while more than one block remains),
blake2s_increment_counter (t[0] += inc; t[1] += (t[0] < inc)), blake2s_final (is_lastblock test, counter
+= buflen, f[0] = -1, zero padding, little-endian output of outlen bytes) and the one-shot blake2s()
with its parameter checks. The compression function is the spec's `F` called with the counter value
t[0] + 2^32·t[1] and the flag f[0] ≠ 0 of the state (same bit operations as blake2s_compress; its tie
to the C code is the correspondence run).
-/
import RelicVerif.Spec.Blake2s

namespace Relic.Model.Blake2s
open Relic.Spec.Blake2s

structure State where
  h : Array UInt32
  t0 : UInt32
  t1 : UInt32
  f0 : UInt32
  buf : List UInt8        -- buf[0 .. buflen)
  outlen : Nat

/-- blake2s_increment_counter -/
def incrementCounter (S : State) (inc : UInt32) : State :=
  let t0 := S.t0 + inc
  { S with t0 := t0, t1 := S.t1 + (if t0 < inc then 1 else 0) }

/-- blake2s_compress on a 64-byte block -/
def compress (S : State) (blk : List UInt8) : State :=
  { S with h := F S.h blk (S.t0.toNat + 2 ^ 32 * S.t1.toNat) (S.f0 != 0) }

/-- the `while (inlen > BLAKE2S_BLOCKBYTES)` loop of blake2s_update -/
def updLoop : Nat → State → List UInt8 → State × List UInt8
  | 0, S, inp => (S, inp)
  | fuel + 1, S, inp =>
    if inp.length > 64 then updLoop fuel (compress (incrementCounter S 64) (inp.take 64)) (inp.drop 64)
    else (S, inp)

/-- blake2s_update -/
def update (S : State) (inp : List UInt8) : State :=
  if inp.length > 0 then
    let left := S.buf.length
    let fill := 64 - left
    if inp.length > fill then
      let blk := S.buf ++ inp.take fill              -- memcpy(S->buf + left, in, fill)
      let S := compress (incrementCounter { S with buf := [] } 64) blk
      let (S, rest) := updLoop inp.length S (inp.drop fill)
      { S with buf := rest }                          -- memcpy(S->buf + 0, in, inlen); buflen = inlen
    else { S with buf := S.buf ++ inp }
  else S

/-- blake2s_init_param with the sequential parameter block (digest_length, key_length, fanout = depth = 1) -/
def initParam (outlen keylen : Nat) : State :=
  { h := IV.setIfInBounds 0 (IV.getD 0 0 ^^^ (UInt32.ofNat outlen ||| (UInt32.ofNat keylen <<< 8) ||| 0x00010000 ||| 0x01000000)),
    t0 := 0, t1 := 0, f0 := 0, buf := [], outlen := outlen }

/-- blake2s_init: none = -1 -/
def init (outlen : Nat) : Option State :=
  if outlen = 0 ∨ outlen > 32 then none else some (initParam outlen 0)

/-- blake2s_init_key: none = -1 -/
def initKey (outlen : Nat) (key : List UInt8) : Option State :=
  if outlen = 0 ∨ outlen > 32 then none
  else if key.length = 0 ∨ key.length > 32 then none
  else some (update (initParam outlen key.length) (key ++ List.replicate (64 - key.length) 0))

/-- the state change of blake2s_final (when it does not return -1) -/
def finalState (S : State) : State :=
  let S := incrementCounter S (UInt32.ofNat S.buf.length)
  let S := { S with f0 := 0xFFFFFFFF }
  compress S (S.buf ++ List.replicate (64 - S.buf.length) 0)

/-- blake2s_final: none = -1 (outlen too small, or already finalised) -/
def final (S : State) (outlen : Nat) : Option (List UInt8) :=
  if outlen < S.outlen then none
  else if S.f0 != 0 then none
  else some (outBytes (finalState S).h outlen)

/-- blake2s(): one-shot, keyed when keylen > 0 -/
def blake2s (outlen : Nat) (inp key : List UInt8) : Option (List UInt8) :=
  if outlen = 0 ∨ outlen > 32 then none
  else if key.length > 32 then none
  else do
    let S ← if key.length > 0 then initKey outlen key else init outlen
    final (update S inp) outlen

/-- init[_key]; update chunk₁; …; update chunkₙ; final -/
def run (outlen : Nat) (key : List UInt8) (chunks : List (List UInt8)) : Option (List UInt8) := do
  let S ← if key.length > 0 then initKey outlen key else init outlen
  final (chunks.foldl update S) outlen

end Relic.Model.Blake2s
