/-
Scalar multiplications of src/ed/relic_ed_mul.c, relic_ed_mul_fix.c, relic_ed_mul_sim.c over an arbitrary carrier with
explicit operations. The loops are the ones of Model/MulAlg.lean (the ed_* routines were cloned from the ep_* ones); this
file mirrors what is around them:

* like the ep_* originals, every routine whose recoding array / precomputed table is sized for scalars below the group
  order first reduces the scalar: m = bn_mod(k, r), the non-negative residue — the sign of k is folded in
  (ed_mul_lwreg: |k| mod r, parity of that, sign applied at the end). [/repo fixes for findings C17-F1/F2/F5.]
  ed_mul_basic and ed_mul_monty size their recoding by bn_bits(k) and work on |k| itself, sign at the end;
* `none` is the ERR_NO_BUFFER a recoding throws when its argument does not fit the fixed-size array of the C code
  (Lemmas/EdMul.lean: never, as long as r < 2^RLC_FP_BITS);
* the early exits `k = 0 ∨ P = O ⇒ O` come before everything else;
* ed_mul_monty starts from (O, P) and walks all bits of |k|.
-/
import RelicVerif.Model.MulAlg
import RelicVerif.Model.Rec
import RelicVerif.Model.EpMul

namespace Relic.Model.EdMul
open Relic.Model.MulAlg Relic.Model.Rec

variable {G : Type}

/-- the compile-time constants the routines depend on -/
structure Par where
  fpBits : Nat     -- RLC_FP_BITS
  width : Nat      -- RLC_WIDTH
  depth : Nat      -- RLC_DEPTH
  ord : Nat        -- the group order r (ed_curve_get_ord)
deriving Repr

/-- bn_bits(r) -/
def Par.ordBits (par : Par) : Nat := bitLen par.ord

/-- bn_mod(m, k, r): the non-negative residue of k modulo the group order -/
def Par.red (par : Par) (k : Int) : Nat := (k % (par.ord : Int)).toNat

/-- `if (bn_sign(k) == RLC_NEG) ed_neg(r, r)` -/
def signed (o : Ops G) (k : Int) (x : G) : G := if k < 0 then o.neg x else x

/-- bits of n, most significant first -/
def bitsMsb (n : Nat) : List Bool := (List.range (bitLen n)).reverse.map fun i => (n >>> i) % 2 = 1

/-- ed_mul_basic: binary NAF into a buffer of bn_bits(k) + 1 entries (always fits), table [P] -/
def mulBasic (o : Ops G) (isO : G → Bool) (p : G) (k : Int) : Option G :=
  if k = 0 ∨ isO p then some o.zero else
  (recNaf (bitLen k.natAbs + 1) k.natAbs 2).map fun ds => signed o k (mulSigned o [p] o.zero ds)

/-- ed_mul_dig: a single-digit scalar k < 2^w (w = RLC_DIG), binary NAF into int8_t naf[RLC_DIG + 1], the loop of ed_mul_basic
    with the table [P]; no sign -/
def mulDig (o : Ops G) (isO : G → Bool) (w : Nat) (p : G) (k : Nat) : Option G :=
  if k = 0 ∨ isO p then some o.zero else
  (recNaf (w + 1) k 2).map fun ds => mulSigned o [p] o.zero ds

/-- ed_mul_lwnaf (ed_mul_naf_imp): width-w NAF of k mod r into int8_t naf[RLC_FP_BITS + 1], table of odd multiples (ed_tab) -/
def mulLwnaf (o : Ops G) (isO : G → Bool) (par : Par) (p : G) (k : Int) : Option G :=
  if k = 0 ∨ isO p then some o.zero else
  (recNaf (par.fpBits + 1) (par.red k) par.width).map fun ds =>
    mulSigned o (tabOdd o p (2 ^ (par.width - 2))) o.zero ds

/-- ed_mul_slide: sliding windows of k mod r into uint8_t win[RLC_FP_BITS + 1], table of the odd multiples below 2^w -/
def mulSlide (o : Ops G) (isO : G → Bool) (par : Par) (p : G) (k : Int) : Option G :=
  if k = 0 ∨ isO p then some o.zero else
  (recSlw (par.fpBits + 1) (par.red k) par.width).map fun win =>
    MulAlg.mulSlide o (tabOdd o p (2 ^ (par.width - 1))) o.zero win

/-- the ladder of ed_mul_monty: (t0, t1) = (O, P); for every bit of |k| from the top:
    bit 1 ↦ (t0 + t1, 2·t1); bit 0 ↦ (2·t0, t0 + t1) (the conditional swaps around `add; dbl`) -/
def ladder (o : Ops G) (p : G) (bits : List Bool) : G :=
  (bits.foldl (fun (t : G × G) b =>
    if b then (o.add t.1 t.2, o.dbl t.2) else (o.dbl t.1, o.add t.1 t.2)) (o.zero, p)).1

/-- ed_mul_monty -/
def mulMonty (o : Ops G) (isO : G → Bool) (p : G) (k : Int) : Option G :=
  if k = 0 ∨ isO p then some o.zero else some (signed o k (ladder o p (bitsMsb k.natAbs)))

/-- ed_mul_lwreg (ed_mul_reg_imp): regular recoding of (|k| mod r) | 1 for RLC_FP_BITS bits, parity correction by −P when
    |k| mod r is even, sign of k applied at the end. The recoding array has 1 + ⌈(RLC_FP_BITS + 1)/(w − 1)⌉ entries. -/
def mulLwreg (o : Ops G) (isO : G → Bool) (par : Par) (p : G) (k : Int) : Option G :=
  if k = 0 ∨ isO p then some o.zero else
  let w := par.width
  let kk := k.natAbs % par.ord
  (recReg ((par.fpBits + 1 + (w - 1) - 1) / (w - 1) + 1) (kk ||| 1) par.fpBits w).map fun reg =>
    signed o k (mulReg o (tabOdd o p (2 ^ (w - 2))) o.zero w reg (kk % 2 = 0) p)

/-- ed_mul_pre_basic + ed_mul_fix_basic: t[i] = 2^i·P for i < bn_bits(r); one addition per set bit of k mod r -/
def mulFixBasic (o : Ops G) (par : Par) (p : G) (k : Int) : Option G :=
  if k = 0 then some o.zero else
  some (MulAlg.mulFixBasic o (tabPow2 o p par.ordBits) o.zero (par.red k))

/-- ed_mul_pre_lwnaf + ed_mul_fix_lwnaf (ed_mul_fix_plain): width-RLC_DEPTH NAF of k mod r into naf[RLC_FP_BITS + 1] -/
def mulFixLwnaf (o : Ops G) (par : Par) (p : G) (k : Int) : Option G :=
  (recNaf (par.fpBits + 1) (par.red k) par.depth).map fun ds =>
    mulSigned o (tabOdd o p (2 ^ (par.depth - 2))) o.zero ds

/-! ### single-table and double-table comb methods -/

/-- the comb column i of k: Σ_j bit(k, i + j·l)·2^j, j < depth -/
def combCol (k l depth i : Nat) : Nat :=
  (List.range depth).foldl (fun w j => w + ((k >>> (i + j * l)) % 2) * 2 ^ j) 0

/-- ed_mul_pre_combs: t[w] = Σ_{j : bit j of w} 2^(j·l)·P, built as t[2^j] = 2^l·t[2^(j−1)], t[2^j + i] = t[i] + t[2^j] -/
def tabCombs (o : Ops G) (p : G) (l : Nat) : Nat → List G
  | 0 => [o.zero]
  | j + 1 =>
    let t := tabCombs o p l j
    let top := dblN o (l * j) p
    t ++ t.map fun x => o.add x top

/-- ed_mul_fix_combs (ed_mul_combs_plain): l = ⌈bn_bits(r)/depth⌉ columns of k mod r, r = 2r + t[column i] from i = l − 1 down -/
def mulFixCombs (o : Ops G) (par : Par) (p : G) (k : Int) : Option G :=
  let l := (par.ordBits + par.depth - 1) / par.depth
  let tab := tabCombs o p l par.depth
  some ((List.range l).reverse.foldl (fun r i => o.add (o.dbl r) (tab.getD (combCol (par.red k) l par.depth i) o.zero)) o.zero)

/-- ed_mul_pre_combd + ed_mul_fix_combd (cloned from ep_mul_pre_combd / ep_mul_fix_combd: the models are the ones of
    Model/EpMul.lean).  dd = ⌈bn_bits(r)/RLC_DEPTH⌉ columns, e = ⌈dd/2⌉; the table is the single comb table with column distance
    dd followed by O and every entry doubled e times; the scalar is reduced modulo r; e iterations r = 2r + t[column i] +
    t[2^depth + column i+e] (second column only while i + e < dd); both additions unconditional. -/
def mulFixCombd (o : Ops G) (par : Par) (p : G) (k : Int) : Option G :=
  let dd := (par.ordBits + par.depth - 1) / par.depth
  let e := (dd + 1) / 2
  some (EpMul.mulCombd o (EpMul.tabCombd o p dd e par.depth) (par.red k) dd e par.depth)

/-! ### simultaneous multiplications k·P + m·Q -/

/-- ed_mul_sim_basic: two ed_mul and one addition; `mul` = the configured ed_mul -/
def simBasic (o : Ops G) (mul : G → Int → Option G) (p : G) (k : Int) (q : G) (m : Int) : Option G :=
  match mul q m, mul p k with
  | some a, some b => some (o.add a b)
  | _, _ => none

/-- the early exits shared by ed_mul_sim_trick / inter / joint -/
def simExits (o : Ops G) (isO : G → Bool) (mul : G → Int → Option G) (p : G) (k : Int) (q : G) (m : Int)
    (body : Option G) : Option G :=
  if k = 0 ∨ isO p then mul q m
  else if m = 0 ∨ isO q then mul p k
  else body

/-- ed_mul_sim_trick: w = RLC_WIDTH/2, windows of k mod r, m mod r into w0, w1[RLC_FP_BITS + 1] with *len = ⌈RLC_FP_BITS/w⌉ -/
def simTrick (o : Ops G) (isO : G → Bool) (par : Par) (mul : G → Int → Option G) (p : G) (k : Int) (q : G) (m : Int) : Option G :=
  simExits o isO mul p k q m <|
    let w := par.width / 2
    let cap := (par.fpBits + w - 1) / w
    match recWin cap (par.red k) w, recWin cap (par.red m) w with
    | some w0, some w1 => some (MulAlg.simTrick o (tabTrick o p q w) o.zero w w0 w1)
    | _, _ => none

/-- ed_mul_sim_inter (ed_mul_sim_plain without the generator table): two width-w NAFs of the reduced scalars -/
def simInter (o : Ops G) (isO : G → Bool) (par : Par) (mul : G → Int → Option G) (p : G) (k : Int) (q : G) (m : Int) : Option G :=
  simExits o isO mul p k q m <|
    match recNaf (par.fpBits + 1) (par.red k) par.width, recNaf (par.fpBits + 1) (par.red m) par.width with
    | some n0, some n1 =>
      some (MulAlg.simInter o (tabOdd o p (2 ^ (par.width - 2))) (tabOdd o q (2 ^ (par.width - 2))) o.zero n0 n1)
    | _, _ => none

/-- ed_mul_sim_joint: joint sparse form of (k mod r, m mod r) into jsf[2(RLC_FP_BITS + 1)] -/
def simJoint (o : Ops G) (isO : G → Bool) (par : Par) (mul : G → Int → Option G) (p : G) (k : Int) (q : G) (m : Int) : Option G :=
  simExits o isO mul p k q m <|
    (recJsf (2 * (par.fpBits + 1)) (par.red k) (par.red m)).map fun (j0, j1) =>
      MulAlg.simJoint o p q j0 j1

/-- ed_mul_sim_gen when ED_SIM == INTER, ED_FIX == LWNAF and the generator table is precomputed: ed_mul_sim_plain with the
    generator's table (width RLC_DEPTH) for the first scalar; no early exits inside -/
def simPlainGen (o : Ops G) (par : Par) (g : G) (k : Int) (q : G) (m : Int) : Option G :=
  match recNaf (par.fpBits + 1) (par.red k) par.depth, recNaf (par.fpBits + 1) (par.red m) par.width with
  | some n0, some n1 =>
    some (MulAlg.simInter o (tabOdd o g (2 ^ (par.depth - 2))) (tabOdd o q (2 ^ (par.width - 2))) o.zero n0 n1)
  | _, _ => none

/-- ed_mul_sim_lot: l = max_i (bn_bits(k_i) + 1); every scalar (NOT reduced modulo r, any sign) recoded into a binary NAF of
    capacity l (`none` = ERR_NO_BUFFER: never, Lemmas/EdLot.lean), the points negated for negative scalars; then the interleaved
    loop of ep_mul_sim_lot_plain (Model/EpMul.lean `simLotNaf`): l iterations r = 2r, r ± P_j by the sign of the digit. -/
def simLot (o : Ops G) (pks : List (G × Int)) : Option G :=
  let l := (pks.map fun pk => bitLen pk.2.natAbs + 1).foldl max 0
  let nafs := pks.map fun pk => recNaf l pk.2.natAbs 2
  if nafs.any Option.isNone then none else
  some (EpMul.simLotNaf o (pks.map fun pk => if pk.2 < 0 then o.neg pk.1 else pk.1) (nafs.map fun x => x.getD []) l)

/-- ed_mul_gen: k = 0 ⇒ O, otherwise the configured fixed-base method on the generator's table -/
def mulGen (o : Ops G) (fix : G → Int → Option G) (g : G) (k : Int) : Option G :=
  if k = 0 then some o.zero else fix g k

/-- ed_mul_sim_gen -/
def simGen (o : Ops G) (isO : G → Bool) (mul fix : G → Int → Option G) (sim : G → Int → G → Int → Option G)
    (plain : Option (G → Int → G → Int → Option G)) (g : G) (k : Int) (q : G) (m : Int) : Option G :=
  if k = 0 then mul q m
  else if m = 0 ∨ isO q then mulGen o fix g k
  else match plain with
    | some f => f g k q m
    | none => sim g k q m

end Relic.Model.EdMul
