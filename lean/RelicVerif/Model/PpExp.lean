/-
Vocabulary of the final-exponentiation code of src/pp/relic_pp_exp_k12.c (property C04).

The three chains pp_exp_bn / pp_exp_sm9 / pp_exp_b12, the dispatcher pp_exp_k12 and fp12_conv_cyc are straight-line
(plus two branches and one index loop) sequences of fp12_* calls: they are TRANSLATED from the C text on every run
(tools/translate_pp.py → RelicVerif/Gen/PpExp.lean) into `let` chains over the operation record `CycOps G` below.
The one routine with data-dependent loops, fp12_exp_cyc_sps (exponentiation by the sparse signed-bit form of the curve
parameter), is modelled here by hand, loop for loop.

`CycOps G` is instantiated
 * by the driver with its own Fp12 arithmetic (generic tower specification, Spec/Tower.lean), so that the model of each
   chain is EXECUTED on every presented line and compared with what the library returned;
 * by the theorems (Lemmas/PpExp.lean) with an arbitrary commutative group carrying a "Frobenius" a ↦ a^p.

What is abstracted: the compressed representation of Karabina's squarings (fp12_sqr_pck / fp12_back_cyc_sim) — `sqrPck`
is a squaring and `back` the decompression, i.e. the identity on values (C10 proves the decompression formula).

No Mathlib.
-/
namespace Relic.Model.PpExp

structure CycOps (G : Type) where
  one : G
  mul : G → G → G
  /-- fp12_sqr_cyc: squaring of a cyclotomic element -/
  sqrCyc : G → G
  /-- fp12_sqr_pck: squaring in compressed form -/
  sqrPck : G → G
  /-- one entry of fp12_back_cyc_sim: decompression -/
  back : G → G
  /-- fp12_inv_cyc: conjugation over Fp6 (the inverse of a cyclotomic element) -/
  invCyc : G → G
  /-- fp12_inv: the field inverse -/
  inv : G → G
  /-- fp12_frb(c, a, i): the p^i-power map -/
  frb : G → Nat → G

variable {G : Type}

/-- `for (; j < k; j++) fp12_sqr_pck(t, t);` entered with `n = k - j` iterations to go -/
def sqrN (o : CycOps G) (t : G) : Nat → G
  | 0 => t
  | n + 1 => sqrN o (o.sqrPck t) n

/-- the recording loop of fp12_exp_cyc_sps over the remaining entries of `b`: `t` is the running power, `j` the number of
    squarings done so far (it never goes back: an entry smaller than `j` costs no squaring); returns the entries of u[] -/
def spsLoop (o : CycOps G) : G → Nat → List Int → List G
  | _, _, [] => []
  | t, j, bi :: bs =>
    let k := bi.natAbs
    let t' := sqrN o t (k - j)
    let j' := if j < k then k else j
    (if bi < 0 then o.invCyc t' else t') :: spsLoop o t' j' bs

/-- fp12_exp_cyc_sps(c, a, b, len, sign) with `neg` ⇔ sign == RLC_NEG.
    len == 0: 1 (returned before the sign is looked at);
    b[0] == 0: the term 2^0 is `a` itself, the other entries go through the compressed squarings;
    otherwise every entry does.  Then the product of the decompressed entries, conjugated for a negative sign. -/
def expCycSps (o : CycOps G) (a : G) (b : List Int) (neg : Bool) : G :=
  match b with
  | [] => o.one
  | b0 :: bs =>
    let c :=
      if b0 == 0 then
        ((spsLoop o a 0 bs).map o.back).foldl o.mul a
      else
        match (spsLoop o a 0 (b0 :: bs)).map o.back with
        | [] => o.one
        | u0 :: us => us.foldl o.mul u0
    if neg then o.invCyc c else c

/-- the integer denoted by the entries from position `j` on: Σ ±2^(max(j, |bᵢ|, earlier |b|)) — for an ascending list
    without repetition (what fp_prime_set_pairf stores: the positions of the non-zero NAF digits) simply Σ sgn(bᵢ)·2^|bᵢ|.
    An entry 0 is the term +1 (there is no −0: fp_prime_set_pairf rewrites a leading NAF digit −1 as 1 − 2). -/
def spsTerms : Nat → List Int → Int
  | _, [] => 0
  | j, bi :: bs =>
    let k := bi.natAbs
    let j' := if j < k then k else j
    (if bi < 0 then -(2 ^ j' : Int) else (2 ^ j' : Int)) + spsTerms j' bs

/-- the value of a sparse form -/
def spsVal (b : List Int) : Int := spsTerms 0 b

end Relic.Model.PpExp
