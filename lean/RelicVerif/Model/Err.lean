/-
C19 — model of the error-handling macros of include/relic_err.h (CHECK on) and of err_get_code
(src/relic_err.c), and the structured try/throw/catch/finally semantics they are meant to implement.

Programs are ASTs; the generated C test programs print the same AST with the real macros.
-/
namespace Relic.Model.Err

inductive Prog where
  | skip
  | act (n : Nat)                                  -- an observable action
  | throw (e : Nat)                                -- RLC_THROW(e); e = 0 is ERR_CAUGHT (rethrow)
  | getcode                                        -- observe err_get_code()
  | seq (p q : Prog)
  | tryc (body handler fin : Prog) (var : Bool)    -- RLC_TRY body RLC_CATCH(e)|RLC_CATCH_ANY handler RLC_FINALLY fin
deriving Repr, DecidableEq, Inhabited

/-- observable events -/
inductive Ev where
  | act (n : Nat)
  | code (c : Nat)          -- value returned by err_get_code: 0 = RLC_OK, 1 = RLC_ERR
  | caught (e : Nat)        -- the handler of a RLC_CATCH(e) block observes its variable
deriving Repr, DecidableEq

/-! ## The macro machine -/

/-- a frame of the chain ctx->last: `block = 1` for RLC_TRY frames, `block = 0` for ctx->error -/
structure Frame where
  id : Nat
  block : Bool
deriving Repr, DecidableEq

structure MSt where
  trace : List Ev := []
  last : List Frame := []        -- ctx->last chain, innermost first ([] = NULL)
  caught : Bool := false         -- ctx->caught
  code : Nat := 0                -- ctx->code
  number : Nat := 0              -- ctx->number (first error thrown outside any block)
  vars : List (Nat × Nat) := []  -- frame id ↦ value of the catch variable `e` (written through _this.error)
  next : Nat := 0                -- fresh frame ids
deriving Repr

inductive MOut where
  | normal
  | jump (target : Nat)          -- longjmp(_ctx->last->addr, 1) to the frame with this id
deriving Repr, DecidableEq

def setVar (vars : List (Nat × Nat)) (id v : Nat) : List (Nat × Nat) := (id, v) :: vars.filter (·.1 ≠ id)
def getVar (vars : List (Nat × Nat)) (id : Nat) : Nat := ((vars.find? (·.1 = id)).map (·.2)).getD 99

/-- RLC_ERR_THROW -/
def mThrow (s : MSt) (e : Nat) : MOut × MSt :=
  let s := { s with code := 1 }
  match s.last with
  | [] =>
    -- _ctx->last = &(_ctx->error); error.block = 0; number = E   (no control transfer)
    (.normal, { s with last := [{ id := 0, block := false }], number := e })
  | f :: _ =>
    if f.block then
      let s := if e ≠ 0 then { s with vars := setVar s.vars f.id e } else s
      (.jump f.id, s)
    else (.normal, s)

/-- the second `for (_z = 0; _z < 2; _z++)` loop: FINALLY at _z = 0, the handler at _z = 1.
    `latch = true` models the repaired RLC_ERR_CATCH (the `caught` flag is read once, before FINALLY);
    `latch = false` models the original macro, which re-reads ctx->caught after FINALLY has run. -/
def mTail (latch : Bool) (evalFin evalHandler : MSt → MOut × MSt) (var : Bool) (id : Nat) (latched : Bool)
    (s : MSt) : MOut × MSt :=
  match evalFin s with
  | (.normal, s) =>
    let c := if latch then latched else s.caught
    if c then
      let s := if var then { s with trace := s.trace ++ [.caught (getVar s.vars id)] } else s
      evalHandler s
    else (.normal, s)
  | r => r

/-- the machine, by structural recursion on the program -/
def mEval (latch : Bool) : Prog → MSt → MOut × MSt
  | .skip, s => (.normal, s)
  | .act n, s => (.normal, { s with trace := s.trace ++ [.act n] })
  | .throw e, s => mThrow s e
  | .getcode, s => (.normal, { s with trace := s.trace ++ [.code s.code], code := 0 })
  | .seq p q, s =>
    match mEval latch p s with
    | (.normal, s') => mEval latch q s'
    | r => r
  | .tryc body handler fin var, s =>
    -- RLC_ERR_TRY: _last = ctx->last; _this.block = 1; ctx->last = &_this; (_z = 0: _this.error = ADDR)
    let id := s.next + 1
    let saved := s.last
    let s := { s with last := { id := id, block := true } :: s.last, next := id,
                      vars := if var then setVar s.vars id 99 else s.vars }
    let (o, s) := mEval latch body s
    match o with
    | .jump t =>
      if t ≠ id then (.jump t, s)   -- not ours: cannot happen (lemma); propagate
      else
        let s := { s with caught := true, last := saved }
        mTail latch (mEval latch fin) (mEval latch handler) var id true s
    | .normal =>
      let s := { s with caught := false, last := saved }
      mTail latch (mEval latch fin) (mEval latch handler) var id false s

/-- run a whole program from a fresh context; observable result: trace, final code, chain empty -/
def mRun (latch : Bool) (p : Prog) : List Ev × Nat × Bool :=
  let (_, s) := mEval latch p {}
  (s.trace, s.code, s.last.isEmpty)

/-! ## The structured semantics -/

structure SSt where
  trace : List Ev := []
  code : Nat := 0
  top : Bool := false      -- a throw outside any block has happened (the chain then holds ctx->error)
deriving Repr

inductive SOut where
  | normal
  | thrown (e : Nat)
deriving Repr, DecidableEq

/-- `depth` = number of enclosing protected blocks; `ev` = value a handler variable shows:
    the thrown code, or 99 (its initial value) after a rethrow of ERR_CAUGHT -/
def sEval : Prog → Nat → SSt → SOut × SSt
  | .skip, _, s => (.normal, s)
  | .act n, _, s => (.normal, { s with trace := s.trace ++ [.act n] })
  | .throw e, depth, s =>
    let s := { s with code := 1 }
    if depth = 0 then (.normal, { s with top := true }) else (.thrown e, s)
  | .getcode, _, s => (.normal, { s with trace := s.trace ++ [.code s.code], code := 0 })
  | .seq p q, d, s =>
    match sEval p d s with
    | (.normal, s') => sEval q d s'
    | r => r
  | .tryc body handler fin var, d, s =>
    match sEval body (d + 1) s with
    | (.normal, s) => sEval fin d s                       -- finally runs once; handler does not
    | (.thrown e, s) =>
      match sEval fin d s with                            -- finally runs once (before the handler)
      | (.normal, s) =>
        let s := if var then { s with trace := s.trace ++ [.caught (if e = 0 then 99 else e)] } else s
        sEval handler d s
      | r => r                                            -- finally itself threw: propagates

def sRun (p : Prog) : List Ev × Nat × Bool :=
  let (_, s) := sEval p 0 {}
  (s.trace, s.code, !s.top)

/-- no protected block occurs inside a FINALLY body -/
def finallyFree : Prog → Bool
  | .seq p q => finallyFree p && finallyFree q
  | .tryc b h f _ => finallyFree b && finallyFree h && finallyFree f && noTry f
  | _ => true
where
  noTry : Prog → Bool
    | .seq p q => noTry p && noTry q
    | .tryc _ _ _ _ => false
    | _ => true

end Relic.Model.Err
