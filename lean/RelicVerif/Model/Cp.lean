/-
Code-shaped models of the C functions of property C06 (src/cp/relic_cp_rsa.c, relic_cp_rabin.c, relic_cp_phpe.c,
src/bn/relic_bn_mxp.c:bn_mxp_crt, src/mpc/relic_mpc_sss.c, relic_mpc_mt.c), on natural numbers: shifts by whole octets are
divisions by powers of 256, `bn_mod_2b` is `%`, the order of the steps, the length bookkeeping (`m_len`, `p_len`) and the
early exits follow the C text.  Executable, no Mathlib.  The theorems relating them to Spec/Cp.lean are in Lemmas/*C06.lean.
-/
import RelicVerif.Spec.Cp

namespace Relic.Model.Cp
open Relic.Spec.Curve (powMod invEuclid)
open Relic.Spec.Cp
open Relic.Spec.Mac (Hash mgf1 xorBytes)

/-! ### bn_mxp_crt -/

/-- the recombination shared by both branches: d = ((t − u) mod p)·qInv mod p; result u + d·q -/
def garner (t u p q qi : Nat) : Nat :=
  let d := (t + (u / p + 1) * p - u) % p
  u + d * qi % p * q

/-- `bn_mxp_crt(d, a, b, c, crt, 0)`: a^b mod p and a^c mod q recombined -/
def mxpCrt (a b c p q qi : Nat) : Nat := garner (powMod a b p) (powMod a c q) p q qi

/-- `bn_mxp_crt(d, a, b, c, crt, 1)`: m_p = L_p(a^b mod p²)·dp mod p, m_q likewise, recombined -/
def mxpCrtL (a b c p q dp dq qi : Nat) : Nat :=
  let t := (powMod a b (p * p) - 1) / p * dp % p
  let u := (powMod a c (q * q) - 1) / q * dq % q
  garner t u p q qi

/-! ### padding removal (RSA_DEC branches of pad_basic / pad_pkcs1 / pad_pkcs2)
Result `some (m, p_len)` = RLC_OK with the reduced integer and the number of padding octets, `none` = RLC_ERR. -/

def byteAt (m i : Nat) : Nat := m / 256 ^ i % 256

/-- `do { p_len++; m_len--; pad = byte(m_len) } while (pad == 0 && m_len > 0)` -/
def basicScan (m : Nat) : Nat → Nat → Nat → Nat × Nat
  | 0, pl, ml => (pl, ml)
  | f + 1, pl, ml =>
    let pl := pl + 1
    let ml := ml - 1
    if byteAt m ml = 0 ∧ ml > 0 then basicScan m f pl ml else (pl, ml)

def padBasicDec (m k : Nat) : Option (Nat × Nat) :=
  if m / 256 ^ (k - 1) ≠ 0 then none else
  let (pl, ml) := basicScan m k 1 (k - 1)
  if byteAt m ml = 0xFF then some (m % 256 ^ (k - pl), pl) else none

/-- `do { m_len--; pad = byte(m_len) } while (pad != 0 && m_len > 0)` -/
def pkcs1Scan (m : Nat) : Nat → Nat → Nat
  | 0, ml => ml
  | f + 1, ml =>
    let ml := ml - 1
    if byteAt m ml ≠ 0 ∧ ml > 0 then pkcs1Scan m f ml else ml

def padPkcs1Dec (m k : Nat) : Option (Nat × Nat) :=
  if m / 256 ^ (k - 1) ≠ 0 then none else
  if byteAt m (k - 2) ≠ 2 then none else
  let ml := pkcs1Scan m k (k - 2)
  -- *p_len = (k - 1) - (m_len - 1); result = (m_len > 0 && (k_len - 3 - m_len) >= 8 ? RLC_OK : RLC_ERR)
  if ml > 0 ∧ k - 3 - ml ≥ 8 then some (m % 256 ^ ml, k - ml) else none

/-- pad_pkcs2, RSA_DEC: the digit-wise xor of the mask (after zero-extension of the trimmed block) is the xor of the integers -/
def padPkcs2Dec (H : Hash) (m k : Nat) : Option (Nat × Nat) :=
  let md := H.outLen
  if m / 256 ^ (k - 1) ≠ 0 then none else
  let ml := k - 1 - md
  let h1 := i2osp (m / 256 ^ ml) md
  let m := m % 256 ^ ml
  let h2 := mgf1 H (i2osp m ml) md
  let seed := xorBytes h1 h2
  let t := os2ip (mgf1 H seed (k - md - 1))
  let m := m ^^^ t
  let ml := ml - md
  let h2 := i2osp (m / 256 ^ ml) md
  let m := m % 256 ^ ml
  -- *p_len = bn_size_bin(m) - 1 (wraps for m = 0: the shifted value is then 0 and the comparison with 1 fails)
  if m = 0 then none else
  let pl := byteLen m - 1
  if h2 = H.h [] ∧ m / 256 ^ pl = 1 then some (m % 256 ^ pl, k - pl) else none

def padDec (H : Hash) (pad : RsaPad) (m k : Nat) : Option (Nat × Nat) :=
  match pad with
  | .basic => padBasicDec m k
  | .pkcs1 => padPkcs1Dec m k
  | .pkcs2 => padPkcs2Dec H m k

/-- cp_rsa_dec: `none` = RLC_ERR -/
def rsaDec (H : Hash) (pad : RsaPad) (crt : Bool) (key : RsaKey) (c : Bytes) (cap : Nat) : Option Bytes :=
  let size := byteLen key.n
  if c.length ≠ size ∨ c.length < pad.overhead H then none else
  let eb := os2ip c
  let eb := if crt then mxpCrt eb key.dp key.dq key.p key.q key.qi else powMod eb key.d key.n
  match padDec H pad eb size with
  | none => none
  | some (m, pl) => if size - pl ≤ cap then some (i2osp m (size - pl)) else none

/-- the encryption block cp_rsa_enc builds before exponentiation; `rnd` = the octets drawn from the generator
    (OAEP: the seed; PKCS#1 v1.5: the non-zero padding string) -/
def rsaEncBlock (H : Hash) (pad : RsaPad) (k : Nat) (msg rnd : Bytes) : Nat :=
  match pad with
  | .basic => 0xFF * 256 ^ msg.length + os2ip msg
  | .pkcs1 => (os2ip ([2] ++ rnd)) * 256 ^ (msg.length + 1) + os2ip msg
  | .pkcs2 =>
    let md := H.outLen
    let db := ((os2ip (H.h []) * 256 ^ (k - 2 * md - 2 - msg.length)) * 256 + 1) * 256 ^ msg.length + os2ip msg
    let t := os2ip (mgf1 H rnd (k - md - 1))
    let m := db ^^^ t
    let h2 := mgf1 H (i2osp m (k - md - 1)) md
    os2ip (xorBytes rnd h2) * 256 ^ (k - md - 1) + m

/-- cp_rsa_enc: `none` = RLC_ERR (length checks as unsigned comparisons are the caller's concern: k ≥ overhead assumed) -/
def rsaEnc (H : Hash) (pad : RsaPad) (key : RsaKey) (msg rnd : Bytes) (cap : Nat) : Option Bytes :=
  let size := byteLen key.n
  if msg.length = 0 ∨ msg.length > size - pad.overhead H then none else
  let eb := powMod (rsaEncBlock H pad size msg rnd) key.e key.n
  if size ≤ cap then some (i2osp eb size) else none

/-! ### Rabin -/

/-- the redundancy test of one candidate: the two low 8-octet words agree -/
def rabinRed (r : Nat) : Bool := r / 2 ^ 64 % 2 ^ 64 == r % 2 ^ 64

/-- `do { size--; pad = byte(size) } while (pad == 0 && size > 0)` -/
def rabinScan (m : Nat) : Nat → Nat → Nat
  | 0, sz => sz
  | f + 1, sz =>
    let sz := sz - 1
    if byteAt m sz = 0 ∧ sz > 0 then rabinScan m f sz else sz

/-- cp_rabin_dec; dp, dq are the Bézout coefficients (signed) with dp·p + dq·q = 1. `none` = RLC_ERR -/
def rabinDec (n p q : Nat) (dp dq : Int) (c : Bytes) (cap : Nat) : Option Bytes :=
  if c.length < 8 then none else
  let ci := os2ip c
  let m0 := powMod ci ((p + 1) / 4) p
  let m1 := powMod ci ((q + 1) / 4) q
  let a : Int := dp * p * m1
  let b : Int := dq * q * m0
  let r0 := ((a + b) % (n : Int)).toNat
  let r1 := ((a - b) % (n : Int)).toNat
  let cands := [r0, n - r0, r1, n - r1]
  match cands.find? rabinRed with
  | none => none
  | some r =>
    let m := r / 2 ^ 64
    let size := byteLen n - 1
    if m / 256 ^ size ≠ 0 then none
    else if m = 0 then none             -- the scan stops at the last octet without meeting the marker
    else
      let sz := rabinScan m size size
      if byteAt m sz ≠ 0xFF then none
      else if sz ≤ cap then some (i2osp (m % 256 ^ sz) sz) else none

/-! ### Paillier -/

/-- cp_phpe_dec, CRT branch -/
def phpeDecCrt (p q dp dq qi c : Nat) : Nat := mxpCrtL c (p - 1) (q - 1) p q dp dq qi

/-- cp_phpe_dec, plain branch: L(c^φ mod n²)·φ⁻¹ mod n -/
def phpeDecPlain (n p q c : Nat) : Nat :=
  let t := (p - 1) * (q - 1)
  (powMod c t (n * n) - 1) / n * invEuclid n (t % n) % n

/-! ### mpc_sss_key: Σ y_i · Π_{m≠i} x_m · (Π_{m≠i} (x_m − x_i))⁻¹ -/

def sssKey (q : Nat) (pts : List (Nat × Nat)) : Nat :=
  let idx := List.range pts.length
  (idx.foldl (fun acc i =>
    let xi := (pts.getD i (0, 0)).1
    let a := idx.foldl (fun a m => if m = i then a else a * (pts.getD m (0, 0)).1 % q) 1
    let b := idx.foldl (fun b m => if m = i then b else b * subMod q (pts.getD m (0, 0)).1 xi % q) 1
    (acc + a * invEuclid q b % q * (pts.getD i (0, 0)).2 % q) % q) 0) % q

end Relic.Model.Cp
