/-
Value-level models of src/bn/relic_bn_gcd.c, relic_bn_lcm.c, relic_bn_inv.c (property C09, class A).
Each function mirrors the loop structure, branches and early exits of the C function; the calls into the
digit layer (bn_add, bn_sub, bn_mul, bn_div_rem = floor division, bn_hlv = magnitude shift, bn_lsh) are
the exact integer operations (proved for the digit models in C01).  No Mathlib.

Data-dependent loops carry a fuel argument; the public functions supply a bound that is proved sufficient
in Lemmas/NtGcd*.lean (the fuel-exhausted arm is unreachable; for the final cofactor-reduction loop of bn_gcd_ext_binar the
fuel |C| + 2 is proved sufficient in Lemmas/NtGcdD.lean).
-/
namespace Relic.Model.NtGcd

/-! ### bn_gcd_basic -/

/-- `while (!bn_is_zero(v)) { c = v; v = u mod v; u = c; }` ; the result is the last `c` (= final u) -/
def gcdBasicLoop : Nat → Nat → Nat → Nat
  | 0, u, _ => u
  | f + 1, u, v => if v = 0 then u else gcdBasicLoop f v (u % v)

def gcdBasic (a b : Int) : Int :=
  if a = 0 then (b.natAbs : Int)
  else if b = 0 then (a.natAbs : Int)
  else (gcdBasicLoop (b.natAbs + 1) a.natAbs b.natAbs : Nat)

/-! ### bn_gcd_ext_basic (bn_gcd_ext_basic_imp + bn_gcd_ext_sign) -/

/-- state (u, v, d, x1, e, y1) of the loop of bn_gcd_ext_basic_imp -/
def extBasicLoop : Nat → Int → Int → Int → Int → Int → Int → Int × Int × Int
  | 0, u, _, d, _, e, _ => (u, d, e)
  | f + 1, u, v, d, x1, e, y1 =>
    if v = 0 then (u, d, e)
    else
      let q := u / v
      let r := u % v
      -- u ← v, v ← r, (d, x1) ← (x1, d − q·x1), (e, y1) ← (y1, e − q·y1)
      extBasicLoop f v r x1 (d - q * x1) y1 (e - q * y1)

/-- bn_gcd_ext_sign: cofactors computed for |a|, |b| are negated for negative operands -/
def extSign (a b : Int) (r : Int × Int × Int) : Int × Int × Int :=
  (r.1, (if a < 0 then -r.2.1 else r.2.1), (if b < 0 then -r.2.2 else r.2.2))

def gcdExtBasicImp (a b : Int) : Int × Int × Int :=
  if a = 0 then ((b.natAbs : Int), 0, 1)
  else if b = 0 then ((a.natAbs : Int), 1, 0)
  else extBasicLoop (b.natAbs + 1) a.natAbs b.natAbs 1 0 0 1

/-- returns (c, d, e) with c = gcd, c = a·d + b·e -/
def gcdExtBasic (a b : Int) : Int × Int × Int := extSign a b (gcdExtBasicImp a b)

/-! ### bn_gcd_dig / bn_gcd_ext_dig (second operand is one digit, b < 2^w: the caller reduces) -/

def gcdDig (a : Int) (b : Nat) : Int :=
  if a = 0 then (b : Int)
  else if b = 0 then (a.natAbs : Int)
  else
    -- bn_mod_dig: the non-negative remainder; then `_u = b; while (_v != 0) { _t = _v; _v = _u % _v; _u = _t; }`
    let v := (a % (b : Int)).toNat
    (gcdBasicLoop (v + 1) b v : Nat)

/-- one multi-precision division step, then the single-digit loop (same recurrences with bn_mul_dig) -/
def gcdExtDigImp (a : Int) (b : Nat) : Int × Int × Int :=
  if a = 0 then ((b : Int), 0, 1)
  else if b = 0 then ((a.natAbs : Int), 1, 0)
  else
    let u : Int := a.natAbs
    let v : Int := b
    let q := u / v
    let r := u % v
    -- after the first step: u = b, v = r, d = x1 = 0, x1 = 1 − q·0 = 1, e = y1 = 1, y1 = 0 − q·1
    extBasicLoop (r.toNat + 1) v r 0 (1 - q * 0) 1 (0 - q * 1)

def gcdExtDig (a : Int) (b : Nat) : Int × Int × Int := extSign a 0 (gcdExtDigImp a b)

/-! ### bn_gcd_binar (Stein) -/

/-- `while (bn_is_even(u)) bn_hlv(u, u);` (only reached with u ≠ 0) -/
def stripTwos : Nat → Nat → Nat
  | 0, n => n
  | f + 1, n => if n ≠ 0 ∧ n % 2 = 0 then stripTwos f (n / 2) else n

def oddPart (n : Nat) : Nat := stripTwos n n

/-- `while (bn_is_even(u) && bn_is_even(v)) { u/=2; v/=2; shift++; }` → (u, v, shift) -/
def commonTwos : Nat → Nat → Nat → Nat → Nat × Nat × Nat
  | 0, u, v, s => (u, v, s)
  | f + 1, u, v, s => if u % 2 = 0 ∧ v % 2 = 0 ∧ (u ≠ 0 ∨ v ≠ 0) then commonTwos f (u / 2) (v / 2) (s + 1) else (u, v, s)

/-- main loop: strip u, strip v, t = |u − v| / 2, replace the larger -/
def binarLoop : Nat → Nat → Nat → Nat
  | 0, _, v => v
  | f + 1, u, v =>
    if u = 0 then v
    else
      let u := oddPart u
      let v := oddPart v
      let t := (if u ≥ v then u - v else v - u) / 2
      if u ≥ v then binarLoop f t v else binarLoop f u t

def gcdBinar (a b : Int) : Int :=
  if a = 0 then (b.natAbs : Int)
  else if b = 0 then (a.natAbs : Int)
  else
    let (u, v, s) := commonTwos (a.natAbs + 1) a.natAbs b.natAbs 0
    ((binarLoop (u + v + 1) u v) <<< s : Nat)

/-! ### bn_gcd_ext_binar -/

/-- bn_hlv on a signed value: the magnitude is shifted (truncation toward zero) -/
def hlv (x : Int) : Int := Int.tdiv x 2

/-- one cofactor halving: `if A, B even: A/2, B/2 else (A + y)/2, (B − x)/2` -/
def halveCof (x y : Int) (A B : Int) : Int × Int :=
  if A % 2 = 0 ∧ B % 2 = 0 then (hlv A, hlv B) else (hlv (A + y), hlv (B - x))

/-- `while (bn_is_even(u)) { u/=2; halve (A,B) }` -/
def extBinarStrip (x y : Int) : Nat → Nat → Int → Int → Nat × Int × Int
  | 0, u, A, B => (u, A, B)
  | f + 1, u, A, B =>
    if u ≠ 0 ∧ u % 2 = 0 then
      let AB := halveCof x y A B
      extBinarStrip x y f (u / 2) AB.1 AB.2
    else (u, A, B)

/-- `while (bn_cmp(u, v) != RLC_EQ) { … }` : state (u, v, A, B, C, D) → (u, C, D) -/
def extBinarMain (x y : Int) : Nat → Nat → Nat → Int → Int → Int → Int → Option (Nat × Int × Int)
  | 0, _, _, _, _, _, _ => none
  | f + 1, u, v, A, B, C, D =>
    if u = v then some (u, C, D)
    else if v % 2 = 0 then
      let CD := halveCof x y C D
      extBinarMain x y f u (v / 2) A B CD.1 CD.2
    else if v < u then extBinarMain x y f v u C D A B
    else extBinarMain x y f u (v - u) A B (C - A) (D - B)

/-- "Now fix reciprocals": `while (!bn_is_zero(_b) && (|d| > |_b| || |_e| > |_a|)) { … }` with _a = x/2, _b = y/2 -/
def extBinarFix (x y hA hB : Int) : Nat → Int → Int → Option (Int × Int)
  | 0, _, _ => none
  | f + 1, C, D =>
    if hB ≠ 0 ∧ (C.natAbs > hB.natAbs ∨ D.natAbs > hA.natAbs) then
      let t0 := C / hB                                  -- bn_div: floor
      let t := if t0.natAbs ≥ 2 then hlv t0 else t0     -- `if (bn_bits(t) > 1) bn_hlv(t, t)`
      let v := x * t
      let u := y * t
      if decide (C < 0) ≠ decide (u < 0) then extBinarFix x y hA hB f (C + u) (D - v)
      else extBinarFix x y hA hB f (C - u) (D + v)
    else some (C, D)

def gcdExtBinarImp (a b : Int) : Option (Int × Int × Int) :=
  if a = 0 then some ((b.natAbs : Int), 0, 1)
  else if b = 0 then some ((a.natAbs : Int), 1, 0)
  else
    let ct := commonTwos (a.natAbs + 1) a.natAbs b.natAbs 0
    let x : Int := ct.1
    let y : Int := ct.2.1
    let st := extBinarStrip x y (ct.1 + 1) ct.1 1 0
    match extBinarMain x y (2 * (st.1 + ct.2.1) + 2) st.1 ct.2.1 st.2.1 st.2.2 0 1 with
    | none => none
    | some (g, C, D) =>
      if g = 0 then none else     -- bn_div by zero would raise; unreachable (g ≥ 1)
      let x' := x / (g : Int)
      let y' := y / (g : Int)
      match extBinarFix x' y' (hlv x') (hlv y') (C.natAbs + 2) C D with
      | none => none
      | some (C', D') => some (((g <<< ct.2.2 : Nat) : Int), C', D')

def gcdExtBinar (a b : Int) : Option (Int × Int × Int) := (gcdExtBinarImp a b).map (extSign a b)

/-! ### bn_lcm (BN_GCD = BASIC: bn_gcd = bn_gcd_basic) -/

/-- none = the division by gcd = 0 is refused (lcm(0, 0)) -/
def lcm (a b : Int) : Option Int :=
  let u := gcdBasic a b
  if u = 0 then none
  else if a.natAbs < b.natAbs then some ((b * (a / u)).natAbs : Int)
  else some ((a * (b / u)).natAbs : Int)

/-! ### bn_mod_inv, bn_mod_inv_sim (bn_gcd_ext = bn_gcd_ext_basic with e = NULL) -/

/-- `bn_gcd_ext(t, c, NULL, a, b); if (c < 0) c += b; if (t != 1) THROW` -/
def modInv (a b : Int) : Option Int :=
  let (t, c, _) := gcdExtBasic a b
  let c := if c < 0 then c + b else c
  if t = 1 then some c else none

/-- Montgomery's trick as coded: the forward loop builds the prefix products c[i] = c[i-1]·a[i] mod b, one inversion,
the backward loop c[i] = u·c[i-1] mod b, u = u·a[i] mod b.  Written as a recursion (forward pass on the way down,
backward pass on the way up): `simGo b cPrev xs` returns (u = inverse of cPrev, the inverses of xs). -/
def simGo (b : Int) (cPrev : Int) : List Int → Option (Int × List Int)
  | [] => (modInv cPrev b).map fun u => (u, [])
  | x :: xs =>
    let c := Int.fmod (cPrev * x) b
    match simGo b c xs with
    | none => none
    | some (u, invs) => some (Int.fmod (u * x) b, Int.fmod (u * cPrev) b :: invs)

/-- bn_mod_inv_sim for n ≥ 1 operands: the list of inverses, none when the product is not invertible -/
def modInvSim (as : List Int) (b : Int) : Option (List Int) :=
  match as with
  | [] => none
  | a0 :: rest => (simGo b a0 rest).map fun r => r.1 :: r.2

end Relic.Model.NtGcd
