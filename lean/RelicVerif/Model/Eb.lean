/-
Model of the point formulas of src/eb/relic_eb_add.c, relic_eb_dbl.c, relic_eb_neg.c, relic_eb_hlv.c, relic_eb_norm.c,
relic_eb_frb.c over a carrier with explicit field operations: one `let` per C statement, same temporaries, same
branches (identity tests, coordinate-system tests, the `opt_a` class of the curve coefficient).
The driver instantiates the operations with GF(2^m) on natural numbers; the theorems of Lemmas/EbFormulas.lean
instantiate them with an arbitrary field of characteristic two. Executable, no Mathlib.
-/
namespace Relic.Model.Eb

structure BOps (F : Type) where
  zero : F
  one : F
  add : F → F → F
  mul : F → F → F
  sqr : F → F
  inv : F → F
  isZero : F → Bool
  /-- fb_slv: a root c of c² + c = a (the one of trace zero) -/
  slv : F → F
  /-- fb_srt -/
  srt : F → F
  /-- fb_trc(a) ≠ 0 -/
  trc : F → Bool

/-- eb_st.coord: BASIC (affine, z = 1), PROJC (López-Dahab: x = X/Z, y = Y/Z²), HALVE (λ-representation (x, x + y/x)) -/
inductive Coord where
  | basic | projc | halve
deriving Repr, DecidableEq, Inhabited

/-- eb_curve_opt_a(): RLC_ZERO, RLC_ONE, RLC_TINY (fits one digit), RLC_HUGE -/
inductive Opt where
  | zero | one | tiny | huge
deriving Repr, DecidableEq, Inhabited

structure Pt (F : Type) where
  x : F
  y : F
  z : F
  coord : Coord

structure CurveB (F : Type) where
  a : F
  b : F
  optA : Opt

variable {F : Type}

def isInfty (o : BOps F) (p : Pt F) : Bool := o.isZero p.z
def infty (o : BOps F) : Pt F := ⟨o.zero, o.zero, o.zero, .basic⟩

/-- `switch (eb_curve_opt_a())` adding the coefficient a: nothing / fb_add_dig 1 / fb_add_dig a[0] / fb_add a -/
def addA (o : BOps F) (cv : CurveB F) (t : F) : F :=
  match cv.optA with
  | .zero => t
  | .one => o.add t o.one
  | .tiny => o.add t cv.a
  | .huge => o.add t cv.a

/-- eb_dbl_basic_imp -/
def dblBasicImp (o : BOps F) (cv : CurveB F) (p : Pt F) : Pt F :=
  let t0 := o.inv p.x
  let t0 := o.mul t0 p.y
  let t0 := o.add t0 p.x
  let t1 := o.sqr t0
  let t2 := o.add t1 t0
  let t2 := addA o cv t2
  let t1 := o.add t2 p.x
  let t1 := o.mul t0 t1
  let rx := t2
  let t1 := o.add t1 rx
  let ry := o.add t1 p.y
  ⟨rx, ry, p.z, .basic⟩

/-- eb_dbl_basic: the identity, and the point of order two (x = 0, vertical tangent), double to the identity -/
def dblBasic (o : BOps F) (cv : CurveB F) (p : Pt F) : Pt F :=
  if isInfty o p || o.isZero p.x then infty o else dblBasicImp o cv p

/-- eb_dbl_projc_imp -/
def dblProjcImp (o : BOps F) (cv : CurveB F) (p : Pt F) : Pt F :=
  let t0 := o.sqr p.x
  let ry := o.add t0 p.y
  let (t1, rz) := if p.coord ≠ .basic then (let t1 := o.mul p.x p.z; (t1, o.sqr t1)) else (p.x, t0)
  let t1 := o.mul t1 ry
  let ry := o.sqr ry
  let rx := o.add t1 ry
  let rx := match cv.optA with
    | .zero => rx
    | .one => o.add rz rx
    | .tiny => o.add (o.mul rz cv.a) rx
    | .huge => o.add (o.mul rz cv.a) rx
  let t1 := o.add t1 rz
  let t0 := o.sqr t0
  let t0 := o.mul t0 rz
  let ry := o.mul t1 rx
  let ry := o.add ry t0
  ⟨rx, ry, rz, .projc⟩

def dblProjc (o : BOps F) (cv : CurveB F) (p : Pt F) : Pt F :=
  if isInfty o p then infty o else dblProjcImp o cv p

/-- eb_add_basic_imp -/
def addBasicImp (o : BOps F) (cv : CurveB F) (p q : Pt F) : Pt F :=
  let t0 := o.add p.y q.y
  let t1 := o.add p.x q.x
  if o.isZero t1 then
    if o.isZero t0 then dblBasic o cv p else infty o
  else
    let t2 := o.inv t1
    let t0 := o.mul t0 t2
    let t2 := o.sqr t0
    let t2 := o.add t2 t0
    let t2 := o.add t2 t1
    let t2 := addA o cv t2
    let t1 := o.add t2 p.x
    let t1 := o.mul t1 t0
    let t1 := o.add t1 t2
    let ry := o.add p.y t1
    ⟨t2, ry, p.z, .basic⟩

def addBasic (o : BOps F) (cv : CurveB F) (p q : Pt F) : Pt F :=
  if isInfty o p then q else if isInfty o q then p else addBasicImp o cv p q

/-- eb_neg_basic -/
def negBasic (o : BOps F) (p : Pt F) : Pt F :=
  if isInfty o p then infty o else ⟨p.x, o.add p.x p.y, p.z, .basic⟩

/-- eb_neg_projc -/
def negProjc (o : BOps F) (p : Pt F) : Pt F :=
  if isInfty o p then infty o
  else if p.coord = .basic then ⟨p.x, o.add p.x p.y, p.z, .basic⟩
  else ⟨p.x, o.add p.y (o.mul p.x p.z), p.z, .projc⟩

/-- eb_sub_basic (the `p == q` pointer test is the caller's alias pattern: `same`) -/
def subBasic (o : BOps F) (cv : CurveB F) (same : Bool) (p q : Pt F) : Pt F :=
  if same then infty o else { addBasic o cv p (negBasic o q) with coord := .basic }

/-- eb_add_projc_mix: q affine -/
def addProjcMix (o : BOps F) (cv : CurveB F) (p q : Pt F) : Pt F :=
  let (t0, t1) :=
    if p.coord ≠ .basic then
      (o.add (o.mul (o.sqr p.z) q.y) p.y, o.add (o.mul p.z q.x) p.x)
    else (o.add p.y q.y, o.add p.x q.x)
  if o.isZero t1 then
    if o.isZero t0 then { dblProjc o cv p with coord := .projc } else { infty o with coord := .projc }
  else
    let (t2, rz, t1) :=
      if p.coord ≠ .basic then
        let t2 := o.mul p.z t1
        let rz := o.sqr t2
        let t1 := o.sqr t1
        (t2, rz, o.add t0 t1)
      else
        let rz := o.sqr t1
        (t1, rz, o.add t0 rz)
    let t3 := o.mul rz q.x
    let t4 := o.add q.x q.y
    let rx := o.sqr t0
    let t1 := match cv.optA with
      | .zero => t1
      | .one => o.add t1 t2
      | .tiny => o.add t1 (o.mul t2 cv.a)
      | .huge => o.add t1 (o.mul cv.a t2)
    let t1 := o.mul t1 t2
    let rx := o.add rx t1
    let t3 := o.add t3 rx
    let t2 := o.mul t0 t2
    let ry := o.add t2 rz
    let ry := o.mul ry t3
    let t0 := o.sqr rz
    let t0 := o.mul t0 t4
    let ry := o.add ry t0
    ⟨rx, ry, rz, .projc⟩

/-- eb_add_projc_imp: mixed addition when q is affine, else the general López-Dahab addition -/
def addProjcImp (o : BOps F) (cv : CurveB F) (p q : Pt F) : Pt F :=
  if q.coord = .basic then addProjcMix o cv p q
  else
    let t0 := o.mul q.x p.z
    let t1 := o.mul p.x q.z
    let t2 := o.add t1 t0
    let t3 := o.sqr t0
    let t4 := o.sqr t1
    let t5 := o.add t3 t4
    let t6 := o.sqr p.z
    let t6 := o.mul t6 q.y
    let t7 := o.sqr q.z
    let t7 := o.mul t7 p.y
    let t3 := o.add t3 t6
    let t4 := o.add t4 t7
    let t6 := o.add t7 t6
    if o.isZero t2 then
      if o.isZero t6 then { dblProjc o cv p with coord := .projc } else { infty o with coord := .projc }
    else
      let t6 := o.mul t6 t2
      let rz := o.mul p.z q.z
      let rz := o.mul t5 rz
      let t4 := o.mul t0 t4
      let t2 := o.mul t1 t6
      let rx := o.mul t1 t3
      let rx := o.add rx t4
      let t7 := o.mul t7 t5
      let ry := o.add t2 t7
      let ry := o.mul ry t5
      let t7 := o.add t6 rz
      let t7 := o.mul t7 rx
      let ry := o.add ry t7
      ⟨rx, ry, rz, .projc⟩

def addProjc (o : BOps F) (cv : CurveB F) (p q : Pt F) : Pt F :=
  if isInfty o p then q else if isInfty o q then p else addProjcImp o cv p q

def subProjc (o : BOps F) (cv : CurveB F) (same : Bool) (p q : Pt F) : Pt F :=
  if same then infty o else addProjc o cv p (negProjc o q)

/-- eb_hlv: p affine (BASIC) or in λ-representation; the result is in λ-representation -/
def hlvImp (o : BOps F) (cv : CurveB F) (p : Pt F) : Pt F :=
  let t := addA o cv p.x
  let l := o.slv t
  let t := if p.coord = .basic then o.add (o.mul l p.x) p.y
    else o.mul (o.add (o.add l p.y) p.x) p.x
  if !(o.trc t) then ⟨o.srt (o.add t p.x), l, o.one, .halve⟩
  else ⟨o.srt t, o.add l o.one, o.one, .halve⟩

/-- eb_hlv: the identity halves to the identity -/
def hlv (o : BOps F) (cv : CurveB F) (p : Pt F) : Pt F :=
  if isInfty o p then infty o else hlvImp o cv p

/-- eb_norm -/
def norm (o : BOps F) (p : Pt F) : Pt F :=
  if isInfty o p then infty o
  else match p.coord with
    | .basic => p
    | .halve => ⟨p.x, o.mul (o.add p.x p.y) p.x, o.one, .basic⟩
    | .projc =>
      let rz := o.inv p.z
      let rx := o.mul p.x rz
      let rz := o.sqr rz
      let ry := o.mul p.y rz
      ⟨rx, ry, o.one, .basic⟩

/-- eb_frb -/
def frb (o : BOps F) (p : Pt F) : Pt F :=
  if isInfty o p then infty o
  else ⟨o.sqr p.x, o.sqr p.y, if p.coord ≠ .basic then o.sqr p.z else o.one, p.coord⟩

end Relic.Model.Eb
