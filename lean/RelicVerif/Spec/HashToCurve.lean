/-
Hashing to elliptic curves, written from the definitions (RFC 9380 terminology; the maps RELIC documents in
src/tmpl/relic_ep_map_tmpl.h and src/ep/relic_ep_map.c):

  hash_to_field (§5.2)            expand_message_xmd, OS2IP, reduction modulo p, L = ceil((ceil(log2 p) + k) / 8)
  sgn0 (§4.1, m = 1)              parity of the canonical representative
  map_to_curve_simple_swu (§6.6.2) with the exceptional case tv1 = 0
  map_to_curve_svdw (§6.6.1)      with the constants c1..c4 defined from Z
  iso_map (§6.6.3 / App. E)       a rational map given by four coefficient lists
  SwiftEC (Chávez-Saab, Rodríguez-Henríquez, Tibouchi) for a = 0, in the X/Y form
  try-and-increment               x, x+1, x+2, … until g(x) is a non-zero square
  clear_cofactor, hash_to_curve   (§3)

The maps are written once over a record of field operations `MapOps F`: the driver instantiates it with arithmetic
modulo p on `Nat` (`natMapOps`), the theorems (Lemmas/MapToCurve.lean) with an arbitrary field. No Mathlib.
-/
import RelicVerif.Spec.Curve
import RelicVerif.Spec.Mac

namespace Relic.Spec.H2C
open Relic.Spec.Curve (Curve Point powMod invEuclid)
open Relic.Spec.Mac (Bytes Hash expandMessageXmd)

/-- field operations + the two oracles of RFC 9380 §4 (`is_square`, `sqrt`) and `sgn0`; `inv0 0 = 0` -/
structure MapOps (F : Type) where
  zero : F
  one : F
  add : F → F → F
  sub : F → F → F
  mul : F → F → F
  neg : F → F
  inv0 : F → F
  isZero : F → Bool
  isSq : F → Bool
  sqrt : F → F
  sgn0 : F → Bool
  ofNat : Nat → F

/-- short Weierstrass curve y² = x³ + a x + b over F -/
structure WCurve (F : Type) where
  a : F
  b : F

section generic
variable {F : Type} (O : MapOps F) (E : WCurve F)

/-- g(x) = x³ + a x + b -/
def g (x : F) : F := O.add (O.add (O.mul (O.mul x x) x) (O.mul E.a x)) E.b

/-- y := CMOV(-y, y, sgn0(u) == sgn0(y)) -/
def fixSign (u y : F) : F := if O.sgn0 u != O.sgn0 y then O.neg y else y

/-- RFC 9380 §6.6.2, map_to_curve_simple_swu(u):
    1. tv1 = inv0(Z² u⁴ + Z u²)   2. x1 = (-B/A)(1 + tv1)   3. if tv1 == 0, x1 = B/(Z A)   4. gx1 = g(x1)
    5. x2 = Z u² x1   6. gx2 = g(x2)   7. if is_square(gx1): (x, y) = (x1, sqrt gx1) else (x2, sqrt gx2)
    8. if sgn0(u) != sgn0(y): y = -y -/
def sswu (Z u : F) : F × F :=
  let zu2 := O.mul Z (O.mul u u)
  let tv1 := O.inv0 (O.add (O.mul zu2 zu2) zu2)
  let x1 := if O.isZero tv1 then O.mul E.b (O.inv0 (O.mul Z E.a))
            else O.mul (O.mul (O.neg E.b) (O.inv0 E.a)) (O.add O.one tv1)
  let gx1 := g O E x1
  let x2 := O.mul zu2 x1
  let gx2 := g O E x2
  let xy := if O.isSq gx1 then (x1, O.sqrt gx1) else (x2, O.sqrt gx2)
  (xy.1, fixSign O u xy.2)

/-- the constants of §6.6.1: c1 = g(Z), c2 = -Z/2, c3 = sqrt(-g(Z)(3Z² + 4A)) with sgn0(c3) = 0, c4 = -4 g(Z)/(3Z² + 4A) -/
structure SvdwConst (F : Type) where
  c1 : F
  c2 : F
  c3 : F
  c4 : F

def svdwConst (Z : F) : SvdwConst F :=
  let gz := g O E Z
  let two := O.add O.one O.one
  let three := O.add two O.one
  let four := O.add two two
  let d := O.add (O.mul three (O.mul Z Z)) (O.mul four E.a)
  let r := O.sqrt (O.mul (O.neg gz) d)
  { c1 := gz
    c2 := O.mul (O.neg Z) (O.inv0 two)
    c3 := if O.sgn0 r then O.neg r else r
    c4 := O.mul (O.mul (O.neg four) gz) (O.inv0 d) }

/-- RFC 9380 §6.6.1, map_to_curve_svdw(u), steps 1–19 (step numbers of the RFC in the names) -/
def svdwWith (K : SvdwConst F) (Z u : F) : F × F :=
  let tv1 := O.mul (O.mul u u) K.c1
  let tv2 := O.add O.one tv1
  let tv1' := O.sub O.one tv1
  let tv3 := O.inv0 (O.mul tv1' tv2)
  let tv4 := O.mul (O.mul (O.mul u tv1') tv3) K.c3
  let x1 := O.sub K.c2 tv4
  let x2 := O.add K.c2 tv4
  let t := O.mul (O.mul tv2 tv2) tv3
  let x3 := O.add (O.mul (O.mul t t) K.c4) Z
  let x := if O.isSq (g O E x1) then x1 else if O.isSq (g O E x2) then x2 else x3
  (x, fixSign O u (O.sqrt (g O E x)))

def svdw (Z u : F) : F × F := svdwWith O E (svdwConst O E Z) Z u

/-- SwiftEC for a = 0 (the parametrisation of the conic X² + 3u²·… in its X/Y form, as in the SwiftEC paper §3 and in
    the widely used XSwiftEC formulation): for (u, t) with u ≠ 0, t ≠ 0, u³ + b + t² ≠ 0,
      X = (u³ + b − t²)/(2t),  Y = (X + t)/(u·√−3),
      x1 = (X/Y − u)/2,  x2 = (−X/Y − u)/2 = −u − x1,  x3 = u + 4Y²;
    at least one of them is an abscissa of the curve; RELIC prefers x3, then x2, then x1.
    `none` = the exceptional parameters (RELIC documents the point at infinity for them).
    The ordinate is the square root whose parity is the complement of the bit `s`. -/
def swiftX (sm3 u t : F) : Option F :=
  let two := O.add O.one O.one
  let u3b := O.add (O.mul (O.mul u u) u) E.b
  let t2 := O.mul t t
  let den := O.mul (O.mul (O.mul two t) (O.mul u sm3)) (O.add u3b t2)
  if O.isZero den then none else
  let X := O.mul (O.sub u3b t2) (O.inv0 (O.mul two t))
  let Y := O.mul (O.add X t) (O.inv0 (O.mul u sm3))
  let r := O.mul X (O.inv0 Y)
  let h := O.inv0 two
  let x1 := O.mul (O.sub r u) h
  let x2 := O.mul (O.sub (O.neg r) u) h
  let x3 := O.add u (O.mul (O.add (O.add O.one O.one) two) (O.mul Y Y))
  some (if O.isSq (g O E x3) then x3 else if O.isSq (g O E x2) then x2 else x1)

def swift (sm3 u t : F) (s : Bool) : Option (F × F) :=
  match swiftX O E sm3 u t with
  | none => none
  | some x =>
    let y := O.sqrt (g O E x)
    some (x, if O.sgn0 y == s then O.neg y else y)

/-- value of the polynomial Σ cᵢ xⁱ (coefficients in ascending order) -/
def polyEval (cs : List F) (x : F) : F := cs.foldr (fun c acc => O.add c (O.mul acc x)) O.zero

/-- iso_map: (x, y) ↦ (xn(x)/xd(x), y · yn(x)/yd(x)); `none` where a denominator vanishes (the kernel of the isogeny) -/
structure Iso (F : Type) where
  xn : List F
  xd : List F
  yn : List F
  yd : List F

def isoMap (I : Iso F) (xy : F × F) : Option (F × F) :=
  let dx := polyEval O I.xd xy.1
  let dy := polyEval O I.yd xy.1
  if O.isZero dx || O.isZero dy then none else
  some (O.mul (polyEval O I.xn xy.1) (O.inv0 dx), O.mul xy.2 (O.mul (polyEval O I.yn xy.1) (O.inv0 dy)))

end generic

/-! ### arithmetic modulo p on `Nat` -/

/-- p − 1 = q · 2^s with q odd -/
def twoAdic (n : Nat) : Nat × Nat :=
  let rec go (fuel q s : Nat) : Nat × Nat :=
    match fuel with
    | 0 => (q, s)
    | f + 1 => if q % 2 = 0 ∧ q ≠ 0 then go f (q / 2) (s + 1) else (q, s)
  go (Nat.log2 n + 1) n 0

def isSqMod (p a : Nat) : Bool := a % p == 0 || powMod a ((p - 1) / 2) p == 1

/-- a square root modulo an odd prime (Tonelli–Shanks; exponentiation when p ≡ 3 mod 4); meaningful for squares -/
def sqrtMod (p a : Nat) : Nat :=
  let a := a % p
  if a = 0 then 0 else
  if p % 4 = 3 then powMod a ((p + 1) / 4) p else
  let (q, s) := twoAdic (p - 1)
  -- least quadratic non-residue
  let rec nonRes (fuel z : Nat) : Nat :=
    match fuel with
    | 0 => z
    | f + 1 => if isSqMod p z then nonRes f (z + 1) else z
  let z := nonRes 1000 2
  -- least i with t^(2^i) = 1
  let rec ordLog (fuel t i : Nat) : Nat :=
    match fuel with
    | 0 => i
    | f + 1 => if t = 1 then i else ordLog f (t * t % p) (i + 1)
  let rec loop (fuel m c t r : Nat) : Nat :=
    match fuel with
    | 0 => r
    | f + 1 =>
      if t = 1 then r else
      let i := ordLog m t 0
      let bexp := 2 ^ (m - i - 1)
      let b := powMod c bexp p
      loop f i (b * b % p) (t * (b * b % p) % p) (r * b % p)
  loop (s + 1) s (powMod z q p) (powMod a q p) (powMod a ((q + 1) / 2) p)

def natMapOps (p : Nat) : MapOps Nat where
  zero := 0
  one := 1 % p
  add a b := (a + b) % p
  sub a b := (a + p - b % p) % p
  mul a b := (a * b) % p
  neg a := (p - a % p) % p
  inv0 a := invEuclid p a
  isZero a := a % p == 0
  isSq a := isSqMod p a
  sqrt a := sqrtMod p a
  sgn0 a := a % p % 2 == 1
  ofNat n := n % p

/-! ### hash_to_field, try-and-increment, the compositions -/

/-- OS2IP: big-endian -/
def os2ip (b : Bytes) : Nat := b.foldl (fun acc x => acc * 256 + x.toNat) 0

/-- L = ceil((ceil(log2 p) + k) / 8) -/
def fieldLen (p k : Nat) : Nat := (Nat.log2 (p - 1) + 1 + k + 7) / 8

/-- the i-th field element of a uniform byte string: OS2IP of the i-th block of L bytes, reduced -/
def fieldElem (p L : Nat) (uniform : Bytes) (i : Nat) : Nat := os2ip ((uniform.drop (L * i)).take L) % p

/-- hash_to_field(msg, count) for m = 1 (prime field) -/
def hashToField (H : Hash) (p k : Nat) (msg dst : Bytes) (count : Nat) : Option (List Nat) :=
  let L := fieldLen p k
  (expandMessageXmd H msg dst (count * L)).map fun uniform => (List.range count).map (fieldElem p L uniform)

def toPoint (xy : Nat × Nat) : Point := some xy

/-- clear_cofactor(P) = h · P -/
def clearCofactor (c : Curve) (h : Nat) (P : Point) : Point := Curve.mulNat c P h

/-- hash_to_curve from the two field elements: Q0 = map(u0), Q1 = map(u1), R = Q0 + Q1, P = clear_cofactor(R) -/
def fromTwo (c : Curve) (h : Nat) (map : Nat → Point) (u0 u1 : Nat) : Point :=
  clearCofactor c h (Curve.add c (map u0) (map u1))

/-- try-and-increment: the first x in x0, x0+1, … (mod p) for which g(x) is a non-zero square; fuel p visits every residue -/
def tryIncrement (p a b : Nat) : Nat → Nat → Option Nat
  | 0, _ => none
  | fuel + 1, x =>
    let gx := (x * x % p * x + a * x + b) % p
    if gx ≠ 0 ∧ isSqMod p gx then some x else tryIncrement p a b fuel ((x + 1) % p)

end Relic.Spec.H2C
