/-
Twisted Edwards curves a·x² + y² = 1 + d·x²·y² over Z/pZ: the affine addition law of Bernstein–Birkner–Joye–Lange–Peters
("Twisted Edwards curves", 2008), written from the definition. For a a square and d a non-square in Z/pZ the law is
complete (the denominators never vanish on curve points): no exceptional cases, the neutral element (0, 1) is an
ordinary affine point. Executable, no Mathlib.

Also here: the points of small order (the curve of the library has cofactor 8), square roots in Z/pZ, and the
hash-to-curve construction of RFC 9380 for edwards25519 (hash_to_field with expand_message_xmd, Elligator 2 on
curve25519, the birational map to the Edwards model, cofactor clearing).
-/
import RelicVerif.Spec.Curve
import RelicVerif.Spec.Mac

namespace Relic.Spec.Edwards
open Relic.Spec.Curve (powMod invEuclid)

structure Curve where
  p : Nat
  a : Nat
  d : Nat
deriving Repr

/-- affine point; the neutral element is (0, 1) -/
abbrev Point := Nat × Nat

def fsub (c : Curve) (x y : Nat) : Nat := (x + c.p - y % c.p) % c.p
def finv (c : Curve) (x : Nat) : Nat := invEuclid c.p x

def neutral (c : Curve) : Point := (0, 1 % c.p)

/-- a·x² + y² = 1 + d·x²·y², coordinates reduced -/
def onCurve (c : Curve) : Point → Bool
  | (x, y) =>
    x < c.p && y < c.p &&
      (c.a * (x * x % c.p) + y * y) % c.p == (1 + c.d * (x * x % c.p) % c.p * (y * y % c.p)) % c.p

/-- −(x, y) = (−x, y) -/
def neg (c : Curve) : Point → Point
  | (x, y) => ((c.p - x % c.p) % c.p, y % c.p)

/-- (x1,y1) + (x2,y2) = ((x1 y2 + y1 x2)/(1 + d x1 x2 y1 y2), (y1 y2 − a x1 x2)/(1 − d x1 x2 y1 y2)).
    Both quotients are taken with one field inversion: with t = d x1 x2 y1 y2 and i = 1/((1 + t)(1 − t)),
    1/(1 + t) = (1 − t)·i and 1/(1 − t) = (1 + t)·i. -/
def add (c : Curve) : Point → Point → Point
  | (x1, y1), (x2, y2) =>
    let t := c.d * (x1 * x2 % c.p) % c.p * (y1 * y2 % c.p) % c.p
    let i := finv c ((1 + t) % c.p * fsub c 1 t % c.p)
    let x3 := (x1 * y2 + y1 * x2) % c.p * (fsub c 1 t * i % c.p) % c.p
    let y3 := fsub c (y1 * y2) (c.a * (x1 * x2 % c.p)) * ((1 + t) % c.p * i % c.p) % c.p
    (x3, y3)

def dbl (c : Curve) (p : Point) : Point := add c p p
def sub (c : Curve) (p q : Point) : Point := add c p (neg c q)

/-- [k]P by double-and-add -/
def mulNat (c : Curve) (p : Point) (k : Nat) : Point :=
  let rec go (fuel : Nat) (k : Nat) (base acc : Point) : Point :=
    match fuel with
    | 0 => acc
    | f + 1 => if k = 0 then acc else go f (k / 2) (dbl c base) (if k % 2 = 1 then add c acc base else acc)
  go (Nat.log2 k + 2) k p (neutral c)

def mul (c : Curve) (p : Point) (k : Int) : Point :=
  if k < 0 then neg c (mulNat c p k.natAbs) else mulNat c p k.toNat

/-- Euler's criterion (p an odd prime): x is a square modulo p -/
def isSquare (p x : Nat) : Bool := x % p == 0 || powMod x ((p - 1) / 2) p == 1

/-- a square root modulo an odd prime p (Tonelli–Shanks), `none` when x is not a square. The result is checked before it is
    returned, so `some r` always satisfies r² ≡ x. -/
def sqrtMod (p x : Nat) : Option Nat :=
  let x := x % p
  if x == 0 then some 0 else
  if !(isSquare p x) then none else
  -- p − 1 = q·2^s, q odd
  let rec split (fuel q s : Nat) : Nat × Nat :=
    match fuel with
    | 0 => (q, s)
    | f + 1 => if q % 2 == 0 then split f (q / 2) (s + 1) else (q, s)
  let (q, s) := split (Nat.log2 p + 1) (p - 1) 0
  -- a non-residue
  let z := ((List.range 200).find? fun z => z ≥ 2 && !(isSquare p z)).getD 2
  let rec loop (fuel m cc t r : Nat) : Nat :=
    match fuel with
    | 0 => r
    | f + 1 =>
      if t == 1 then r else
      -- least i with t^(2^i) = 1
      let i := ((List.range m).find? fun i => powMod t (2 ^ i) p == 1).getD 0
      let b := powMod cc (2 ^ (m - i - 1)) p
      loop f i (b * b % p) (t * (b * b % p) % p) (r * b % p)
  let r := loop (s + 2) s (powMod z q p) (powMod x q p) (powMod x ((q + 1) / 2) p)
  if r * r % p == x then some r else none

/-! ### points of small order (cofactor 8: the torsion subgroup E[8] is cyclic of order 8 on the library's curve) -/

/-- the point of order 2 -/
def order2 (c : Curve) : Point := (0, c.p - 1)

/-- the two points of order 4: y = 0, a·x² = 1 -/
def order4 (c : Curve) : List Point :=
  match sqrtMod c.p (finv c c.a) with
  | some x => if x == 0 then [] else [(x, 0), ((c.p - x) % c.p, 0)]
  | none => []

/-- the points of order 8 are the halves of the points of order 4; on the curve they satisfy a·x² = y² (so that doubling
    gives y = 0), hence 2·a·x² = 1 + d·a·x⁴/… — computed here by search over the four candidates x = ±sqrt(s), y = ±sqrt(a)·x
    with s a root of d·a·s² − 2·a·s + 1 = 0 -/
def order8 (c : Curve) : List Point :=
  -- a x² = y² and a x² + y² = 1 + d x² y²  ⇒  2 a s = 1 + d a s²  with s = x²
  let p := c.p
  let da := c.d * c.a % p
  let disc := fsub c (c.a * c.a) da          -- (2a)² − 4·da = 4(a² − da)
  match sqrtMod p disc with
  | none => []
  | some rt =>
    let inv := finv c da
    let ss := [(c.a + rt) % p * inv % p, fsub c c.a rt * inv % p]
    ss.flatMap fun s =>
      match sqrtMod p s, sqrtMod p (c.a * s % p) with
      | some x, some y =>
        if x == 0 then [] else
        [(x, y), (x, (p - y) % p), ((p - x) % p, y), ((p - x) % p, (p - y) % p)].eraseDups
      | _, _ => []

/-- order of a point of the 8-torsion (0 if the point is not killed by 8) -/
def smallOrder (c : Curve) (q : Point) : Nat :=
  let n := neutral c
  if q == n then 1
  else if dbl c q == n then 2
  else if dbl c (dbl c q) == n then 4
  else if dbl c (dbl c (dbl c q)) == n then 8
  else 0

/-! ### hashing to the curve: RFC 9380, suite edwards25519_XMD:<H>_ELL2_RO_ (the hash is the library's MD_MAP) -/

abbrev Bytes := List UInt8

def os2ip (b : Bytes) : Nat := b.foldl (fun acc x => acc * 256 + x.toNat) 0

/-- sgn0 for m = 1: the parity of the canonical representative -/
def sgn0 (x : Nat) : Nat := x % 2

/-- RFC 9380 §6.7.1, Elligator 2 on the Montgomery curve K·t² = s³ + J·s² + s with Z a non-square; `none` if a required
    square root does not exist (impossible for a non-square Z). -/
def elligator2 (p J K Z u : Nat) : Option (Nat × Nat) :=
  let inv := invEuclid p
  let sub := fun (x y : Nat) => (x + p - y % p) % p
  let jk := J * inv K % p
  let x1 := sub 0 (jk * inv ((1 + Z * (u * u % p)) % p) % p)
  let x1 := if x1 == 0 then sub 0 jk else x1
  let k2 := inv (K * K % p)
  let g := fun (x : Nat) => (x * x % p * x + jk * (x * x % p) + x * k2) % p
  let gx1 := g x1
  let x2 := sub (sub 0 x1) jk
  let gx2 := g x2
  if isSquare p gx1 then
    (sqrtMod p gx1).map fun y => let y := if sgn0 y == 1 then y else (p - y) % p; (x1 * K % p, y * K % p)
  else
    (sqrtMod p gx2).map fun y => let y := if sgn0 y == 0 then y else (p - y) % p; (x2 * K % p, y * K % p)

/-- RFC 9380 §6.8.2 / appendix D.1: curve25519 (s, t) ↦ edwards25519 (v, w) = (sqrt(−486664)·s/t, (s − 1)/(s + 1)),
    exceptional cases (t = 0 or s = −1) ↦ (0, 1); the constant root is the one with sgn0 = 0 -/
def montToEd25519 (p : Nat) (st : Nat × Nat) : Option Point :=
  let inv := invEuclid p
  let sub := fun (x y : Nat) => (x + p - y % p) % p
  match sqrtMod p (sub 0 486664) with
  | none => none
  | some c1 =>
    let c1 := if sgn0 c1 == 0 then c1 else (p - c1) % p
    let (s, t) := st
    if t % p == 0 || (s + 1) % p == 0 then some (0, 1)
    else some (c1 * s % p * inv t % p, sub s 1 * inv ((s + 1) % p) % p)

/-- hash_to_field (m = 1, count = 2, L = ⌈(⌈log2 p⌉ + k)/8⌉) followed by map_to_curve, addition and clear_cofactor (h = 8) -/
def hashToCurve25519 (c : Curve) (H : Relic.Spec.Mac.Hash) (level : Nat) (msg dst : Bytes) : Option Point :=
  let L := (Nat.log2 c.p + 1 + level + 7) / 8
  match Relic.Spec.Mac.expandMessageXmd H msg dst (2 * L) with
  | none => none
  | some ub =>
    let u0 := os2ip (ub.take L) % c.p
    let u1 := os2ip ((ub.drop L).take L) % c.p
    let m := fun u => (elligator2 c.p 486662 1 2 u).bind (montToEd25519 c.p)
    match m u0, m u1 with
    | some q0, some q1 => some (mulNat c (add c q0 q1) 8)
    | _, _ => none

end Relic.Spec.Edwards
