/-
The Merkle–Damgård construction of FIPS 180-4 (§5.1 padding, §5.2 parsing into blocks, §6 iteration),
generic in the block size `bs` (bytes), the size `lb` of the length field (bytes), the compression
function and the initial hash value. SHA-224/256 are the instance bs = 64, lb = 8; SHA-384/512 the
instance bs = 128, lb = 16 (`Lemmas/ShaStream.lean` proves that the definitions of Spec/Sha256.lean and
Spec/Sha512.lean are these instances). Executable, no Mathlib.
-/
import RelicVerif.Spec.Sha512

namespace Relic.Spec.MD
open Relic.Spec.Sha256 (beBytes)

/-- §5.1: 0x80, then zeros up to (bs − lb) mod bs, then the bit length as an lb-byte big-endian integer -/
def pad (bs lb len : Nat) : List UInt8 :=
  [0x80] ++ List.replicate ((bs - (len + lb + 1) % bs) % bs) 0 ++ beBytes ((8 * len) % 2 ^ (8 * lb)) lb

/-- §5.2: split into bs-byte blocks -/
def blocks (bs : Nat) : Nat → List UInt8 → List (List UInt8)
  | 0, _ => []
  | n + 1, l => if l.isEmpty then [] else l.take bs :: blocks bs n (l.drop bs)

/-- §6: H^(N) -/
def hash {W : Type} (bs lb : Nat) (compress : List W → List UInt8 → List W) (h0 : List W)
    (msg : List UInt8) : List W :=
  let m := msg ++ pad bs lb msg.length
  (blocks bs (m.length / bs + 1) m).foldl compress h0

end Relic.Spec.MD
