/-
Ordinary binary curves y² + xy = x³ + a x² + b over GF(2^m): the affine group law written from the textbook
definition (Hankerson–Menezes–Vanstone, Guide to ECC, §3.1.2), with every exceptional case. Executable, no Mathlib.
-/
import RelicVerif.Spec.Gf2

namespace Relic.Spec.BinCurve
open Relic.Spec.Gf2

structure Curve where
  F : Field
  a : Nat
  b : Nat
deriving Repr

/-- none = the point at infinity -/
abbrev Point := Option (Nat × Nat)

def onCurve (c : Curve) : Point → Bool
  | none => true
  | some (x, y) =>
    c.F.isElem x && c.F.isElem y &&
      (c.F.sqr y ^^^ c.F.mul x y) == (c.F.mul (c.F.sqr x) x ^^^ c.F.mul c.a (c.F.sqr x) ^^^ c.b)

/-- -(x, y) = (x, x + y) -/
def neg (_ : Curve) : Point → Point
  | none => none
  | some (x, y) => some (x, x ^^^ y)

def add (c : Curve) : Point → Point → Point
  | none, q => q
  | p, none => p
  | some (x1, y1), some (x2, y2) =>
    let F := c.F
    if x1 = x2 then
      -- same x: Q = -P (this includes the point of order two, x = 0, which is its own negative) or Q = P
      if y2 = (x1 ^^^ y1) then none
      else
        -- doubling, x1 ≠ 0: λ = x1 + y1/x1, x3 = λ² + λ + a, y3 = x1² + (λ + 1) x3
        let l := x1 ^^^ F.mul y1 (F.inv x1)
        let x3 := F.sqr l ^^^ l ^^^ c.a
        some (x3, F.sqr x1 ^^^ F.mul (l ^^^ 1) x3)
    else
      -- λ = (y1 + y2)/(x1 + x2), x3 = λ² + λ + x1 + x2 + a, y3 = λ(x1 + x3) + x3 + y1
      let l := F.mul (y1 ^^^ y2) (F.inv (x1 ^^^ x2))
      let x3 := F.sqr l ^^^ l ^^^ x1 ^^^ x2 ^^^ c.a
      some (x3, F.mul l (x1 ^^^ x3) ^^^ x3 ^^^ y1)

def dbl (c : Curve) (p : Point) : Point := add c p p

/-- [k]P by double-and-add on the bits of k, least significant first -/
def mulNat (c : Curve) (p : Point) (k : Nat) : Point :=
  let rec go (fuel : Nat) (k : Nat) (base acc : Point) : Point :=
    match fuel with
    | 0 => acc
    | f + 1 => if k = 0 then acc else go f (k / 2) (dbl c base) (if k % 2 = 1 then add c acc base else acc)
  go (Nat.log2 k + 2) k p none

def mul (c : Curve) (p : Point) (k : Int) : Point :=
  if k < 0 then neg c (mulNat c p k.natAbs) else mulNat c p k.toNat

/-- the Frobenius map (x, y) ↦ (x², y²) -/
def frb (c : Curve) : Point → Point
  | none => none
  | some (x, y) => some (c.F.sqr x, c.F.sqr y)

end Relic.Spec.BinCurve
