/-
Hashing to binary curves y² + xy = x³ + a x² + b over GF(2^m) = GF(2)[z]/f (C13, eb_map), written from the definitions.
Self-contained minimal arithmetic (elements = `Nat` bit patterns of polynomials over GF(2)); no Mathlib.

  eb_map(msg):  x ← OS2IP(H(msg)) read as a polynomial (the first min(⌈m/8⌉, |H|) bytes of the digest);
                repeat: if x ≠ 0 and Tr((x³ + a x² + b)/x²) = 0, solve λ² + λ = (x³ + a x² + b)/x², y = λ·x, stop;
                        otherwise x ← (x + 1 as an integer) mod 2^m;
                P = h·(x, y).
The quadratic has the two solutions λ and λ + 1 (ordinates y and y + x): the specification admits both; the half-trace
(m odd) is the one the library's fb_slv returns.
-/
import RelicVerif.Spec.Mac

namespace Relic.Spec.H2CBin
open Relic.Spec.Mac (Bytes)

/-- degree of a non-zero polynomial -/
def deg (a : Nat) : Nat := Nat.log2 a

/-- carry-less product (loop over the bits of the second factor) -/
def clmul (a b : Nat) : Nat :=
  let rec go (fuel i acc : Nat) : Nat :=
    match fuel with
    | 0 => acc
    | k + 1 => go k (i + 1) (if b.testBit i then acc ^^^ (a <<< i) else acc)
  go (if b = 0 then 0 else deg b + 1) 0 0

/-- a mod f in GF(2)[z], f = z^m + r: fold the part above z^m down with z^m ≡ r until nothing is left above -/
def pmod (f a : Nat) : Nat :=
  if f ≤ 1 then 0 else
  let m := deg f
  let r := f ^^^ (1 <<< m)
  let rec go (fuel a : Nat) : Nat :=
    match fuel with
    | 0 => a
    | k + 1 => if a < 2 ^ m then a else go k ((a % 2 ^ m) ^^^ clmul (a >>> m) r)
  go (deg a + 2) a

/-- product in GF(2)[z]/f; the carry-less product is accumulated four bits of b at a time -/
def fmul (f a b : Nat) : Nat :=
  let a2 := a <<< 1
  let a4 := a <<< 2
  let a8 := a <<< 3
  let nib := fun (d : Nat) =>
    (if d % 2 = 1 then a else 0) ^^^ (if d / 2 % 2 = 1 then a2 else 0) ^^^ (if d / 4 % 2 = 1 then a4 else 0) ^^^
      (if d / 8 = 1 then a8 else 0)
  let rec go (fuel b sh acc : Nat) : Nat :=
    match fuel with
    | 0 => acc
    | k + 1 => if b = 0 then acc else go k (b >>> 4) (sh + 4) (acc ^^^ (nib (b % 16) <<< sh))
  pmod f (go (deg b / 4 + 2) b 0 0)

def fsqr (f a : Nat) : Nat := fmul f a a

/-- quotient and remainder of polynomial division -/
def pdivmod (a b : Nat) : Nat × Nat :=
  let db := deg b
  let rec go (fuel q r : Nat) : Nat × Nat :=
    match fuel with
    | 0 => (q, r)
    | k + 1 => if r ≠ 0 ∧ deg r ≥ db then go k (q ^^^ (1 <<< (deg r - db))) (r ^^^ (b <<< (deg r - db))) else (q, r)
  if b = 0 then (0, a) else go (deg a + 1) 0 a

/-- inverse modulo f by the extended Euclidean algorithm (0 ↦ 0) -/
def finv (f a : Nat) : Nat :=
  let rec go (fuel r0 r1 s0 s1 : Nat) : Nat :=
    match fuel with
    | 0 => s0
    | k + 1 => if r1 = 0 then s0 else
      let (q, r) := pdivmod r0 r1
      go k r1 r s1 (s0 ^^^ clmul s1 q)
  let a := pmod f a
  if a = 0 then 0 else pmod f (go (2 * deg f + 4) f a 0 1)

/-- Tr(c) = c + c² + c⁴ + … + c^(2^(m−1)) -/
def trace (f m c : Nat) : Nat :=
  let rec go (k t acc : Nat) : Nat :=
    match k with
    | 0 => acc
    | k + 1 => go k (fsqr f t) (acc ^^^ t)
  go m (pmod f c) 0

/-- half-trace (m odd): H(c) = Σ_{i=0}^{(m−1)/2} c^(4^i); H(c)² + H(c) = c + Tr(c) -/
def halfTrace (f m c : Nat) : Nat :=
  let rec go (k t acc : Nat) : Nat :=
    match k with
    | 0 => acc
    | k + 1 => go k (fsqr f (fsqr f t)) (acc ^^^ t)
  go ((m - 1) / 2 + 1) (pmod f c) 0

structure BCurve where
  m : Nat
  f : Nat
  a : Nat
  b : Nat

abbrev BPoint := Option (Nat × Nat)

def rhs (E : BCurve) (x : Nat) : Nat := fmul E.f (fsqr E.f x) x ^^^ fmul E.f E.a (fsqr E.f x) ^^^ E.b

def onCurve (E : BCurve) : BPoint → Bool
  | none => true
  | some (x, y) => x < 2 ^ E.m && y < 2 ^ E.m && (fsqr E.f y ^^^ fmul E.f x y) == rhs E x

def neg (_E : BCurve) : BPoint → BPoint
  | none => none
  | some (x, y) => some (x, x ^^^ y)

/-- the affine group law of a non-supersingular binary curve -/
def add (E : BCurve) : BPoint → BPoint → BPoint
  | none, q => q
  | p, none => p
  | some (x1, y1), some (x2, y2) =>
    let f := E.f
    if x1 = x2 then
      if y1 = y2 ∧ x1 ≠ 0 then
        let l := x1 ^^^ fmul f y1 (finv f x1)
        let x3 := fsqr f l ^^^ l ^^^ E.a
        some (x3, fsqr f x1 ^^^ fmul f (l ^^^ 1) x3)
      else none
    else
      let l := fmul f (y1 ^^^ y2) (finv f (x1 ^^^ x2))
      let x3 := fsqr f l ^^^ l ^^^ x1 ^^^ x2 ^^^ E.a
      some (x3, fmul f l (x1 ^^^ x3) ^^^ x3 ^^^ y1)

def mulNat (E : BCurve) (p : BPoint) (k : Nat) : BPoint :=
  let rec go (fuel : Nat) (k : Nat) (base acc : BPoint) : BPoint :=
    match fuel with
    | 0 => acc
    | f + 1 => if k = 0 then acc else go f (k / 2) (add E base base) (if k % 2 = 1 then add E acc base else acc)
  go (Nat.log2 k + 2) k p none

/-- the quotient the loop tests: (x³ + a x² + b)/x² -/
def quot (E : BCurve) (x : Nat) : Nat := fmul E.f (rhs E x) (finv E.f (fsqr E.f x))

/-- try-and-increment on the integer value of x, modulo 2^m; fuel bounds the search -/
def tryIncrement (E : BCurve) : Nat → Nat → Option Nat
  | 0, _ => none
  | fuel + 1, x =>
    if x ≠ 0 ∧ trace E.f E.m (quot E x) = 0 then some x else tryIncrement E fuel ((x + 1) % 2 ^ E.m)

def os2ip (b : Bytes) : Nat := b.foldl (fun acc x => acc * 256 + x.toNat) 0

end Relic.Spec.H2CBin
