/-
An accelerated evaluator for the scalar multiplications of the specification (Spec/Curve.lean): the same double-and-add,
carried out in Jacobian coordinates (x = X/Z², y = Y/Z³) with the textbook formulas, one inversion at the end.
The affine chord-and-tangent arithmetic of Spec/Curve.lean remains the definition; `Lemmas/CurveFast.lean` proves that
each Jacobian step represents the affine step over any field, and the driver re-evaluates a sample of the lines with the
affine definition (tag `affine-recheck`).  Executable, no Mathlib.
-/
import RelicVerif.Spec.Curve

namespace Relic.Spec.CurveFast
open Relic.Spec.Curve

/-- (X, Y, Z); Z = 0 is the point at infinity -/
structure Jac where
  x : Nat
  y : Nat
  z : Nat
deriving Repr

def Jac.inf : Jac := ⟨1, 1, 0⟩

def ofAffine : Point → Jac
  | none => Jac.inf
  | some (x, y) => ⟨x, y, 1⟩

def toAffine (c : Curve) (j : Jac) : Point :=
  if j.z % c.p = 0 then none else
  let zi := invEuclid c.p j.z
  let zi2 := zi * zi % c.p
  some (j.x * zi2 % c.p, j.y * (zi2 * zi % c.p) % c.p)

/-- field operations modulo p on canonical residues -/
@[inline] def fsub (p x y : Nat) : Nat := (x + (p - y % p)) % p

/-- doubling: S = 4XY², M = 3X² + aZ⁴, X' = M² − 2S, Y' = M(S − X') − 8Y⁴, Z' = 2YZ -/
def jdbl (c : Curve) (j : Jac) : Jac :=
  let p := c.p
  if j.z % p = 0 ∨ j.y % p = 0 then Jac.inf else
  let yy := j.y * j.y % p
  let s := 4 * (j.x * yy % p) % p
  let zz := j.z * j.z % p
  let m := (3 * (j.x * j.x % p) + c.a * (zz * zz % p)) % p
  let x' := fsub p (m * m % p) (2 * s % p)
  let y' := fsub p (m * fsub p s x' % p) (8 * (yy * yy % p) % p)
  ⟨x', y', 2 * (j.y * j.z % p) % p⟩

/-- addition: U₁ = X₁Z₂², U₂ = X₂Z₁², S₁ = Y₁Z₂³, S₂ = Y₂Z₁³, H = U₂ − U₁, R = S₂ − S₁,
    X₃ = R² − H³ − 2U₁H², Y₃ = R(U₁H² − X₃) − S₁H³, Z₃ = HZ₁Z₂ -/
def jadd (c : Curve) (a b : Jac) : Jac :=
  let p := c.p
  if a.z % p = 0 then b else if b.z % p = 0 then a else
  let z1z1 := a.z * a.z % p
  let z2z2 := b.z * b.z % p
  let u1 := a.x * z2z2 % p
  let u2 := b.x * z1z1 % p
  let s1 := a.y * (z2z2 * b.z % p) % p
  let s2 := b.y * (z1z1 * a.z % p) % p
  if u1 = u2 then
    if s1 = s2 then jdbl c a else Jac.inf
  else
  let h := fsub p u2 u1
  let r := fsub p s2 s1
  let hh := h * h % p
  let hhh := hh * h % p
  let v := u1 * hh % p
  let x3 := fsub p (fsub p (r * r % p) hhh) (2 * v % p)
  let y3 := fsub p (r * fsub p v x3 % p) (s1 * hhh % p)
  ⟨x3, y3, h * (a.z * b.z % p) % p⟩

/-- [k]P, the same bit scan as `Curve.mulNat` -/
def jmulNat (c : Curve) (pt : Jac) (k : Nat) : Jac :=
  let rec go (fuel : Nat) (k : Nat) (base acc : Jac) : Jac :=
    match fuel with
    | 0 => acc
    | f + 1 => if k = 0 then acc else go f (k / 2) (jdbl c base) (if k % 2 = 1 then jadd c acc base else acc)
  go (Nat.log2 k + 2) k pt Jac.inf

/-- [k]P for an affine point, result affine -/
def mulNat (c : Curve) (pt : Point) (k : Nat) : Point := toAffine c (jmulNat c (ofAffine pt) k)

/-- [k]P + [m]Q, one final inversion -/
def mulAdd (c : Curve) (pt : Point) (k : Nat) (q : Point) (m : Nat) : Point :=
  toAffine c (jadd c (jmulNat c (ofAffine pt) k) (jmulNat c (ofAffine q) m))

end Relic.Spec.CurveFast
