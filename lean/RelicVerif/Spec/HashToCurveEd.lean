/-
Hashing to the twisted Edwards curve a x² + y² = 1 + d x² y² birationally equivalent to the Montgomery curve
t² = s³ + J s² + s (edwards25519 / curve25519: J = 486662, a = −1, d = −(J − 2)/(J + 2)), written from RFC 9380:

  map_to_curve_elligator2 (§6.7.1, K = 1, Z = 2 for p ≡ 5 mod 8)
  the rational map Montgomery → twisted Edwards of Appendix D.1: (s, t) ↦ (c·s/t, (s − 1)/(s + 1)), c = sqrt(−(J + 2)) with
  sgn0(c) = 0, exceptional points (t = 0 or s = −1) ↦ (0, 1)
  hash_to_curve (§3): P = clear_cofactor(map(u0) + map(u1)), clear_cofactor = multiplication by h (8)

Self-contained affine twisted-Edwards arithmetic on `Nat` modulo p (C13 only; the Edwards group law of the library is C17).
No Mathlib.
-/
import RelicVerif.Spec.HashToCurve

namespace Relic.Spec.H2CEd
open Relic.Spec.H2C

section generic
variable {F : Type} (O : MapOps F)

/-- g(x) = x³ + J x² + x -/
def gM (J x : F) : F := O.add (O.add (O.mul (O.mul x x) x) (O.mul J (O.mul x x))) x

/-- RFC 9380 §6.7.1 (K = 1): 1. x1 = −J·inv0(1 + Z u²)  2. if x1 == 0, x1 = −J  3. gx1 = g(x1)  4. x2 = −x1 − J  5. gx2 = g(x2)
    6. if is_square(gx1): x = x1, y = sqrt(gx1) with sgn0(y) == 1  7. else x = x2, y = sqrt(gx2) with sgn0(y) == 0 -/
def elligator2 (J Z u : F) : F × F :=
  let x1 := O.neg (O.mul J (O.inv0 (O.add O.one (O.mul Z (O.mul u u)))))
  let x1 := if O.isZero x1 then O.neg J else x1
  let gx1 := gM O J x1
  let x2 := O.sub (O.neg x1) J
  let gx2 := gM O J x2
  if O.isSq gx1 then (x1, if O.sgn0 (O.sqrt gx1) then O.sqrt gx1 else O.neg (O.sqrt gx1))
  else (x2, if O.sgn0 (O.sqrt gx2) then O.neg (O.sqrt gx2) else O.sqrt gx2)

/-- Appendix D.1: (s, t) ↦ (c·s/t, (s − 1)/(s + 1)); (0, 1) when a denominator vanishes -/
def montToEd (c : F) (st : F × F) : F × F :=
  if O.isZero st.2 || O.isZero (O.add st.1 O.one) then (O.zero, O.one)
  else (O.mul (O.mul c st.1) (O.inv0 st.2), O.mul (O.sub st.1 O.one) (O.inv0 (O.add st.1 O.one)))

end generic

structure EdCurve where
  p : Nat
  a : Nat
  d : Nat

def edOn (E : EdCurve) (P : Nat × Nat) : Bool :=
  let O := natMapOps E.p
  let x2 := O.mul P.1 P.1
  let y2 := O.mul P.2 P.2
  P.1 < E.p && P.2 < E.p && O.add (O.mul E.a x2) y2 == O.add 1 (O.mul E.d (O.mul x2 y2))

/-- the (complete, for a square and d non-square) addition law of a twisted Edwards curve -/
def edAdd (E : EdCurve) (P Q : Nat × Nat) : Nat × Nat :=
  let O := natMapOps E.p
  let t := O.mul E.d (O.mul (O.mul P.1 Q.1) (O.mul P.2 Q.2))
  (O.mul (O.add (O.mul P.1 Q.2) (O.mul P.2 Q.1)) (O.inv0 (O.add 1 t)),
   O.mul (O.sub (O.mul P.2 Q.2) (O.mul E.a (O.mul P.1 Q.1))) (O.inv0 (O.sub 1 t)))

def edMul (E : EdCurve) (P : Nat × Nat) (k : Nat) : Nat × Nat :=
  let rec go (fuel : Nat) (k : Nat) (base acc : Nat × Nat) : Nat × Nat :=
    match fuel with
    | 0 => acc
    | f + 1 => if k = 0 then acc else go f (k / 2) (edAdd E base base) (if k % 2 = 1 then edAdd E acc base else acc)
  go (Nat.log2 k + 2) k P (0, 1 % E.p)

end Relic.Spec.H2CEd
