/-
SHA-512 and SHA-384 written from FIPS 180-4 (§4.1.3, §4.2.3, §5.1.2, §5.3.4/5.3.5, §6.4), and SHA-224
(§5.3.2, §6.3). Executable, no Mathlib.
-/
import RelicVerif.Spec.Sha256

namespace Relic.Spec.Sha512

def K : Array UInt64 := #[
  0x428a2f98d728ae22, 0x7137449123ef65cd, 0xb5c0fbcfec4d3b2f, 0xe9b5dba58189dbbc,
  0x3956c25bf348b538, 0x59f111f1b605d019, 0x923f82a4af194f9b, 0xab1c5ed5da6d8118,
  0xd807aa98a3030242, 0x12835b0145706fbe, 0x243185be4ee4b28c, 0x550c7dc3d5ffb4e2,
  0x72be5d74f27b896f, 0x80deb1fe3b1696b1, 0x9bdc06a725c71235, 0xc19bf174cf692694,
  0xe49b69c19ef14ad2, 0xefbe4786384f25e3, 0x0fc19dc68b8cd5b5, 0x240ca1cc77ac9c65,
  0x2de92c6f592b0275, 0x4a7484aa6ea6e483, 0x5cb0a9dcbd41fbd4, 0x76f988da831153b5,
  0x983e5152ee66dfab, 0xa831c66d2db43210, 0xb00327c898fb213f, 0xbf597fc7beef0ee4,
  0xc6e00bf33da88fc2, 0xd5a79147930aa725, 0x06ca6351e003826f, 0x142929670a0e6e70,
  0x27b70a8546d22ffc, 0x2e1b21385c26c926, 0x4d2c6dfc5ac42aed, 0x53380d139d95b3df,
  0x650a73548baf63de, 0x766a0abb3c77b2a8, 0x81c2c92e47edaee6, 0x92722c851482353b,
  0xa2bfe8a14cf10364, 0xa81a664bbc423001, 0xc24b8b70d0f89791, 0xc76c51a30654be30,
  0xd192e819d6ef5218, 0xd69906245565a910, 0xf40e35855771202a, 0x106aa07032bbd1b8,
  0x19a4c116b8d2d0c8, 0x1e376c085141ab53, 0x2748774cdf8eeb99, 0x34b0bcb5e19b48a8,
  0x391c0cb3c5c95a63, 0x4ed8aa4ae3418acb, 0x5b9cca4f7763e373, 0x682e6ff3d6b2b8a3,
  0x748f82ee5defb2fc, 0x78a5636f43172f60, 0x84c87814a1f0ab72, 0x8cc702081a6439ec,
  0x90befffa23631e28, 0xa4506cebde82bde9, 0xbef9a3f7b2c67915, 0xc67178f2e372532b,
  0xca273eceea26619c, 0xd186b8c721c0c207, 0xeada7dd6cde0eb1e, 0xf57d4f7fee6ed178,
  0x06f067aa72176fba, 0x0a637dc5a2c898a6, 0x113f9804bef90dae, 0x1b710b35131c471b,
  0x28db77f523047d84, 0x32caab7b40c72493, 0x3c9ebe0a15c9bebc, 0x431d67c49c100d4c,
  0x4cc5d4becb3e42b6, 0x597f299cfc657e2a, 0x5fcb6fab3ad6faec, 0x6c44198c4a475817]

def H0_512 : List UInt64 := [0x6a09e667f3bcc908, 0xbb67ae8584caa73b, 0x3c6ef372fe94f82b, 0xa54ff53a5f1d36f1, 0x510e527fade682d1, 0x9b05688c2b3e6c1f, 0x1f83d9abfb41bd6b, 0x5be0cd19137e2179]
def H0_384 : List UInt64 := [0xcbbb9d5dc1059ed8, 0x629a292a367cd507, 0x9159015a3070dd17, 0x152fecd8f70e5939, 0x67332667ffc00b31, 0x8eb44a8768581511, 0xdb0c2e0d64f98fa7, 0x47b5481dbefa4fa4]

def rotr (x : UInt64) (n : UInt64) : UInt64 := (x >>> n) ||| (x <<< (64 - n))
def ch (x y z : UInt64) : UInt64 := (x &&& y) ^^^ ((~~~ x) &&& z)
def maj (x y z : UInt64) : UInt64 := (x &&& y) ^^^ (x &&& z) ^^^ (y &&& z)
def bsig0 (x : UInt64) : UInt64 := rotr x 28 ^^^ rotr x 34 ^^^ rotr x 39
def bsig1 (x : UInt64) : UInt64 := rotr x 14 ^^^ rotr x 18 ^^^ rotr x 41
def ssig0 (x : UInt64) : UInt64 := rotr x 1 ^^^ rotr x 8 ^^^ (x >>> 7)
def ssig1 (x : UInt64) : UInt64 := rotr x 19 ^^^ rotr x 61 ^^^ (x >>> 6)

def be64 (blk : List UInt8) (o : Nat) : UInt64 :=
  (List.range 8).foldl (fun acc i => (acc <<< 8) ||| (blk.getD (o + i) 0).toUInt64) 0

def schedule (blk : List UInt8) : Array UInt64 :=
  let w0 := (List.range 16).foldl (fun w t => w.push (be64 blk (8 * t))) #[]
  (List.range 64).foldl (fun w i =>
    let t := i + 16
    w.push (ssig1 (w.getD (t-2) 0) + w.getD (t-7) 0 + ssig0 (w.getD (t-15) 0) + w.getD (t-16) 0)) w0

structure Regs where
  a : UInt64
  b : UInt64
  c : UInt64
  d : UInt64
  e : UInt64
  f : UInt64
  g : UInt64
  h : UInt64

def compress (hs : List UInt64) (blk : List UInt8) : List UInt64 :=
  let w := schedule blk
  let r0 : Regs := ⟨hs.getD 0 0, hs.getD 1 0, hs.getD 2 0, hs.getD 3 0, hs.getD 4 0, hs.getD 5 0, hs.getD 6 0, hs.getD 7 0⟩
  let r := (List.range 80).foldl (fun (r : Regs) t =>
    let t1 := r.h + bsig1 r.e + ch r.e r.f r.g + K.getD t 0 + w.getD t 0
    let t2 := bsig0 r.a + maj r.a r.b r.c
    ⟨t1 + t2, r.a, r.b, r.c, r.d + t1, r.e, r.f, r.g⟩) r0
  [r0.a + r.a, r0.b + r.b, r0.c + r.c, r0.d + r.d, r0.e + r.e, r0.f + r.f, r0.g + r.g, r0.h + r.h]

open Relic.Spec.Sha256 (beBytes)

/-- §5.1.2: 0x80, zeros up to 112 mod 128, 128-bit big-endian bit length -/
def pad (len : Nat) : List UInt8 :=
  let z := (128 - (len + 17) % 128) % 128
  [0x80] ++ List.replicate z 0 ++ beBytes ((8 * len) % 2 ^ 128) 16

def blocks : Nat → List UInt8 → List (List UInt8)
  | 0, _ => []
  | n + 1, l => if l.isEmpty then [] else l.take 128 :: blocks n (l.drop 128)

def wordBytes (w : UInt64) : List UInt8 := (List.range 8).map fun i => (w >>> (UInt64.ofNat (56 - 8 * i))).toUInt8

def digestBytes (hs : List UInt64) : List UInt8 := hs.flatMap wordBytes

def hashWith (h0 : List UInt64) (msg : List UInt8) : List UInt8 :=
  let m := msg ++ pad msg.length
  digestBytes ((blocks (m.length / 128 + 1) m).foldl compress h0)

def sha512 (msg : List UInt8) : List UInt8 := hashWith H0_512 msg
def sha384 (msg : List UInt8) : List UInt8 := (hashWith H0_384 msg).take 48

end Relic.Spec.Sha512

namespace Relic.Spec.Sha256

def H0_224 : List UInt32 :=
  [0xc1059ed8, 0x367cd507, 0x3070dd17, 0xf70e5939, 0xffc00b31, 0x68581511, 0x64f98fa7, 0xbefa4fa4]

def sha224 (msg : List UInt8) : List UInt8 :=
  let m := msg ++ pad msg.length
  (digestBytes ((blocks (m.length / 64 + 1) m).foldl compress H0_224)).take 28

end Relic.Spec.Sha256
