/-
Short Weierstrass curves y² = x³ + a x + b over Z/pZ, affine chord-and-tangent arithmetic written from the
textbook definition (the group law Mathlib's WeierstrassCurve.Affine.Point formalises). Executable, no Mathlib.
-/
namespace Relic.Spec.Curve

structure Curve where
  p : Nat
  a : Nat
  b : Nat
deriving Repr

/-- none = the point at infinity -/
abbrev Point := Option (Nat × Nat)

def powMod (a e m : Nat) : Nat :=
  let rec go (fuel : Nat) (a e acc : Nat) : Nat :=
    match fuel with
    | 0 => acc
    | f + 1 => if e = 0 then acc else go f (a * a % m) (e / 2) (if e % 2 = 1 then acc * a % m else acc)
  go (Nat.log2 e + 2) (a % m) e (1 % m)

/-- modular inverse by the extended Euclidean algorithm (0 ↦ 0); for prime p this is x^(p-2) mod p -/
def invEuclid (m x : Nat) : Nat :=
  let rec go (fuel : Nat) (r0 r1 : Nat) (s0 s1 : Int) : Int :=
    match fuel with
    | 0 => s0
    | f + 1 => if r1 = 0 then s0 else go f r1 (r0 % r1) s1 (s0 - (r0 / r1 : Nat) * s1)
  ((go (2 * Nat.log2 m + 4) (x % m) m 1 0) % (m : Int)).toNat

def inv (c : Curve) (x : Nat) : Nat := invEuclid c.p x
def sub (c : Curve) (x y : Nat) : Nat := (x + c.p - y % c.p) % c.p

def onCurve (c : Curve) : Point → Bool
  | none => true
  | some (x, y) => x < c.p && y < c.p && (y * y) % c.p == (x * x % c.p * x + c.a * x + c.b) % c.p

def neg (c : Curve) : Point → Point
  | none => none
  | some (x, y) => some (x, (c.p - y) % c.p)

def add (c : Curve) : Point → Point → Point
  | none, q => q
  | p, none => p
  | some (x1, y1), some (x2, y2) =>
    if x1 = x2 then
      if (y1 + y2) % c.p = 0 then none
      else
        -- tangent
        let l := (3 * x1 % c.p * x1 + c.a) % c.p * inv c (2 * y1 % c.p) % c.p
        let x3 := sub c (sub c (l * l % c.p) x1) x2
        some (x3, sub c (l * sub c x1 x3 % c.p) y1)
    else
      let l := sub c y2 y1 * inv c (sub c x2 x1) % c.p
      let x3 := sub c (sub c (l * l % c.p) x1) x2
      some (x3, sub c (l * sub c x1 x3 % c.p) y1)

def dbl (c : Curve) (p : Point) : Point := add c p p

/-- [k]P by double-and-add on |k| -/
def mulNat (c : Curve) (p : Point) (k : Nat) : Point :=
  let rec go (fuel : Nat) (k : Nat) (base acc : Point) : Point :=
    match fuel with
    | 0 => acc
    | f + 1 => if k = 0 then acc else go f (k / 2) (dbl c base) (if k % 2 = 1 then add c acc base else acc)
  go (Nat.log2 k + 2) k p none

def mul (c : Curve) (p : Point) (k : Int) : Point :=
  if k < 0 then neg c (mulNat c p k.natAbs) else mulNat c p k.toNat

end Relic.Spec.Curve
