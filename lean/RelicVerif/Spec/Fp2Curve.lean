/-
Minimal arithmetic on a short Weierstrass curve y² = x³ + a x + b over Fp2 = Fp[u]/(u² − β) (β the quadratic non-residue
of the field context, given as a residue): affine chord-and-tangent law and double-and-add.  Used by the signature
specification (C05) to decide statements about G2 elements — public key = [sk]g2, membership in the order-n subgroup —
without any pairing.  Executable, no Mathlib.
-/
import RelicVerif.Spec.Curve

namespace Relic.Spec.Fp2Curve
open Relic.Spec.Curve (invEuclid)

/-- x0 + x1·u -/
abbrev F2 := Nat × Nat

structure Curve2 where
  p : Nat
  /-- u² = beta (a residue modulo p, e.g. p − 1 for u² = −1) -/
  beta : Nat
  a : F2
  b : F2

variable (c : Curve2)

def fadd (x y : F2) : F2 := ((x.1 + y.1) % c.p, (x.2 + y.2) % c.p)
def fneg (x : F2) : F2 := ((c.p - x.1 % c.p) % c.p, (c.p - x.2 % c.p) % c.p)
def fsub (x y : F2) : F2 := fadd c x (fneg c y)
def fmul (x y : F2) : F2 :=
  ((x.1 * y.1 + c.beta * (x.2 * y.2 % c.p)) % c.p, (x.1 * y.2 + x.2 * y.1) % c.p)
def fsmul (k : Nat) (x : F2) : F2 := (k * x.1 % c.p, k * x.2 % c.p)
/-- 1/(x0 + x1 u) = (x0 − x1 u)/(x0² − β x1²) -/
def finv (x : F2) : F2 :=
  let nrm := (x.1 * x.1 + (c.p - c.beta % c.p) * (x.2 * x.2 % c.p)) % c.p
  let ni := invEuclid c.p nrm
  (x.1 * ni % c.p, (c.p - x.2 % c.p) % c.p * ni % c.p)
def fzero (x : F2) : Bool := x.1 % c.p == 0 && x.2 % c.p == 0

/-- none = the point at infinity -/
abbrev Point2 := Option (F2 × F2)

def onCurve : Point2 → Bool
  | none => true
  | some (x, y) =>
    x.1 < c.p && x.2 < c.p && y.1 < c.p && y.2 < c.p &&
    fmul c y y == fadd c (fadd c (fmul c (fmul c x x) x) (fmul c c.a x)) (fadd c c.b (0, 0))

def neg : Point2 → Point2
  | none => none
  | some (x, y) => some (x, fneg c y)

def add : Point2 → Point2 → Point2
  | none, q => q
  | p, none => p
  | some (x1, y1), some (x2, y2) =>
    if fzero c (fsub c x1 x2) then
      if fzero c (fadd c y1 y2) then none
      else
        let l := fmul c (fadd c (fsmul c 3 (fmul c x1 x1)) c.a) (finv c (fsmul c 2 y1))
        let x3 := fsub c (fsub c (fmul c l l) x1) x2
        some (x3, fsub c (fmul c l (fsub c x1 x3)) y1)
    else
      let l := fmul c (fsub c y2 y1) (finv c (fsub c x2 x1))
      let x3 := fsub c (fsub c (fmul c l l) x1) x2
      some (x3, fsub c (fmul c l (fsub c x1 x3)) y1)

def mulNat (pt : Point2) (k : Nat) : Point2 :=
  let rec go (fuel : Nat) (k : Nat) (base acc : Point2) : Point2 :=
    match fuel with
    | 0 => acc
    | f + 1 => if k = 0 then acc else go f (k / 2) (add c base base) (if k % 2 = 1 then add c acc base else acc)
  go (Nat.log2 k + 2) k pt none

/-- member of the subgroup of order n: on the curve and killed by n (the identity included) -/
def inSubgroup (n : Nat) (pt : Point2) : Bool := onCurve c pt && mulNat c pt n == none

end Relic.Spec.Fp2Curve
