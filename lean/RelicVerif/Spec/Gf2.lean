/-
Polynomial arithmetic over GF(2) and the fields GF(2^m) = GF(2)[z]/(f), written from the definitions.
A polynomial is a natural number: bit i is the coefficient of z^i. Addition is xor, the product is the naive
shift-and-xor sum, reduction is the schoolbook long division by f. Inverse, square root, trace and half-trace are
given by their defining expressions (a^(2^m - 2), a^(2^(m-1)), Σ a^(2^i), Σ a^(2^(2i))). Executable, no Mathlib.
-/
namespace Relic.Spec.Gf2

/-- number of coefficients up to the leading one (degree + 1; 0 for the zero polynomial) -/
def bitLen (a : Nat) : Nat := if a = 0 then 0 else Nat.log2 a + 1

/-- carry-less product: the xor of a·z^i over the set bits i of b -/
def clmul (a b : Nat) : Nat :=
  (List.range (bitLen b)).foldl (fun acc i => if b.testBit i then acc ^^^ (a <<< i) else acc) 0

/-- remainder of the long division by f (degree d = bitLen f - 1): from the top coefficient of a down to z^d,
    a set coefficient z^(d+j) is cancelled by adding f·z^j -/
def pmod (a f : Nat) : Nat :=
  let d := bitLen f - 1
  (List.range (bitLen a - d)).reverse.foldl (fun acc j => if acc.testBit (d + j) then acc ^^^ (f <<< j) else acc) a

structure Field where
  m : Nat
  f : Nat
deriving Repr

namespace Field

/-- what the driver checks of the polynomial reported by the library: degree m, constant term 1 -/
def wellFormed (F : Field) : Bool := bitLen F.f == F.m + 1 && F.f % 2 == 1 && F.m ≥ 2

def isElem (F : Field) (a : Nat) : Bool := bitLen a ≤ F.m

def add (_ : Field) (a b : Nat) : Nat := a ^^^ b
def mul (F : Field) (a b : Nat) : Nat := pmod (clmul a b) F.f
def sqr (F : Field) (a : Nat) : Nat := F.mul a a

/-- a^(2^n) -/
def sqrN (F : Field) : Nat → Nat → Nat
  | 0, a => a
  | n + 1, a => sqrN F n (F.sqr a)

/-- a^e by square-and-multiply, least significant bit first -/
def pow (F : Field) (a e : Nat) : Nat :=
  let rec go (fuel : Nat) (base e acc : Nat) : Nat :=
    match fuel with
    | 0 => acc
    | fuel + 1 => if e = 0 then acc else go fuel (F.sqr base) (e / 2) (if e % 2 = 1 then F.mul acc base else acc)
  go (bitLen e) (pmod a F.f) e (pmod 1 F.f)

/-- Fermat: a^(2^m - 2) = Π_{1 ≤ i < m} a^(2^i) -/
def invFermat (F : Field) (a : Nat) : Nat :=
  ((List.range (F.m - 1)).foldl (fun (st : Nat × Nat) _ => (F.sqr st.1, F.mul st.2 (F.sqr st.1))) (pmod a F.f, pmod 1 F.f)).2

/-- extended Euclidean algorithm on polynomials; only used through `inv`, which checks its answer -/
def invEuclid (F : Field) (a : Nat) : Nat :=
  let rec go (fuel : Nat) (u v g1 g2 : Nat) : Nat :=
    match fuel with
    | 0 => g1
    | fuel + 1 =>
      if u ≤ 1 then g1
      else if bitLen u < bitLen v then go fuel v u g2 g1
      else
        let j := bitLen u - bitLen v
        go fuel (u ^^^ (v <<< j)) v (g1 ^^^ (g2 <<< j)) g2
  pmod (go (4 * bitLen F.f + 8) (pmod a F.f) F.f 1 0) F.f

/-- the inverse: the Euclidean candidate if it satisfies a·c = 1, else the Fermat power (so `inv` is correct whenever
    a^(2^m-2) is, whatever the Euclidean loop does) -/
def inv (F : Field) (a : Nat) : Nat :=
  let c := F.invEuclid a
  if F.mul a c = 1 then c else F.invFermat a

/-- square root: a^(2^(m-1)) -/
def sqrt (F : Field) (a : Nat) : Nat := F.sqrN (F.m - 1) a

/-- Tr(a) = Σ_{i<m} a^(2^i) (an element of GF(2): 0 or 1) -/
def trace (F : Field) (a : Nat) : Nat :=
  ((List.range (F.m - 1)).foldl (fun (st : Nat × Nat) _ => (F.sqr st.1, st.2 ^^^ F.sqr st.1)) (pmod a F.f, pmod a F.f)).2

/-- half-trace for odd m: H(a) = Σ_{i ≤ (m-1)/2} a^(2^(2i)); H(a)² + H(a) = a + Tr(a) -/
def halfTrace (F : Field) (a : Nat) : Nat :=
  ((List.range ((F.m - 1) / 2)).foldl (fun (st : Nat × Nat) _ =>
    let t := F.sqr (F.sqr st.1)
    (t, st.2 ^^^ t)) (pmod a F.f, pmod a F.f)).2

/-- a^(2^b) for b ≥ 0, the 2^(-b)-th root for b < 0 -/
def itr (F : Field) (a : Nat) (b : Int) : Nat :=
  if b ≥ 0 then F.sqrN b.toNat a else F.sqrN ((F.m - 1) * (-b).toNat) a

/-- a^k for an integer exponent (negative: the inverse of a^|k|) -/
def exp (F : Field) (a : Nat) (k : Int) : Nat :=
  if k ≥ 0 then F.pow a k.toNat else F.inv (F.pow a k.natAbs)

end Field

/-! Quadratic extension GF(2^m)[s]/(s² + s + 1) (m odd), elements a0 + a1·s -/
namespace Ext

abbrev El := Nat × Nat

def add (_ : Field) (a b : El) : El := (a.1 ^^^ b.1, a.2 ^^^ b.2)
/-- (a0 + a1 s)(b0 + b1 s) with s² = s + 1 -/
def mul (F : Field) (a b : El) : El :=
  (F.mul a.1 b.1 ^^^ F.mul a.2 b.2, F.mul a.1 b.2 ^^^ F.mul a.2 b.1 ^^^ F.mul a.2 b.2)
def sqr (F : Field) (a : El) : El := mul F a a
def one : El := (1, 0)

def sqrN (F : Field) : Nat → El → El
  | 0, a => a
  | n + 1, a => sqrN F n (sqr F a)

/-- Tr(a) = Σ_{i<2m} a^(2^i) -/
def trace (F : Field) (a : El) : El :=
  ((List.range (2 * F.m - 1)).foldl (fun (st : El × El) _ => (sqr F st.1, add F st.2 (sqr F st.1))) (a, a)).2

end Ext

end Relic.Spec.Gf2
