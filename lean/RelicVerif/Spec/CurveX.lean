/-
Short Weierstrass curves y² = x³ + a·x + b over an extension field given as a tower (Spec/Tower.lean): the affine
chord-and-tangent law, written exactly as in Spec/Curve.lean but over tower elements (flat coefficient vectors).
Used for the twists that carry the second pairing group (C11, C12, C04).  Executable, no Mathlib.
-/
import RelicVerif.Spec.Tower

namespace Relic.Spec.CurveX
open Relic.Spec.Tower

structure CurveX where
  d : Desc
  a : List Nat
  b : List Nat
deriving Repr, Inhabited

/-- affine point or the identity -/
abbrev PointX := Option (List Nat × List Nat)

def inv (c : CurveX) (x : List Nat) : List Nat := (c.d.inv? x).getD c.d.zero

def rhs (c : CurveX) (x : List Nat) : List Nat :=
  c.d.add (c.d.add (c.d.mul (c.d.sqr x) x) (c.d.mul c.a x)) c.b

def onCurve (c : CurveX) : PointX → Bool
  | none => true
  | some (x, y) => c.d.canon x == x && c.d.canon y == y && c.d.eq (c.d.sqr y) (rhs c x)

def neg (c : CurveX) : PointX → PointX
  | none => none
  | some (x, y) => some (x, c.d.canon (c.d.neg y))

def dbl (c : CurveX) : PointX → PointX
  | none => none
  | some (x, y) =>
    if c.d.isZero y then none else
    let three := c.d.ofNat 3
    let two := c.d.ofNat 2
    let l := c.d.mul (c.d.add (c.d.mul three (c.d.sqr x)) c.a) (inv c (c.d.mul two y))
    let x3 := c.d.sub (c.d.sub (c.d.sqr l) x) x
    let y3 := c.d.sub (c.d.mul l (c.d.sub x x3)) y
    some (c.d.canon x3, c.d.canon y3)

def add (c : CurveX) : PointX → PointX → PointX
  | none, q => q
  | p, none => p
  | some (x1, y1), some (x2, y2) =>
    if c.d.eq x1 x2 then
      if c.d.eq y1 y2 then dbl c (some (x1, y1)) else none
    else
      let l := c.d.mul (c.d.sub y2 y1) (inv c (c.d.sub x2 x1))
      let x3 := c.d.sub (c.d.sub (c.d.sqr l) x1) x2
      let y3 := c.d.sub (c.d.mul l (c.d.sub x1 x3)) y1
      some (c.d.canon x3, c.d.canon y3)

/-- double-and-add, least significant bit first -/
def mulNat (c : CurveX) (p : PointX) (k : Nat) : PointX :=
  let rec go (fuel : Nat) (k : Nat) (base acc : PointX) : PointX :=
    match fuel with
    | 0 => acc
    | f + 1 => if k = 0 then acc else
      go f (k / 2) (dbl c base) (if k % 2 = 1 then add c acc base else acc)
  go (Nat.log2 k + 2) k p none

def mul (c : CurveX) (p : PointX) (k : Int) : PointX :=
  if k < 0 then mulNat c (neg c p) k.natAbs else mulNat c p k.natAbs

def canonPt (c : CurveX) : PointX → PointX
  | none => none
  | some (x, y) => some (c.d.canon x, c.d.canon y)

/-- coordinate-wise p-power Frobenius (maps the curve to itself only when a, b are fixed by it) -/
def frobCoords (c : CurveX) : PointX → PointX
  | none => none
  | some (x, y) => some (c.d.canon (c.d.frobenius x), c.d.canon (c.d.frobenius y))

end Relic.Spec.CurveX
