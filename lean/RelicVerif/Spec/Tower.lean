/-
Extension-field towers as iterated polynomial quotient rings  K[X]/(X^k − c)  — the specification side of C10
(and of the later slices that compute over Fp2 / Fp12: curves over Fp2, GT, pairings).

Deliberately naive: an element of a layer is the list of its k coefficients in the layer below, the product is the
schoolbook polynomial product followed by folding modulo X^k − c (lo + X^k·hi ↦ lo + c·hi). No Karatsuba, no
Chung–Hasan, no lazy reduction, no precomputed Frobenius constants: those belong to the model of the C code.

Two presentations of the same definitions:
* `Poly` / `layer`: generic over an operation record `Ops E` of the coefficient ring — the theorems instantiate it with
  a commutative ring (Lemmas/Tower.lean: evaluation at any x with x^k = c is multiplicative, hence the layer is the
  quotient ring);
* `Desc` / `ops`: a tower given at run time (p and, from the top level down, the pairs (degree, constant c)); elements
  are flat coefficient vectors over Z/pZ in the memory order of the library (outermost index first). This is what the
  driver executes.

No Mathlib.
-/
namespace Relic.Spec.Tower

/-- the ring operations a polynomial layer needs from its coefficient ring -/
structure Ops (E : Type) where
  zero : E
  one : E
  add : E → E → E
  neg : E → E
  mul : E → E → E

def Ops.sub {E : Type} (o : Ops E) (a b : E) : E := o.add a (o.neg b)

/-! ### polynomials as coefficient lists (constant term first) -/
namespace Poly
variable {E : Type} (o : Ops E)

def add : List E → List E → List E
  | [], b => b
  | a, [] => a
  | x :: a, y :: b => o.add x y :: add a b

def scale (c : E) (a : List E) : List E := a.map (o.mul c)

def neg (a : List E) : List E := a.map o.neg

/-- schoolbook product -/
def mul : List E → List E → List E
  | [], _ => []
  | x :: a, b => add o (scale o x b) (o.zero :: mul a b)

/-- folding modulo X^k − c: a list longer than k is split as lo + X^k·hi and replaced by lo + c·hi, until at most k
    coefficients remain (`fuel` bounds the number of folds; every fold shortens the list when k > 0) -/
def reduce (k : Nat) (c : E) : Nat → List E → List E
  | 0, l => l
  | fuel + 1, l => if l.length ≤ k then l else reduce k c fuel (add o (l.take k) (scale o c (l.drop k)))

/-- exactly k coefficients -/
def pad (k : Nat) (l : List E) : List E := l ++ List.replicate (k - l.length) o.zero

/-- product in K[X]/(X^k − c) on coefficient lists -/
def mulMod (k : Nat) (c : E) (a b : List E) : List E :=
  pad o k (reduce o k c (a.length + b.length) (mul o a b))

end Poly

/-- the layer K[X]/(X^k − c) over a coefficient ring given by `o` -/
def layer {E : Type} (o : Ops E) (k : Nat) (c : E) : Ops (List E) where
  zero := List.replicate k o.zero
  one := Poly.pad o k [o.one]
  add := Poly.add o
  neg := Poly.neg o
  mul := Poly.mulMod o k c

/-- square-and-multiply, most significant bit first (the value is the n-th power; the order of the multiplications is
    immaterial in a commutative ring) -/
def powAux {E : Type} (o : Ops E) (a : E) : Nat → Nat → E
  | 0, _ => o.one
  | fuel + 1, n =>
    if n = 0 then o.one else
    let h := powAux o a fuel (n / 2)
    let s := o.mul h h
    if n % 2 = 1 then o.mul s a else s

def pow {E : Type} (o : Ops E) (a : E) (n : Nat) : E := powAux o a (Nat.log2 n + 1) n

/-! ### towers given at run time -/

/-- one extension step: adjoin a root of X^deg − nr, `nr` a flat element of the level below -/
structure Level where
  deg : Nat
  nr : List Nat
deriving Repr, BEq, Inhabited

/-- a tower over Z/pZ; `levels` lists the steps from the TOP level down to the first extension -/
structure Desc where
  p : Nat
  levels : List Level
deriving Repr, Inhabited

/-- number of Z/pZ coefficients of an element -/
def dim : List Level → Nat
  | [] => 1
  | l :: ls => l.deg * dim ls

def Desc.dim (d : Desc) : Nat := Tower.dim d.levels

/-- n consecutive chunks of d entries -/
def chunks (d : Nat) : Nat → List Nat → List (List Nat)
  | 0, _ => []
  | n + 1, l => l.take d :: chunks d n (l.drop d)

/-- Z/pZ on singleton lists -/
def baseOps (p : Nat) : Ops (List Nat) where
  zero := [0]
  one := [1 % p]
  add a b := [(a.headD 0 + b.headD 0) % p]
  neg a := [(p - a.headD 0 % p) % p]
  mul a b := [(a.headD 0 * b.headD 0) % p]

/-- the operations of a tower on flat coefficient vectors -/
def ops (p : Nat) : List Level → Ops (List Nat)
  | [] => baseOps p
  | l :: ls =>
    let o := ops p ls
    let lay := layer o l.deg l.nr
    let split := chunks (dim ls) l.deg
    { zero := lay.zero.flatten
      one := lay.one.flatten
      add := fun a b => (lay.add (split a) (split b)).flatten
      neg := fun a => (lay.neg (split a)).flatten
      mul := fun a b => (lay.mul (split a) (split b)).flatten }

def Desc.ops (d : Desc) : Ops (List Nat) := Tower.ops d.p d.levels

/-- the sub-tower below the top level -/
def Desc.below (d : Desc) : Desc := { d with levels := d.levels.drop 1 }

/-- canonical representative: exactly dim coefficients, each reduced modulo p -/
def Desc.canon (d : Desc) (a : List Nat) : List Nat :=
  ((a.take d.dim) ++ List.replicate (d.dim - a.length) 0).map (· % d.p)

def Desc.zero (d : Desc) : List Nat := d.ops.zero
def Desc.one (d : Desc) : List Nat := d.ops.one
def Desc.add (d : Desc) (a b : List Nat) : List Nat := d.ops.add a b
def Desc.neg (d : Desc) (a : List Nat) : List Nat := d.ops.neg a
def Desc.sub (d : Desc) (a b : List Nat) : List Nat := d.ops.sub a b
def Desc.mul (d : Desc) (a b : List Nat) : List Nat := d.ops.mul a b
def Desc.sqr (d : Desc) (a : List Nat) : List Nat := d.ops.mul a a
def Desc.pow (d : Desc) (a : List Nat) (n : Nat) : List Nat := Tower.pow d.ops a n
def Desc.eq (d : Desc) (a b : List Nat) : Bool := d.canon a == d.canon b
def Desc.isZero (d : Desc) (a : List Nat) : Bool := (d.canon a).all (· == 0)
def Desc.isOne (d : Desc) (a : List Nat) : Bool := d.canon a == d.one

/-- an integer (a residue modulo p) as an element of the tower -/
def Desc.ofNat (d : Desc) (n : Nat) : List Nat := (n % d.p) :: List.replicate (d.dim - 1) 0

/-- an element of the sub-tower below the top level as an element of the top level (constant polynomial) -/
def Desc.ofBelow (d : Desc) (a : List Nat) : List Nat := d.canon (a ++ List.replicate (d.dim - a.length) 0)

/-- a ↦ a^p, by definition -/
def Desc.frobenius (d : Desc) (a : List Nat) : List Nat := d.pow a d.p

def Desc.frobeniusPow (d : Desc) (a : List Nat) : Nat → List Nat
  | 0 => d.canon a
  | i + 1 => d.frobenius (Desc.frobeniusPow d a i)

/-- the generator adjoined at the top level (X itself, for a level of degree ≥ 2); the element 1 for the empty tower -/
def Desc.gen (d : Desc) : List Nat :=
  match d.levels with
  | [] => [1 % d.p]
  | _ :: ls => d.canon (List.replicate (Tower.dim ls) 0 ++ [1])

/-- conjugation of a quadratic top level over the level below: a0 + a1·X ↦ a0 − a1·X (identity otherwise) -/
def Desc.conj (d : Desc) (a : List Nat) : List Nat :=
  match d.levels with
  | l :: ls =>
    if l.deg = 2 then
      let n := Tower.dim ls
      let a := d.canon a
      a.take n ++ (Tower.ops d.p ls).neg (a.drop n)
    else d.canon a
  | [] => d.canon a

/-! #### the p-power map through its values on the generators

In a commutative ring of characteristic p the map a ↦ a^p is a ring homomorphism (Lemmas/Tower.lean,
`frobenius_expand`), so (Σ a_j X^j)^p = Σ a_j^p (X^p)^j. `FrobTable` holds X^p for every level (computed with `pow`,
i.e. from the definition); `frobeniusVia` applies the expansion recursively. The driver cross-checks it against
`frobenius` on sampled lines. -/

/-- X^p for each level, top level first; entry i is a flat element of the tower `levels.drop i` -/
abbrev FrobTable := List (List Nat)

def frobTable (p : Nat) : List Level → FrobTable
  | [] => []
  | l :: ls =>
    let d : Desc := { p := p, levels := l :: ls }
    d.pow d.gen p :: frobTable p ls

def Desc.frobTable (d : Desc) : FrobTable := Tower.frobTable d.p d.levels

def frobeniusVia (p : Nat) : List Level → FrobTable → List Nat → List Nat
  | [], _, a => [a.headD 0 % p]
  | _ :: _, [], a => a
  | l :: ls, gp :: tbl, a =>
    let d : Desc := { p := p, levels := l :: ls }
    let cs := chunks (Tower.dim ls) l.deg a
    -- Horner in X^p with the coefficients' own p-th powers
    cs.reverse.foldl (fun acc c => d.add (d.mul acc gp) (d.ofBelow (frobeniusVia p ls tbl c))) d.zero

def Desc.frobeniusVia (d : Desc) (tbl : FrobTable) (a : List Nat) : List Nat :=
  Tower.frobeniusVia d.p d.levels tbl (d.canon a)

def Desc.frobeniusViaPow (d : Desc) (tbl : FrobTable) (a : List Nat) : Nat → List Nat
  | 0 => d.canon a
  | i + 1 => d.frobeniusVia tbl (Desc.frobeniusViaPow d tbl a i)

/-! #### inverse by linear algebra (independent of any tower formula): solve  M_a · x = 1  over Z/pZ by Gauss–Jordan
elimination, M_a the matrix of multiplication by a in the monomial basis. Returns `none` when a is not invertible. -/

def invModP (p x : Nat) : Nat := Tower.pow (baseOps p) [x % p] (p - 2) |>.headD 0

/-- the i-th unit vector -/
def Desc.unit (d : Desc) (i : Nat) : List Nat := (List.range d.dim).map fun j => if j = i then 1 % d.p else 0

/-- rows of the augmented system: row r lists the r-th coordinates of a·e_0 … a·e_{n-1}, then the r-th coordinate of 1 -/
def Desc.mulMatrix (d : Desc) (a : List Nat) : List (List Nat) :=
  let cols := (List.range d.dim).map fun i => d.mul a (d.unit i)
  (List.range d.dim).map fun r => cols.map (fun c => c.getD r 0) ++ [d.one.getD r 0]

def gaussJordan (p n : Nat) (rows : List (List Nat)) : Option (List (List Nat)) :=
  (List.range n).foldlM (fun (m : List (List Nat)) col =>
    -- pivot: a row at or below `col` with a non-zero entry in this column
    match (List.range n).find? (fun r => r ≥ col && (m.getD r []).getD col 0 % p != 0) with
    | none => none
    | some pr =>
      let prow := m.getD pr []
      let inv := invModP p (prow.getD col 0)
      let prow := prow.map fun x => x * inv % p
      let m := (m.set pr (m.getD col [])).set col prow
      some ((List.range n).map fun r =>
        let row := m.getD r []
        if r = col then row else
        let f := row.getD col 0
        if f = 0 then row else (row.zip prow).map fun (x, y) => (x + (p - f * y % p)) % p)) rows

def Desc.inv? (d : Desc) (a : List Nat) : Option (List Nat) :=
  (gaussJordan d.p d.dim (d.mulMatrix (d.canon a))).map fun m => m.map fun row => row.getD d.dim 0

/-! ### text helpers (coefficients as lower-case hex separated by commas, library memory order) -/

def hexDigit? (c : Char) : Option Nat :=
  if '0' ≤ c ∧ c ≤ '9' then some (c.toNat - '0'.toNat)
  else if 'a' ≤ c ∧ c ≤ 'f' then some (c.toNat - 'a'.toNat + 10)
  else if 'A' ≤ c ∧ c ≤ 'F' then some (c.toNat - 'A'.toNat + 10)
  else none

def parseHex? (s : String) : Option Nat :=
  if s.isEmpty then none else
  s.foldl (fun acc c => match acc, hexDigit? c with
    | some a, some d => some (a * 16 + d)
    | _, _ => none) (some 0)

def hexOf (n : Nat) : String := String.ofList (Nat.toDigits 16 n)

/-- "c0,c1,…" with exactly `n` coefficients -/
def parseCoeffs? (n : Nat) (s : String) : Option (List Nat) := do
  let cs ← (s.splitOn ",").mapM parseHex?
  if cs.length = n then some cs else none

def Desc.parse? (d : Desc) (s : String) : Option (List Nat) := (parseCoeffs? d.dim s).map d.canon

def fmtCoeffs (a : List Nat) : String := String.intercalate "," (a.map hexOf)

def Desc.fmt (d : Desc) (a : List Nat) : String := fmtCoeffs (d.canon a)

end Relic.Spec.Tower
