/-
NIST SP 800-90A Rev.1 §10.1.1 Hash_DRBG (no prediction resistance, no additional input), written from
the standard over natural numbers modulo 2^seedlen, generic in the hash function. For SHA-256:
outlen = 32 bytes, seedlen = 440 bits = 55 bytes, max request 2^19 bits = 65536 bytes.
-/
namespace Relic.Spec.HashDrbg

abbrev Bytes := List UInt8

structure Params where
  hash : Bytes → Bytes
  outlen : Nat := 32        -- bytes
  seedlen : Nat := 55       -- bytes
  maxReq : Nat := 65536     -- bytes per request

/-- big-endian: integer to k bytes -/
def i2os (n k : Nat) : Bytes := (List.range k).reverse.map fun i => UInt8.ofNat ((n / 256 ^ i) % 256)

/-- big-endian: bytes to integer -/
def os2i (b : Bytes) : Nat := b.foldl (fun acc x => acc * 256 + x.toNat) 0

/-- §10.3.1 Hash_df: temp = H(counter ‖ no_of_bits ‖ input) for counter = 1 .. len, leftmost n bytes -/
def hashDf (p : Params) (input : Bytes) (n : Nat) : Bytes :=
  let len := (n + p.outlen - 1) / p.outlen
  ((List.range len).flatMap fun i =>
    p.hash ([UInt8.ofNat ((i + 1) % 256)] ++ i2os (8 * n) 4 ++ input)).take n

structure State where
  v : Nat
  c : Nat
  ctr : Nat
deriving Repr, DecidableEq

def modulus (p : Params) : Nat := 256 ^ p.seedlen

/-- §10.1.1.2 instantiate: seed_material = entropy ‖ nonce ‖ personalization (the caller's bytes) -/
def instantiate (p : Params) (seedMaterial : Bytes) : State :=
  let v := os2i (hashDf p seedMaterial p.seedlen)
  let c := os2i (hashDf p ([0x00] ++ i2os v p.seedlen) p.seedlen)
  { v := v, c := c, ctr := 1 }

/-- §10.1.1.3 reseed -/
def reseed (p : Params) (s : State) (entropy : Bytes) : State :=
  let v := os2i (hashDf p ([0x01] ++ i2os s.v p.seedlen ++ entropy) p.seedlen)
  let c := os2i (hashDf p ([0x00] ++ i2os v p.seedlen) p.seedlen)
  { v := v, c := c, ctr := 1 }

/-- §10.1.1.4 Hashgen -/
def hashgen (p : Params) (v : Nat) (n : Nat) : Bytes :=
  let m := (n + p.outlen - 1) / p.outlen
  ((List.range m).flatMap fun i => p.hash (i2os ((v + i) % modulus p) p.seedlen)).take n

/-- §10.1.1.4 generate; none = request refused -/
def generate (p : Params) (s : State) (n : Nat) : Option (Bytes × State) :=
  if n > p.maxReq then none
  else
    let out := hashgen p s.v n
    let h := os2i (p.hash ([0x03] ++ i2os s.v p.seedlen))
    some (out, { v := (s.v + h + s.c + s.ctr) % modulus p, c := s.c, ctr := s.ctr + 1 })

inductive Op where
  | seed (data : Bytes)
  | gen (n : Nat)
deriving Repr

inductive Out where
  | ok (b : Bytes)
  | err
deriving Repr, DecidableEq

/-- run a history; the state is `none` until the first seed -/
def step (p : Params) (s : Option State) : Op → Option State × Out
  | .seed d =>
    if d.isEmpty then (s, .err)
    else match s with
      | none => (some (instantiate p d), .ok [])
      | some st => (some (reseed p st d), .ok [])
  | .gen n =>
    match s with
    | none => (s, .err)
    | some st =>
      match generate p st n with
      | none => (s, .err)
      | some (out, st') => (some st', .ok out)

def run (p : Params) : Option State → List Op → List Out
  | _, [] => []
  | s, op :: ops => let (s', o) := step p s op; o :: run p s' ops

end Relic.Spec.HashDrbg
