/-
AES written from FIPS 197 (§4 GF(2^8) arithmetic, §5.1 Cipher, §5.2 KeyExpansion, §5.3 InvCipher), CBC
mode from SP 800-38A §6.2 and PKCS#7 padding (RFC 5652 §6.3). Executable, no Mathlib.
-/
namespace Relic.Spec.Aes

abbrev Bytes := List UInt8

def xtime (a : UInt8) : UInt8 := if a &&& 0x80 ≠ 0 then (a <<< 1) ^^^ 0x1b else a <<< 1

/-- multiplication in GF(2^8) modulo x^8 + x^4 + x^3 + x + 1 -/
def gmul (a b : UInt8) : UInt8 :=
  ((List.range 8).foldl (fun (st : UInt8 × UInt8) i =>
    let (acc, aa) := st
    (if (b >>> (UInt8.ofNat i)) &&& 1 ≠ 0 then acc ^^^ aa else acc, xtime aa)) (0, a)).1

/-- multiplicative inverse, 0 ↦ 0 -/
def ginv (a : UInt8) : UInt8 :=
  if a = 0 then 0 else
  ((List.range 256).find? (fun y => gmul a (UInt8.ofNat y) = 1)).map UInt8.ofNat |>.getD 0

def rotl8 (x : UInt8) (n : UInt8) : UInt8 := (x <<< n) ||| (x >>> (8 - n))

/-- §5.1.1 SubBytes: affine transformation of the inverse -/
def sboxDef (a : UInt8) : UInt8 :=
  let b := ginv a
  b ^^^ rotl8 b 1 ^^^ rotl8 b 2 ^^^ rotl8 b 3 ^^^ rotl8 b 4 ^^^ 0x63

def sboxTable : Array UInt8 := (Array.range 256).map fun i => sboxDef (UInt8.ofNat i)
def sbox (a : UInt8) : UInt8 := sboxTable.getD a.toNat 0

def invSboxTable : Array UInt8 :=
  (Array.range 256).map fun y => UInt8.ofNat (((List.range 256).find? fun x => sbox (UInt8.ofNat x) = UInt8.ofNat y).getD 0)
def invSbox (a : UInt8) : UInt8 := invSboxTable.getD a.toNat 0

/-- the state is 16 bytes in column-major order: s[r + 4c] = in[r + 4c] -/
def subBytes (s : Bytes) : Bytes := s.map sbox
def invSubBytes (s : Bytes) : Bytes := s.map invSbox

def shiftRows (s : Bytes) : Bytes :=
  (List.range 16).map fun i => let r := i % 4; let c := i / 4; s.getD (r + 4 * ((c + r) % 4)) 0
def invShiftRows (s : Bytes) : Bytes :=
  (List.range 16).map fun i => let r := i % 4; let c := i / 4; s.getD (r + 4 * ((c + 4 - r) % 4)) 0

def mixColumn (m : List UInt8) (col : Bytes) : Bytes :=
  (List.range 4).map fun r =>
    (List.range 4).foldl (fun acc k => acc ^^^ gmul (m.getD ((k + 4 - r) % 4) 0) (col.getD k 0)) 0

def mixColumns (s : Bytes) : Bytes :=
  (List.range 4).flatMap fun c => mixColumn [2, 3, 1, 1] ((s.drop (4 * c)).take 4)
def invMixColumns (s : Bytes) : Bytes :=
  (List.range 4).flatMap fun c => mixColumn [0x0e, 0x0b, 0x0d, 0x09] ((s.drop (4 * c)).take 4)

def addRoundKey (s k : Bytes) : Bytes := List.zipWith (· ^^^ ·) s k

/-- §5.2 KeyExpansion: words as 4-byte lists; returns (Nr + 1) round keys of 16 bytes -/
def rcon (i : Nat) : UInt8 := (List.range (i - 1)).foldl (fun r _ => xtime r) 1

def keyExpansion (key : Bytes) : List Bytes :=
  let nk := key.length / 4
  let nr := nk + 6
  let w0 : Array Bytes := (Array.range nk).map fun i => (key.drop (4 * i)).take 4
  let w := (List.range (4 * (nr + 1) - nk)).foldl (fun (w : Array Bytes) j =>
    let i := j + nk
    let temp := w.getD (i - 1) []
    let temp :=
      if i % nk = 0 then
        let rot := temp.drop 1 ++ temp.take 1
        let sub := rot.map sbox
        List.zipWith (· ^^^ ·) sub [rcon (i / nk), 0, 0, 0]
      else if nk > 6 ∧ i % nk = 4 then temp.map sbox
      else temp
    w.push (List.zipWith (· ^^^ ·) (w.getD (i - nk) []) temp)) w0
  (List.range (nr + 1)).map fun r => (List.range 4).flatMap fun c => w.getD (4 * r + c) []

/-- §5.1 Cipher -/
def cipher (rk : List Bytes) (inp : Bytes) : Bytes :=
  let nr := rk.length - 1
  let s := addRoundKey inp (rk.getD 0 [])
  let s := (List.range (nr - 1)).foldl (fun s r =>
    addRoundKey (mixColumns (shiftRows (subBytes s))) (rk.getD (r + 1) [])) s
  addRoundKey (shiftRows (subBytes s)) (rk.getD nr [])

/-- §5.3 InvCipher -/
def invCipher (rk : List Bytes) (inp : Bytes) : Bytes :=
  let nr := rk.length - 1
  let s := addRoundKey inp (rk.getD nr [])
  let s := (List.range (nr - 1)).foldl (fun s r =>
    invMixColumns (addRoundKey (invSubBytes (invShiftRows s)) (rk.getD (nr - 1 - r) []))) s
  addRoundKey (invSubBytes (invShiftRows s)) (rk.getD 0 [])

/-- PKCS#7: always pads, 1..16 bytes of value padLen -/
def pkcs7Pad (m : Bytes) : Bytes :=
  let p := 16 - m.length % 16
  m ++ List.replicate p (UInt8.ofNat p)

def pkcs7Unpad (m : Bytes) : Option Bytes :=
  match m.getLast? with
  | none => none
  | some p =>
    let n := p.toNat
    if n = 0 ∨ n > 16 ∨ n > m.length then none
    else if (m.drop (m.length - n)).all (· == p) then some (m.take (m.length - n)) else none

def chunks16 : Nat → Bytes → List Bytes
  | 0, _ => []
  | n + 1, l => if l.isEmpty then [] else l.take 16 :: chunks16 n (l.drop 16)

/-- SP 800-38A CBC encryption of whole blocks -/
def cbcEnc (E : Bytes → Bytes) (iv : Bytes) (blocks : List Bytes) : List Bytes :=
  match blocks with
  | [] => []
  | b :: bs => let c := E (addRoundKey b iv); c :: cbcEnc E c bs

def cbcDec (D : Bytes → Bytes) (iv : Bytes) (blocks : List Bytes) : List Bytes :=
  match blocks with
  | [] => []
  | c :: cs => addRoundKey (D c) iv :: cbcDec D c cs

def aesCbcPkcs7Enc (key iv m : Bytes) : Bytes :=
  let rk := keyExpansion key
  let p := pkcs7Pad m
  (cbcEnc (cipher rk) iv (chunks16 (p.length / 16 + 1) p)).flatten

def aesCbcPkcs7Dec (key iv c : Bytes) : Option Bytes :=
  if c.length = 0 ∨ c.length % 16 ≠ 0 then none
  else
    let rk := keyExpansion key
    pkcs7Unpad (cbcDec (invCipher rk) iv (chunks16 (c.length / 16 + 1) c)).flatten

end Relic.Spec.Aes
