/-
HMAC (RFC 2104), MGF1 / KDF2 (PKCS#1 v2.1 B.2.1, IEEE 1363 / ANSI X9.63 counter KDF) and
expand_message_xmd (RFC 9380 §5.3.1), generic in the hash function. Executable, no Mathlib.
-/
namespace Relic.Spec.Mac

abbrev Bytes := List UInt8

structure Hash where
  h : Bytes → Bytes
  outLen : Nat       -- bytes
  blockLen : Nat     -- bytes

/-- RFC 2104 -/
def hmac (H : Hash) (key msg : Bytes) : Bytes :=
  let k := if key.length > H.blockLen then H.h key else key
  let k := k ++ List.replicate (H.blockLen - k.length) 0
  H.h (k.map (· ^^^ 0x5c) ++ H.h (k.map (· ^^^ 0x36) ++ msg))

def be32 (n : Nat) : Bytes := [UInt8.ofNat (n / 2 ^ 24 % 256), UInt8.ofNat (n / 2 ^ 16 % 256), UInt8.ofNat (n / 2 ^ 8 % 256), UInt8.ofNat (n % 256)]

/-- T(start) ‖ T(start+1) ‖ … truncated to `len` bytes, T(i) = H(seed ‖ I2OSP(i, 4)) -/
def counterKdf (H : Hash) (start : Nat) (seed : Bytes) (len : Nat) : Bytes :=
  let n := (len + H.outLen - 1) / H.outLen
  ((List.range n).flatMap fun i => H.h (seed ++ be32 (start + i))).take len

/-- MGF1: counter from 0 -/
def mgf1 (H : Hash) (seed : Bytes) (len : Nat) : Bytes := counterKdf H 0 seed len
/-- KDF2 / X9.63: counter from 1 -/
def kdf2 (H : Hash) (seed : Bytes) (len : Nat) : Bytes := counterKdf H 1 seed len

def xorBytes (a b : Bytes) : Bytes := List.zipWith (· ^^^ ·) a b

/-- b_1 … b_ell of RFC 9380 §5.3.1 -/
def xmdBlocks (H : Hash) (b0 dstPrime : Bytes) : Nat → Bytes → Nat → List Bytes
  | 0, _, _ => []
  | n + 1, prev, i =>
    let bi := H.h (xorBytes b0 prev ++ [UInt8.ofNat i] ++ dstPrime)
    bi :: xmdBlocks H b0 dstPrime n bi (i + 1)

/-- expand_message_xmd; none = abort -/
def expandMessageXmd (H : Hash) (msg dst : Bytes) (lenInBytes : Nat) : Option Bytes :=
  let ell := (lenInBytes + H.outLen - 1) / H.outLen
  if ell > 255 ∨ lenInBytes > 65535 ∨ dst.length > 255 then none
  else
    let dstPrime := dst ++ [UInt8.ofNat dst.length]
    let zPad := List.replicate H.blockLen (0 : UInt8)
    let lib := [UInt8.ofNat (lenInBytes / 256), UInt8.ofNat (lenInBytes % 256)]
    let b0 := H.h (zPad ++ msg ++ lib ++ [0] ++ dstPrime)
    -- b_1 = H(b_0 ‖ 1 ‖ DST'), b_i = H((b_0 xor b_{i-1}) ‖ i ‖ DST'): the first xor is with zeros
    let bs := xmdBlocks H b0 dstPrime ell (List.replicate H.outLen 0) 1
    some (bs.flatten.take lenInBytes)

end Relic.Spec.Mac
