/-
Signature schemes (property C05): the *verification* algorithms of the standards / of the schemes' definitions,
written over an abstract record of group operations so that the same definitions are executed by the driver
(instantiated with the affine curve arithmetic of Spec/Curve.lean) and are the subject of the theorems
(instantiated with an abstract commutative group of prime order).  Executable, no Mathlib.

  ECDSA      FIPS 186-4 §6.4 / SEC 1 v2 §4.1.4, with the public-key validation of SEC 1 §3.2.2.1
  EC-Schnorr relic's variant: e = H(m ‖ I2OSP(x(kG) mod n)) mod n, s = k - d·e; verification recomputes e from sG + eQ
  RSA        RFC 8017: RSAVP1, RSASSA-PSS-VERIFY with sLen = 0 (the parameter choice of the library),
             RSASSA-PKCS1-v1_5-VERIFY (by re-encoding), and the library's "basic" padding 00 ‖ FF ‖ D
  vBNN-IBS, Camenisch–Stadler proofs / signatures of knowledge (DL, OR), extendable ring signatures built from them
-/
import RelicVerif.Spec.Curve
import RelicVerif.Spec.Sha256
import RelicVerif.Spec.Mac

namespace Relic.Spec.Sig
open Relic.Spec.Curve (powMod)

abbrev Bytes := List UInt8

/-- OS2IP (RFC 8017 §4.2) -/
def os2ip (b : Bytes) : Nat := b.foldl (fun a x => a * 256 + x.toNat) 0

/-- I2OSP (RFC 8017 §4.1): the `k` low-order base-256 digits, big-endian (callers check n < 256^k) -/
def i2osp (n k : Nat) : Bytes := (List.range k).reverse.map fun i => UInt8.ofNat (n / 256 ^ i % 256)

def bitLen (n : Nat) : Nat := if n = 0 then 0 else Nat.log2 n + 1

/-- inverse modulo a prime by Fermat's little theorem -/
def invMod (n a : Nat) : Nat := powMod a (n - 2) n

/-- SEC 1 §4.1.3 step 5: the leftmost min(8·hlen, ⌈log₂ n⌉) bits of the digest as an integer -/
def bitsToInt (n : Nat) (h : Bytes) : Nat :=
  if 8 * h.length > bitLen n then os2ip h / 2 ^ (8 * h.length - bitLen n) else os2ip h

/-! ## group operations -/

structure GrpOps (P : Type) where
  add : P → P → P
  neg : P → P
  smul : Nat → P → P
  isZero : P → Bool
  beq : P → P → Bool
  /-- membership test: coordinates in range and the curve equation (the identity is a member) -/
  valid : P → Bool
  /-- the affine x-coordinate as an integer (unspecified for the identity) -/
  xn : P → Nat
  /-- the compressed encoding used inside hashes (one zero byte for the identity) -/
  enc : P → Bytes

variable {P : Type}

def GrpOps.sub (o : GrpOps P) (a b : P) : P := o.add a (o.neg b)

/-- a public key / point component is well formed: on the curve and not the identity -/
def GrpOps.pub (o : GrpOps P) (q : P) : Bool := o.valid q && !o.isZero q

def inRange (n : Nat) (x : Int) : Bool := decide (0 ≤ x ∧ x < n)
def inRangePos (n : Nat) (x : Int) : Bool := decide (0 < x ∧ x < n)

/-! ## ECDSA -/

/-- FIPS 186-4 §6.4.2 / SEC 1 §4.1.4 on the integer `e` derived from the digest -/
def ecdsaVerifyCore (o : GrpOps P) (n : Nat) (g q : P) (e : Nat) (r s : Int) : Bool :=
  inRangePos n r && inRangePos n s && o.pub q &&
  (let w := invMod n s.toNat
   let R := o.add (o.smul (e % n * w % n) g) (o.smul (r.toNat * w % n) q)
   !o.isZero R && decide (o.xn R % n = r.toNat))

/-- `prehashed`: the message *is* the digest -/
def ecdsaVerify (o : GrpOps P) (H : Bytes → Bytes) (n : Nat) (g q : P) (prehashed : Bool) (msg : Bytes) (r s : Int) : Bool :=
  ecdsaVerifyCore o n g q (bitsToInt n (if prehashed then msg else H msg)) r s

/-- what the signer computes from the nonce k (SEC 1 §4.1.3), none = "try another k" -/
def ecdsaSignCore (o : GrpOps P) (n : Nat) (g : P) (d k e : Nat) : Option (Nat × Nat) :=
  let r := o.xn (o.smul k g) % n
  let s := invMod n k * ((e + r * d) % n) % n
  if r = 0 ∨ s = 0 then none else some (r, s)

/-! ## EC-Schnorr (relic's variant) -/

/-- e' = H(m ‖ I2OSP(r, fcBytes)) reduced modulo n -/
def ecssChallenge (H : Bytes → Bytes) (n fcBytes : Nat) (msg : Bytes) (r : Nat) : Nat :=
  bitsToInt n (H (msg ++ i2osp r fcBytes)) % n

def ecssVerifyCore (o : GrpOps P) (n : Nat) (g q : P) (chal : Nat → Nat) (e s : Int) : Bool :=
  inRange n e && inRangePos n s && o.pub q &&
  (let R := o.add (o.smul s.toNat g) (o.smul e.toNat q)
   !o.isZero R && decide (chal (o.xn R % n) = e.toNat))

def ecssVerify (o : GrpOps P) (H : Bytes → Bytes) (n fcBytes : Nat) (g q : P) (msg : Bytes) (e s : Int) : Bool :=
  ecssVerifyCore o n g q (ecssChallenge H n fcBytes msg) e s

def ecssSignCore (o : GrpOps P) (n : Nat) (g : P) (chal : Nat → Nat) (d k : Nat) : Nat × Nat :=
  let e := chal (o.xn (o.smul k g) % n)
  (e, (k + (n - d * e % n)) % n)

/-! ## vBNN-IBS (Cao, Kou, Dang, Zhao 2008) -/

def hashToZn (H : Bytes → Bytes) (n : Nat) (b : Bytes) : Nat := os2ip (H b) % n

/-- user key extraction check: sk·G = R + c·mpk with c = H(id ‖ R) -/
def vbnnKeyOk (o : GrpOps P) (H : Bytes → Bytes) (n : Nat) (g mpk R : P) (id : Bytes) (sk : Nat) : Bool :=
  o.beq (o.smul sk g) (o.add R (o.smul (hashToZn H n (id ++ o.enc R)) mpk))

def vbnnVerify (o : GrpOps P) (H : Bytes → Bytes) (n : Nat) (g mpk : P) (R : P) (z h : Int) (id msg : Bytes) : Bool :=
  inRange n z && inRange n h && o.pub R && o.pub mpk &&
  (let c := hashToZn H n (id ++ o.enc R)
   let Z := o.sub (o.smul z.toNat g) (o.smul h.toNat (o.add R (o.smul c mpk)))
   decide (hashToZn H n (id ++ msg ++ o.enc R ++ o.enc Z) = h.toNat))

/-! ## Camenisch–Stadler proofs and signatures of knowledge -/

/-- the library hashes a fixed-size buffer: the encodings in order, zero-padded to `cnt` slots of fcBytes+1 bytes -/
def padSlots (fcBytes cnt : Nat) (b : Bytes) : Bytes := b ++ List.replicate (cnt * (fcBytes + 1) - b.length) 0

/-- PoK{x : y = xG}: t = rG + cY, c = H(G ‖ Y ‖ t).  `msg = []` for the proof, the message for the signature of knowledge. -/
def sokdlVerify (o : GrpOps P) (H : Bytes → Bytes) (n fcBytes : Nat) (g y : P) (msg : Bytes) (c s : Int) : Bool :=
  inRange n c && inRange n s && o.pub y &&
  (let t := o.add (o.smul s.toNat g) (o.smul c.toNat y)
   decide (hashToZn H n (msg ++ padSlots fcBytes 3 (o.enc g ++ o.enc y ++ o.enc t)) = c.toNat))

/-- PoK{x : y₀ = x g₀ ∨ y₁ = x g₁}: tᵢ = sᵢ gᵢ + cᵢ yᵢ, c₀ + c₁ = H(msg ‖ g₀ ‖ y₀ ‖ t₀ ‖ g₁ ‖ y₁ ‖ t₁) (mod n) -/
def sokorVerify (o : GrpOps P) (H : Bytes → Bytes) (n fcBytes : Nat) (g0 g1 y0 y1 : P) (msg : Bytes) (c0 c1 s0 s1 : Int) : Bool :=
  inRange n c0 && inRange n c1 && inRange n s0 && inRange n s1 && o.pub y0 && o.pub y1 && o.pub g0 && o.pub g1 &&
  (let t0 := o.add (o.smul s0.toNat g0) (o.smul c0.toNat y0)
   let t1 := o.add (o.smul s1.toNat g1) (o.smul c1.toNat y1)
   decide (hashToZn H n (msg ++ padSlots fcBytes 6 (o.enc g0 ++ o.enc y0 ++ o.enc t0 ++ o.enc g1 ++ o.enc y1 ++ o.enc t1))
     = (c0.toNat + c1.toNat) % n))

/-! ## extendable ring signatures (Aranha, Hall-Andersen, Nitulescu, Pagnin, Yakoubov 2022) -/

structure RingElt (P : Type) where
  h : P
  pk : P
  c0 : Int
  c1 : Int
  r0 : Int
  r1 : Int

/-- td·G + Σ hᵢ = pp and every element proves knowledge of log hᵢ or log pkᵢ -/
def ersVerify (o : GrpOps P) (H : Bytes → Bytes) (n fcBytes : Nat) (g pp : P) (td : Int) (ring : List (RingElt P)) (msg : Bytes) : Bool :=
  inRange n td && o.valid pp &&
  o.beq (ring.foldl (fun t e => o.add t e.h) (o.smul td.toNat g)) pp &&
  ring.all fun e => sokorVerify o H n fcBytes g g e.h e.pk msg e.c0 e.c1 e.r0 e.r1


/-- same-message linkable variant: additionally τᵢ with a proof of knowledge of log hᵢ (base G) or log τᵢ (base H(m)) -/
structure LinkElt (P : Type) where
  e : RingElt P
  tau : P
  d0 : Int
  d1 : Int
  t0 : Int
  t1 : Int

def smlersVerify (o : GrpOps P) (H : Bytes → Bytes) (n fcBytes : Nat) (g hm pp : P) (td : Int) (ring : List (LinkElt P)) (msg : Bytes) : Bool :=
  ersVerify o H n fcBytes g pp td (ring.map (·.e)) msg && o.pub hm &&
  ring.all fun l => sokorVerify o H n fcBytes g hm l.e.h l.tau msg l.d0 l.d1 l.t0 l.t1

/-! ## extendable threshold ring signatures

The N = max + size points (yᵢ, tdᵢ·G) and (sⱼ.y, sⱼ.h), together with (0, pp), lie "in the exponent" on one polynomial of
degree N − thres: the first d = N − thres of them and (0, pp) determine it, the remaining `thres` must lie on it
(`etrsOnPoly`); the threshold is exact: the first d points alone do not already interpolate pp at 0 (`etrsExact`, the test
the library performs); every element carries a proof of knowledge of log h or log pk. -/

structure TrsElt (P : Type) where
  y : Int
  e : RingElt P

/-- Lagrange coefficient at `x` of node `i` among `nodes` (all arithmetic modulo the prime n) -/
def lagrangeAt (n : Nat) (nodes : List Nat) (i : Nat) (x : Nat) : Nat :=
  let xi := nodes.getD i 0
  (List.range nodes.length).foldl (fun acc j =>
    if j = i then acc else
    let xj := nodes.getD j 0
    acc * ((x + n - xj % n) % n) % n * invMod n ((xi + n - xj % n) % n) % n) 1

/-- Σ Lᵢ(x)·Tᵢ -/
def interpolate (o : GrpOps P) (n : Nat) (zero : P) (pts : List (Nat × P)) (x : Nat) : P :=
  let nodes := pts.map (·.1)
  (List.range pts.length).foldl (fun acc i =>
    match pts[i]? with
    | some (_, t) => o.add acc (o.smul (lagrangeAt n nodes i x) t)
    | none => acc) zero

def distinct (l : List Nat) : Bool :=
  (List.range l.length).all fun i => (List.range l.length).all fun j => i == j || l.getD i 0 != l.getD j 0

def etrsVerify (o : GrpOps P) (H : Bytes → Bytes) (n fcBytes : Nat) (g pp : P) (thres : Nat) (tds ys : List Int)
    (ring : List (TrsElt P)) (msg : Bytes) : Bool :=
  let zero := o.smul 0 g
  tds.length == ys.length && decide (thres ≤ ring.length) &&
  tds.all (inRange n) && ys.all (inRangePos n) && ring.all (fun e => inRangePos n e.y) && o.pub pp &&
  (let pts : List (Nat × P) := (List.zip ys tds).map (fun (y, td) => (y.toNat, o.smul td.toNat g)) ++ ring.map (fun e => (e.y.toNat, e.e.h))
   let d := pts.length - thres
   let base := pts.take d
   distinct (0 :: pts.map (·.1)) &&
   -- consistency: the remaining points lie on the polynomial through (0, pp) and the first d points
   (pts.drop d).all (fun (x, t) => o.beq (interpolate o n zero ((0, pp) :: base) x) t) &&
   -- exact threshold: the first d points alone do not give pp
   !o.beq (interpolate o n zero base 0) pp) &&
  ring.all fun e => sokorVerify o H n fcBytes g g e.e.h e.e.pk msg e.e.c0 e.e.c1 e.e.r0 e.e.r1


/-! ## pairing-based schemes, in the discrete-logarithm-oracle formulation

For a non-degenerate bilinear map e : G1 × G2 → GT on groups of prime order n, e(A, [k]g) = e(B, g) ⟺ [k]A = B for any
generator g of G2 (`Lemmas/Pairing.lean`; bilinearity and non-degeneracy of the implemented pairing are property C04).
The public keys of these schemes are multiples [k]g2 of the G2 generator; when the specification is given k (the oracle
line carries the secret key) every verification equation becomes an equation in G1, decided with the curve arithmetic. -/

/-- the integer a scheme derives from the message: `hashed` = the message already is a digest -/
def msgScalar (H : Bytes → Bytes) (n : Nat) (hashed : Bool) (msg : Bytes) : Nat :=
  (if hashed then os2ip msg else os2ip (H msg)) % n

/-- BLS: e(H(m), [d]g2) = e(σ, g2), public key valid (d ≢ 0) ⟺ σ = [d]H(m) -/
def blsVerifyDL (o : GrpOps P) (n : Nat) (hm sigma : P) (d : Nat) : Bool :=
  o.valid sigma && decide (d % n ≠ 0) && o.beq sigma (o.smul (d % n) hm)

/-- Boneh–Boyen: e(σ, [m]g2 + [d]g2) = e(g1, g2) ⟺ [m + d]σ = g1 -/
def bbsVerifyDL (o : GrpOps P) (n : Nat) (g1 sigma : P) (m d : Nat) : Bool :=
  o.pub sigma && decide (d % n ≠ 0) && o.beq (o.smul ((m + d) % n) sigma) g1

/-- Zhang–Safavi-Naini–Susilo: e([m]g1 + Q, σ) = e(g1, g2) with σ = [t]g2 ⟺ [t]([m]g1 + Q) = g1 -/
def zssVerifyDL (o : GrpOps P) (n : Nat) (g1 q : P) (m t : Nat) : Bool :=
  o.pub q && decide (t % n ≠ 0) && o.beq (o.smul (t % n) (o.add (o.smul m g1) q)) g1

/-- Camenisch–Lysyanskaya, scheme A: e(a, Y) = e(b, g2) ∧ e(a + [m]b, X) = e(c, g2) with X = [x]g2, Y = [y]g2 -/
def clsVerifyDL (o : GrpOps P) (n : Nat) (a b c : P) (m x y : Nat) : Bool :=
  o.pub a && o.pub b && o.pub c && decide (x % n ≠ 0 ∧ y % n ≠ 0) &&
  o.beq b (o.smul (y % n) a) && o.beq c (o.smul (x % n) (o.add a (o.smul m b)))

/-- scheme C (signature on a committed message with randomness r): X = [t]g2, Y = [u]g2, Z = [v]g2 -/
def cliVerifyDL (o : GrpOps P) (n : Nat) (a A b B c : P) (m r t u v : Nat) : Bool :=
  o.pub a && o.pub A && o.pub b && o.pub B && o.pub c && decide (t % n ≠ 0 ∧ u % n ≠ 0 ∧ v % n ≠ 0) &&
  o.beq A (o.smul (v % n) a) && o.beq b (o.smul (u % n) a) && o.beq B (o.smul (u % n) A) &&
  o.beq c (o.smul (t % n) (o.add (o.add a (o.smul m b)) (o.smul (r % n) B)))

/-- scheme for blocks of messages m₀ … m_{l−1}: Zᵢ = [vᵢ]g2 for i < l − 1 -/
def clbVerifyDL (o : GrpOps P) (n : Nat) (a b c : P) (As Bs : List P) (ms : List Nat) (t u : Nat) (vs : List Nat) : Bool :=
  o.pub a && o.pub b && o.pub c && As.all o.pub && Bs.all o.pub &&
  decide (t % n ≠ 0 ∧ u % n ≠ 0) && vs.all (fun v => decide (v % n ≠ 0)) &&
  As.length == vs.length && Bs.length == vs.length && ms.length == vs.length + 1 &&
  (List.zip As vs).all (fun (A, v) => o.beq A (o.smul (v % n) a)) &&
  o.beq b (o.smul (u % n) a) &&
  (List.zip As Bs).all (fun (A, B) => o.beq B (o.smul (u % n) A)) &&
  o.beq c (o.smul (t % n) ((List.zip (ms.drop 1) Bs).foldl (fun acc (m, B) => o.add acc (o.smul m B)) (o.add a (o.smul (ms.headD 0) b))))

/-- Pointcheval–Sanders: e(a, x + Σ[mᵢ]yᵢ) = e(b, g) with x = [r]g, yᵢ = [sᵢ]g for a generator g of G2 ⟺ b = [r + Σ mᵢsᵢ]a, a ≠ O -/
def psVerifyDL (o : GrpOps P) (n : Nat) (a b : P) (ms : List Int) (r : Nat) (ss : List Nat) : Bool :=
  o.pub a && o.valid b && ms.length == ss.length &&
  o.beq b (o.smul (((List.zip ms ss).foldl (fun acc (m, s) => (acc + (m % (n : Int)).toNat * s) % n) (r % n))) a)

/-! ## RSA (RFC 8017) -/

structure RsaPub where
  n : Nat
  e : Nat

/-- RSAVP1 on an octet string of the modulus length: none = "signature representative out of range" / wrong length -/
def rsavp1 (k : RsaPub) (sig : Bytes) : Option Nat :=
  let klen := (bitLen k.n + 7) / 8
  if sig.length ≠ klen then none else
  let s := os2ip sig
  if s ≥ k.n then none else some (powMod s k.e k.n)

/-- EMSA-PSS-ENCODE (§9.1.1) with the empty salt, on the message digest -/
def emsaPssEncode (H : Mac.Hash) (mHash : Bytes) (emBits : Nat) : Option Bytes :=
  let emLen := (emBits + 7) / 8
  if emLen < H.outLen + 2 then none else
  let h := H.h (List.replicate 8 0 ++ mHash)
  let db := List.replicate (emLen - H.outLen - 2) (0 : UInt8) ++ [1]
  let masked := Mac.xorBytes db (Mac.mgf1 H h (emLen - H.outLen - 1))
  let top := 8 * emLen - emBits
  let masked := match masked with
    | [] => []
    | b :: rest => (b &&& UInt8.ofNat (255 / 2 ^ top)) :: rest
  some (masked ++ h ++ [0xbc])

/-- EMSA-PSS-VERIFY (§9.1.2) with sLen = 0, step by step -/
def emsaPssVerify (H : Mac.Hash) (mHash em : Bytes) (emBits : Nat) : Bool :=
  let emLen := (emBits + 7) / 8
  if em.length ≠ emLen ∨ emLen < H.outLen + 2 then false else          -- step 3
  if em.getLast? ≠ some 0xbc then false else                            -- step 4
  let maskedDB := em.take (emLen - H.outLen - 1)                        -- step 5
  let h := (em.drop (emLen - H.outLen - 1)).take H.outLen
  let top := 8 * emLen - emBits
  if (maskedDB.headD 0).toNat / 2 ^ (8 - top) ≠ 0 then false else       -- step 6
  let db := Mac.xorBytes maskedDB (Mac.mgf1 H h (emLen - H.outLen - 1))  -- steps 7, 8
  let db := match db with                                               -- step 9
    | [] => []
    | b :: rest => (b &&& UInt8.ofNat (255 / 2 ^ top)) :: rest
  if db ≠ List.replicate (emLen - H.outLen - 2) (0 : UInt8) ++ [1] then false else   -- step 10 (sLen = 0)
  H.h (List.replicate 8 0 ++ mHash) == h                                 -- steps 12–14

/-- RSASSA-PSS-VERIFY (§8.1.2) -/
def rsaPssVerify (H : Mac.Hash) (k : RsaPub) (prehashed : Bool) (msg sig : Bytes) : Bool :=
  if prehashed ∧ msg.length ≠ H.outLen then false else
  match rsavp1 k sig with
  | none => false
  | some m =>
    let emBits := bitLen k.n - 1
    let emLen := (emBits + 7) / 8
    if m ≥ 256 ^ emLen then false else
    emsaPssVerify H (if prehashed then msg else H.h msg) (i2osp m emLen) emBits

/-- RSASSA-PSS-SIGN (§8.1.1) with the empty salt: the signature representative -/
def rsaPssSignRep (H : Mac.Hash) (n : Nat) (prehashed : Bool) (msg : Bytes) : Option Nat :=
  if prehashed ∧ msg.length ≠ H.outLen then none else
  (emsaPssEncode H (if prehashed then msg else H.h msg) (bitLen n - 1)).map os2ip

/-- DER prefix of DigestInfo for SHA-256 (RFC 8017 §9.2 note 1) -/
def sha256Prefix : Bytes :=
  [0x30, 0x31, 0x30, 0x0d, 0x06, 0x09, 0x60, 0x86, 0x48, 0x01, 0x65, 0x03, 0x04, 0x02, 0x01, 0x05, 0x00, 0x04, 0x20]

/-- EMSA-PKCS1-v1_5-ENCODE (§9.2) on the digest; `prefix` = DigestInfo header ([] for the library's pre-hashed mode,
    which signs the bare digest) -/
def emsaPkcs1Encode (pre : Bytes) (digest : Bytes) (emLen : Nat) : Option Bytes :=
  let t := pre ++ digest
  if emLen < t.length + 11 then none else
  some ([0x00, 0x01] ++ List.replicate (emLen - t.length - 3) 0xff ++ [0x00] ++ t)

/-- RSASSA-PKCS1-v1_5-VERIFY (§8.2.2): compare with the re-encoded message -/
def rsaPkcs1Verify (H : Mac.Hash) (pre : Bytes) (k : RsaPub) (prehashed : Bool) (msg sig : Bytes) : Bool :=
  if prehashed ∧ msg.length ≠ H.outLen then false else
  let klen := (bitLen k.n + 7) / 8
  match rsavp1 k sig, emsaPkcs1Encode (if prehashed then [] else pre) (if prehashed then msg else H.h msg) klen with
  | some m, some em => decide (m < 256 ^ klen) && i2osp m klen == em
  | _, _ => false

/-- the library's "basic" padding (not a standard): the integer FF ‖ D, i.e. 00 … 00 ‖ FF ‖ D in the modulus length -/
def basicEncode (d : Bytes) (klen : Nat) : Option Bytes :=
  if klen < d.length + 2 then none else some (List.replicate (klen - d.length - 1) 0 ++ [0xff] ++ d)

def rsaBasicVerify (H : Mac.Hash) (k : RsaPub) (prehashed : Bool) (msg sig : Bytes) : Bool :=
  if prehashed ∧ msg.length ≠ H.outLen then false else
  let klen := (bitLen k.n + 7) / 8
  match rsavp1 k sig, basicEncode (if prehashed then msg else H.h msg) klen with
  | some m, some em => decide (m < 256 ^ klen) && i2osp m klen == em
  | _, _ => false

/-- consistency of a generated key pair (primality of p, q is checked separately) -/
def rsaKeyOk (n e d p q dp dq qi : Nat) : Bool :=
  n == p * q && decide (p < q) && decide (1 < p) &&
  e * d % ((p - 1) * (q - 1)) == 1 && dp == d % (p - 1) && dq == d % (q - 1) && qi * q % p == 1 && decide (qi < p)

/-- RSASP1 through the CRT (RFC 8017 §5.1.2 step 2.b, two primes; Garner's recombination as in bn_mxp_crt) -/
def rsasp1Crt (p q dp dq qi m : Nat) : Nat :=
  let m1 := powMod m dp p
  let m2 := powMod m dq q
  let h := ((((m1 : Int) - (m2 : Int)) % (p : Int)).toNat * qi) % p
  m2 + h * q

end Relic.Spec.Sig
