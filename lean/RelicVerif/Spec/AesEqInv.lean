/-
FIPS 197 §5.3.5 Equivalent Inverse Cipher over the byte-level definitions of Spec/Aes.lean. No Mathlib.
-/
import RelicVerif.Spec.Aes
namespace Relic.Spec.Aes

/-- FIPS 197 §5.3.5: decryption round keys dw = the round keys with InvMixColumns applied to all but the first and the last -/
def eqInvKeys (rk : List Bytes) : List Bytes :=
  let nr := rk.length - 1
  (List.range (nr + 1)).map fun r => if r = 0 ∨ r = nr then rk.getD r [] else invMixColumns (rk.getD r [])

/-- FIPS 197 §5.3.5 EqInvCipher -/
def eqInvCipher (dk : List Bytes) (inp : Bytes) : Bytes :=
  let nr := dk.length - 1
  let s := addRoundKey inp (dk.getD nr [])
  let s := (List.range (nr - 1)).foldl (fun s r =>
    addRoundKey (invMixColumns (invShiftRows (invSubBytes s))) (dk.getD (nr - 1 - r) [])) s
  addRoundKey (invShiftRows (invSubBytes s)) (dk.getD 0 [])

end Relic.Spec.Aes
