/-
BLAKE2s written from RFC 7693 (§2.1 parameters, §2.6 IV, §2.7 sigma, §3.1 G, §3.2 F, §3.3 padding and
processing), unkeyed, digest length nn bytes. Executable, no Mathlib.
-/
namespace Relic.Spec.Blake2s

def IV : Array UInt32 := #[0x6A09E667, 0xBB67AE85, 0x3C6EF372, 0xA54FF53A, 0x510E527F, 0x9B05688C, 0x1F83D9AB, 0x5BE0CD19]

def sigma : Array (Array Nat) := #[
  #[0, 1, 2, 3, 4, 5, 6, 7, 8, 9, 10, 11, 12, 13, 14, 15],
  #[14, 10, 4, 8, 9, 15, 13, 6, 1, 12, 0, 2, 11, 7, 5, 3],
  #[11, 8, 12, 0, 5, 2, 15, 13, 10, 14, 3, 6, 7, 1, 9, 4],
  #[7, 9, 3, 1, 13, 12, 11, 14, 2, 6, 5, 10, 4, 0, 15, 8],
  #[9, 0, 5, 7, 2, 4, 10, 15, 14, 1, 11, 12, 6, 8, 3, 13],
  #[2, 12, 6, 10, 0, 11, 8, 3, 4, 13, 7, 5, 15, 14, 1, 9],
  #[12, 5, 1, 15, 14, 13, 4, 10, 0, 7, 6, 3, 9, 2, 8, 11],
  #[13, 11, 7, 14, 12, 1, 3, 9, 5, 0, 15, 4, 8, 6, 2, 10],
  #[6, 15, 14, 9, 11, 3, 0, 8, 12, 2, 13, 7, 1, 4, 10, 5],
  #[10, 2, 8, 4, 7, 6, 1, 5, 15, 11, 9, 14, 3, 12, 13, 0]]

def rotr (x : UInt32) (n : UInt32) : UInt32 := (x >>> n) ||| (x <<< (32 - n))

def G (v : Array UInt32) (a b c d : Nat) (x y : UInt32) : Array UInt32 :=
  let va := v.getD a 0 + v.getD b 0 + x
  let vd := rotr (v.getD d 0 ^^^ va) 16
  let vc := v.getD c 0 + vd
  let vb := rotr (v.getD b 0 ^^^ vc) 12
  let va := va + vb + y
  let vd := rotr (vd ^^^ va) 8
  let vc := vc + vd
  let vb := rotr (vb ^^^ vc) 7
  (((v.setIfInBounds a va).setIfInBounds b vb).setIfInBounds c vc).setIfInBounds d vd

def le32 (blk : List UInt8) (o : Nat) : UInt32 :=
  (blk.getD o 0).toUInt32 ||| ((blk.getD (o + 1) 0).toUInt32 <<< 8) ||| ((blk.getD (o + 2) 0).toUInt32 <<< 16) |||
    ((blk.getD (o + 3) 0).toUInt32 <<< 24)

/-- compression function F -/
def F (h : Array UInt32) (blk : List UInt8) (t : Nat) (last : Bool) : Array UInt32 :=
  let m : Array UInt32 := (Array.range 16).map fun i => le32 blk (4 * i)
  let v : Array UInt32 := h ++ IV
  let v := v.setIfInBounds 12 (v.getD 12 0 ^^^ UInt32.ofNat (t % 2 ^ 32))
  let v := v.setIfInBounds 13 (v.getD 13 0 ^^^ UInt32.ofNat ((t / 2 ^ 32) % 2 ^ 32))
  let v := if last then v.setIfInBounds 14 (~~~ v.getD 14 0) else v
  let v := (List.range 10).foldl (fun v r =>
    let s := sigma.getD r #[]
    let mm := fun k => m.getD (s.getD k 0) 0
    let v := G v 0 4 8 12 (mm 0) (mm 1)
    let v := G v 1 5 9 13 (mm 2) (mm 3)
    let v := G v 2 6 10 14 (mm 4) (mm 5)
    let v := G v 3 7 11 15 (mm 6) (mm 7)
    let v := G v 0 5 10 15 (mm 8) (mm 9)
    let v := G v 1 6 11 12 (mm 10) (mm 11)
    let v := G v 2 7 8 13 (mm 12) (mm 13)
    G v 3 4 9 14 (mm 14) (mm 15)) v
  (Array.range 8).map fun i => h.getD i 0 ^^^ v.getD i 0 ^^^ v.getD (i + 8) 0

/-- process all blocks: every block but the last with f = false and t += 64; the last (zero padded, possibly
    empty) with f = true and t = total length -/
def loop (h : Array UInt32) (t : Nat) : Nat → List UInt8 → Array UInt32
  | 0, _ => h
  | fuel + 1, msg =>
    if msg.length > 64 then loop (F h (msg.take 64) (t + 64) false) (t + 64) fuel (msg.drop 64)
    else F h (msg ++ List.replicate (64 - msg.length) 0) (t + msg.length) true

def blake2s (nn : Nat) (msg : List UInt8) : List UInt8 :=
  let h := IV.setIfInBounds 0 (IV.getD 0 0 ^^^ 0x01010000 ^^^ UInt32.ofNat nn)
  let h := loop h 0 (msg.length / 64 + 2) msg
  (h.toList.flatMap fun (w : UInt32) => [w.toUInt8, (w >>> 8).toUInt8, (w >>> 16).toUInt8, (w >>> 24).toUInt8]).take nn

/-- little-endian bytes of the state words, first nn bytes -/
def outBytes (h : Array UInt32) (nn : Nat) : List UInt8 :=
  (h.toList.flatMap fun (w : UInt32) => [w.toUInt8, (w >>> 8).toUInt8, (w >>> 16).toUInt8, (w >>> 24).toUInt8]).take nn

/-- §2.5 / §3.3: parameter block word 0 = 0x0101kknn -/
def initH (kk nn : Nat) : Array UInt32 :=
  IV.setIfInBounds 0 (IV.getD 0 0 ^^^ (0x01010000 : UInt32) ^^^ (UInt32.ofNat kk <<< (8 : UInt32)) ^^^ UInt32.ofNat nn)

/-- RFC 7693 §3.3 with a key of kk = key.length bytes (1 ≤ kk ≤ 32): the key, zero-padded to one block, is
    the first block of the data; kk = 0 is the unkeyed hash -/
def blake2sK (nn : Nat) (key msg : List UInt8) : List UInt8 :=
  let kk := key.length
  let d := if kk > 0 then key ++ List.replicate (64 - kk) 0 ++ msg else msg
  outBytes (loop (initH kk nn) 0 (d.length / 64 + 2) d) nn

end Relic.Spec.Blake2s
