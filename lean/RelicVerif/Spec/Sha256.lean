/-
SHA-256 written from FIPS 180-4 (§4.1.2 functions, §4.2.2 constants, §5.1.1 padding, §5.3.3 initial
hash value, §6.2 computation) over bytes. Executable, no Mathlib.
-/
namespace Relic.Spec.Sha256

def K : Array UInt32 := #[
  0x428a2f98, 0x71374491, 0xb5c0fbcf, 0xe9b5dba5, 0x3956c25b, 0x59f111f1, 0x923f82a4, 0xab1c5ed5,
  0xd807aa98, 0x12835b01, 0x243185be, 0x550c7dc3, 0x72be5d74, 0x80deb1fe, 0x9bdc06a7, 0xc19bf174,
  0xe49b69c1, 0xefbe4786, 0x0fc19dc6, 0x240ca1cc, 0x2de92c6f, 0x4a7484aa, 0x5cb0a9dc, 0x76f988da,
  0x983e5152, 0xa831c66d, 0xb00327c8, 0xbf597fc7, 0xc6e00bf3, 0xd5a79147, 0x06ca6351, 0x14292967,
  0x27b70a85, 0x2e1b2138, 0x4d2c6dfc, 0x53380d13, 0x650a7354, 0x766a0abb, 0x81c2c92e, 0x92722c85,
  0xa2bfe8a1, 0xa81a664b, 0xc24b8b70, 0xc76c51a3, 0xd192e819, 0xd6990624, 0xf40e3585, 0x106aa070,
  0x19a4c116, 0x1e376c08, 0x2748774c, 0x34b0bcb5, 0x391c0cb3, 0x4ed8aa4a, 0x5b9cca4f, 0x682e6ff3,
  0x748f82ee, 0x78a5636f, 0x84c87814, 0x8cc70208, 0x90befffa, 0xa4506ceb, 0xbef9a3f7, 0xc67178f2]

def H0 : List UInt32 :=
  [0x6a09e667, 0xbb67ae85, 0x3c6ef372, 0xa54ff53a, 0x510e527f, 0x9b05688c, 0x1f83d9ab, 0x5be0cd19]

def rotr (x : UInt32) (n : UInt32) : UInt32 := (x >>> n) ||| (x <<< (32 - n))
def ch (x y z : UInt32) : UInt32 := (x &&& y) ^^^ ((~~~ x) &&& z)
def maj (x y z : UInt32) : UInt32 := (x &&& y) ^^^ (x &&& z) ^^^ (y &&& z)
def bsig0 (x : UInt32) : UInt32 := rotr x 2 ^^^ rotr x 13 ^^^ rotr x 22
def bsig1 (x : UInt32) : UInt32 := rotr x 6 ^^^ rotr x 11 ^^^ rotr x 25
def ssig0 (x : UInt32) : UInt32 := rotr x 7 ^^^ rotr x 18 ^^^ (x >>> 3)
def ssig1 (x : UInt32) : UInt32 := rotr x 17 ^^^ rotr x 19 ^^^ (x >>> 10)

def be32 (b0 b1 b2 b3 : UInt8) : UInt32 :=
  (b0.toUInt32 <<< 24) ||| (b1.toUInt32 <<< 16) ||| (b2.toUInt32 <<< 8) ||| b3.toUInt32

/-- the 16 message words of a 64-byte block -/
def blockWords (blk : List UInt8) : Array UInt32 :=
  (List.range 16).foldl (fun w t =>
    w.push (be32 (blk.getD (4*t) 0) (blk.getD (4*t+1) 0) (blk.getD (4*t+2) 0) (blk.getD (4*t+3) 0))) #[]

/-- message schedule W_0..W_63 -/
def schedule (blk : List UInt8) : Array UInt32 :=
  (List.range 48).foldl (fun w i =>
    let t := i + 16
    w.push (ssig1 (w.getD (t-2) 0) + w.getD (t-7) 0 + ssig0 (w.getD (t-15) 0) + w.getD (t-16) 0))
    (blockWords blk)

structure Regs where
  a : UInt32
  b : UInt32
  c : UInt32
  d : UInt32
  e : UInt32
  f : UInt32
  g : UInt32
  h : UInt32

/-- §6.2.2: one block -/
def compress (hs : List UInt32) (blk : List UInt8) : List UInt32 :=
  let w := schedule blk
  let r0 : Regs := ⟨hs.getD 0 0, hs.getD 1 0, hs.getD 2 0, hs.getD 3 0, hs.getD 4 0, hs.getD 5 0, hs.getD 6 0, hs.getD 7 0⟩
  let r := (List.range 64).foldl (fun (r : Regs) t =>
    let t1 := r.h + bsig1 r.e + ch r.e r.f r.g + K.getD t 0 + w.getD t 0
    let t2 := bsig0 r.a + maj r.a r.b r.c
    ⟨t1 + t2, r.a, r.b, r.c, r.d + t1, r.e, r.f, r.g⟩) r0
  [r0.a + r.a, r0.b + r.b, r0.c + r.c, r0.d + r.d, r0.e + r.e, r0.f + r.f, r0.g + r.g, r0.h + r.h]

/-- big-endian bytes of n, `k` bytes -/
def beBytes (n k : Nat) : List UInt8 := (List.range k).reverse.map fun i => UInt8.ofNat ((n / 256 ^ i) % 256)

/-- §5.1.1: 0x80, then zeros up to 56 mod 64, then the bit length as 64-bit big-endian -/
def pad (len : Nat) : List UInt8 :=
  let z := (64 - (len + 9) % 64) % 64
  [0x80] ++ List.replicate z 0 ++ beBytes ((8 * len) % 2 ^ 64) 8

/-- split into 64-byte blocks (the input length is a multiple of 64) -/
def blocks : Nat → List UInt8 → List (List UInt8)
  | 0, _ => []
  | n + 1, l => if l.isEmpty then [] else l.take 64 :: blocks n (l.drop 64)

def wordBytes (w : UInt32) : List UInt8 :=
  [(w >>> 24).toUInt8, (w >>> 16).toUInt8, (w >>> 8).toUInt8, w.toUInt8]

def digestBytes (hs : List UInt32) : List UInt8 := hs.flatMap wordBytes

/-- SHA-256 of a byte string -/
def sha256 (msg : List UInt8) : List UInt8 :=
  let m := msg ++ pad msg.length
  digestBytes ((blocks (m.length / 64 + 1) m).foldl compress H0)

end Relic.Spec.Sha256
