/-
Hashing to curves over the quadratic extension Fp2 = Fp[u]/(u² − q), q a non-residue (C13, ep2_map*): a minimal, private
Fp2 (pairs of `Nat`), the RFC 9380 oracles for m = 2 (is_square through the norm, sqrt by the "complex method", sgn0 of §4.1),
the affine group law of y² = x³ + a x + b over Fp2, the twist endomorphism ψ = (x̄·γ₀, ȳ·γ₁) and the cofactor clearings the
library documents in src/epx/relic_ep2_mul_cof.c:

  Barreto–Naehrig:       [x]P + ψ([3x]P) + ψ²([x]P) + ψ³(P)                          (Fuentes-Castañeda, Knapp, Rodríguez-Henríquez)
  Barreto–Lynn–Scott 12: [x² − x − 1]P + ψ([x − 1]P) + ψ²([2]P)                       (Budroni–Pintore)
  otherwise:             [h]P

The maps themselves are the generic `sswu` / `svdw` / `isoMap` of Spec/HashToCurve.lean instantiated with `fp2Ops`.
No Mathlib.
-/
import RelicVerif.Spec.HashToCurve

namespace Relic.Spec.H2CExt
open Relic.Spec.H2C
open Relic.Spec.Curve (invEuclid)

abbrev Fp2 := Nat × Nat

/-- q mod p for a (possibly negative) non-residue q -/
def qn (p : Nat) (q : Int) : Nat := (q % (p : Int)).toNat

def norm (p : Nat) (q : Int) (a : Fp2) : Nat := (a.1 * a.1 + (p - qn p q) * (a.2 * a.2 % p)) % p

def mul2 (p : Nat) (q : Int) (a b : Fp2) : Fp2 :=
  ((a.1 * b.1 + qn p q * (a.2 * b.2 % p)) % p, (a.1 * b.2 + a.2 * b.1) % p)

/-- a square root in Fp2 (meaningful for squares): a = a0 real: sqrt(a0) or u·sqrt(a0/q); otherwise with n = sqrt(N(a)),
    δ = (a0 ± n)/2 a square in Fp, x0 = sqrt δ, x1 = a1/(2 x0) -/
def sqrt2 (p : Nat) (q : Int) (a : Fp2) : Fp2 :=
  let a0 := a.1 % p
  let a1 := a.2 % p
  if a1 = 0 then
    if isSqMod p a0 then (sqrtMod p a0, 0) else (0, sqrtMod p (a0 * invEuclid p (qn p q) % p))
  else
    let n := sqrtMod p (norm p q a)
    let half := (p + 1) / 2
    let d1 := (a0 + n) * half % p
    let d := if isSqMod p d1 ∧ d1 ≠ 0 then d1 else (a0 + p - n) * half % p
    let x0 := sqrtMod p d
    (x0, a1 * invEuclid p (2 * x0 % p) % p)

def fp2Ops (p : Nat) (q : Int) : MapOps Fp2 where
  zero := (0, 0)
  one := (1 % p, 0)
  add a b := ((a.1 + b.1) % p, (a.2 + b.2) % p)
  sub a b := ((a.1 + p - b.1 % p) % p, (a.2 + p - b.2 % p) % p)
  mul := mul2 p q
  neg a := ((p - a.1 % p) % p, (p - a.2 % p) % p)
  inv0 a :=
    let ni := invEuclid p (norm p q a)
    (a.1 * ni % p, (p - a.2 % p) * ni % p)
  isZero a := a.1 % p == 0 && a.2 % p == 0
  isSq a := isSqMod p (norm p q a)
  sqrt := sqrt2 p q
  sgn0 a := a.1 % p % 2 == 1 || (a.1 % p == 0 && a.2 % p % 2 == 1)
  ofNat n := (n % p, 0)

/-- Frobenius of Fp2: conjugation -/
def conj (p : Nat) (a : Fp2) : Fp2 := (a.1 % p, (p - a.2 % p) % p)

structure Curve2 where
  p : Nat
  q : Int
  a : Fp2
  b : Fp2

abbrev Point2 := Option (Fp2 × Fp2)

def Curve2.O (c : Curve2) : MapOps Fp2 := fp2Ops c.p c.q

def onCurve (c : Curve2) : Point2 → Bool
  | none => true
  | some (x, y) =>
    let O := c.O
    x.1 < c.p && x.2 < c.p && y.1 < c.p && y.2 < c.p && O.mul y y == g O { a := c.a, b := c.b } x

def neg (c : Curve2) : Point2 → Point2
  | none => none
  | some (x, y) => some (x, c.O.neg y)

def add (c : Curve2) : Point2 → Point2 → Point2
  | none, q => q
  | p, none => p
  | some (x1, y1), some (x2, y2) =>
    let O := c.O
    if x1 == x2 then
      if O.isZero (O.add y1 y2) then none
      else
        let l := O.mul (O.add (O.mul (O.ofNat 3) (O.mul x1 x1)) c.a) (O.inv0 (O.add y1 y1))
        let x3 := O.sub (O.sub (O.mul l l) x1) x2
        some (x3, O.sub (O.mul l (O.sub x1 x3)) y1)
    else
      let l := O.mul (O.sub y2 y1) (O.inv0 (O.sub x2 x1))
      let x3 := O.sub (O.sub (O.mul l l) x1) x2
      some (x3, O.sub (O.mul l (O.sub x1 x3)) y1)

def mulNat (c : Curve2) (P : Point2) (k : Nat) : Point2 :=
  let rec go (fuel : Nat) (k : Nat) (base acc : Point2) : Point2 :=
    match fuel with
    | 0 => acc
    | f + 1 => if k = 0 then acc else go f (k / 2) (add c base base) (if k % 2 = 1 then add c acc base else acc)
  go (Nat.log2 k + 2) k P none

def mul (c : Curve2) (P : Point2) (k : Int) : Point2 :=
  if k < 0 then neg c (mulNat c P k.natAbs) else mulNat c P k.toNat

/-- ψ: coordinate-wise Frobenius followed by the twist constants -/
def psi (c : Curve2) (f0 f1 : Fp2) : Point2 → Point2
  | none => none
  | some (x, y) => some (c.O.mul (conj c.p x) f0, c.O.mul (conj c.p y) f1)

/-- ep2_mul_cof_bn -/
def clearBN (c : Curve2) (f0 f1 : Fp2) (x : Int) (P : Point2) : Point2 :=
  let ps := psi c f0 f1
  let t0 := mul c P x
  let t1 := ps (mul c t0 3)
  add c (add c (add c (ps (ps (ps P))) t0) t1) (ps (ps t0))

/-- ep2_mul_cof_b12 -/
def clearB12 (c : Curve2) (f0 f1 : Fp2) (x : Int) (P : Point2) : Point2 :=
  let ps := psi c f0 f1
  let t0 := mul c P x
  let t1 := mul c t0 x
  let t2 := add c (add c t1 (neg c t0)) (neg c P)
  let t3 := ps (add c t0 (neg c P))
  add c (add c t2 t3) (ps (ps (add c P P)))

end Relic.Spec.H2CExt
