/-
Textbook definitions of the public-key schemes and protocols of property C06, written from the standards / original papers
and independent of the C code.  Executable, no Mathlib.

  RSA           RFC 8017: RSAEP / RSADP (§5.1), RSAES-PKCS1-v1_5 (§7.2), RSAES-OAEP with empty label (§7.1); plus the
                library's "basic" layout 00* FF D.
  Rabin         c = m² mod n with the library's redundancy (the low 8 bytes of FF‖D repeated), decryption = the roots whose
                redundancy and layout are valid.
  Benaloh       c = y^m u^t, decryption by search in the order-t subgroup.
  Paillier      c = (1+n)^m r^n mod n², m = L(c^λ mod n²)·μ mod n with λ = lcm(p−1, q−1).
  Damgård–Jurik c = (1+n)^m r^(n^s) mod n^(s+1); the discrete logarithm of (1+n)^x is taken one base-n digit at a time.
  subgroup Paillier, ECDH / ECMQV / ECIES / Pedersen over the affine group law of Spec/Curve.lean, Shamir sharing and Lagrange
  interpolation over Z_q, Beaver triples, set intersection.
-/
import RelicVerif.Spec.Curve
import RelicVerif.Spec.Mac
import RelicVerif.Spec.Aes

namespace Relic.Spec.Cp
open Relic.Spec.Curve (powMod invEuclid)
open Relic.Spec.Mac (Hash mgf1 kdf2 hmac xorBytes)

abbrev Bytes := List UInt8

/-! ### integers ↔ octet strings (RFC 8017 §4) -/

/-- OS2IP -/
def os2ip (b : Bytes) : Nat := b.foldl (fun acc x => acc * 256 + x.toNat) 0

/-- I2OSP: the `len` low-order base-256 digits of `n`, most significant first -/
def i2osp (n : Nat) : Nat → Bytes
  | 0 => []
  | len + 1 => UInt8.ofNat (n / 256 ^ len % 256) :: i2osp n len

/-- number of octets of the shortest representation (0 for 0) -/
def byteLen (n : Nat) : Nat := if n = 0 then 0 else Nat.log2 n / 8 + 1

def bitLen (n : Nat) : Nat := if n = 0 then 0 else Nat.log2 n + 1

/-! ### RSA -/

structure RsaKey where
  n : Nat
  e : Nat
  d : Nat
  p : Nat
  q : Nat
  dp : Nat
  dq : Nat
  qi : Nat
deriving Repr

/-- RSAEP -/
def rsaep (n e m : Nat) : Nat := powMod m e n
/-- RSADP -/
def rsadp (n d c : Nat) : Nat := powMod c d n

/-- what a generated key has to satisfy: n = p·q with distinct factors, e·d ≡ 1 modulo lcm(p−1, q−1) -/
def rsaKeyOk (k : RsaKey) : Bool :=
  k.n == k.p * k.q && k.p != k.q && 1 < k.p && 1 < k.q &&
  (k.e * k.d) % Nat.lcm (k.p - 1) (k.q - 1) == 1 % Nat.lcm (k.p - 1) (k.q - 1)

/-- the CRT components a key carries when the CRT path is compiled -/
def rsaCrtOk (k : RsaKey) : Bool :=
  k.dp == k.d % (k.p - 1) && k.dq == k.d % (k.q - 1) && (k.qi * k.q) % k.p == 1 % k.p && k.qi < k.p

/-- EME-PKCS1-v1_5 (RFC 8017 §7.2.1 step 2): EM = 00 ‖ 02 ‖ PS ‖ 00 ‖ M, PS non-zero octets, |PS| ≥ 8 -/
def pkcs1Pad (ps m : Bytes) : Bytes := [0, 2] ++ ps ++ [0] ++ m

/-- §7.2.2 step 3: separate EM; `none` = "decryption error" -/
def pkcs1Unpad (em : Bytes) : Option Bytes :=
  match em with
  | y :: t :: rest =>
    if y ≠ 0 ∨ t ≠ 2 then none else
    match rest.dropWhile (· ≠ 0) with
    | [] => none
    | _ :: m => if (rest.takeWhile (· ≠ 0)).length < 8 then none else some m
  | _ => none

/-- EME-OAEP encoding (§7.1.1 step 2) with the empty label; `k` = length of the modulus in octets -/
def oaepEncode (H : Hash) (k : Nat) (seed m : Bytes) : Bytes :=
  let db := H.h [] ++ List.replicate (k - m.length - 2 * H.outLen - 2) 0 ++ [1] ++ m
  let maskedDB := xorBytes db (mgf1 H seed (k - H.outLen - 1))
  let maskedSeed := xorBytes seed (mgf1 H maskedDB H.outLen)
  [0] ++ maskedSeed ++ maskedDB

/-- EME-OAEP decoding (§7.1.2 step 3); `none` = "decryption error" -/
def oaepDecode (H : Hash) (k : Nat) (em : Bytes) : Option Bytes :=
  if em.length ≠ k ∨ k < 2 * H.outLen + 2 then none else
  match em with
  | [] => none
  | y :: rest =>
    let maskedSeed := rest.take H.outLen
    let maskedDB := rest.drop H.outLen
    let seed := xorBytes maskedSeed (mgf1 H maskedDB H.outLen)
    let db := xorBytes maskedDB (mgf1 H seed (k - H.outLen - 1))
    match (db.drop H.outLen).dropWhile (· = 0) with
    | o :: m => if o = 1 ∧ y = 0 ∧ db.take H.outLen = H.h [] then some m else none
    | [] => none

/-- the library's "basic" layout: EM = 00 … 00 ‖ FF ‖ M, at least one leading zero octet -/
def basicPad (k : Nat) (m : Bytes) : Bytes := List.replicate (k - 1 - m.length) 0 ++ [0xFF] ++ m

def basicUnpad (em : Bytes) : Option Bytes :=
  match em with
  | y :: rest =>
    if y ≠ 0 then none else
    match rest.dropWhile (· = 0) with
    | f :: m => if f = 0xFF then some m else none
    | [] => none
  | [] => none

inductive RsaPad where
  | basic | pkcs1 | pkcs2
deriving Repr, BEq, DecidableEq

/-- octets the padding adds at least -/
def RsaPad.overhead (H : Hash) : RsaPad → Nat
  | .basic => 2
  | .pkcs1 => 11
  | .pkcs2 => 2 * H.outLen + 2

def rsaUnpad (H : Hash) (pad : RsaPad) (k : Nat) (em : Bytes) : Option Bytes :=
  match pad with
  | .basic => basicUnpad em
  | .pkcs1 => pkcs1Unpad em
  | .pkcs2 => oaepDecode H k em

/-- RSAES decryption of an octet string with the private exponent; `none` = "decryption error" -/
def rsaDecrypt (H : Hash) (pad : RsaPad) (key : RsaKey) (c : Bytes) : Option Bytes :=
  let k := byteLen key.n
  if c.length ≠ k ∨ k < pad.overhead H ∨ os2ip c ≥ key.n then none
  else rsaUnpad H pad k (i2osp (rsadp key.n key.d (os2ip c)) k)

/-! ### Rabin (the library's redundancy scheme) -/

/-- the encryption block of message D: X = FF ‖ D as an integer, followed by the 8 low-order octets of X -/
def rabinBlock (m : Bytes) : Nat :=
  let x := os2ip (0xFF :: m)
  x * 2 ^ 64 + x % 2 ^ 64

/-- parse a candidate root: the two low 8-octet words agree and the rest is FF ‖ D in shortest form -/
def rabinParse (r : Nat) : Option Bytes :=
  if r / 2 ^ 64 % 2 ^ 64 ≠ r % 2 ^ 64 then none else
  let x := r / 2 ^ 64
  match i2osp x (byteLen x) with
  | f :: m => if f = 0xFF then some m else none
  | [] => none

/-- square roots of c modulo n = p·q for Blum primes: CRT combinations of ±c^((p+1)/4), ±c^((q+1)/4) that square to c -/
def rabinRoots (n p q c : Nat) : List Nat :=
  let rp := powMod c ((p + 1) / 4) p
  let rq := powMod c ((q + 1) / 4) q
  let ip := invEuclid q (p % q)    -- p⁻¹ mod q
  let iq := invEuclid p (q % p)    -- q⁻¹ mod p
  let comb := fun (a b : Nat) => (a * q % n * iq + b * p % n * ip) % n
  ([comb rp rq, comb rp (q - rq), comb (p - rp) rq, comb (p - rp) (q - rq)].filter fun r => r * r % n == c % n).eraseDups

/-- all plaintexts a ciphertext integer admits -/
def rabinDecrypt (n p q c : Nat) : List Bytes :=
  ((rabinRoots n p q c).filterMap rabinParse).eraseDups

/-! ### Benaloh -/

/-- decryption: the exponent i < t with (y^(φ/t))^i = c^(φ/t) -/
def bdpeDecrypt (n p q y t c : Nat) : Option Nat :=
  let e := (p - 1) * (q - 1) / t
  let a := powMod c e n
  let g := powMod y e n
  (List.range t).find? fun i => powMod g i n == a

/-! ### Paillier -/

def paillierL (n u : Nat) : Nat := (u - 1) / n

/-- m = L(c^λ mod n²) · μ mod n, λ = lcm(p−1, q−1), μ = L(g^λ mod n²)⁻¹ mod n, g = n + 1 -/
def paillierDecrypt (n p q c : Nat) : Nat :=
  let lam := Nat.lcm (p - 1) (q - 1)
  let mu := invEuclid n (paillierL n (powMod (n + 1) lam (n * n)))
  paillierL n (powMod c lam (n * n)) * mu % n

/-- an honest ciphertext of m: (1+n)^m · r^n mod n² -/
def paillierEncrypt (n m r : Nat) : Nat := powMod (n + 1) m (n * n) * powMod r n (n * n) % (n * n)

/-! ### Damgård–Jurik (generalised Paillier), plaintexts modulo n^s -/

/-- the exponent x < n^s with (1+n)^x ≡ a (mod n^(s+1)), one base-n digit per step:
    if x ≡ y (mod n^j) then a·(1+n)^(−y) ≡ 1 + n^(j+1)·z (mod n^(j+2)) with z ≡ (x − y)/n^j (mod n) -/
def djLog (n s a : Nat) : Nat :=
  (List.range s).foldl (fun y j =>
    let md := n ^ (j + 2)
    let u := a % md * invEuclid md (powMod (n + 1) y md) % md
    y + (u - 1) / n ^ (j + 1) % n * n ^ j) 0

def djDecrypt (n lam s c : Nat) : Nat :=
  let ns := n ^ s
  djLog n s (powMod c lam (n ^ (s + 1))) * invEuclid ns (lam % ns) % ns

/-! ### subgroup Paillier (Paillier's scheme 3): ciphertexts g^(m + n r), g of order dividing α·n -/

/-- m = L(c^α mod n²) / L(g^α mod n²) mod n -/
def shpeDecrypt (n a g c : Nat) : Nat :=
  paillierL n (powMod c a (n * n)) * invEuclid n (paillierL n (powMod g a (n * n))) % n

/-! ### elliptic-curve protocols -/

open Relic.Spec.Curve (Curve Point mulNat add)

/-- field element to octet string (SEC 1 §2.3.5): fixed length ⌈log₂ p / 8⌉ -/
def fe2osp (c : Curve) (x : Nat) : Bytes := i2osp x (byteLen c.p)

/-- cofactor Diffie–Hellman primitive (SEC 1 §3.3.2) followed by the ANSI X9.63 key derivation function:
    `none` when the shared point is the point at infinity -/
def ecdhKey (H : Hash) (c : Curve) (h d : Nat) (q : Point) (len : Nat) : Option Bytes :=
  match mulNat c (mulNat c q h) d with
  | none => none
  | some (x, _) => some (kdf2 H (fe2osp c x) len)

/-- the associate value function of MQV: the low ⌈f/2⌉ bits of x with bit ⌈f/2⌉ set, f = bits of the group order -/
def mqvAvf (n : Nat) (x : Nat) : Nat :=
  let l := (bitLen n + 1) / 2
  x % 2 ^ l + 2 ^ l

/-- ECMQV (SEC 1 §3.4): s = d2 + avf(Q2u)·d1 mod n, P = s·(Q2v + avf(Q2v)·Q1v); key = KDF(x_P) -/
def mqvPoint (c : Curve) (n d1 d2 : Nat) (q2u q1v q2v : Point) : Point :=
  match q2u, q2v with
  | some (xu, _), some (xv, _) =>
    let s := (d2 + mqvAvf n xu * d1) % n
    mulNat c (add c q2v (mulNat c q1v (mqvAvf n xv))) s
  | _, _ => none

/-- the octet string the library derives keys from: BigInteger.toByteArray of x (shortest form, one more zero octet when
    the top bit of the leading octet is set or x = 0) — the ECIES variant documented as BouncyCastle-compatible -/
def bcBytes (x : Nat) : Bytes := i2osp x (if bitLen x % 8 = 0 then byteLen x + 1 else byteLen x)

/-- ECIES as the library composes it: (k_E ‖ k_M) = KDF2(bcBytes(x(d·R)), 2·size); C = AES-CBC-PKCS7(k_E, IV = 0, M);
    T = HMAC(k_M, C).  Given R the ciphertext is determined. -/
def eciesKeys (H : Hash) (c : Curve) (size : Nat) (d : Nat) (r : Point) : Bytes × Bytes :=
  let x := match mulNat c r d with
    | some (x, _) => x
    | none => 0
  let k := kdf2 H (bcBytes x) (2 * size)
  (k.take size, k.drop size)

def eciesEncrypt (H : Hash) (c : Curve) (size : Nat) (d : Nat) (r : Point) (m : Bytes) : Bytes :=
  let (ke, km) := eciesKeys H c size d r
  let ct := Relic.Spec.Aes.aesCbcPkcs7Enc ke (List.replicate 16 0) m
  ct ++ hmac H km ct

/-- decryption: the tag is verified first, then the block cipher padding; `none` = rejected -/
def eciesDecrypt (H : Hash) (c : Curve) (size : Nat) (d : Nat) (r : Point) (ct : Bytes) : Option Bytes :=
  if ct.length < H.outLen then none else
  let (ke, km) := eciesKeys H c size d r
  let body := ct.take (ct.length - H.outLen)
  let tag := ct.drop (ct.length - H.outLen)
  if hmac H km body ≠ tag then none
  else Relic.Spec.Aes.aesCbcPkcs7Dec ke (List.replicate 16 0) body

/-! ### Shamir sharing over Z_q (q prime) -/

def subMod (q a b : Nat) : Nat := (a % q + q - b % q) % q

/-- Horner evaluation of a₀ + a₁x + … modulo q -/
def polyEval (q : Nat) (coeffs : List Nat) (x : Nat) : Nat :=
  coeffs.foldr (fun a acc => (acc * x + a) % q) 0

/-- Lagrange interpolation through `pts` evaluated at `x0` -/
def lagrangeAt (q : Nat) (pts : List (Nat × Nat)) (x0 : Nat) : Nat :=
  (pts.foldl (fun acc pi =>
    let num := pts.foldl (fun a pj => if pj.1 % q = pi.1 % q then a else a * subMod q x0 pj.1 % q) 1
    let den := pts.foldl (fun a pj => if pj.1 % q = pi.1 % q then a else a * subMod q pi.1 pj.1 % q) 1
    (acc + pi.2 % q * num % q * invEuclid q den) % q) 0) % q

/-! ### Beaver multiplication triples -/

structure Triple where
  a : Nat
  b : Nat
  c : Nat

/-- one party's result share: r = a·e + b·d (+ d·e for party 0) + c -/
def mtShare (q : Nat) (t : Triple) (d e : Nat) (party0 : Bool) : Nat :=
  (t.a * e + (if party0 then (t.b + e) * d else t.b * d) + t.c) % q

/-! ### set intersection: the pairs (j, k) with y_j = x_k contribute x_k -/

def psiExpected (xs ys : List Nat) : List Nat :=
  ys.flatMap fun y => xs.filter (· == y)

def insertSorted (a : Nat) : List Nat → List Nat
  | [] => [a]
  | b :: l => if a ≤ b then a :: b :: l else b :: insertSorted a l

def sortNat (l : List Nat) : List Nat := l.foldr insertSorted []

end Relic.Spec.Cp
