/-
ed_mul_fix_combd (with its table ed_mul_pre_combd) and ed_mul_sim_lot of Model/EdMul.lean: corollaries of the abstract-group
theorems about the ep_* originals (Props/C03.lean: mul_fix_combd_correct, mul_sim_lot_plain_correct) — the Edwards routines
are clones of those and the models are shared (Model/EpMul.lean: tabCombd, mulCombd, simLotNaf).
What is added here: the constants of the C code (dd = ⌈bits(r)/depth⌉, e = ⌈dd/2⌉) satisfy the hypotheses of the comb theorem
for every group order and depth, and the NAF buffer of ed_mul_sim_lot (l = max bits + 1) is always large enough (totality).
-/
import RelicVerif.Lemmas.EdMul
import RelicVerif.Props.C03

namespace Relic.Model.EdMul
open Relic.Model Relic.Model.MulAlg

variable {G : Type} [AddCommGroup G]

theorem bitLen_pos (n : Nat) (h : 0 < n) : 0 < Rec.bitLen n := by
  have h1 := Rec.lt_two_pow_bitLen n
  rcases Nat.eq_zero_or_pos (Rec.bitLen n) with h0 | h0
  · rw [h0] at h1; omega
  · exact h0

/-- ed_mul_pre_combd + ed_mul_fix_combd: total, k • P for every integer k, every depth ≥ 1, every order r < 2^RLC_FP_BITS -/
theorem mulFixCombd_correct (par : Par) (hok : par.Ok) (hd : 0 < par.depth) (p : G) (hp : (par.ord : ℤ) • p = 0) (k : ℤ) :
    mulFixCombd gops par p k = some (k • p) := by
  unfold mulFixCombd
  simp only
  congr 1
  have hb : 0 < par.ordBits := bitLen_pos _ hok.ord_pos
  have h1 : par.ordBits ≤ par.depth * ((par.ordBits + par.depth - 1) / par.depth) := le_mul_ceil _ _ hd
  generalize (par.ordBits + par.depth - 1) / par.depth = dd at h1
  have hdd : 0 < dd := by
    rcases Nat.eq_zero_or_pos dd with h0 | h0
    · rw [h0] at h1; omega
    · exact h0
  have h2 : par.ord < 2 ^ par.ordBits := Rec.lt_two_pow_bitLen par.ord
  have h3 : 2 ^ par.ordBits ≤ 2 ^ (dd * par.depth) := by
    rw [Nat.mul_comm]; exact Nat.pow_le_pow_right (by decide) h1
  exact Relic.Props.C03.mul_fix_combd_correct p par.ord hok.ord_pos hp k dd ((dd + 1) / 2) par.depth (by omega) (by omega)
    (by omega) (by omega)

theorem le_foldl_max : ∀ (xs : List Nat) (a : Nat), a ≤ xs.foldl max a ∧ ∀ x ∈ xs, x ≤ xs.foldl max a := by
  intro xs
  induction xs with
  | nil => intro a; simp
  | cons y ys ih =>
    intro a
    obtain ⟨h1, h2⟩ := ih (max a y)
    refine ⟨by simp only [List.foldl_cons]; omega, ?_⟩
    intro x hx
    simp only [List.foldl_cons]
    rcases List.mem_cons.1 hx with rfl | hx
    · omega
    · exact h2 x hx

/-- the binary NAF ed_mul_sim_lot computes for the scalar k -/
def nafOf (k : ℤ) : List ℤ := Rec.recNafLoop 2 (Rec.bitLen k.natAbs + 2) k.natAbs []

/-- ed_mul_sim_lot: total (the recoding buffer of max bits + 1 entries always suffices) and equal to Σ kᵢ • Pᵢ for every list
    of (point, scalar) pairs — any number of points (also none), scalars of any sign and any length (no reduction modulo the
    order, so no hypothesis on the points either) -/
theorem simLot_correct (pks : List (G × ℤ)) :
    simLot gops pks = some ((pks.map fun pk => pk.2 • pk.1).sum) := by
  unfold simLot
  simp only
  generalize hl : (pks.map fun pk => Rec.bitLen pk.2.natAbs + 1).foldl max 0 = l
  have hle : ∀ pk ∈ pks, Rec.bitLen pk.2.natAbs + 1 ≤ l := by
    intro pk hpk
    rw [← hl]
    exact (le_foldl_max _ 0).2 _ (List.mem_map.2 ⟨pk, hpk, rfl⟩)
  have hrec : ∀ pk ∈ pks, Rec.recNaf l pk.2.natAbs 2 = some (nafOf pk.2) := by
    intro pk hpk
    have := hle pk hpk
    unfold Rec.recNaf nafOf
    rw [if_neg (by omega)]
  have hnaf : (pks.map fun pk => Rec.recNaf l pk.2.natAbs 2) = pks.map fun pk => some (nafOf pk.2) :=
    List.map_congr_left hrec
  rw [hnaf]
  have hany : ((pks.map fun pk => some (nafOf pk.2)).any Option.isNone) = false := by
    simp [List.any_map]
  rw [hany]
  simp only [Bool.false_eq_true, if_false, List.map_map]
  congr 1
  have := Relic.Props.C03.mul_sim_lot_plain_correct (pks.map fun pk => (pk.1, pk.2, nafOf pk.2)) l l (by
    intro t ht
    obtain ⟨pk, hpk, rfl⟩ := List.mem_map.1 ht
    exact ⟨hrec pk hpk, (Rec.recNaf_spec l _ 2 (le_refl _) _ (hrec pk hpk)).2.2.2.2⟩)
  simp only [List.map_map] at this
  exact this

/-- ed_mul_dig: total and [k]P for every single-digit scalar, every point -/
theorem mulDig_correct (isO : G → Bool) (hO : IsOSound isO) (w : Nat) (p : G) (k : Nat) (hk : k < 2 ^ w) :
    mulDig gops isO w p k = some ((k : ℤ) • p) := by
  unfold mulDig
  split
  · rename_i hex
    rcases hex with h | h
    · subst h; simp
    · rw [hO p h]; simp
  · rename_i hne
    have hk0 : 0 < k := by
      rcases Nat.eq_zero_or_pos k with h | h
      · exact absurd (Or.inl h) hne
      · exact h
    have hb : Rec.bitLen k ≤ w := by
      have h1 := (Rec.bitLen_spec k hk0).1
      have h2 : 2 ^ (Rec.bitLen k - 1) < 2 ^ w := by omega
      have h3 := (Nat.pow_lt_pow_iff_right (by decide : 1 < 2)).1 h2
      omega
    obtain ⟨ds, hds⟩ : ∃ ds, Rec.recNaf (w + 1) k 2 = some ds := by
      unfold Rec.recNaf
      rw [if_neg (by omega)]
      exact ⟨_, rfl⟩
    rw [hds, Option.map_some]
    congr 1
    have := signedNaf_correct p (k : ℤ) 2 (w + 1) (le_refl _) ds (by simpa using hds)
    have hnn : ¬ ((k : ℤ) < 0) := by omega
    simpa [tabOdd, signed_spec, hnn] using this

/-- ed_mul_gen: the dispatch around the configured fixed-base method -/
theorem mulGen_correct (fix : G → ℤ → Option G) (g : G) (k : ℤ) (hfix : fix g k = some (k • g)) :
    mulGen gops fix g k = some (k • g) := by
  unfold mulGen
  split
  · rename_i h; subst h; simp
  · exact hfix

/-- ed_mul_sim_gen: the early exits (k = 0 ⇒ ed_mul(Q, m); m = 0 ∨ Q = O ⇒ ed_mul_gen(k)) and the choice between the
    generator-table branch and ed_mul_sim are right whenever the routines they call are -/
theorem simGen_correct (isO : G → Bool) (hO : IsOSound isO) (mul fix : G → ℤ → Option G) (sim : G → ℤ → G → ℤ → Option G)
    (plain : Option (G → ℤ → G → ℤ → Option G)) (g : G) (k : ℤ) (q : G) (m : ℤ)
    (hmul : mul q m = some (m • q)) (hfix : fix g k = some (k • g)) (hsim : sim g k q m = some (k • g + m • q))
    (hplain : ∀ f, plain = some f → f g k q m = some (k • g + m • q)) :
    simGen gops isO mul fix sim plain g k q m = some (k • g + m • q) := by
  unfold simGen
  split
  · rename_i h; subst h; rw [hmul]; simp
  · split
    · rename_i hex
      rw [mulGen_correct fix g k hfix]
      rcases hex with h | h
      · subst h; simp
      · rw [hO q h, zsmul_zero, add_zero]
    · split
      · rename_i f; exact hplain f rfl
      · exact hsim
end Relic.Model.EdMul
