/-
Paillier and Benaloh for property C06: (1+n)^m ≡ 1 + m·n (mod n²); decryption of every well-formed ciphertext returns the
plaintext; multiplying ciphertexts adds plaintexts modulo n (wrap-around included); the CRT decryption of `bn_mxp_crt(…, 1)`
(L-function modulo p² and q²) returns the same value; Benaloh decryption by search returns the plaintext.
The statements are about the executable definitions of Spec/Cp.lean and Model/Cp.lean.
-/
import Mathlib.FieldTheory.Finite.Basic
import Mathlib.Data.ZMod.Basic
import Mathlib.Data.Nat.Choose.Sum
import Mathlib.Data.Nat.Totient
import Mathlib.GroupTheory.OrderOfElement
import RelicVerif.Lemmas.NumC06
import RelicVerif.Lemmas.RsaC06
import RelicVerif.Model.Cp

namespace Relic.Lemmas.PaillierC06
open Relic.Spec.Curve (powMod invEuclid)
open Relic.Spec.Cp Relic.Model.Cp
open Relic.Lemmas.NumC06 (powMod_eq invEuclid_mul_mod invEuclid_lt)

/-- generalised binomial congruence: (1 + k·n)^m ≡ 1 + m·k·n (mod n²) -/
theorem one_add_mul_pow_modEq (n k m : Nat) : (1 + k * n) ^ m ≡ 1 + m * k * n [MOD n * n] := by
  induction m with
  | zero => simp [Nat.ModEq]
  | succ m ih =>
    have h1 : (1 + k * n) ^ (m + 1) ≡ (1 + m * k * n) * (1 + k * n) [MOD n * n] := by
      rw [pow_succ]; exact ih.mul_right _
    have h2 : (1 + m * k * n) * (1 + k * n) = 1 + (m + 1) * k * n + n * n * (m * k * k) := by ring
    refine h1.trans ?_
    rw [h2]
    unfold Nat.ModEq
    exact Nat.add_mul_mod_self_left _ _ _

/-- the binomial identity behind the scheme -/
theorem one_add_pow_modsq (n m : Nat) : (1 + n) ^ m % (n * n) = (1 + m * n) % (n * n) := by
  have h := one_add_mul_pow_modEq n 1 m
  simpa [Nat.ModEq] using h

/-- r^(n·λ) ≡ 1 (mod n²) for every unit r and every λ with r^λ ≡ 1 (mod n) -/
theorem pow_mul_modsq (n r lam : Nat) (hn : 1 < n) (hr : r ^ lam % n = 1) : r ^ (n * lam) % (n * n) = 1 := by
  have hk : r ^ lam = 1 + (r ^ lam / n) * n := by
    have := Nat.div_add_mod (r ^ lam) n
    rw [hr] at this
    rw [Nat.mul_comm] at this; omega
  have h1 : r ^ (n * lam) = (1 + (r ^ lam / n) * n) ^ n := by
    rw [Nat.mul_comm, pow_mul, ← hk]
  have h2 := one_add_mul_pow_modEq n (r ^ lam / n) n
  rw [← h1] at h2
  have h3 : 1 + n * (r ^ lam / n) * n = 1 + n * n * (r ^ lam / n) := by ring
  rw [h3] at h2
  have h4 : r ^ (n * lam) % (n * n) = 1 % (n * n) := by
    rw [h2]; exact Nat.add_mul_mod_self_left _ _ _
  rw [h4]
  apply Nat.mod_eq_of_lt
  nlinarith

/-- the L-function of c^λ for a generalised ciphertext (1 + k·n)^m r^n -/
theorem L_gen (n k lam m r c : Nat) (hn : 1 < n) (hr : r ^ lam % n = 1)
    (hc : c % (n * n) = (1 + k * n) ^ m * r ^ n % (n * n)) :
    (powMod c lam (n * n) - 1) / n = m * lam * k % n := by
  have hnn : 1 < n * n := by nlinarith
  rw [powMod_eq _ _ _ hnn]
  have h1 : c ^ lam ≡ ((1 + k * n) ^ m * r ^ n) ^ lam [MOD n * n] := Nat.ModEq.pow _ hc
  have h2 : ((1 + k * n) ^ m * r ^ n) ^ lam = (1 + k * n) ^ (m * lam) * r ^ (n * lam) := by
    rw [mul_pow, ← pow_mul, ← pow_mul]
  have h3 : r ^ (n * lam) ≡ 1 [MOD n * n] := by
    have := pow_mul_modsq n r lam hn hr
    unfold Nat.ModEq; rw [this, Nat.mod_eq_of_lt hnn]
  have h4 : (1 + k * n) ^ (m * lam) ≡ 1 + (m * lam) * k * n [MOD n * n] := one_add_mul_pow_modEq n k (m * lam)
  have h5 : 1 + (m * lam) * k * n ≡ 1 + (m * lam * k % n) * n [MOD n * n] := by
    have h6 : 1 + (m * lam) * k * n = 1 + (m * lam * k % n) * n + n * n * (m * lam * k / n) := by
      have := Nat.div_add_mod (m * lam * k) n
      calc 1 + (m * lam) * k * n = 1 + (n * (m * lam * k / n) + m * lam * k % n) * n := by rw [this]
        _ = _ := by ring
    rw [h6]; unfold Nat.ModEq; exact Nat.add_mul_mod_self_left _ _ _
  have h7 : c ^ lam ≡ 1 + (m * lam * k % n) * n [MOD n * n] := by
    rw [h2] at h1
    refine h1.trans ?_
    have := h4.mul h3
    rw [Nat.mul_one] at this
    exact this.trans h5
  have hlt : 1 + (m * lam * k % n) * n < n * n := by
    have : m * lam * k % n < n := Nat.mod_lt _ (by omega)
    nlinarith
  have h8 : c ^ lam % (n * n) = 1 + (m * lam * k % n) * n := by
    rw [h7, Nat.mod_eq_of_lt hlt]
  rw [h8, Nat.add_sub_cancel_left, Nat.mul_div_cancel _ (by omega)]

/-- r^λ ≡ 1 (mod p·q) for every unit r as soon as p − 1 and q − 1 divide λ -/
theorem pow_eq_one_mod_mul (p q r lam : Nat) (hp : p.Prime) (hq : q.Prime) (hpq : p ≠ q)
    (hr : Nat.Coprime r (p * q)) (h1 : (p - 1) ∣ lam) (h2 : (q - 1) ∣ lam) : r ^ lam % (p * q) = 1 := by
  have hcop : Nat.Coprime p q := (Nat.coprime_primes hp hq).2 hpq
  have hrp : Nat.Coprime r p := Nat.Coprime.coprime_dvd_right (Dvd.intro _ rfl) hr
  have hrq : Nat.Coprime r q := Nat.Coprime.coprime_dvd_right (Dvd.intro_left _ rfl) hr
  have aux : ∀ s : Nat, s.Prime → Nat.Coprime r s → (s - 1) ∣ lam → r ^ lam ≡ 1 [MOD s] := by
    intro s hs hrs hd
    obtain ⟨j, rfl⟩ := hd
    have := Nat.ModEq.pow_totient hrs
    rw [Nat.totient_prime hs] at this
    have := this.pow j
    rwa [one_pow, ← pow_mul] at this
  have h := (Nat.modEq_and_modEq_iff_modEq_mul hcop).1 ⟨aux p hp hrp h1, aux q hq hrq h2⟩
  have hn : 1 < p * q := by
    have := hp.two_le; have := hq.two_le; nlinarith
  rw [h, Nat.mod_eq_of_lt hn]


/-- common core of both non-CRT decryption routines: any λ that kills the units modulo n and is invertible modulo n works -/
theorem decrypt_core (n lam m r c : Nat) (hn : 1 < n) (hlam : Nat.Coprime lam n) (hr : r ^ lam % n = 1)
    (hc : c % (n * n) = (1 + n) ^ m * r ^ n % (n * n)) :
    (powMod c lam (n * n) - 1) / n * invEuclid n (lam % n) % n = m % n := by
  have hc' : c % (n * n) = (1 + 1 * n) ^ m * r ^ n % (n * n) := by rw [Nat.one_mul]; exact hc
  rw [L_gen n 1 lam m r c hn hr hc', Nat.mul_one]
  have hcop : Nat.Coprime (lam % n) n := by
    unfold Nat.Coprime at *
    rw [← Nat.gcd_rec, Nat.gcd_comm]; exact hlam
  have hinv := invEuclid_mul_mod n (lam % n) hn hcop
  have h1 : m * lam % n * invEuclid n (lam % n) ≡ m * (invEuclid n (lam % n) * (lam % n)) [MOD n] := by
    have a : m * lam % n ≡ m * (lam % n) [MOD n] :=
      (Nat.mod_modEq _ _).trans ((Nat.mod_modEq lam n).symm.mul_left m)
    have := a.mul_right (invEuclid n (lam % n))
    refine this.trans ?_
    rw [Nat.mul_assoc, Nat.mul_comm (lam % n)]
  have h2 : m * (invEuclid n (lam % n) * (lam % n)) ≡ m * 1 [MOD n] := by
    apply Nat.ModEq.mul_left
    unfold Nat.ModEq; rw [hinv, Nat.mod_eq_of_lt hn]
  have := h1.trans h2
  rw [Nat.mul_one] at this
  exact this

/-- n = p·q > 1 -/
theorem one_lt_mul_primes (p q : Nat) (hp : p.Prime) (hq : q.Prime) : 1 < p * q := by
  have := hp.two_le; have := hq.two_le; nlinarith

/-- decryption of ANY representative of a well-formed ciphertext (1+n)^m r^n, for EVERY exponent m (result m mod n) -/
theorem paillier_decrypt (p q m r c : Nat) (hp : p.Prime) (hq : q.Prime) (hpq : p ≠ q)
    (hg : Nat.Coprime (p * q) ((p - 1) * (q - 1))) (hr : Nat.Coprime r (p * q))
    (hc : c % (p * q * (p * q)) = (1 + p * q) ^ m * r ^ (p * q) % (p * q * (p * q))) :
    paillierDecrypt (p * q) p q c = m % (p * q) := by
  have hn := one_lt_mul_primes p q hp hq
  have hlam : Nat.Coprime (Nat.lcm (p - 1) (q - 1)) (p * q) :=
    (Nat.Coprime.coprime_dvd_right (Nat.lcm_dvd_mul _ _) hg).symm
  have hr1 := pow_eq_one_mod_mul p q r _ hp hq hpq hr (Nat.dvd_lcm_left (p - 1) (q - 1)) (Nat.dvd_lcm_right (p - 1) (q - 1))
  have hL : paillierL (p * q) (powMod (p * q + 1) (Nat.lcm (p - 1) (q - 1)) (p * q * (p * q)))
      = Nat.lcm (p - 1) (q - 1) % (p * q) := by
    have := L_gen (p * q) 1 (Nat.lcm (p - 1) (q - 1)) 1 1 (p * q + 1) hn (by rw [one_pow, Nat.mod_eq_of_lt hn])
      (by rw [Nat.one_mul, pow_one, one_pow, Nat.mul_one, Nat.add_comm])
    rw [Nat.one_mul, Nat.mul_one] at this
    exact this
  unfold paillierDecrypt
  simp only []
  rw [hL]
  exact decrypt_core (p * q) _ m r c hn hlam hr1 hc

/-- the plain (non-CRT) branch of cp_phpe_dec, which uses φ(n) in place of λ -/
theorem phpeDecPlain_eq (p q m r c : Nat) (hp : p.Prime) (hq : q.Prime) (hpq : p ≠ q)
    (hg : Nat.Coprime (p * q) ((p - 1) * (q - 1))) (hr : Nat.Coprime r (p * q))
    (hc : c % (p * q * (p * q)) = (1 + p * q) ^ m * r ^ (p * q) % (p * q * (p * q))) :
    phpeDecPlain (p * q) p q c = m % (p * q) := by
  have hn := one_lt_mul_primes p q hp hq
  have hr1 := pow_eq_one_mod_mul p q r _ hp hq hpq hr (Dvd.intro _ rfl : (p - 1) ∣ (p - 1) * (q - 1))
    (Dvd.intro_left _ rfl : (q - 1) ∣ (p - 1) * (q - 1))
  unfold phpeDecPlain
  exact decrypt_core (p * q) _ m r c hn hg.symm hr1 hc

/-- round trip for every plaintext m < n and every unit r -/
theorem paillier_roundtrip (p q m r : Nat) (hp : p.Prime) (hq : q.Prime) (hpq : p ≠ q)
    (hg : Nat.Coprime (p * q) ((p - 1) * (q - 1))) (hr : Nat.Coprime r (p * q)) (hm : m < p * q) :
    paillierDecrypt (p * q) p q (paillierEncrypt (p * q) m r) = m := by
  have hn := one_lt_mul_primes p q hp hq
  have hnn : 1 < p * q * (p * q) := by nlinarith
  rw [paillier_decrypt p q m r _ hp hq hpq hg hr, Nat.mod_eq_of_lt hm]
  unfold paillierEncrypt
  rw [powMod_eq _ _ _ hnn, powMod_eq _ _ _ hnn, Nat.mod_mod, ← Nat.mul_mod, Nat.add_comm]

/-- additive homomorphism incl. sums that wrap the plaintext modulus: what `cp_phpe_add` computes decrypts to m₁ + m₂ mod n -/
theorem paillier_add (p q m1 m2 r1 r2 : Nat) (hp : p.Prime) (hq : q.Prime) (hpq : p ≠ q)
    (hg : Nat.Coprime (p * q) ((p - 1) * (q - 1))) (hr1 : Nat.Coprime r1 (p * q)) (hr2 : Nat.Coprime r2 (p * q)) :
    paillierDecrypt (p * q) p q
        (paillierEncrypt (p * q) m1 r1 * paillierEncrypt (p * q) m2 r2 % (p * q * (p * q))) = (m1 + m2) % (p * q) := by
  have hn := one_lt_mul_primes p q hp hq
  have hnn : 1 < p * q * (p * q) := by nlinarith
  apply paillier_decrypt p q (m1 + m2) (r1 * r2) _ hp hq hpq hg (Nat.Coprime.mul_left hr1 hr2)
  unfold paillierEncrypt
  rw [powMod_eq _ _ _ hnn, powMod_eq _ _ _ hnn, powMod_eq _ _ _ hnn, powMod_eq _ _ _ hnn, Nat.mod_mod]
  simp only [← Nat.mul_mod]
  rw [Nat.add_comm (p * q) 1]
  congr 1
  ring


/-- one half of the CRT decryption: L_p(c^(p−1) mod p²)·dp mod p = m mod p -/
theorem crt_half (p q m r c dp : Nat) (hp : p.Prime) (hrp : Nat.Coprime r p)
    (hdp : dp * ((p - 1) * q % p) % p = 1)
    (hc : c % (p * p) = (1 + q * p) ^ m * (r ^ q) ^ p % (p * p)) :
    (powMod c (p - 1) (p * p) - 1) / p * dp % p = m % p := by
  have hp1 : 1 < p := hp.one_lt
  have hr1 : (r ^ q) ^ (p - 1) % p = 1 := by
    have := Nat.ModEq.pow_totient hrp
    rw [Nat.totient_prime hp] at this
    have := this.pow q
    rw [one_pow, ← pow_mul, Nat.mul_comm, pow_mul] at this
    rw [this, Nat.mod_eq_of_lt hp1]
  rw [L_gen p q (p - 1) m (r ^ q) c hp1 hr1 hc]
  have a : m * (p - 1) * q % p ≡ m * ((p - 1) * q % p) [MOD p] := by
    rw [Nat.mul_assoc]
    exact (Nat.mod_modEq _ _).trans ((Nat.mod_modEq _ p).symm.mul_left m)
  have h1 : m * (p - 1) * q % p * dp ≡ m * (dp * ((p - 1) * q % p)) [MOD p] := by
    refine (a.mul_right dp).trans ?_
    rw [Nat.mul_assoc, Nat.mul_comm _ dp]
  have h2 : m * (dp * ((p - 1) * q % p)) ≡ m * 1 [MOD p] := by
    apply Nat.ModEq.mul_left
    unfold Nat.ModEq; rw [hdp, Nat.mod_eq_of_lt hp1]
  have := h1.trans h2
  rw [Nat.mul_one] at this
  exact this

/-- the CRT decryption (L_p, L_q, Garner) with the precomputed constants of cp_phpe_gen returns the same plaintext -/
theorem phpeDecCrt_eq (p q m r c dp dq qi : Nat) (hp : p.Prime) (hq : q.Prime) (hpq : p ≠ q)
    (hg : Nat.Coprime (p * q) ((p - 1) * (q - 1))) (hr : Nat.Coprime r (p * q))
    (hdp : dp * ((p - 1) * q % p) % p = 1) (hdq : dq * ((q - 1) * p % q) % q = 1) (hqi : qi * q % p = 1)
    (hc : c % (p * q * (p * q)) = (1 + p * q) ^ m * r ^ (p * q) % (p * q * (p * q))) :
    phpeDecCrt p q dp dq qi c = m % (p * q) := by
  have _ := hpq
  have _ := hg
  have hrp : Nat.Coprime r p := Nat.Coprime.coprime_dvd_right (Dvd.intro _ rfl) hr
  have hrq : Nat.Coprime r q := Nat.Coprime.coprime_dvd_right (Dvd.intro_left _ rfl) hr
  have hcm : c ≡ (1 + p * q) ^ m * r ^ (p * q) [MOD p * q * (p * q)] := hc
  have hcp : c % (p * p) = (1 + q * p) ^ m * (r ^ q) ^ p % (p * p) := by
    have := Nat.ModEq.of_dvd (⟨q * q, by ring⟩ : p * p ∣ p * q * (p * q)) hcm
    rw [Nat.mul_comm p q, pow_mul] at this
    exact this
  have hcq : c % (q * q) = (1 + p * q) ^ m * (r ^ p) ^ q % (q * q) := by
    have := Nat.ModEq.of_dvd (⟨p * p, by ring⟩ : q * q ∣ p * q * (p * q)) hcm
    rw [pow_mul] at this
    exact this
  unfold phpeDecCrt mxpCrtL
  simp only []
  rw [crt_half p q m r c dp hp hrp hdp hcp, crt_half q p m r c dq hq hrq hdq hcq]
  exact Relic.Lemmas.RsaC06.garner_eq p q qi m hp.one_lt hq.pos hqi


/-- in a monoid, an element g ≠ 1 with g^t = 1, t prime, has t distinct powers g^0 … g^(t−1) -/
theorem pow_ne_of_prime_order {M : Type*} [Monoid M] (g : M) (t : Nat) (ht : t.Prime) (hgt : g ^ t = 1) (hg1 : g ≠ 1)
    (i j : Nat) (hij : i < j) (hj : j < t) : g ^ i ≠ g ^ j := by
  intro h
  have hu : IsUnit g := IsUnit.of_pow_eq_one hgt ht.pos.ne'
  have hj' : j = i + (j - i) := by omega
  rw [hj', pow_add] at h
  have h1 : g ^ (j - i) = 1 := by
    have h' : g ^ i * 1 = g ^ i * g ^ (j - i) := by rw [mul_one]; exact h
    exact ((hu.pow i).mul_left_cancel h').symm
  have hcop : Nat.Coprime (j - i) t := by
    apply Nat.Coprime.symm
    rw [Nat.Prime.coprime_iff_not_dvd ht]
    intro hd
    have := Nat.le_of_dvd (by omega) hd
    omega
  have h2 : g ^ (Nat.gcd (j - i) t) = 1 := pow_gcd_eq_one.2 ⟨h1, hgt⟩
  rw [hcop, pow_one] at h2
  exact hg1 h2

/-- Benaloh decryption of any representative of y^M u^t, for EVERY exponent M (result M mod t) -/
theorem benaloh_core (p q y t M u c : Nat) (hp : p.Prime) (hq : q.Prime) (hpq : p ≠ q) (ht : t.Prime)
    (htp : t ∣ p - 1) (hy : Nat.Coprime y (p * q)) (hu : Nat.Coprime u (p * q))
    (hy1 : y ^ ((p - 1) * (q - 1) / t) % (p * q) ≠ 1)
    (hc : c % (p * q) = y ^ M * u ^ t % (p * q)) :
    bdpeDecrypt (p * q) p q y t c = some (M % t) := by
  have hn := one_lt_mul_primes p q hp hq
  have hcop : Nat.Coprime p q := (Nat.coprime_primes hp hq).2 hpq
  have hte : t * ((p - 1) * (q - 1) / t) = (p - 1) * (q - 1) :=
    Nat.mul_div_cancel' (Dvd.dvd.mul_right htp _)
  have hphi : Nat.totient (p * q) = (p - 1) * (q - 1) := by
    rw [Nat.totient_mul hcop, Nat.totient_prime hp, Nat.totient_prime hq]
  unfold bdpeDecrypt
  simp only [powMod_eq _ _ _ hn]
  generalize he : (p - 1) * (q - 1) / t = e at hte hy1 ⊢
  have hone : ∀ x, Nat.Coprime x (p * q) → x ^ (t * e) ≡ 1 [MOD p * q] := by
    intro x hx
    have := Nat.ModEq.pow_totient hx
    rwa [hphi, ← hte] at this
  have hGt : (y ^ e) ^ t ≡ 1 [MOD p * q] := by
    rw [← pow_mul, Nat.mul_comm e t]; exact hone y hy
  have hce : c ^ e ≡ (y ^ e) ^ (M % t) [MOD p * q] := by
    have h1 : c ^ e ≡ (y ^ M * u ^ t) ^ e [MOD p * q] := Nat.ModEq.pow _ hc
    have h2 : (y ^ M * u ^ t) ^ e = (y ^ e) ^ M * u ^ (t * e) := by
      rw [mul_pow, ← pow_mul, ← pow_mul, ← pow_mul, Nat.mul_comm M e]
    have h3 : ∀ G : Nat, G ^ M = (G ^ t) ^ (M / t) * G ^ (M % t) := by
      intro G
      rw [← pow_mul, ← pow_add, Nat.div_add_mod]
    have h4 : ((y ^ e) ^ t) ^ (M / t) * (y ^ e) ^ (M % t) ≡ 1 * (y ^ e) ^ (M % t) [MOD p * q] := by
      apply Nat.ModEq.mul_right
      have := hGt.pow (M / t)
      rwa [one_pow] at this
    rw [h2, h3 (y ^ e)] at h1
    refine h1.trans ?_
    have := h4.mul (hone u hu)
    rwa [Nat.one_mul, Nat.mul_one] at this
  -- the group element
  have hg1 : ((y ^ e : Nat) : ZMod (p * q)) ≠ 1 := by
    intro h
    have h' : ((y ^ e : Nat) : ZMod (p * q)) = ((1 : Nat) : ZMod (p * q)) := by rw [h, Nat.cast_one]
    rw [ZMod.natCast_eq_natCast_iff'] at h'
    rw [Nat.mod_eq_of_lt hn] at h'
    exact hy1 h'
  have hgt : ((y ^ e : Nat) : ZMod (p * q)) ^ t = 1 := by
    have := (ZMod.natCast_eq_natCast_iff _ _ _).2 hGt
    rwa [Nat.cast_pow, Nat.cast_one] at this
  rw [List.find?_range_eq_some]
  refine ⟨?_, List.mem_range.2 (Nat.mod_lt _ ht.pos), ?_⟩
  · rw [beq_iff_eq, ← Nat.pow_mod]
    exact hce.symm
  · intro j hj
    rw [Bool.not_eq_true', beq_eq_false_iff_ne, ← Nat.pow_mod]
    intro h
    have h5 : (y ^ e) ^ j ≡ (y ^ e) ^ (M % t) [MOD p * q] := Nat.ModEq.trans h hce
    have h6 : ((y ^ e : Nat) : ZMod (p * q)) ^ j = ((y ^ e : Nat) : ZMod (p * q)) ^ (M % t) := by
      have := (ZMod.natCast_eq_natCast_iff _ _ _).2 h5
      simpa only [Nat.cast_pow] using this
    exact pow_ne_of_prime_order _ t ht hgt hg1 j (M % t) hj (Nat.mod_lt _ ht.pos) h6

/-- Benaloh: the search finds exactly the plaintext, for every m < t -/
theorem benaloh_roundtrip (p q y t m u : Nat) (hp : p.Prime) (hq : q.Prime) (hpq : p ≠ q) (ht : t.Prime)
    (htp : t ∣ p - 1) (hy : Nat.Coprime y (p * q)) (hu : Nat.Coprime u (p * q))
    (hy1 : y ^ ((p - 1) * (q - 1) / t) % (p * q) ≠ 1) (hm : m < t) :
    bdpeDecrypt (p * q) p q y t (y ^ m * u ^ t % (p * q)) = some m := by
  have := benaloh_core p q y t m u (y ^ m * u ^ t % (p * q)) hp hq hpq ht htp hy hu hy1 (Nat.mod_mod _ _)
  rwa [Nat.mod_eq_of_lt hm] at this

/-- Benaloh is additively homomorphic modulo t -/
theorem benaloh_add (p q y t m1 m2 u1 u2 : Nat) (hp : p.Prime) (hq : q.Prime) (hpq : p ≠ q) (ht : t.Prime)
    (htp : t ∣ p - 1) (hy : Nat.Coprime y (p * q)) (hu1 : Nat.Coprime u1 (p * q)) (hu2 : Nat.Coprime u2 (p * q))
    (hy1 : y ^ ((p - 1) * (q - 1) / t) % (p * q) ≠ 1) :
    bdpeDecrypt (p * q) p q y t ((y ^ m1 * u1 ^ t % (p * q)) * (y ^ m2 * u2 ^ t % (p * q)) % (p * q)) = some ((m1 + m2) % t) := by
  apply benaloh_core p q y t (m1 + m2) (u1 * u2) _ hp hq hpq ht htp hy (Nat.Coprime.mul_left hu1 hu2) hy1
  rw [Nat.mod_mod, ← Nat.mul_mod]
  congr 1
  ring

end Relic.Lemmas.PaillierC06
