/-
Modular exponentiation (Model/NtMxp.lean): every algorithm returns a^|b| mod m (canonical), the early exits, the reported
errors and the inversion for negative exponents are exactly as specified by `MxpSpec`.
-/
import RelicVerif.Model.NtMxp
import RelicVerif.Lemmas.Rec
import Mathlib.Data.Int.ModEq
import Mathlib.Data.Int.GCD
import Mathlib.RingTheory.Coprime.Lemmas
import Mathlib.Tactic.Ring
import Mathlib.Tactic.Linarith

namespace Relic.Model.NtMxp
open Relic.Model

/-! ### Montgomery form at value level -/

theorem half_spec (m x : Int) (hodd : m % 2 = 1) (h0 : 0 ≤ x) (hx : x < m) :
    0 ≤ half m x ∧ half m x < m ∧ 2 * half m x ≡ x [ZMOD m] := by
  have h : (2 * half m x = x ∨ 2 * half m x = x + m) ∧ 0 ≤ half m x ∧ half m x < m := by
    unfold half; split <;> omega
  refine ⟨h.2.1, h.2.2, ?_⟩
  rcases h.1 with e | e
  · rw [e]
  · rw [e]; simp [Int.ModEq]

theorem halfIter_spec (m : Int) (hodd : m % 2 = 1) : ∀ (k : Nat) (x : Int), 0 ≤ x → x < m →
    0 ≤ halfIter m k x ∧ halfIter m k x < m ∧ 2 ^ k * halfIter m k x ≡ x [ZMOD m] := by
  intro k
  induction k with
  | zero => intro x h0 hx; simp [halfIter, h0, hx]
  | succ k ih =>
    intro x h0 hx
    obtain ⟨a0, a1, a2⟩ := half_spec m x hodd h0 hx
    obtain ⟨b0, b1, b2⟩ := ih (half m x) a0 a1
    refine ⟨b0, b1, ?_⟩
    show 2 ^ (k + 1) * halfIter m k (half m x) ≡ x [ZMOD m]
    have : (2 : Int) ^ (k + 1) * halfIter m k (half m x) = 2 * (2 ^ k * halfIter m k (half m x)) := by ring
    rw [this]
    exact (b2.mul_left 2).trans a2

/-- what the loops need from the Montgomery context -/
structure Good (M : Mont) : Prop where
  inv : M.R * M.ri ≡ 1 [ZMOD M.m]

theorem ofMod_good (w : Nat) (m : Int) (hm : 1 < m) (hodd : m % 2 = 1) : Good (Mont.ofMod w m) ∧ (Mont.ofMod w m).m = m := by
  refine ⟨⟨?_⟩, rfl⟩
  exact (halfIter_spec m hodd _ 1 (by omega) hm).2.2

/-- x is the Montgomery form of v -/
def Rep (M : Mont) (x v : Int) : Prop := x ≡ v * M.R [ZMOD M.m]

theorem rep_conv (M : Mont) (a : Int) : Rep M (M.conv a) a :=
  (Int.mod_modEq _ _).trans ((Int.mod_modEq a M.m).mul_right M.R)

theorem rep_mul {M : Mont} (g : Good M) {x y u v : Int} (hx : Rep M x u) (hy : Rep M y v) : Rep M (M.mul x y) (u * v) := by
  unfold Rep Mont.mul Mont.redc at *
  refine (Int.mod_modEq _ _).trans ?_
  have h1 : x * y * M.ri ≡ (u * M.R) * (v * M.R) * M.ri [ZMOD M.m] := (hx.mul hy).mul_right _
  have h2 : (u * M.R) * (v * M.R) * M.ri = (u * v * M.R) * (M.R * M.ri) := by ring
  rw [h2] at h1
  have h3 : (u * v * M.R) * (M.R * M.ri) ≡ (u * v * M.R) * 1 [ZMOD M.m] := g.inv.mul_left _
  rw [mul_one] at h3
  exact h1.trans h3

theorem rep_sqr {M : Mont} (g : Good M) {x u : Int} (hx : Rep M x u) : Rep M (M.sqr x) (u * u) := rep_mul g hx hx

theorem back_eq {M : Mont} (g : Good M) {x v : Int} (hx : Rep M x v) : M.back x = v % M.m := by
  unfold Rep Mont.back Mont.redc at *
  have h1 : x * M.ri ≡ v * M.R * M.ri [ZMOD M.m] := hx.mul_right _
  have h2 : v * M.R * M.ri = v * (M.R * M.ri) := by ring
  rw [h2] at h1
  have h3 : v * (M.R * M.ri) ≡ v * 1 [ZMOD M.m] := g.inv.mul_left _
  rw [mul_one] at h3
  exact h1.trans h3

/-! ### bits of the exponent -/

theorem shr_step (b i : Nat) : b >>> i = 2 * (b >>> (i + 1)) + (b >>> i) % 2 := by
  rw [Nat.shiftRight_succ]; omega

theorem bit_true {b i : Nat} (h : bit b i = true) : b >>> i = 2 * (b >>> (i + 1)) + 1 := by
  have := shr_step b i
  simp only [bit, decide_eq_true_eq] at h
  omega

theorem bit_false {b i : Nat} (h : ¬ bit b i = true) : b >>> i = 2 * (b >>> (i + 1)) := by
  have := shr_step b i
  simp only [bit, decide_eq_true_eq] at h
  omega

theorem shr_top (b : Nat) (hb : 0 < b) : b >>> (Rec.bitLen b - 1) = 1 := by
  obtain ⟨h1, h2⟩ := Rec.bitLen_spec b hb
  have hp := Rec.bitLen_pos hb
  rw [Nat.shiftRight_eq_div_pow]
  apply Nat.div_eq_of_lt_le
  · simpa using h1
  · have : 2 ^ Rec.bitLen b = 2 * 2 ^ (Rec.bitLen b - 1) := by
      rw [← pow_succ']; congr 1; omega
    omega

theorem shr_all (b : Nat) : b >>> Rec.bitLen b = 0 := by
  rw [Nat.shiftRight_eq_div_pow]
  exact Nat.div_eq_of_lt (Rec.lt_two_pow_bitLen b)

/-! ### bn_mxp_basic / bn_mxp_dig -/

theorem sqmLoop_spec {M : Mont} (g : Good M) (a t : Int) (b : Nat) (ht : Rep M t a) :
    ∀ (i : Nat) (c : Int), Rep M c (a ^ (b >>> i)) → Rep M (sqmLoop M t b i c) (a ^ b) := by
  intro i
  induction i with
  | zero => intro c hc; simpa [sqmLoop] using hc
  | succ i ih =>
    intro c hc
    simp only [sqmLoop]
    apply ih
    have hs := rep_sqr g hc
    by_cases hb : bit b i = true
    · rw [if_pos hb, bit_true hb]
      have := rep_mul g hs ht
      have e : a ^ (2 * (b >>> (i + 1)) + 1) = a ^ (b >>> (i + 1)) * a ^ (b >>> (i + 1)) * a := by ring
      rw [e]; exact this
    · rw [if_neg hb, bit_false hb]
      have e : a ^ (2 * (b >>> (i + 1))) = a ^ (b >>> (i + 1)) * a ^ (b >>> (i + 1)) := by ring
      rw [e]; exact hs

theorem basicCore_eq (w : Nat) (a : Int) (b : Nat) (m : Int) (hm : 1 < m) (hodd : m % 2 = 1) (hb : 0 < b) :
    basicCore w a b m = a ^ b % m := by
  obtain ⟨g, hmm⟩ := ofMod_good w m hm hodd
  unfold basicCore
  have ht := rep_conv (Mont.ofMod w m) a
  have h := sqmLoop_spec g a _ b ht (Rec.bitLen b - 1) _ (by rw [shr_top b hb, pow_one]; exact ht)
  simpa [hmm] using back_eq g h

/-! ### bn_mxp_monty -/

theorem ladder_spec {M : Mont} (g : Good M) (a : Int) (b : Nat) :
    ∀ (i : Nat) (s : Int × Int), Rep M s.1 (a ^ (b >>> i)) → Rep M s.2 (a ^ (b >>> i + 1)) →
      Rep M (ladder M b i s).1 (a ^ b) := by
  intro i
  induction i with
  | zero => intro s h1 _; simpa [ladder] using h1
  | succ i ih =>
    intro s h1 h2
    simp only [ladder]
    by_cases hb : bit b i = true
    · rw [if_pos hb]
      apply ih
      · rw [bit_true hb]
        have := rep_mul g h1 h2
        have e : a ^ (2 * (b >>> (i + 1)) + 1) = a ^ (b >>> (i + 1)) * a ^ (b >>> (i + 1) + 1) := by ring
        rw [e]; exact this
      · rw [bit_true hb]
        have := rep_sqr g h2
        have e : a ^ (2 * (b >>> (i + 1)) + 1 + 1) = a ^ (b >>> (i + 1) + 1) * a ^ (b >>> (i + 1) + 1) := by ring
        rw [e]; exact this
    · rw [if_neg hb]
      apply ih
      · rw [bit_false hb]
        have := rep_sqr g h1
        have e : a ^ (2 * (b >>> (i + 1))) = a ^ (b >>> (i + 1)) * a ^ (b >>> (i + 1)) := by ring
        rw [e]; exact this
      · rw [bit_false hb]
        have := rep_mul g h1 h2
        have e : a ^ (2 * (b >>> (i + 1)) + 1) = a ^ (b >>> (i + 1)) * a ^ (b >>> (i + 1) + 1) := by ring
        rw [e]; exact this

theorem montyCore_eq (w : Nat) (a : Int) (b : Nat) (m : Int) (hm : 1 < m) (hodd : m % 2 = 1) :
    montyCore w a b m = a ^ b % m := by
  obtain ⟨g, hmm⟩ := ofMod_good w m hm hodd
  unfold montyCore
  have h := ladder_spec g a b (Rec.bitLen b) ((Mont.ofMod w m).conv 1, (Mont.ofMod w m).conv a)
    (by rw [shr_all]; simpa using rep_conv (Mont.ofMod w m) 1)
    (by rw [shr_all]; simpa using rep_conv (Mont.ofMod w m) a)
  simpa [hmm] using back_eq g h

/-! ### bn_mxp_slide -/

theorem winWidth_pos (l : Nat) : 0 < winWidth l := by
  unfold winWidth; split_ifs <;> omega

theorem mkTab_spec {M : Mont} (g : Good M) (a t2 : Int) (h2 : Rep M t2 (a ^ 2)) :
    ∀ (n : Nat) (t0 : Int) (s i : Nat), Rep M t0 (a ^ s) → i < n → Rep M ((mkTab M t2 n t0).getD i 0) (a ^ (s + 2 * i)) := by
  intro n
  induction n with
  | zero => intro t0 s i _ hi; omega
  | succ n ih =>
    intro t0 s i h0 hi
    cases i with
    | zero => simpa [mkTab] using h0
    | succ i =>
      simp only [mkTab, List.getD_cons_succ]
      have h := ih (M.mul t0 t2) (s + 2) i (by have := rep_mul g h0 h2; rwa [← pow_add] at this) (by omega)
      have e : s + 2 + 2 * i = s + 2 * (i + 1) := by ring
      rwa [e] at h

theorem sqrN_spec {M : Mont} (g : Good M) (a : Int) :
    ∀ (j : Nat) (t : Int) (e : Nat), Rep M t (a ^ e) → Rep M (sqrN M j t) (a ^ (e * 2 ^ j)) := by
  intro j
  induction j with
  | zero => intro t e h; simpa [sqrN] using h
  | succ j ih =>
    intro t e h
    simp only [sqrN]
    have h' := ih (M.sqr t) (e * 2) (by have := rep_sqr g h; rwa [← pow_add, ← Nat.mul_two] at this)
    have e' : e * 2 * 2 ^ j = e * 2 ^ (j + 1) := by ring
    rwa [e'] at h'

/-- the step function of `Rec.evalSlw` -/
def slwF (acc d : Int) : Int := if d = 0 then 2 * acc else acc * 2 ^ (Rec.bitLen d.toNat) + d

theorem scan_spec {M : Mont} (g : Good M) (a : Int) (wd : Nat) (hw : 0 < wd) (tab : List Int)
    (htab : ∀ i, i < 2 ^ (wd - 1) → Rep M (tab.getD i 0) (a ^ (2 * i + 1))) :
    ∀ (ds : List Int), (∀ d ∈ ds, d = 0 ∨ (d % 2 = 1 ∧ 0 < d ∧ d < 2 ^ wd)) → ∀ (t : Int) (e : Nat), Rep M t (a ^ e) →
      ∃ e' : Nat, ds.foldl slwF (e : Int) = (e' : Int) ∧ Rep M (scan M tab ds t) (a ^ e') := by
  intro ds
  induction ds with
  | nil => intro _ t e h; exact ⟨e, rfl, by simpa [scan] using h⟩
  | cons d ds ih =>
    intro hd t e h
    have hd0 := hd d (by simp)
    have hds : ∀ d' ∈ ds, d' = 0 ∨ (d' % 2 = 1 ∧ 0 < d' ∧ d' < 2 ^ wd) := fun d' h' => hd d' (by simp [h'])
    simp only [scan, List.foldl_cons]
    rcases hd0 with h0 | ⟨hodd, hpos, hlt⟩
    · -- a zero entry: one squaring
      subst h0
      have hs := rep_sqr g h
      rw [← pow_add] at hs
      obtain ⟨e', he', hr⟩ := ih hds (M.sqr t) (e + e) hs
      refine ⟨e', ?_, ?_⟩
      · rw [← he']; simp only [slwF, if_true]; push_cast; ring_nf
      · simpa [scan, scanStep] using hr
    · -- a window
      obtain ⟨dn, rfl⟩ : ∃ dn : Nat, d = (dn : Int) := ⟨d.toNat, by omega⟩
      have hdn : dn % 2 = 1 := by omega
      have hdl : dn < 2 ^ wd := by exact_mod_cast hlt
      have hidx : dn / 2 < 2 ^ (wd - 1) := by
        have : 2 ^ wd = 2 * 2 ^ (wd - 1) := by rw [← pow_succ']; congr 1; omega
        omega
      have hne : ((dn : Int) = 0) = False := by simp; omega
      have hstep : Rep M (scanStep M tab t (dn : Int)) (a ^ (e * 2 ^ Rec.bitLen dn + dn)) := by
        simp only [scanStep, hne, if_false, Int.toNat_natCast]
        have h1 := sqrN_spec g a (Rec.bitLen dn) t e h
        have h2 := htab (dn / 2) hidx
        have := rep_mul g h1 h2
        rw [← pow_add] at this
        have e2 : 2 * (dn / 2) + 1 = dn := by omega
        rwa [e2] at this
      obtain ⟨e', he', hr⟩ := ih hds _ _ hstep
      refine ⟨e', ?_, ?_⟩
      · rw [← he']; simp only [slwF, hne, if_false, Int.toNat_natCast]; push_cast; ring_nf
      · simpa [scan] using hr

theorem evalSlw_eq (ds : List Int) : Rec.evalSlw ds = ds.foldl slwF 0 := rfl

theorem slideCore_eq (w : Nat) (a : Int) (b : Nat) (m : Int) (hm : 1 < m) (hodd : m % 2 = 1) :
    slideCore w a b m = some (a ^ b % m) := by
  obtain ⟨g, hmm⟩ := ofMod_good w m hm hodd
  unfold slideCore
  have hwp := winWidth_pos (Rec.bitLen b)
  -- the recoding never reports ERR_NO_BUFFER: the capacity handed over is the bit length
  obtain ⟨ds, hds⟩ : ∃ ds, Rec.recSlw (Rec.bitLen b) b (winWidth (Rec.bitLen b)) = some ds := by
    unfold Rec.recSlw; simp
  obtain ⟨hval, hdig, _, _⟩ := Rec.recSlw_spec _ b _ hwp ds hds
  simp only [hds, Option.map_some, Option.some.injEq]
  set M := Mont.ofMod w m with hM
  have ht0 := rep_conv M a
  have ht2 : Rep M (M.sqr (M.conv a)) (a ^ 2) := by
    have := rep_sqr g ht0; rwa [← pow_two] at this
  have htab : ∀ i, i < 2 ^ (winWidth (Rec.bitLen b) - 1) →
      Rep M ((mkTab M (M.sqr (M.conv a)) (2 ^ (winWidth (Rec.bitLen b) - 1)) (M.conv a)).getD i 0) (a ^ (2 * i + 1)) := by
    intro i hi
    have := mkTab_spec g a _ ht2 _ (M.conv a) 1 i (by simpa using ht0) hi
    rwa [Nat.add_comm] at this
  have h1 : Rep M (M.conv 1) (a ^ 0) := by simpa using rep_conv M 1
  obtain ⟨e', he', hr⟩ := scan_spec g a _ hwp _ htab ds hdig (M.conv 1) 0 h1
  rw [evalSlw_eq] at hval
  have : e' = b := by
    have : ((e' : Nat) : Int) = (b : Int) := by rw [← he', ← hval]; rfl
    exact_mod_cast this
  subst this
  have := back_eq g hr
  rw [this, hM, hmm]

/-! ### bn_mod_inv through the cofactor loop of bn_gcd_ext_basic -/

theorem egcdLoop_spec (A Mo : Nat) (hMo : 1 < Mo) :
    ∀ (v u : Nat) (d x : Int) (dn xn : Nat) (s : Int), (s = 1 ∨ s = -1) → d = s * dn → x = -s * xn →
      u * xn + v * dn = Mo → dn < Mo → (0 < v → xn < Mo) →
      (u : Int) ≡ d * A [ZMOD Mo] → (v : Int) ≡ x * A [ZMOD Mo] → Nat.gcd u v = Nat.gcd A Mo →
      (egcdLoop u v d x).1 = Nat.gcd A Mo ∧ ((egcdLoop u v d x).1 : Int) ≡ (egcdLoop u v d x).2 * A [ZMOD Mo] ∧
        -(Mo : Int) < (egcdLoop u v d x).2 ∧ (egcdLoop u v d x).2 < Mo := by
  intro v
  induction v using Nat.strong_induction_on with
  | _ v ih =>
    intro u d x dn xn s hs hd hx hsum hdn hxn hu hv hg
    rw [egcdLoop]
    by_cases hv0 : v = 0
    · subst hv0
      simp only [dif_pos]
      refine ⟨by simpa using hg, hu, ?_, ?_⟩ <;> rcases hs with rfl | rfl <;> subst hd <;> push_cast <;> omega
    · simp only [dif_neg hv0]
      have hvpos : 0 < v := Nat.pos_of_ne_zero hv0
      have hlt : u % v < v := Nat.mod_lt _ hvpos
      have hdm : v * (u / v) + u % v = u := Nat.div_add_mod u v
      have hsum' : v * (dn + (u / v) * xn) + (u % v) * xn = Mo := by
        have : v * (dn + (u / v) * xn) + (u % v) * xn = (v * (u / v) + u % v) * xn + v * dn := by ring
        rw [this, hdm]; exact hsum
      apply ih (u % v) hlt v x (d - ((u / v : Nat) : Int) * x) xn (dn + (u / v) * xn) (-s)
      · rcases hs with rfl | rfl <;> simp
      · rw [hx]
      · rw [hd, hx]; push_cast; ring
      · exact hsum'
      · exact hxn hvpos
      · intro hpos
        -- v ≥ 2 because v > u % v ≥ 1
        have h2 : 2 ≤ v := by omega
        have : 2 * (dn + (u / v) * xn) ≤ v * (dn + (u / v) * xn) := Nat.mul_le_mul_right _ h2
        omega
      · exact hv
      · have e : ((u % v : Nat) : Int) = (u : Int) - (v : Int) * ((u / v : Nat) : Int) := by
          have h : (u : Int) = (v : Int) * ((u / v : Nat) : Int) + ((u % v : Nat) : Int) := by exact_mod_cast hdm.symm
          linarith
        rw [e]
        have : (d - ((u / v : Nat) : Int) * x) * A = d * A - ((u / v : Nat) : Int) * (x * A) := by ring
        rw [this]
        have h3 := (hv.mul_left ((u / v : Nat) : Int))
        have h4 := hu.sub h3
        have e2 : (v : Int) * ((u / v : Nat) : Int) = ((u / v : Nat) : Int) * (v : Int) := by ring
        rw [e2]; exact h4
      · rw [← hg, Nat.gcd_comm u v, Nat.gcd_rec v u, Nat.gcd_comm]

theorem modInv_spec (r m : Int) (hm : 1 < m) (hr : 0 ≤ r) :
    (Int.gcd r m = 1 → ∃ x, modInv r m = some x ∧ 0 ≤ x ∧ x < m ∧ x * r ≡ 1 [ZMOD m]) ∧
    (Int.gcd r m ≠ 1 → modInv r m = none) := by
  obtain ⟨Mo, rfl⟩ : ∃ Mo : Nat, m = (Mo : Int) := ⟨m.toNat, by omega⟩
  obtain ⟨A, rfl⟩ : ∃ A : Nat, r = (A : Int) := ⟨r.toNat, by omega⟩
  have hMo : 1 < Mo := by exact_mod_cast hm
  have hgcd : Int.gcd (A : Int) (Mo : Int) = Nat.gcd A Mo := by simp [Int.gcd]
  by_cases hA : A = 0
  · subst hA
    have hg0 : gcdExtD ((0 : Nat) : Int) (Mo : Int) = ((Mo : Int), 0) := by
      unfold gcdExtD; rw [if_pos (by simp)]; simp
    have hne1 : ¬ ((Mo : Int) = 1) := by omega
    have : modInv ((0 : Nat) : Int) (Mo : Int) = none := by
      unfold modInv; rw [hg0]; simp [hne1]
    refine ⟨fun h => ?_, fun _ => this⟩
    rw [hgcd] at h; simp at h; omega
  · have hA' : ((A : Int) = 0) = False := by simp [hA]
    have hM' : ((Mo : Int) = 0) = False := by simp; omega
    have hneg : ((A : Int) < 0) = False := by simp
    obtain ⟨h1, h2, h3, h4⟩ := egcdLoop_spec A Mo hMo Mo A 1 0 1 0 1 (Or.inl rfl) (by simp) (by simp) (by simp) hMo
      (fun _ => by omega) (by simp) (by simp [Int.ModEq]) rfl
    simp only [modInv, gcdExtD, hA', hM', hneg, if_false, Int.natAbs_natCast]
    set res := egcdLoop A Mo 1 0 with hres
    rw [hgcd]
    constructor
    · intro hg
      have hone : ((res.1 : Nat) : Int) = 1 := by rw [h1, hg]; rfl
      simp only [hone, if_true]
      refine ⟨_, rfl, ?_, ?_, ?_⟩
      · split <;> omega
      · split <;> omega
      · have h2' : res.2 * A ≡ 1 [ZMOD Mo] := by
          have h2s := h2.symm
          rw [h1, hg] at h2s
          simpa using h2s
        split
        · have : (res.2 + Mo) * A = res.2 * A + Mo * A := by ring
          rw [this]
          have h5 : res.2 * (A : Int) + Mo * A ≡ res.2 * A [ZMOD Mo] := by simp [Int.ModEq]
          exact h5.trans h2'
        · exact h2'
    · intro hg
      have : ¬ ((res.1 : Int) = 1) := by rw [h1]; exact_mod_cast hg
      simp [this]

/-! ### the frame: early exits, reported errors, negative exponents -/

/-- the full input/output specification of bn_mxp_basic / slide / monty (BN_MOD = MONTY) on all integers -/
def MxpSpec (a b m : Int) (r : Option Int) : Prop :=
  if m = 1 then r = some 0
  else if b = 0 then r = some 1
  else if m % 2 = 0 ∨ m ≤ 0 then r = none
  else if 0 < b then r = some (a ^ b.natAbs % m)
  else if Int.gcd a m = 1 then ∃ x, r = some x ∧ 0 ≤ x ∧ x < m ∧ x * a ^ b.natAbs % m = 1
  else r = none

theorem gcd_pow_mod (a m : Int) (n : Nat) (hn : 0 < n) : Int.gcd (a ^ n % m) m = 1 ↔ Int.gcd a m = 1 := by
  rw [Int.gcd_emod, ← Int.isCoprime_iff_gcd_eq_one, ← Int.isCoprime_iff_gcd_eq_one, IsCoprime.pow_left_iff hn]

theorem frame_spec (a b m : Int) (core : Option Int)
    (hcore : 1 < m → m % 2 = 1 → b ≠ 0 → core = some (a ^ b.natAbs % m)) :
    MxpSpec a b m (guard b m fun _ => core.bind (finish b m)) := by
  unfold MxpSpec guard
  by_cases h1 : m = 1
  · simp [h1]
  simp only [if_neg h1]
  by_cases h2 : b = 0
  · simp [h2]
  simp only [if_neg h2]
  by_cases h3 : m % 2 = 0 ∨ m ≤ 0
  · simp [h3]
  simp only [if_neg h3]
  have hm : 1 < m := by omega
  have hodd : m % 2 = 1 := by omega
  rw [hcore hm hodd h2, Option.bind_some]
  unfold finish
  by_cases h4 : 0 < b
  · have : ¬ b < 0 := by omega
    simp [h4, this]
  have hneg : b < 0 := by omega
  simp only [if_neg h4, if_pos hneg]
  have hn : 0 < b.natAbs := by omega
  have hr : 0 ≤ a ^ b.natAbs % m := Int.emod_nonneg _ (by omega)
  obtain ⟨hs, hn'⟩ := modInv_spec (a ^ b.natAbs % m) m hm hr
  by_cases h5 : Int.gcd a m = 1
  · simp only [if_pos h5]
    obtain ⟨x, hx, x0, x1, x2⟩ := hs ((gcd_pow_mod a m _ hn).2 h5)
    refine ⟨x, hx, x0, x1, ?_⟩
    have h6 : x * a ^ b.natAbs ≡ x * (a ^ b.natAbs % m) [ZMOD m] := ((Int.mod_modEq _ _).mul_left x).symm
    have h7 := h6.trans x2
    have : (1 : Int) % m = 1 := Int.emod_eq_of_lt (by omega) hm
    rw [← this]; exact h7
  · simp only [if_neg h5]
    exact hn' (fun h => h5 ((gcd_pow_mod a m _ hn).1 h))

theorem natAbs_pos_of_ne {b : Int} (h : b ≠ 0) : 0 < b.natAbs := by omega

theorem mxpBasic_spec (w : Nat) (a b m : Int) : MxpSpec a b m (mxpBasic w a b m) := by
  have := frame_spec a b m (some (basicCore w a b.natAbs m))
    (fun hm hodd hb => by rw [basicCore_eq w a _ m hm hodd (natAbs_pos_of_ne hb)])
  simpa [mxpBasic] using this

theorem mxpMonty_spec (w : Nat) (a b m : Int) : MxpSpec a b m (mxpMonty w a b m) := by
  have := frame_spec a b m (some (montyCore w a b.natAbs m))
    (fun hm hodd _ => by rw [montyCore_eq w a _ m hm hodd])
  simpa [mxpMonty] using this

theorem mxpSlide_spec (w : Nat) (a b m : Int) : MxpSpec a b m (mxpSlide w a b m) :=
  frame_spec a b m (slideCore w a b.natAbs m) (fun hm hodd _ => slideCore_eq w a _ m hm hodd)

/-- bn_mxp_dig: unsigned digit exponent -/
def MxpDigSpec (a : Int) (b : Nat) (m : Int) (r : Option Int) : Prop :=
  if m = 1 then r = some 0
  else if b = 0 then r = some 1
  else if m % 2 = 0 ∨ m ≤ 0 then r = none
  else r = some (a ^ b % m)

theorem mxpDig_spec (w : Nat) (a : Int) (b : Nat) (m : Int) : MxpDigSpec a b m (mxpDig w a b m) := by
  unfold MxpDigSpec mxpDig guard
  by_cases h1 : m = 1
  · simp [h1]
  by_cases h2 : b = 0
  · simp [h1, h2]
  by_cases h3 : m % 2 = 0 ∨ m ≤ 0
  · simp [h1, h2, h3]
  have hb : ((b : Int) = 0) = False := by simp [h2]
  simp only [if_neg h1, if_neg h2, hb, if_false, if_neg h3]
  rw [basicCore_eq w a b m (by omega) (by omega) (by omega)]

/-- non-negative exponent, odd modulus > 1: the plain statement -/
theorem mxpSlide_nonneg (w : Nat) (a b m : Int) (hm : 1 < m) (hodd : m % 2 = 1) (hb : 0 ≤ b) :
    mxpSlide w a b m = some (a ^ b.toNat % m) := by
  have h := mxpSlide_spec w a b m
  unfold MxpSpec at h
  have h1 : ¬ m = 1 := by omega
  have h3 : ¬ (m % 2 = 0 ∨ m ≤ 0) := by omega
  simp only [if_neg h1, if_neg h3] at h
  by_cases h2 : b = 0
  · subst h2
    simp only [if_true] at h
    rw [h]; simp [Int.emod_eq_of_lt (by omega : (0 : Int) ≤ 1) hm]
  · have h4 : 0 < b := by omega
    simp only [if_neg h2, if_pos h4] at h
    rw [h]; congr 3
    omega

/-! ### bn_mxp_crt -/

theorem addLoop_modEq (p : Int) : ∀ (f : Nat) (d : Int), addLoop p f d ≡ d [ZMOD p] := by
  intro f
  induction f with
  | zero => intro d; simp [addLoop]
  | succ f ih =>
    intro d
    simp only [addLoop]
    split
    · exact (ih (d + p)).trans (by simp [Int.ModEq])
    · rfl

/-- the fuel handed to the loop is enough: it ends with a non-negative value -/
theorem addLoop_nonneg (p : Int) (hp : 0 < p) : ∀ (f : Nat) (d : Int), -(f : Int) ≤ d → 0 ≤ addLoop p f d := by
  intro f
  induction f with
  | zero => intro d h; simp only [addLoop]; omega
  | succ f ih =>
    intro d h
    simp only [addLoop]
    split
    · exact ih _ (by push_cast at h; omega)
    · omega

theorem crtTail_spec (p q qi t u : Int) (hp : 0 < p) (hq : 0 < q) (hqi : qi * q ≡ 1 [ZMOD p]) (hu0 : 0 ≤ u) (hu1 : u < q) :
    0 ≤ crtTail p q qi t u ∧ crtTail p q qi t u < p * q ∧ crtTail p q qi t u ≡ t [ZMOD p] ∧ crtTail p q qi t u ≡ u [ZMOD q] := by
  unfold crtTail
  simp only []
  set d1 := addLoop p (t - u).natAbs (t - u) with hd1
  have h1 : d1 ≡ t - u [ZMOD p] := addLoop_modEq p _ _
  set d2 := d1 * qi % p with hd2
  have h20 : 0 ≤ d2 := Int.emod_nonneg _ (by omega)
  have h21 : d2 < p := Int.emod_lt_of_pos _ hp
  refine ⟨by nlinarith, by nlinarith, ?_, ?_⟩
  · have a1 : d2 ≡ d1 * qi [ZMOD p] := Int.mod_modEq _ _
    have a2 : d2 * q ≡ (t - u) * qi * q [ZMOD p] := (a1.trans (h1.mul_right qi)).mul_right q
    have a3 : (t - u) * qi * q = (t - u) * (qi * q) := by ring
    rw [a3] at a2
    have a4 : (t - u) * (qi * q) ≡ (t - u) * 1 [ZMOD p] := hqi.mul_left _
    have a5 := (a2.trans a4).add_right u
    have : (t - u) * 1 + u = t := by ring
    rwa [this] at a5
  · simp

theorem mxpCrt_spec (w : Nat) (a b c p q dp dq qi : Int) (hp : 1 < p) (hpo : p % 2 = 1) (hq : 1 < q) (hqo : q % 2 = 1)
    (hb : 0 ≤ b) (hc : 0 ≤ c) (hqi : qi * q ≡ 1 [ZMOD p]) :
    ∃ r, mxpCrt w a b c p q dp dq qi false = some r ∧ 0 ≤ r ∧ r < p * q ∧
      r ≡ a ^ b.toNat [ZMOD p] ∧ r ≡ a ^ c.toNat [ZMOD q] := by
  unfold mxpCrt
  simp only [Bool.not_false, if_true, mxpSlide_nonneg w a b p hp hpo hb, mxpSlide_nonneg w a c q hq hqo hc, Option.bind_some]
  obtain ⟨r0, r1, r2, r3⟩ := crtTail_spec p q qi (a ^ b.toNat % p) (a ^ c.toNat % q) (by omega) (by omega) hqi
    (Int.emod_nonneg _ (by omega)) (Int.emod_lt_of_pos _ (by omega))
  exact ⟨_, rfl, r0, r1, r2.trans (Int.mod_modEq _ _), r3.trans (Int.mod_modEq _ _)⟩

/-- with the inverse computed as the harness does (bn_mod_inv): coprime p, q -/
theorem mxpCrtOp_spec (w : Nat) (a dp dq p q : Int) (hp : 1 < p) (hpo : p % 2 = 1) (hq : 1 < q) (hqo : q % 2 = 1)
    (hdp : 0 ≤ dp) (hdq : 0 ≤ dq) (hg : Int.gcd q p = 1) :
    ∃ r, mxpCrtOp w a dp dq p q false = some r ∧ 0 ≤ r ∧ r < p * q ∧
      r ≡ a ^ dp.toNat [ZMOD p] ∧ r ≡ a ^ dq.toNat [ZMOD q] := by
  obtain ⟨x, hx, _, _, hx2⟩ := (modInv_spec q p hp (by omega)).1 hg
  unfold mxpCrtOp
  rw [hx, Option.bind_some]
  exact mxpCrt_spec w a dp dq p q dp dq x hp hpo hq hqo hdp hdq hx2

/-! ### bn_mxp_crt, sqr = 1 (Paillier-type decryption halves) -/

/-- L(x) = (x − 1)/p with floor division, times dp, mod p — what the sqr branch computes from a^b mod p² -/
def crtHalf (a b p dp : Int) : Int := (((a ^ b.toNat % (p * p) - 1) / p) * dp) % p

theorem mxpCrt_sqr_spec (w : Nat) (a b c p q dp dq qi : Int) (hp : 1 < p) (hpo : p % 2 = 1) (hq : 1 < q) (hqo : q % 2 = 1)
    (hb : 0 ≤ b) (hc : 0 ≤ c) (hqi : qi * q ≡ 1 [ZMOD p]) :
    ∃ r, mxpCrt w a b c p q dp dq qi true = some r ∧ 0 ≤ r ∧ r < p * q ∧
      r ≡ crtHalf a b p dp [ZMOD p] ∧ r ≡ crtHalf a c q dq [ZMOD q] ∧ r % q = crtHalf a c q dq := by
  have hpp : 1 < p * p := by nlinarith
  have hqq : 1 < q * q := by nlinarith
  have hppo : (p * p) % 2 = 1 := by rw [Int.mul_emod, hpo]; rfl
  have hqqo : (q * q) % 2 = 1 := by rw [Int.mul_emod, hqo]; rfl
  unfold mxpCrt
  simp only [Bool.not_true, Bool.false_eq_true, if_false, mxpSlide_nonneg w a b (p * p) hpp hppo hb,
    mxpSlide_nonneg w a c (q * q) hqq hqqo hc, Option.bind_some]
  have hu0 : 0 ≤ crtHalf a c q dq := Int.emod_nonneg _ (by omega)
  have hu1 : crtHalf a c q dq < q := Int.emod_lt_of_pos _ (by omega)
  obtain ⟨r0, r1, r2, r3⟩ := crtTail_spec p q qi (crtHalf a b p dp) (crtHalf a c q dq) (by omega) (by omega) hqi hu0 hu1
  refine ⟨_, rfl, r0, r1, r2, r3, ?_⟩
  have := r3
  unfold Int.ModEq at this
  rwa [Int.emod_eq_of_lt hu0 hu1] at this

/-! ### bn_mxp_sim -/

theorem shr_ge (b i : Nat) (h : Rec.bitLen b ≤ i) : b >>> i = 0 := by
  rw [Nat.shiftRight_eq_div_pow]
  apply Nat.div_eq_of_lt
  exact lt_of_lt_of_le (Rec.lt_two_pow_bitLen b) (Nat.pow_le_pow_right (by omega) h)

theorem bit_ne_zero {b i : Nat} (h : bit b i = true) : b ≠ 0 := by
  rintro rfl
  simp [bit] at h

theorem simLoop_spec {M : Mont} (g : Good M) (a d t1 t2 t3 : Int) (b e : Nat)
    (h1 : b ≠ 0 → Rep M t1 a) (h2 : e ≠ 0 → Rep M t2 d) (h3 : b ≠ 0 → e ≠ 0 → Rep M t3 (d * a)) :
    ∀ (i : Nat) (c : Int), Rep M c (a ^ (b >>> i) * d ^ (e >>> i)) → Rep M (simLoop M t1 t2 t3 b e i c) (a ^ b * d ^ e) := by
  intro i
  induction i with
  | zero => intro c hc; simpa [simLoop] using hc
  | succ i ih =>
    intro c hc
    simp only [simLoop]
    apply ih
    have hs := rep_sqr g hc
    set kb := b >>> (i + 1)
    set ke := e >>> (i + 1)
    by_cases hb : bit b i = true <;> by_cases he : bit e i = true
    · rw [if_pos hb, if_pos he, bit_true hb, bit_true he]
      have := rep_mul g hs (h3 (bit_ne_zero hb) (bit_ne_zero he))
      have e' : a ^ (2 * kb + 1) * d ^ (2 * ke + 1) = a ^ kb * d ^ ke * (a ^ kb * d ^ ke) * (d * a) := by ring
      rw [e']; exact this
    · rw [if_pos hb, if_neg he, bit_true hb, bit_false he]
      have := rep_mul g hs (h1 (bit_ne_zero hb))
      have e' : a ^ (2 * kb + 1) * d ^ (2 * ke) = a ^ kb * d ^ ke * (a ^ kb * d ^ ke) * a := by ring
      rw [e']; exact this
    · rw [if_neg hb, if_pos he, bit_false hb, bit_true he]
      have := rep_mul g hs (h2 (bit_ne_zero he))
      have e' : a ^ (2 * kb) * d ^ (2 * ke + 1) = a ^ kb * d ^ ke * (a ^ kb * d ^ ke) * d := by ring
      rw [e']; exact this
    · rw [if_neg hb, if_neg he, bit_false hb, bit_false he]
      have e' : a ^ (2 * kb) * d ^ (2 * ke) = a ^ kb * d ^ ke * (a ^ kb * d ^ ke) := by ring
      rw [e']; exact hs

/-- the full behaviour of bn_mxp_sim on all integers: the signs of the exponents are ignored -/
def SimSpec (a b d e m : Int) (r : Option Int) : Prop :=
  if m = 1 then r = some 0
  else if m % 2 = 0 ∨ m ≤ 0 then r = none
  else r = some (a ^ b.natAbs * d ^ e.natAbs % m)

theorem mxpSim_spec (w : Nat) (a b d e m : Int) : SimSpec a b d e m (mxpSim w a b d e m) := by
  unfold SimSpec mxpSim
  by_cases h1 : m = 1
  · simp [h1]
  by_cases h3 : m % 2 = 0 ∨ m ≤ 0
  · simp [h1, h3]
  simp only [if_neg h1, if_neg h3, Option.some.injEq]
  obtain ⟨g, hmm⟩ := ofMod_good w m (by omega) (by omega)
  set M := Mont.ofMod w m with hM
  have hl := simLoop_spec g a d (simTab M a d b.natAbs e.natAbs).2.1 (simTab M a d b.natAbs e.natAbs).2.2.1
    (simTab M a d b.natAbs e.natAbs).2.2.2 b.natAbs e.natAbs
    (fun hb => by simp only [simTab, if_pos hb]; exact rep_conv M a)
    (fun he => by simp only [simTab, if_pos he]; exact rep_conv M d)
    (fun hb he => by simp only [simTab, if_pos hb, if_pos he]; exact rep_mul g (rep_conv M d) (rep_conv M a))
    (max (Rec.bitLen b.natAbs) (Rec.bitLen e.natAbs)) (simTab M a d b.natAbs e.natAbs).1
    (by rw [shr_ge _ _ (le_max_left _ _), shr_ge _ _ (le_max_right _ _)]; simpa [simTab] using rep_conv M 1)
  have := back_eq g hl
  rw [this, hM, hmm]

end Relic.Model.NtMxp
