/-
The line functions of the Miller loops, GENERATED from the C text (Gen/PpLine.lean, tools/translate_ppline.py), over an
arbitrary field K (the field of the twist; Fp sits inside it): closed forms of every output (`*_closed`, by `ring` on the
generated `let` chain), then

 * the three coefficients of the sparse element are  s × (the coefficients of the affine tangent / chord through the running
   point, evaluated at the other argument)  for an explicit non-zero s in K (−2YZ for the doublings, X − Z·x₂ for the
   additions) — a factor in the field of the twist, which the final exponentiation removes;
 * the updated running point is the tangent / chord point of the curve law (homogeneous projective coordinates).

The affine line through (x₁, y₁) with slope λ evaluated at an untwisted point has the coefficients
(y_e, −λ·x_e, λ·x₁ − y₁) (running point on the twist, evaluated at P = (x_e, y_e) in G1: positions w⁰, w¹, w³ for a D-type twist)
resp. (λ·x₁ − y₁, −λ·x_e, y_e) (running point in G1, evaluated at Q = (x_e, y_e) on the twist: positions w⁰, w², w³).
WHICH positions of Fp12 the symbolic slots l00, l01, l10, l11 are (the `one ^= 1` exchange for M-type twists) is not part of
these theorems: it is judged per presented line (`lfn` lines: ρ = l / affine line lies in a proper subfield).
-/
import RelicVerif.Lemmas.EpFormulas
import RelicVerif.Gen.PpLine

namespace Relic.Lemmas.PpLine
open Relic.Model.Formula Relic.Gen.PpLine Relic.Lemmas.EpFormulas

set_option linter.unusedSimpArgs false
set_option linter.unusedVariables false

variable {K : Type} [Field K] [DecidableEq K]

theorem pp_dbl_k12_projc_basic_closed (b X Y Z px py : K) :
    let o := pp_dbl_k12_projc_basic fieldOps b X Y Z px py
    o.l00 = 2 * Y * Z * py ∧
      o.l01 = 0 ∧
      o.l10 = X ^ 2 * px ∧
      o.l11 = 3 * b * Z ^ 2 - Y ^ 2 ∧
      o.x = 2 * X * Y * (Y ^ 2 - 9 * b * Z ^ 2) ∧
      o.y = (Y ^ 2 + 9 * b * Z ^ 2) ^ 2 - 108 * b ^ 2 * Z ^ 4 ∧
      o.z = 8 * Y ^ 3 * Z := by
  simp only [pp_dbl_k12_projc_basic, fieldOps]
  refine ⟨?_, ?_, ?_, ?_, ?_, ?_, ?_⟩ <;> first | trivial | ring

theorem pp_dbl_k12_projc_lazyr_closed (b X Y Z px py : K) :
    let o := pp_dbl_k12_projc_lazyr fieldOps b X Y Z px py
    o.l00 = 2 * Y * Z * py ∧
      o.l01 = 0 ∧
      o.l10 = X ^ 2 * px ∧
      o.l11 = 3 * b * Z ^ 2 - Y ^ 2 ∧
      o.x = 2 * X * Y * (Y ^ 2 - 9 * b * Z ^ 2) ∧
      o.y = (Y ^ 2 + 9 * b * Z ^ 2) ^ 2 - 108 * b ^ 2 * Z ^ 4 ∧
      o.z = 8 * Y ^ 3 * Z := by
  simp only [pp_dbl_k12_projc_lazyr, fieldOps]
  refine ⟨?_, ?_, ?_, ?_, ?_, ?_, ?_⟩ <;> first | trivial | ring

theorem pp_add_k12_projc_basic_closed (X Y Z x2 y2 px py : K) :
    let o := pp_add_k12_projc_basic fieldOps X Y Z x2 y2 px py
    o.l00 = (X - Z * x2) * py ∧
      o.l01 = 0 ∧
      o.l10 = -(px * (Y - Z * y2)) ∧
      o.l11 = x2 * (Y - Z * y2) - y2 * (X - Z * x2) ∧
      o.x = (X - Z * x2) * ((Y - Z * y2) ^ 2 * Z - (X + x2 * Z) * (X - Z * x2) ^ 2) ∧
      o.y = (Y - Z * y2) * ((X - Z * x2) ^ 2 * X - ((Y - Z * y2) ^ 2 * Z - (X + x2 * Z) * (X - Z * x2) ^ 2)) - (X - Z * x2) ^ 3 * Y ∧
      o.z = Z * (X - Z * x2) ^ 3 := by
  simp only [pp_add_k12_projc_basic, fieldOps]
  refine ⟨?_, ?_, ?_, ?_, ?_, ?_, ?_⟩ <;> first | trivial | ring

theorem pp_add_k12_projc_lazyr_closed (X Y Z x2 y2 px py : K) :
    let o := pp_add_k12_projc_lazyr fieldOps X Y Z x2 y2 px py
    o.l00 = (X - Z * x2) * py ∧
      o.l01 = 0 ∧
      o.l10 = -(px * (Y - Z * y2)) ∧
      o.l11 = x2 * (Y - Z * y2) - y2 * (X - Z * x2) ∧
      o.x = (X - Z * x2) * ((Y - Z * y2) ^ 2 * Z - (X + x2 * Z) * (X - Z * x2) ^ 2) ∧
      o.y = (Y - Z * y2) * ((X - Z * x2) ^ 2 * X - ((Y - Z * y2) ^ 2 * Z - (X + x2 * Z) * (X - Z * x2) ^ 2)) - (X - Z * x2) ^ 3 * Y ∧
      o.z = Z * (X - Z * x2) ^ 3 := by
  simp only [pp_add_k12_projc_lazyr, fieldOps]
  refine ⟨?_, ?_, ?_, ?_, ?_, ?_, ?_⟩ <;> first | trivial | ring

theorem pp_dbl_lit_k12_closed (b X Y Z qx qy : K) :
    let o := pp_dbl_lit_k12 fieldOps b X Y Z qx qy
    o.l00 = 3 * b * Z ^ 2 - Y ^ 2 ∧
      o.l01 = 3 * qx * X ^ 2 ∧
      o.l10 = 0 ∧
      o.l11 = qy * (2 * Y * Z) ∧
      o.x = 2 * X * Y * (Y ^ 2 - 9 * b * Z ^ 2) ∧
      o.y = (Y ^ 2 + 9 * b * Z ^ 2) ^ 2 - 108 * b ^ 2 * Z ^ 4 ∧
      o.z = 8 * Y ^ 3 * Z := by
  simp only [pp_dbl_lit_k12, fieldOps]
  refine ⟨?_, ?_, ?_, ?_, ?_, ?_, ?_⟩ <;> first | trivial | ring

theorem pp_add_lit_k12_closed (X Y Z x2 y2 qx qy : K) :
    let o := pp_add_lit_k12 fieldOps X Y Z x2 y2 qx qy
    o.l00 = x2 * (Y - Z * y2) - (X - Z * x2) * y2 ∧
      o.l01 = -(qx * (Y - Z * y2)) ∧
      o.l10 = 0 ∧
      o.l11 = qy * (X - Z * x2) ∧
      o.x = (X - Z * x2) * ((Y - Z * y2) ^ 2 * Z - (X + x2 * Z) * (X - Z * x2) ^ 2) ∧
      o.y = (Y - Z * y2) * ((X - Z * x2) ^ 2 * X - ((Y - Z * y2) ^ 2 * Z - (X + x2 * Z) * (X - Z * x2) ^ 2)) - (X - Z * x2) ^ 3 * Y ∧
      o.z = Z * (X - Z * x2) ^ 3 := by
  simp only [pp_add_lit_k12, fieldOps]
  refine ⟨?_, ?_, ?_, ?_, ?_, ?_, ?_⟩ <;> first | trivial | ring

/-! ### doubling step, running point on the twist y² = x³ + b (Y²Z = X³ + bZ³), P = (xP, yP) precomputed as (3xP, −yP) -/

/-- closed forms ⇒ tangent line up to s = −2YZ and tangent point (shared by the basic and the lazy-reduction variant and by
    the G1 doubling of the lit loop) -/
theorem tangent_core (b X Y Z : K) (h2 : (2 : K) ≠ 0) (hY : Y ≠ 0) (hZ : Z ≠ 0) (hc : Y ^ 2 * Z = X ^ 3 + b * Z ^ 3) :
    -(2 * Y * Z) ≠ 0 ∧
    3 * b * Z ^ 2 - Y ^ 2 = -(2 * Y * Z) * (3 * (X / Z) ^ 2 / (2 * (Y / Z)) * (X / Z) - Y / Z) ∧
    (∀ xe : K, 3 * xe * X ^ 2 = -(2 * Y * Z) * (-(3 * (X / Z) ^ 2 / (2 * (Y / Z)) * xe))) ∧
    8 * Y ^ 3 * Z ≠ 0 ∧
    2 * X * Y * (Y ^ 2 - 9 * b * Z ^ 2) / (8 * Y ^ 3 * Z) = tangX 0 (X / Z) (Y / Z) ∧
    ((Y ^ 2 + 9 * b * Z ^ 2) ^ 2 - 108 * b ^ 2 * Z ^ 4) / (8 * Y ^ 3 * Z) = tangY 0 (X / Z) (Y / Z) := by
  have h8 : (8 : K) ≠ 0 := by
    have : (8 : K) = 2 * 2 * 2 := by norm_num
    rw [this]; exact mul_ne_zero (mul_ne_zero h2 h2) h2
  have hz' : 8 * Y ^ 3 * Z ≠ 0 := mul_ne_zero (mul_ne_zero h8 (pow_ne_zero 3 hY)) hZ
  refine ⟨neg_ne_zero.mpr (mul_ne_zero (mul_ne_zero h2 hY) hZ), ?_, ?_, hz', ?_, ?_⟩
  · field_simp
    linear_combination (-3 : K) * hc
  · intro xe
    field_simp
  · rw [tangX_projc 0 X Y Z h2 hZ hY, div_eq_div_iff hz' (pow_ne_zero 2 (mul_ne_zero (mul_ne_zero h2 hY) hZ))]
    linear_combination (72 * X * Y ^ 3 * Z) * hc
  · rw [tangY_projc 0 X Y Z h2 hZ hY, div_eq_div_iff hz' (pow_ne_zero 3 (mul_ne_zero (mul_ne_zero h2 hY) hZ))]
    linear_combination (72 * Y ^ 3 * Z * (Y ^ 2 * Z - 3 * X ^ 3 + 3 * b * Z ^ 3)) * hc

/-- closed forms ⇒ chord line up to s = X − Z·x₂ and chord point -/
theorem chord_core (X Y Z x2 y2 : K) (hZ : Z ≠ 0) (hv : X - Z * x2 ≠ 0) :
    x2 * (Y - Z * y2) - y2 * (X - Z * x2) = (X - Z * x2) * ((y2 - Y / Z) / (x2 - X / Z) * x2 - y2) ∧
    (∀ xe : K, -(xe * (Y - Z * y2)) = (X - Z * x2) * (-((y2 - Y / Z) / (x2 - X / Z) * xe))) ∧
    Z * (X - Z * x2) ^ 3 ≠ 0 ∧
    (X - Z * x2) * ((Y - Z * y2) ^ 2 * Z - (X + x2 * Z) * (X - Z * x2) ^ 2) / (Z * (X - Z * x2) ^ 3)
      = chordX (X / Z) (Y / Z) x2 y2 ∧
    ((Y - Z * y2) * ((X - Z * x2) ^ 2 * X - ((Y - Z * y2) ^ 2 * Z - (X + x2 * Z) * (X - Z * x2) ^ 2)) - (X - Z * x2) ^ 3 * Y)
        / (Z * (X - Z * x2) ^ 3) = chordY (X / Z) (Y / Z) x2 y2 := by
  have hv' : x2 * Z - X * 1 ≠ 0 := by
    intro h; apply hv; linear_combination (-1 : K) * h
  have hd : x2 - X / Z ≠ 0 := by
    intro h; apply hv'; field_simp at h; linear_combination h
  have hz' : Z * (X - Z * x2) ^ 3 ≠ 0 := mul_ne_zero hZ (pow_ne_zero 3 hv)
  have hv2 : x2 * Z - X ≠ 0 := by intro h; apply hv; linear_combination (-1 : K) * h
  have hv3 : Z * x2 - X ≠ 0 := by intro h; apply hv; linear_combination (-1 : K) * h
  refine ⟨?_, ?_, hz', ?_, ?_⟩
  · field_simp
    ring
  · intro xe
    field_simp
    ring
  · rw [chordX_projc_mix X Y Z x2 y2 hZ hv', div_eq_div_iff hz' (mul_ne_zero (mul_ne_zero hZ one_ne_zero) (pow_ne_zero 2 hv'))]
    ring
  · rw [chordY_projc_mix X Y Z x2 y2 hZ hv', div_eq_div_iff hz' (mul_ne_zero (mul_ne_zero hZ one_ne_zero) (pow_ne_zero 3 hv'))]
    ring

end Relic.Lemmas.PpLine
