/-
Shared vocabulary for the proofs that the table-driven AES of src/bc/rijndael-alg-fst.c (Model/Rijndael.lean) computes
the FIPS 197 functions of Spec/Aes.lean: the relation between the word array `rk` of the C code and a list of 16-byte
round keys.
-/
import RelicVerif.Lemmas.AesTables
import RelicVerif.Lemmas.AesEqInv

namespace Relic.Lemmas.Rijndael
open Relic.Spec.Aes Relic.Model

/-- the word array `rk` holds the round keys `ks` in order, big-endian: rk[4r + c] = GETU32(ks[r] + 4c) -/
def RkOK (rk : Array UInt32) (ks : List Bytes) : Prop :=
  ∀ r, r < ks.length → ∀ c, c < 4 → rk.getD (4 * r + c) 0 = Rijndael.getu32 (ks.getD r []) (4 * c)

end Relic.Lemmas.Rijndael
