/-
The lookup tables of src/bc/rijndael-alg-fst.c, as extracted from the C text on every run (Gen/AesTables.lean, written by
tools/translate_aes.py), are what the comment at the top of the C file claims, for all 256 indices, in terms of the
FIPS-197 definitions of Spec/Aes.lean (S-box = affine map of the GF(2^8) inverse, inverse S-box, GF(2^8) product):

    Te0[x] = S [x].[02, 01, 01, 03]   …   Te4[x] = S [x].[01, 01, 01, 01]
    Td0[x] = Si[x].[0e, 09, 0d, 0b]   …   Td4[x] = Si[x].[01, 01, 01, 01]
    rcon[i] = x^i in GF(2^8), in the top byte

All proofs are kernel evaluations (`decide +kernel`) of closed finite statements.  The spec S-boxes are computed tables
(inverse by search); they are identified with literal arrays in Lemmas/Aes.lean (`sbox_eq`, `invSbox_eq`), and the
table theorems are evaluated over the literals.
-/
import RelicVerif.Lemmas.Aes
import RelicVerif.Gen.AesTables
import RelicVerif.Model.Rijndael

namespace Relic.Lemmas.AesTables
open Relic.Spec.Aes Relic.Gen.AesTables Relic.Model

/-- the word (a, b, c, d), a in the most significant byte -/
def pack (a b c d : UInt8) : UInt32 :=
  (a.toUInt32 <<< (24 : UInt32)) ||| (b.toUInt32 <<< (16 : UInt32)) ||| (c.toUInt32 <<< (8 : UInt32)) ||| d.toUInt32

/-- FIPS-197 figure 7 -/
def sboxLit : Array UInt8 := #[
  99, 124, 119, 123, 242, 107, 111, 197, 48, 1, 103, 43, 254, 215, 171, 118,
  202, 130, 201, 125, 250, 89, 71, 240, 173, 212, 162, 175, 156, 164, 114, 192,
  183, 253, 147, 38, 54, 63, 247, 204, 52, 165, 229, 241, 113, 216, 49, 21,
  4, 199, 35, 195, 24, 150, 5, 154, 7, 18, 128, 226, 235, 39, 178, 117,
  9, 131, 44, 26, 27, 110, 90, 160, 82, 59, 214, 179, 41, 227, 47, 132,
  83, 209, 0, 237, 32, 252, 177, 91, 106, 203, 190, 57, 74, 76, 88, 207,
  208, 239, 170, 251, 67, 77, 51, 133, 69, 249, 2, 127, 80, 60, 159, 168,
  81, 163, 64, 143, 146, 157, 56, 245, 188, 182, 218, 33, 16, 255, 243, 210,
  205, 12, 19, 236, 95, 151, 68, 23, 196, 167, 126, 61, 100, 93, 25, 115,
  96, 129, 79, 220, 34, 42, 144, 136, 70, 238, 184, 20, 222, 94, 11, 219,
  224, 50, 58, 10, 73, 6, 36, 92, 194, 211, 172, 98, 145, 149, 228, 121,
  231, 200, 55, 109, 141, 213, 78, 169, 108, 86, 244, 234, 101, 122, 174, 8,
  186, 120, 37, 46, 28, 166, 180, 198, 232, 221, 116, 31, 75, 189, 139, 138,
  112, 62, 181, 102, 72, 3, 246, 14, 97, 53, 87, 185, 134, 193, 29, 158,
  225, 248, 152, 17, 105, 217, 142, 148, 155, 30, 135, 233, 206, 85, 40, 223,
  140, 161, 137, 13, 191, 230, 66, 104, 65, 153, 45, 15, 176, 84, 187, 22]

/-- FIPS-197 figure 14 -/
def invSboxLit : Array UInt8 := #[
  82, 9, 106, 213, 48, 54, 165, 56, 191, 64, 163, 158, 129, 243, 215, 251,
  124, 227, 57, 130, 155, 47, 255, 135, 52, 142, 67, 68, 196, 222, 233, 203,
  84, 123, 148, 50, 166, 194, 35, 61, 238, 76, 149, 11, 66, 250, 195, 78,
  8, 46, 161, 102, 40, 217, 36, 178, 118, 91, 162, 73, 109, 139, 209, 37,
  114, 248, 246, 100, 134, 104, 152, 22, 212, 164, 92, 204, 93, 101, 182, 146,
  108, 112, 72, 80, 253, 237, 185, 218, 94, 21, 70, 87, 167, 141, 157, 132,
  144, 216, 171, 0, 140, 188, 211, 10, 247, 228, 88, 5, 184, 179, 69, 6,
  208, 44, 30, 143, 202, 63, 15, 2, 193, 175, 189, 3, 1, 19, 138, 107,
  58, 145, 17, 65, 79, 103, 220, 234, 151, 242, 207, 206, 240, 180, 230, 115,
  150, 172, 116, 34, 231, 173, 53, 133, 226, 249, 55, 232, 28, 117, 223, 110,
  71, 241, 26, 113, 29, 41, 197, 137, 111, 183, 98, 14, 170, 24, 190, 27,
  252, 86, 62, 75, 198, 210, 121, 32, 154, 219, 192, 254, 120, 205, 90, 244,
  31, 221, 168, 51, 136, 7, 199, 49, 177, 18, 16, 89, 39, 128, 236, 95,
  96, 81, 127, 169, 25, 181, 74, 13, 45, 229, 122, 159, 147, 201, 156, 239,
  160, 224, 59, 77, 174, 42, 245, 176, 200, 235, 187, 60, 131, 83, 153, 97,
  23, 43, 4, 126, 186, 119, 214, 38, 225, 105, 20, 99, 85, 33, 12, 125]

/-- the S-box computed from its definition (inverse in GF(2^8), then the affine map) is figure 7
    (`Lemmas/Aes.lean` identifies the computed table with its literal through the additive-extension argument; here only
    the two literal arrays are compared) -/
theorem sboxLit_eq : Relic.Lemmas.Aes.sboxL = sboxLit := by decide +kernel

theorem sbox_eq (a : UInt8) : sbox a = sboxLit.getD a.toNat 0 := by
  rw [Relic.Lemmas.Aes.sbox_eq, sboxLit_eq]

/-- the inverse S-box computed by search over the S-box is figure 14 -/
theorem invSboxLit_eq : Relic.Lemmas.Aes.invSboxL = invSboxLit := by decide +kernel

theorem invSbox_eq (a : UInt8) : invSbox a = invSboxLit.getD a.toNat 0 := by
  rw [Relic.Lemmas.Aes.invSbox_eq, invSboxLit_eq]

/-- `Te0[x] = S[x].[02, 01, 01, 03]` -/
theorem Te0_spec : ∀ i, i < 256 → Te0.getD i 0 = (let x := UInt8.ofNat i; pack (gmul 0x02 (sbox x)) (sbox x) (sbox x) (gmul 0x03 (sbox x))) := by
  simp only [sbox_eq]
  decide +kernel

/-- `Te1[x] = S[x].[03, 02, 01, 01]` -/
theorem Te1_spec : ∀ i, i < 256 → Te1.getD i 0 = (let x := UInt8.ofNat i; pack (gmul 0x03 (sbox x)) (gmul 0x02 (sbox x)) (sbox x) (sbox x)) := by
  simp only [sbox_eq]
  decide +kernel

/-- `Te2[x] = S[x].[01, 03, 02, 01]` -/
theorem Te2_spec : ∀ i, i < 256 → Te2.getD i 0 = (let x := UInt8.ofNat i; pack (sbox x) (gmul 0x03 (sbox x)) (gmul 0x02 (sbox x)) (sbox x)) := by
  simp only [sbox_eq]
  decide +kernel

/-- `Te3[x] = S[x].[01, 01, 03, 02]` -/
theorem Te3_spec : ∀ i, i < 256 → Te3.getD i 0 = (let x := UInt8.ofNat i; pack (sbox x) (sbox x) (gmul 0x03 (sbox x)) (gmul 0x02 (sbox x))) := by
  simp only [sbox_eq]
  decide +kernel

/-- `Te4[x] = S[x].[01, 01, 01, 01]` -/
theorem Te4_spec : ∀ i, i < 256 → Te4.getD i 0 = (let x := UInt8.ofNat i; pack (sbox x) (sbox x) (sbox x) (sbox x)) := by
  simp only [sbox_eq]
  decide +kernel

/-- `Td0[x] = Si[x].[0e, 09, 0d, 0b]` -/
theorem Td0_spec : ∀ i, i < 256 → Td0.getD i 0 = (let x := UInt8.ofNat i; pack (gmul 0x0e (invSbox x)) (gmul 0x09 (invSbox x)) (gmul 0x0d (invSbox x)) (gmul 0x0b (invSbox x))) := by
  simp only [invSbox_eq]
  decide +kernel

/-- `Td1[x] = Si[x].[0b, 0e, 09, 0d]` -/
theorem Td1_spec : ∀ i, i < 256 → Td1.getD i 0 = (let x := UInt8.ofNat i; pack (gmul 0x0b (invSbox x)) (gmul 0x0e (invSbox x)) (gmul 0x09 (invSbox x)) (gmul 0x0d (invSbox x))) := by
  simp only [invSbox_eq]
  decide +kernel

/-- `Td2[x] = Si[x].[0d, 0b, 0e, 09]` -/
theorem Td2_spec : ∀ i, i < 256 → Td2.getD i 0 = (let x := UInt8.ofNat i; pack (gmul 0x0d (invSbox x)) (gmul 0x0b (invSbox x)) (gmul 0x0e (invSbox x)) (gmul 0x09 (invSbox x))) := by
  simp only [invSbox_eq]
  decide +kernel

/-- `Td3[x] = Si[x].[09, 0d, 0b, 0e]` -/
theorem Td3_spec : ∀ i, i < 256 → Td3.getD i 0 = (let x := UInt8.ofNat i; pack (gmul 0x09 (invSbox x)) (gmul 0x0d (invSbox x)) (gmul 0x0b (invSbox x)) (gmul 0x0e (invSbox x))) := by
  simp only [invSbox_eq]
  decide +kernel

/-- `Td4[x] = Si[x].[01, 01, 01, 01]` -/
theorem Td4_spec : ∀ i, i < 256 → Td4.getD i 0 = (let x := UInt8.ofNat i; pack (invSbox x) (invSbox x) (invSbox x) (invSbox x)) := by
  simp only [invSbox_eq]
  decide +kernel

theorem Te_size : Te0.size = 256 ∧ Te1.size = 256 ∧ Te2.size = 256 ∧ Te3.size = 256 ∧ Te4.size = 256 := by decide +kernel
theorem Td_size : Td0.size = 256 ∧ Td1.size = 256 ∧ Td2.size = 256 ∧ Td3.size = 256 ∧ Td4.size = 256 := by decide +kernel

/-- `rcon[i]` is the round constant Rcon[i+1] = x^i of FIPS-197 §5.2 in the top byte -/
theorem rcon_spec : ∀ i, i < 10 → Gen.AesTables.rcon.getD i 0 = (Spec.Aes.rcon (i + 1)).toUInt32 <<< (24 : UInt32) := by
  decide +kernel

/-! ### One table round is one FIPS-197 round

`Rijndael.encHalf` (Model/Rijndael.lean) is the text of both half rounds of the loop of rijndaelEncrypt:
`t0 = Te0[s0 >> 24] ^ Te1[(s1 >> 16) & 0xff] ^ Te2[(s2 >> 8) & 0xff] ^ Te3[s3 & 0xff] ^ rk[o]; …`.
On the big-endian words of a 16-byte state and of a 16-byte round key it is
AddRoundKey(MixColumns(ShiftRows(SubBytes(state))), key) of Spec/Aes.lean (`encHalf_spec`).
The table facts are kernel evaluations over all 256 indices (the tables in the xor form of GETU32); the rest is
xor-linearity of the byte selections and associativity / commutativity of xor. -/

/-- GETU32 of four bytes -/
def X (a b c d : UInt8) : UInt32 :=
  (a.toUInt32 <<< (24 : UInt32)) ^^^ (b.toUInt32 <<< (16 : UInt32)) ^^^ (c.toUInt32 <<< (8 : UInt32)) ^^^ d.toUInt32

/-- one full round of FIPS-197 §5.1 -/
def specRound (s k : Bytes) : Bytes := addRoundKey (mixColumns (shiftRows (subBytes s))) k

theorem specRound_explicit (x0 x1 x2 x3 x4 x5 x6 x7 x8 x9 x10 x11 x12 x13 x14 x15 k0 k1 k2 k3 k4 k5 k6 k7 k8 k9 k10 k11 k12 k13 k14 k15 : UInt8) :
    specRound [x0, x1, x2, x3, x4, x5, x6, x7, x8, x9, x10, x11, x12, x13, x14, x15] [k0, k1, k2, k3, k4, k5, k6, k7, k8, k9, k10, k11, k12, k13, k14, k15] =
    [((((0 ^^^ gmul 2 (sbox x0)) ^^^ gmul 3 (sbox x5)) ^^^ gmul 1 (sbox x10)) ^^^ gmul 1 (sbox x15)) ^^^ k0,
     ((((0 ^^^ gmul 1 (sbox x0)) ^^^ gmul 2 (sbox x5)) ^^^ gmul 3 (sbox x10)) ^^^ gmul 1 (sbox x15)) ^^^ k1,
     ((((0 ^^^ gmul 1 (sbox x0)) ^^^ gmul 1 (sbox x5)) ^^^ gmul 2 (sbox x10)) ^^^ gmul 3 (sbox x15)) ^^^ k2,
     ((((0 ^^^ gmul 3 (sbox x0)) ^^^ gmul 1 (sbox x5)) ^^^ gmul 1 (sbox x10)) ^^^ gmul 2 (sbox x15)) ^^^ k3,
     ((((0 ^^^ gmul 2 (sbox x4)) ^^^ gmul 3 (sbox x9)) ^^^ gmul 1 (sbox x14)) ^^^ gmul 1 (sbox x3)) ^^^ k4,
     ((((0 ^^^ gmul 1 (sbox x4)) ^^^ gmul 2 (sbox x9)) ^^^ gmul 3 (sbox x14)) ^^^ gmul 1 (sbox x3)) ^^^ k5,
     ((((0 ^^^ gmul 1 (sbox x4)) ^^^ gmul 1 (sbox x9)) ^^^ gmul 2 (sbox x14)) ^^^ gmul 3 (sbox x3)) ^^^ k6,
     ((((0 ^^^ gmul 3 (sbox x4)) ^^^ gmul 1 (sbox x9)) ^^^ gmul 1 (sbox x14)) ^^^ gmul 2 (sbox x3)) ^^^ k7,
     ((((0 ^^^ gmul 2 (sbox x8)) ^^^ gmul 3 (sbox x13)) ^^^ gmul 1 (sbox x2)) ^^^ gmul 1 (sbox x7)) ^^^ k8,
     ((((0 ^^^ gmul 1 (sbox x8)) ^^^ gmul 2 (sbox x13)) ^^^ gmul 3 (sbox x2)) ^^^ gmul 1 (sbox x7)) ^^^ k9,
     ((((0 ^^^ gmul 1 (sbox x8)) ^^^ gmul 1 (sbox x13)) ^^^ gmul 2 (sbox x2)) ^^^ gmul 3 (sbox x7)) ^^^ k10,
     ((((0 ^^^ gmul 3 (sbox x8)) ^^^ gmul 1 (sbox x13)) ^^^ gmul 1 (sbox x2)) ^^^ gmul 2 (sbox x7)) ^^^ k11,
     ((((0 ^^^ gmul 2 (sbox x12)) ^^^ gmul 3 (sbox x1)) ^^^ gmul 1 (sbox x6)) ^^^ gmul 1 (sbox x11)) ^^^ k12,
     ((((0 ^^^ gmul 1 (sbox x12)) ^^^ gmul 2 (sbox x1)) ^^^ gmul 3 (sbox x6)) ^^^ gmul 1 (sbox x11)) ^^^ k13,
     ((((0 ^^^ gmul 1 (sbox x12)) ^^^ gmul 1 (sbox x1)) ^^^ gmul 2 (sbox x6)) ^^^ gmul 3 (sbox x11)) ^^^ k14,
     ((((0 ^^^ gmul 3 (sbox x12)) ^^^ gmul 1 (sbox x1)) ^^^ gmul 1 (sbox x6)) ^^^ gmul 2 (sbox x11)) ^^^ k15] := rfl

theorem and_xor_r (p q m : UInt32) : (p ^^^ q) &&& m = (p &&& m) ^^^ (q &&& m) := by
  apply UInt32.eq_of_toBitVec_eq
  simp only [UInt32.toBitVec_and, UInt32.toBitVec_xor]
  ext i
  simp only [BitVec.getElem_and, BitVec.getElem_xor]
  cases p.toBitVec[i] <;> cases q.toBitVec[i] <;> cases m.toBitVec[i] <;> rfl

theorem bytes_facts : ∀ i, i < 256 → (let a := (UInt8.ofNat i).toUInt32;
    Rijndael.b3 (a <<< (24 : UInt32)) = a ∧ Rijndael.b3 (a <<< (16 : UInt32)) = 0 ∧ Rijndael.b3 (a <<< (8 : UInt32)) = 0 ∧ Rijndael.b3 a = 0 ∧
    Rijndael.b2 (a <<< (24 : UInt32)) = 0 ∧ Rijndael.b2 (a <<< (16 : UInt32)) = a ∧ Rijndael.b2 (a <<< (8 : UInt32)) = 0 ∧ Rijndael.b2 a = 0 ∧
    Rijndael.b1 (a <<< (24 : UInt32)) = 0 ∧ Rijndael.b1 (a <<< (16 : UInt32)) = 0 ∧ Rijndael.b1 (a <<< (8 : UInt32)) = a ∧ Rijndael.b1 a = 0 ∧
    Rijndael.b0 (a <<< (24 : UInt32)) = 0 ∧ Rijndael.b0 (a <<< (16 : UInt32)) = 0 ∧ Rijndael.b0 (a <<< (8 : UInt32)) = 0 ∧ Rijndael.b0 a = a) := by
  decide +kernel

theorem gmul_one : ∀ i, i < 256 → gmul 1 (UInt8.ofNat i) = UInt8.ofNat i := by decide +kernel
theorem gmul_one' (a : UInt8) : gmul 1 a = a := by
  have := gmul_one a.toNat (UInt8.toNat_lt a); simpa using this

theorem b3_xor (p q : UInt32) : Rijndael.b3 (p ^^^ q) = Rijndael.b3 p ^^^ Rijndael.b3 q := by
  simp only [Rijndael.b3, UInt32.shiftRight_xor]
theorem b2_xor (p q : UInt32) : Rijndael.b2 (p ^^^ q) = Rijndael.b2 p ^^^ Rijndael.b2 q := by
  simp only [Rijndael.b2, UInt32.shiftRight_xor, and_xor_r]
theorem b1_xor (p q : UInt32) : Rijndael.b1 (p ^^^ q) = Rijndael.b1 p ^^^ Rijndael.b1 q := by
  simp only [Rijndael.b1, UInt32.shiftRight_xor, and_xor_r]
theorem b0_xor (p q : UInt32) : Rijndael.b0 (p ^^^ q) = Rijndael.b0 p ^^^ Rijndael.b0 q := by
  simp only [Rijndael.b0, and_xor_r]

theorem idx_X (a b c d : UInt8) :
    Rijndael.b3 (X a b c d) = a.toUInt32 ∧ Rijndael.b2 (X a b c d) = b.toUInt32 ∧
    Rijndael.b1 (X a b c d) = c.toUInt32 ∧ Rijndael.b0 (X a b c d) = d.toUInt32 := by
  have ha := bytes_facts a.toNat (UInt8.toNat_lt a)
  have hb := bytes_facts b.toNat (UInt8.toNat_lt b)
  have hc := bytes_facts c.toNat (UInt8.toNat_lt c)
  have hd := bytes_facts d.toNat (UInt8.toNat_lt d)
  simp only [UInt8.ofNat_toNat] at ha hb hc hd
  obtain ⟨a1, a2, a3, a4, a5, a6, a7, a8, a9, a10, a11, a12, a13, a14, a15, a16⟩ := ha
  obtain ⟨b1, b2, b3, b4, b5, b6, b7, b8, b9, b10, b11, b12, b13, b14, b15, b16⟩ := hb
  obtain ⟨c1, c2, c3, c4, c5, c6, c7, c8, c9, c10, c11, c12, c13, c14, c15, c16⟩ := hc
  obtain ⟨d1, d2, d3, d4, d5, d6, d7, d8, d9, d10, d11, d12, d13, d14, d15, d16⟩ := hd
  unfold X
  simp only [b3_xor, b2_xor, b1_xor, b0_xor, a1, b2, c3, d4, a5, b6, c7, d8, a9, b10, c11, d12, a13, b14, c15, d16,
    UInt32.xor_zero, UInt32.zero_xor]
  refine ⟨?_, ?_, ?_, ?_⟩ <;> first | rfl | trivial

theorem b3_X (a b c d : UInt8) : Rijndael.b3 (X a b c d) = a.toUInt32 := (idx_X a b c d).1
theorem b2_X (a b c d : UInt8) : Rijndael.b2 (X a b c d) = b.toUInt32 := (idx_X a b c d).2.1
theorem b1_X (a b c d : UInt8) : Rijndael.b1 (X a b c d) = c.toUInt32 := (idx_X a b c d).2.2.1
theorem b0_X (a b c d : UInt8) : Rijndael.b0 (X a b c d) = d.toUInt32 := (idx_X a b c d).2.2.2

theorem Te0_X : ∀ i, i < 256 → Te0.getD i 0 = (let x := UInt8.ofNat i; X (gmul 2 (sbox x)) (sbox x) (sbox x) (gmul 3 (sbox x))) := by
  simp only [sbox_eq]
  decide +kernel
theorem tab_Te0 (a : UInt8) : Rijndael.tab Te0 a.toUInt32 = X (gmul 2 (sbox a)) (sbox a) (sbox a) (gmul 3 (sbox a)) := by
  have := Te0_X a.toNat (UInt8.toNat_lt a)
  simpa [Rijndael.tab] using this

theorem Te1_X : ∀ i, i < 256 → Te1.getD i 0 = (let x := UInt8.ofNat i; X (gmul 3 (sbox x)) (gmul 2 (sbox x)) (sbox x) (sbox x)) := by
  simp only [sbox_eq]
  decide +kernel
theorem tab_Te1 (a : UInt8) : Rijndael.tab Te1 a.toUInt32 = X (gmul 3 (sbox a)) (gmul 2 (sbox a)) (sbox a) (sbox a) := by
  have := Te1_X a.toNat (UInt8.toNat_lt a)
  simpa [Rijndael.tab] using this

theorem Te2_X : ∀ i, i < 256 → Te2.getD i 0 = (let x := UInt8.ofNat i; X (sbox x) (gmul 3 (sbox x)) (gmul 2 (sbox x)) (sbox x)) := by
  simp only [sbox_eq]
  decide +kernel
theorem tab_Te2 (a : UInt8) : Rijndael.tab Te2 a.toUInt32 = X (sbox a) (gmul 3 (sbox a)) (gmul 2 (sbox a)) (sbox a) := by
  have := Te2_X a.toNat (UInt8.toNat_lt a)
  simpa [Rijndael.tab] using this

theorem Te3_X : ∀ i, i < 256 → Te3.getD i 0 = (let x := UInt8.ofNat i; X (sbox x) (sbox x) (gmul 3 (sbox x)) (gmul 2 (sbox x))) := by
  simp only [sbox_eq]
  decide +kernel
theorem tab_Te3 (a : UInt8) : Rijndael.tab Te3 a.toUInt32 = X (sbox a) (sbox a) (gmul 3 (sbox a)) (gmul 2 (sbox a)) := by
  have := Te3_X a.toNat (UInt8.toNat_lt a)
  simpa [Rijndael.tab] using this

theorem xor_transpose (a1 b1 c1 d1 a2 b2 c2 d2 a3 b3 c3 d3 a4 b4 c4 d4 k1 k2 k3 k4 : UInt32) :
    (a1 ^^^ b1 ^^^ c1 ^^^ d1) ^^^ (a2 ^^^ b2 ^^^ c2 ^^^ d2) ^^^ (a3 ^^^ b3 ^^^ c3 ^^^ d3) ^^^ (a4 ^^^ b4 ^^^ c4 ^^^ d4) ^^^
      (k1 ^^^ k2 ^^^ k3 ^^^ k4) =
    (a1 ^^^ a2 ^^^ a3 ^^^ a4 ^^^ k1) ^^^ (b1 ^^^ b2 ^^^ b3 ^^^ b4 ^^^ k2) ^^^ (c1 ^^^ c2 ^^^ c3 ^^^ c4 ^^^ k3) ^^^
      (d1 ^^^ d2 ^^^ d3 ^^^ d4 ^^^ k4) := by
  ac_rfl

/-- the xor of the four table words and of the key word is the MixColumns column, byte by byte -/
theorem word_round (p q r s k0 k1 k2 k3 : UInt8) :
    X (gmul 2 p) p p (gmul 3 p) ^^^ X (gmul 3 q) (gmul 2 q) q q ^^^ X r (gmul 3 r) (gmul 2 r) r ^^^
      X s s (gmul 3 s) (gmul 2 s) ^^^ X k0 k1 k2 k3 =
    X (((((0 ^^^ gmul 2 p) ^^^ gmul 3 q) ^^^ gmul 1 r) ^^^ gmul 1 s) ^^^ k0)
      (((((0 ^^^ gmul 1 p) ^^^ gmul 2 q) ^^^ gmul 3 r) ^^^ gmul 1 s) ^^^ k1)
      (((((0 ^^^ gmul 1 p) ^^^ gmul 1 q) ^^^ gmul 2 r) ^^^ gmul 3 s) ^^^ k2)
      (((((0 ^^^ gmul 3 p) ^^^ gmul 1 q) ^^^ gmul 1 r) ^^^ gmul 2 s) ^^^ k3) := by
  rw [gmul_one' p, gmul_one' q, gmul_one' r, gmul_one' s]
  generalize gmul 2 p = p2; generalize gmul 3 p = p3; generalize gmul 2 q = q2; generalize gmul 3 q = q3
  generalize gmul 2 r = r2; generalize gmul 3 r = r3; generalize gmul 2 s = s2; generalize gmul 3 s = s3
  unfold X
  repeat rw [UInt8.zero_xor]
  repeat rw [UInt8.toUInt32_xor]
  repeat rw [UInt32.shiftLeft_xor]
  exact xor_transpose _ _ _ _ _ _ _ _ _ _ _ _ _ _ _ _ _ _ _ _

theorem encHalf_words (x0 x1 x2 x3 x4 x5 x6 x7 x8 x9 x10 x11 x12 x13 x14 x15 k0 k1 k2 k3 k4 k5 k6 k7 k8 k9 k10 k11 k12 k13 k14 k15 : UInt8) (rk : Array UInt32) (o : Nat)
    (h0 : rk.getD o 0 = X k0 k1 k2 k3) (h1 : rk.getD (o + 1) 0 = X k4 k5 k6 k7)
    (h2 : rk.getD (o + 2) 0 = X k8 k9 k10 k11) (h3 : rk.getD (o + 3) 0 = X k12 k13 k14 k15) :
    Rijndael.encHalf rk o (X x0 x1 x2 x3, X x4 x5 x6 x7, X x8 x9 x10 x11, X x12 x13 x14 x15) =
      (X (((((0 ^^^ gmul 2 (sbox x0)) ^^^ gmul 3 (sbox x5)) ^^^ gmul 1 (sbox x10)) ^^^ gmul 1 (sbox x15)) ^^^ k0) (((((0 ^^^ gmul 1 (sbox x0)) ^^^ gmul 2 (sbox x5)) ^^^ gmul 3 (sbox x10)) ^^^ gmul 1 (sbox x15)) ^^^ k1) (((((0 ^^^ gmul 1 (sbox x0)) ^^^ gmul 1 (sbox x5)) ^^^ gmul 2 (sbox x10)) ^^^ gmul 3 (sbox x15)) ^^^ k2) (((((0 ^^^ gmul 3 (sbox x0)) ^^^ gmul 1 (sbox x5)) ^^^ gmul 1 (sbox x10)) ^^^ gmul 2 (sbox x15)) ^^^ k3),
       X (((((0 ^^^ gmul 2 (sbox x4)) ^^^ gmul 3 (sbox x9)) ^^^ gmul 1 (sbox x14)) ^^^ gmul 1 (sbox x3)) ^^^ k4) (((((0 ^^^ gmul 1 (sbox x4)) ^^^ gmul 2 (sbox x9)) ^^^ gmul 3 (sbox x14)) ^^^ gmul 1 (sbox x3)) ^^^ k5) (((((0 ^^^ gmul 1 (sbox x4)) ^^^ gmul 1 (sbox x9)) ^^^ gmul 2 (sbox x14)) ^^^ gmul 3 (sbox x3)) ^^^ k6) (((((0 ^^^ gmul 3 (sbox x4)) ^^^ gmul 1 (sbox x9)) ^^^ gmul 1 (sbox x14)) ^^^ gmul 2 (sbox x3)) ^^^ k7),
       X (((((0 ^^^ gmul 2 (sbox x8)) ^^^ gmul 3 (sbox x13)) ^^^ gmul 1 (sbox x2)) ^^^ gmul 1 (sbox x7)) ^^^ k8) (((((0 ^^^ gmul 1 (sbox x8)) ^^^ gmul 2 (sbox x13)) ^^^ gmul 3 (sbox x2)) ^^^ gmul 1 (sbox x7)) ^^^ k9) (((((0 ^^^ gmul 1 (sbox x8)) ^^^ gmul 1 (sbox x13)) ^^^ gmul 2 (sbox x2)) ^^^ gmul 3 (sbox x7)) ^^^ k10) (((((0 ^^^ gmul 3 (sbox x8)) ^^^ gmul 1 (sbox x13)) ^^^ gmul 1 (sbox x2)) ^^^ gmul 2 (sbox x7)) ^^^ k11),
       X (((((0 ^^^ gmul 2 (sbox x12)) ^^^ gmul 3 (sbox x1)) ^^^ gmul 1 (sbox x6)) ^^^ gmul 1 (sbox x11)) ^^^ k12) (((((0 ^^^ gmul 1 (sbox x12)) ^^^ gmul 2 (sbox x1)) ^^^ gmul 3 (sbox x6)) ^^^ gmul 1 (sbox x11)) ^^^ k13) (((((0 ^^^ gmul 1 (sbox x12)) ^^^ gmul 1 (sbox x1)) ^^^ gmul 2 (sbox x6)) ^^^ gmul 3 (sbox x11)) ^^^ k14) (((((0 ^^^ gmul 3 (sbox x12)) ^^^ gmul 1 (sbox x1)) ^^^ gmul 1 (sbox x6)) ^^^ gmul 2 (sbox x11)) ^^^ k15)) := by
  refine Prod.ext ?_ (Prod.ext ?_ (Prod.ext ?_ ?_))
  · show Rijndael.tab Te0 (Rijndael.b3 (X x0 x1 x2 x3)) ^^^ Rijndael.tab Te1 (Rijndael.b2 (X x4 x5 x6 x7)) ^^^
      Rijndael.tab Te2 (Rijndael.b1 (X x8 x9 x10 x11)) ^^^ Rijndael.tab Te3 (Rijndael.b0 (X x12 x13 x14 x15)) ^^^ rk.getD o 0 = _
    rw [b3_X, b2_X, b1_X, b0_X, tab_Te0, tab_Te1, tab_Te2, tab_Te3, h0]
    exact word_round _ _ _ _ _ _ _ _
  · show Rijndael.tab Te0 (Rijndael.b3 (X x4 x5 x6 x7)) ^^^ Rijndael.tab Te1 (Rijndael.b2 (X x8 x9 x10 x11)) ^^^
      Rijndael.tab Te2 (Rijndael.b1 (X x12 x13 x14 x15)) ^^^ Rijndael.tab Te3 (Rijndael.b0 (X x0 x1 x2 x3)) ^^^ rk.getD (o + 1) 0 = _
    rw [b3_X, b2_X, b1_X, b0_X, tab_Te0, tab_Te1, tab_Te2, tab_Te3, h1]
    exact word_round _ _ _ _ _ _ _ _
  · show Rijndael.tab Te0 (Rijndael.b3 (X x8 x9 x10 x11)) ^^^ Rijndael.tab Te1 (Rijndael.b2 (X x12 x13 x14 x15)) ^^^
      Rijndael.tab Te2 (Rijndael.b1 (X x0 x1 x2 x3)) ^^^ Rijndael.tab Te3 (Rijndael.b0 (X x4 x5 x6 x7)) ^^^ rk.getD (o + 2) 0 = _
    rw [b3_X, b2_X, b1_X, b0_X, tab_Te0, tab_Te1, tab_Te2, tab_Te3, h2]
    exact word_round _ _ _ _ _ _ _ _
  · show Rijndael.tab Te0 (Rijndael.b3 (X x12 x13 x14 x15)) ^^^ Rijndael.tab Te1 (Rijndael.b2 (X x0 x1 x2 x3)) ^^^
      Rijndael.tab Te2 (Rijndael.b1 (X x4 x5 x6 x7)) ^^^ Rijndael.tab Te3 (Rijndael.b0 (X x8 x9 x10 x11)) ^^^ rk.getD (o + 3) 0 = _
    rw [b3_X, b2_X, b1_X, b0_X, tab_Te0, tab_Te1, tab_Te2, tab_Te3, h3]
    exact word_round _ _ _ _ _ _ _ _

/-- one table round of rijndaelEncrypt (Model/Rijndael `encHalf`, the text of both half rounds of the C loop) on the
big-endian words of a 16-byte state, with the big-endian words of a 16-byte round key at rk[o..o+3], is the FIPS-197
round AddRoundKey(MixColumns(ShiftRows(SubBytes(state))), key), as big-endian words -/
theorem encHalf_spec (x0 x1 x2 x3 x4 x5 x6 x7 x8 x9 x10 x11 x12 x13 x14 x15 k0 k1 k2 k3 k4 k5 k6 k7 k8 k9 k10 k11 k12 k13 k14 k15 : UInt8) (rk : Array UInt32) (o : Nat)
    (h0 : rk.getD o 0 = X k0 k1 k2 k3) (h1 : rk.getD (o + 1) 0 = X k4 k5 k6 k7)
    (h2 : rk.getD (o + 2) 0 = X k8 k9 k10 k11) (h3 : rk.getD (o + 3) 0 = X k12 k13 k14 k15) :
    Rijndael.encHalf rk o (X x0 x1 x2 x3, X x4 x5 x6 x7, X x8 x9 x10 x11, X x12 x13 x14 x15) =
      (let r := specRound [x0, x1, x2, x3, x4, x5, x6, x7, x8, x9, x10, x11, x12, x13, x14, x15] [k0, k1, k2, k3, k4, k5, k6, k7, k8, k9, k10, k11, k12, k13, k14, k15]
       (Rijndael.getu32 r 0, Rijndael.getu32 r 4, Rijndael.getu32 r 8, Rijndael.getu32 r 12)) :=
  (encHalf_words x0 x1 x2 x3 x4 x5 x6 x7 x8 x9 x10 x11 x12 x13 x14 x15 k0 k1 k2 k3 k4 k5 k6 k7 k8 k9 k10 k11 k12 k13 k14 k15 rk o h0 h1 h2 h3).trans rfl



end Relic.Lemmas.AesTables
