/-
The lookup tables of src/bc/rijndael-alg-fst.c, as extracted from the C text on every run (Gen/AesTables.lean, written by
tools/translate_aes.py), are what the comment at the top of the C file claims, for all 256 indices, in terms of the
FIPS-197 definitions of Spec/Aes.lean (S-box = affine map of the GF(2^8) inverse, inverse S-box, GF(2^8) product):

    Te0[x] = S [x].[02, 01, 01, 03]   …   Te4[x] = S [x].[01, 01, 01, 01]
    Td0[x] = Si[x].[0e, 09, 0d, 0b]   …   Td4[x] = Si[x].[01, 01, 01, 01]
    rcon[i] = x^i in GF(2^8), in the top byte

All proofs are kernel evaluations (`decide +kernel`) of closed finite statements.  The spec S-boxes are computed tables
(inverse by search); they are first proved equal to literal arrays (`sboxTable_eq`, `invSboxTable_eq`), once, and the
table theorems are evaluated over the literals.
-/
import RelicVerif.Spec.Aes
import RelicVerif.Gen.AesTables

namespace Relic.Lemmas.AesTables
open Relic.Spec.Aes Relic.Gen.AesTables

/-- the word (a, b, c, d), a in the most significant byte -/
def pack (a b c d : UInt8) : UInt32 :=
  (a.toUInt32 <<< (24 : UInt32)) ||| (b.toUInt32 <<< (16 : UInt32)) ||| (c.toUInt32 <<< (8 : UInt32)) ||| d.toUInt32

/-- FIPS-197 figure 7 -/
def sboxLit : Array UInt8 := #[
  99, 124, 119, 123, 242, 107, 111, 197, 48, 1, 103, 43, 254, 215, 171, 118,
  202, 130, 201, 125, 250, 89, 71, 240, 173, 212, 162, 175, 156, 164, 114, 192,
  183, 253, 147, 38, 54, 63, 247, 204, 52, 165, 229, 241, 113, 216, 49, 21,
  4, 199, 35, 195, 24, 150, 5, 154, 7, 18, 128, 226, 235, 39, 178, 117,
  9, 131, 44, 26, 27, 110, 90, 160, 82, 59, 214, 179, 41, 227, 47, 132,
  83, 209, 0, 237, 32, 252, 177, 91, 106, 203, 190, 57, 74, 76, 88, 207,
  208, 239, 170, 251, 67, 77, 51, 133, 69, 249, 2, 127, 80, 60, 159, 168,
  81, 163, 64, 143, 146, 157, 56, 245, 188, 182, 218, 33, 16, 255, 243, 210,
  205, 12, 19, 236, 95, 151, 68, 23, 196, 167, 126, 61, 100, 93, 25, 115,
  96, 129, 79, 220, 34, 42, 144, 136, 70, 238, 184, 20, 222, 94, 11, 219,
  224, 50, 58, 10, 73, 6, 36, 92, 194, 211, 172, 98, 145, 149, 228, 121,
  231, 200, 55, 109, 141, 213, 78, 169, 108, 86, 244, 234, 101, 122, 174, 8,
  186, 120, 37, 46, 28, 166, 180, 198, 232, 221, 116, 31, 75, 189, 139, 138,
  112, 62, 181, 102, 72, 3, 246, 14, 97, 53, 87, 185, 134, 193, 29, 158,
  225, 248, 152, 17, 105, 217, 142, 148, 155, 30, 135, 233, 206, 85, 40, 223,
  140, 161, 137, 13, 191, 230, 66, 104, 65, 153, 45, 15, 176, 84, 187, 22]

/-- FIPS-197 figure 14 -/
def invSboxLit : Array UInt8 := #[
  82, 9, 106, 213, 48, 54, 165, 56, 191, 64, 163, 158, 129, 243, 215, 251,
  124, 227, 57, 130, 155, 47, 255, 135, 52, 142, 67, 68, 196, 222, 233, 203,
  84, 123, 148, 50, 166, 194, 35, 61, 238, 76, 149, 11, 66, 250, 195, 78,
  8, 46, 161, 102, 40, 217, 36, 178, 118, 91, 162, 73, 109, 139, 209, 37,
  114, 248, 246, 100, 134, 104, 152, 22, 212, 164, 92, 204, 93, 101, 182, 146,
  108, 112, 72, 80, 253, 237, 185, 218, 94, 21, 70, 87, 167, 141, 157, 132,
  144, 216, 171, 0, 140, 188, 211, 10, 247, 228, 88, 5, 184, 179, 69, 6,
  208, 44, 30, 143, 202, 63, 15, 2, 193, 175, 189, 3, 1, 19, 138, 107,
  58, 145, 17, 65, 79, 103, 220, 234, 151, 242, 207, 206, 240, 180, 230, 115,
  150, 172, 116, 34, 231, 173, 53, 133, 226, 249, 55, 232, 28, 117, 223, 110,
  71, 241, 26, 113, 29, 41, 197, 137, 111, 183, 98, 14, 170, 24, 190, 27,
  252, 86, 62, 75, 198, 210, 121, 32, 154, 219, 192, 254, 120, 205, 90, 244,
  31, 221, 168, 51, 136, 7, 199, 49, 177, 18, 16, 89, 39, 128, 236, 95,
  96, 81, 127, 169, 25, 181, 74, 13, 45, 229, 122, 159, 147, 201, 156, 239,
  160, 224, 59, 77, 174, 42, 245, 176, 200, 235, 187, 60, 131, 83, 153, 97,
  23, 43, 4, 126, 186, 119, 214, 38, 225, 105, 20, 99, 85, 33, 12, 125]

/-- the S-box computed from its definition (inverse in GF(2^8), then the affine map) is figure 7 -/
theorem sboxTable_eq : sboxTable = sboxLit := by decide +kernel

theorem sbox_eq (a : UInt8) : sbox a = sboxLit.getD a.toNat 0 := by
  unfold sbox; rw [sboxTable_eq]

/-- the inverse S-box computed by search over the S-box is figure 14 -/
theorem invSboxTable_eq : invSboxTable = invSboxLit := by
  unfold invSboxTable
  simp only [sbox_eq]
  decide +kernel

theorem invSbox_eq (a : UInt8) : invSbox a = invSboxLit.getD a.toNat 0 := by
  unfold invSbox; rw [invSboxTable_eq]

/-- `Te0[x] = S[x].[02, 01, 01, 03]` -/
theorem Te0_spec : ∀ i, i < 256 → Te0.getD i 0 = (let x := UInt8.ofNat i; pack (gmul 0x02 (sbox x)) (sbox x) (sbox x) (gmul 0x03 (sbox x))) := by
  simp only [sbox_eq]
  decide +kernel

/-- `Te1[x] = S[x].[03, 02, 01, 01]` -/
theorem Te1_spec : ∀ i, i < 256 → Te1.getD i 0 = (let x := UInt8.ofNat i; pack (gmul 0x03 (sbox x)) (gmul 0x02 (sbox x)) (sbox x) (sbox x)) := by
  simp only [sbox_eq]
  decide +kernel

/-- `Te2[x] = S[x].[01, 03, 02, 01]` -/
theorem Te2_spec : ∀ i, i < 256 → Te2.getD i 0 = (let x := UInt8.ofNat i; pack (sbox x) (gmul 0x03 (sbox x)) (gmul 0x02 (sbox x)) (sbox x)) := by
  simp only [sbox_eq]
  decide +kernel

/-- `Te3[x] = S[x].[01, 01, 03, 02]` -/
theorem Te3_spec : ∀ i, i < 256 → Te3.getD i 0 = (let x := UInt8.ofNat i; pack (sbox x) (sbox x) (gmul 0x03 (sbox x)) (gmul 0x02 (sbox x))) := by
  simp only [sbox_eq]
  decide +kernel

/-- `Te4[x] = S[x].[01, 01, 01, 01]` -/
theorem Te4_spec : ∀ i, i < 256 → Te4.getD i 0 = (let x := UInt8.ofNat i; pack (sbox x) (sbox x) (sbox x) (sbox x)) := by
  simp only [sbox_eq]
  decide +kernel

/-- `Td0[x] = Si[x].[0e, 09, 0d, 0b]` -/
theorem Td0_spec : ∀ i, i < 256 → Td0.getD i 0 = (let x := UInt8.ofNat i; pack (gmul 0x0e (invSbox x)) (gmul 0x09 (invSbox x)) (gmul 0x0d (invSbox x)) (gmul 0x0b (invSbox x))) := by
  simp only [invSbox_eq]
  decide +kernel

/-- `Td1[x] = Si[x].[0b, 0e, 09, 0d]` -/
theorem Td1_spec : ∀ i, i < 256 → Td1.getD i 0 = (let x := UInt8.ofNat i; pack (gmul 0x0b (invSbox x)) (gmul 0x0e (invSbox x)) (gmul 0x09 (invSbox x)) (gmul 0x0d (invSbox x))) := by
  simp only [invSbox_eq]
  decide +kernel

/-- `Td2[x] = Si[x].[0d, 0b, 0e, 09]` -/
theorem Td2_spec : ∀ i, i < 256 → Td2.getD i 0 = (let x := UInt8.ofNat i; pack (gmul 0x0d (invSbox x)) (gmul 0x0b (invSbox x)) (gmul 0x0e (invSbox x)) (gmul 0x09 (invSbox x))) := by
  simp only [invSbox_eq]
  decide +kernel

/-- `Td3[x] = Si[x].[09, 0d, 0b, 0e]` -/
theorem Td3_spec : ∀ i, i < 256 → Td3.getD i 0 = (let x := UInt8.ofNat i; pack (gmul 0x09 (invSbox x)) (gmul 0x0d (invSbox x)) (gmul 0x0b (invSbox x)) (gmul 0x0e (invSbox x))) := by
  simp only [invSbox_eq]
  decide +kernel

/-- `Td4[x] = Si[x].[01, 01, 01, 01]` -/
theorem Td4_spec : ∀ i, i < 256 → Td4.getD i 0 = (let x := UInt8.ofNat i; pack (invSbox x) (invSbox x) (invSbox x) (invSbox x)) := by
  simp only [invSbox_eq]
  decide +kernel

theorem Te_size : Te0.size = 256 ∧ Te1.size = 256 ∧ Te2.size = 256 ∧ Te3.size = 256 ∧ Te4.size = 256 := by decide +kernel
theorem Td_size : Td0.size = 256 ∧ Td1.size = 256 ∧ Td2.size = 256 ∧ Td3.size = 256 ∧ Td4.size = 256 := by decide +kernel

/-- `rcon[i]` is the round constant Rcon[i+1] = x^i of FIPS-197 §5.2 in the top byte -/
theorem rcon_spec : ∀ i, i < 10 → Gen.AesTables.rcon.getD i 0 = (Spec.Aes.rcon (i + 1)).toUInt32 <<< (24 : UInt32) := by
  decide +kernel

/-- the S-box and the inverse S-box are inverse to each other (so are the byte columns of Te4 and Td4) -/
theorem invSbox_sbox : ∀ i, i < 256 → invSbox (sbox (UInt8.ofNat i)) = UInt8.ofNat i := by
  simp only [sbox_eq, invSbox_eq]
  decide +kernel

#print axioms sboxTable_eq
#print axioms invSboxTable_eq
#print axioms Te0_spec
#print axioms Te1_spec
#print axioms Te2_spec
#print axioms Te3_spec
#print axioms Te4_spec
#print axioms Td0_spec
#print axioms Td1_spec
#print axioms Td2_spec
#print axioms Td3_spec
#print axioms Td4_spec
#print axioms rcon_spec
#print axioms invSbox_sbox
#print axioms Te_size
#print axioms Td_size

end Relic.Lemmas.AesTables
