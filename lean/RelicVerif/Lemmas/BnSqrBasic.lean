/-
bn_sqra_low (delayed-carry row of the schoolbook squaring) and bn_sqr_basic.
-/
import RelicVerif.Lemmas.BnHighMul
namespace Relic.Model

namespace Sqr

/-- one column of bn_sqra_low: doubled product + digit + carry, with the delayed carry flag -/
theorem col (B r x c0 c1 : Nat) (hB : 1 < B) (hr : r + 2 * B ≤ B * B + 1) (hx : x < B)
    (hc0 : c0 < B) (hc1 : c1 ≤ 1) :
    ∃ d c0' c1' r0 r1, (r + r) % (B * B) = r0 ∧ (r0 + x + c0) % (B * B) = r1
      ∧ r1 % B = d ∧ (r1 / B + c1) % B = c0'
      ∧ (if r0 < r ∨ r1 < r0 ∨ c0' < c1 then 1 else 0) = c1'
      ∧ d < B ∧ c0' < B ∧ c1' ≤ 1
      ∧ d + B * c0' + B * B * c1' = 2 * r + x + c0 + B * c1 := by
  have hM : 2 * B ≤ B * B := Nat.mul_le_mul_right B hB
  refine ⟨_, _, _, _, _, rfl, rfl, rfl, rfl, rfl, Nat.mod_lt _ (by omega), Nat.mod_lt _ (by omega),
    by split <;> omega, ?_⟩
  generalize hM' : B * B = M at *
  -- r0
  have h0 : ((r + r) % M = r + r ∧ r + r < M) ∨ ((r + r) % M + M = r + r ∧ M ≤ r + r) := by
    by_cases h : r + r < M
    · exact Or.inl ⟨Nat.mod_eq_of_lt h, h⟩
    · right
      rw [Nat.mod_eq_sub_mod (by omega), Nat.mod_eq_of_lt (by omega)]
      omega
  generalize (r + r) % M = r0 at *
  have hr0 : r0 < M := by omega
  have h1 : ((r0 + x + c0) % M = r0 + x + c0 ∧ r0 + x + c0 < M)
      ∨ ((r0 + x + c0) % M + M = r0 + x + c0 ∧ M ≤ r0 + x + c0) := by
    by_cases h : r0 + x + c0 < M
    · exact Or.inl ⟨Nat.mod_eq_of_lt h, h⟩
    · right
      rw [Nat.mod_eq_sub_mod (by omega), Nat.mod_eq_of_lt (by omega)]
      omega
  generalize (r0 + x + c0) % M = r1 at *
  have hr1 : r1 < M := by omega
  have hq : r1 / B < B := (Nat.div_lt_iff_lt_mul (by omega)).2 (by omega)
  have hdm := Nat.div_add_mod r1 B
  have hd : r1 % B < B := Nat.mod_lt _ (by omega)
  generalize r1 / B = q at *
  generalize r1 % B = d at *
  have h2 := LowMul.add_mod_cases B q c1 hq (by omega)
  generalize (q + c1) % B = c0' at *
  have h2' : (B * c0' = B * q + B * c1 ∧ c0' = q + c1 ∧ q + c1 < B)
      ∨ (B * c0' + M = B * q + B * c1 ∧ c0' + B = q + c1 ∧ B ≤ q + c1) := by
    rcases h2 with ⟨e2, l2⟩ | ⟨e2, l2⟩
    · left; exact ⟨by rw [e2, Nat.mul_add], e2, l2⟩
    · right; refine ⟨?_, e2, l2⟩
      rw [← hM', ← Nat.mul_add, e2, Nat.mul_add]
  clear h2
  have hc1' : c1 = 0 ∨ c1 = 1 := by omega
  rcases hc1' with rfl | rfl
  · rcases h0 with ⟨e0, l0⟩ | ⟨e0, l0⟩ <;> rcases h1 with ⟨e1, l1⟩ | ⟨e1, l1⟩ <;>
      rcases h2' with ⟨e2, e2', l2⟩ | ⟨e2, e2', l2⟩ <;> split <;> omega
  · rcases h0 with ⟨e0, l0⟩ | ⟨e0, l0⟩ <;> rcases h1 with ⟨e1, l1⟩ | ⟨e1, l1⟩ <;>
      rcases h2' with ⟨e2, e2', l2⟩ | ⟨e2, e2', l2⟩ <;> split <;> omega


def step (B : Nat) (a : List Nat) (st : List Nat × Nat × Nat) (k : Nat) : List Nat × Nat × Nat :=
  (st.1.set (k + 1)
      ((((a.getD 0 0 * a.getD (k + 1) 0) % (B * B) + (a.getD 0 0 * a.getD (k + 1) 0) % (B * B)) % (B * B)
        + st.1.getD (k + 1) 0 + st.2.1) % (B * B) % B),
    ((((a.getD 0 0 * a.getD (k + 1) 0) % (B * B) + (a.getD 0 0 * a.getD (k + 1) 0) % (B * B)) % (B * B)
        + st.1.getD (k + 1) 0 + st.2.1) % (B * B) / B + st.2.2) % B,
    if ((a.getD 0 0 * a.getD (k + 1) 0) % (B * B) + (a.getD 0 0 * a.getD (k + 1) 0) % (B * B)) % (B * B)
          < (a.getD 0 0 * a.getD (k + 1) 0) % (B * B)
        ∨ (((a.getD 0 0 * a.getD (k + 1) 0) % (B * B) + (a.getD 0 0 * a.getD (k + 1) 0) % (B * B)) % (B * B)
            + st.1.getD (k + 1) 0 + st.2.1) % (B * B)
          < ((a.getD 0 0 * a.getD (k + 1) 0) % (B * B) + (a.getD 0 0 * a.getD (k + 1) 0) % (B * B)) % (B * B)
        ∨ ((((a.getD 0 0 * a.getD (k + 1) 0) % (B * B) + (a.getD 0 0 * a.getD (k + 1) 0) % (B * B)) % (B * B)
            + st.1.getD (k + 1) 0 + st.2.1) % (B * B) / B + st.2.2) % B < st.2.2
      then 1 else 0)

def init (B : Nat) (c a : List Nat) : List Nat × Nat × Nat :=
  (c.set 0 ((c.getD 0 0 + a.getD 0 0 * a.getD 0 0) % (B * B) % B),
    (c.getD 0 0 + a.getD 0 0 * a.getD 0 0) % (B * B) / B, 0)

theorem sqraLow_eq (B : Nat) (c a : List Nat) (size : Nat) :
    sqraLow B c a size =
      (((List.range (size - 1)).foldl (step B a) (init B c a)).1.set size
          ((((List.range (size - 1)).foldl (step B a) (init B c a)).1.getD size 0
            + ((List.range (size - 1)).foldl (step B a) (init B c a)).2.1) % B),
        ((List.range (size - 1)).foldl (step B a) (init B c a)).2.2
          + (if (((List.range (size - 1)).foldl (step B a) (init B c a)).1.getD size 0
            + ((List.range (size - 1)).foldl (step B a) (init B c a)).2.1) % B
              < ((List.range (size - 1)).foldl (step B a) (init B c a)).2.1 then 1 else 0)) := rfl

theorem getD_mid (l : List Nat) (x : Nat) (rest : List Nat) (n : Nat) (h : l.length = n) :
    (l ++ x :: rest).getD n 0 = x := by
  subst h
  simp [List.getD_eq_getElem?_getD]

theorem set_mid (l : List Nat) (x v : Nat) (rest : List Nat) (n : Nat) (h : l.length = n) :
    (l ++ x :: rest).set n v = (l ++ [v]) ++ rest := by
  subst h
  simp

theorem getD_eq (a : List Nat) (i : Nat) (h : i < a.length) : a.getD i 0 = a[i] := by
  simp [List.getD_eq_getElem?_getD, h]

theorem loop_inv (B : Nat) (hB : 1 < B) (c a : List Nat) (size : Nat)
    (hc : c.length = size + 1) (ha : a.length = size) (hdc : ∀ d ∈ c, d < B) (hda : ∀ d ∈ a, d < B) :
    ∀ k, k + 1 ≤ size → ∃ done c0 c1,
      (List.range k).foldl (step B a) (init B c a) = (done ++ c.drop (k + 1), c0, c1)
      ∧ done.length = k + 1 ∧ (∀ d ∈ done, d < B) ∧ c0 < B ∧ c1 ≤ 1
      ∧ val B done + B ^ (k + 1) * c0 + B ^ (k + 2) * c1
          = val B (c.take (k + 1)) + a.getD 0 0 * a.getD 0 0
            + 2 * a.getD 0 0 * (B * val B ((a.drop 1).take k)) := by
  have ha0 : a.getD 0 0 < B := LowMul.getD_lt B (by omega) a hda 0
  intro k
  induction k with
  | zero =>
    intro _
    have hc0 : c.getD 0 0 < B := LowMul.getD_lt B (by omega) c hdc 0
    have hsq := LowMul.mul_le_sq B _ _ ha0 ha0
    have hlt : c.getD 0 0 + a.getD 0 0 * a.getD 0 0 < B * B := by omega
    obtain ⟨x, xs, rfl⟩ : ∃ x xs, c = x :: xs := by
      cases c with
      | nil => simp at hc
      | cons x xs => exact ⟨x, xs, rfl⟩
    refine ⟨[(x + a.getD 0 0 * a.getD 0 0) % B], (x + a.getD 0 0 * a.getD 0 0) / B, 0, ?_, rfl, ?_, ?_,
      by omega, ?_⟩
    · simp only [List.range_zero, List.foldl_nil, init]
      rw [Nat.mod_eq_of_lt hlt]
      simp
    · intro d hd
      simp only [List.mem_singleton] at hd
      subst hd
      exact Nat.mod_lt _ (by omega)
    · simp only [List.getD_cons_zero] at hlt
      exact (Nat.div_lt_iff_lt_mul (by omega)).2 hlt
    · simp only [val, List.take_zero, List.take_succ_cons, Nat.mul_zero, Nat.add_zero, Nat.zero_add, Nat.pow_one]
      have := Nat.div_add_mod (x + a.getD 0 0 * a.getD 0 0) B
      omega
  | succ k ih =>
    intro hk
    obtain ⟨done, c0, c1, e, hl, hd, h0, h1, hv⟩ := ih (by omega)
    have hk1 : k + 1 < c.length := by omega
    have hk2 : k + 1 < a.length := by omega
    rw [List.range_succ, List.foldl_append, e]
    simp only [List.foldl_cons, List.foldl_nil]
    rw [List.drop_eq_getElem_cons hk1]
    unfold step
    simp only
    rw [getD_mid _ _ _ _ hl, set_mid _ _ _ _ _ hl]
    have hx : c[k + 1] < B := hdc _ (List.getElem_mem _)
    have hak : a.getD (k + 1) 0 < B := LowMul.getD_lt B (by omega) a hda _
    have hsq := LowMul.mul_le_sq B _ _ ha0 hak
    rw [Nat.mod_eq_of_lt (show a.getD 0 0 * a.getD (k + 1) 0 < B * B by omega)]
    obtain ⟨d, c0', c1', r0, r1, e0, e1, ed, ec0, ec1, hd', hc0', hc1', hsum⟩ :=
      col B (a.getD 0 0 * a.getD (k + 1) 0) c[k + 1] c0 c1 hB hsq hx h0 h1
    rw [e0, e1, ed, ec0, ec1]
    refine ⟨done ++ [d], c0', c1', rfl, by simp [hl], ?_, hc0', hc1', ?_⟩
    · intro y hy
      simp only [List.mem_append, List.mem_singleton] at hy
      rcases hy with hy | hy
      · exact hd y hy
      · omega
    · rw [High.val_snoc, hl, List.take_succ_eq_append_getElem hk1, High.val_snoc, List.length_take,
        Nat.min_eq_left (by omega)]
      have hk3 : k < (a.drop 1).length := by rw [List.length_drop]; omega
      rw [List.take_succ_eq_append_getElem hk3, High.val_snoc, List.length_take,
        Nat.min_eq_left (by omega), List.getElem_drop]
      rw [getD_eq a (k + 1) hk2] at hsum
      have : a[1 + k] = a[k + 1] := by congr 1; omega
      rw [this]
      generalize a[k + 1] = ak at *
      generalize c[k + 1] = x at *
      generalize a.getD 0 0 = a0 at *
      generalize val B (List.take (k + 1) c) = C at *
      generalize val B (List.take k (List.drop 1 a)) = A at *
      generalize val B done = D at *
      have hp1 : B ^ (k + 1 + 1) = B ^ (k + 1) * B := by rw [Nat.pow_succ]
      have hp2 : B ^ (k + 1 + 2) = B ^ (k + 1) * (B * B) := by
        rw [show k + 1 + 2 = (k + 1) + 1 + 1 from rfl, Nat.pow_succ, Nat.pow_succ, Nat.mul_assoc]
      have hp0 : B ^ (k + 1) = B ^ k * B := by rw [Nat.pow_succ]
      have hp3 : B ^ (k + 2) = B ^ (k + 1) * B := by rw [Nat.pow_succ]
      rw [hp1, hp2]
      rw [hp3] at hv
      have e1' := congrArg (B ^ (k + 1) * ·) hsum
      generalize B ^ (k + 1) = X at *
      generalize B ^ k = Y at *
      subst hp0
      grind

end Sqr

/-- one row: c[0..size] += a0² + 2·a0·(a1·B + a2·B² + …), with carry out; `c` has size+1 digits -/
theorem sqraLow_spec (B : Nat) (hB : 1 < B) (c a : List Nat) (size : Nat) (hs : 0 < size)
    (hc : c.length = size + 1) (ha : a.length = size) (hdc : ∀ d ∈ c, d < B) (hda : ∀ d ∈ a, d < B) :
    val B (sqraLow B c a size).1 + (sqraLow B c a size).2 * B ^ (size + 1)
      = val B c + a.getD 0 0 * a.getD 0 0 + 2 * a.getD 0 0 * (B * val B (a.drop 1))
    ∧ (sqraLow B c a size).1.length = size + 1 ∧ (∀ d ∈ (sqraLow B c a size).1, d < B)
    ∧ (sqraLow B c a size).2 ≤ 2 := by
  obtain ⟨done, c0, c1, e, hl, hd, h0, h1, hv⟩ :=
    Sqr.loop_inv B hB c a size hc ha hdc hda (size - 1) (by omega)
  have hs1 : size - 1 + 1 = size := by omega
  have hs2 : size - 1 + 2 = size + 1 := by omega
  rw [hs1, hs2] at hv
  rw [hs1] at e hl
  have hsz : size < c.length := by omega
  rw [List.drop_eq_getElem_cons hsz, List.drop_of_length_le (by omega)] at e
  rw [Sqr.sqraLow_eq, e]
  simp only
  rw [Sqr.getD_mid _ _ _ _ hl, Sqr.set_mid _ _ _ _ _ hl, List.append_nil]
  have hy : c[size] < B := hdc _ (List.getElem_mem _)
  obtain ⟨s, k, es, ek, hs', hk, hsum⟩ := LowMul.add_carry_r B c[size] c0 hy h0
  rw [es, ek]
  have htk : (a.drop 1).take (size - 1) = a.drop 1 := by
    apply List.take_of_length_le; rw [List.length_drop]; omega
  rw [htk] at hv
  refine ⟨?_, by simp [hl], ?_, by omega⟩
  · rw [High.val_snoc, hl]
    have hc' := High.val_take_drop B c size (by omega)
    rw [List.drop_eq_getElem_cons hsz, List.drop_of_length_le (by omega)] at hc'
    simp only [val, Nat.mul_zero, Nat.add_zero] at hc'
    rw [hc']
    have hp1 : B ^ (size + 1) = B ^ size * B := by rw [Nat.pow_succ]
    rw [hp1] at hv ⊢
    generalize B ^ size = X at *
    generalize val B (c.take size) = C at *
    generalize val B done = D at *
    generalize c[size] = y at *
    generalize a.getD 0 0 * a.getD 0 0 = a00 at *
    generalize 2 * a.getD 0 0 * (B * val B (a.drop 1)) = Z at *
    have := congrArg (X * ·) hsum
    grind
  · intro y hy
    simp only [List.mem_append, List.mem_singleton] at hy
    rcases hy with hy | hy
    · exact hd y hy
    · omega

namespace Sqr

def basicStep (B : Nat) (a : List Nat) (t : List Nat) (i : Nat) : List Nat :=
  if i + 1 < a.length then
    (splice t (2 * i) (sqraLow B ((t.drop (2 * i)).take (a.length - i + 1)) (a.drop i) (a.length - i)).1).set
      (a.length + i + 1) (sqraLow B ((t.drop (2 * i)).take (a.length - i + 1)) (a.drop i) (a.length - i)).2
  else splice t (2 * i) (sqraLow B ((t.drop (2 * i)).take (a.length - i + 1)) (a.drop i) (a.length - i)).1

theorem splice_shape (lo rest seg : List Nat) (i : Nat) (hlo : lo.length = i + seg.length) :
    splice (lo ++ rest) i seg = lo.take i ++ seg ++ rest := by
  unfold splice
  rw [List.take_append_of_le_length (by omega), ← hlo, List.drop_left]

theorem T_bound (X Y P Q : Nat) (hP : P < X) (hQ : Q < Y) :
    P * P + 2 * P * (X * Q) + X * X < 2 * (X * X * Y) := by
  have h1 : P * P < X * X := Nat.mul_lt_mul'' hP hP
  obtain ⟨Y', rfl⟩ : ∃ Y', Y = Y' + 1 := ⟨Y - 1, by omega⟩
  have h2 : P * (X * Q) ≤ X * (X * Y') :=
    Nat.mul_le_mul (Nat.le_of_lt hP) (Nat.mul_le_mul_left X (by omega))
  have h3 : 2 * P * (X * Q) = 2 * (P * (X * Q)) := by rw [Nat.mul_assoc]
  have h4 : X * X * (Y' + 1) = X * (X * Y') + X * X := by rw [Nat.mul_add, Nat.mul_one, Nat.mul_assoc]
  omega

end Sqr

theorem bnSqrBasic_eq (cfg : Cfg) (a : Bn) : bnSqrBasic cfg a =
    if 2 * a.used > cfg.cap then none
    else some (bnTrim ⟨false, List.take (2 * a.used)
      ((List.range a.used).foldl (Sqr.basicStep cfg.B a.dp) (List.replicate (2 * a.used + 1) 0))⟩) := by
  unfold bnSqrBasic
  by_cases h : 2 * a.used > cfg.cap
  · rw [if_pos h, HighMul.grow_fail cfg h]; rfl
  · rw [if_neg h, HighMul.grow_ok cfg h]; rfl

theorem Sqr.basic_inv (B : Nat) (hB : 1 < B) (a : List Nat) (ha : ∀ d ∈ a, d < B) :
    ∀ i, i ≤ a.length → ∃ lo,
      (List.range i).foldl (Sqr.basicStep B a) (List.replicate (2 * a.length + 1) 0)
        = lo ++ List.replicate (a.length - i) 0
      ∧ lo.length = a.length + i + 1 ∧ (∀ d ∈ lo, d < B)
      ∧ val B lo = val B (a.take i) * val B (a.take i)
          + 2 * val B (a.take i) * (B ^ i * val B (a.drop i)) := by
  intro i
  induction i with
  | zero =>
    intro _
    refine ⟨List.replicate (a.length + 1) 0, ?_, by simp, ?_, ?_⟩
    · rw [Nat.sub_zero, List.replicate_append_replicate,
        show a.length + 1 + a.length = 2 * a.length + 1 by omega]
      rfl
    · intro d hd; rw [List.mem_replicate] at hd; omega
    · rw [HighMul.val_zeros]; simp [val]
  | succ i ih =>
    intro hi
    obtain ⟨lo, e, hl, hd, hv⟩ := ih (by omega)
    have hai : i < a.length := by omega
    have hl' : lo.length = 2 * i + (a.length - i + 1) := by omega
    rw [List.range_succ, List.foldl_append, e]
    simp only [List.foldl_cons, List.foldl_nil]
    unfold Sqr.basicStep
    rw [HighMul.seg_shape lo _ (2 * i) (a.length - i + 1) hl']
    have hdl : (lo.drop (2 * i)).length = a.length - i + 1 := by rw [List.length_drop]; omega
    obtain ⟨e1, l1, d1, _⟩ := sqraLow_spec B hB (lo.drop (2 * i)) (a.drop i) (a.length - i) (by omega) hdl
      (by rw [List.length_drop]) (fun d h => hd d (List.mem_of_mem_drop h))
      (fun d h => ha d (List.mem_of_mem_drop h))
    generalize sqraLow B (lo.drop (2 * i)) (a.drop i) (a.length - i) = p at *
    obtain ⟨seg, cy⟩ := p
    simp only at e1 l1 d1 ⊢
    -- the operand of row i
    have hdrop : a.drop i = a[i] :: a.drop (i + 1) := List.drop_eq_getElem_cons hai
    have hg : (a.drop i).getD 0 0 = a[i] := by rw [hdrop]; rfl
    have hdd : (a.drop i).drop 1 = a.drop (i + 1) := by rw [List.drop_drop]
    rw [hg, hdd] at e1
    have hvd : val B (a.drop i) = a[i] + B * val B (a.drop (i + 1)) := by rw [hdrop]; rfl
    have hvt : val B (a.take (i + 1)) = val B (a.take i) + B ^ i * a[i] := by
      rw [List.take_succ_eq_append_getElem hai, High.val_snoc, List.length_take, Nat.min_eq_left (by omega)]
    have hlt : (lo.take (2 * i)).length = 2 * i := by rw [List.length_take]; omega
    have hsplit := High.val_take_drop B lo (2 * i) (by omega)
    -- value of the new low part
    have hnew : val B (lo.take (2 * i) ++ seg ++ [cy])
        = val B (a.take (i + 1)) * val B (a.take (i + 1))
          + 2 * val B (a.take (i + 1)) * (B ^ (i + 1) * val B (a.drop (i + 1))) := by
      rw [List.append_assoc, val_append, High.val_snoc, hlt, l1, hvt]
      rw [hvd, hsplit] at hv
      have hp1 : B ^ (2 * i) = B ^ i * B ^ i := by rw [← Nat.pow_add]; congr 1; omega
      have hp2 : B ^ (i + 1) = B ^ i * B := by rw [Nat.pow_succ]
      rw [hp1] at hv ⊢
      rw [hp2]
      have e1' := congrArg (B ^ i * B ^ i * ·) e1
      simp only [Nat.mul_add] at e1'
      generalize B ^ i = X at *
      generalize B ^ (a.length - i + 1) = Y at *
      generalize val B (a.take i) = P at *
      generalize val B (a.drop (i + 1)) = Q at *
      generalize val B (lo.take (2 * i)) = L0 at *
      generalize val B (lo.drop (2 * i)) = L1 at *
      generalize val B seg = S at *
      generalize a[i] = ai at *
      grind
    -- bound on the carry
    have hP : val B (a.take (i + 1)) < B ^ (i + 1) := by
      have := val_lt B (a.take (i + 1)) (fun d h => ha d (List.mem_of_mem_take h))
      rwa [List.length_take, Nat.min_eq_left (by omega)] at this
    have hQ : val B (a.drop (i + 1)) < B ^ (a.length - (i + 1)) := by
      have := val_lt B (a.drop (i + 1)) (fun d h => ha d (List.mem_of_mem_drop h))
      rwa [List.length_drop] at this
    have hTb := Sqr.T_bound _ _ _ _ hP hQ
    have hcy : B ^ (a.length + i + 1) * cy ≤ val B (lo.take (2 * i) ++ seg ++ [cy]) := by
      rw [High.val_snoc, List.length_append, hlt, l1, ← hl', hl]
      exact Nat.le_add_left _ _
    have hpw : B ^ (i + 1) * B ^ (i + 1) * B ^ (a.length - (i + 1)) = B ^ (a.length + i + 1) := by
      rw [← Nat.pow_add, ← Nat.pow_add]; congr 1; omega
    rw [hnew] at hcy
    rw [hpw] at hTb
    have hXX : 0 < B ^ (i + 1) * B ^ (i + 1) := Nat.mul_pos (Nat.pow_pos (by omega)) (Nat.pow_pos (by omega))
    have hcy2 : cy < 2 := by
      apply Nat.lt_of_not_le
      intro hge
      have : B ^ (a.length + i + 1) * 2 ≤ B ^ (a.length + i + 1) * cy := Nat.mul_le_mul_left _ hge
      omega
    have hdig : ∀ d ∈ lo.take (2 * i) ++ seg ++ [cy], d < B := by
      intro d hd'
      simp only [List.mem_append, List.mem_singleton] at hd'
      rcases hd' with (h | h) | h
      · exact hd d (List.mem_of_mem_take h)
      · exact d1 d h
      · omega
    have hlen : (lo.take (2 * i) ++ seg ++ [cy]).length = a.length + (i + 1) + 1 := by
      simp [l1]; omega
    split
    · rename_i hlast
      have hk : a.length - i = (a.length - (i + 1)) + 1 := by omega
      have hidx : a.length + i + 1 = 2 * i + (a.length - i + 1) := by omega
      rw [hk, hidx, HighMul.step_shape lo seg _ (2 * i) (a.length - i + 1) cy hl' l1]
      exact ⟨_, rfl, hlen, hdig, hnew⟩
    · rename_i hlast
      have hn : a.length = i + 1 := by omega
      have hcy0 : cy = 0 := by
        apply Nat.eq_zero_of_not_pos
        intro hpos
        have : B ^ (a.length + i + 1) * 1 ≤ B ^ (a.length + i + 1) * cy := Nat.mul_le_mul_left _ hpos
        have hY : B ^ (a.length - (i + 1)) = 1 := by rw [hn, Nat.sub_self, Nat.pow_zero]
        rw [hY, Nat.mul_one] at hpw
        omega
      rw [Sqr.splice_shape lo _ seg (2 * i) (by omega)]
      refine ⟨lo.take (2 * i) ++ seg ++ [cy], ?_, hlen, hdig, hnew⟩
      rw [hcy0, hn]
      simp

theorem bnSqrBasic_exact (cfg : Cfg) (hw : 0 < cfg.w) (a : Bn) (ha : a.WF cfg.B) :
    ExactR cfg.B (bnSqrBasic cfg a) (a.toInt cfg.B * a.toInt cfg.B) := by
  have hB := cfg.one_lt_B hw
  intro c hc
  rw [bnSqrBasic_eq] at hc
  split at hc
  · exact absurd hc (by simp)
  simp only [Option.some.injEq] at hc
  subst hc
  obtain ⟨lo, e, hl, hd, hv⟩ := Sqr.basic_inv cfg.B hB a.dp ha.dig a.dp.length (Nat.le_refl _)
  rw [Nat.sub_self, List.replicate_zero, List.append_nil, List.take_length,
    List.drop_length] at *
  unfold Bn.used
  rw [e]
  have hsplit := High.val_take_drop cfg.B lo (2 * a.dp.length) (by omega)
  have hlt := val_lt cfg.B a.dp ha.dig
  have hsq : val cfg.B a.dp * val cfg.B a.dp < cfg.B ^ (2 * a.dp.length) := by
    rw [Nat.two_mul, Nat.pow_add]
    exact Nat.mul_lt_mul'' hlt hlt
  have hz : val cfg.B (lo.drop (2 * a.dp.length)) = 0 := by
    apply Nat.eq_zero_of_not_pos
    intro hpos
    have : cfg.B ^ (2 * a.dp.length) * 1 ≤ cfg.B ^ (2 * a.dp.length) * val cfg.B (lo.drop (2 * a.dp.length)) :=
      Nat.mul_le_mul_left _ hpos
    simp only [val, Nat.mul_zero, Nat.add_zero] at hv
    omega
  have hval : val cfg.B (lo.take (2 * a.dp.length)) = val cfg.B a.dp * val cfg.B a.dp := by
    simp only [val, Nat.mul_zero, Nat.add_zero] at hv
    rw [hz] at hsplit
    omega
  have := HighMul.mul_fin (B := cfg.B) (by omega) a a _
    (fun d h => hd d (List.mem_of_mem_take h)) hval
  simpa using this

end Relic.Model
