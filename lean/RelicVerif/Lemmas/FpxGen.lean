/-
The formulas regenerated from the C text (RelicVerif/Gen/Fpx.lean, written by tools/translate_fpx.py from
src/fpx/*.c on every run) ARE the definitions of Model/Fpx.lean the theorems of Lemmas/Fpx.lean are about: same data
flow, so every equality is `rfl` (definitional unfolding of the `let` chains). A change of a C function that alters
the formula breaks the corresponding line here.
-/
import RelicVerif.Gen.Fpx
import RelicVerif.Model.Fpx

namespace Relic.Lemmas.FpxGen
open Relic.Model.Formula Relic.Model.Fpx Relic.Gen.Fpx

variable {E : Type} (o : FOps E) (nor : E → E)

/-! ### quadratic levels -/
theorem fp4_mul_basic_eq (a b : V2 E) : fp4_mul_basic o nor a b = quadMul o nor a b := rfl
theorem fp8_mul_basic_eq (a b : V2 E) : fp8_mul_basic o nor a b = quadMul o nor a b := rfl
theorem fp12_mul_basic_eq (a b : V2 E) : fp12_mul_basic o nor a b = quadMul o nor a b := rfl
theorem fp16_mul_basic_eq (a b : V2 E) : fp16_mul_basic o nor a b = quadMul o nor a b := rfl
theorem fp18_mul_basic_eq (a b : V2 E) : fp18_mul_basic o nor a b = quadMul o nor a b := rfl
theorem fp48_mul_basic_eq (a b : V2 E) : fp48_mul_basic o nor a b = quadMul o nor a b := rfl

theorem fp4_sqr_basic_eq (a : V2 E) : fp4_sqr_basic o nor a = quadSqr o nor a := rfl
theorem fp8_sqr_basic_eq (a : V2 E) : fp8_sqr_basic o nor a = quadSqr o nor a := rfl
theorem fp12_sqr_basic_eq (a : V2 E) : fp12_sqr_basic o nor a = quadSqr o nor a := rfl
theorem fp16_sqr_basic_eq (a : V2 E) : fp16_sqr_basic o nor a = quadSqr o nor a := rfl
theorem fp18_sqr_basic_eq (a : V2 E) : fp18_sqr_basic o nor a = quadSqr o nor a := rfl
theorem fp48_sqr_basic_eq (a : V2 E) : fp48_sqr_basic o nor a = quadSqr o nor a := rfl

theorem fp4_inv_eq (a : V2 E) : fp4_inv o nor a = quadInv o nor a := rfl
theorem fp8_inv_eq (a : V2 E) : fp8_inv o nor a = quadInv o nor a := rfl
theorem fp12_inv_eq (a : V2 E) : fp12_inv o nor a = quadInv o nor a := rfl
theorem fp16_inv_eq (a : V2 E) : fp16_inv o nor a = quadInv o nor a := rfl
theorem fp18_inv_eq (a : V2 E) : fp18_inv o nor a = quadInv o nor a := rfl
theorem fp48_inv_eq (a : V2 E) : fp48_inv o nor a = quadInv o nor a := rfl

theorem fp4_mul_art_eq (a : V2 E) : fp4_mul_art o nor a = quadArt nor a := rfl
theorem fp8_mul_art_eq (a : V2 E) : fp8_mul_art o nor a = quadArt nor a := rfl
theorem fp12_mul_art_eq (a : V2 E) : fp12_mul_art o nor a = quadArt nor a := rfl
theorem fp16_mul_art_eq (a : V2 E) : fp16_mul_art o nor a = quadArt nor a := rfl
theorem fp18_mul_art_eq (a : V2 E) : fp18_mul_art o nor a = quadArt nor a := rfl
theorem fp48_mul_art_eq (a : V2 E) : fp48_mul_art o nor a = quadArt nor a := rfl

theorem fp8_sqr_cyc_eq (a : V2 E) : fp8_sqr_cyc o nor a = quadSqrCyc o nor a := rfl
theorem fp16_sqr_cyc_eq (a : V2 E) : fp16_sqr_cyc o nor a = quadSqrCyc o nor a := rfl

/-! ### cubic levels -/
theorem fp6_mul_basic_eq (a b : V3 E) : fp6_mul_basic o nor a b = cubMul o nor a b := rfl
theorem fp9_mul_basic_eq (a b : V3 E) : fp9_mul_basic o nor a b = cubMul o nor a b := rfl
theorem fp24_mul_basic_eq (a b : V3 E) : fp24_mul_basic o nor a b = cubMul o nor a b := rfl
theorem fp54_mul_basic_eq (a b : V3 E) : fp54_mul_basic o nor a b = cubMul o nor a b := rfl

theorem fp6_sqr_basic_eq (a : V3 E) : fp6_sqr_basic o nor a = cubSqr o nor a := rfl
theorem fp9_sqr_basic_eq (a : V3 E) : fp9_sqr_basic o nor a = cubSqr o nor a := rfl

theorem fp6_inv_eq (a : V3 E) : fp6_inv o nor a = cubInv o nor a := rfl
theorem fp9_inv_eq (a : V3 E) : fp9_inv o nor a = cubInv o nor a := rfl
theorem fp24_inv_eq (a : V3 E) : fp24_inv o nor a = cubInv o nor a := rfl
theorem fp54_inv_eq (a : V3 E) : fp54_inv o nor a = cubInv o nor a := rfl

theorem fp6_mul_art_eq (a : V3 E) : fp6_mul_art o nor a = cubArt nor a := rfl
theorem fp9_mul_art_eq (a : V3 E) : fp9_mul_art o nor a = cubArt nor a := rfl
theorem fp24_mul_art_eq (a : V3 E) : fp24_mul_art o nor a = cubArt nor a := rfl
theorem fp54_mul_art_eq (a : V3 E) : fp54_mul_art o nor a = cubArt nor a := rfl

theorem fp6_mul_dxs_eq (a b : V3 E) : fp6_mul_dxs o nor a b = cubMulDxs o nor a b := rfl
theorem fp9_mul_dxs_eq (a b : V3 E) : fp9_mul_dxs o nor a b = cubMulDxs o nor a b := rfl

/-! ### fp12: cyclotomic, compressed, decompression -/
theorem fp12_sqr_cyc_basic_eq (a : Fp12 E) : fp12_sqr_cyc_basic o nor a = fp12SqrCyc o nor a := rfl
theorem fp12_sqr_pck_basic_eq (c a : Fp12 E) : fp12_sqr_pck_basic o nor c a = fp12SqrPck o nor c a := rfl
theorem fp12_back_cyc_eq (a : Fp12 E) : fp12_back_cyc o nor a = fp12BackCyc o nor a := rfl

end Relic.Lemmas.FpxGen
