/-
bn_mul1_low, bn_mula_low, Comba multiplication/squaring (bn_muln_low, bn_muld_low, bn_sqrn_low)
compute ℕ products on digit vectors, for every base B > 1.
-/
import RelicVerif.Lemmas.BnLowAdd

namespace Relic.Model

/-- bn_mul1_low: a * digit + carry-in -/
theorem mul1Low_spec (B : Nat) (hB : 1 < B) :
    ∀ (a : List Nat) (digit carry : Nat), digit < B → carry < B → (∀ d ∈ a, d < B) →
      val B (mul1Low B a digit carry).1 + (mul1Low B a digit carry).2 * B ^ a.length
        = val B a * digit + carry
      ∧ (mul1Low B a digit carry).2 < B
      ∧ (∀ d ∈ (mul1Low B a digit carry).1, d < B) ∧ (mul1Low B a digit carry).1.length = a.length := by
  sorry

/-- bn_mula_low: c + a * digit + carry-in -/
theorem mulaLow_spec (B : Nat) (hB : 1 < B) :
    ∀ (c a : List Nat) (digit carry : Nat), c.length = a.length → digit < B → carry < B →
      (∀ d ∈ c, d < B) → (∀ d ∈ a, d < B) →
      val B (mulaLow B c a digit carry).1 + (mulaLow B c a digit carry).2 * B ^ a.length
        = val B c + val B a * digit + carry
      ∧ (mulaLow B c a digit carry).2 < B
      ∧ (∀ d ∈ (mulaLow B c a digit carry).1, d < B) ∧ (mulaLow B c a digit carry).1.length = a.length := by
  sorry

/-- value of the Comba triple register -/
def regVal (B : Nat) (r : Nat × Nat × Nat) : Nat := r.2.2 + B * r.2.1 + B * B * r.1

/-- RLC_COMBA_STEP_MUL accumulates x*y into the triple register, as long as the total fits three digits -/
theorem combaStepMul_spec (B : Nat) (hB : 1 < B) (r : Nat × Nat × Nat) (x y : Nat)
    (hr2 : r.1 < B) (hr1 : r.2.1 < B) (hr0 : r.2.2 < B) (hx : x < B) (hy : y < B)
    (hfit : regVal B r + x * y < B * B * B) :
    regVal B (combaStepMul B r x y) = regVal B r + x * y
    ∧ (combaStepMul B r x y).1 < B ∧ (combaStepMul B r x y).2.1 < B ∧ (combaStepMul B r x y).2.2 < B := by
  sorry

/-- RLC_COMBA_STEP_SQR accumulates 2*x*y -/
theorem combaStepSqr_spec (B : Nat) (hB : 1 < B) (r : Nat × Nat × Nat) (x y : Nat)
    (hr2 : r.1 < B) (hr1 : r.2.1 < B) (hr0 : r.2.2 < B) (hx : x < B) (hy : y < B)
    (hfit : regVal B r + 2 * (x * y) < B * B * B) :
    regVal B (combaStepSqr B r x y) = regVal B r + 2 * (x * y)
    ∧ (combaStepSqr B r x y).1 < B ∧ (combaStepSqr B r x y).2.1 < B ∧ (combaStepSqr B r x y).2.2 < B := by
  sorry

/-- bn_muln_low (Comba, product scanning) = ℕ multiplication. `size < B` keeps every column sum inside
    the three-digit accumulator (true for every buildable precision, including the 8-bit digit build). -/
theorem mulnLow_spec (B : Nat) (hB : 1 < B) (a b : List Nat) (size : Nat)
    (ha : a.length = size) (hb : b.length = size) (hs : size < B)
    (hda : ∀ d ∈ a, d < B) (hdb : ∀ d ∈ b, d < B) :
    val B (mulnLow B a b size) = val B a * val B b
    ∧ (mulnLow B a b size).length = 2 * size ∧ (∀ d ∈ mulnLow B a b size, d < B) := by
  sorry

/-- bn_muld_low with l = 0, h = sa + sb, sa ≥ sb (the way bn_mul_comba calls it) -/
theorem muldLow_spec (B : Nat) (hB : 1 < B) (a b : List Nat) (sa sb : Nat)
    (ha : a.length = sa) (hb : b.length = sb) (hab : sb ≤ sa) (hsb : 0 < sb) (hs : sb < B)
    (hda : ∀ d ∈ a, d < B) (hdb : ∀ d ∈ b, d < B) :
    val B (muldLow B a sa b sb) = val B a * val B b
    ∧ (muldLow B a sa b sb).length = sa + sb ∧ (∀ d ∈ muldLow B a sa b sb, d < B) := by
  sorry

/-- bn_sqrn_low (Comba squaring with doubled cross terms) = ℕ squaring -/
theorem sqrnLow_spec (B : Nat) (hB : 1 < B) (a : List Nat) (size : Nat)
    (ha : a.length = size) (hs : size < B) (hda : ∀ d ∈ a, d < B) :
    val B (sqrnLow B a size) = val B a * val B a
    ∧ (sqrnLow B a size).length = 2 * size ∧ (∀ d ∈ sqrnLow B a size, d < B) := by
  sorry

end Relic.Model
