/-
bn_mul1_low, bn_mula_low, Comba multiplication/squaring (bn_muln_low, bn_muld_low, bn_sqrn_low)
compute ℕ products on digit vectors, for every base B > 1.
-/
import RelicVerif.Lemmas.BnLowAdd

namespace Relic.Model

namespace LowMul

theorem add_mod_cases (B u v : Nat) (hu : u < B) (hv : v < B) :
    ((u + v) % B = u + v ∧ u + v < B) ∨ ((u + v) % B + B = u + v ∧ B ≤ u + v) := by
  by_cases h : u + v < B
  · exact Or.inl ⟨Nat.mod_eq_of_lt h, h⟩
  · right
    rw [Nat.mod_eq_sub_mod (by omega), Nat.mod_eq_of_lt (by omega)]
    omega

/-- one digit addition with the C overflow test `sum < right operand` -/
theorem add_carry_r (B u v : Nat) (hu : u < B) (hv : v < B) :
    ∃ s k, (u + v) % B = s ∧ (if s < v then 1 else 0) = k ∧ s < B ∧ k ≤ 1 ∧ u + v = s + k * B := by
  rcases add_mod_cases B u v hu hv with ⟨e, h⟩ | ⟨e, h⟩
  · exact ⟨u + v, 0, e, if_neg (by omega), h, by omega, by omega⟩
  · exact ⟨(u + v) % B, 1, rfl, if_pos (by omega), by omega, by omega, by omega⟩

/-- one digit addition with the C overflow test `sum < left operand` -/
theorem add_carry_l (B u v : Nat) (hu : u < B) (hv : v < B) :
    ∃ s k, (u + v) % B = s ∧ (if s < u then 1 else 0) = k ∧ s < B ∧ k ≤ 1 ∧ u + v = s + k * B := by
  rcases add_mod_cases B u v hu hv with ⟨e, h⟩ | ⟨e, h⟩
  · exact ⟨u + v, 0, e, if_neg (by omega), h, by omega, by omega⟩
  · exact ⟨(u + v) % B, 1, rfl, if_pos (by omega), by omega, by omega, by omega⟩

theorem mul_div_lt (B x y : Nat) (hB : 1 < B) (hx : x < B) (hy : y < B) : x * y / B + 2 ≤ B := by
  have h1 : x * y ≤ (B - 1) * (B - 1) := Nat.mul_le_mul (by omega) (by omega)
  have h2 : (B - 1) * (B - 1) < (B - 1) * B := Nat.mul_lt_mul_of_pos_left (by omega) (by omega)
  have : x * y / B < B - 1 := (Nat.div_lt_iff_lt_mul (by omega)).2 (by omega)
  omega

theorem mul_le_sq (B x y : Nat) (hx : x < B) (hy : y < B) : x * y + 2 * B ≤ B * B + 1 := by
  have h1 : x * y ≤ (B - 1) * (B - 1) := Nat.mul_le_mul (by omega) (by omega)
  obtain ⟨k, rfl⟩ : ∃ k, B = k + 1 := ⟨B - 1, by omega⟩
  simp only [Nat.add_sub_cancel] at h1
  grind

/-- split a product into (hi, lo) digits -/
theorem mul_split (B x y : Nat) (hB : 1 < B) (hx : x < B) (hy : y < B) :
    ∃ p1 p0, x * y / B = p1 ∧ x * y % B = p0 ∧ p0 < B ∧ p1 + 2 ≤ B ∧ x * y = p1 * B + p0 := by
  refine ⟨_, _, rfl, rfl, Nat.mod_lt _ (by omega), mul_div_lt B x y hB hx hy, ?_⟩
  have := Nat.div_add_mod (x * y) B
  rw [Nat.mul_comm] at this
  exact this.symm

theorem mul1Low_step (B : Nat) (hB : 1 < B) (a digit carry : Nat) (as : List Nat)
    (ha : a < B) (hd : digit < B) (hc : carry < B) :
    ∃ c carry', c < B ∧ carry' < B ∧ c + carry' * B = a * digit + carry ∧
      mul1Low B (a :: as) digit carry
        = (c :: (mul1Low B as digit carry').1, (mul1Low B as digit carry').2) := by
  obtain ⟨p1, p0, e1, e0, h0, h1, hp⟩ := mul_split B a digit hB ha hd
  obtain ⟨s, k, es, ek, hs, hk, hsum⟩ := add_carry_r B p0 carry h0 hc
  refine ⟨s, p1 + k, hs, by omega, by grind, ?_⟩
  simp only [mul1Low, e1, e0, es, ek]
  rw [Nat.mod_eq_of_lt (show p1 + k < B by omega)]

/-- generic tail step for carry chains: value of `d :: ds` with carry-out at one more digit -/
theorem chain_step (B : Nat) (d vs cout n total : Nat)
    (ih : vs + cout * B ^ n = total)  :
    d + B * vs + cout * B ^ (n + 1) = d + B * total := by
  subst ih; rw [Nat.pow_succ]; grind

end LowMul

open LowMul

/-- bn_mul1_low: a * digit + carry-in -/
theorem mul1Low_spec (B : Nat) (hB : 1 < B) :
    ∀ (a : List Nat) (digit carry : Nat), digit < B → carry < B → (∀ d ∈ a, d < B) →
      val B (mul1Low B a digit carry).1 + (mul1Low B a digit carry).2 * B ^ a.length
        = val B a * digit + carry
      ∧ (mul1Low B a digit carry).2 < B
      ∧ (∀ d ∈ (mul1Low B a digit carry).1, d < B) ∧ (mul1Low B a digit carry).1.length = a.length := by
  intro a
  induction a with
  | nil => intro digit carry _ hc _; simp [mul1Low, val, hc]
  | cons x xs ih =>
    intro digit carry hd hc ha
    have hx : x < B := ha x (by simp)
    have ha' : ∀ d ∈ xs, d < B := fun d hd => ha d (by simp [hd])
    obtain ⟨c, carry', hc1, hc2, hsum, heq⟩ := mul1Low_step B hB x digit carry xs hx hd hc
    obtain ⟨ih1, ih2, ih3, ih4⟩ := ih digit carry' hd hc2 ha'
    rw [heq]
    refine ⟨?_, ih2, ?_, by simp [ih4]⟩
    · simp only [val, List.length_cons]
      rw [chain_step B c _ _ _ _ ih1]
      grind
    · intro d hd
      simp at hd
      rcases hd with rfl | hd
      · exact hc1
      · exact ih3 d hd

namespace LowMul

theorem mulaLow_step (B : Nat) (hB : 1 < B) (c a digit carry : Nat) (cs as : List Nat)
    (hc0 : c < B) (ha : a < B) (hd : digit < B) (hc : carry < B) :
    ∃ c' carry', c' < B ∧ carry' < B ∧ c' + carry' * B = c + a * digit + carry ∧
      mulaLow B (c :: cs) (a :: as) digit carry
        = (c' :: (mulaLow B cs as digit carry').1, (mulaLow B cs as digit carry').2) := by
  obtain ⟨p1, p0, e1, e0, h0, h1, hp⟩ := mul_split B a digit hB ha hd
  have hsq := mul_le_sq B a digit ha hd
  obtain ⟨s, k, es, ek, hs, hk, hsum⟩ := add_carry_r B p0 carry h0 hc
  obtain ⟨s', k', es', ek', hs', hk', hsum'⟩ := add_carry_r B c s hc0 hs
  have htot : s' + (p1 + k + k') * B = c + a * digit + carry := by grind
  have hT : p1 + k + k' < B := by
    apply Nat.lt_of_not_le
    intro hge
    have : B * B ≤ (p1 + k + k') * B := Nat.mul_le_mul_right B hge
    omega
  refine ⟨s', p1 + k + k', hs', hT, htot, ?_⟩
  simp only [mulaLow, e1, e0, es, ek, es', ek']
  rw [Nat.mod_eq_of_lt (show p1 + k < B by omega), Nat.mod_eq_of_lt hT]

end LowMul

/-- bn_mula_low: c + a * digit + carry-in -/
theorem mulaLow_spec (B : Nat) (hB : 1 < B) :
    ∀ (c a : List Nat) (digit carry : Nat), c.length = a.length → digit < B → carry < B →
      (∀ d ∈ c, d < B) → (∀ d ∈ a, d < B) →
      val B (mulaLow B c a digit carry).1 + (mulaLow B c a digit carry).2 * B ^ a.length
        = val B c + val B a * digit + carry
      ∧ (mulaLow B c a digit carry).2 < B
      ∧ (∀ d ∈ (mulaLow B c a digit carry).1, d < B) ∧ (mulaLow B c a digit carry).1.length = a.length := by
  intro c
  induction c with
  | nil =>
    intro a digit carry hl _ hc _ _
    cases a with
    | nil => simp [mulaLow, val, hc]
    | cons _ _ => simp at hl
  | cons y ys ih =>
    intro a digit carry hl hd hc hcs ha
    cases a with
    | nil => simp at hl
    | cons x xs =>
      simp only [List.length_cons, Nat.add_right_cancel_iff] at hl
      have hx : x < B := ha x (by simp)
      have hy : y < B := hcs y (by simp)
      have ha' : ∀ d ∈ xs, d < B := fun d hd => ha d (by simp [hd])
      have hc' : ∀ d ∈ ys, d < B := fun d hd => hcs d (by simp [hd])
      obtain ⟨c', carry', hc1, hc2, hsum, heq⟩ := mulaLow_step B hB y x digit carry ys xs hy hx hd hc
      obtain ⟨ih1, ih2, ih3, ih4⟩ := ih xs digit carry' hl hd hc2 hc' ha'
      rw [heq]
      refine ⟨?_, ih2, ?_, by simp [ih4]⟩
      · simp only [val, List.length_cons]
        rw [chain_step B c' _ _ _ _ ih1]
        grind
      · intro d hd
        simp at hd
        rcases hd with rfl | hd
        · exact hc1
        · exact ih3 d hd



/-- value of the Comba triple register -/
def regVal (B : Nat) (r : Nat × Nat × Nat) : Nat := r.2.2 + B * r.2.1 + B * B * r.1

/-- RLC_COMBA_STEP_MUL accumulates x*y into the triple register, as long as the total fits three digits -/
theorem combaStepMul_spec (B : Nat) (hB : 1 < B) (r : Nat × Nat × Nat) (x y : Nat)
    (hr2 : r.1 < B) (hr1 : r.2.1 < B) (hr0 : r.2.2 < B) (hx : x < B) (hy : y < B)
    (hfit : regVal B r + x * y < B * B * B) :
    regVal B (combaStepMul B r x y) = regVal B r + x * y
    ∧ (combaStepMul B r x y).1 < B ∧ (combaStepMul B r x y).2.1 < B ∧ (combaStepMul B r x y).2.2 < B := by
  obtain ⟨r2, r1, r0⟩ := r
  simp only [regVal] at *
  obtain ⟨p1, p0, e1, e0, h0, h1, hp⟩ := mul_split B x y hB hx hy
  obtain ⟨s0, k0, es0, ek0, hs0, hk0, hsum0⟩ := add_carry_r B r0 p0 hr0 h0
  obtain ⟨s1, k1, es1, ek1, hs1, hk1, hsum1⟩ := add_carry_l B r1 k0 hr1 (by omega)
  obtain ⟨s2, k2, es2, ek2, hs2, hk2, hsum2⟩ := add_carry_r B s1 p1 hs1 (by omega)
  have htot : s0 + B * s2 + B * B * (r2 + k1 + k2) = r0 + B * r1 + B * B * r2 + x * y := by grind
  have hT : r2 + k1 + k2 < B := by
    have : B * B * (r2 + k1 + k2) < B * B * B := by omega
    exact Nat.lt_of_mul_lt_mul_left this
  simp only [combaStepMul, e1, e0, es0, ek0, es1, ek1, es2, ek2]
  rw [Nat.mod_eq_of_lt (show r2 + k1 < B by omega), Nat.mod_eq_of_lt hT]
  exact ⟨htot, hT, hs2, hs0⟩

namespace LowMul

/-- doubling a two-digit product: the high half with the C overflow test `s1 < p1` -/
theorem add_carry_dbl (B p1 k : Nat) (h1 : p1 + 2 ≤ B) (hk : k ≤ 1) :
    ∃ s k', (p1 + p1 + k) % B = s ∧ (if s < p1 then 1 else 0) = k' ∧ s < B ∧ k' ≤ 1
      ∧ p1 + p1 + k = s + k' * B := by
  by_cases h : p1 + p1 + k < B
  · exact ⟨p1 + p1 + k, 0, Nat.mod_eq_of_lt h, if_neg (by omega), h, by omega, by omega⟩
  · have e : (p1 + p1 + k) % B = p1 + p1 + k - B := by
      rw [Nat.mod_eq_sub_mod (by omega), Nat.mod_eq_of_lt (by omega)]
    exact ⟨p1 + p1 + k - B, 1, e, if_pos (by omega), by omega, by omega, by omega⟩

end LowMul

/-- RLC_COMBA_STEP_SQR accumulates 2*x*y -/
theorem combaStepSqr_spec (B : Nat) (hB : 1 < B) (r : Nat × Nat × Nat) (x y : Nat)
    (hr2 : r.1 < B) (hr1 : r.2.1 < B) (hr0 : r.2.2 < B) (hx : x < B) (hy : y < B)
    (hfit : regVal B r + 2 * (x * y) < B * B * B) :
    regVal B (combaStepSqr B r x y) = regVal B r + 2 * (x * y)
    ∧ (combaStepSqr B r x y).1 < B ∧ (combaStepSqr B r x y).2.1 < B ∧ (combaStepSqr B r x y).2.2 < B := by
  obtain ⟨r2, r1, r0⟩ := r
  simp only [regVal] at *
  obtain ⟨p1, p0, e1, e0, h0, h1, hp⟩ := mul_split B x y hB hx hy
  obtain ⟨d0, c0, ed0, ec0, hd0, hc0, hdsum0⟩ := add_carry_r B p0 p0 h0 h0
  obtain ⟨d1, c1, ed1, ec1, hd1, hc1, hdsum1⟩ := add_carry_dbl B p1 c0 h1 hc0
  obtain ⟨s0, k0, es0, ek0, hs0, hk0, hsum0⟩ := add_carry_r B r0 d0 hr0 hd0
  obtain ⟨s1, k1, es1, ek1, hs1, hk1, hsum1⟩ := add_carry_l B r1 k0 hr1 (by omega)
  obtain ⟨s2, k2, es2, ek2, hs2, hk2, hsum2⟩ := add_carry_r B s1 d1 hs1 hd1
  have htot : s0 + B * s2 + B * B * (r2 + k1 + k2 + c1)
      = r0 + B * r1 + B * B * r2 + 2 * (x * y) := by grind
  have hT : r2 + k1 + k2 + c1 < B := by
    have : B * B * (r2 + k1 + k2 + c1) < B * B * B := by omega
    exact Nat.lt_of_mul_lt_mul_left this
  simp only [combaStepSqr, e1, e0, ed0, ec0, ed1, ec1, es0, ek0, es1, ek1, es2, ek2]
  rw [Nat.mod_eq_of_lt (show r2 + k1 < B by omega), Nat.mod_eq_of_lt (show r2 + k1 + k2 < B by omega),
    Nat.mod_eq_of_lt hT]
  exact ⟨htot, hT, hs2, hs0⟩



/-! ### generic column fold -/

namespace LowMul

/-- emit the low register digit and shift the register down by one digit -/
def colStep {γ : Type} (proc : γ → Nat × Nat × Nat → Nat × Nat × Nat)
    (st : List Nat × (Nat × Nat × Nat)) (c : γ) : List Nat × (Nat × Nat × Nat) :=
  ((proc c st.2).2.2 :: st.1, (0, (proc c st.2).1, (proc c st.2).2.1))

theorem fold_arith (P B d r1 r2 R vc V X : Nat) (h : d + B * r1 + B * B * r2 = R + vc) :
    X + P * (d + B * 0) + P * B * (r1 + B * r2 + B * B * 0 + V) = X + P * (R + (vc + B * V)) := by
  grind

theorem colFold_spec (B : Nat) {γ : Type} (proc : γ → Nat × Nat × Nat → Nat × Nat × Nat)
    (v : γ → Nat) (cols : List γ)
    (hproc : ∀ c ∈ cols, ∀ r : Nat × Nat × Nat, r.1 = 0 → r.2.1 < B → r.2.2 < B →
      regVal B (proc c r) = regVal B r + v c
      ∧ (proc c r).1 < B ∧ (proc c r).2.1 < B ∧ (proc c r).2.2 < B) :
    ∀ st : List Nat × (Nat × Nat × Nat), st.2.1 = 0 → st.2.2.1 < B → st.2.2.2 < B →
      (∀ d ∈ st.1, d < B) →
      val B (cols.foldl (colStep proc) st).1.reverse
          + B ^ (cols.foldl (colStep proc) st).1.length * regVal B (cols.foldl (colStep proc) st).2
        = val B st.1.reverse + B ^ st.1.length * (regVal B st.2 + val B (cols.map v))
      ∧ (cols.foldl (colStep proc) st).1.length = st.1.length + cols.length
      ∧ (∀ d ∈ (cols.foldl (colStep proc) st).1, d < B)
      ∧ (cols.foldl (colStep proc) st).2.1 = 0 := by
  induction cols with
  | nil =>
    intro st h1 _ _ hd
    simp only [List.foldl_nil, List.map_nil, val, Nat.add_zero, List.length_nil]
    exact ⟨trivial, trivial, hd, h1⟩
  | cons c cs ih =>
    intro st h1 h2 h3 hd
    obtain ⟨p1, p2, p3, p4⟩ := hproc c (by simp) st.2 h1 h2 h3
    have ih' := ih (fun c' hc' => hproc c' (by simp [hc'])) (colStep proc st c) rfl p2 p3
      (by
        intro d hd'
        simp only [colStep, List.mem_cons] at hd'
        rcases hd' with rfl | hd'
        · exact p4
        · exact hd d hd')
    obtain ⟨q1, q2, q3, q4⟩ := ih'
    simp only [List.foldl_cons]
    refine ⟨?_, ?_, q3, q4⟩
    · rw [q1]
      simp only [colStep, List.reverse_cons, val_append, List.length_reverse, List.length_cons,
        List.map_cons, val, regVal, Nat.pow_succ] at p1 ⊢
      exact fold_arith _ _ _ _ _ _ _ _ _ p1
    · rw [q2]; simp [colStep]; omega



end LowMul

/-! ### column processors -/

namespace LowMul

def colVal (a b : List Nat) : List (Nat × Nat) → Nat
  | [] => 0
  | ij :: ps => a.getD ij.1 0 * b.getD ij.2 0 + colVal a b ps

def mulProc (B : Nat) (a b : List Nat) (pairs : List (Nat × Nat)) (r : Nat × Nat × Nat) :
    Nat × Nat × Nat :=
  pairs.foldl (fun acc ij => combaStepMul B acc (a.getD ij.1 0) (b.getD ij.2 0)) r

theorem getD_lt (B : Nat) (hB : 0 < B) (a : List Nat) (h : ∀ d ∈ a, d < B) (i : Nat) :
    a.getD i 0 < B := by
  by_cases hi : i < a.length
  · rw [List.getD_eq_getElem?_getD, List.getElem?_eq_getElem hi]; exact h _ (List.getElem_mem _)
  · rw [List.getD_eq_getElem?_getD, List.getElem?_eq_none (by omega)]; exact hB

theorem getD_ge (a : List Nat) (i : Nat) (hi : a.length ≤ i) : a.getD i 0 = 0 := by
  rw [List.getD_eq_getElem?_getD, List.getElem?_eq_none hi]; rfl

theorem mulProc_fold (B : Nat) (hB : 1 < B) (a b : List Nat)
    (hda : ∀ d ∈ a, d < B) (hdb : ∀ d ∈ b, d < B) :
    ∀ (pairs : List (Nat × Nat)) (acc : Nat × Nat × Nat),
      acc.1 < B → acc.2.1 < B → acc.2.2 < B →
      regVal B acc + pairs.length * (B * B) ≤ B * B * B →
      regVal B (mulProc B a b pairs acc) = regVal B acc + colVal a b pairs
      ∧ (mulProc B a b pairs acc).1 < B ∧ (mulProc B a b pairs acc).2.1 < B
      ∧ (mulProc B a b pairs acc).2.2 < B := by
  intro pairs
  induction pairs with
  | nil => intro acc h1 h2 h3 _; exact ⟨rfl, h1, h2, h3⟩
  | cons ij ps ih =>
    intro acc h1 h2 h3 hfit
    have hx := getD_lt B (by omega) a hda ij.1
    have hy := getD_lt B (by omega) b hdb ij.2
    have hxy : a.getD ij.1 0 * b.getD ij.2 0 < B * B := Nat.mul_lt_mul'' hx hy
    simp only [List.length_cons, Nat.succ_mul] at hfit
    obtain ⟨e, g1, g2, g3⟩ := combaStepMul_spec B hB acc _ _ h1 h2 h3 hx hy (by omega)
    obtain ⟨e', g1', g2', g3'⟩ := ih (combaStepMul B acc (a.getD ij.1 0) (b.getD ij.2 0)) g1 g2 g3
      (by omega)
    refine ⟨?_, g1', g2', g3'⟩
    show regVal B (mulProc B a b ps _) = _
    rw [e', e, colVal]; omega

theorem reg_small (B : Nat) (r : Nat × Nat × Nat) (n : Nat) (h0 : r.1 = 0) (h1 : r.2.1 < B)
    (h2 : r.2.2 < B) (hn : n < B) : regVal B r + n * (B * B) ≤ B * B * B := by
  have e1 : B * r.2.1 + B ≤ B * B := by
    have := Nat.mul_le_mul_left B (show r.2.1 + 1 ≤ B from h1)
    rwa [Nat.mul_succ] at this
  have e2 : n * (B * B) + B * B ≤ B * B * B := by
    have := Nat.mul_le_mul_right (B * B) (show n + 1 ≤ B from hn)
    rwa [Nat.succ_mul, ← Nat.mul_assoc B B B] at this
  simp only [regVal, h0, Nat.mul_zero, Nat.add_zero]
  omega

theorem mulProc_spec (B : Nat) (hB : 1 < B) (a b : List Nat)
    (hda : ∀ d ∈ a, d < B) (hdb : ∀ d ∈ b, d < B) (pairs : List (Nat × Nat))
    (hlen : pairs.length < B) (r : Nat × Nat × Nat) (h0 : r.1 = 0) (h1 : r.2.1 < B)
    (h2 : r.2.2 < B) :
    regVal B (mulProc B a b pairs r) = regVal B r + colVal a b pairs
    ∧ (mulProc B a b pairs r).1 < B ∧ (mulProc B a b pairs r).2.1 < B
    ∧ (mulProc B a b pairs r).2.2 < B :=
  mulProc_fold B hB a b hda hdb pairs r (by omega) h1 h2 (reg_small B r _ h0 h1 h2 hlen)

theorem mulnLow_eq (B : Nat) (a b : List Nat) (size : Nat) :
    mulnLow B a b size =
      ((((List.range size).map fun i => (List.range (i + 1)).map fun j => (j, i - j)) ++
        ((List.range size).map fun i =>
          (List.range (size - (i + 1))).map fun j => (i + 1 + j, size - 1 - j))).foldl
        (colStep (mulProc B a b)) ([], (0, 0, 0))).1.reverse := rfl


end LowMul

/-! ### finite sums over an initial segment of ℕ -/

namespace LowMul

def sumTo (f : Nat → Nat) : Nat → Nat
  | 0 => 0
  | n + 1 => sumTo f n + f n

theorem sumTo_congr {f g : Nat → Nat} : ∀ n, (∀ i, i < n → f i = g i) → sumTo f n = sumTo g n
  | 0, _ => rfl
  | n + 1, h => by
    simp only [sumTo]
    rw [sumTo_congr n (fun i hi => h i (by omega)), h n (by omega)]

theorem sumTo_zero {f : Nat → Nat} : ∀ n, (∀ i, i < n → f i = 0) → sumTo f n = 0
  | 0, _ => rfl
  | n + 1, h => by
    simp only [sumTo]
    rw [sumTo_zero n (fun i hi => h i (by omega)), h n (by omega)]

theorem sumTo_add (f : Nat → Nat) (m : Nat) :
    ∀ n, sumTo f (m + n) = sumTo f m + sumTo (fun i => f (m + i)) n
  | 0 => rfl
  | n + 1 => by
    show sumTo f (m + n) + f (m + n) = _
    rw [sumTo_add f m n]; simp only [sumTo]; omega

theorem sumTo_succ_front (f : Nat → Nat) :
    ∀ n, sumTo f (n + 1) = f 0 + sumTo (fun i => f (i + 1)) n
  | 0 => by simp [sumTo]
  | n + 1 => by
    show sumTo f (n + 1) + f (n + 1) = _
    rw [sumTo_succ_front f n]; simp only [sumTo]; omega

theorem colVal_append (a b : List Nat) (p q : List (Nat × Nat)) :
    colVal a b (p ++ q) = colVal a b p + colVal a b q := by
  induction p with
  | nil => simp [colVal]
  | cons x xs ih => simp only [List.cons_append, colVal, ih]; omega

theorem colVal_map_range (a b : List Nat) (g : Nat → Nat × Nat) :
    ∀ n, colVal a b ((List.range n).map g) = sumTo (fun j => a.getD (g j).1 0 * b.getD (g j).2 0) n
  | 0 => rfl
  | n + 1 => by
    rw [List.range_succ, List.map_append, colVal_append, colVal_map_range a b g n]
    simp [colVal, sumTo]

/-- the k-th coefficient of the product of the digit polynomials -/
def colSum (a b : List Nat) (k : Nat) : Nat :=
  sumTo (fun i => a.getD i 0 * b.getD (k - i) 0) (k + 1)

theorem colSum_nil (b : List Nat) (k : Nat) : colSum [] b k = 0 :=
  sumTo_zero _ (fun i _ => by simp)

theorem colSum_cons_zero (x : Nat) (xs b : List Nat) : colSum (x :: xs) b 0 = x * b.getD 0 0 := by
  simp [colSum, sumTo]

theorem colSum_cons_succ (x : Nat) (xs b : List Nat) (k : Nat) :
    colSum (x :: xs) b (k + 1) = x * b.getD (k + 1) 0 + colSum xs b k := by
  unfold colSum
  rw [sumTo_succ_front]
  simp only [List.getD_cons_zero, Nat.sub_zero, List.getD_cons_succ, Nat.add_sub_add_right]

end LowMul

/-! ### digit lists built from functions -/

namespace LowMul

theorem val_map_range_succ (B : Nat) (F : Nat → Nat) (m : Nat) :
    val B ((List.range (m + 1)).map F)
      = F 0 + B * val B ((List.range m).map (fun k => F (k + 1))) := by
  rw [List.range_succ_eq_map, List.map_cons, List.map_map, val]
  rfl

theorem val_map_zero (B : Nat) (l : List Nat) : val B (l.map (fun _ => 0)) = 0 := by
  induction l with
  | nil => rfl
  | cons x xs ih => simp [val, ih]

theorem val_map_add (B : Nat) (F G : Nat → Nat) (l : List Nat) :
    val B (l.map (fun k => F k + G k)) = val B (l.map F) + val B (l.map G) := by
  induction l with
  | nil => rfl
  | cons x xs ih => simp only [List.map_cons, val, ih]; grind

theorem val_map_mul (B c : Nat) (F : Nat → Nat) (l : List Nat) :
    val B (l.map (fun k => c * F k)) = c * val B (l.map F) := by
  induction l with
  | nil => rfl
  | cons x xs ih => simp only [List.map_cons, val, ih]; grind

theorem val_getD_range (B : Nat) : ∀ (b : List Nat) (m : Nat), b.length ≤ m →
    val B ((List.range m).map (fun k => b.getD k 0)) = val B b
  | [], m, _ => by simp [val_map_zero, val]
  | y :: ys, 0, h => by simp at h
  | y :: ys, m + 1, h => by
    rw [val_map_range_succ]
    simp only [List.getD_cons_zero, List.getD_cons_succ, val]
    rw [val_getD_range B ys m (by simpa using h)]

/-- Σ_k colSum a b k * B^k = val a * val b, as soon as all columns are included -/
theorem val_colSum (B : Nat) (b : List Nat) : ∀ (a : List Nat) (m : Nat), a.length + b.length ≤ m →
    val B ((List.range m).map (colSum a b)) = val B a * val B b
  | [], m, _ => by
    have : colSum [] b = fun _ => 0 := funext (colSum_nil b)
    rw [this, val_map_zero]; simp [val]
  | x :: xs, 0, h => by simp at h
  | x :: xs, m + 1, h => by
    have hl : xs.length + b.length ≤ m := by simp at h; omega
    have hb : b.length ≤ m + 1 := by omega
    rw [val_map_range_succ]
    simp only [colSum_cons_zero, colSum_cons_succ]
    rw [val_map_add, val_map_mul, val_colSum B b xs m hl]
    have e := val_getD_range B b (m + 1) hb
    rw [val_map_range_succ] at e
    simp only [val]
    rw [← e]
    grind



/-- a diagonal segment of index pairs covers the whole k-th column when everything outside it
    is out of range -/
theorem seg_eq_colSum (a b : List Nat) (s t cnt : Nat) (h1 : cnt ≤ t + 1)
    (hstart : s = 0 ∨ b.length ≤ t + 1) (hend : a.length ≤ s + cnt ∨ cnt = t + 1) :
    sumTo (fun j => a.getD (s + j) 0 * b.getD (t - j) 0) cnt = colSum a b (s + t) := by
  unfold colSum
  have e : s + t + 1 = s + (cnt + (t + 1 - cnt)) := by omega
  rw [e, sumTo_add, sumTo_add]
  have z1 : sumTo (fun i => a.getD i 0 * b.getD (s + t - i) 0) s = 0 := by
    apply sumTo_zero; intro i hi
    rcases hstart with h | h
    · omega
    · show a.getD i 0 * b.getD (s + t - i) 0 = 0
      rw [getD_ge b _ (by omega)]; simp
  have z3 : sumTo (fun i => a.getD (s + (cnt + i)) 0 * b.getD (s + t - (s + (cnt + i))) 0)
      (t + 1 - cnt) = 0 := by
    apply sumTo_zero; intro i hi
    rcases hend with h | h
    · show a.getD (s + (cnt + i)) 0 * _ = 0
      rw [getD_ge a _ (by omega)]; simp
    · omega
  rw [z1, z3]
  simp only [Nat.zero_add, Nat.add_zero]
  apply sumTo_congr; intro j hj
  show _ = a.getD (s + j) 0 * b.getD (s + t - (s + j)) 0
  have : s + t - (s + j) = t - j := by omega
  rw [this]

/-- a sum that is symmetric about its middle is twice the first half plus the middle term -/
theorem sumTo_sym : ∀ (L : Nat) (f : Nat → Nat), (∀ j, j < L → f j = f (L - 1 - j)) →
    sumTo f L = 2 * sumTo f (L / 2) + (if L % 2 = 1 then f (L / 2) else 0)
  | 0, f, _ => rfl
  | 1, f, _ => by simp [sumTo]
  | L + 2, f, h => by
    have ih := sumTo_sym L (fun i => f (i + 1)) (by
      intro j hj
      have := h (j + 1) (by omega)
      show f (j + 1) = f (L - 1 - j + 1)
      rw [this]; congr 1; omega)
    have e0 : f (L + 1) = f 0 := by
      have := h 0 (by omega)
      rw [this]; rfl
    show sumTo f (L + 1) + f (L + 1) = _
    rw [sumTo_succ_front f L, ih, e0]
    have e1 : (L + 2) / 2 = L / 2 + 1 := by omega
    have e2 : (L + 2) % 2 = L % 2 := by omega
    rw [e1, e2, sumTo_succ_front f (L / 2)]
    split <;> omega



end LowMul

/-! ### assembling the Comba drivers -/

namespace LowMul

theorem cols_seg (a b : List Nat) (s t cnt k : Nat) (h1 : cnt ≤ t + 1)
    (hstart : s = 0 ∨ b.length ≤ t + 1) (hend : a.length ≤ s + cnt ∨ cnt = t + 1)
    (hk : s + t = k) :
    colVal a b ((List.range cnt).map fun j => (s + j, t - j)) = colSum a b k := by
  rw [colVal_map_range, ← hk]
  exact seg_eq_colSum a b s t cnt h1 hstart hend

theorem cols_phase1 (a b : List Nat) (i : Nat) :
    colVal a b ((List.range (i + 1)).map fun j => (j, i - j)) = colSum a b i := by
  rw [colVal_map_range]; rfl

theorem comba_generic (B : Nat) (hB : 1 < B) {γ : Type}
    (proc : γ → Nat × Nat × Nat → Nat × Nat × Nat) (v : γ → Nat) (cols : List γ)
    (hproc : ∀ c ∈ cols, ∀ r : Nat × Nat × Nat, r.1 = 0 → r.2.1 < B → r.2.2 < B →
      regVal B (proc c r) = regVal B r + v c
      ∧ (proc c r).1 < B ∧ (proc c r).2.1 < B ∧ (proc c r).2.2 < B)
    (a b : List Nat) (hda : ∀ d ∈ a, d < B) (hdb : ∀ d ∈ b, d < B) (n : Nat)
    (hcols : cols.map v = (List.range n).map (colSum a b)) (hn : a.length + b.length = n) :
    val B (cols.foldl (colStep proc) ([], (0, 0, 0))).1.reverse = val B a * val B b
    ∧ (cols.foldl (colStep proc) ([], (0, 0, 0))).1.reverse.length = n
    ∧ (∀ d ∈ (cols.foldl (colStep proc) ([], (0, 0, 0))).1.reverse, d < B) := by
  obtain ⟨q1, q2, q3, _⟩ := colFold_spec B proc v cols hproc ([], (0, 0, 0)) rfl
    (show 0 < B by omega) (show 0 < B by omega) (by simp)
  have hlen : cols.length = n := by
    have := congrArg List.length hcols
    simpa using this
  rw [hcols, val_colSum B b a n (by omega)] at q1
  simp only [List.length_nil, Nat.zero_add] at q2
  have hz : regVal B (0, 0, 0) = 0 := by simp [regVal]
  simp only [List.reverse_nil, val, List.length_nil, Nat.pow_zero, hz, Nat.zero_add,
    Nat.one_mul] at q1
  rw [q2, hlen] at q1
  have hlt : val B a * val B b < B ^ n := by
    rw [← hn, Nat.pow_add]
    exact Nat.mul_lt_mul'' (val_lt B a hda) (val_lt B b hdb)
  refine ⟨?_, by rw [List.length_reverse, q2, hlen], fun d hd => q3 d (List.mem_reverse.1 hd)⟩
  generalize regVal B (List.foldl (colStep proc) ([], 0, 0, 0) cols).2 = R at q1
  cases R with
  | zero => simpa using q1
  | succ R => rw [Nat.mul_succ] at q1; omega

end LowMul

/-- bn_muln_low (Comba, product scanning) = ℕ multiplication. `size < B` keeps every column sum inside
    the three-digit accumulator (true for every buildable precision, including the 8-bit digit build). -/
theorem mulnLow_spec (B : Nat) (hB : 1 < B) (a b : List Nat) (size : Nat)
    (ha : a.length = size) (hb : b.length = size) (hs : size < B)
    (hda : ∀ d ∈ a, d < B) (hdb : ∀ d ∈ b, d < B) :
    val B (mulnLow B a b size) = val B a * val B b
    ∧ (mulnLow B a b size).length = 2 * size ∧ (∀ d ∈ mulnLow B a b size, d < B) := by
  rw [mulnLow_eq]
  apply comba_generic B hB (mulProc B a b) (colVal a b) _ _ a b hda hdb (2 * size) _ (by omega)
  · intro c hc
    apply mulProc_spec B hB a b hda hdb c
    simp only [List.mem_append, List.mem_map, List.mem_range] at hc
    rcases hc with ⟨i, hi, rfl⟩ | ⟨i, hi, rfl⟩
    · simp; omega
    · simp; omega
  · rw [Nat.two_mul, List.range_add, List.map_append, List.map_append, List.map_map, List.map_map,
      List.map_map]
    congr 1
    · apply List.map_congr_left
      intro i _
      exact cols_phase1 a b i
    · apply List.map_congr_left
      intro i hi
      have hi := List.mem_range.1 hi
      exact cols_seg a b (i + 1) (size - 1) (size - (i + 1)) (size + i) (by omega)
        (Or.inr (by omega)) (Or.inl (by omega)) (by omega)



namespace LowMul

theorem muldLow_eq (B : Nat) (a : List Nat) (sa : Nat) (b : List Nat) (sb : Nat) :
    muldLow B a sa b sb =
      ((((List.range sb).map fun i => (List.range (i + 1)).map fun j => (j, i - j)) ++
        ((List.range (sa - sb)).map fun k =>
          (List.range sb).map fun j => (k + 1 + j, sb - 1 - j)) ++
        ((List.range sb).map fun k =>
          (List.range (sa - ((sa - sb) + k + 1))).map fun j =>
            ((sa - sb) + k + 1 + j, sb - 1 - j))).foldl
        (colStep (mulProc B a b)) ([], (0, 0, 0))).1.reverse := rfl

end LowMul

/-- bn_muld_low with l = 0, h = sa + sb, sa ≥ sb (the way bn_mul_comba calls it) -/
theorem muldLow_spec (B : Nat) (hB : 1 < B) (a b : List Nat) (sa sb : Nat)
    (ha : a.length = sa) (hb : b.length = sb) (hab : sb ≤ sa) (hsb : 0 < sb) (hs : sb < B)
    (hda : ∀ d ∈ a, d < B) (hdb : ∀ d ∈ b, d < B) :
    val B (muldLow B a sa b sb) = val B a * val B b
    ∧ (muldLow B a sa b sb).length = sa + sb ∧ (∀ d ∈ muldLow B a sa b sb, d < B) := by
  rw [muldLow_eq]
  apply comba_generic B hB (mulProc B a b) (colVal a b) _ _ a b hda hdb (sa + sb) _ (by omega)
  · intro c hc
    apply mulProc_spec B hB a b hda hdb c
    simp only [List.mem_append, List.mem_map, List.mem_range] at hc
    rcases hc with (⟨i, hi, rfl⟩ | ⟨i, hi, rfl⟩) | ⟨i, hi, rfl⟩
    · simp; omega
    · simp; omega
    · simp; omega
  · have e : sa + sb = sb + (sa - sb) + sb := by omega
    rw [e, List.range_add, List.range_add]
    simp only [List.map_append, List.map_map]
    congr 1
    congr 1
    · apply List.map_congr_left
      intro i _
      exact cols_phase1 a b i
    · apply List.map_congr_left
      intro k hk
      have hk := List.mem_range.1 hk
      exact cols_seg a b (k + 1) (sb - 1) sb (sb + k) (by omega)
        (Or.inr (by omega)) (Or.inr (by omega)) (by omega)
    · apply List.map_congr_left
      intro k hk
      have hk := List.mem_range.1 hk
      exact cols_seg a b ((sa - sb) + k + 1) (sb - 1) (sa - ((sa - sb) + k + 1))
        (sb + (sa - sb) + k) (by omega) (Or.inr (by omega)) (Or.inl (by omega)) (by omega)



/-! ### squaring -/

namespace LowMul

def sqrProc (B : Nat) (a : List Nat) (col : List (Nat × Nat) × Option Nat) (r : Nat × Nat × Nat) :
    Nat × Nat × Nat :=
  match col.2 with
  | some m =>
    combaStepMul B
      (col.1.foldl (fun acc ij => combaStepSqr B acc (a.getD ij.1 0) (a.getD ij.2 0)) r)
      (a.getD m 0) (a.getD m 0)
  | none => col.1.foldl (fun acc ij => combaStepSqr B acc (a.getD ij.1 0) (a.getD ij.2 0)) r

def sqrColVal (a : List Nat) (col : List (Nat × Nat) × Option Nat) : Nat :=
  2 * colVal a a col.1 + (match col.2 with | some m => a.getD m 0 * a.getD m 0 | none => 0)

theorem sqrnLow_eq (B : Nat) (a : List Nat) (size : Nat) :
    sqrnLow B a size =
      ((((List.range size).map fun i =>
          (((List.range ((i + 1) / 2)).map fun j => (j, i - j)),
            if i % 2 = 0 then some ((i + 1) / 2) else none)) ++
        ((List.range size).map fun i =>
          (((List.range ((size - 1 - i) / 2)).map fun j => (i + 1 + j, size - 1 - j)),
            if (size - i) % 2 = 0 then some (i + 1 + (size - 1 - i) / 2) else none))).foldl
        (colStep (sqrProc B a)) ([], (0, 0, 0))).1.reverse := by
  rfl

theorem sqrFold (B : Nat) (hB : 1 < B) (a : List Nat) (hda : ∀ d ∈ a, d < B) (E : Nat) :
    ∀ (pairs : List (Nat × Nat)) (acc : Nat × Nat × Nat),
      acc.1 < B → acc.2.1 < B → acc.2.2 < B →
      regVal B acc + pairs.length * (2 * (B * B)) + E ≤ B * B * B →
      regVal B (pairs.foldl (fun acc ij => combaStepSqr B acc (a.getD ij.1 0) (a.getD ij.2 0)) acc)
        = regVal B acc + 2 * colVal a a pairs
      ∧ regVal B (pairs.foldl (fun acc ij => combaStepSqr B acc (a.getD ij.1 0) (a.getD ij.2 0)) acc)
        + E ≤ B * B * B
      ∧ (pairs.foldl (fun acc ij => combaStepSqr B acc (a.getD ij.1 0) (a.getD ij.2 0)) acc).1 < B
      ∧ (pairs.foldl (fun acc ij => combaStepSqr B acc (a.getD ij.1 0) (a.getD ij.2 0)) acc).2.1 < B
      ∧ (pairs.foldl (fun acc ij => combaStepSqr B acc (a.getD ij.1 0) (a.getD ij.2 0)) acc).2.2 < B := by
  intro pairs
  induction pairs with
  | nil =>
    intro acc h1 h2 h3 hfit
    simp only [List.length_nil, Nat.zero_mul, Nat.add_zero] at hfit
    exact ⟨rfl, hfit, h1, h2, h3⟩
  | cons ij ps ih =>
    intro acc h1 h2 h3 hfit
    have hx := getD_lt B (by omega) a hda ij.1
    have hy := getD_lt B (by omega) a hda ij.2
    have hxy : a.getD ij.1 0 * a.getD ij.2 0 < B * B := Nat.mul_lt_mul'' hx hy
    simp only [List.length_cons, Nat.add_mul, Nat.one_mul] at hfit
    obtain ⟨e, g1, g2, g3⟩ := combaStepSqr_spec B hB acc _ _ h1 h2 h3 hx hy (by omega)
    obtain ⟨e', f', g1', g2', g3'⟩ :=
      ih (combaStepSqr B acc (a.getD ij.1 0) (a.getD ij.2 0)) g1 g2 g3 (by omega)
    simp only [List.foldl_cons]
    refine ⟨?_, f', g1', g2', g3'⟩
    rw [e', e, colVal]; omega

theorem sqrProc_spec (B : Nat) (hB : 1 < B) (a : List Nat) (hda : ∀ d ∈ a, d < B)
    (col : List (Nat × Nat) × Option Nat)
    (hlen : 2 * col.1.length + (match col.2 with | some _ => 1 | none => 0) < B)
    (r : Nat × Nat × Nat) (h0 : r.1 = 0) (h1 : r.2.1 < B) (h2 : r.2.2 < B) :
    regVal B (sqrProc B a col r) = regVal B r + sqrColVal a col
    ∧ (sqrProc B a col r).1 < B ∧ (sqrProc B a col r).2.1 < B
    ∧ (sqrProc B a col r).2.2 < B := by
  obtain ⟨pairs, mid⟩ := col
  have hs := reg_small B r _ h0 h1 h2 hlen
  cases mid with
  | none =>
    simp only [Nat.add_zero] at hs
    have hs' : regVal B r + pairs.length * (2 * (B * B)) + 0 ≤ B * B * B := by
      have : 2 * pairs.length * (B * B) = pairs.length * (2 * (B * B)) := by grind
      omega
    obtain ⟨e, _, g1, g2, g3⟩ := sqrFold B hB a hda 0 pairs r (by omega) h1 h2 hs'
    simp only [sqrProc, sqrColVal, Nat.add_zero]
    exact ⟨e, g1, g2, g3⟩
  | some m =>
    have hs' : regVal B r + pairs.length * (2 * (B * B)) + B * B ≤ B * B * B := by
      have : (2 * pairs.length + 1) * (B * B) = pairs.length * (2 * (B * B)) + B * B := by grind
      simp only at hs
      omega
    obtain ⟨e, f, g1, g2, g3⟩ := sqrFold B hB a hda (B * B) pairs r (by omega) h1 h2 hs'
    have hx := getD_lt B (by omega) a hda m
    have hxx : a.getD m 0 * a.getD m 0 < B * B := Nat.mul_lt_mul'' hx hx
    obtain ⟨e', k1, k2, k3⟩ := combaStepMul_spec B hB _ _ _ g1 g2 g3 hx hx (by omega)
    simp only [sqrProc, sqrColVal]
    refine ⟨?_, k1, k2, k3⟩
    rw [e', e]; omega



/-- a squaring column (doubled first half + optional middle square) is the full symmetric segment -/
theorem sqr_col (a : List Nat) (s t L : Nat) (mid : Option Nat)
    (hL : L = 0 ∨ s + L = t + 1)
    (hmid : mid = if L % 2 = 1 then some (s + L / 2) else none) :
    sqrColVal a ((List.range (L / 2)).map (fun j => (s + j, t - j)), mid)
      = sumTo (fun j => a.getD (s + j) 0 * a.getD (t - j) 0) L := by
  have hsym : ∀ j, j < L → (fun j => a.getD (s + j) 0 * a.getD (t - j) 0) j
      = (fun j => a.getD (s + j) 0 * a.getD (t - j) 0) (L - 1 - j) := by
    intro j hj
    show a.getD (s + j) 0 * a.getD (t - j) 0
      = a.getD (s + (L - 1 - j)) 0 * a.getD (t - (L - 1 - j)) 0
    have e1 : s + (L - 1 - j) = t - j := by omega
    have e2 : t - (L - 1 - j) = s + j := by omega
    rw [e1, e2, Nat.mul_comm]
  rw [sumTo_sym L _ hsym]
  simp only [sqrColVal]
  rw [colVal_map_range, hmid]
  by_cases h : L % 2 = 1
  · rw [if_pos h, if_pos h]
    have : t - L / 2 = s + L / 2 := by omega
    simp only [this]
  · rw [if_neg h, if_neg h]

end LowMul

/-- bn_sqrn_low (Comba squaring with doubled cross terms) = ℕ squaring -/
theorem sqrnLow_spec (B : Nat) (hB : 1 < B) (a : List Nat) (size : Nat)
    (ha : a.length = size) (hs : size < B) (hda : ∀ d ∈ a, d < B) :
    val B (sqrnLow B a size) = val B a * val B a
    ∧ (sqrnLow B a size).length = 2 * size ∧ (∀ d ∈ sqrnLow B a size, d < B) := by
  rw [sqrnLow_eq]
  apply comba_generic B hB (sqrProc B a) (sqrColVal a) _ _ a a hda hda (2 * size) _ (by omega)
  · intro c hc
    apply sqrProc_spec B hB a hda c
    simp only [List.mem_append, List.mem_map, List.mem_range] at hc
    rcases hc with ⟨i, hi, rfl⟩ | ⟨i, hi, rfl⟩
    · by_cases h : i % 2 = 0
      · simp [h]; omega
      · simp [h]; omega
    · by_cases h : (size - i) % 2 = 0
      · simp [h]; omega
      · simp [h]; omega
  · rw [Nat.two_mul, List.range_add, List.map_append, List.map_append, List.map_map, List.map_map,
      List.map_map]
    congr 1
    · apply List.map_congr_left
      intro i _
      have e : (fun j => (j, i - j)) = (fun j => (0 + j, i - j)) := by funext j; simp
      show sqrColVal a ((List.range ((i + 1) / 2)).map (fun j => (j, i - j)), _) = colSum a a i
      rw [e, sqr_col a 0 i (i + 1) _ (Or.inr (by omega))
        (by by_cases h : i % 2 = 0
            · rw [if_pos h, if_pos (by omega), Nat.zero_add]
            · rw [if_neg h, if_neg (by omega)])]
      have := seg_eq_colSum a a 0 i (i + 1) (Nat.le_refl _) (Or.inl rfl) (Or.inr rfl)
      rwa [Nat.zero_add] at this
    · apply List.map_congr_left
      intro i hi
      have hi := List.mem_range.1 hi
      show sqrColVal a ((List.range ((size - 1 - i) / 2)).map (fun j => (i + 1 + j, size - 1 - j)), _)
        = colSum a a (size + i)
      rw [sqr_col a (i + 1) (size - 1) (size - 1 - i) _ (Or.inr (by omega))
        (by by_cases h : (size - i) % 2 = 0
            · rw [if_pos h, if_pos (by omega)]
            · rw [if_neg h, if_neg (by omega)])]
      have := seg_eq_colSum a a (i + 1) (size - 1) (size - 1 - i) (by omega)
        (Or.inr (by omega)) (Or.inl (by omega))
      have e : i + 1 + (size - 1) = size + i := by omega
      rwa [e] at this


end Relic.Model
