/-
fp_crt, exponentiation branches (Model/FpAlgCrt.lean): the flag is 1 exactly when the operand is a cube, and then the value
left in c cubes to the operand.
-/
import Mathlib.Data.ZMod.Basic
import Mathlib.FieldTheory.Finite.Basic
import Mathlib.Algebra.Field.ZMod
import Mathlib.Tactic.Ring
import Mathlib.Tactic.Linarith
import RelicVerif.Model.FpAlgCrt
import RelicVerif.Lemmas.FpAlgSrt

namespace Relic.Model.FpAlg
open Relic.Model.Rec

theorem crtEasy_spec (c : Ctx) (h : c.WF) (a : Nat) (ha : a < c.p) (e : Nat) (he : crtExp c = some e) :
    ∃ r x, crtEasy c a = some (some (r, x)) ∧ (r = true ↔ ∃ y, y * y % c.p * y % c.p = a) ∧
      (r = true → x < c.p ∧ x * x % c.p * x % c.p = a) := by
  sorry

end Relic.Model.FpAlg
