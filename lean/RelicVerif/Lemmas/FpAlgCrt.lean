/-
fp_crt, exponentiation branches (Model/FpAlgCrt.lean): the flag is 1 exactly when the operand is a cube, and then the value
left in c cubes to the operand.
-/
import Mathlib.Data.ZMod.Basic
import Mathlib.FieldTheory.Finite.Basic
import Mathlib.Algebra.Field.ZMod
import Mathlib.Tactic.Ring
import Mathlib.Tactic.Linarith
import RelicVerif.Model.FpAlgCrt
import RelicVerif.Lemmas.FpAlgSrt

namespace Relic.Model.FpAlg
open Relic.Model.Rec

theorem cube_of_cast {p x a : Nat} (ha : a < p) (h : (x : ZMod p) ^ 3 = a) : x * x % p * x % p = a := by
  have hp : 0 < p := by omega
  apply cast_inj_of_lt (p := p) (Nat.mod_lt _ hp) ha
  rw [ZMod.natCast_mod, Nat.cast_mul, ZMod.natCast_mod, Nat.cast_mul, ← h]; ring

theorem crtExp_arith (c : Ctx) (hp : 2 ≤ c.p) (e : Nat) (he : crtExp c = some e) :
    e ≤ c.p ∧ ∃ m, 9 * e = m * (c.p - 1) + 3 := by
  simp only [crtExp] at he
  split_ifs at he with h1 h2 h3
  · have he := Option.some.inj he
    obtain ⟨k, hk⟩ : ∃ k, c.p = 3 * k + 2 := ⟨c.p / 3, by omega⟩
    exact ⟨by omega, 6, by omega⟩
  · have he := Option.some.inj he
    obtain ⟨k, hk⟩ : ∃ k, c.p = 9 * k + 4 := ⟨c.p / 9, by omega⟩
    exact ⟨by omega, 2, by omega⟩
  · have he := Option.some.inj he
    obtain ⟨k, hk⟩ : ∃ k, c.p = 9 * k + 7 := ⟨c.p / 9, by omega⟩
    exact ⟨by omega, 1, by omega⟩

theorem crtEasy_spec (c : Ctx) (h : c.WF) (a : Nat) (ha : a < c.p) (e : Nat) (he : crtExp c = some e) :
    ∃ r x, crtEasy c a = some (some (r, x)) ∧ (r = true ↔ ∃ y, y * y % c.p * y % c.p = a) ∧
      (r = true → x < c.p ∧ x * x % c.p * x % c.p = a) := by
  have := Fact.mk h.prime
  have hp2 := h.prime.two_le
  by_cases h0 : a = 0
  · subst h0
    refine ⟨true, 0, by simp [crtEasy], ?_, ?_⟩
    · simp only [true_iff]; exact ⟨0, by simp⟩
    · intro _; exact ⟨by omega, by simp⟩
  have hx : (a : ZMod c.p) ≠ 0 := by rw [Ne, cast_eq_zero_iff_of_lt ha]; exact h0
  obtain ⟨hle, m, hm⟩ := crtExp_arith c hp2 e he
  have hexp := exp_ok c h a e ha hle
  have hcrt : crtEasy c a =
      some (some (fmul c.p (fsqr c.p (a ^ e % c.p)) (a ^ e % c.p) == a, a ^ e % c.p)) := by
    unfold crtEasy
    simp only [if_neg h0, he, hexp]
  refine ⟨_, _, hcrt, ?_, ?_⟩
  · rw [beq_iff_eq]
    constructor
    · intro hh; exact ⟨_, hh⟩
    · rintro ⟨y, hy⟩
      have hcast : (a : ZMod c.p) = (y : ZMod c.p) ^ 3 := by
        rw [← hy, ZMod.natCast_mod, Nat.cast_mul, ZMod.natCast_mod, Nat.cast_mul]; ring
      have hy0 : (y : ZMod c.p) ≠ 0 := by
        intro hy0; apply hx; rw [hcast, hy0]; simp
      have hf := ZMod.pow_card_sub_one_eq_one hy0
      unfold fmul fsqr
      apply cube_of_cast ha
      rw [cast_powmod, hcast, ← pow_mul, ← pow_mul]
      have h9 : 3 * (e * 3) = (c.p - 1) * m + 3 := by rw [Nat.mul_comm (c.p - 1) m]; omega
      rw [h9, pow_add, pow_mul, hf, one_pow, one_mul]
  · intro hh
    rw [beq_iff_eq] at hh
    exact ⟨Nat.mod_lt _ (by omega), hh⟩

end Relic.Model.FpAlg
