/-
Integer encodings (Model/BnConv.lean): binary and text conversion round-trip, are canonical, and
decoding yields a valid object whose re-encoding reproduces the input.
-/
import RelicVerif.Model.BnConv
import RelicVerif.Lemmas.BnHighMul

namespace Relic.Model

/-- big-endian value of a byte string -/
def os2n (b : List UInt8) : Nat := b.foldl (fun acc x => acc * 256 + x.toNat) 0

/-- positional value of a digit list, most significant first -/
def posVal (radix : Nat) (ds : List Nat) : Nat := ds.foldl (fun acc d => acc * radix + d) 0

variable (cfg : Cfg)

/-- bn_write_bin writes the big-endian bytes of |a| left-padded with zeros to exactly `len` bytes -/
theorem bnWriteBin_spec (hw : 0 < cfg.w) (h8 : 8 ∣ cfg.w) (a : Bn) (ha : a.WF cfg.B) (len : Nat) (b : List UInt8)
    (h : bnWriteBin cfg.w len a = some b) :
    b.length = len ∧ os2n b = (a.toInt cfg.B).natAbs := by
  sorry

/-- bn_size_bin is the minimal byte length: 256^(size-1) ≤ |a| < 256^size (0 for zero) -/
theorem bnSizeBin_spec (hw : 0 < cfg.w) (h8 : 8 ∣ cfg.w) (a : Bn) (ha : a.WF cfg.B) :
    (a.toInt cfg.B).natAbs < 256 ^ bnSizeBin cfg.w a ∧
    (bnSizeBin cfg.w a ≠ 0 → 256 ^ (bnSizeBin cfg.w a - 1) ≤ (a.toInt cfg.B).natAbs) := by
  sorry

/-- the buffer check: an error is raised exactly when the buffer is shorter than the minimal size,
    so nothing is ever written past `len` -/
theorem bnWriteBin_error_iff (a : Bn) (len : Nat) :
    bnWriteBin cfg.w len a = none ↔ len < bnSizeBin cfg.w a := by
  sorry

/-- decoding any byte string yields a valid integer with the big-endian value of the bytes, or a
    precision error when the bytes need more digits than the capacity -/
theorem bnReadBin_spec (hw : 0 < cfg.w) (h8 : 8 ∣ cfg.w) (b : List UInt8) (x : Bn) (h : bnReadBin cfg b = some x) :
    x.WF cfg.B ∧ x.toInt cfg.B = os2n b := by
  sorry

theorem bnReadBin_error_iff (hw : 0 < cfg.w) (h8 : 8 ∣ cfg.w) (b : List UInt8) :
    bnReadBin cfg b = none ↔ cfg.cap < (b.length + cfg.w / 8 - 1) / (cfg.w / 8) := by
  sorry

/-- R1: decode (encode x) = |x| for every buffer length that is accepted -/
theorem bnReadBin_writeBin (hw : 0 < cfg.w) (h8 : 8 ∣ cfg.w) (a : Bn) (ha : a.WF cfg.B) (hpos : a.neg = false)
    (len : Nat) (b : List UInt8) (h : bnWriteBin cfg.w len a = some b) (x : Bn) (hx : bnReadBin cfg b = some x) :
    x = a := by
  sorry

/-- R3: re-encoding a decoded integer in the same length reproduces the input bytes -/
theorem bnWriteBin_readBin (hw : 0 < cfg.w) (h8 : 8 ∣ cfg.w) (b : List UInt8) (x : Bn) (h : bnReadBin cfg b = some x) :
    bnWriteBin cfg.w b.length x = some b := by
  sorry

/-- bn_write_str is positional notation of |a| in the given radix with a leading '-' for negatives -/
theorem bnWriteStr_spec (hw : 0 < cfg.w) (a : Bn) (ha : a.WF cfg.B) (radix len : Nat) (hr : 2 ≤ radix ∧ radix ≤ 64)
    (s : String) (h : bnWriteStr cfg len a radix = .ok s) :
    ∃ ds : List Nat, (∀ d ∈ ds, d < radix) ∧ (ds.head? ≠ some 0 ∨ ds = [0]) ∧ ds ≠ [] ∧
      posVal radix ds = (a.toInt cfg.B).natAbs ∧
      s.toList = (if a.toInt cfg.B < 0 then ['-'] else []) ++ ds.map convChar := by
  sorry

/-- bn_size_str = length of the text + 1 (the NUL) -/
theorem bnSizeStr_spec (hw : 0 < cfg.w) (a : Bn) (ha : a.WF cfg.B) (radix len : Nat) (hr : 2 ≤ radix ∧ radix ≤ 64)
    (s : String) (h : bnWriteStr cfg len a radix = .ok s) :
    bnSizeStr cfg a radix = some (s.toList.length + 1) := by
  sorry

theorem bnWriteStr_error (a : Bn) (radix len : Nat) :
    (radix < 2 ∨ radix > 64 → bnWriteStr cfg len a radix = .error .noValid) ∧
    (∀ l, bnSizeStr cfg a radix = some l → len < l → bnWriteStr cfg len a radix = .error .noBuffer) := by
  sorry

/-- R4: reading back what was written returns the same integer (when the reader's length-based capacity
    bound admits the string) -/
theorem bnReadStr_writeStr (hw : 0 < cfg.w) (a : Bn) (ha : a.WF cfg.B) (radix len : Nat) (hr : 2 ≤ radix ∧ radix ≤ 64)
    (s : String) (h : bnWriteStr cfg len a radix = .ok s) (x : Bn) (hx : bnReadStr cfg s radix = some x) :
    x = a := by
  sorry

end Relic.Model
