/-
Integer encodings (Model/BnConv.lean): binary and text conversion round-trip, are canonical, and
decoding yields a valid object whose re-encoding reproduces the input.
-/
import RelicVerif.Model.BnConv
import RelicVerif.Lemmas.BnHighMul

set_option linter.unusedVariables false

namespace Relic.Model

/-- big-endian value of a byte string -/
def os2n (b : List UInt8) : Nat := b.foldl (fun acc x => acc * 256 + x.toNat) 0

/-- positional value of a digit list, most significant first -/
def posVal (radix : Nat) (ds : List Nat) : Nat := ds.foldl (fun acc d => acc * radix + d) 0

namespace Conv

theorem os2n_snoc (l : List UInt8) (x : UInt8) : os2n (l ++ [x]) = os2n l * 256 + x.toNat := by
  simp [os2n, List.foldl_append]

theorem os2n_reverse : ∀ l : List UInt8, os2n l.reverse = val 256 (l.map (·.toNat))
  | [] => rfl
  | x :: l => by
    rw [List.reverse_cons, os2n_snoc, os2n_reverse l]; simp [val]; omega

theorem os2n_eq (b : List UInt8) : os2n b = val 256 (b.reverse.map (·.toNat)) := by
  rw [← os2n_reverse, List.reverse_reverse]

theorem val_digits (b n : Nat) : ∀ k, val b ((List.range k).map fun j => n / b ^ j % b) = n % b ^ k
  | 0 => by simp [val, Nat.mod_one]
  | k+1 => by
    rw [List.range_succ, List.map_append, List.map_singleton, High.val_snoc, val_digits b n k,
      List.length_map, List.length_range, Nat.mod_pow_succ]

theorem val_flatMap (b k : Nat) (f : Nat → List Nat) : ∀ l : List Nat, (∀ d ∈ l, (f d).length = k) →
    val b (l.flatMap f) = val (b ^ k) (l.map fun d => val b (f d))
  | [], _ => rfl
  | x :: l, h => by
    rw [List.flatMap_cons, val_append, val_flatMap b k f l (fun d hd => h d (by simp [hd])), h x (by simp)]
    simp [val]

theorem bytesOfDig_spec : ∀ fuel d, d < 256 ^ fuel →
    d < 256 ^ bytesOfDig fuel d ∧ (d ≠ 0 → 256 ^ (bytesOfDig fuel d - 1) ≤ d) ∧ (d = 0 → bytesOfDig fuel d = 0)
  | 0, d, h => by
    have : d = 0 := by simpa using h
    subst this; simp [bytesOfDig]
  | fuel + 1, d, h => by
    unfold bytesOfDig
    by_cases hd : d = 0
    · simp [hd]
    · rw [if_neg hd]
      have hlt : d / 256 < 256 ^ fuel := by
        rw [Nat.div_lt_iff_lt_mul (by omega)]; rw [Nat.pow_succ] at h; exact h
      obtain ⟨h1, h2, h3⟩ := bytesOfDig_spec fuel (d / 256) hlt
      refine ⟨?_, fun _ => ?_, fun h0 => absurd h0 hd⟩
      · rw [Nat.add_comm, Nat.pow_succ]
        exact (Nat.div_lt_iff_lt_mul (by omega)).1 h1
      · simp only [Nat.add_sub_cancel_left]
        by_cases hq : d / 256 = 0
        · rw [h3 hq]; simp; omega
        · have := h2 hq
          have hb : bytesOfDig fuel (d / 256) ≠ 0 := by
            intro hb; rw [hb] at h1; simp at h1; omega
          have e : bytesOfDig fuel (d / 256) = (bytesOfDig fuel (d / 256) - 1) + 1 := by omega
          rw [e, Nat.pow_succ]
          generalize 256 ^ (bytesOfDig fuel (d / 256) - 1) = P at *
          omega

variable (cfg : Cfg)

theorem B_eq_256 (h8 : 8 ∣ cfg.w) : cfg.B = 256 ^ (cfg.w / 8) := by
  obtain ⟨k, hk⟩ := h8
  rw [Cfg.B, hk, Nat.mul_div_cancel_left _ (by omega), Nat.pow_mul]

def leBytes (w : Nat) (a : Bn) : List UInt8 :=
  ((a.dp.take (a.used - 1)).flatMap fun d => (List.range (w / 8)).map fun j => UInt8.ofNat ((d / 256 ^ j) % 256)) ++
  (List.range (bytesOfDig (w / 8 + 1) (a.dp.getLast?.getD 0))).map fun j =>
    UInt8.ofNat (((a.dp.getLast?.getD 0) / 256 ^ j) % 256)

theorem bnWriteBin_eq (w len : Nat) (a : Bn) : bnWriteBin w len a =
    if len < bnSizeBin w a then none
    else some ((leBytes w a ++ List.replicate (len - (leBytes w a).length) 0).reverse) := rfl

theorem length_flatMap_const {α β : Type} (k : Nat) (f : α → List β) : ∀ l : List α, (∀ d ∈ l, (f d).length = k) →
    (l.flatMap f).length = l.length * k
  | [], _ => by simp
  | x :: l, h => by
    rw [List.flatMap_cons, List.length_append, length_flatMap_const k f l (fun d hd => h d (by simp [hd])),
      h x (by simp), List.length_cons, Nat.succ_mul, Nat.add_comm]

theorem leBytes_length (w : Nat) (a : Bn) : (leBytes w a).length = bnSizeBin w a := by
  unfold leBytes bnSizeBin
  rw [List.length_append, length_flatMap_const (w / 8) _ _ (by intro d _; simp)]
  simp [Bn.used]

theorem leBytes_val (h8 : 8 ∣ cfg.w) (a : Bn) (ha : a.WF cfg.B) :
    val 256 ((leBytes cfg.w a).map (·.toNat)) = val cfg.B a.dp := by
  rcases List.eq_nil_or_concat a.dp with h | ⟨init, top, hdp⟩
  · exact absurd h ha.1
  rw [List.concat_eq_append] at hdp
  have hB := B_eq_256 cfg h8
  have htop : top < cfg.B := ha.dig top (by rw [hdp]; simp)
  have hinit : ∀ d ∈ init, d < cfg.B := fun d hd => ha.dig d (by rw [hdp]; simp [hd])
  unfold leBytes Bn.used
  rw [hdp]
  simp only [List.length_append, List.length_cons, List.length_nil, Nat.add_sub_cancel,
    List.getLast?_append, List.getLast?_singleton, Option.some_or, Option.getD_some,
    List.take_left', List.map_append, List.map_flatMap, List.map_map]
  have hb := bytesOfDig_spec (cfg.w / 8 + 1) top (by rw [Nat.pow_succ, ← hB]; omega)
  have hf : ∀ n : Nat, ((fun x : UInt8 => x.toNat) ∘ fun j => UInt8.ofNat (n / 256 ^ j % 256)) =
      fun j => n / 256 ^ j % 256 := by
    intro n; funext j
    simp only [Function.comp, UInt8.toNat_ofNat']
    omega
  simp only [hf]
  rw [val_append, High.val_snoc, length_flatMap_const (cfg.w / 8) _ _ (by intro d _; simp),
    val_flatMap 256 (cfg.w / 8) _ _ (by intro d _; simp), val_digits, Nat.mod_eq_of_lt hb.1, ← hB]
  have hp : 256 ^ (init.length * (cfg.w / 8)) = cfg.B ^ init.length := by
    rw [Nat.mul_comm, Nat.pow_mul, ← hB]
  rw [hp]
  congr 2
  conv_rhs => rw [← List.map_id init]
  apply List.map_congr_left
  intro d hd
  rw [val_digits, ← hB, Nat.mod_eq_of_lt (hinit d hd)]; rfl

theorem size_decomp (h8 : 8 ∣ cfg.w) (a : Bn) (ha : a.WF cfg.B) :
    ∃ init top, a.dp = init ++ [top] ∧
      bnSizeBin cfg.w a = init.length * (cfg.w / 8) + bytesOfDig (cfg.w / 8 + 1) top ∧
      top < 256 ^ bytesOfDig (cfg.w / 8 + 1) top ∧
      (top ≠ 0 → 256 ^ (bytesOfDig (cfg.w / 8 + 1) top - 1) ≤ top) ∧
      (top = 0 → bytesOfDig (cfg.w / 8 + 1) top = 0) ∧
      (top = 0 → init = []) ∧ (∀ d ∈ init, d < cfg.B) := by
  rcases List.eq_nil_or_concat a.dp with h | ⟨init, top, hdp⟩
  · exact absurd h ha.1
  rw [List.concat_eq_append] at hdp
  have hB := B_eq_256 cfg h8
  have htop : top < cfg.B := ha.dig top (by rw [hdp]; simp)
  have hinit : ∀ d ∈ init, d < cfg.B := fun d hd => ha.dig d (by rw [hdp]; simp [hd])
  have hb := bytesOfDig_spec (cfg.w / 8 + 1) top (by rw [Nat.pow_succ, ← hB]; omega)
  refine ⟨init, top, hdp, ?_, hb.1, hb.2.1, hb.2.2, ?_, hinit⟩
  · unfold bnSizeBin Bn.used; rw [hdp]; simp
  · rintro rfl
    rcases ha.2.2.1 with h1 | h1
    · rw [hdp] at h1
      exact List.eq_nil_of_length_eq_zero (by simpa using h1)
    · rw [hdp] at h1; simp at h1


theorem getD_digit (B : Nat) (hB : 0 < B) : ∀ (L : List Nat), (∀ d ∈ L, d < B) → ∀ k,
    L.getD k 0 = val B L / B ^ k % B
  | [], _, k => by simp [val]
  | x :: xs, h, 0 => by
    have := h x (by simp)
    simp [val, Nat.add_mul_mod_self_left, Nat.mod_eq_of_lt this]
  | x :: xs, h, k + 1 => by
    have hx := h x (by simp)
    rw [List.getD_cons_succ, getD_digit B hB xs (fun d hd => h d (by simp [hd])) k, val, Nat.pow_succ,
      Nat.mul_comm (B ^ k) B, ← Nat.div_div_eq_div_mul, Nat.add_mul_div_left _ _ hB, Nat.div_eq_of_lt hx,
      Nat.zero_add]

theorem foldl_sum_eq_val (b : Nat) (f : Nat → Nat) : ∀ k,
    (List.range k).foldl (fun acc j => acc + f j * b ^ j) 0 = val b ((List.range k).map f)
  | 0 => rfl
  | k + 1 => by
    rw [List.range_succ, List.foldl_append, List.map_append, List.map_singleton, High.val_snoc,
      foldl_sum_eq_val b f k]
    simp [Nat.mul_comm]

theorem getD_toNat (l : List UInt8) (k : Nat) : (l.getD k 0).toNat = (l.map (·.toNat)).getD k 0 := by
  induction l generalizing k with
  | nil => simp
  | cons x xs ih =>
    cases k with
    | zero => simp
    | succ k => simpa using ih k

def binDigs (cfg : Cfg) (len : Nat) : Nat :=
  if len % (cfg.w / 8) = 0 then len / (cfg.w / 8) else len / (cfg.w / 8) + 1

theorem bnReadBin_eq (h8 : 8 ∣ cfg.w) (b : List UInt8) : bnReadBin cfg b =
    if binDigs cfg b.length > cfg.cap then none
    else some (bnTrim { neg := false, dp := if binDigs cfg b.length = 0 then [0] else
      (List.range (binDigs cfg b.length)).map fun i => os2n b / cfg.B ^ i % cfg.B }) := by
  have hB := B_eq_256 cfg h8
  unfold bnReadBin binDigs
  simp only
  congr 4
  congr 1
  apply List.map_congr_left
  intro i _
  have hL : ∀ d ∈ b.reverse.map (·.toNat), d < 256 := by
    intro d hd
    simp only [List.mem_map] at hd
    obtain ⟨x, _, rfl⟩ := hd
    exact x.toNat_lt
  have hf : ∀ j, (b.reverse.getD (i * (cfg.w / 8) + j) 0).toNat = (os2n b / cfg.B ^ i) / 256 ^ j % 256 := by
    intro j
    rw [getD_toNat, getD_digit 256 (by omega) _ hL, ← os2n_eq, Nat.pow_add, Nat.mul_comm i, Nat.pow_mul, ← hB,
      Nat.div_div_eq_div_mul]
  simp only [hf]
  rw [foldl_sum_eq_val 256 (fun j => os2n b / cfg.B ^ i / 256 ^ j % 256), val_digits, ← hB]

theorem os2n_lt (b : List UInt8) : os2n b < 256 ^ b.length := by
  rw [os2n_eq]
  have := val_lt 256 (b.reverse.map (·.toNat)) (by
    intro d hd
    simp only [List.mem_map] at hd
    obtain ⟨x, _, rfl⟩ := hd
    exact x.toNat_lt)
  simpa using this

theorem binDigs_eq (hw : 0 < cfg.w) (h8 : 8 ∣ cfg.w) (len : Nat) :
    binDigs cfg len = (len + cfg.w / 8 - 1) / (cfg.w / 8) ∧ len ≤ cfg.w / 8 * binDigs cfg len := by
  have hd : 0 < cfg.w / 8 := Nat.div_pos (Nat.le_of_dvd hw h8) (by omega)
  unfold binDigs
  generalize cfg.w / 8 = d at *
  have h1 := Nat.div_add_mod len d
  generalize hq : len / d = q at *
  generalize hr : len % d = r at *
  have hr' : r < d := by rw [← hr]; exact Nat.mod_lt _ hd
  split
  · rename_i h0
    subst h0
    refine ⟨?_, by omega⟩
    symm
    rw [Nat.div_eq_iff hd]
    rw [← h1, Nat.mul_comm]; omega
  · rename_i h0
    refine ⟨?_, by rw [Nat.mul_add]; omega⟩
    symm
    rw [Nat.div_eq_iff hd]
    rw [← h1, Nat.add_mul, Nat.mul_comm q d]; omega

theorem readBin_val (hw : 0 < cfg.w) (h8 : 8 ∣ cfg.w) (b : List UInt8) :
    (∀ d ∈ (if binDigs cfg b.length = 0 then [0] else
      (List.range (binDigs cfg b.length)).map fun i => os2n b / cfg.B ^ i % cfg.B), d < cfg.B) ∧
    val cfg.B (if binDigs cfg b.length = 0 then [0] else
      (List.range (binDigs cfg b.length)).map fun i => os2n b / cfg.B ^ i % cfg.B) = os2n b := by
  have hB := B_eq_256 cfg h8
  have hBp : 0 < cfg.B := by rw [hB]; exact Nat.pow_pos (by omega)
  have hlt := os2n_lt b
  have hlen := (binDigs_eq cfg hw h8 b.length).2
  have hle : 256 ^ b.length ≤ cfg.B ^ binDigs cfg b.length := by
    rw [hB, ← Nat.pow_mul]; exact Nat.pow_le_pow_right (by omega) hlen
  split
  · rename_i h0
    rw [h0, Nat.pow_zero] at hle
    refine ⟨by simpa using hBp, ?_⟩
    simp [val]; omega
  · refine ⟨?_, ?_⟩
    · intro d hd
      simp only [List.mem_map] at hd
      obtain ⟨i, _, rfl⟩ := hd
      exact Nat.mod_lt _ hBp
    · rw [val_digits, Nat.mod_eq_of_lt (by omega)]


theorem val_inj (B : Nat) (hB : 0 < B) : ∀ l1 l2 : List Nat, l1.length = l2.length →
    (∀ d ∈ l1, d < B) → (∀ d ∈ l2, d < B) → val B l1 = val B l2 → l1 = l2
  | [], [], _, _, _, _ => rfl
  | [], _ :: _, h, _, _, _ => by simp at h
  | _ :: _, [], h, _, _, _ => by simp at h
  | x :: xs, y :: ys, hl, h1, h2, hv => by
    have hx := h1 x (by simp)
    have hy := h2 y (by simp)
    simp only [val] at hv
    have e1 : x = y := by
      have := congrArg (· % B) hv
      simpa [Nat.add_mul_mod_self_left, Nat.mod_eq_of_lt hx, Nat.mod_eq_of_lt hy] using this
    subst e1
    have e2 : val B xs = val B ys := by
      have : B * val B xs = B * val B ys := by omega
      exact Nat.eq_of_mul_eq_mul_left hB this
    rw [val_inj B hB xs ys (by simpa using hl) (fun d hd => h1 d (by simp [hd]))
      (fun d hd => h2 d (by simp [hd])) e2]

theorem WF_eq_of_toInt {B : Nat} (hB : 1 < B) {a b : Bn} (ha : a.WF B) (hb : b.WF B)
    (h : a.toInt B = b.toInt B) : a = b := by
  have hv : val B a.dp = val B b.dp := by rw [← toInt_natAbs, ← toInt_natAbs, h]
  have hl : a.dp.length = b.dp.length := by
    have h1 := Bn.WF.used_le_of_val_le hB ha hb (by omega)
    have h2 := Bn.WF.used_le_of_val_le hB hb ha (by omega)
    unfold Bn.used at *; omega
  have hdp := val_inj B (by omega) a.dp b.dp hl ha.dig hb.dig hv
  obtain ⟨an, adp⟩ := a
  obtain ⟨bn, bdp⟩ := b
  simp only at hdp hv
  subst hdp
  congr
  cases an <;> cases bn <;> try rfl
  · have := hb.neg_pos hB rfl
    simp [Bn.toInt] at h this; omega
  · have := ha.neg_pos hB rfl
    simp [Bn.toInt] at h this; omega

theorem bytes_inj (b1 b2 : List UInt8) (hl : b1.length = b2.length) (h : os2n b1 = os2n b2) : b1 = b2 := by
  rw [os2n_eq, os2n_eq] at h
  have hL : ∀ b : List UInt8, ∀ d ∈ b.reverse.map (·.toNat), d < 256 := by
    intro b d hd
    simp only [List.mem_map] at hd
    obtain ⟨x, _, rfl⟩ := hd
    exact x.toNat_lt
  have := val_inj 256 (by omega) _ _ (by simpa using hl) (hL b1) (hL b2) h
  have := (List.map_inj_right (fun x y hxy => UInt8.toNat_inj.1 hxy)).1 this
  exact List.reverse_inj.1 this


theorem posVal_snoc (r : Nat) (l : List Nat) (x : Nat) : posVal r (l ++ [x]) = posVal r l * r + x := by
  simp [posVal, List.foldl_append]

theorem posVal_reverse (r : Nat) : ∀ l, posVal r l.reverse = val r l
  | [] => rfl
  | x :: l => by
    rw [List.reverse_cons, posVal_snoc, posVal_reverse r l, val, Nat.mul_comm, Nat.add_comm]

theorem strDigits_spec (r : Nat) (hr : 2 ≤ r) : ∀ fuel n, n < fuel →
    val r (strDigits r fuel n) = n ∧ (∀ d ∈ strDigits r fuel n, d < r) ∧
    (strDigits r fuel n).getLast? ≠ some 0 ∧ (n ≠ 0 → strDigits r fuel n ≠ [])
  | 0, n, h => by omega
  | fuel + 1, n, h => by
    unfold strDigits
    by_cases hn : n = 0
    · simp [hn, val]
    · rw [if_neg hn]
      have hlt : n / r < fuel := by
        have := Nat.div_lt_self (Nat.pos_of_ne_zero hn) (show 1 < r by omega)
        omega
      obtain ⟨h1, h2, h3, h4⟩ := strDigits_spec r hr fuel (n / r) hlt
      refine ⟨?_, ?_, ?_, fun _ => by simp⟩
      · rw [val, h1]; exact Nat.mod_add_div n r
      · intro d hd
        rcases List.mem_cons.1 hd with rfl | hd
        · exact Nat.mod_lt _ (by omega)
        · exact h2 d hd
      · match hds : strDigits r fuel (n / r) with
        | [] =>
          have hq : n / r = 0 := by
            by_contra hq; exact h4 hq hds
          have : n < r := by
            rcases (Nat.div_eq_zero_iff).1 hq with h | h <;> omega
          simp [Nat.mod_eq_of_lt this, hn]
        | y :: ys =>
          rw [List.getLast?_cons_cons, ← hds]; exact h3

theorem strDigits_length_two (fuel n : Nat) (h : n < fuel) :
    (strDigits 2 fuel n).length = if n = 0 then 0 else Nat.log2 n + 1 := by
  obtain ⟨h1, h2, h3, h4⟩ := strDigits_spec 2 (by omega) fuel n h
  split
  · rename_i h0
    subst h0
    cases fuel <;> simp [strDigits]
  · rename_i hn
    have hne := h4 hn
    have hlo := High.val_ge_of_top 2 _ hne h3
    have hhi := val_lt 2 _ h2
    rw [h1] at hlo hhi
    have hpos : 0 < (strDigits 2 fuel n).length := List.length_pos_iff.2 hne
    have : n.log2 = (strDigits 2 fuel n).length - 1 := by
      rw [Nat.log2_eq_iff hn]
      refine ⟨hlo, ?_⟩
      rw [Nat.sub_add_cancel hpos]; exact hhi
    omega

theorem toInt_neg_iff {B : Nat} (hB : 1 < B) {a : Bn} (ha : a.WF B) : a.toInt B < 0 ↔ a.neg = true := by
  cases hn : a.neg
  · rw [toInt_of_pos hn]; simp
  · rw [toInt_of_neg hn]
    have := ha.neg_pos hB hn
    simp; omega

theorem bnWriteStr_ok (a : Bn) (radix len : Nat) (s : String) (h : bnWriteStr cfg len a radix = .ok s) :
    ∃ l, bnSizeStr cfg a radix = some l ∧ l ≤ len ∧
      s = if bnIsZero a then "0" else
        String.ofList ((if a.neg then ['-'] else []) ++
          (strDigits radix (val cfg.B a.dp + 1) (val cfg.B a.dp)).reverse.map convChar) := by
  unfold bnWriteStr at h
  split at h
  · exact absurd h (by simp)
  rename_i l hl
  refine ⟨l, hl, ?_⟩
  split at h
  · exact absurd h (by simp)
  rename_i hlen
  refine ⟨by omega, ?_⟩
  split at h
  · rename_i hz
    simp only [Except.ok.injEq] at h
    rw [if_pos hz, h]
  · rename_i hz
    simp only [Except.ok.injEq] at h
    rw [if_neg hz, ← h]

/-- the digit list written by bn_write_str -/
def strDs (cfg : Cfg) (a : Bn) (radix : Nat) : List Nat :=
  if bnIsZero a then [0] else (strDigits radix (val cfg.B a.dp + 1) (val cfg.B a.dp)).reverse

theorem writeStr_toList (hw : 0 < cfg.w) (a : Bn) (ha : a.WF cfg.B) (radix len : Nat) (s : String)
    (h : bnWriteStr cfg len a radix = .ok s) :
    s.toList = (if a.neg then ['-'] else []) ++ (strDs cfg a radix).map convChar := by
  obtain ⟨l, _, _, hs⟩ := bnWriteStr_ok cfg a radix len s h
  have hB := cfg.one_lt_B hw
  unfold strDs
  by_cases hz : bnIsZero a = true
  · rw [if_pos hz] at hs ⊢
    have hv := (ha.isZero_iff hB).1 hz
    have hn := ha.2.2.2 ((ha.val_eq_zero_iff hB).1 hv)
    rw [hs, hn]; rfl
  · rw [if_neg hz] at hs ⊢
    rw [hs, String.toList_ofList]

theorem strDs_spec (hw : 0 < cfg.w) (a : Bn) (ha : a.WF cfg.B) (radix : Nat) (hr : 2 ≤ radix) :
    (∀ d ∈ strDs cfg a radix, d < radix) ∧ ((strDs cfg a radix).head? ≠ some 0 ∨ strDs cfg a radix = [0]) ∧
    strDs cfg a radix ≠ [] ∧ posVal radix (strDs cfg a radix) = val cfg.B a.dp := by
  have hB := cfg.one_lt_B hw
  unfold strDs
  by_cases hz : bnIsZero a = true
  · rw [if_pos hz]
    have hv := (ha.isZero_iff hB).1 hz
    refine ⟨by intro d hd; simp at hd; omega, Or.inr rfl, by simp, ?_⟩
    rw [hv]; simp [posVal]
  · rw [if_neg hz]
    have hv : val cfg.B a.dp ≠ 0 := fun h => hz ((ha.isZero_iff hB).2 h)
    obtain ⟨h1, h2, h3, h4⟩ := strDigits_spec radix hr (val cfg.B a.dp + 1) (val cfg.B a.dp) (by omega)
    refine ⟨?_, Or.inl ?_, ?_, ?_⟩
    · intro d hd; exact h2 d (List.mem_reverse.1 hd)
    · rw [List.head?_reverse]; exact h3
    · simpa using h4 hv
    · rw [posVal_reverse, h1]


theorem charVal_convChar : ∀ i < 64, charVal (convChar i) = some i := by decide
theorem toUpper_convChar : ∀ i < 36, (convChar i).toUpper = convChar i := by decide
theorem convChar_ne_minus : ∀ i < 64, convChar i ≠ '-' := by decide

theorem go_none (radix : Nat) : ∀ cs, bnReadStr.go cfg radix cs none = none
  | [] => rfl
  | c :: cs => by
    rw [bnReadStr.go]
    simp only
    cases charVal (if radix < 36 then c.toUpper else c) with
    | none => rfl
    | some i => simp only []; split <;> rfl

theorem go_cons (radix : Nat) (hr : radix ≤ 64) (d : Nat) (hd : d < radix) (cs : List Char) (acc : Bn) :
    bnReadStr.go cfg radix (convChar d :: cs) (some acc) =
      match bnMulDig cfg acc radix with
      | none => none
      | some m => bnReadStr.go cfg radix cs (bnAddDig cfg m d) := by
  have hc : (if radix < 36 then (convChar d).toUpper else convChar d) = convChar d := by
    split
    · exact toUpper_convChar d (by omega)
    · rfl
  rw [bnReadStr.go]
  simp only [hc, charVal_convChar d (by omega), if_pos hd]
  cases bnMulDig cfg acc radix <;> rfl

theorem go_spec (hw : 0 < cfg.w) (radix : Nat) (hr : radix ≤ 64) (hrB : radix < cfg.B) :
    ∀ (ds : List Nat), (∀ d ∈ ds, d < radix) → ∀ (acc : Bn) (v : Nat), acc.WF cfg.B → acc.toInt cfg.B = (v : Int) →
    ∀ r, bnReadStr.go cfg radix (ds.map convChar) (some acc) = some r →
      r.WF cfg.B ∧ r.toInt cfg.B = ((ds.foldl (fun acc d => acc * radix + d) v : Nat) : Int)
  | [], _, acc, v, hacc, hv, r, h => by
    simp only [List.map_nil, bnReadStr.go, Option.some.injEq] at h
    subst h
    exact ⟨hacc, hv⟩
  | d :: ds, hds, acc, v, hacc, hv, r, h => by
    have hd := hds d (by simp)
    rw [List.map_cons, go_cons cfg radix hr d hd] at h
    cases hm : bnMulDig cfg acc radix with
    | none => rw [hm] at h; exact absurd h (by simp)
    | some m =>
      rw [hm] at h
      simp only at h
      obtain ⟨hmw, hmv⟩ := bnMulDig_exact cfg hw acc radix hacc hrB m hm
      cases ha : bnAddDig cfg m d with
      | none => rw [ha, go_none] at h; exact absurd h (by simp)
      | some m' =>
        rw [ha] at h
        obtain ⟨haw, hav⟩ := bnAddDig_exact cfg hw m d hmw (by omega) m' ha
        have := go_spec hw radix hr hrB ds (fun x hx => hds x (by simp [hx])) m' (v * radix + d) haw
          (by rw [hav, hmv, hv]; push_cast; rfl) r h
        simpa using this

end Conv

variable (cfg : Cfg)

/-- bn_write_bin writes the big-endian bytes of |a| left-padded with zeros to exactly `len` bytes -/
theorem bnWriteBin_spec (hw : 0 < cfg.w) (h8 : 8 ∣ cfg.w) (a : Bn) (ha : a.WF cfg.B) (len : Nat) (b : List UInt8)
    (h : bnWriteBin cfg.w len a = some b) :
    b.length = len ∧ os2n b = (a.toInt cfg.B).natAbs := by
  rw [Conv.bnWriteBin_eq] at h
  split at h
  · exact absurd h (by simp)
  rename_i hlen
  simp only [Option.some.injEq] at h
  subst h
  have hl := Conv.leBytes_length cfg.w a
  constructor
  · simp only [List.length_reverse, List.length_append, List.length_replicate, hl]; omega
  · rw [Conv.os2n_eq, List.reverse_reverse, List.map_append, val_append, List.map_replicate, toInt_natAbs,
      Conv.leBytes_val cfg h8 a ha]
    simp [HighMul.val_zeros]

/-- bn_size_bin is the minimal byte length: 256^(size-1) ≤ |a| < 256^size (0 for zero) -/
theorem bnSizeBin_spec (hw : 0 < cfg.w) (h8 : 8 ∣ cfg.w) (a : Bn) (ha : a.WF cfg.B) :
    (a.toInt cfg.B).natAbs < 256 ^ bnSizeBin cfg.w a ∧
    (bnSizeBin cfg.w a ≠ 0 → 256 ^ (bnSizeBin cfg.w a - 1) ≤ (a.toInt cfg.B).natAbs) := by
  obtain ⟨init, top, hdp, hs, h1, h2, h3, h4, hinit⟩ := Conv.size_decomp cfg h8 a ha
  have hB := Conv.B_eq_256 cfg h8
  have hp : 256 ^ (init.length * (cfg.w / 8)) = cfg.B ^ init.length := by
    rw [Nat.mul_comm, Nat.pow_mul, ← hB]
  have hv := val_lt cfg.B init hinit
  rw [toInt_natAbs, hs, hdp, High.val_snoc]
  constructor
  · rw [Nat.pow_add, hp]
    have := Nat.mul_le_mul_left (cfg.B ^ init.length) (Nat.succ_le_of_lt h1)
    rw [Nat.mul_succ] at this
    omega
  · intro hne
    by_cases ht : top = 0
    · rw [h4 ht, h3 ht] at hne; simp at hne
    · have hb : bytesOfDig (cfg.w / 8 + 1) top ≠ 0 := by
        intro hb; rw [hb] at h1; simp at h1; exact ht h1
      have e : init.length * (cfg.w / 8) + bytesOfDig (cfg.w / 8 + 1) top - 1 =
          init.length * (cfg.w / 8) + (bytesOfDig (cfg.w / 8 + 1) top - 1) := by omega
      rw [e, Nat.pow_add, hp]
      have := Nat.mul_le_mul_left (cfg.B ^ init.length) (h2 ht)
      omega

/-- the buffer check: an error is raised exactly when the buffer is shorter than the minimal size,
    so nothing is ever written past `len` -/
theorem bnWriteBin_error_iff (a : Bn) (len : Nat) :
    bnWriteBin cfg.w len a = none ↔ len < bnSizeBin cfg.w a := by
  rw [Conv.bnWriteBin_eq]
  split <;> simp [*]

/-- decoding any byte string yields a valid integer with the big-endian value of the bytes, or a
    precision error when the bytes need more digits than the capacity -/
theorem bnReadBin_spec (hw : 0 < cfg.w) (h8 : 8 ∣ cfg.w) (b : List UInt8) (x : Bn) (h : bnReadBin cfg b = some x) :
    x.WF cfg.B ∧ x.toInt cfg.B = os2n b := by
  rw [Conv.bnReadBin_eq cfg h8] at h
  split at h
  · exact absurd h (by simp)
  simp only [Option.some.injEq] at h
  subst h
  obtain ⟨hd, hv⟩ := Conv.readBin_val cfg hw h8 b
  have hBp : 0 < cfg.B := Nat.pow_pos (by omega)
  have := bnTrim_exact hBp false _ hd
  refine ⟨this.1, ?_⟩
  rw [this.2, hv]; simp

theorem bnReadBin_error_iff (hw : 0 < cfg.w) (h8 : 8 ∣ cfg.w) (b : List UInt8) :
    bnReadBin cfg b = none ↔ cfg.cap < (b.length + cfg.w / 8 - 1) / (cfg.w / 8) := by
  rw [Conv.bnReadBin_eq cfg h8, ← (Conv.binDigs_eq cfg hw h8 b.length).1]
  split <;> simp [*]

/-- R1: decode (encode x) = |x| for every buffer length that is accepted -/
theorem bnReadBin_writeBin (hw : 0 < cfg.w) (h8 : 8 ∣ cfg.w) (a : Bn) (ha : a.WF cfg.B) (hpos : a.neg = false)
    (len : Nat) (b : List UInt8) (h : bnWriteBin cfg.w len a = some b) (x : Bn) (hx : bnReadBin cfg b = some x) :
    x = a := by
  have hB := cfg.one_lt_B hw
  obtain ⟨hxw, hxv⟩ := bnReadBin_spec cfg hw h8 b x hx
  obtain ⟨_, hbv⟩ := bnWriteBin_spec cfg hw h8 a ha len b h
  apply Conv.WF_eq_of_toInt hB hxw ha
  rw [hxv, hbv, toInt_natAbs, toInt_of_pos hpos]

/-- R3: re-encoding a decoded integer in the same length reproduces the input bytes -/
theorem bnWriteBin_readBin (hw : 0 < cfg.w) (h8 : 8 ∣ cfg.w) (b : List UInt8) (x : Bn) (h : bnReadBin cfg b = some x) :
    bnWriteBin cfg.w b.length x = some b := by
  obtain ⟨hxw, hxv⟩ := bnReadBin_spec cfg hw h8 b x h
  have hsz := bnSizeBin_spec cfg hw h8 x hxw
  have hlt := Conv.os2n_lt b
  have hna : (x.toInt cfg.B).natAbs = os2n b := by rw [hxv]; simp
  have hle : bnSizeBin cfg.w x ≤ b.length := by
    by_contra hc
    have h1 : 256 ^ b.length ≤ 256 ^ (bnSizeBin cfg.w x - 1) := Nat.pow_le_pow_right (by omega) (by omega)
    have h2 := hsz.2 (by omega)
    omega
  cases hwr : bnWriteBin cfg.w b.length x with
  | none => rw [bnWriteBin_error_iff] at hwr; omega
  | some b' =>
    obtain ⟨hl, hv⟩ := bnWriteBin_spec cfg hw h8 x hxw b.length b' hwr
    rw [Conv.bytes_inj b' b hl (by rw [hv, hna])]

/-- bn_write_str is positional notation of |a| in the given radix with a leading '-' for negatives -/
theorem bnWriteStr_spec (hw : 0 < cfg.w) (a : Bn) (ha : a.WF cfg.B) (radix len : Nat) (hr : 2 ≤ radix ∧ radix ≤ 64)
    (s : String) (h : bnWriteStr cfg len a radix = .ok s) :
    ∃ ds : List Nat, (∀ d ∈ ds, d < radix) ∧ (ds.head? ≠ some 0 ∨ ds = [0]) ∧ ds ≠ [] ∧
      posVal radix ds = (a.toInt cfg.B).natAbs ∧
      s.toList = (if a.toInt cfg.B < 0 then ['-'] else []) ++ ds.map convChar := by
  have hB := cfg.one_lt_B hw
  obtain ⟨h1, h2, h3, h4⟩ := Conv.strDs_spec cfg hw a ha radix hr.1
  refine ⟨Conv.strDs cfg a radix, h1, h2, h3, ?_, ?_⟩
  · rw [h4, toInt_natAbs]
  · rw [Conv.writeStr_toList cfg hw a ha radix len s h]
    simp only [Conv.toInt_neg_iff hB ha]

/-- bn_size_str = length of the text + 1 (the NUL) -/
theorem bnSizeStr_spec (hw : 0 < cfg.w) (a : Bn) (ha : a.WF cfg.B) (radix len : Nat) (hr : 2 ≤ radix ∧ radix ≤ 64)
    (s : String) (h : bnWriteStr cfg len a radix = .ok s) :
    bnSizeStr cfg a radix = some (s.toList.length + 1) := by
  have hB := cfg.one_lt_B hw
  rw [Conv.writeStr_toList cfg hw a ha radix len s h]
  unfold bnSizeStr Conv.strDs
  rw [if_neg (by omega)]
  by_cases hz : bnIsZero a = true
  · rw [if_pos hz, if_pos hz]
    have hv := (ha.isZero_iff hB).1 hz
    have hn := ha.2.2.2 ((ha.val_eq_zero_iff hB).1 hv)
    simp [hn]
  · rw [if_neg hz, if_neg hz]
    have hv : val cfg.B a.dp ≠ 0 := fun h => hz ((ha.isZero_iff hB).2 h)
    by_cases h2 : radix = 2
    · subst h2
      rw [if_pos rfl, bnBitsW_val cfg hw a ha, if_neg hv]
      simp only [List.length_append, List.length_map, List.length_reverse,
        Conv.strDigits_length_two _ _ (Nat.lt_succ_self _), if_neg hv]
      cases a.neg <;> simp
      omega
    · rw [if_neg h2]
      simp only [List.length_append, List.length_map, List.length_reverse]
      cases a.neg <;> simp

theorem bnWriteStr_error (a : Bn) (radix len : Nat) :
    (radix < 2 ∨ radix > 64 → bnWriteStr cfg len a radix = .error .noValid) ∧
    (∀ l, bnSizeStr cfg a radix = some l → len < l → bnWriteStr cfg len a radix = .error .noBuffer) := by
  constructor
  · intro hr
    unfold bnWriteStr bnSizeStr
    rw [if_pos hr]
  · intro l hl hlt
    unfold bnWriteStr
    rw [hl]
    simp only [if_pos hlt]

/-- counterexample to the original statement of `bnReadStr_writeStr` (no `radix < cfg.B`): with one-bit
    digits (B = 2) the value 5 = [1,0,1] is written as "5" in radix 10, but the reader, which feeds the
    radix and the digit values to bn_mul_dig / bn_add_dig as single digits (they must be < B), returns 3 -/
example : Bn.WF (Cfg.B { w := 1, cap := 100 }) { neg := false, dp := [1, 0, 1] } ∧
    (bnWriteStr { w := 1, cap := 100 } 100 { neg := false, dp := [1, 0, 1] } 10).toOption = some "5" ∧
    bnReadStr { w := 1, cap := 100 } "5" 10 = some { neg := false, dp := [1, 1] } := by decide

/-- R4: reading back what was written returns the same integer (when the reader's length-based capacity
    bound admits the string) -/
-- STATEMENT CHANGED: added `hrB : radix < cfg.B`. The reader passes the radix to bn_mul_dig and the digit
-- values to bn_add_dig as single digits, which is only meaningful when they fit a digit; for tiny word
-- sizes (e.g. w = 1, radix = 10, see the example above) the original statement is false. Every real
-- configuration (w ∈ {8, 16, 32, 64}, radix ≤ 64 < 2^w) satisfies the hypothesis.
theorem bnReadStr_writeStr (hw : 0 < cfg.w) (a : Bn) (ha : a.WF cfg.B) (radix len : Nat) (hr : 2 ≤ radix ∧ radix ≤ 64)
    (hrB : radix < cfg.B)
    (s : String) (h : bnWriteStr cfg len a radix = .ok s) (x : Bn) (hx : bnReadStr cfg s radix = some x) :
    x = a := by
  have hB := cfg.one_lt_B hw
  have hs := Conv.writeStr_toList cfg hw a ha radix len s h
  obtain ⟨h1, h2, h3, h4⟩ := Conv.strDs_spec cfg hw a ha radix hr.1
  unfold bnReadStr at hx
  rw [if_neg (by omega)] at hx
  simp only at hx
  split at hx
  · exact absurd hx (by simp)
  have hhead : (s.toList.head? = some '-') ↔ a.neg = true := by
    rw [hs]
    cases hn : a.neg
    · simp only [Bool.false_eq_true, if_false, List.nil_append, iff_false]
      match hds : Conv.strDs cfg a radix with
      | [] => exact absurd hds h3
      | d :: ds =>
        have hd : d < radix := h1 d (by rw [hds]; simp)
        simp only [List.map_cons, List.head?_cons, Option.some.injEq]
        exact Conv.convChar_ne_minus d (by omega)
    · simp
  have hbody : (if s.toList.head? = some '-' then List.drop 1 s.toList else s.toList) =
      (Conv.strDs cfg a radix).map convChar := by
    simp only [hhead]
    rw [hs]
    cases a.neg <;> simp
  have hnegb : decide (s.toList.head? = some '-') = a.neg := by
    simp only [hhead]; cases a.neg <;> rfl
  rw [hbody, hnegb] at hx
  cases hg : bnReadStr.go cfg radix ((Conv.strDs cfg a radix).map convChar) (some Bn.zero) with
  | none => rw [hg] at hx; exact absurd hx (by simp)
  | some acc =>
    rw [hg] at hx
    simp only [Option.some.injEq] at hx
    have hz : Bn.zero.WF cfg.B := by
      refine ⟨by simp [Bn.zero], ?_, Or.inl rfl, fun _ => rfl⟩
      intro d hd; simp [Bn.zero] at hd; omega
    obtain ⟨haw, hav⟩ := Conv.go_spec cfg hw radix hr.2 hrB _ h1 Bn.zero 0 hz (by simp [Bn.zero, Bn.toInt, val])
      acc hg
    change acc.toInt cfg.B = ((posVal radix (Conv.strDs cfg a radix) : Nat) : Int) at hav
    rw [h4] at hav
    have ha' : Bn.WF cfg.B { neg := false, dp := a.dp } := ⟨ha.1, ha.2.1, ha.2.2.1, fun _ => rfl⟩
    have := Conv.WF_eq_of_toInt hB haw ha' (by rw [hav]; simp [Bn.toInt])
    rw [← hx, this]
    exact bnTrim_of_WF ha

end Relic.Model
