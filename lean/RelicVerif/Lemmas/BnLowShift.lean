/-
bn_lsh1_low, bn_lshb_low, bn_rsh1_low, bn_rshb_low, bn_div1_low, dv_cmp on digit vectors of base 2^w.
-/
import RelicVerif.Lemmas.BnLowAdd

namespace Relic.Model

theorem lsh1Low_spec (w : Nat) (hw : 0 < w) :
    ∀ (a : List Nat) (carry : Nat), carry ≤ 1 → (∀ d ∈ a, d < 2 ^ w) →
      val (2 ^ w) (lsh1Low w a carry).1 + (lsh1Low w a carry).2 * (2 ^ w) ^ a.length
        = 2 * val (2 ^ w) a + carry
      ∧ (lsh1Low w a carry).2 ≤ 1
      ∧ (∀ d ∈ (lsh1Low w a carry).1, d < 2 ^ w) ∧ (lsh1Low w a carry).1.length = a.length := by
  sorry

theorem lshbLow_spec (w bits : Nat) (hb0 : 0 < bits) (hbw : bits < w) :
    ∀ (a : List Nat) (carry : Nat), carry < 2 ^ bits → (∀ d ∈ a, d < 2 ^ w) →
      val (2 ^ w) (lshbLow w bits a carry).1 + (lshbLow w bits a carry).2 * (2 ^ w) ^ a.length
        = 2 ^ bits * val (2 ^ w) a + carry
      ∧ (lshbLow w bits a carry).2 < 2 ^ bits
      ∧ (∀ d ∈ (lshbLow w bits a carry).1, d < 2 ^ w) ∧ (lshbLow w bits a carry).1.length = a.length := by
  sorry

theorem rsh1Low_spec (w : Nat) (hw : 0 < w) (a : List Nat) (ha : ∀ d ∈ a, d < 2 ^ w) :
    val (2 ^ w) (rsh1Low w a).1 = val (2 ^ w) a / 2 ∧ (a ≠ [] → (rsh1Low w a).2 = val (2 ^ w) a % 2)
    ∧ (∀ d ∈ (rsh1Low w a).1, d < 2 ^ w) ∧ (rsh1Low w a).1.length = a.length := by
  sorry

/-- also valid for bits = 0 (the `% RLC_DIG` guard on the shift amount) -/
theorem rshbLow_spec (w bits : Nat) (hbw : bits < w) (a : List Nat) (ha : ∀ d ∈ a, d < 2 ^ w) :
    val (2 ^ w) (rshbLow w bits a).1 = val (2 ^ w) a / 2 ^ bits
    ∧ (a ≠ [] → (rshbLow w bits a).2 = val (2 ^ w) a % 2 ^ bits)
    ∧ (∀ d ∈ (rshbLow w bits a).1, d < 2 ^ w) ∧ (rshbLow w bits a).1.length = a.length := by
  sorry

/-- bn_div1_low: schoolbook short division -/
theorem div1Low_spec (B : Nat) (hB : 1 < B) (a : List Nat) (b : Nat) (hb0 : 0 < b) (hbB : b < B)
    (ha : ∀ d ∈ a, d < B) :
    val B (div1Low B a b).1 * b + (div1Low B a b).2 = val B a ∧ (div1Low B a b).2 < b
    ∧ (∀ d ∈ (div1Low B a b).1, d < B) ∧ (div1Low B a b).1.length = a.length := by
  sorry

/-- dv_cmp orders digit vectors of equal length like their values -/
theorem dvCmp_spec (B : Nat) (hB : 1 < B) (a b : List Nat) (hl : a.length = b.length)
    (ha : ∀ d ∈ a, d < B) (hb : ∀ d ∈ b, d < B) :
    (dvCmp a b = 1 ↔ val B a > val B b) ∧ (dvCmp a b = -1 ↔ val B a < val B b)
    ∧ (dvCmp a b = 0 ↔ val B a = val B b) := by
  sorry

end Relic.Model
