/-
bn_lsh1_low, bn_lshb_low, bn_rsh1_low, bn_rshb_low, bn_div1_low, dv_cmp on digit vectors of base 2^w.
-/
import RelicVerif.Lemmas.BnLowAdd

namespace Relic.Model

theorem two_pow_split {w bits : Nat} (h : bits ≤ w) : 2 ^ w = 2 ^ (w - bits) * 2 ^ bits := by
  rw [← Nat.pow_add]; congr 1; omega

/-- one digit of a left shift by `bits` -/
theorem lsh_digit (w bits a carry : Nat) (hbw : bits ≤ w) (ha : a < 2 ^ w) (hc : carry < 2 ^ bits) :
    ((a <<< bits) % 2 ^ w ||| carry) + (a >>> (w - bits)) * 2 ^ w = 2 ^ bits * a + carry
    ∧ ((a <<< bits) % 2 ^ w ||| carry) < 2 ^ w ∧ a >>> (w - bits) < 2 ^ bits := by
  have hs := two_pow_split hbw
  generalize hS : 2 ^ (w - bits) = S at hs
  have hSpos : 0 < S := by rw [← hS]; exact Nat.two_pow_pos _
  have e1 : (a <<< bits) % 2 ^ w = (a % S) <<< bits := by
    rw [Nat.shiftLeft_eq, Nat.shiftLeft_eq, hs, Nat.mul_mod_mul_right]
  rw [e1, ← Nat.shiftLeft_add_eq_or_of_lt hc, Nat.shiftLeft_eq, Nat.shiftRight_eq_div_pow, hS]
  have hdm := Nat.div_add_mod a S
  have hml : a % S < S := Nat.mod_lt _ hSpos
  have h2 : (a % S + 1) * 2 ^ bits ≤ S * 2 ^ bits := Nat.mul_le_mul_right _ hml
  refine ⟨?_, ?_, ?_⟩
  · rw [hs]; grind
  · rw [hs]; grind
  · rw [Nat.div_lt_iff_lt_mul hSpos, Nat.mul_comm, ← hs]; exact ha

/-- one digit of a right shift by `bits` -/
theorem rsh_digit (w bits a carry : Nat) (hbw : bits ≤ w) (ha : a < 2 ^ w) (hc : carry < 2 ^ bits) :
    2 ^ bits * (a >>> bits ||| (carry <<< (w - bits)) % 2 ^ w) + a % 2 ^ bits = a + carry * 2 ^ w
    ∧ (a >>> bits ||| (carry <<< (w - bits)) % 2 ^ w) < 2 ^ w := by
  have hs := two_pow_split hbw
  have hSpos : 0 < 2 ^ (w - bits) := Nat.two_pow_pos _
  have hTpos : 0 < 2 ^ bits := Nat.two_pow_pos _
  have h2 : (carry + 1) * 2 ^ (w - bits) ≤ 2 ^ bits * 2 ^ (w - bits) := Nat.mul_le_mul_right _ hc
  have e1 : (carry <<< (w - bits)) % 2 ^ w = carry <<< (w - bits) := by
    apply Nat.mod_eq_of_lt
    rw [Nat.shiftLeft_eq, hs]; grind
  have hlt : a >>> bits < 2 ^ (w - bits) := by
    rw [Nat.shiftRight_eq_div_pow, Nat.div_lt_iff_lt_mul hTpos, ← hs]; exact ha
  rw [e1, Nat.or_comm, ← Nat.shiftLeft_add_eq_or_of_lt hlt, Nat.shiftLeft_eq,
    Nat.shiftRight_eq_div_pow]
  have hdm := Nat.div_add_mod a (2 ^ bits)
  have hq : a / 2 ^ bits < 2 ^ (w - bits) := by
    rw [Nat.div_lt_iff_lt_mul hTpos, ← hs]; exact ha
  generalize 2 ^ (w - bits) = S at *
  generalize 2 ^ bits = T at *
  refine ⟨?_, ?_⟩
  · rw [hs]; grind
  · rw [hs]; grind

theorem val_reverse_cons (B x : Nat) (xs : List Nat) :
    val B (x :: xs).reverse = val B xs.reverse + B ^ xs.length * x := by
  simp [val_append, val]

theorem forall_mem_reverse {B : Nat} {l : List Nat} (h : ∀ d ∈ l, d < B) :
    ∀ d ∈ l.reverse, d < B := by
  intro d hd; exact h d (by simpa using hd)

theorem div1LowRev_spec (B : Nat) (b : Nat) (hb0 : 0 < b) :
    ∀ (l : List Nat) (wd : Nat), wd < b → (∀ d ∈ l, d < B) →
      val B (div1LowRev B b l wd).1.reverse * b + (div1LowRev B b l wd).2
        = wd * B ^ l.length + val B l.reverse
      ∧ (div1LowRev B b l wd).2 < b
      ∧ (∀ d ∈ (div1LowRev B b l wd).1, d < B) ∧ (div1LowRev B b l wd).1.length = l.length := by
  intro l
  induction l with
  | nil => intro wd hwd _; simp [div1LowRev, val, hwd]
  | cons x xs ih =>
    intro wd hwd hl
    have hx : x < B := hl x (by simp)
    have hl' : ∀ d ∈ xs, d < B := fun d hd => hl d (by simp [hd])
    have hn : wd * B + x < B * b := by
      have : (wd + 1) * B ≤ b * B := Nat.mul_le_mul_right _ hwd
      grind
    have hq : (wd * B + x) / b < B := by
      rw [Nat.div_lt_iff_lt_mul hb0]; exact hn
    have e1 : (wd * B + x) / b % B = (wd * B + x) / b := Nat.mod_eq_of_lt hq
    have hr : (wd * B + x) % b < b := Nat.mod_lt _ hb0
    have heq : div1LowRev B b (x :: xs) wd =
        ((wd * B + x) / b :: (div1LowRev B b xs ((wd * B + x) % b)).1,
          (div1LowRev B b xs ((wd * B + x) % b)).2) := by
      simp only [div1LowRev, e1]
    obtain ⟨ih1, ih2, ih3, ih4⟩ := ih _ hr hl'
    rw [heq]
    refine ⟨?_, ih2, forall_mem_cons_of hq ih3, by simp [ih4]⟩
    simp only [val_reverse_cons, ih4, List.length_cons, Nat.pow_succ]
    have hdm := Nat.div_add_mod (wd * B + x) b
    grind

theorem lsh1Low_spec (w : Nat) (hw : 0 < w) :
    ∀ (a : List Nat) (carry : Nat), carry ≤ 1 → (∀ d ∈ a, d < 2 ^ w) →
      val (2 ^ w) (lsh1Low w a carry).1 + (lsh1Low w a carry).2 * (2 ^ w) ^ a.length
        = 2 * val (2 ^ w) a + carry
      ∧ (lsh1Low w a carry).2 ≤ 1
      ∧ (∀ d ∈ (lsh1Low w a carry).1, d < 2 ^ w) ∧ (lsh1Low w a carry).1.length = a.length := by
  intro a
  induction a with
  | nil => intro carry hc _; simp [lsh1Low, val, hc]
  | cons x xs ih =>
    intro carry hc ha
    have hx : x < 2 ^ w := ha x (by simp)
    have ha' : ∀ d ∈ xs, d < 2 ^ w := fun d hd => ha d (by simp [hd])
    obtain ⟨d1, d2, d3⟩ := lsh_digit w 1 x carry hw hx (by omega)
    have heq : lsh1Low w (x :: xs) carry =
        (((x <<< 1) % 2 ^ w ||| carry) :: (lsh1Low w xs (x >>> (w - 1))).1,
          (lsh1Low w xs (x >>> (w - 1))).2) := by
      simp only [lsh1Low]
    obtain ⟨ih1, ih2, ih3, ih4⟩ := ih (x >>> (w - 1)) (by omega) ha'
    rw [heq]
    refine ⟨?_, ih2, forall_mem_cons_of d2 ih3, by simp [ih4]⟩
    simp only [val, List.length_cons, Nat.pow_succ]
    grind

-- `hb0` is not needed by the proof (for bits = 0 the model happens to agree); kept for the C precondition
set_option linter.unusedVariables false in
theorem lshbLow_spec (w bits : Nat) (hb0 : 0 < bits) (hbw : bits < w) :
    ∀ (a : List Nat) (carry : Nat), carry < 2 ^ bits → (∀ d ∈ a, d < 2 ^ w) →
      val (2 ^ w) (lshbLow w bits a carry).1 + (lshbLow w bits a carry).2 * (2 ^ w) ^ a.length
        = 2 ^ bits * val (2 ^ w) a + carry
      ∧ (lshbLow w bits a carry).2 < 2 ^ bits
      ∧ (∀ d ∈ (lshbLow w bits a carry).1, d < 2 ^ w) ∧ (lshbLow w bits a carry).1.length = a.length := by
  have hmask : mask w bits = 2 ^ bits - 1 := by
    simp only [mask, if_neg (show ¬ bits ≥ w by omega), Nat.mod_eq_of_lt hbw]
  intro a
  induction a with
  | nil => intro carry hc _; simp [lshbLow, val, hc]
  | cons x xs ih =>
    intro carry hc ha
    have hx : x < 2 ^ w := ha x (by simp)
    have ha' : ∀ d ∈ xs, d < 2 ^ w := fun d hd => ha d (by simp [hd])
    obtain ⟨d1, d2, d3⟩ := lsh_digit w bits x carry (by omega) hx hc
    have er : (x >>> (w - bits)) &&& mask w bits = x >>> (w - bits) := by
      rw [hmask, Nat.and_two_pow_sub_one_eq_mod, Nat.mod_eq_of_lt d3]
    have heq : lshbLow w bits (x :: xs) carry =
        (((x <<< bits) % 2 ^ w ||| carry) :: (lshbLow w bits xs (x >>> (w - bits))).1,
          (lshbLow w bits xs (x >>> (w - bits))).2) := by
      simp only [lshbLow, er]
    obtain ⟨ih1, ih2, ih3, ih4⟩ := ih (x >>> (w - bits)) d3 ha'
    rw [heq]
    refine ⟨?_, ih2, forall_mem_cons_of d2 ih3, by simp [ih4]⟩
    simp only [val, List.length_cons, Nat.pow_succ]
    grind

theorem rsh1LowRev_spec (w : Nat) (hw : 0 < w) :
    ∀ (l : List Nat) (carry : Nat), carry ≤ 1 → (∀ d ∈ l, d < 2 ^ w) →
      2 * val (2 ^ w) (rsh1LowRev w l carry).1.reverse + (rsh1LowRev w l carry).2
        = carry * (2 ^ w) ^ l.length + val (2 ^ w) l.reverse
      ∧ (rsh1LowRev w l carry).2 ≤ 1
      ∧ (∀ d ∈ (rsh1LowRev w l carry).1, d < 2 ^ w) ∧ (rsh1LowRev w l carry).1.length = l.length := by
  intro l
  induction l with
  | nil => intro carry hc _; simp [rsh1LowRev, val, hc]
  | cons x xs ih =>
    intro carry hc hl
    have hx : x < 2 ^ w := hl x (by simp)
    have hl' : ∀ d ∈ xs, d < 2 ^ w := fun d hd => hl d (by simp [hd])
    obtain ⟨d1, d2⟩ := rsh_digit w 1 x carry hw hx (by omega)
    have heq : rsh1LowRev w (x :: xs) carry =
        ((x >>> 1 ||| (carry <<< (w - 1)) % 2 ^ w) :: (rsh1LowRev w xs (x % 2)).1,
          (rsh1LowRev w xs (x % 2)).2) := by
      simp only [rsh1LowRev, Nat.and_one_is_mod]
    obtain ⟨ih1, ih2, ih3, ih4⟩ := ih (x % 2) (by omega) hl'
    rw [heq]
    refine ⟨?_, ih2, forall_mem_cons_of d2 ih3, by simp [ih4]⟩
    simp only [val_reverse_cons, ih4, List.length_cons, Nat.pow_succ]
    simp only [Nat.pow_one] at d1
    grind

theorem rsh1Low_spec (w : Nat) (hw : 0 < w) (a : List Nat) (ha : ∀ d ∈ a, d < 2 ^ w) :
    val (2 ^ w) (rsh1Low w a).1 = val (2 ^ w) a / 2 ∧ (a ≠ [] → (rsh1Low w a).2 = val (2 ^ w) a % 2)
    ∧ (∀ d ∈ (rsh1Low w a).1, d < 2 ^ w) ∧ (rsh1Low w a).1.length = a.length := by
  obtain ⟨h1, h2, h3, h4⟩ := rsh1LowRev_spec w hw a.reverse 0 (by omega) (forall_mem_reverse ha)
  have heq : rsh1Low w a = ((rsh1LowRev w a.reverse 0).1.reverse, (rsh1LowRev w a.reverse 0).2) := by
    simp only [rsh1Low]
  rw [heq]
  simp only [List.reverse_reverse, Nat.zero_mul, Nat.zero_add] at h1
  dsimp only
  refine ⟨by omega, fun _ => by omega, forall_mem_reverse h3, by simpa using h4⟩

theorem rshbLowRev_spec (w bits : Nat) (hbw : bits < w) :
    ∀ (l : List Nat) (carry : Nat), carry < 2 ^ bits → (∀ d ∈ l, d < 2 ^ w) →
      2 ^ bits * val (2 ^ w) (rshbLowRev w bits l carry).1.reverse + (rshbLowRev w bits l carry).2
        = carry * (2 ^ w) ^ l.length + val (2 ^ w) l.reverse
      ∧ (rshbLowRev w bits l carry).2 < 2 ^ bits
      ∧ (∀ d ∈ (rshbLowRev w bits l carry).1, d < 2 ^ w)
      ∧ (rshbLowRev w bits l carry).1.length = l.length := by
  have hmask : mask w bits = 2 ^ bits - 1 := by
    simp only [mask, if_neg (show ¬ bits ≥ w by omega), Nat.mod_eq_of_lt hbw]
  intro l
  induction l with
  | nil => intro carry hc _; simp [rshbLowRev, val, hc]
  | cons x xs ih =>
    intro carry hc hl
    have hx : x < 2 ^ w := hl x (by simp)
    have hl' : ∀ d ∈ xs, d < 2 ^ w := fun d hd => hl d (by simp [hd])
    have hr : x % 2 ^ bits < 2 ^ bits := Nat.mod_lt _ (Nat.two_pow_pos _)
    have key : ∃ c, c < 2 ^ w ∧ 2 ^ bits * c + x % 2 ^ bits = x + carry * 2 ^ w ∧
        rshbLowRev w bits (x :: xs) carry =
          (c :: (rshbLowRev w bits xs (x % 2 ^ bits)).1,
            (rshbLowRev w bits xs (x % 2 ^ bits)).2) := by
      by_cases hb : bits = 0
      · subst hb
        have hc0 : carry = 0 := by simpa using hc
        subst hc0
        refine ⟨x, hx, by simp [Nat.mod_one], ?_⟩
        simp [rshbLowRev, hmask, Nat.mod_one]
      · obtain ⟨d1, d2⟩ := rsh_digit w bits x carry (by omega) hx hc
        have es : (w - bits) % w = w - bits := Nat.mod_eq_of_lt (by omega)
        refine ⟨_, d2, d1, ?_⟩
        simp only [rshbLowRev, es, hmask, Nat.and_two_pow_sub_one_eq_mod]
    obtain ⟨c, hc1, hc2, heq⟩ := key
    obtain ⟨ih1, ih2, ih3, ih4⟩ := ih (x % 2 ^ bits) hr hl'
    rw [heq]
    refine ⟨?_, ih2, forall_mem_cons_of hc1 ih3, by simp [ih4]⟩
    simp only [val_reverse_cons, ih4, List.length_cons, Nat.pow_succ]
    grind

/-- also valid for bits = 0 (the `% RLC_DIG` guard on the shift amount) -/
theorem rshbLow_spec (w bits : Nat) (hbw : bits < w) (a : List Nat) (ha : ∀ d ∈ a, d < 2 ^ w) :
    val (2 ^ w) (rshbLow w bits a).1 = val (2 ^ w) a / 2 ^ bits
    ∧ (a ≠ [] → (rshbLow w bits a).2 = val (2 ^ w) a % 2 ^ bits)
    ∧ (∀ d ∈ (rshbLow w bits a).1, d < 2 ^ w) ∧ (rshbLow w bits a).1.length = a.length := by
  obtain ⟨h1, h2, h3, h4⟩ :=
    rshbLowRev_spec w bits hbw a.reverse 0 (Nat.two_pow_pos _) (forall_mem_reverse ha)
  have heq : rshbLow w bits a =
      ((rshbLowRev w bits a.reverse 0).1.reverse, (rshbLowRev w bits a.reverse 0).2) := by
    simp only [rshbLow]
  rw [heq]
  simp only [List.reverse_reverse, Nat.zero_mul, Nat.zero_add] at h1
  refine ⟨?_, fun _ => ?_, forall_mem_reverse h3, by simpa using h4⟩
  · rw [← h1, Nat.mul_add_div (Nat.two_pow_pos _), Nat.div_eq_of_lt h2, Nat.add_zero]
  · rw [← h1, Nat.mul_add_mod, Nat.mod_eq_of_lt h2]

set_option linter.unusedVariables false in
/-- bn_div1_low: schoolbook short division -/
theorem div1Low_spec (B : Nat) (hB : 1 < B) (a : List Nat) (b : Nat) (hb0 : 0 < b) (hbB : b < B)
    (ha : ∀ d ∈ a, d < B) :
    val B (div1Low B a b).1 * b + (div1Low B a b).2 = val B a ∧ (div1Low B a b).2 < b
    ∧ (∀ d ∈ (div1Low B a b).1, d < B) ∧ (div1Low B a b).1.length = a.length := by
  obtain ⟨h1, h2, h3, h4⟩ := div1LowRev_spec B b hb0 a.reverse 0 hb0 (forall_mem_reverse ha)
  have heq : div1Low B a b =
      ((div1LowRev B b a.reverse 0).1.reverse, (div1LowRev B b a.reverse 0).2) := by
    simp only [div1Low]
  rw [heq]
  simp only [List.reverse_reverse, Nat.zero_mul, Nat.zero_add] at h1
  exact ⟨h1, h2, forall_mem_reverse h3, by simpa using h4⟩

theorem dvCmpRev_spec (B : Nat) :
    ∀ (l m : List Nat), l.length = m.length → (∀ d ∈ l, d < B) → (∀ d ∈ m, d < B) →
      (dvCmpRev l m = 1 ↔ val B l.reverse > val B m.reverse)
      ∧ (dvCmpRev l m = -1 ↔ val B l.reverse < val B m.reverse)
      ∧ (dvCmpRev l m = 0 ↔ val B l.reverse = val B m.reverse) := by
  intro l
  induction l with
  | nil =>
    intro m hlen _ _
    cases m with
    | nil => simp [dvCmpRev, val]
    | cons _ _ => simp at hlen
  | cons x xs ih =>
    intro m hlen hl hm
    cases m with
    | nil => simp at hlen
    | cons y ys =>
      simp only [List.length_cons, Nat.add_right_cancel_iff] at hlen
      have hl' : ∀ d ∈ xs, d < B := fun d hd => hl d (by simp [hd])
      have hm' : ∀ d ∈ ys, d < B := fun d hd => hm d (by simp [hd])
      have hX := val_lt B xs.reverse (forall_mem_reverse hl')
      have hY := val_lt B ys.reverse (forall_mem_reverse hm')
      simp only [List.length_reverse] at hX hY
      rw [← hlen] at hY
      simp only [val_reverse_cons, ← hlen]
      by_cases h1 : x > y
      · have e : dvCmpRev (x :: xs) (y :: ys) = 1 := by simp only [dvCmpRev, if_pos h1]
        have : B ^ xs.length * (y + 1) ≤ B ^ xs.length * x := Nat.mul_le_mul_left _ h1
        rw [Nat.mul_add, Nat.mul_one] at this
        rw [e]
        refine ⟨⟨fun _ => by omega, fun _ => rfl⟩, ⟨fun h => by simp at h, fun h => by omega⟩,
          ⟨fun h => by simp at h, fun h => by omega⟩⟩
      · by_cases h2 : x < y
        · have e : dvCmpRev (x :: xs) (y :: ys) = -1 := by
            simp only [dvCmpRev, if_neg h1, if_pos h2]
          have : B ^ xs.length * (x + 1) ≤ B ^ xs.length * y := Nat.mul_le_mul_left _ h2
          rw [Nat.mul_add, Nat.mul_one] at this
          rw [e]
          refine ⟨⟨fun h => by simp at h, fun h => by omega⟩, ⟨fun _ => by omega, fun _ => rfl⟩,
            ⟨fun h => by simp at h, fun h => by omega⟩⟩
        · have hxy : x = y := by omega
          subst hxy
          have e : dvCmpRev (x :: xs) (x :: ys) = dvCmpRev xs ys := by
            simp only [dvCmpRev, if_neg h1]
          rw [e]
          obtain ⟨i1, i2, i3⟩ := ih ys hlen hl' hm'
          rw [i1, i2, i3]
          refine ⟨by omega, by omega, by omega⟩

set_option linter.unusedVariables false in
/-- dv_cmp orders digit vectors of equal length like their values -/
theorem dvCmp_spec (B : Nat) (hB : 1 < B) (a b : List Nat) (hl : a.length = b.length)
    (ha : ∀ d ∈ a, d < B) (hb : ∀ d ∈ b, d < B) :
    (dvCmp a b = 1 ↔ val B a > val B b) ∧ (dvCmp a b = -1 ↔ val B a < val B b)
    ∧ (dvCmp a b = 0 ↔ val B a = val B b) := by
  have := dvCmpRev_spec B a.reverse b.reverse (by simpa using hl)
    (forall_mem_reverse ha) (forall_mem_reverse hb)
  simpa only [List.reverse_reverse, dvCmp] using this

end Relic.Model
