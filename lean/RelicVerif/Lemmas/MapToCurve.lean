/-
Algebra of the maps to a curve over an arbitrary field (all field elements, no bound):

* simplified SWU: g(Z u² x1) = (Z u²)³ g(x1) off the exceptional set, hence one of g(x1), g(x2) is a square when Z is not;
  on the exceptional set the condition "g(B/(ZA)) is a square" on Z decides; the output satisfies the curve equation for
  EVERY u; the C code (Model/EpMap.lean: patch of the denominator, shortcut u³t⁶·g(x1) for g(x2)) equals the RFC text.
* Shallue–van de Woestijne and SwiftEC share one identity (`sw_key`): for x1 = e − m, x2 = e + m with e = −Z/2 and
  m² = −D(1 − R)/4, D = 3Z² + 4A, c = g(Z):   g(x1)·g(x2) = −D³R³/(64c) · g(Z − 4c/(DR)).
  In SvdW R = ((1−s)/(1+s))², −D/c = (c3/c)²; in SwiftEC (A = 0, Z = u) R = −g(u)/(3u²Y²): the factor is a square in
  both cases, so g(x1)·g(x2)·g(x3) is a square and one of the three candidates is an abscissa of the curve.
* sign correction keeps the point on the curve; Horner's rule evaluates the polynomial; clearing the cofactor lands in
  the r-torsion of a group of exponent h·r; try-and-increment terminates within p steps iff a suitable abscissa exists.

The two oracles `is_square` / `sqrt` of the maps enter through the contract `Oracle` (is_square decides `IsSquare`,
sqrt returns a root of every square, and the non-squares are closed under … × … = square: the quadratic character of a
finite field, `finiteField_oracle_nonsq_mul`).
-/
import Mathlib.Algebra.Field.Defs
import Mathlib.Algebra.Field.Basic
import Mathlib.Algebra.Group.Even
import Mathlib.Tactic.FieldSimp
import Mathlib.Tactic.Ring
import Mathlib.Tactic.LinearCombination
import Mathlib.Tactic.SplitIfs
import Mathlib.NumberTheory.LegendreSymbol.QuadraticChar.Basic
import Mathlib.Algebra.CharP.Two
import Mathlib.Algebra.BigOperators.Group.Finset.Basic
import RelicVerif.Spec.HashToCurve
import RelicVerif.Model.EpMap
import RelicVerif.Spec.HashToCurveEd

namespace Relic.Lemmas.MapToCurve
open Relic.Spec.H2C Relic.Model.EpMap

set_option linter.unusedSimpArgs false
set_option linter.unusedSectionVars false
set_option linter.unusedVariables false
set_option linter.unnecessarySeqFocus false

variable {F : Type} [Field F] [DecidableEq F]

/-- the operation record of a field, with the three oracles left abstract -/
def fOps (isSq : F → Bool) (sqrt : F → F) (sgn0 : F → Bool) : MapOps F :=
  { zero := 0, one := 1, add := (· + ·), sub := (· - ·), mul := (· * ·), neg := Neg.neg, inv0 := fun a => a⁻¹,
    isZero := fun a => decide (a = 0), isSq := isSq, sqrt := sqrt, sgn0 := sgn0, ofNat := fun n => (n : F) }

/-- contract of the oracles `is_square` and `sqrt` (RFC 9380 §4) over a field in which the squares have index ≤ 2 -/
structure Oracle (isSq : F → Bool) (sqrt : F → F) : Prop where
  isSq_iff : ∀ a, isSq a = true ↔ IsSquare a
  sqrt_sq : ∀ a, IsSquare a → sqrt a * sqrt a = a
  nonsq_mul : ∀ a b : F, ¬ IsSquare a → ¬ IsSquare b → IsSquare (a * b)

/-- in a finite field of odd characteristic the product of two non-squares is a square -/
theorem finiteField_nonsq_mul {K : Type} [Field K] [Fintype K] [DecidableEq K] (a b : K)
    (ha : ¬ IsSquare a) (hb : ¬ IsSquare b) : IsSquare (a * b) := by
  have ha0 : a ≠ 0 := fun h => ha (h ▸ IsSquare.zero)
  have hb0 : b ≠ 0 := fun h => hb (h ▸ IsSquare.zero)
  rw [← quadraticChar_one_iff_isSquare (mul_ne_zero ha0 hb0), map_mul,
    quadraticChar_neg_one_iff_not_isSquare.mpr ha, quadraticChar_neg_one_iff_not_isSquare.mpr hb]
  norm_num

/-- the curve polynomial -/
def gF (a b x : F) : F := x ^ 3 + a * x + b

/-! ### simplified SWU -/

/-- g(w·x1) = w³·g(x1) for x1 = (−b/a)(1 + 1/(w² + w)), w² + w ≠ 0 -/
theorem sswu_key (a b w : F) (ha : a ≠ 0) (hw : w * w + w ≠ 0) :
    gF a b (w * (-b * a⁻¹ * (1 + (w * w + w)⁻¹))) = w ^ 3 * gF a b (-b * a⁻¹ * (1 + (w * w + w)⁻¹)) := by
  have h1 : a * a⁻¹ = 1 := mul_inv_cancel₀ ha
  have h2 : (w * w + w)⁻¹ * (w * w + w) = 1 := inv_mul_cancel₀ hw
  have hx : a * (-b * a⁻¹ * (1 + (w * w + w)⁻¹)) * (w * w + w) = -b * (w * w + w + 1) := by
    linear_combination (-b * ((w * w + w) + (w * w + w)⁻¹ * (w * w + w))) * h1 + (-b) * h2
  unfold gF
  linear_combination (1 - w) * hx

theorem isSquare_sq_mul {x s : F} (h : IsSquare x) : IsSquare (s * s * x) := by
  obtain ⟨r, hr⟩ := h
  exact ⟨s * r, by rw [hr]; ring⟩

/-- Z non-square and g(x1) non-square ⇒ (Z u²)³ g(x1) is a square -/
theorem sswu_second_square (nm : ∀ a b : F, ¬ IsSquare a → ¬ IsSquare b → IsSquare (a * b))
    (Z u y : F) (hZ : ¬ IsSquare Z) (hy : ¬ IsSquare y) : IsSquare ((Z * (u * u)) ^ 3 * y) := by
  have h := isSquare_sq_mul (s := Z * u ^ 3) (nm Z y hZ hy)
  have e : (Z * (u * u)) ^ 3 * y = Z * u ^ 3 * (Z * u ^ 3) * (Z * y) := by ring
  rw [e]; exact h

/-! ### Shallue–van de Woestijne / SwiftEC -/

/-- the common identity over the atoms z = Z/2, d = 3z² + A = D/4, c = g(Z); m enters only through m² -/
theorem sw_aux (z d c R m : F) (hd : d ≠ 0) (hc : c ≠ 0) (hR : R ≠ 0) (hm : m ^ 2 = -d * (1 - R)) :
    gF (d - 3 * z ^ 2) (c - 2 * z ^ 3 - 2 * d * z) (-z - m) * gF (d - 3 * z ^ 2) (c - 2 * z ^ 3 - 2 * d * z) (-z + m) =
      -(d ^ 3 * R ^ 3 / c) * gF (d - 3 * z ^ 2) (c - 2 * z ^ 3 - 2 * d * z) (2 * z - c / (d * R)) := by
  have hl : gF (d - 3 * z ^ 2) (c - 2 * z ^ 3 - 2 * d * z) (-z - m) * gF (d - 3 * z ^ 2) (c - 2 * z ^ 3 - 2 * d * z) (-z + m) =
      (gF (d - 3 * z ^ 2) (c - 2 * z ^ 3 - 2 * d * z) (-z) - 3 * z * m ^ 2) ^ 2
        - m ^ 2 * (3 * z ^ 2 + m ^ 2 + (d - 3 * z ^ 2)) ^ 2 := by
    unfold gF; ring
  rw [hl, hm]
  unfold gF
  field_simp
  ring

/-- g(x1)·g(x2) = −d³R³/c · g(x3) for x1,2 = −z ∓ m, x3 = Z − c/(dR), Z = 2z, d = 3z² + A, c = g(Z), m² = −d(1 − R) -/
theorem sw_key (Z A B z m R : F) (hz : Z = 2 * z) (hd : 3 * z ^ 2 + A ≠ 0) (hc : gF A B Z ≠ 0) (hR : R ≠ 0)
    (hm : m ^ 2 = -(3 * z ^ 2 + A) * (1 - R)) :
    gF A B (-z - m) * gF A B (-z + m) =
      -((3 * z ^ 2 + A) ^ 3 * R ^ 3 / gF A B Z) * gF A B (Z - gF A B Z / ((3 * z ^ 2 + A) * R)) := by
  have h := sw_aux z (3 * z ^ 2 + A) (gF A B Z) R m hd hc hR hm
  have hA : 3 * z ^ 2 + A - 3 * z ^ 2 = A := by ring
  have hB : gF A B Z - 2 * z ^ 3 - 2 * (3 * z ^ 2 + A) * z = B := by unfold gF; rw [hz]; ring
  rw [hA, hB] at h
  rw [h, hz]


/-! ### the maps -/

section maps
variable (isSq : F → Bool) (sqrt : F → F) (sgn0 : F → Bool)

theorem g_eq (a b x : F) : g (fOps isSq sqrt sgn0) ⟨a, b⟩ x = gF a b x := by
  simp only [g, fOps, gF]; ring

theorem rhsC_eq (a b x : F) : rhsC (fOps isSq sqrt sgn0) a b x = gF a b x := by
  simp only [rhsC, fOps, gF]; ring

/-- the sign correction negates or keeps y: the square is unchanged -/
theorem fixSign_sq (u y : F) :
    fixSign (fOps isSq sqrt sgn0) u y * fixSign (fOps isSq sqrt sgn0) u y = y * y := by
  unfold fixSign
  split_ifs
  · simp only [fOps]; ring
  · rfl

theorem Oracle.sqrt_of_isSq {isSq : F → Bool} {sqrt : F → F} (H : Oracle isSq sqrt) {a : F} (h : isSq a = true) :
    sqrt a * sqrt a = a := H.sqrt_sq a ((H.isSq_iff a).mp h)

theorem Oracle.not_sq {isSq : F → Bool} {sqrt : F → F} (H : Oracle isSq sqrt) {a : F} (h : ¬ isSq a = true) :
    ¬ IsSquare a := fun hs => h ((H.isSq_iff a).mpr hs)

/-- the abscissa / value pair the simplified SWU map selects (before the square root), written with field operations -/
def sswuSel (a b Z u : F) : F × F :=
  let w := Z * (u * u)
  let x1 := if (w * w + w)⁻¹ = 0 then b * (Z * a)⁻¹ else -b * a⁻¹ * (1 + (w * w + w)⁻¹)
  if isSq (gF a b x1) then (x1, gF a b x1) else (w * x1, gF a b (w * x1))

theorem sswu_unfold (a b Z u : F) :
    sswu (fOps isSq sqrt sgn0) ⟨a, b⟩ Z u =
      ((sswuSel isSq a b Z u).1, fixSign (fOps isSq sqrt sgn0) u (sqrt (sswuSel isSq a b Z u).2)) := by
  simp only [sswu, sswuSel, g_eq]
  simp only [fOps, decide_eq_true_eq]
  split_ifs <;> rfl

/-- the value selected by simplified SWU is a square, for EVERY u -/
theorem sswuSel_isSquare (H : Oracle isSq sqrt) (a b Z : F) (ha : a ≠ 0) (hZ : ¬ IsSquare Z)
    (hZ4 : IsSquare (gF a b (b * (Z * a)⁻¹))) (u : F) :
    IsSquare (sswuSel isSq a b Z u).2 ∧ (sswuSel isSq a b Z u).2 = gF a b (sswuSel isSq a b Z u).1 := by
  unfold sswuSel
  simp only
  by_cases hw : (Z * (u * u) * (Z * (u * u)) + Z * (u * u))⁻¹ = 0
  · -- exceptional: x1 = B/(ZA), whose value is a square by the choice of Z
    rw [if_pos hw]
    have h1 : isSq (gF a b (b * (Z * a)⁻¹)) = true := (H.isSq_iff _).mpr hZ4
    rw [if_pos h1]
    exact ⟨hZ4, rfl⟩
  · rw [if_neg hw]
    have hw' : Z * (u * u) * (Z * (u * u)) + Z * (u * u) ≠ 0 := fun h => hw (by rw [h, inv_zero])
    by_cases h1 : isSq (gF a b (-b * a⁻¹ * (1 + (Z * (u * u) * (Z * (u * u)) + Z * (u * u))⁻¹))) = true
    · rw [if_pos h1]
      exact ⟨(H.isSq_iff _).mp h1, rfl⟩
    · rw [if_neg h1]
      refine ⟨?_, rfl⟩
      rw [sswu_key a b (Z * (u * u)) ha hw']
      exact sswu_second_square H.nonsq_mul Z u _ hZ (H.not_sq h1)

/-- RFC 9380 simplified SWU: the output satisfies the curve equation for every field element u, the exceptional ones included -/
theorem sswu_on_curve (H : Oracle isSq sqrt) (a b Z : F) (ha : a ≠ 0) (hZ : ¬ IsSquare Z)
    (hZ4 : IsSquare (gF a b (b * (Z * a)⁻¹))) (u : F) :
    (sswu (fOps isSq sqrt sgn0) ⟨a, b⟩ Z u).2 * (sswu (fOps isSq sqrt sgn0) ⟨a, b⟩ Z u).2 =
      gF a b (sswu (fOps isSq sqrt sgn0) ⟨a, b⟩ Z u).1 := by
  rw [sswu_unfold]
  obtain ⟨hs, he⟩ := sswuSel_isSquare isSq sqrt H a b Z ha hZ hZ4 u
  simp only [fixSign_sq]
  rw [H.sqrt_sq _ hs, he]


/-! ### the C code of TMPL_MAP_SSWU equals the RFC text -/

theorem applySign_eq (t : F) (xy : F × F) :
    applySign (fOps isSq sqrt sgn0) t xy = (xy.1, fixSign (fOps isSq sqrt sgn0) t xy.2) := by
  unfold applySign fixSign
  cases sgn0 t <;> cases h : sgn0 xy.2 <;> simp [fOps, h]

theorem ne_zero_of_not_isSquare {Z : F} (hZ : ¬ IsSquare Z) : Z ≠ 0 := fun h => hZ (h ▸ IsSquare.zero)

/-- TMPL_MAP_SSWU before the square root = the selection of the RFC map, for every t, given the constants as ep_curve_set_map
    defines them (c0 = −b/a, c2 = a, c3 = b, u = Z) and the two conditions on Z -/
theorem sswuPre_eq (H : Oracle isSq sqrt) (a b Z c0 c1 c4 : F) (ha : a ≠ 0) (hZ : ¬ IsSquare Z)
    (hZ4 : IsSquare (gF a b (b * (Z * a)⁻¹))) (hc0 : c0 * a + b = 0) (t : F) :
    sswuPre (fOps isSq sqrt sgn0) ⟨Z, c0, c1, a, b, c4⟩ t = sswuSel isSq a b Z t := by
  have hZ0 : Z ≠ 0 := ne_zero_of_not_isSquare hZ
  have hc : c0 = -b * a⁻¹ := by
    have h1 : a * a⁻¹ = 1 := mul_inv_cancel₀ ha
    linear_combination a⁻¹ * hc0 + (-c0) * h1
  have hw : t * t * Z = Z * (t * t) := by ring
  simp only [sswuPre, sswuSel, fOps, decide_eq_true_eq, hw]
  have hrhs : ∀ x : F, (x * x + a) * x + b = gF a b x := fun x => by unfold gF; ring
  simp only [hrhs]
  by_cases hD : Z * (t * t) * (Z * (t * t)) + Z * (t * t) = 0
  · -- exceptional: the denominator vanishes, −Z is inverted instead and the "+1" is skipped
    have hDi : (Z * (t * t) * (Z * (t * t)) + Z * (t * t))⁻¹ = 0 := by rw [hD, inv_zero]
    simp only [hD, inv_zero, if_true]
    have hx : (-Z)⁻¹ * c0 = b * (Z * a)⁻¹ := by
      rw [hc]; field_simp
    rw [hx]
    have h1 : isSq (gF a b (b * (Z * a)⁻¹)) = true := (H.isSq_iff _).mpr hZ4
    simp only [h1, if_true]
  · have hDi : ¬ (Z * (t * t) * (Z * (t * t)) + Z * (t * t))⁻¹ = 0 := fun h => hD (inv_eq_zero.mp h)
    simp only [hD, hDi, if_false]
    have hx : ((Z * (t * t) * (Z * (t * t)) + Z * (t * t))⁻¹ + 1) * c0 =
        -b * a⁻¹ * (1 + (Z * (t * t) * (Z * (t * t)) + Z * (t * t))⁻¹) := by rw [hc]; ring
    rw [hx]
    by_cases h1 : isSq (gF a b (-b * a⁻¹ * (1 + (Z * (t * t) * (Z * (t * t)) + Z * (t * t))⁻¹))) = true
    · simp only [h1, if_true]
    · simp only [h1, Bool.false_eq_true, if_false]
      rw [sswu_key a b (Z * (t * t)) ha hD]
      congr 1
      ring

/-- ep_map_sswu followed by the sign correction of EP_MAP_APPLY_MAP = map_to_curve_simple_swu of RFC 9380, for every t -/
theorem sswuC_eq_sswu (H : Oracle isSq sqrt) (a b Z c0 c1 c4 : F) (ha : a ≠ 0) (hZ : ¬ IsSquare Z)
    (hZ4 : IsSquare (gF a b (b * (Z * a)⁻¹))) (hc0 : c0 * a + b = 0) (t : F) :
    applySign (fOps isSq sqrt sgn0) t (sswuC (fOps isSq sqrt sgn0) ⟨Z, c0, c1, a, b, c4⟩ t) =
      sswu (fOps isSq sqrt sgn0) ⟨a, b⟩ Z t := by
  rw [applySign_eq, sswu_unfold]
  unfold sswuC
  rw [sswuPre_eq isSq sqrt sgn0 H a b Z c0 c1 c4 ha hZ hZ4 hc0 t]
  rfl


/-! ### Shallue–van de Woestijne -/

/-- the abscissa / value pair map_to_curve_svdw selects, written with field operations; c1..c4 as in RFC 9380 §6.6.1 -/
def svdwSel (a b c1 c2 c3 c4 Z u : F) : F × F :=
  let s := u * u * c1
  let tv3 := ((1 - s) * (1 + s))⁻¹
  let tv4 := u * (1 - s) * tv3 * c3
  let x1 := c2 - tv4
  let x2 := c2 + tv4
  let t := (1 + s) * (1 + s) * tv3
  let x3 := t * t * c4 + Z
  let x := if isSq (gF a b x1) then x1 else if isSq (gF a b x2) then x2 else x3
  (x, gF a b x)

theorem svdwWith_unfold (a b Z u : F) (K : SvdwConst F) :
    svdwWith (fOps isSq sqrt sgn0) ⟨a, b⟩ K Z u =
      ((svdwSel isSq a b K.c1 K.c2 K.c3 K.c4 Z u).1,
        fixSign (fOps isSq sqrt sgn0) u (sqrt (svdwSel isSq a b K.c1 K.c2 K.c3 K.c4 Z u).2)) := by
  simp only [svdwWith, svdwSel, g_eq]
  rfl

/-- conditions on the constants of the SvdW map (RFC 9380 §6.6.1 and the conditions on Z of Appendix H.1), as the driver
    evaluates them on the constants the library reports -/
structure SvdwOk (a b c1 c2 c3 c4 Z : F) : Prop where
  two : (2 : F) ≠ 0
  c1_def : c1 = gF a b Z
  c1_ne : c1 ≠ 0
  c2_def : 2 * c2 + Z = 0
  d_ne : 3 * Z ^ 2 + 4 * a ≠ 0
  c3_def : c3 * c3 = -c1 * (3 * Z ^ 2 + 4 * a)
  c4_def : c4 * (3 * Z ^ 2 + 4 * a) + 4 * c1 = 0
  exc : IsSquare (gF a b Z) ∨ IsSquare (gF a b c2)

theorem isSquare_of_mul_sq {x q r : F} (hq : q ≠ 0) (h : r * r = q * q * x) : IsSquare x :=
  ⟨r / q, by field_simp; linear_combination -h⟩

/-- off the exceptional set, two non-square candidates force the third to be a square -/
theorem svdw_third (nm : ∀ a b : F, ¬ IsSquare a → ¬ IsSquare b → IsSquare (a * b))
    (a b c1 c2 c3 c4 Z u : F) (ok : SvdwOk a b c1 c2 c3 c4 Z)
    (hP : (1 - u * u * c1) * (1 + u * u * c1) ≠ 0)
    (h1 : ¬ IsSquare (gF a b (c2 - u * (1 - u * u * c1) * ((1 - u * u * c1) * (1 + u * u * c1))⁻¹ * c3)))
    (h2 : ¬ IsSquare (gF a b (c2 + u * (1 - u * u * c1) * ((1 - u * u * c1) * (1 + u * u * c1))⁻¹ * c3))) :
    IsSquare (gF a b ((1 + u * u * c1) * (1 + u * u * c1) * ((1 - u * u * c1) * (1 + u * u * c1))⁻¹ *
      ((1 + u * u * c1) * (1 + u * u * c1) * ((1 - u * u * c1) * (1 + u * u * c1))⁻¹) * c4 + Z)) := by
  obtain ⟨h20, hc1, hc1n, hc2, hdn, hc3, hc4, _⟩ := ok
  have hm1 : 1 - u * u * c1 ≠ 0 := left_ne_zero_of_mul hP
  have hp1 : 1 + u * u * c1 ≠ 0 := right_ne_zero_of_mul hP
  -- atoms
  obtain ⟨s, hs⟩ : ∃ s, s = u * u * c1 := ⟨_, rfl⟩
  rw [← hs] at hP hm1 hp1 h1 h2 ⊢
  obtain ⟨z, hz⟩ : ∃ z, z = -c2 := ⟨_, rfl⟩
  have hZz : Z = 2 * z := by rw [hz]; linear_combination hc2
  obtain ⟨d, hd⟩ : ∃ d, d = 3 * z ^ 2 + a := ⟨_, rfl⟩
  have hD : 3 * Z ^ 2 + 4 * a = 4 * d := by rw [hd, hZz]; ring
  have h4 : (4 : F) ≠ 0 := by
    have : (4 : F) = 2 * 2 := by norm_num
    rw [this]; exact mul_ne_zero h20 h20
  have hd0 : d ≠ 0 := by
    intro h; apply hdn; rw [hD, h, mul_zero]
  rw [hD] at hc3 hc4
  obtain ⟨m, hmdef⟩ : ∃ m, m = u * (1 - s) * ((1 - s) * (1 + s))⁻¹ * c3 := ⟨_, rfl⟩
  obtain ⟨R, hRdef⟩ : ∃ R, R = ((1 - s) / (1 + s)) ^ 2 := ⟨_, rfl⟩
  have hR0 : R ≠ 0 := by rw [hRdef]; exact pow_ne_zero 2 (div_ne_zero hm1 hp1)
  have hm : m ^ 2 = -d * (1 - R) := by
    have e1 : m = u * c3 / (1 + s) := by rw [hmdef]; field_simp
    rw [e1, hRdef, div_pow, show (u * c3) ^ 2 = u * u * (c3 * c3) by ring, hc3,
      show u * u * (-c1 * (4 * d)) = -(4 * d) * s by rw [hs]; ring]
    field_simp
    ring
  have hx3 : (1 + s) * (1 + s) * ((1 - s) * (1 + s))⁻¹ * ((1 + s) * (1 + s) * ((1 - s) * (1 + s))⁻¹) * c4 + Z =
      Z - gF a b Z / (d * R) := by
    have hc4' : c4 * d + c1 = 0 := by
      have : 4 * (c4 * d + c1) = 0 := by linear_combination hc4
      exact (mul_eq_zero.mp this).resolve_left h4
    have e4 : c4 = -c1 / d := by
      field_simp
      linear_combination hc4'
    rw [e4, hRdef, ← hc1]
    field_simp
    ring
  have hkey := sw_key Z a b z m R hZz (by rw [← hd]; exact hd0) (by rw [← hc1]; exact hc1n) hR0 (by rw [← hd]; exact hm)
  rw [← hd, ← hc1] at hkey
  rw [hx3, ← hc1]
  -- g1·g2 is a square
  have e1 : c2 - m = -z - m := by rw [hz]; ring
  have e2 : c2 + m = -z + m := by rw [hz]; ring
  rw [← hmdef, e1] at h1
  rw [← hmdef, e2] at h2
  obtain ⟨r, hr⟩ := nm _ _ h1 h2
  rw [hkey] at hr
  -- the factor −d³R³/c is a non-zero square
  have hc30 : c3 ≠ 0 := by
    intro h
    rw [h, mul_zero] at hc3
    have : c1 * (4 * d) = 0 := by linear_combination hc3
    rcases mul_eq_zero.mp this with h' | h'
    · exact hc1n h'
    · exact (mul_ne_zero h4 hd0) h'
  obtain ⟨k, hkdef⟩ : ∃ k, k = (2 * c1)⁻¹ := ⟨_, rfl⟩
  have hk : 2 * c1 * k = 1 := by rw [hkdef]; exact mul_inv_cancel₀ (mul_ne_zero h20 hc1n)
  have hk0 : k ≠ 0 := by rw [hkdef]; exact inv_ne_zero (mul_ne_zero h20 hc1n)
  obtain ⟨ρ, hρ⟩ : ∃ ρ, ρ = (1 - s) / (1 + s) := ⟨_, rfl⟩
  have hρ0 : ρ ≠ 0 := by rw [hρ]; exact div_ne_zero hm1 hp1
  rw [← hρ] at hRdef
  have hq : -(d ^ 3 * R ^ 3 / c1) = (c3 * k * d * R * ρ) * (c3 * k * d * R * ρ) := by
    have e1 : (c3 * k * d * R * ρ) * (c3 * k * d * R * ρ) = (c3 * c3) * (ρ ^ 2) * (k * k * d ^ 2 * R ^ 2) := by ring
    have e2 : 4 * c1 * c1 * (k * k) = 1 := by linear_combination (2 * c1 * k + 1) * hk
    have e3 : d ^ 3 * R ^ 3 / c1 = 4 * c1 * d * R * (k * k * d ^ 2 * R ^ 2) := by
      rw [div_eq_iff hc1n]; linear_combination (-(d ^ 3 * R ^ 3)) * e2
    rw [e1, hc3, ← hRdef, e3]
    ring
  rw [hq] at hr
  refine isSquare_of_mul_sq (q := c3 * k * d * R * ρ) ?_ hr.symm
  exact mul_ne_zero (mul_ne_zero (mul_ne_zero (mul_ne_zero hc30 hk0) hd0) hR0) hρ0


/-- the value selected by the SvdW map is a square, for EVERY u (exceptional u: x1 = x2 = −Z/2, x3 = Z) -/
theorem svdwSel_isSquare (H : Oracle isSq sqrt) (a b c1 c2 c3 c4 Z : F) (ok : SvdwOk a b c1 c2 c3 c4 Z) (u : F) :
    IsSquare (svdwSel isSq a b c1 c2 c3 c4 Z u).2 := by
  unfold svdwSel
  simp only
  split_ifs with h1 h2
  · exact (H.isSq_iff _).mp h1
  · exact (H.isSq_iff _).mp h2
  · by_cases hP : (1 - u * u * c1) * (1 + u * u * c1) = 0
    · rw [hP, inv_zero] at h1 ⊢
      simp only [mul_zero, zero_mul, sub_zero, zero_add] at h1 ⊢
      rcases ok.exc with h | h
      · exact h
      · exact absurd h (H.not_sq h1)
    · exact svdw_third H.nonsq_mul a b c1 c2 c3 c4 Z u ok hP (H.not_sq h1) (H.not_sq h2)

/-- map_to_curve_svdw with constants satisfying their defining equations: the output satisfies the curve equation for every u -/
theorem svdwWith_on_curve (H : Oracle isSq sqrt) (a b Z : F) (K : SvdwConst F) (ok : SvdwOk a b K.c1 K.c2 K.c3 K.c4 Z) (u : F) :
    (svdwWith (fOps isSq sqrt sgn0) ⟨a, b⟩ K Z u).2 * (svdwWith (fOps isSq sqrt sgn0) ⟨a, b⟩ K Z u).2 =
      gF a b (svdwWith (fOps isSq sqrt sgn0) ⟨a, b⟩ K Z u).1 := by
  rw [svdwWith_unfold]
  simp only [fixSign_sq]
  rw [H.sqrt_sq _ (svdwSel_isSquare isSq sqrt H a b K.c1 K.c2 K.c3 K.c4 Z ok u)]
  rfl

/-- the constants as RFC 9380 §6.6.1 defines them from Z satisfy the equations -/
theorem svdwConst_ok (H : Oracle isSq sqrt) (a b Z : F) (h2 : (2 : F) ≠ 0) (hg : gF a b Z ≠ 0) (hd : 3 * Z ^ 2 + 4 * a ≠ 0)
    (hs : IsSquare (-gF a b Z * (3 * Z ^ 2 + 4 * a)))
    (hexc : IsSquare (gF a b Z) ∨ IsSquare (gF a b (-Z * (2 : F)⁻¹))) :
    SvdwOk a b (svdwConst (fOps isSq sqrt sgn0) ⟨a, b⟩ Z).c1 (svdwConst (fOps isSq sqrt sgn0) ⟨a, b⟩ Z).c2
      (svdwConst (fOps isSq sqrt sgn0) ⟨a, b⟩ Z).c3 (svdwConst (fOps isSq sqrt sgn0) ⟨a, b⟩ Z).c4 Z := by
  have e2 : (1 + 1 : F) = 2 := by norm_num
  have ed : ((2 + 1 : F) * (Z * Z) + (2 + 2) * a) = 3 * Z ^ 2 + 4 * a := by ring
  have e4 : (2 + 2 : F) = 4 := by norm_num
  have ed2 : ((2 + 1 : F) * (Z * Z) + 4 * a) = 3 * Z ^ 2 + 4 * a := by ring
  simp only [svdwConst, g_eq]
  simp only [fOps, e2, ed, e4, ed2]
  refine ⟨h2, rfl, hg, ?_, hd, ?_, ?_, hexc⟩
  · have : (2 : F) * 2⁻¹ = 1 := mul_inv_cancel₀ h2
    linear_combination (-Z) * this
  · have := H.sqrt_sq _ hs
    split_ifs
    · rw [neg_mul_neg]; exact this
    · exact this
  · have : (3 * Z ^ 2 + 4 * a)⁻¹ * (3 * Z ^ 2 + 4 * a) = 1 := inv_mul_cancel₀ hd
    linear_combination (-4 * gF a b Z) * this

/-- RFC 9380 map_to_curve_svdw (constants derived from Z): on the curve for every u -/
theorem svdw_on_curve (H : Oracle isSq sqrt) (a b Z : F) (h2 : (2 : F) ≠ 0) (hg : gF a b Z ≠ 0) (hd : 3 * Z ^ 2 + 4 * a ≠ 0)
    (hs : IsSquare (-gF a b Z * (3 * Z ^ 2 + 4 * a)))
    (hexc : IsSquare (gF a b Z) ∨ IsSquare (gF a b (-Z * (2 : F)⁻¹))) (u : F) :
    (svdw (fOps isSq sqrt sgn0) ⟨a, b⟩ Z u).2 * (svdw (fOps isSq sqrt sgn0) ⟨a, b⟩ Z u).2 =
      gF a b (svdw (fOps isSq sqrt sgn0) ⟨a, b⟩ Z u).1 := by
  unfold svdw
  exact svdwWith_on_curve isSq sqrt sgn0 H a b Z _ (svdwConst_ok isSq sqrt sgn0 H a b Z h2 hg hd hs hexc) u

/-- the inv0 of TMPL_MAP_SVDW (substitute g(u) for a vanishing value, invert, put 0 back) is the field inverse with 0⁻¹ = 0 -/
theorem inv_patch (x c : F) :
    (if decide (x = 0) = true then (0 : F) else (if decide (x = 0) = true then c else x)⁻¹) = x⁻¹ := by
  by_cases h : x = 0
  · simp [h]
  · simp [h]

/-- TMPL_MAP_SVDW before the square root = the selection of the RFC map with the context's constants, for every t
    (ctx c0..c3 are the RFC's c1..c4) -/
theorem svdwPre_eq (a b Z c0 c1 c2 c3 c4 : F) (t : F) :
    svdwPre (fOps isSq sqrt sgn0) a b ⟨Z, c0, c1, c2, c3, c4⟩ t = svdwSel isSq a b c0 c1 c2 c3 Z t := by
  simp only [svdwPre, svdwSel, rhsC_eq]
  simp only [fOps]
  have hA : t * t * c0 + 1 = 1 + t * t * c0 := by ring
  have hB : -(t * t * c0 - 1) = 1 - t * t * c0 := by ring
  simp only [hA, hB, inv_patch]
  by_cases h1 : isSq (gF a b (c1 - t * (1 - t * t * c0) * ((1 - t * t * c0) * (1 + t * t * c0))⁻¹ * c2)) = true
  · simp only [h1, if_true]
  · by_cases h2 : isSq (gF a b (c1 + t * (1 - t * t * c0) * ((1 - t * t * c0) * (1 + t * t * c0))⁻¹ * c2)) = true
    · simp only [h1, h2, Bool.false_eq_true, if_true, if_false]
    · simp only [h1, h2, Bool.false_eq_true, if_false]

/-- ep_map_svdw followed by the sign correction = map_to_curve_svdw of RFC 9380 with the context's constants, for every t -/
theorem svdwC_eq_svdwWith (a b Z c0 c1 c2 c3 c4 : F) (t : F) :
    applySign (fOps isSq sqrt sgn0) t (svdwC (fOps isSq sqrt sgn0) a b ⟨Z, c0, c1, c2, c3, c4⟩ t) =
      svdwWith (fOps isSq sqrt sgn0) ⟨a, b⟩ ⟨c0, c1, c2, c3⟩ Z t := by
  rw [applySign_eq, svdwWith_unfold]
  unfold svdwC
  rw [svdwPre_eq]
  rfl


/-! ### Horner's rule, the isogeny map in projective form -/

theorem polyEval_append (cs : List F) (l x : F) :
    polyEval (fOps isSq sqrt sgn0) (cs ++ [l]) x = polyEval (fOps isSq sqrt sgn0) cs x + l * x ^ cs.length := by
  induction cs with
  | nil => simp [polyEval, fOps]
  | cons c cs ih =>
    have : polyEval (fOps isSq sqrt sgn0) (c :: (cs ++ [l])) x = c + polyEval (fOps isSq sqrt sgn0) (cs ++ [l]) x * x := rfl
    rw [List.cons_append, this, ih]
    have h2 : polyEval (fOps isSq sqrt sgn0) (c :: cs) x = c + polyEval (fOps isSq sqrt sgn0) cs x * x := rfl
    rw [h2, List.length_cons, pow_succ]; ring

theorem foldl_horner (rest : List F) (lead a : F) :
    rest.foldl (fun c ci => (fOps isSq sqrt sgn0).add ((fOps isSq sqrt sgn0).mul c a) ci) lead =
      polyEval (fOps isSq sqrt sgn0) (rest.reverse ++ [lead]) a := by
  induction rest generalizing lead with
  | nil => simp [polyEval, fOps]
  | cons r rest ih =>
    rw [List.foldl_cons, ih, List.reverse_cons, polyEval_append, polyEval_append, polyEval_append]
    simp only [fOps, List.length_append, List.length_reverse, List.length_cons, List.length_nil, pow_succ]
    ring

/-- TMPL_MAP_HORNER (start from the leading coefficient, multiply and add downwards) evaluates Σ cᵢ xⁱ, for every
    coefficient list and every argument -/
theorem horner_eq_polyEval (cs : List F) (a : F) :
    horner (fOps isSq sqrt sgn0) cs a = polyEval (fOps isSq sqrt sgn0) cs a := by
  unfold horner
  rcases h : cs.reverse with _ | ⟨lead, rest⟩
  · have : cs = [] := by simpa using h
    subst this; rfl
  · simp only
    rw [foldl_horner]
    have : cs = rest.reverse ++ [lead] := by
      have := congrArg List.reverse h
      simpa using this
    rw [this]

/-- TMPL_MAP_ISOGENY_MAP (EP_ADD = PROJC): the projective triple (Nx·Dy : y·Ny·Dx : Dx·Dy) denotes the affine point
    (xn/xd, y·yn/yd) of iso_map whenever both denominators are non-zero, and has Z = 0 exactly when iso_map is undefined -/
theorem isoC_eq_isoMap (I : Iso F) (xy : F × F) :
    let O := fOps isSq sqrt sgn0
    (isoMap O I xy = none ↔ (isoC O I xy).2.2 = 0) ∧
    ∀ q, isoMap O I xy = some q →
      q.1 = (isoC O I xy).1 * ((isoC O I xy).2.2)⁻¹ ∧ q.2 = (isoC O I xy).2.1 * ((isoC O I xy).2.2)⁻¹ := by
  intro O
  simp only [O, isoMap, isoC, horner_eq_polyEval]
  generalize polyEval (fOps isSq sqrt sgn0) I.xn xy.1 = nx
  generalize polyEval (fOps isSq sqrt sgn0) I.xd xy.1 = dx
  generalize polyEval (fOps isSq sqrt sgn0) I.yn xy.1 = ny
  generalize polyEval (fOps isSq sqrt sgn0) I.yd xy.1 = dy
  simp only [fOps, Bool.or_eq_true, decide_eq_true_eq]
  constructor
  · constructor
    · intro h
      split_ifs at h with h'
      rcases h' with h' | h'
      · rw [h', mul_zero]
      · rw [h', zero_mul]
    · intro h
      rcases mul_eq_zero.mp h with h' | h'
      · rw [if_pos (Or.inr h')]
      · rw [if_pos (Or.inl h')]
  · intro q hq
    split_ifs at hq with h'
    rw [not_or] at h'
    obtain ⟨hx, hy⟩ := h'
    have := Option.some.inj hq
    subst this
    constructor
    · simp only; field_simp
    · simp only; field_simp

end maps


/-! ### SwiftEC (a = 0) -/

theorem three_square (nm : ∀ a b : F, ¬ IsSquare a → ¬ IsSquare b → IsSquare (a * b)) (x y w q : F)
    (h : x * y = q * q * w) (hy : ¬ IsSquare y) (hw : ¬ IsSquare w) : IsSquare x := by
  obtain ⟨s, hs⟩ := nm y w hy hw
  have hy0 : y ≠ 0 := ne_zero_of_not_isSquare hy
  have hw0 : w ≠ 0 := ne_zero_of_not_isSquare hw
  have hs0 : s ≠ 0 := by
    intro h0; rw [h0, mul_zero] at hs; exact (mul_ne_zero hy0 hw0) hs
  exact isSquare_of_mul_sq (q := s) (r := q * w) hs0 (by linear_combination (-w) * h + x * hs)

/-- the three SwiftEC candidates ((X/Y − u)/2, (−X/Y − u)/2, u + 4Y²) -/
def swiftCand (b sm3 u t : F) : F × F × F :=
  let X := (u * u * u + b - t * t) * (2 * t)⁻¹
  let Y := (X + t) * (u * sm3)⁻¹
  let r := X * Y⁻¹
  ((r - u) * 2⁻¹, (-r - u) * 2⁻¹, u + 4 * (Y * Y))

/-- SwiftEC, a = 0: off the exceptional parameters, if the third and the second candidate are not abscissae of the curve
    then the first one is -/
theorem swift_one_square (nm : ∀ a b : F, ¬ IsSquare a → ¬ IsSquare b → IsSquare (a * b)) (b sm3 u t : F)
    (h2 : (2 : F) ≠ 0) (hs : sm3 * sm3 = -3) (hden : 2 * t * (u * sm3) * (u * u * u + b + t * t) ≠ 0)
    (h3' : ¬ IsSquare (gF 0 b (swiftCand b sm3 u t).2.2)) (h2' : ¬ IsSquare (gF 0 b (swiftCand b sm3 u t).2.1)) :
    IsSquare (gF 0 b (swiftCand b sm3 u t).1) := by
  have ht : t ≠ 0 := fun h => hden (by rw [h]; ring)
  have hu : u ≠ 0 := fun h => hden (by rw [h]; ring)
  have hsm : sm3 ≠ 0 := fun h => hden (by rw [h]; ring)
  have hsum : u * u * u + b + t * t ≠ 0 := right_ne_zero_of_mul hden
  have h3 : (3 : F) ≠ 0 := by
    intro h
    have : sm3 * sm3 = 0 := by rw [hs, h, neg_zero]
    exact hsm (mul_self_eq_zero.mp this)
  have h4 : (4 : F) ≠ 0 := by
    have : (4 : F) = 2 * 2 := by norm_num
    rw [this]; exact mul_ne_zero h2 h2
  have h8 : (8 : F) ≠ 0 := by
    have : (8 : F) = 2 * 4 := by norm_num
    rw [this]; exact mul_ne_zero h2 h4
  unfold swiftCand at h3' h2' ⊢
  simp only at h3' h2' ⊢
  obtain ⟨c, hc⟩ : ∃ c, c = gF 0 b u := ⟨_, rfl⟩
  have hcu : u * u * u + b = c := by rw [hc]; unfold gF; ring
  rw [hcu] at hsum h3' h2' ⊢
  obtain ⟨X, hXdef⟩ : ∃ X, X = (c - t * t) * (2 * t)⁻¹ := ⟨_, rfl⟩
  rw [← hXdef] at h3' h2' ⊢
  have hX : 2 * t * X = c - t * t := by
    rw [hXdef]; field_simp
  obtain ⟨Y, hYdef⟩ : ∃ Y, Y = (X + t) * (u * sm3)⁻¹ := ⟨_, rfl⟩
  rw [← hYdef] at h3' h2' ⊢
  have hY : Y * (u * sm3) = X + t := by
    rw [hYdef]; field_simp
  have hXt : X + t ≠ 0 := by
    intro h
    apply hsum
    have : 2 * t * (X + t) = c + t * t := by linear_combination hX
    rw [← this, h, mul_zero]
  have hY0 : Y ≠ 0 := by
    rw [hYdef]; exact mul_ne_zero hXt (inv_ne_zero (mul_ne_zero hu hsm))
  obtain ⟨r, hrdef⟩ : ∃ r, r = X * Y⁻¹ := ⟨_, rfl⟩
  rw [← hrdef] at h2' ⊢
  have hr : r * Y = X := by rw [hrdef]; field_simp
  have conic : X ^ 2 + 3 * u ^ 2 * Y ^ 2 = -c := by
    linear_combination (-1) * hX - (Y * (u * sm3) + X + t) * hY + Y ^ 2 * u ^ 2 * hs
  by_cases hc0 : c = 0
  · -- g(u) = 0: the second candidate is u times a primitive cube root of unity, g vanishes there
    exfalso
    apply h2'
    obtain ⟨x2, hx2def⟩ : ∃ x2, x2 = (-r - u) * 2⁻¹ := ⟨_, rfl⟩
    rw [← hx2def]
    have h2X : 2 * X = -t := by
      have : t * (2 * X + t) = 0 := by linear_combination hX + hc0
      rcases mul_eq_zero.mp this with h | h
      · exact absurd h ht
      · linear_combination h
    have hrr : r = -(u * sm3) := by
      have : (2 * Y) * (r + u * sm3) = 0 := by linear_combination 2 * hr + 2 * hY + 2 * h2X
      rcases mul_eq_zero.mp this with h | h
      · exact absurd h (mul_ne_zero h2 hY0)
      · linear_combination h
    have hx2 : 2 * x2 = u * sm3 - u := by
      rw [hx2def, hrr]; field_simp
    have e8 : 8 * (x2 ^ 3 - u ^ 3) = 0 := by
      linear_combination ((2 * x2) ^ 2 + 2 * x2 * (u * sm3 - u) + (u * sm3 - u) ^ 2) * hx2 + u ^ 3 * (sm3 - 3) * hs
    have e : x2 ^ 3 - u ^ 3 = 0 := (mul_eq_zero.mp e8).resolve_left h8
    have : gF 0 b x2 = 0 := by
      unfold gF
      have : c = u ^ 3 + 0 * u + b := by rw [hc]; rfl
      linear_combination e + hc0 - this
    rw [this]; exact IsSquare.zero
  · obtain ⟨z, hzdef⟩ : ∃ z, z = u * 2⁻¹ := ⟨_, rfl⟩
    have hz : u = 2 * z := by rw [hzdef]; field_simp
    have hz0 : z ≠ 0 := by rw [hzdef]; exact mul_ne_zero hu (inv_ne_zero h2)
    obtain ⟨m, hmdef⟩ : ∃ m, m = r * 2⁻¹ := ⟨_, rfl⟩
    obtain ⟨W, hWdef⟩ : ∃ W, W = 2 * Y := ⟨_, rfl⟩
    have hW0 : W ≠ 0 := by rw [hWdef]; exact mul_ne_zero h2 hY0
    have hd0 : 3 * z ^ 2 + (0 : F) ≠ 0 := by
      rw [add_zero]; exact mul_ne_zero h3 (pow_ne_zero 2 hz0)
    obtain ⟨d, hddef⟩ : ∃ d, d = 3 * z ^ 2 + (0 : F) := ⟨_, rfl⟩
    rw [← hddef] at hd0
    obtain ⟨R, hRdef⟩ : ∃ R, R = -c / (d * W ^ 2) := ⟨_, rfl⟩
    have hR0 : R ≠ 0 := by
      rw [hRdef]; exact div_ne_zero (neg_ne_zero.mpr hc0) (mul_ne_zero hd0 (pow_ne_zero 2 hW0))
    have hmW : m * W = X := by
      rw [hmdef, hWdef]
      have : (2 : F)⁻¹ * 2 = 1 := inv_mul_cancel₀ h2
      linear_combination hr + r * Y * this
    have hdW : d * W ^ 2 = 3 * u ^ 2 * Y ^ 2 := by
      rw [hddef, hWdef, hz]; ring
    have hm : m ^ 2 = -d * (1 - R) := by
      have e : -d * (1 - R) = (-(d * W ^ 2) - c) / W ^ 2 := by
        rw [hRdef]; field_simp; ring
      rw [e, hdW, eq_div_iff (pow_ne_zero 2 hW0)]
      linear_combination (m * W + X) * hmW + conic
    have hx3 : u + 4 * (Y * Y) = u - c / (d * R) := by
      rw [hRdef, hWdef]; field_simp; ring
    have hkey := sw_key u 0 b z m R hz (by rw [← hddef]; exact hd0) (by rw [← hc]; exact hc0) hR0
      (by rw [← hddef]; exact hm)
    rw [← hddef, ← hc] at hkey
    have e1 : (r - u) * 2⁻¹ = -z + m := by rw [hzdef, hmdef]; ring
    have e2 : (-r - u) * 2⁻¹ = -z - m := by rw [hzdef, hmdef]; ring
    rw [e1]
    rw [e2] at h2'
    rw [hx3] at h3'
    have hq : -(d ^ 3 * R ^ 3 / c) = (c / W ^ 3) * (c / W ^ 3) := by
      rw [hRdef]; field_simp
    rw [hq] at hkey
    exact three_square nm _ _ _ _ (by rw [mul_comm]; exact hkey) h2' h3'


section swiftmaps
variable (isSq : F → Bool) (sqrt : F → F) (sgn0 : F → Bool)

/-- the abscissa SwiftEC selects among the candidates: x3 over x2 over x1 -/
def swiftPick (b : F) (c : F × F × F) : F :=
  if isSq (gF 0 b c.2.2) then c.2.2 else if isSq (gF 0 b c.2.1) then c.2.1 else c.1

theorem swiftX_unfold (b sm3 u t : F) :
    swiftX (fOps isSq sqrt sgn0) ⟨0, b⟩ sm3 u t =
      if 2 * t * (u * sm3) * (u * u * u + b + t * t) = 0 then none
      else some (swiftPick isSq b (swiftCand b sm3 u t)) := by
  have e2 : (1 + 1 : F) = 2 := by norm_num
  have e4 : (2 + 2 : F) = 4 := by norm_num
  simp only [swiftX, swiftPick, swiftCand, g_eq]
  simp only [fOps, e2, e4, decide_eq_true_eq]
  split_ifs <;> simp_all

/-- SwiftEC (a = 0): whenever the parameters are not exceptional the output satisfies the curve equation -/
theorem swift_on_curve (H : Oracle isSq sqrt) (b sm3 u t : F) (s : Bool) (h2 : (2 : F) ≠ 0) (hs : sm3 * sm3 = -3)
    (xy : F × F) (h : swift (fOps isSq sqrt sgn0) ⟨0, b⟩ sm3 u t s = some xy) :
    xy.2 * xy.2 = gF 0 b xy.1 := by
  unfold swift at h
  rw [swiftX_unfold] at h
  split_ifs at h with hden
  simp only [Option.some.injEq] at h
  subst h
  have hsq : IsSquare (gF 0 b (swiftPick isSq b (swiftCand b sm3 u t))) := by
    unfold swiftPick
    split_ifs with h3 h2'
    · exact (H.isSq_iff _).mp h3
    · exact (H.isSq_iff _).mp h2'
    · exact swift_one_square H.nonsq_mul b sm3 u t h2 hs hden (H.not_sq h3) (H.not_sq h2')
  simp only [g_eq]
  have hy := H.sqrt_sq _ hsq
  split_ifs
  · simp only [fOps]; rw [neg_mul_neg]; exact hy
  · exact hy

/-- the a = 0 branch of ep_map_swift_impl (h0 … h8, n1, n2, d1, one inversion) computes the three SwiftEC candidates, and
    detects exactly the exceptional parameters -/
theorem swiftC_eq (b tau u t : F) (h2 : (2 : F) ≠ 0) :
    swiftC (fOps isSq sqrt sgn0) b tau u t =
      if 2 * t * (u * tau) * (u * u * u + b + t * t) = 0 then none else some (swiftCand b tau u t) := by
  simp only [swiftC, swiftCand]
  simp only [fOps, decide_eq_true_eq]
  have hw : (t * t + t * t + (u * u * u + b - t * t)) * (u * tau * t + u * tau * t) +
      (t * t + t * t + (u * u * u + b - t * t)) * (u * tau * t + u * tau * t) =
      2 * (2 * t * (u * tau) * (u * u * u + b + t * t)) := by ring
  rw [hw]
  by_cases hden : 2 * t * (u * tau) * (u * u * u + b + t * t) = 0
  · rw [if_pos hden, if_pos (by rw [hden, mul_zero])]
  · rw [if_neg hden, if_neg (mul_ne_zero h2 hden)]
    have ht : t ≠ 0 := fun h => hden (by rw [h]; ring)
    have hu : u ≠ 0 := fun h => hden (by rw [h]; ring)
    have hta : tau ≠ 0 := fun h => hden (by rw [h]; ring)
    have hsum : u * u * u + b + t * t ≠ 0 := right_ne_zero_of_mul hden
    obtain ⟨S, hS⟩ : ∃ S, S = u * u * u + b + t * t := ⟨_, rfl⟩
    have hub : u * u * u + b = S - t * t := by rw [hS]; ring
    rw [← hS] at hsum ⊢
    rw [hub]
    have hXt : (S - t * t - t * t) * (2 * t)⁻¹ + t = S * (2 * t)⁻¹ := by
      field_simp; ring
    have hY0 : ((S - t * t - t * t) * (2 * t)⁻¹ + t) * (u * tau)⁻¹ ≠ 0 := by
      rw [hXt]
      exact mul_ne_zero (mul_ne_zero hsum (inv_ne_zero (mul_ne_zero h2 ht))) (inv_ne_zero (mul_ne_zero hu hta))
    have hh3 : t * t + t * t + (S - t * t - t * t) = S := by ring
    rw [hh3]
    congr 1
    refine Prod.ext ?_ (Prod.ext ?_ ?_)
    · simp only; rw [hXt]; field_simp; ring
    · simp only; rw [hXt]; field_simp; ring
    · simp only; rw [hXt]; field_simp; ring

/-- the candidate selection, square root and sign of ep_map_swift_impl = the SwiftEC specification -/
theorem swiftSelC_eq (b : F) (c : F × F × F) (s : Bool) :
    swiftSelC (fOps isSq sqrt sgn0) 0 b c s =
      (swiftPick isSq b c,
        if sgn0 (sqrt (gF 0 b (swiftPick isSq b c))) == s then -(sqrt (gF 0 b (swiftPick isSq b c)))
        else sqrt (gF 0 b (swiftPick isSq b c))) := by
  simp only [swiftSelC, swiftSelPre, swiftPick, rhsC_eq]
  simp only [fOps]
  by_cases h3 : isSq (gF 0 b c.2.2) = true <;> by_cases h2 : isSq (gF 0 b c.2.1) = true <;>
    simp only [h3, h2, Bool.false_eq_true, if_true, if_false] <;>
    (congr 1; cases sgn0 (sqrt _) <;> cases s <;> rfl)

/-- ep_map_swift_impl (a = 0 branch; the exceptional parameters mapped to `none` = the point at infinity the code sets)
    = the SwiftEC specification, for every (u, t, s) -/
theorem swiftC_eq_swift (b tau u t : F) (s : Bool) (h2 : (2 : F) ≠ 0) :
    (swiftC (fOps isSq sqrt sgn0) b tau u t).map (fun c => swiftSelC (fOps isSq sqrt sgn0) 0 b c s) =
      swift (fOps isSq sqrt sgn0) ⟨0, b⟩ tau u t s := by
  unfold swift
  rw [swiftC_eq isSq sqrt sgn0 b tau u t h2, swiftX_unfold]
  split_ifs
  · rfl
  · simp only [Option.map_some, swiftSelC_eq, g_eq]
    rfl

end swiftmaps


/-! ### Elligator 2 and the Montgomery → twisted Edwards map -/

section edwards
open Relic.Spec.H2CEd
variable (isSq : F → Bool) (sqrt : F → F) (sgn0 : F → Bool)

/-- the Montgomery curve polynomial s³ + J s² + s -/
def gMF (J x : F) : F := x ^ 3 + J * x ^ 2 + x

theorem gM_eq (J x : F) : gM (fOps isSq sqrt sgn0) J x = gMF J x := by
  simp only [gM, fOps, gMF]; ring

/-- RFC 9380 §6.7.1: the Elligator 2 output satisfies t² = s³ + J s² + s for EVERY u, given only that Z is a non-square
    (g(x2) = Z u² g(x1) off the exceptional case; x1 = −J, x2 = 0 in it) -/
theorem elligator2_on_curve (H : Oracle isSq sqrt) (J Z : F) (hZ : ¬ IsSquare Z) (u : F) :
    (elligator2 (fOps isSq sqrt sgn0) J Z u).2 * (elligator2 (fOps isSq sqrt sgn0) J Z u).2 =
      gMF J (elligator2 (fOps isSq sqrt sgn0) J Z u).1 := by
  simp only [elligator2, gM_eq]
  simp only [fOps, decide_eq_true_eq]
  have hsgn : ∀ (c : Bool) (y : F), (if c = true then y else -y) * (if c = true then y else -y) = y * y := by
    intro c y; cases c <;> simp
  have hsgn' : ∀ (c : Bool) (y : F), (if c = true then -y else y) * (if c = true then -y else y) = y * y := by
    intro c y; cases c <;> simp
  by_cases hx : -(J * (1 + Z * (u * u))⁻¹) = 0
  · -- x1 = −J, x2 = 0
    simp only [hx, if_true]
    by_cases h1 : isSq (gMF J (-J)) = true
    · simp only [h1, if_true, hsgn]
      exact H.sqrt_of_isSq h1
    · simp only [h1, Bool.false_eq_true, if_false, hsgn']
      have e0 : - -J - J = 0 := by ring
      rw [e0]
      have : gMF J 0 = 0 := by unfold gMF; ring
      rw [this]
      exact H.sqrt_sq 0 IsSquare.zero
  · simp only [hx, if_false]
    by_cases h1 : isSq (gMF J (-(J * (1 + Z * (u * u))⁻¹))) = true
    · simp only [h1, if_true, hsgn]
      exact H.sqrt_of_isSq h1
    · simp only [h1, Bool.false_eq_true, if_false, hsgn']
      apply H.sqrt_sq
      have hD : (1 + Z * (u * u)) ≠ 0 := by
        intro h; apply hx; rw [h, inv_zero, mul_zero, neg_zero]
      have hDi : (1 + Z * (u * u)) * (1 + Z * (u * u))⁻¹ = 1 := mul_inv_cancel₀ hD
      have e2 : - -(J * (1 + Z * (u * u))⁻¹) - J = Z * (u * u) * (-(J * (1 + Z * (u * u))⁻¹)) := by
        linear_combination J * hDi
      have e3 : gMF J (- -(J * (1 + Z * (u * u))⁻¹) - J) = u * u * (Z * gMF J (-(J * (1 + Z * (u * u))⁻¹))) := by
        have e4 : gMF J (- -(J * (1 + Z * (u * u))⁻¹) - J) =
            (- -(J * (1 + Z * (u * u))⁻¹) - J) * ((-(J * (1 + Z * (u * u))⁻¹)) ^ 2 + J * (-(J * (1 + Z * (u * u))⁻¹)) + 1) := by
          unfold gMF; ring
        rw [e4, e2]; unfold gMF; ring
      rw [e3]
      exact isSquare_sq_mul (H.nonsq_mul _ _ hZ (H.not_sq h1))

/-- Appendix D.1 of RFC 9380: the rational map sends every point of t² = s³ + J s² + s (exceptional ones included) to a point of
    −x² + y² = 1 + d x² y², given c² = −(J + 2) and d = −(J − 2)/(J + 2) -/
theorem montToEd_on_curve (J c d s t : F) (hc : c * c = -(J + 2)) (hd : d * (J + 2) + (J - 2) = 0)
    (hcurve : t * t = gMF J s) :
    let vw := montToEd (fOps isSq sqrt sgn0) c (s, t)
    vw.2 * vw.2 - vw.1 * vw.1 = 1 + d * (vw.1 * vw.1) * (vw.2 * vw.2) := by
  intro vw
  simp only [vw, montToEd]
  simp only [fOps, Bool.or_eq_true, decide_eq_true_eq]
  by_cases hex : t = 0 ∨ s + 1 = 0
  · rw [if_pos hex]; ring
  · rw [if_neg hex]
    rw [not_or] at hex
    obtain ⟨ht, hs1⟩ := hex
    simp only
    have key : -((c * s) ^ 2 * (s + 1) ^ 2) + t ^ 2 * (s - 1) ^ 2 - t ^ 2 * (s + 1) ^ 2 - d * ((c * s) ^ 2 * (s - 1) ^ 2) = 0 := by
      unfold gMF at hcurve
      linear_combination (-(s ^ 2 * (s + 1) ^ 2 + d * (s ^ 2 * (s - 1) ^ 2))) * hc + (s ^ 2 * (s - 1) ^ 2) * hd + (-4 * s) * hcurve
    field_simp
    linear_combination key

end edwards


/-! ### binary curves: the quadratic of eb_map -/

/-- a solution λ of λ² + λ = (x³ + a x² + b)/x² gives the point (x, λ·x) of y² + x y = x³ + a x² + b -/
theorem eb_solution_on_curve (a b x l : F) (hx : x ≠ 0) (hl : l * l + l = (x ^ 3 + a * x ^ 2 + b) / (x * x)) :
    (l * x) * (l * x) + x * (l * x) = x ^ 3 + a * x ^ 2 + b := by
  have h : (l * x) * (l * x) + x * (l * x) = (l * l + l) * (x * x) := by ring
  rw [h, hl]; field_simp

/-- in characteristic 2 the other solution λ + 1 gives the opposite point (x, y + x) -/
theorem eb_other_root {R : Type} [CommRing R] [CharP R 2] (l : R) : (l + 1) * (l + 1) + (l + 1) = l * l + l := by
  have h2 : (2 : R) = 0 := CharTwo.two_eq_zero
  linear_combination (l + 1) * h2

/-- half-trace: H = Σ_{i ≤ n} c^(4^i) satisfies H² + H = Σ_{j < 2n+2} c^(2^j) in characteristic 2; hence for m = 2n + 1,
    c^(2^m) = c (every element of GF(2^m)) and Tr(c) = Σ_{j<m} c^(2^j) = 0 it solves H² + H = c -/
theorem halfTrace_sq_add {R : Type} [CommRing R] [CharP R 2] (c : R) (n : ℕ) :
    (∑ i ∈ Finset.range (n + 1), c ^ (4 ^ i)) ^ 2 + ∑ i ∈ Finset.range (n + 1), c ^ (4 ^ i) =
      ∑ j ∈ Finset.range (2 * n + 2), c ^ (2 ^ j) := by
  induction n with
  | zero =>
    simp [Finset.sum_range_succ]
    ring
  | succ n ih =>
    rw [Finset.sum_range_succ (fun i => c ^ (4 ^ i)) (n + 1), CharTwo.add_sq,
      show 2 * (n + 1) + 2 = (2 * n + 2) + 1 + 1 by ring, Finset.sum_range_succ _ (2 * n + 2 + 1),
      Finset.sum_range_succ _ (2 * n + 2), ← ih]
    have e1 : (c ^ 4 ^ (n + 1)) ^ 2 = c ^ 2 ^ (2 * n + 2 + 1) := by
      rw [← pow_mul]; congr 1
      rw [show (4 : ℕ) = 2 ^ 2 by norm_num, ← pow_mul, ← pow_succ]; congr 1
    have e2 : c ^ 4 ^ (n + 1) = c ^ 2 ^ (2 * n + 2) := by
      congr 1
      rw [show (4 : ℕ) = 2 ^ 2 by norm_num, ← pow_mul]; congr 1
    rw [e1, e2]; ring

theorem halfTrace_solves {R : Type} [CommRing R] [CharP R 2] (c : R) (n : ℕ)
    (hfrob : c ^ (2 ^ (2 * n + 1)) = c) (htr : ∑ j ∈ Finset.range (2 * n + 1), c ^ (2 ^ j) = 0) :
    (∑ i ∈ Finset.range (n + 1), c ^ (4 ^ i)) ^ 2 + ∑ i ∈ Finset.range (n + 1), c ^ (4 ^ i) = c := by
  rw [halfTrace_sq_add, show 2 * n + 2 = (2 * n + 1) + 1 by ring, Finset.sum_range_succ, htr, hfrob, zero_add]

/-! ### cofactor clearing, try-and-increment -/

/-- clear_cofactor: in a group whose elements are killed by h·r, the multiple h·P is killed by r -/
theorem clear_cofactor_torsion {G : Type} [AddCommGroup G] (h r : ℕ) (P : G) (hP : (h * r) • P = 0) :
    r • (h • P) = 0 := by
  rw [← mul_smul, mul_comm]; exact hP

/-- the predicate the try-and-increment loop tests (fp_smb(g(x)) = 1): g(x) is a non-zero square -/
def goodX (p a b x : Nat) : Prop := (x * x % p * x + a * x + b) % p ≠ 0 ∧ isSqMod p ((x * x % p * x + a * x + b) % p) = true

instance (p a b x : Nat) : Decidable (goodX p a b x) := by unfold goodX; infer_instance

theorem tryIncrement_some (p a b : Nat) : ∀ (fuel x r : Nat), tryIncrement p a b fuel x = some r → goodX p a b r := by
  intro fuel
  induction fuel with
  | zero => intro x r h; simp [tryIncrement] at h
  | succ n ih =>
    intro x r h
    unfold tryIncrement at h
    simp only at h
    split_ifs at h with hg
    · have := Option.some.inj h; subst this; exact hg
    · exact ih _ _ h

theorem tryIncrement_none (p a b : Nat) (hp : 0 < p) : ∀ (fuel x : Nat), x < p → tryIncrement p a b fuel x = none →
    ∀ k, k < fuel → ¬ goodX p a b ((x + k) % p) := by
  intro fuel
  induction fuel with
  | zero => intro x _ _ k hk; omega
  | succ n ih =>
    intro x hx h k hk
    unfold tryIncrement at h
    simp only at h
    split_ifs at h with hg
    rcases k with _ | k
    · rw [Nat.add_zero, Nat.mod_eq_of_lt hx]; exact hg
    · have := ih ((x + 1) % p) (Nat.mod_lt _ hp) h k (by omega)
      rw [Nat.mod_add_mod] at this
      rw [show x + (k + 1) = x + 1 + k by omega]
      exact this

/-- try-and-increment terminates: started anywhere in [0, p) with fuel p it visits every residue, so it returns an abscissa
    (with a non-zero square value of g) as soon as one exists -/
theorem tryIncrement_terminates (p a b x0 y : Nat) (hx : x0 < p) (hy : y < p) (hg : goodX p a b y) :
    ∃ r, tryIncrement p a b p x0 = some r ∧ goodX p a b r := by
  have hp : 0 < p := by omega
  rcases h : tryIncrement p a b p x0 with _ | r
  · exfalso
    have := tryIncrement_none p a b hp p x0 hx h ((y + p - x0) % p) (Nat.mod_lt _ hp)
    rw [Nat.add_mod_mod, show x0 + (y + p - x0) = y + p by omega, Nat.add_mod_right, Nat.mod_eq_of_lt hy] at this
    exact this hg
  · exact ⟨r, rfl, tryIncrement_some p a b p x0 r h⟩

end Relic.Lemmas.MapToCurve
