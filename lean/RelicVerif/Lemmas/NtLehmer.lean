/-
Proofs for Model/NtLehmer.lean (bn_gcd_lehme / bn_gcd_ext_lehme): the simulated cofactor matrix is unimodular, so applying it
keeps the gcd; the extended variant keeps x ≡ t4·Y₀, y ≡ d·Y₀ (mod X₀), from which the second cofactor is recovered by an exact
division.  Partial correctness: whenever the model returns (no dis_t overflow, no negative intermediate, fuel not exhausted).
-/
import RelicVerif.Lemmas.NtGcdB
import RelicVerif.Model.NtLehmer

namespace Relic.Lemmas.NtLehmer
open Relic.Model.NtGcd Relic.Model.NtLehmer Relic.Lemmas.NtGcd

def det (m : Mat) : Int := m.a * m.d - m.b * m.c

def Unimod (m : Mat) : Prop := det m = 1 ∨ det m = -1

theorem unimod_id : Unimod Mat.id := Or.inl (by simp [det, Mat.id])

theorem simLoop_unimod (W f y t q : Nat) (m m' : Mat) (h : simLoop W f y t q m = some m') (hm : Unimod m) : Unimod m' := by
  induction f generalizing y t q m with
  | zero => simp [simLoop] at h
  | succ f ih =>
    unfold simLoop at h
    simp only [] at h
    split at h
    · injection h with h; rw [← h]; exact hm
    · split at h
      · apply ih _ _ _ _ h
        unfold Unimod det at hm ⊢
        simp only []
        rcases hm with hm | hm
        · right; linear_combination (-1 : Int) * hm
        · left; linear_combination (-1 : Int) * hm
      · simp at h

theorem simPass_unimod (W xd yd : Nat) (m m' : Mat) (h : simPass W xd yd m = some m') (hm : Unimod m) : Unimod m' := by
  unfold simPass at h
  split at h
  · injection h with h; rw [← h]; exact hm
  · simp only [] at h
    split at h
    · exact simLoop_unimod _ _ _ _ _ _ _ h hm
    · injection h with h; rw [← h]; exact hm

/-- a unimodular combination keeps the gcd -/
theorem gcd_unimod (m : Mat) (hm : Unimod m) (x y : Int) :
    Int.gcd (x * m.a + y * m.b) (x * m.c + y * m.d) = Int.gcd x y := by
  apply Nat.dvd_antisymm
  · apply Int.dvd_gcd
    · have h1 : ((Int.gcd (x * m.a + y * m.b) (x * m.c + y * m.d) : Nat) : Int) ∣
          (x * m.a + y * m.b) * m.d - (x * m.c + y * m.d) * m.b :=
        Int.dvd_sub (Dvd.dvd.mul_right (Int.gcd_dvd_left _ _) _) (Dvd.dvd.mul_right (Int.gcd_dvd_right _ _) _)
      have e : (x * m.a + y * m.b) * m.d - (x * m.c + y * m.d) * m.b = det m * x := by unfold det; ring
      rw [e] at h1
      rcases hm with hm | hm <;> rw [hm] at h1
      · simpa using h1
      · have : (-1 : Int) * x = -x := by ring
        rw [this] at h1; exact (Int.dvd_neg).mp h1
    · have h1 : ((Int.gcd (x * m.a + y * m.b) (x * m.c + y * m.d) : Nat) : Int) ∣
          (x * m.c + y * m.d) * m.a - (x * m.a + y * m.b) * m.c :=
        Int.dvd_sub (Dvd.dvd.mul_right (Int.gcd_dvd_right _ _) _) (Dvd.dvd.mul_right (Int.gcd_dvd_left _ _) _)
      have e : (x * m.c + y * m.d) * m.a - (x * m.a + y * m.b) * m.c = det m * y := by unfold det; ring
      rw [e] at h1
      rcases hm with hm | hm <;> rw [hm] at h1
      · simpa using h1
      · have : (-1 : Int) * y = -y := by ring
        rw [this] at h1; exact (Int.dvd_neg).mp h1
  · apply Int.dvd_gcd
    · exact Int.dvd_add (Dvd.dvd.mul_right (Int.gcd_dvd_left _ _) _) (Dvd.dvd.mul_right (Int.gcd_dvd_right _ _) _)
    · exact Int.dvd_add (Dvd.dvd.mul_right (Int.gcd_dvd_left _ _) _) (Dvd.dvd.mul_right (Int.gcd_dvd_right _ _) _)

/-- what one outer iteration does to the pair: a Euclid step with the returned quotient, or a unimodular combination
with the returned matrix; the new pair is non-negative when the old one was -/
theorem lehmeStep_spec (W : Nat) (x y : Int) (r : StepRes) (h : lehmeStep W x y = some r) (hy : 0 < y) :
    ((r.euclid = true ∧ r.x = y ∧ r.y = x - y * r.q) ∨
     (r.euclid = false ∧ Unimod r.m ∧ r.x = x * r.m.a + y * r.m.b ∧ r.y = x * r.m.c + y * r.m.d)) ∧
    0 ≤ r.x ∧ 0 ≤ r.y := by
  unfold lehmeStep at h
  simp only [] at h
  split at h
  · simp at h
  · next m1 hm1 =>
    have u1 := simPass_unimod _ _ _ _ _ hm1 unimod_id
    split at h
    · injection h with h
      rw [← h]
      simp only []
      refine ⟨Or.inl ⟨by first | rfl | trivial, by first | rfl | trivial, Int.fmod_def x y⟩, by omega, Int.fmod_nonneg_of_pos x hy⟩
    · split at h
      · simp at h
      · next m2 hm2 =>
        have u2 := simPass_unimod _ _ _ _ _ hm2 u1
        split at h
        · simp at h
        · next hneg =>
          injection h with h
          rw [← h]
          simp only []
          exact ⟨Or.inr ⟨by first | rfl | trivial, u2, by first | rfl | trivial, by first | rfl | trivial⟩, by omega, by omega⟩

theorem lehmeStep_gcd (W : Nat) (x y : Int) (r : StepRes) (h : lehmeStep W x y = some r) (hy : 0 < y) :
    Int.gcd r.x r.y = Int.gcd x y := by
  rcases (lehmeStep_spec W x y r h hy).1 with ⟨_, h1, h2⟩ | ⟨_, hu, h1, h2⟩
  · rw [h1, h2, Int.gcd_sub_mul_left_right, Int.gcd_comm]
  · rw [h1, h2, gcd_unimod _ hu]

theorem multiDigit_pos (W : Nat) (y : Int) (hy : 0 ≤ y) (h : multiDigit W y = true) : 0 < y := by
  unfold multiDigit at h
  have : 0 < 2 ^ W := Nat.two_pow_pos W
  have h' : y.natAbs ≥ 2 ^ W := by simpa using h
  omega

theorem lehmeLoop_spec (W f : Nat) (x y x' y' : Int) (hy : 0 ≤ y) (h : lehmeLoop W f x y = some (x', y')) :
    Int.gcd x' y' = Int.gcd x y ∧ 0 ≤ y' ∧ y'.natAbs < 2 ^ W := by
  induction f generalizing x y with
  | zero => simp [lehmeLoop] at h
  | succ f ih =>
    unfold lehmeLoop at h
    split at h
    · next hmd =>
      have hpos := multiDigit_pos W y hy hmd
      split at h
      · simp at h
      · next r hr =>
        have hs := lehmeStep_spec W x y r hr hpos
        obtain ⟨g1, g2, g3⟩ := ih r.x r.y hs.2.2 h
        exact ⟨by rw [g1, lehmeStep_gcd W x y r hr hpos], g2, g3⟩
    · next hmd =>
      simp only [Option.some.injEq, Prod.mk.injEq] at h
      rw [← h.1, ← h.2]
      refine ⟨rfl, hy, ?_⟩
      unfold multiDigit at hmd
      simpa using hmd

theorem dp0_small (W : Nat) (y : Int) (hy : 0 ≤ y) (h : y.natAbs < 2 ^ W) : ((dp0 W y : Nat) : Int) = y := by
  unfold dp0
  rw [Nat.mod_eq_of_lt h]
  omega

/-- bn_gcd_lehme: whenever the model returns, the result is gcd(a, b) -/
theorem gcdLehme_spec (W : Nat) (a b c : Int) (h : gcdLehme W a b = some c) : c = (Int.gcd a b : Int) := by
  unfold gcdLehme at h
  split at h
  · next ha => subst ha; injection h with h; rw [← h]; simp
  · split at h
    · next hb => subst hb; injection h with h; rw [← h]; simp
    · simp only [] at h
      split at h
      · simp at h
      · next x' y' hl =>
        injection h with h
        have hy0 : (0 : Int) ≤ (if a.natAbs > b.natAbs then (b.natAbs : Int) else (a.natAbs : Int)) := by split <;> omega
        obtain ⟨g1, g2, g3⟩ := lehmeLoop_spec W _ _ _ x' y' hy0 hl
        rw [← h, (gcdExtDig_spec x' (dp0 W y')).1, dp0_small W y' g2 g3, g1]
        split
        · simp [Int.gcd, Int.natAbs_abs]
        · rw [Int.gcd_comm]; simp [Int.gcd, Int.natAbs_abs]

/-! ### extended variant -/

theorem lehmeExtLoop_spec (W f : Nat) (X0 Y0 x y t4 d x' y' t4' d' : Int) (hy : 0 ≤ y)
    (hx : ∃ k, x = k * X0 + t4 * Y0) (hyy : ∃ k, y = k * X0 + d * Y0)
    (h : lehmeExtLoop W f x y t4 d = some (x', y', t4', d')) :
    Int.gcd x' y' = Int.gcd x y ∧ 0 ≤ y' ∧ y'.natAbs < 2 ^ W ∧
    (∃ k, x' = k * X0 + t4' * Y0) ∧ (∃ k, y' = k * X0 + d' * Y0) := by
  induction f generalizing x y t4 d with
  | zero => simp [lehmeExtLoop] at h
  | succ f ih =>
    unfold lehmeExtLoop at h
    split at h
    · next hmd =>
      have hpos := multiDigit_pos W y hy hmd
      split at h
      · simp at h
      · next r hr =>
        have hs := lehmeStep_spec W x y r hr hpos
        have hg := lehmeStep_gcd W x y r hr hpos
        obtain ⟨k1, hk1⟩ := hx
        obtain ⟨k2, hk2⟩ := hyy
        split at h
        · next he =>
          rcases hs.1 with ⟨_, e1, e2⟩ | ⟨e0, _⟩
          · obtain ⟨g1, g2, g3, g4, g5⟩ := ih r.x r.y d (t4 - r.q * d) hs.2.2
              ⟨k2, by rw [e1, hk2]⟩ ⟨k1 - r.q * k2, by rw [e2, hk1, hk2]; ring⟩ h
            exact ⟨by rw [g1, hg], g2, g3, g4, g5⟩
          · rw [he] at e0; simp at e0
        · next he =>
          rcases hs.1 with ⟨e0, _⟩ | ⟨_, _, e1, e2⟩
          · rw [e0] at he; simp at he
          · obtain ⟨g1, g2, g3, g4, g5⟩ := ih r.x r.y (t4 * r.m.a + d * r.m.b) (t4 * r.m.c + d * r.m.d) hs.2.2
              ⟨k1 * r.m.a + k2 * r.m.b, by rw [e1, hk1, hk2]; ring⟩
              ⟨k1 * r.m.c + k2 * r.m.d, by rw [e2, hk1, hk2]; ring⟩ h
            exact ⟨by rw [g1, hg], g2, g3, g4, g5⟩
    · next hmd =>
      simp only [Option.some.injEq, Prod.mk.injEq] at h
      obtain ⟨h1, h2, h3, h4⟩ := h
      subst h1 h2 h3 h4
      refine ⟨rfl, hy, ?_, hx, hyy⟩
      unfold multiDigit at hmd
      simpa using hmd

/-- bn_gcd_ext_lehme_imp on non-negative operands: whenever the model returns, gcd and Bezout identity -/
theorem gcdExtLehmeImp_spec (W : Nat) (a b c d e : Int) (ha : 0 ≤ a) (hb : 0 ≤ b)
    (h : gcdExtLehmeImp W a b = some (c, d, e)) :
    c = (Int.gcd a b : Int) ∧ a * d + b * e = c := by
  unfold gcdExtLehmeImp at h
  split at h
  · next ha0 =>
    subst ha0
    simp only [Option.some.injEq, Prod.mk.injEq] at h
    obtain ⟨h1, h2, h3⟩ := h
    subst h1 h2 h3
    constructor
    · simp
    · rw [Int.natAbs_of_nonneg hb]; ring
  · split at h
    · next ha0 hb0 =>
      subst hb0
      simp only [Option.some.injEq, Prod.mk.injEq] at h
      obtain ⟨h1, h2, h3⟩ := h
      subst h1 h2 h3
      constructor
      · simp
      · rw [Int.natAbs_of_nonneg ha]; ring
    · next ha0 hb0 =>
      have eA : (a.natAbs : Int) = a := Int.natAbs_of_nonneg ha
      have eB : (b.natAbs : Int) = b := Int.natAbs_of_nonneg hb
      simp only [eA, eB] at h
      split at h
      · simp at h
      · next x' y' t4 dd hl =>
        by_cases hsw : a.natAbs < b.natAbs
        · -- swap: X₀ = b, Y₀ = a
          simp only [hsw, decide_true, if_true, not_true_eq_false, if_false, Option.some.injEq, Prod.mk.injEq] at h hl
          obtain ⟨h1, h2, h3⟩ := h
          obtain ⟨g1, g2, g3, ⟨k1, g4⟩, ⟨k2, g5⟩⟩ := lehmeExtLoop_spec W _ b a b a 0 1 x' y' t4 dd ha
            ⟨1, by ring⟩ ⟨0, by ring⟩ hl
          have hd := gcdExtDig_spec x' (dp0 W y')
          rw [dp0_small W y' g2 g3] at hd
          obtain ⟨hd1, hd2⟩ := hd
          have hc : c = (Int.gcd a b : Int) := by rw [← h1, hd1, g1, Int.gcd_comm]
          refine ⟨hc, ?_⟩
          have hK : c - a * d = (k1 * (gcdExtDig x' (dp0 W y')).2.1 + k2 * (gcdExtDig x' (dp0 W y')).2.2) * b := by
            rw [← h2, ← h1, ← hd2, g4, g5]; ring
          rw [← h3, ← h2] at *
          rw [show (gcdExtDig x' (dp0 W y')).1 - a * (t4 * (gcdExtDig x' (dp0 W y')).2.1 + dd * (gcdExtDig x' (dp0 W y')).2.2)
              = (k1 * (gcdExtDig x' (dp0 W y')).2.1 + k2 * (gcdExtDig x' (dp0 W y')).2.2) * b by
            rw [← hd2, g4, g5]; ring]
          rw [Int.mul_fdiv_cancel _ hb0, ← h1, ← hd2, g4, g5]; ring
        · -- no swap: X₀ = a, Y₀ = b
          simp only [hsw, decide_false, if_false, not_false_eq_true, if_true, Option.some.injEq, Prod.mk.injEq,
            Bool.false_eq_true] at h hl
          obtain ⟨h1, h2, h3⟩ := h
          obtain ⟨g1, g2, g3, ⟨k1, g4⟩, ⟨k2, g5⟩⟩ := lehmeExtLoop_spec W _ a b a b 0 1 x' y' t4 dd hb
            ⟨1, by ring⟩ ⟨0, by ring⟩ hl
          have hd := gcdExtDig_spec x' (dp0 W y')
          rw [dp0_small W y' g2 g3] at hd
          obtain ⟨hd1, hd2⟩ := hd
          have hc : c = (Int.gcd a b : Int) := by rw [← h1, hd1, g1]
          refine ⟨hc, ?_⟩
          rw [← h3, ← h2]
          rw [show (gcdExtDig x' (dp0 W y')).1 - b * (t4 * (gcdExtDig x' (dp0 W y')).2.1 + dd * (gcdExtDig x' (dp0 W y')).2.2)
              = (k1 * (gcdExtDig x' (dp0 W y')).2.1 + k2 * (gcdExtDig x' (dp0 W y')).2.2) * a by
            rw [← hd2, g4, g5]; ring]
          rw [Int.mul_fdiv_cancel _ ha0, ← h1, ← hd2, g4, g5]; ring

/-- bn_gcd_ext_lehme: whenever the model returns, c = gcd(a, b) and a·d + b·e = c for all integers -/
theorem gcdExtLehme_spec (W : Nat) (a b c d e : Int) (h : gcdExtLehme W a b = some (c, d, e)) :
    c = (Int.gcd a b : Int) ∧ a * d + b * e = c := by
  unfold gcdExtLehme at h
  cases hi : gcdExtLehmeImp W (a.natAbs : Int) (b.natAbs : Int) with
  | none => rw [hi] at h; simp at h
  | some r =>
    obtain ⟨c0, d0, e0⟩ := r
    rw [hi] at h
    simp only [Option.map_some, extSign, Option.some.injEq, Prod.mk.injEq] at h
    obtain ⟨h1, h2, h3⟩ := h
    obtain ⟨g1, g2⟩ := gcdExtLehmeImp_spec W _ _ c0 d0 e0 (by omega) (by omega) hi
    rw [← h1, ← h2, ← h3, natAbs_cast_mul_sign, natAbs_cast_mul_sign]
    refine ⟨?_, g2⟩
    rw [g1]; simp [Int.gcd, Int.natAbs_abs]

end Relic.Lemmas.NtLehmer
