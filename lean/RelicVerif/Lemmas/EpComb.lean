/-
The comb routines of Model/EpMul.lean (ep_mul_fix_combs plain / endomorphism, ep_mul_fix_combd) compute the scalar times the
base point; the integer form of bn_rec_glv returns a pair congruent to the scalar.  The table and column lemmas are the ones of
Lemmas/EbMul.lean (bit-matrix decomposition k = Σ_i 2^i · Σ_j k_{i+j·l} 2^{j·l}).
-/
import Mathlib.Algebra.Group.Basic
import Mathlib.Algebra.Module.Basic
import Mathlib.Algebra.BigOperators.Group.Finset.Basic
import Mathlib.Algebra.BigOperators.Ring.Finset
import Mathlib.Algebra.BigOperators.Intervals
import Mathlib.Data.List.GetD
import Mathlib.Tactic.Abel
import Mathlib.Tactic.Ring
import Mathlib.Tactic.Linarith
import Mathlib.Tactic.LinearCombination
import Mathlib.Tactic.Module
import RelicVerif.Model.EpMul
import RelicVerif.Lemmas.EbMul
import RelicVerif.Lemmas.Rec

namespace Relic.Lemmas.EpComb
open Relic.Model Relic.Model.MulAlg Relic.Model.EbMul Relic.Model.EpMul Relic.Lemmas.EbMul

variable {G : Type} [AddCommGroup G]

/-- Horner evaluation of a doubling loop that runs from index m-1 down to 0 -/
theorem horner (m : ℕ) : ∀ (F : ℕ → G) (r0 : G),
    (List.range m).reverse.foldl (fun r i => (2 : ℤ) • r + F i) r0
      = (2 ^ m : ℤ) • r0 + ∑ i ∈ Finset.range m, (2 ^ i : ℤ) • F i := by
  induction m with
  | zero => intro F r0; simp
  | succ m ih =>
    intro F r0
    rw [List.range_succ_eq_map, List.reverse_cons, List.foldl_append, ← List.map_reverse, List.foldl_map]
    simp only [List.foldl_cons, List.foldl_nil]
    rw [ih (fun i => F (i + 1)), Finset.sum_range_succ']
    simp only [smul_add, Finset.smul_sum, smul_smul, pow_zero, one_smul, pow_succ']
    rw [add_assoc]

/-! #### shared helpers -/

/-- the table entry of a column -/
theorem tab_get (p : G) (k l d i : ℕ) :
    (tabCombs gops p l d).getD (combCol k l d i) 0 = combVal l d (combCol k l d i) • p :=
  (tabCombs_spec p l d).2 _ (combCol_lt k l d i)

theorem comb_total (k l d : ℕ) :
    ∑ i ∈ Finset.range l, combVal l d (combCol k l d i) * 2 ^ i = ((k % 2 ^ (l * d) : ℕ) : ℤ) := by
  simp only [combVal_combCol]
  exact comb_sum k l d

theorem sum_smul_p (q : G) (f : ℕ → ℤ) (n : ℕ) :
    ∑ i ∈ Finset.range n, (2 ^ i : ℤ) • (f i • q) = (∑ i ∈ Finset.range n, f i * 2 ^ i) • q := by
  induction n with
  | zero => simp
  | succ n ih => rw [Finset.sum_range_succ, Finset.sum_range_succ, ih, add_zsmul, smul_smul, mul_comm]

/-- the sign as an integer -/
def sg (b : Bool) : ℤ := if b then -1 else 1

theorem signed_step (l d c : ℕ) (r x : G) (neg : Bool) :
    (if c > 0 then (if neg then r - combVal l d c • x else r + combVal l d c • x) else r)
      = r + (sg neg * combVal l d c) • x := by
  rcases Nat.eq_zero_or_pos c with rfl | h
  · simp [combVal_zero]
  · cases neg <;> simp [sg, h, sub_eq_add_neg]

theorem top_split (k n : ℕ) (h : k < 2 ^ (n + 1)) :
    (k : ℤ) = ((k % 2 ^ n : ℕ) : ℤ) + (if Rec.bitLen k > n then 2 ^ n else 0) := by
  by_cases hb : Rec.bitLen k > n
  · rw [if_pos hb]
    have hk : 0 < k := by
      rcases Nat.eq_zero_or_pos k with rfl | h'
      · simp [Rec.bitLen] at hb
      · exact h'
    have h1 := (Rec.bitLen_spec k hk).1
    have h2 : 2 ^ n ≤ 2 ^ (Rec.bitLen k - 1) := Nat.pow_le_pow_right (by decide) (by omega)
    obtain ⟨r, rfl⟩ : ∃ r, k = 2 ^ n + r := ⟨k - 2 ^ n, by omega⟩
    have hr : r < 2 ^ n := by rw [pow_succ] at h; omega
    rw [Nat.add_mod_left, Nat.mod_eq_of_lt hr]
    push_cast
    ring
  · rw [if_neg hb]
    have h1 := Rec.lt_two_pow_bitLen k
    have h2 : 2 ^ Rec.bitLen k ≤ 2 ^ n := Nat.pow_le_pow_right (by decide) (by omega)
    rw [Nat.mod_eq_of_lt (by omega)]
    simp

/-- ep_mul_combs_plain on the table of ep_mul_pre_combs: m below 2^(l·d) -/
theorem mulCombsPlain_spec (p : G) (m l d : Nat) (hl : 0 < l) (hm : m < 2 ^ (l * d)) :
    mulCombsPlain gops (tabCombs gops p l d) m l d = (m : ℤ) • p := by
  obtain ⟨l', rfl⟩ : ∃ l', l = l' + 1 := ⟨l - 1, by omega⟩
  have hstep : (fun (r : G) (i : ℕ) =>
      let r := gops.dbl r
      let w := combCol m (l' + 1) d i
      if w > 0 then gops.add r ((tabCombs gops p (l' + 1) d).getD w gops.zero) else r)
      = fun r i => (2 : ℤ) • r + combVal (l' + 1) d (combCol m (l' + 1) d i) • p := by
    funext r i
    simp only [gops_dbl, gops_add, gops_zero, tab_get]
    have := signed_step (l' + 1) d (combCol m (l' + 1) d i) ((2 : ℤ) • r) p false
    simpa [sg] using this
  unfold mulCombsPlain
  simp only [Nat.add_sub_cancel]
  rw [hstep, gops_zero, tab_get, horner, sum_smul_p, smul_smul, ← add_zsmul]
  congr 1
  have := comb_total m (l' + 1) d
  rw [Finset.sum_range_succ, Nat.mod_eq_of_lt hm] at this
  rw [← this]
  ring

/-- one sub-scalar of the endomorphism comb -/
theorem endom_side (q : G) (s : ℤ) (k l d : ℕ) (hd : 0 < d) (h : k < 2 ^ (l * d + 1))
    (hs : d * l < Rec.bitLen k → s = 1) :
    (2 ^ l : ℤ) • (if Rec.bitLen k > d * l then (2 ^ ((d - 1) * l) : ℤ) • q else 0)
      + ∑ i ∈ Finset.range l, (2 ^ i : ℤ) • ((s * combVal l d (combCol k l d i)) • q) = (s * k) • q := by
  rw [sum_smul_p]
  simp only [mul_assoc, ← Finset.mul_sum]
  rw [comb_total, top_split k (l * d) h, Nat.mul_comm l d]
  by_cases hb : Rec.bitLen k > d * l
  · rw [if_pos hb, if_pos hb, hs hb, smul_smul, ← add_zsmul, ← pow_add]
    congr 1
    have : l + (d - 1) * l = d * l := by
      obtain ⟨d', rfl⟩ : ∃ d', d = d' + 1 := ⟨d - 1, by omega⟩
      simp only [Nat.add_sub_cancel]; ring
    rw [this]
    ring
  · rw [if_neg hb, if_neg hb, smul_zero, zero_add, add_zero]

/-- ep_mul_combs_endom: sub-scalars of at most l·d + 1 bits; the top-bit path ignores the sign, hence the two sign hypotheses -/
theorem mulCombsEndom_spec (ψ : G →+ G) (p : G) (l d k0 k1 : Nat) (neg0 neg1 : Bool) (hl : 0 < l) (hd : 0 < d)
    (h0 : k0 < 2 ^ (l * d + 1)) (h1 : k1 < 2 ^ (l * d + 1))
    (hs0 : d * l < Rec.bitLen k0 → neg0 = false) (hs1 : d * l < Rec.bitLen k1 → neg1 = false) :
    mulCombsEndom gops ψ (tabCombs gops p l d) l d k0 neg0 k1 neg1
      = (if neg0 then -(k0 : ℤ) else (k0 : ℤ)) • p + (if neg1 then -(k1 : ℤ) else (k1 : ℤ)) • ψ p := by
  have _ := hl
  have hstep : (fun (r : G) (i : ℕ) =>
      let r := gops.dbl r
      let w0 := combCol k0 l d i
      let w1 := combCol k1 l d i
      let r := if w0 > 0 then (if neg0 then gops.sub r ((tabCombs gops p l d).getD w0 gops.zero)
        else gops.add r ((tabCombs gops p l d).getD w0 gops.zero)) else r
      if w1 > 0 then (if neg1 then gops.sub r (ψ ((tabCombs gops p l d).getD w1 gops.zero))
        else gops.add r (ψ ((tabCombs gops p l d).getD w1 gops.zero))) else r)
      = fun r i => (2 : ℤ) • r + ((sg neg0 * combVal l d (combCol k0 l d i)) • p
          + (sg neg1 * combVal l d (combCol k1 l d i)) • ψ p) := by
    funext r i
    simp only [gops_dbl, gops_add, gops_sub, gops_zero, tab_get, map_zsmul]
    rw [signed_step, signed_step, add_assoc]
  have htop : (tabCombs gops p l d).getD (2 ^ (d - 1)) 0 = (2 ^ ((d - 1) * l) : ℤ) • p := by
    obtain ⟨d', rfl⟩ : ∃ d', d = d' + 1 := ⟨d - 1, by omega⟩
    simp only [Nat.add_sub_cancel]
    have := (tabCombs_spec p l (d' + 1)).2 (2 ^ d') (by rw [pow_succ]; have := Nat.two_pow_pos d'; omega)
    change _ = combVal l (d' + 1) (2 ^ d') • p at this
    rw [this, show 2 ^ d' = 2 ^ d' + 0 by rfl, combVal_high l d' 0 (by positivity), combVal_zero, zero_add]
  have e0 := endom_side p (sg neg0) k0 l d hd h0 (fun h => by rw [hs0 h]; rfl)
  have e1 := endom_side (ψ p) (sg neg1) k1 l d hd h1 (fun h => by rw [hs1 h]; rfl)
  have hr0 : (if neg0 then -(k0 : ℤ) else (k0 : ℤ)) = sg neg0 * k0 := by cases neg0 <;> simp [sg]
  have hr1 : (if neg1 then -(k1 : ℤ) else (k1 : ℤ)) = sg neg1 * k1 := by cases neg1 <;> simp [sg]
  unfold mulCombsEndom
  rw [hstep]
  simp only [gops_zero, gops_add, htop, map_zsmul]
  rw [horner, hr0, hr1, ← e0, ← e1, Finset.sum_congr rfl (fun i _ => smul_add _ _ _), Finset.sum_add_distrib]
  by_cases hb0 : Rec.bitLen k0 > d * l <;> by_cases hb1 : Rec.bitLen k1 > d * l <;>
    simp only [hb0, hb1, if_true, if_false, smul_add, smul_zero, zero_add] <;> abel

/-- the second half of the double table -/
theorem tabCombd_hi (p : G) (dd e d c : ℕ) (he : 0 < e) (hc : c < 2 ^ d) :
    (tabCombd gops p dd e d).getD (2 ^ d + c) 0 = ((2 : ℤ) ^ e * combVal dd d c) • p := by
  obtain ⟨hlen, ht⟩ := tabCombs_spec p dd d
  unfold tabCombd
  simp only []
  generalize tabCombs gops p dd d = t at hlen ht
  rw [List.getD_append_right _ _ _ _ (by omega), hlen, Nat.add_sub_cancel_left]
  cases c with
  | zero => simp [combVal_zero]
  | succ i =>
    rw [List.getD_cons_succ, List.getD_eq_getElem?_getD, List.getElem?_map, List.getElem?_tail,
      List.getElem?_eq_getElem (by omega)]
    have := ht (i + 1) hc
    rw [List.getD_eq_getElem?_getD, List.getElem?_eq_getElem (by omega)] at this
    simp only [Option.getD_some] at this
    change t[i + 1] = combVal dd d (i + 1) • p at this
    simp only [Option.map_some, Option.getD_some, dblN_spec, gops_dbl, this, smul_smul]
    congr 1
    obtain ⟨e', rfl⟩ : ∃ e', e = e' + 1 := ⟨e - 1, by omega⟩
    simp only [Nat.add_sub_cancel]
    ring

theorem tabCombd_lo (p : G) (dd e d c : ℕ) (hc : c < 2 ^ d) :
    (tabCombd gops p dd e d).getD c 0 = combVal dd d c • p := by
  obtain ⟨hlen, ht⟩ := tabCombs_spec p dd d
  unfold tabCombd
  simp only []
  rw [List.getD_append _ _ _ _ (by omega)]
  exact ht c hc

/-- ep_mul_fix_combd on the table of ep_mul_pre_combd: e = ⌈dd/2⌉ (stated as e ≤ dd ≤ 2e), m below 2^(dd·d) -/
theorem mulCombd_spec (p : G) (m dd e d : Nat) (he : 0 < e) (hle : e ≤ dd) (h2 : dd ≤ 2 * e) (hm : m < 2 ^ (dd * d)) :
    mulCombd gops (tabCombd gops p dd e d) m dd e d = (m : ℤ) • p := by
  have hstep : (fun (r : G) (i : ℕ) =>
      let r := gops.dbl r
      let w0 := combCol m dd d i
      let w1 := if i + e < dd then combCol m dd d (i + e) else 0
      gops.add (gops.add r ((tabCombd gops p dd e d).getD w0 gops.zero))
        ((tabCombd gops p dd e d).getD (2 ^ d + w1) gops.zero))
      = fun r i => (2 : ℤ) • r + (combVal dd d (combCol m dd d i)
          + (if i + e < dd then 2 ^ e * combVal dd d (combCol m dd d (i + e)) else 0)) • p := by
    funext r i
    simp only [gops_dbl, gops_add, gops_zero]
    rw [tabCombd_lo p dd e d _ (combCol_lt m dd d i), add_assoc, add_zsmul]
    congr 2
    by_cases h : i + e < dd
    · rw [if_pos h, if_pos h, tabCombd_hi p dd e d _ he (combCol_lt m dd d (i + e))]
    · rw [if_neg h, if_neg h, tabCombd_hi p dd e d 0 he (by positivity), combVal_zero, mul_zero]
  unfold mulCombd
  rw [hstep, gops_zero, loop_eval]
  congr 1
  obtain ⟨n, rfl⟩ : ∃ n, dd = e + n := ⟨dd - e, by omega⟩
  have htot := comb_total m (e + n) d
  rw [Nat.mod_eq_of_lt hm, Finset.sum_range_add] at htot
  rw [← htot]
  simp only [add_mul, Finset.sum_add_distrib, ite_mul, zero_mul]
  congr 1
  rw [← Finset.sum_filter]
  have hf : (Finset.range e).filter (fun i => i + e < e + n) = Finset.range n := by
    ext i
    simp only [Finset.mem_filter, Finset.mem_range]
    omega
  rw [hf]
  apply Finset.sum_congr rfl
  intro i _
  rw [Nat.add_comm i e]
  ring

theorem glv_aux (k c1 c2 a1 b1 a2 b2 lam n : ℤ) (h1 : n ∣ a1 + b1 * lam) (h2 : n ∣ a2 + b2 * lam) :
    n ∣ (k - c1 * a1 - c2 * a2) + (- c1 * b1 - c2 * b2) * lam - k := by
  obtain ⟨a, ha⟩ := h1
  obtain ⟨b, hb⟩ := h2
  exact ⟨-(c1 * a) - c2 * b, by linear_combination (-c1) * ha - c2 * hb⟩

/-- bn_rec_glv: whatever the rounding does, the pair differs from (k, 0) by a lattice vector -/
theorem recGlv_congr (k n : Nat) (v1 v2 : Int × Int × Int) (lam : ℤ)
    (h1 : (n : ℤ) ∣ v1.2.1 + v1.2.2 * lam) (h2 : (n : ℤ) ∣ v2.2.1 + v2.2.2 * lam) :
    (n : ℤ) ∣ (recGlv k n v1 v2).1 + (recGlv k n v1 v2).2 * lam - k := by
  unfold recGlv
  exact glv_aux _ _ _ _ _ _ _ _ _ h1 h2

end Relic.Lemmas.EpComb
