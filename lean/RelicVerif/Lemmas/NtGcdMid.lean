/-
Proofs for Model/NtGcdMid.lean (bn_gcd_ext_mid): every vector the loop records is in the lattice
{(x, y) : x + y·v0 ≡ 0 (mod u0)} of the GLV decomposition, (u0, v0) = (larger, smaller magnitude of the operands).
-/
import Mathlib.Tactic.Ring
import Mathlib.Tactic.LinearCombination
import RelicVerif.Lemmas.NtMod
import RelicVerif.Model.NtGcdMid

namespace Relic.Lemmas.NtGcdMid
open Relic.Model.NtGcdMid

/-- the loop invariant: remainders with their cofactors, and the three recorded vectors, are lattice elements -/
def Inv (u0 v0 : Int) (s : St) : Prop :=
  u0 ∣ s.u - s.t * v0 ∧ u0 ∣ s.v - s.x * v0 ∧ u0 ∣ s.c + s.d * v0 ∧ u0 ∣ s.e + s.f * v0 ∧ u0 ∣ s.w + s.y * v0

theorem midLoop_inv (u0 v0 p : Int) (fuel : Nat) (s : St) (h : Inv u0 v0 s) : Inv u0 v0 (midLoop p fuel s) := by
  induction fuel generalizing s with
  | zero => exact h
  | succ fuel ih =>
    unfold midLoop
    split
    · exact h
    · obtain ⟨h1, h2, h3, h4, h5⟩ := h
      have E : s.u % s.v = s.u - s.v * (s.u / s.v) := Int.emod_def _ _
      -- the new remainder with its cofactor
      have hr : u0 ∣ s.u % s.v - (s.t - s.u / s.v * s.x) * v0 := by
        have : s.u % s.v - (s.t - s.u / s.v * s.x) * v0 = (s.u - s.t * v0) - (s.u / s.v) * (s.v - s.x * v0) := by
          rw [E]; ring
        rw [this]; exact Int.dvd_sub h1 (Dvd.dvd.mul_left h2 _)
      have hr' : u0 ∣ s.u % s.v + -(s.t - s.u / s.v * s.x) * v0 := by
        have : s.u % s.v + -(s.t - s.u / s.v * s.x) * v0 = s.u % s.v - (s.t - s.u / s.v * s.x) * v0 := by ring
        rw [this]; exact hr
      have hw : u0 ∣ s.v + -s.x * v0 := by
        have : s.v + -s.x * v0 = s.v - s.x * v0 := by ring
        rw [this]; exact h2
      have he : u0 ∣ (if s.wait then s.u % s.v else s.e) + (if s.wait then -(s.t - s.u / s.v * s.x) else s.f) * v0 := by
        split
        · exact hr'
        · exact h4
      simp only []
      split
      · exact ih _ ⟨h2, hr, hr', he, hw⟩
      · exact ih _ ⟨h2, hr, h3, he, h5⟩

/-- bn_gcd_ext_mid for a, b ≠ 0: it returns (bn_srt cannot fail), and both output vectors are lattice elements, provided the
caller's prior output values are (e.g. zero) -/
theorem gcdExtMid_spec (c0 d0 e0 f0 a b : Int) (ha : a ≠ 0) (hb : b ≠ 0)
    (u0 v0 : Int) (hu : u0 = if a.natAbs > b.natAbs then (a.natAbs : Int) else (b.natAbs : Int))
    (hv : v0 = if a.natAbs > b.natAbs then (b.natAbs : Int) else (a.natAbs : Int))
    (h0 : u0 ∣ c0 + d0 * v0) (h1 : u0 ∣ e0 + f0 * v0) :
    ∃ c d e f, gcdExtMid c0 d0 e0 f0 a b = some (c, d, e, f) ∧ u0 ∣ c + d * v0 ∧ u0 ∣ e + f * v0 := by
  unfold gcdExtMid
  simp only [ha, hb, if_false]
  rw [← hu, ← hv]
  have hun : ∃ n : Nat, u0 = (n : Int) := by
    rw [hu]; split
    · exact ⟨_, rfl⟩
    · exact ⟨_, rfl⟩
  obtain ⟨n, hn⟩ := hun
  rw [hn, Relic.Lemmas.NtMod.bnSrt_eq_sqrt n, ← hn]
  simp only []
  have hinv := midLoop_inv u0 v0 (Nat.sqrt n : Int) (v0.toNat + 1) ⟨u0, v0, 1, 0, c0, d0, e0, f0, 0, 0, false⟩
    ⟨by simp, by simp, h0, h1, by simp⟩
  obtain ⟨_, _, i3, i4, i5⟩ := hinv
  split
  · exact ⟨_, _, _, _, rfl, i3, i5⟩
  · exact ⟨_, _, _, _, rfl, i3, i4⟩

end Relic.Lemmas.NtGcdMid
